import Mathlib.Tactic.Ring
import Mathlib.Tactic.FieldSimp
import Mathlib.Tactic.Linarith
import Mathlib.Algebra.Field.Basic
/-! spike: C10 crash consistency of the backup-then-rewrite sequence; C12 Akima piece is C¹ -/

namespace Crash
/-- a file is either a complete job list (version v) or torn (being rewritten) -/
inductive F | complete (v : Nat) | torn deriving DecidableEq, Repr
/-- SyncWithProgFile's two writes: backup := mem (truncate, then complete), job file := mem' -/
inductive PC | start | bakTorn | bakDone | fileTorn | fileDone deriving DecidableEq, Repr
structure S where (pc : PC) (file bak : F) (mem : Nat)
def step (s : S) : S :=
  match s.pc with
  | .start    => { s with pc := .bakTorn, bak := .torn }
  | .bakTorn  => { s with pc := .bakDone, bak := .complete s.mem }
  | .bakDone  => { s with pc := .fileTorn, file := .torn }
  | .fileTorn => { s with pc := .fileDone, file := .complete (s.mem + 1) }
  | .fileDone => { s with pc := .start, mem := s.mem + 1 }
def ok : F → Prop | .complete _ => True | .torn => False
/-- the program point determines which of the two files may be torn -/
def Inv (s : S) : Prop :=
  match s.pc with
  | .start | .fileDone => ok s.file ∧ ok s.bak
  | .bakTorn => ok s.file
  | .bakDone => ok s.file ∧ ok s.bak
  | .fileTorn => ok s.bak
theorem inv_step (s : S) (h : Inv s) : Inv (step s) := by
  cases s with | mk pc file bak mem => cases pc <;> simp_all [Inv, step, ok]
/-- at every instant (= after any number of steps, i.e. at any crash point) one of the two is complete -/
theorem one_complete (s : S) (h : Inv s) : ok s.file ∨ ok s.bak := by
  cases s with | mk pc file bak mem => cases pc <;> simp_all [Inv]
theorem always_one_complete (s : S) (h : Inv s) (n : Nat) : ok (step^[n] s).file ∨ ok (step^[n] s).bak := by
  have : ∀ n s, Inv s → Inv (step^[n] s) := by
    intro n; induction n with
    | zero => intro s h; exact h
    | succ n ih => intro s h; rw [Function.iterate_succ_apply]; exact ih _ (inv_step s h)
  exact one_complete _ (this n s h)
end Crash

namespace Akima
variable {α : Type} [Field α] [CharZero α]
/-- AkimaSpline piece on [x0, x1] with slopes t0, t1 (coefficients as in akimaspline.cc) -/
def p2 (h y0 y1 t0 t1 : α) : α := (3 * (y1 - y0) / h - 2 * t0 - t1) / h
def p3 (h y0 y1 t0 t1 : α) : α := (t0 + t1 - 2 * (y1 - y0) / h) / (h * h)
def val (h y0 y1 t0 t1 z : α) : α := y0 + t0 * z + p2 h y0 y1 t0 t1 * z * z + p3 h y0 y1 t0 t1 * z * z * z
def der (h y0 y1 t0 t1 z : α) : α := t0 + 2 * p2 h y0 y1 t0 t1 * z + 3 * p3 h y0 y1 t0 t1 * z * z
theorem val_left (h y0 y1 t0 t1 : α) : val h y0 y1 t0 t1 0 = y0 := by simp [val]
theorem der_left (h y0 y1 t0 t1 : α) : der h y0 y1 t0 t1 0 = t0 := by simp [der]
/-- value and slope at the right end are y1 and t1: neighbouring pieces join with equal value and slope -/
theorem val_right (h y0 y1 t0 t1 : α) (hh : h ≠ 0) : val h y0 y1 t0 t1 h = y1 := by
  simp only [val, p2, p3]; field_simp; ring
theorem der_right (h y0 y1 t0 t1 : α) (hh : h ≠ 0) : der h y0 y1 t0 t1 h = t1 := by
  simp only [der, p2, p3]; field_simp; ring
/-- straight-line data with the line's slope at both knots is reproduced -/
theorem line (h m c x0 z : α) (hh : h ≠ 0) :
    val h (m * x0 + c) (m * (x0 + h) + c) m m z = m * (x0 + z) + c := by
  simp only [val, p2, p3]; field_simp; ring
end Akima
#print axioms Crash.always_one_complete
#print axioms Akima.der_right
#print axioms Akima.line
