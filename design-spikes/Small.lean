import Mathlib.Tactic.Linarith
import Mathlib.Tactic.Ring
import Mathlib.Tactic.FieldSimp
import Mathlib.Tactic.NormNum
import Mathlib.Algebra.Order.Floor.Ring
import Mathlib.Algebra.Order.Field.Basic
import Mathlib.Analysis.SpecialFunctions.Log.Basic
/-! spike: remaining small obligations: C02 (distance below half the shortest height ⇒ inside every slab),
    C08 (fixed-decimal printing error), C19 (IBI update), C12 (linear spline between knots) -/

namespace Slab
variable {α : Type} [Field α] [LinearOrder α] [IsStrictOrderedRing α]
/-- squared heights of an upper-triangular box never exceed the squared diagonal elements -/
theorem height_y_le (bY cy cz : α) (hcz : 0 < cz) :
    bY ^ 2 * cz ^ 2 / (cy ^ 2 + cz ^ 2) ≤ bY ^ 2 := by
  have hpos : 0 < cy ^ 2 + cz ^ 2 := by positivity
  rw [div_le_iff₀ hpos]
  nlinarith [sq_nonneg (bY * cy)]

/-- if the squared length of d is below H/4 and H is at most every squared diagonal element,
    d lies strictly inside the half-slab in each direction (the hypothesis of `micTri_recovers`) -/
theorem inside_slabs (dx dy dz ax bY cz H : α) (hax : 0 < ax) (hby : 0 < bY) (hcz : 0 < cz)
    (hd : dx ^ 2 + dy ^ 2 + dz ^ 2 < H / 4) (h1 : H ≤ ax ^ 2) (h2 : H ≤ bY ^ 2) (h3 : H ≤ cz ^ 2) :
    |dx| < ax / 2 ∧ |dy| < bY / 2 ∧ |dz| < cz / 2 := by
  have key : ∀ (t L : α), 0 < L → t ^ 2 < L ^ 2 / 4 → |t| < L / 2 := by
    intro t L hL ht
    have h4 : |t| ^ 2 < (L / 2) ^ 2 := by rw [sq_abs]; nlinarith
    exact lt_of_pow_lt_pow_left₀ 2 (by positivity) h4
  refine ⟨key dx ax hax ?_, key dy bY hby ?_, key dz cz hcz ?_⟩
  · nlinarith [sq_nonneg dy, sq_nonneg dz]
  · nlinarith [sq_nonneg dx, sq_nonneg dz]
  · nlinarith [sq_nonneg dx, sq_nonneg dy]
end Slab

namespace Dec
variable {α : Type} [Field α] [LinearOrder α] [IsStrictOrderedRing α] [FloorRing α]
/-- value printed by `%.kf` (round to nearest multiple of 10⁻ᵏ), exact-arithmetic model -/
def roundDec (k : Nat) (x : α) : α := (⌊x * 10 ^ k + 1 / 2⌋ : Int) / 10 ^ k
theorem roundDec_err (k : Nat) (x : α) : |roundDec k x - x| ≤ 1 / 2 / 10 ^ k := by
  unfold roundDec
  have hp : (0 : α) < 10 ^ k := by positivity
  have h1 := Int.floor_le (x * 10 ^ k + 1 / 2)
  have h2 := Int.lt_floor_add_one (x * 10 ^ k + 1 / 2)
  set n : α := ((⌊x * 10 ^ k + 1 / 2⌋ : Int) : α) with hn
  have e : n / 10 ^ k - x = (n - x * 10 ^ k) / 10 ^ k := by field_simp
  rw [e, abs_div, abs_of_pos hp, div_le_div_iff_of_pos_right hp, abs_le]
  constructor <;> linarith
/-- what is printed is read back unchanged (a printed value is already a multiple of 10⁻ᵏ) -/
theorem roundDec_idem (k : Nat) (x : α) : roundDec k (roundDec k x) = roundDec k x := by
  unfold roundDec
  have hp : (10 : α) ^ k ≠ 0 := by positivity
  rw [div_mul_cancel₀ _ hp]
  congr 2
  rw [Int.floor_eq_iff]; constructor <;> push_cast <;> linarith
end Dec

namespace IBI
open Real
/-- update_ibi_pot.pl, one grid point: dU = kT · log(g_cur / g_tgt) when both exceed 1e-10 -/
noncomputable def dU (kT gcur gtgt last : ℝ) : ℝ × Bool :=
  if gtgt > 1e-10 ∧ gcur > 1e-10 then (log (gcur / gtgt) * kT, true) else (last, false)
theorem zero_when_equal (kT g last : ℝ) (hg : g > 1e-10) : dU kT g g last = (0, true) := by
  unfold dU
  have : g ≠ 0 := by intro h; rw [h] at hg; norm_num at hg
  simp [hg, div_self this]
theorem carries_last (kT gcur gtgt last : ℝ) (h : ¬ (gtgt > 1e-10 ∧ gcur > 1e-10)) :
    dU kT gcur gtgt last = (last, false) := by
  unfold dU; simp [h]
end IBI

namespace Lin
variable {α : Type} [Field α]
/-- LinSpline on one interval: a·r + b with a = (y1-y0)/(x1-x0), b = y0 - a·x0 -/
def seg (x0 x1 y0 y1 r : α) : α := (y1 - y0) / (x1 - x0) * r + (y0 - (y1 - y0) / (x1 - x0) * x0)
theorem seg_left (x0 x1 y0 y1 : α) : seg x0 x1 y0 y1 x0 = y0 := by unfold seg; ring
theorem seg_right (x0 x1 y0 y1 : α) (h : x1 ≠ x0) : seg x0 x1 y0 y1 x1 = y1 := by
  unfold seg
  have : x1 - x0 ≠ 0 := sub_ne_zero.2 h
  field_simp; ring
/-- straight-line data is reproduced everywhere, also outside the interval (clamped extrapolation) -/
theorem seg_line (x0 x1 m c r : α) (h : x1 ≠ x0) : seg x0 x1 (m * x0 + c) (m * x1 + c) r = m * r + c := by
  unfold seg
  have : x1 - x0 ≠ 0 := sub_ne_zero.2 h
  field_simp; ring
/-- linear in the ordinates -/
theorem seg_add (x0 x1 y0 y1 z0 z1 r : α) :
    seg x0 x1 (y0 + z0) (y1 + z1) r = seg x0 x1 y0 y1 r + seg x0 x1 z0 z1 r := by unfold seg; ring
end Lin
#print axioms Slab.inside_slabs
#print axioms Dec.roundDec_err
#print axioms Dec.roundDec_idem
#print axioms IBI.zero_when_equal
#print axioms Lin.seg_line
