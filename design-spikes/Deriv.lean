import Mathlib.Analysis.SpecialFunctions.ExpDeriv
import Mathlib.Analysis.SpecialFunctions.Trigonometric.InverseDeriv
import Mathlib.Analysis.SpecialFunctions.Sqrt
/-! spike: derivative obligations of C07 -/
open Real

/-- LJG: d/dλ3 [ a * exp(-λ3 * d^2) ] = -a * d^2 * exp(-λ3 d^2)  (CalculateDF case 3) -/
theorem ljg_dlam3 (a d b : ℝ) :
    HasDerivAt (fun b => a * exp ((-1) * b * d * d)) ((-1) * a * d * d * exp ((-1) * b * d * d)) b := by
  have h1 : HasDerivAt (fun b : ℝ => (-1) * b * d * d) ((-1) * d * d) b := by
    have := ((hasDerivAt_id b).const_mul ((-1) : ℝ)).mul_const d |>.mul_const d
    simpa using this
  have h2 := (h1.exp).const_mul a
  exact h2.congr_deriv (by ring)

/-- LJG: d/dλ4 [ a * exp(-b (r-c)^2) ] = 2 a b (r-c) exp(..)   (CalculateDF case 4) -/
theorem ljg_dlam4 (a b r c : ℝ) :
    HasDerivAt (fun c => a * exp ((-1) * b * (r - c) * (r - c))) (2 * a * b * (r - c) * exp ((-1) * b * (r - c) * (r - c))) c := by
  have hrc : HasDerivAt (fun c : ℝ => r - c) (-1) c := by
    simpa using (hasDerivAt_id c).const_sub r
  have h1 : HasDerivAt (fun c : ℝ => (-1) * b * (r - c) * (r - c)) (((-1) * b * (-1)) * (r - c) + ((-1) * b * (r - c)) * (-1)) c := by
    exact ((hrc.const_mul ((-1) * b)).mul hrc)
  have h2 := (h1.exp).const_mul a
  exact h2.congr_deriv (by ring)

/-- angle along a line: θ(t) = arccos (g t); chain rule with the code's `acos_prime` sign -/
theorem angle_chain (g : ℝ → ℝ) (g' t : ℝ) (hg : HasDerivAt g g' t) (h1 : g t ≠ -1) (h2 : g t ≠ 1) :
    HasDerivAt (fun t => arccos (g t)) (-(1 / sqrt (1 - g t ^ 2)) * g') t :=
  (Real.hasDerivAt_arccos h1 h2).comp t hg

/-- cos of the angle between v1+t e and v2 (components), derivative at t=0 -/
theorem cos_line (a1 a2 a3 b1 b2 b3 e1 e2 e3 : ℝ)
    (ha : 0 < a1*a1 + a2*a2 + a3*a3) (hb : 0 < b1*b1 + b2*b2 + b3*b3) :
    let n1 := sqrt (a1*a1 + a2*a2 + a3*a3)
    let n2 := sqrt (b1*b1 + b2*b2 + b3*b3)
    let dot := a1*b1 + a2*b2 + a3*b3
    HasDerivAt (fun t : ℝ => ((a1 + t*e1)*b1 + (a2 + t*e2)*b2 + (a3 + t*e3)*b3) /
        (sqrt ((a1 + t*e1)*(a1 + t*e1) + (a2 + t*e2)*(a2 + t*e2) + (a3 + t*e3)*(a3 + t*e3)) * n2))
      ((e1*b1 + e2*b2 + e3*b3) / (n1 * n2) - dot * (a1*e1 + a2*e2 + a3*e3) / (n1^3 * n2)) 0 := by
  intro n1 n2 dot
  have hn1 : 0 < n1 := sqrt_pos.2 ha
  have hn2 : 0 < n2 := sqrt_pos.2 hb
  have lin : ∀ (a e : ℝ), HasDerivAt (fun t : ℝ => a + t * e) e 0 := by
    intro a e; simpa using ((hasDerivAt_id (0:ℝ)).mul_const e).const_add a
  have hnum : HasDerivAt (fun t : ℝ => (a1 + t*e1)*b1 + (a2 + t*e2)*b2 + (a3 + t*e3)*b3)
      (e1*b1 + e2*b2 + e3*b3) 0 :=
    (((lin a1 e1).mul_const b1).add ((lin a2 e2).mul_const b2)).add ((lin a3 e3).mul_const b3)
  have hsq : HasDerivAt (fun t : ℝ => (a1 + t*e1)*(a1 + t*e1) + (a2 + t*e2)*(a2 + t*e2) + (a3 + t*e3)*(a3 + t*e3))
      (2 * (a1*e1 + a2*e2 + a3*e3)) 0 := by
    have := (((lin a1 e1).mul (lin a1 e1)).add ((lin a2 e2).mul (lin a2 e2))).add ((lin a3 e3).mul (lin a3 e3))
    exact this.congr_deriv (by ring)
  have hpos0 : (a1 + 0*e1)*(a1 + 0*e1) + (a2 + 0*e2)*(a2 + 0*e2) + (a3 + 0*e3)*(a3 + 0*e3) ≠ 0 := by
    simp; exact ne_of_gt ha
  have hsqrt := hsq.sqrt hpos0
  have hden := hsqrt.mul_const n2
  have hden0 : sqrt ((a1 + 0*e1)*(a1 + 0*e1) + (a2 + 0*e2)*(a2 + 0*e2) + (a3 + 0*e3)*(a3 + 0*e3)) * n2 ≠ 0 := by
    simp; exact ⟨ne_of_gt hn1, ne_of_gt hn2⟩
  have hq := hnum.div hden hden0
  refine hq.congr_deriv ?_
  have e0 : sqrt ((a1 + 0*e1)*(a1 + 0*e1) + (a2 + 0*e2)*(a2 + 0*e2) + (a3 + 0*e3)*(a3 + 0*e3)) = n1 := by
    simp [n1]
  have hsq1 : n1 * n1 = a1*a1 + a2*a2 + a3*a3 := by
    simp only [n1]; exact mul_self_sqrt ha.le
  simp only [zero_mul, add_zero]
  have hn1' : n1 ≠ 0 := ne_of_gt hn1
  have hn2' : n2 ≠ 0 := ne_of_gt hn2
  field_simp
  have e1' : √(a1 ^ 2 + a2 ^ 2 + a3 ^ 2) = n1 := by simp only [n1]; congr 1; ring
  rw [e1']
  simp only [dot]
  field_simp

#print axioms ljg_dlam4
#print axioms ljg_dlam3
#print axioms cos_line
