/-! spike: RangeParser blocks and iteration (tools/rangeparser.{h,cc}), core Lean only -/
namespace Range

structure Block where
  (b s e : Int)
deriving DecidableEq, Repr

/-- ParseBlock's acceptance test -/
def accepted (k : Block) : Bool := !(k.b * k.s > k.e * k.s)

/-- iterator::operator++ within one block: the next value, or none when the block is left -/
def next (k : Block) (cur : Int) : Option Int :=
  let c := cur + k.s
  if c > k.e then none else some c

/-- the values a block yields, with a step budget (iteration need not terminate) -/
def enum (k : Block) : Nat → Int → List Int
  | 0, _ => []
  | fuel + 1, cur => cur :: (match next k cur with | none => [] | some c => enum k fuel c)

/-- does iteration over the block finish within `fuel` increments? -/
def finishes (k : Block) : Nat → Int → Bool
  | 0, _ => false
  | fuel + 1, cur => match next k cur with | none => true | some c => finishes k fuel c

/-- the full-strength statement ("every accepted expression terminates") is FALSE for the current code:
    `1:0:1` is accepted and never leaves the block -/
theorem zero_stride_accepted_and_loops : accepted ⟨1, 0, 1⟩ = true ∧ ∀ fuel, finishes ⟨1, 0, 1⟩ fuel 1 = false := by
  refine ⟨by decide, ?_⟩
  intro fuel
  induction fuel with
  | zero => rfl
  | succ n ih => simp only [finishes, next]; simpa using ih

/-- `5:-1:1` is accepted but yields only its first element -/
theorem negative_stride_truncated : accepted ⟨5, -1, 1⟩ = true ∧ enum ⟨5, -1, 1⟩ 10 5 = [5] := by decide

/-- partial: for a positive stride iteration finishes, within (e-b)/s + 1 increments -/
theorem pos_stride_finishes (k : Block) (hs : 0 < k.s) :
    ∀ (fuel : Nat) (cur : Int), cur ≤ k.e → k.e - cur < fuel * k.s → finishes k fuel cur = true := by
  intro fuel
  induction fuel with
  | zero => intro cur hle h; simp at h; omega
  | succ n ih =>
    intro cur hle h
    simp only [finishes, next]
    by_cases hc : cur + k.s > k.e
    · simp [hc]
    · simp only [hc, if_false]
      have this : ((n + 1 : Nat) : Int) * k.s = n * k.s + k.s := by
        push_cast; rw [Int.add_mul, Int.one_mul]
      rw [this] at h
      exact ih (cur + k.s) (by omega) (by omega)

/-- partial: for a positive stride the values are exactly the arithmetic progression b, b+s, … ≤ e -/
theorem pos_stride_enum (k : Block) (hs : 0 < k.s) :
    ∀ (fuel : Nat) (cur : Int), cur ≤ k.e → k.e - cur < fuel * k.s →
      ∀ v, v ∈ enum k fuel cur ↔ (cur ≤ v ∧ v ≤ k.e ∧ ∃ m : Nat, v = cur + m * k.s) := by
  intro fuel
  induction fuel with
  | zero => intro cur _ h; simp at h; omega
  | succ n ih =>
    intro cur hle h v
    have hstep : ((n + 1 : Nat) : Int) * k.s = n * k.s + k.s := by
      push_cast; rw [Int.add_mul, Int.one_mul]
    simp only [enum, next]
    by_cases hc : cur + k.s > k.e
    · simp only [hc, if_true, List.mem_singleton]
      constructor
      · intro hv; subst hv; exact ⟨Int.le_refl _, hle, 0, by simp⟩
      · rintro ⟨h1, h2, m, hm⟩
        cases m with
        | zero => simpa using hm
        | succ m =>
          exfalso
          have : (0:Int) ≤ m * k.s := Int.mul_nonneg (Int.ofNat_nonneg m) (Int.le_of_lt hs)
          push_cast at hm; rw [Int.add_mul] at hm; omega
    · simp only [hc, if_false, List.mem_cons]
      have hle' : cur + k.s ≤ k.e := by omega
      rw [ih (cur + k.s) hle' (by rw [hstep] at h; omega) v]
      constructor
      · rintro (hv | ⟨h1, h2, m, hm⟩)
        · subst hv; exact ⟨Int.le_refl _, hle, 0, by simp⟩
        · refine ⟨by omega, h2, m + 1, ?_⟩
          push_cast; rw [Int.add_mul]; omega
      · rintro ⟨h1, h2, m, hm⟩
        cases m with
        | zero => left; simpa using hm
        | succ m =>
          right
          have : (0:Int) ≤ m * k.s := Int.mul_nonneg (Int.ofNat_nonneg m) (Int.le_of_lt hs)
          push_cast at hm; rw [Int.add_mul] at hm
          exact ⟨by omega, h2, m, by omega⟩

end Range
#print axioms Range.zero_stride_accepted_and_loops
#print axioms Range.pos_stride_enum
