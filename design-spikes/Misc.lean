import Mathlib.Tactic.Linarith
import Mathlib.Tactic.Ring
import Mathlib.Tactic.FieldSimp
import Mathlib.Tactic.NormNum
import Mathlib.Algebra.Order.Field.Basic
import Mathlib.Algebra.BigOperators.Group.List.Basic
/-! spike: smaller obligations — C13 weight conservation, C20 conversion algebra, C01 mapping algebra,
    C17 matrix hyperslab index map -/

namespace HistSum
variable {α : Type} [Field α]
/-- bins as a list; `process` adds w at index i if it is in range (the accept/reject decision
    is abstracted into `idx : value → Option Nat`) -/
def addAt : List α → Nat → α → List α
  | [], _, _ => []
  | y :: ys, 0, w => (y + w) :: ys
  | y :: ys, i + 1, w => y :: addAt ys i w

theorem addAt_length (ys : List α) (i : Nat) (w : α) : (addAt ys i w).length = ys.length := by
  induction ys generalizing i with
  | nil => rfl
  | cons y ys ih => cases i <;> simp [addAt, ih]

theorem addAt_sum (ys : List α) (i : Nat) (w : α) (hi : i < ys.length) : (addAt ys i w).sum = ys.sum + w := by
  induction ys generalizing i with
  | nil => simp at hi
  | cons y ys ih =>
    cases i with
    | zero => simp [addAt]; ring
    | succ i => simp [addAt, ih i (by simpa using hi)]; ring

def process (idx : α → Option Nat) (ys : List α) (vw : α × α) : List α :=
  match idx vw.1 with
  | some i => addAt ys i vw.2
  | none => ys

def accepted (idx : α → Option Nat) (vw : α × α) : α := match idx vw.1 with | some _ => vw.2 | none => 0

/-- the sum of the bins grows by exactly the total weight of the accepted values, for every stream -/
theorem weight_conservation (idx : α → Option Nat) (n : Nat) (hidx : ∀ v i, idx v = some i → i < n) :
    ∀ (stream : List (α × α)) (ys : List α), ys.length = n →
      (stream.foldl (process idx) ys).sum = ys.sum + (stream.map (accepted idx)).sum ∧
      (stream.foldl (process idx) ys).length = n := by
  intro stream
  induction stream with
  | nil => intro ys h; simp [h]
  | cons vw rest ih =>
    intro ys h
    simp only [List.foldl_cons, List.map_cons, List.sum_cons]
    cases hv : idx vw.1 with
    | none =>
      have : process idx ys vw = ys := by simp [process, hv]
      rw [this]
      obtain ⟨a, b⟩ := ih ys h
      exact ⟨by rw [a]; simp [accepted, hv], b⟩
    | some i =>
      have hp : process idx ys vw = addAt ys i vw.2 := by simp [process, hv]
      have hi := hidx vw.1 i hv
      rw [hp]
      obtain ⟨a, b⟩ := ih (addAt ys i vw.2) (by rw [addAt_length, h])
      refine ⟨?_, b⟩
      rw [a, addAt_sum ys i vw.2 (by rw [h]; exact hi)]
      simp [accepted, hv]; ring
end HistSum

namespace Units
variable {α : Type} [Field α]
/-- UnitConverter::convert for one dimension -/
def convert {U : Type} (t : U → α) (a b : U) : α := t b / t a
theorem there_and_back {U : Type} (t : U → α) (h : ∀ u, t u ≠ 0) (a b : U) :
    convert t a b * convert t b a = 1 := by
  unfold convert; have := h a; have := h b; field_simp
theorem transitive {U : Type} (t : U → α) (h : ∀ u, t u ≠ 0) (a b c : U) :
    convert t a b * convert t b c = convert t a c := by
  unfold convert; have := h a; have := h b; field_simp
/-- finite-table obligation, as generated from unitconverter.h (distance, w.r.t. Angstrom) -/
inductive Dist | meters | centimeters | nanometers | angstroms | bohr deriving DecidableEq
def distTab : Dist → ℚ
  | .meters => 1/10^10 | .centimeters => 1/10^8 | .nanometers => 1/10 | .angstroms => 1
  | .bohr => 18897161646321/10^13
theorem distTab_ne_zero : ∀ u, distTab u ≠ 0 := by intro u; cases u <;> norm_num [distTab]
/-- bohr per Angstrom against CODATA 2018 (1/0.529177210903), to 5e-5 relative -/
theorem bohr_codata : |distTab .bohr / (1 / (529177210903/10^12 : ℚ)) - 1| < 5/10^5 := by
  norm_num [distTab, abs_lt]
end Units

namespace MapAlg
variable {α : Type} [Field α] [LinearOrder α] [IsStrictOrderedRing α]
/-- one coordinate of Map_Sphere::Apply: Σ wᵢ (r0 + uᵢ) with uᵢ = mic(r0, rᵢ) -/
def cg (ws us : List α) (r0 : α) : α := ((List.zip ws us).map (fun p => p.1 * (r0 + p.2))).sum

theorem cg_translate_gen (ws us : List α) (r0 t : α) (hlen : ws.length = us.length) :
    cg ws us (r0 + t) = cg ws us r0 + ws.sum * t := by
  unfold cg
  induction ws generalizing us with
  | nil => simp
  | cons w ws ih =>
    cases us with
    | nil => simp at hlen
    | cons u us =>
      simp only [List.zip_cons_cons, List.map_cons, List.sum_cons]
      rw [ih us (by simpa using hlen)]
      ring

/-- rigid translation: mic(r0+t, rᵢ+t) = mic(r0, rᵢ), so only r0 moves; normalised weights sum to 1 -/
theorem cg_translate (ws us : List α) (r0 t : α) (hlen : ws.length = us.length) (hsum : ws.sum = 1) :
    cg ws us (r0 + t) = cg ws us r0 + t := by
  rw [cg_translate_gen ws us r0 t hlen, hsum, one_mul]

/-- convex hull (one coordinate): non-negative normalised weights keep the bead between the extreme
    unwrapped parents -/
theorem cg_between (ws us : List α) (r0 lo hi : α) (hlen : ws.length = us.length)
    (hw : ∀ w ∈ ws, 0 ≤ w) (hlo : ∀ u ∈ us, lo ≤ r0 + u) (hhi : ∀ u ∈ us, r0 + u ≤ hi) :
    ws.sum * lo ≤ cg ws us r0 ∧ cg ws us r0 ≤ ws.sum * hi := by
  unfold cg
  induction ws generalizing us with
  | nil => simp
  | cons w ws ih =>
    cases us with
    | nil => simp at hlen
    | cons u us =>
      simp only [List.zip_cons_cons, List.map_cons, List.sum_cons]
      have hw0 : 0 ≤ w := hw w (by simp)
      obtain ⟨a, b⟩ := ih us (by simpa using hlen) (fun x hx => hw x (by simp [hx]))
        (fun x hx => hlo x (by simp [hx])) (fun x hx => hhi x (by simp [hx]))
      have h1 := hlo u (by simp)
      have h2 := hhi u (by simp)
      constructor
      · nlinarith [mul_le_mul_of_nonneg_left h1 hw0]
      · nlinarith [mul_le_mul_of_nonneg_left h2 hw0]
end MapAlg

namespace Hyper
/-- CheckpointWriter/Reader matrix layout: memory is column-major (index r + c*rows),
    the file dataset is row-major rows×cols (index r*cols + c); row r of the file is the memory
    elements r, r+rows, r+2·rows, … -/
def memIdx (rows r c : Nat) : Nat := r + c * rows
def fileIdx (cols r c : Nat) : Nat := r * cols + c

/-- the two index maps are injective on the index rectangle, so write-then-read is the identity -/
theorem memIdx_inj (rows : Nat) (r c r' c' : Nat) (hr : r < rows) (hr' : r' < rows)
    (h : memIdx rows r c = memIdx rows r' c') : r = r' ∧ c = c' := by
  unfold memIdx at h
  have h1 : (r + c * rows) % rows = (r' + c' * rows) % rows := by rw [h]
  simp [Nat.add_mul_mod_self_right, Nat.mod_eq_of_lt hr, Nat.mod_eq_of_lt hr'] at h1
  subst h1
  have : c * rows = c' * rows := by omega
  exact ⟨rfl, Nat.eq_of_mul_eq_mul_right (by omega) this⟩

theorem fileIdx_inj (cols : Nat) (r c r' c' : Nat) (hc : c < cols) (hc' : c' < cols)
    (h : fileIdx cols r c = fileIdx cols r' c') : r = r' ∧ c = c' := by
  unfold fileIdx at h
  have h1 : (r * cols + c) % cols = (r' * cols + c') % cols := by rw [h]
  simp [Nat.mul_add_mod_self_right, Nat.mod_eq_of_lt hc, Nat.mod_eq_of_lt hc'] at h1
  subst h1
  have : r * cols = r' * cols := by omega
  exact ⟨Nat.eq_of_mul_eq_mul_right (by omega) this, rfl⟩
end Hyper
#print axioms HistSum.weight_conservation
#print axioms Units.transitive
#print axioms Units.bohr_codata
#print axioms MapAlg.cg_translate
#print axioms MapAlg.cg_between
#print axioms Hyper.memIdx_inj
