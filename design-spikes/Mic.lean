import Mathlib.Tactic.Linarith
import Mathlib.Tactic.Ring
import Mathlib.Tactic.FieldSimp
import Mathlib.Algebra.Order.Floor.Ring
import Mathlib.Algebra.Order.Field.Basic
import Mathlib.Tactic.NormNum
/-! spike: std::round (half away from zero), 1-D minimum image, grid cell adjacency -/
namespace Mic
variable {α : Type} [Field α] [LinearOrder α] [IsStrictOrderedRing α] [FloorRing α]

/-- std::round -/
def roundHA (x : α) : Int := if 0 ≤ x then ⌊x + 1/2⌋ else -⌊-x + 1/2⌋

theorem roundHA_neg (x : α) : roundHA (-x) = - roundHA x := by
  unfold roundHA
  rcases lt_trichotomy x 0 with h | h | h
  · have h1 : (0:α) ≤ -x := by linarith
    have h2 : ¬ (0:α) ≤ x := by linarith
    simp [h1, h2]
  · subst h
    have : ⌊(2⁻¹ : α)⌋ = 0 := by
      rw [Int.floor_eq_iff]; constructor <;> norm_num
    simp [this]
  · have h1 : ¬ (0:α) ≤ -x := by linarith
    have h2 : (0:α) ≤ x := by linarith
    simp [h1, h2]

theorem roundHA_close (x : α) : |x - roundHA x| ≤ 1/2 := by
  unfold roundHA
  split
  · have h1 : ((⌊x + 1/2⌋ : Int) : α) ≤ x + 1/2 := Int.floor_le _
    have h2 : x + 1/2 < ⌊x + 1/2⌋ + 1 := Int.lt_floor_add_one _
    rw [abs_le]; constructor <;> linarith
  · have h1 : ((⌊-x + 1/2⌋ : Int) : α) ≤ -x + 1/2 := Int.floor_le _
    have h2 : -x + 1/2 < ⌊-x + 1/2⌋ + 1 := Int.lt_floor_add_one _
    push_cast
    rw [abs_le]; constructor <;> linarith

/-- one component of OrthorhombicBox::BCShortestConnection -/
def mic1 (L r : α) : α := r - L * roundHA (r / L)

theorem mic1_antisymm (L r : α) : mic1 L (-r) = - mic1 L r := by
  unfold mic1; rw [neg_div, roundHA_neg]; push_cast; ring

theorem mic1_bound (L r : α) (hL : 0 < L) : |mic1 L r| ≤ L / 2 := by
  unfold mic1
  have h := roundHA_close (r / L)
  have : r - L * (roundHA (r / L) : α) = L * (r / L - roundHA (r / L)) := by field_simp
  rw [this, abs_mul, abs_of_pos hL]
  calc L * |r / L - ↑(roundHA (r / L))| ≤ L * (1/2) := by
        apply mul_le_mul_of_nonneg_left h hL.le
    _ = L / 2 := by ring

/-- it is an image: differs from r by an integer multiple of L -/
theorem mic1_lattice (L r : α) : ∃ k : Int, mic1 L r = r - k * L := ⟨roundHA (r / L), by unfold mic1; ring⟩

/-- shortest among all images, always (orthorhombic, per component) -/
theorem mic1_shortest (L r : α) (hL : 0 < L) (k : Int) : |mic1 L r| ≤ |r - k * L| := by
  obtain ⟨m, hm⟩ := mic1_lattice L r
  have hb := mic1_bound L r hL
  by_cases hk : k = m
  · subst hk; rw [hm]
  · -- another image is at least L away from mic1, which is within L/2 of 0
    have hd : (1:α) ≤ |((m - k : Int) : α)| := by
      have : (m - k : Int) ≠ 0 := by omega
      have := Int.one_le_abs this
      exact_mod_cast this
    have e : r - k * L = mic1 L r + ((m - k : Int) : α) * L := by rw [hm]; push_cast; ring
    rw [e]
    have h3 : L ≤ |((m - k : Int) : α) * L| := by
      rw [abs_mul, abs_of_pos hL]; nlinarith
    have tri : |((m - k : Int) : α) * L| ≤ |mic1 L r + ((m - k : Int) : α) * L| + |mic1 L r| := by
      have := abs_sub_abs_le_abs_sub (mic1 L r + ((m - k : Int) : α) * L) (mic1 L r)
      have e2 : mic1 L r + ((m - k : Int) : α) * L - mic1 L r = ((m - k : Int) : α) * L := by ring
      rw [e2] at this
      have := abs_add_le (mic1 L r + ((m - k : Int) : α) * L) (-(mic1 L r))
      simp only [abs_neg] at this
      have e3 : mic1 L r + ((m - k : Int) : α) * L + -(mic1 L r) = ((m - k : Int) : α) * L := by ring
      rw [e3] at this; exact this
    linarith

/-- grid cells: if two scaled coordinates differ by less than one cell (up to whole periods N),
    their floor indices differ by -1, 0 or 1 modulo N -/
theorem cell_adjacent (su sv : α) (N m : Int) (h : |su - sv - (m * N : Int)| < 1) :
    ∃ δ : Int, (δ = -1 ∨ δ = 0 ∨ δ = 1) ∧ (⌊su⌋ - ⌊sv⌋ - δ) % N = 0 := by
  have a1 := Int.floor_le su
  have a2 := Int.lt_floor_add_one su
  have b1 := Int.floor_le sv
  have b2 := Int.lt_floor_add_one sv
  rw [abs_lt] at h
  obtain ⟨h1, h2⟩ := h
  -- the integer d = ⌊su⌋ - ⌊sv⌋ - m N satisfies -2 < d < 2
  have hd1 : ((⌊su⌋ - ⌊sv⌋ - m * N : Int) : α) < 2 := by push_cast at h1 h2 ⊢; linarith
  have hd2 : (-2 : α) < ((⌊su⌋ - ⌊sv⌋ - m * N : Int) : α) := by push_cast at h1 h2 ⊢; linarith
  have hd1' : ⌊su⌋ - ⌊sv⌋ - m * N < 2 := by exact_mod_cast hd1
  have hd2' : -2 < ⌊su⌋ - ⌊sv⌋ - m * N := by exact_mod_cast hd2
  refine ⟨⌊su⌋ - ⌊sv⌋ - m * N, by omega, ?_⟩
  have : ⌊su⌋ - ⌊sv⌋ - (⌊su⌋ - ⌊sv⌋ - m * N) = m * N := by ring
  rw [this]; exact Int.mul_emod_left m N

end Mic
#print axioms Mic.mic1_shortest
#print axioms Mic.cell_adjacent
