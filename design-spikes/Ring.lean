import Mathlib.Logic.Function.Basic
import Mathlib.Tactic.Linarith
/-! spike: input token ring of CsgApplication::ProcessData, n workers, all schedules.
    Only the In-ring + reader mutex; eval/merge collapsed into `work`. -/
namespace Ring

inductive PC | wantIn | wantReader | inReader | unlockReader (last : Bool) | passIn (last : Bool) | work | done
deriving DecidableEq, Repr

structure S where
  pc  : Nat → PC
  inL : Nat → Bool      -- In[i] locked?
  rd  : Bool            -- reader mutex locked?

open PC

def inSection : PC → Prop
  | wantReader | inReader | unlockReader _ | passIn _ => True
  | _ => False

def holdsReader : PC → Prop
  | inReader | unlockReader _ => True
  | _ => False

instance : DecidablePred inSection := fun p => by cases p <;> simp [inSection] <;> infer_instance
instance : DecidablePred holdsReader := fun p => by cases p <;> simp [holdsReader] <;> infer_instance

/-- one step of worker `i`; `e` is the environment's answer "no more frames / budget exhausted" -/
def step (n : Nat) (s : S) (i : Nat) (e : Bool) : Option S :=
  match s.pc i with
  | wantIn => if s.inL i then none else some { s with inL := Function.update s.inL i true, pc := Function.update s.pc i wantReader }
  | wantReader => if s.rd then none else some { s with rd := true, pc := Function.update s.pc i inReader }
  | inReader => some { s with pc := Function.update s.pc i (unlockReader e) }
  | unlockReader l => some { s with rd := false, pc := Function.update s.pc i (passIn l) }
  | passIn l => some { s with inL := Function.update s.inL ((i + 1) % n) false,
                              pc := Function.update s.pc i (if l then done else work) }
  | work => some { s with pc := Function.update s.pc i wantIn }
  | done => none

def init : S := { pc := fun _ => wantIn, inL := fun j => decide (j ≠ 0), rd := false }

structure Inv (n : Nat) (s : S) : Prop where
  excl   : ∀ i j, i < n → j < n → inSection (s.pc i) → inSection (s.pc j) → i = j
  locked : ∀ i j, i < n → j < n → inSection (s.pc i) → s.inL j = true
  one    : ∀ j j', j < n → j' < n → s.inL j = false → s.inL j' = false → j = j'
  rdIff  : s.rd = true ↔ ∃ i, i < n ∧ holdsReader (s.pc i)

theorem inv_init (n : Nat) : Inv n init := by
  refine ⟨?_, ?_, ?_, ?_⟩
  · intro i j _ _ h; simp [init, inSection] at h
  · intro i j _ _ h; simp [init, inSection] at h
  · intro j j' _ _ h h'; simp [init] at h h'; omega
  · simp [init, holdsReader]


/-- a step that changes only pc i, and keeps its section / reader-holding status, keeps Inv -/
theorem inv_local (n : Nat) (s : S) (i : Nat) (p' : PC) (h : Inv n s)
    (h1 : inSection (s.pc i) ↔ inSection p') (h2 : holdsReader (s.pc i) ↔ holdsReader p') :
    Inv n { s with pc := Function.update s.pc i p' } := by
  obtain ⟨excl, locked, one, rdIff⟩ := h
  have sec : ∀ k, inSection (Function.update s.pc i p' k) ↔ inSection (s.pc k) := by
    intro k; by_cases ek : k = i
    · subst ek; simp [Function.update, h1]
    · simp [Function.update, ek]
  have hol : ∀ k, holdsReader (Function.update s.pc i p' k) ↔ holdsReader (s.pc k) := by
    intro k; by_cases ek : k = i
    · subst ek; simp [Function.update, h2]
    · simp [Function.update, ek]
  refine ⟨?_, ?_, one, ?_⟩
  · intro a b ha hb x y; exact excl a b ha hb ((sec a).1 x) ((sec b).1 y)
  · intro a j ha hj x; exact locked a j ha hj ((sec a).1 x)
  · show s.rd = true ↔ _
    rw [rdIff]; constructor
    · rintro ⟨k, hk, hh⟩; exact ⟨k, hk, (hol k).2 hh⟩
    · rintro ⟨k, hk, hh⟩; exact ⟨k, hk, (hol k).1 hh⟩

theorem holds_in (p : PC) (h : holdsReader p) : inSection p := by
  cases p <;> simp [holdsReader, inSection] at *

theorem inv_step (n : Nat) (hn : 0 < n) (s s' : S) (i : Nat) (e : Bool) (hi : i < n)
    (h : Inv n s) (hs : step n s i e = some s') : Inv n s' := by
  obtain ⟨excl, locked, one, rdIff⟩ := h
  unfold step at hs
  split at hs
  · -- wantIn
    rename_i hpc
    split at hs
    · cases hs
    · rename_i hfree
      simp at hfree
      cases hs
      -- nobody else is in the section, since In[i] was unlocked
      have nobody : ∀ k, k < n → ¬ inSection (s.pc k) := by
        intro k hk hin
        have := locked k i hk hi hin; simp [hfree] at this
      refine ⟨?_, ?_, ?_, ?_⟩
      · intro a b ha hb h1 h2
        by_cases ea : a = i <;> by_cases eb : b = i
        · omega
        · simp [Function.update, eb] at h2; exact absurd h2 (nobody b hb)
        · simp [Function.update, ea] at h1; exact absurd h1 (nobody a ha)
        · simp [Function.update, ea] at h1; exact absurd h1 (nobody a ha)
      · intro a j ha hj h1
        by_cases ea : a = i
        · by_cases ej : j = i
          · simp [Function.update, ej]
          · simp [Function.update, ej]
            by_contra hc; simp at hc
            exact ej (one j i hj hi hc hfree)
        · simp [Function.update, ea] at h1; exact absurd h1 (nobody a ha)
      · intro j j' hj hj' h1 h2
        by_cases ej : j = i
        · simp [Function.update, ej] at h1
        · by_cases ej' : j' = i
          · simp [Function.update, ej'] at h2
          · simp [Function.update, ej] at h1; simp [Function.update, ej'] at h2
            exact one j j' hj hj' h1 h2
      · rw [rdIff]; constructor
        · rintro ⟨k, hk, hh⟩
          refine ⟨k, hk, ?_⟩
          by_cases ek : k = i
          · subst ek; rw [hpc] at hh; simp [holdsReader] at hh
          · simpa [Function.update, ek] using hh
        · rintro ⟨k, hk, hh⟩
          refine ⟨k, hk, ?_⟩
          by_cases ek : k = i
          · subst ek; simp [Function.update, holdsReader] at hh
          · simpa [Function.update, ek] using hh
  · -- wantReader
    rename_i hpc
    split at hs
    · cases hs
    · rename_i hfree
      cases hs
      have base := inv_local n s i inReader ⟨excl, locked, one, rdIff⟩
        (by rw [hpc]; simp [inSection]) |>.mt
      refine ⟨?_, ?_, ?_, ?_⟩
      · intro a b ha hb h1 h2
        have sa : inSection (s.pc a) := by
          by_cases ea : a = i
          · subst ea; rw [hpc]; simp [inSection]
          · simpa [Function.update, ea] using h1
        have sb : inSection (s.pc b) := by
          by_cases eb : b = i
          · subst eb; rw [hpc]; simp [inSection]
          · simpa [Function.update, eb] using h2
        exact excl a b ha hb sa sb
      · intro a j ha hj h1
        have sa : inSection (s.pc a) := by
          by_cases ea : a = i
          · subst ea; rw [hpc]; simp [inSection]
          · simpa [Function.update, ea] using h1
        exact locked a j ha hj sa
      · exact one
      · constructor
        · intro _; exact ⟨i, hi, by simp [Function.update, holdsReader]⟩
        · intro _; rfl
  · -- inReader
    rename_i hpc
    cases hs
    exact inv_local n s i (unlockReader e) ⟨excl, locked, one, rdIff⟩
      (by rw [hpc]; simp [inSection]) (by rw [hpc]; simp [holdsReader])
  · -- unlockReader
    rename_i l hpc
    cases hs
    have mine : inSection (s.pc i) := by rw [hpc]; simp [inSection]
    refine ⟨?_, ?_, ?_, ?_⟩
    · intro a b ha hb h1 h2
      have sa : inSection (s.pc a) := by
        by_cases ea : a = i
        · subst ea; exact mine
        · simpa [Function.update, ea] using h1
      have sb : inSection (s.pc b) := by
        by_cases eb : b = i
        · subst eb; exact mine
        · simpa [Function.update, eb] using h2
      exact excl a b ha hb sa sb
    · intro a j ha hj h1
      have sa : inSection (s.pc a) := by
        by_cases ea : a = i
        · subst ea; exact mine
        · simpa [Function.update, ea] using h1
      exact locked a j ha hj sa
    · exact one
    · constructor
      · intro h; cases h
      · rintro ⟨k, hk, hh⟩
        exfalso
        by_cases ek : k = i
        · subst ek; simp [Function.update, holdsReader] at hh
        · simp [Function.update, ek] at hh
          exact ek (excl k i hk hi (holds_in _ hh) mine)
  · -- passIn
    rename_i l hpc
    cases hs
    have mine : inSection (s.pc i) := by rw [hpc]; simp [inSection]
    have out : ¬ inSection (if l = true then done else work) := by
      cases l <;> simp [inSection]
    have nobody : ∀ k, k < n → ¬ inSection (Function.update s.pc i (if l = true then done else work) k) := by
      intro k hk hin
      by_cases ek : k = i
      · subst ek; simp [Function.update] at hin; exact out hin
      · simp [Function.update, ek] at hin
        exact ek (excl k i hk hi hin mine)
    have allLocked : ∀ j, j < n → s.inL j = true := fun j hj => locked i j hi hj mine
    refine ⟨?_, ?_, ?_, ?_⟩
    · intro a b ha hb h1 _; exact absurd h1 (nobody a ha)
    · intro a j ha hj h1; exact absurd h1 (nobody a ha)
    · intro j j' hj hj' h1 h2
      by_cases e1 : j = (i + 1) % n
      · by_cases e2 : j' = (i + 1) % n
        · omega
        · simp [Function.update, e2, allLocked j' hj'] at h2
      · simp [Function.update, e1, allLocked j hj] at h1
    · show s.rd = true ↔ _
      rw [rdIff]; constructor
      · rintro ⟨k, hk, hh⟩
        refine ⟨k, hk, ?_⟩
        by_cases ek : k = i
        · subst ek; rw [hpc] at hh; simp [holdsReader] at hh
        · simpa [Function.update, ek] using hh
      · rintro ⟨k, hk, hh⟩
        refine ⟨k, hk, ?_⟩
        by_cases ek : k = i
        · subst ek; simp [Function.update] at hh; cases l <;> simp [holdsReader] at hh
        · simpa [Function.update, ek] using hh
  · -- work
    rename_i hpc
    cases hs
    exact inv_local n s i wantIn ⟨excl, locked, one, rdIff⟩
      (by rw [hpc]; simp [inSection]) (by rw [hpc]; simp [holdsReader])
  · cases hs

/-- every state reachable under ANY schedule (list of (thread, environment answer)) satisfies Inv -/
def run (n : Nat) : S → List (Nat × Bool) → S
  | s, [] => s
  | s, (i, e) :: rest => match (if i < n then step n s i e else none) with
    | some s' => run n s' rest
    | none => run n s rest       -- disabled or out-of-range choices are skipped

theorem inv_run (n : Nat) (hn : 0 < n) (sched : List (Nat × Bool)) :
    ∀ s, Inv n s → Inv n (run n s sched) := by
  induction sched with
  | nil => intro s h; exact h
  | cons x rest ih =>
    obtain ⟨i, e⟩ := x
    intro s h
    unfold run
    by_cases hi : i < n
    · simp only [hi, if_true]
      cases hst : step n s i e with
      | none => exact ih s h
      | some s' => exact ih s' (inv_step n hn s s' i e hi h hst)
    · simp only [hi, if_false]; exact ih s h

/-- mutual exclusion in the trajectory reader, for every n and every schedule -/
theorem reader_mutex (n : Nat) (hn : 0 < n) (sched : List (Nat × Bool)) (i j : Nat)
    (hi : i < n) (hj : j < n)
    (h1 : (run n init sched).pc i = inReader) (h2 : (run n init sched).pc j = inReader) : i = j := by
  have inv := inv_run n hn sched init (inv_init n)
  exact inv.excl i j hi hj (by rw [h1]; simp [inSection]) (by rw [h2]; simp [inSection])

end Ring
#print axioms Ring.reader_mutex
