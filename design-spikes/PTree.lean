/-! spike: option tree + user-over-default overwrite (non-list branch) as structural recursion
    through a nested inductive, and a first theorem about it (core Lean only) -/
namespace Opt

inductive PTree where
  | node (name value : String) (attrs : List (String × String)) (children : List PTree)
deriving Repr

namespace PTree
def name : PTree → String | node n _ _ _ => n
def value : PTree → String | node _ v _ _ => v
def attrs : PTree → List (String × String) | node _ _ a _ => a
def children : PTree → List PTree | node _ _ _ c => c
def hasAttr (t : PTree) (k : String) : Bool := t.attrs.any (·.1 == k)
end PTree

/-- Property::get(name): `map_` keeps the LAST child with that name -/
def lookup (cs : List PTree) (n : String) : Option PTree :=
  cs.foldl (fun acc c => if c.name == n then some c else acc) none

def setAttr (a : List (String × String)) (k v : String) : List (String × String) :=
  (a.filter (·.1 != k)) ++ [(k, v)]

mutual
/-- OverwriteDefaultsWithUserInput, non-list branch (list branch omitted in the spike) -/
def overwrite (user : PTree) : PTree → PTree
  | .node n _ a cs => .node n user.value (setAttr a "injected" "true") (overwriteList user cs)
def overwriteList (user : PTree) : List PTree → List PTree
  | [] => []
  | c :: cs =>
    (match lookup user.children c.name with
     | some u => overwrite u c
     | none => c) :: overwriteList user cs
end

-- paths of leaves with their values
mutual
def leaves (pre : List String) : PTree → List (List String × String)
  | .node n v _ [] => [(pre ++ [n], v)]
  | .node n _ _ (c :: cs) => leavesList (pre ++ [n]) (c :: cs)
def leavesList (pre : List String) : List PTree → List (List String × String)
  | [] => []
  | c :: cs => leaves pre c ++ leavesList pre cs
end

/-- the overwritten node carries the user's value and keeps its name -/
theorem overwrite_value (u d : PTree) : (overwrite u d).value = u.value ∧ (overwrite u d).name = d.name := by
  cases d with
  | node n v a cs => simp [overwrite, PTree.value, PTree.name]

/-- shape preservation: same child names in the same order -/
theorem overwriteList_names (u : PTree) (cs : List PTree) :
    (overwriteList u cs).map PTree.name = cs.map PTree.name := by
  induction cs with
  | nil => simp [overwriteList]
  | cons c cs ih =>
    simp only [overwriteList, List.map_cons, ih]
    congr 1
    split
    · exact (overwrite_value _ c).2
    · rfl

#eval (overwrite (.node "options" "" [] [.node "a" "7" [] []])
        (.node "options" "" [] [.node "a" "1" [("default","1")] [], .node "b" "2" [] []]))
end Opt
#print axioms Opt.overwriteList_names
