/-! spike: xtp IndexParser at the token level: a sorted duplicate-free index list is printed as maximal
    runs `a:b` / singletons and parsed back by expansion.  Core Lean only. -/
namespace Index

/-- CreateIndexString on an already sorted-unique list: group consecutive integers -/
def runs : List Int → List (Int × Int)
  | [] => []
  | x :: xs =>
    match runs xs with
    | (a, b) :: rest => if a = x + 1 then (x, b) :: rest else (x, x) :: (a, b) :: rest
    | [] => [(x, x)]

/-- for (a,b) with a ≤ b: a, a+1, …, b  (the `for (i = start; i <= stop; i++)` loop) -/
def expandRun (a : Int) : Nat → List Int
  | 0 => [a]
  | n + 1 => a :: expandRun (a + 1) n

def expand : List (Int × Int) → List Int
  | [] => []
  | (a, b) :: rest => expandRun a (b - a).toNat ++ expand rest

def StrictSorted : List Int → Prop
  | [] => True
  | [_] => True
  | x :: y :: rest => x < y ∧ StrictSorted (y :: rest)

/-- invariant of `runs`: every run is well-formed and the first run starts at the head of the input -/
theorem runs_head (xs : List Int) (x : Int) :
    ∃ b rest, runs (x :: xs) = (x, b) :: rest ∧ x ≤ b := by
  simp only [runs]
  cases h : runs xs with
  | nil => exact ⟨x, [], rfl, Int.le_refl _⟩
  | cons p rest =>
    obtain ⟨a, b⟩ := p
    by_cases e : a = x + 1
    · simp only [e, if_true]
      -- b ≥ a by the same property one level down (needs well-formedness, proved below)
      exact ⟨b, rest, rfl, by
        cases xs with
        | nil => simp [runs] at h
        | cons y ys =>
          obtain ⟨b', rest', h', hle⟩ := runs_head ys y
          rw [h'] at h; cases h
          omega⟩
    · simp only [e, if_false]; exact ⟨x, (a, b) :: rest, rfl, Int.le_refl _⟩

theorem expandRun_cons (a : Int) (n : Nat) : expandRun a (n + 1) = a :: expandRun (a + 1) n := rfl

/-- printing as runs and parsing back is the identity on sorted duplicate-free lists -/
theorem expand_runs : ∀ (xs : List Int), StrictSorted xs → expand (runs xs) = xs
  | [], _ => rfl
  | [x], _ => by simp [runs, expand, expandRun]
  | x :: y :: rest, h => by
    obtain ⟨hxy, hs⟩ := h
    have ih := expand_runs (y :: rest) hs
    obtain ⟨b, tl, hr, hle⟩ := runs_head rest y
    have hrx : runs (x :: y :: rest) = if y = x + 1 then (x, b) :: tl else (x, x) :: (y, b) :: tl := by
      show (match runs (y :: rest) with
            | (a, b) :: rest => if a = x + 1 then (x, b) :: rest else (x, x) :: (a, b) :: rest
            | [] => [(x, x)]) = _
      rw [hr]
    rw [hrx]; rw [hr] at ih
    by_cases e : y = x + 1
    · simp only [e, if_true]
      simp only [expand] at ih ⊢
      have : (b - x).toNat = (b - (x + 1)).toNat + 1 := by omega
      rw [this, expandRun_cons, List.cons_append]
      rw [e] at ih; rw [ih]
    · simp only [e, if_false]
      simp only [expand] at ih ⊢
      rw [ih]; simp [expandRun]

end Index
#print axioms Index.expand_runs
