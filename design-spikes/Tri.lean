import Mathlib.Tactic.Linarith
import Mathlib.Tactic.Ring
import Mathlib.Tactic.FieldSimp
import Mathlib.Tactic.NormNum
import Mathlib.Algebra.Order.Floor.Ring
import Mathlib.Algebra.Order.Field.Basic
/-! spike: TriclinicBox::BCShortestConnection (sequential z, y, x reduction with the box columns) -/
namespace Tri
variable {α : Type} [Field α] [LinearOrder α] [IsStrictOrderedRing α] [FloorRing α]

def roundHA (x : α) : Int := if 0 ≤ x then ⌊x + 1/2⌋ else -⌊-x + 1/2⌋

/-- std::round recovers an integer from a perturbation smaller than one half -/
theorem roundHA_int_add (t : α) (n : Int) (ht : |t| < 1/2) : roundHA (t + n) = n := by
  rw [abs_lt] at ht
  unfold roundHA
  split
  · rw [Int.floor_eq_iff]; constructor <;> linarith
  · rw [neg_eq_iff_eq_neg, Int.floor_eq_iff]; push_cast; constructor <;> linarith

structure V3 (α : Type) where (x y z : α)

/-- upper-triangular box: a = (ax,0,0), b = (bx,by,0), c = (cx,cy,cz) -/
structure Box (α : Type) where (ax bx bY cx cy cz : α)

def micTri (B : Box α) (r : V3 α) : V3 α :=
  let k3 : α := roundHA (r.z / B.cz)
  let r1 : V3 α := ⟨r.x - B.cx * k3, r.y - B.cy * k3, r.z - B.cz * k3⟩
  let k2 : α := roundHA (r1.y / B.bY)
  let r2 : V3 α := ⟨r1.x - B.bx * k2, r1.y - B.bY * k2, r1.z⟩
  let k1 : α := roundHA (r2.x / B.ax)
  ⟨r2.x - B.ax * k1, r2.y, r2.z⟩

/-- lattice translate of d by na·a + nb·b + nc·c -/
def shift (B : Box α) (d : V3 α) (na nb nc : Int) : V3 α :=
  ⟨d.x + na * B.ax + nb * B.bx + nc * B.cx, d.y + nb * B.bY + nc * B.cy, d.z + nc * B.cz⟩

/-- if some periodic image d of r lies inside the half-box slab in every direction,
    the sequential reduction returns exactly that image — whatever the off-diagonal elements are -/
theorem micTri_recovers (B : Box α) (d : V3 α) (na nb nc : Int)
    (hax : 0 < B.ax) (hby : 0 < B.bY) (hcz : 0 < B.cz)
    (hx : |d.x| < B.ax / 2) (hy : |d.y| < B.bY / 2) (hz : |d.z| < B.cz / 2) :
    micTri B (shift B d na nb nc) = d := by
  have half : ∀ (t L : α), 0 < L → |t| < L / 2 → |t / L| < 1 / 2 := by
    intro t L hL ht
    rw [abs_div, abs_of_pos hL, div_lt_iff₀ hL]; linarith
  -- z step
  have e3 : (d.z + nc * B.cz) / B.cz = d.z / B.cz + nc := by field_simp
  have k3 : roundHA ((d.z + nc * B.cz) / B.cz) = nc := by
    rw [e3]; exact roundHA_int_add _ _ (half _ _ hcz hz)
  -- y step
  have e2 : (d.y + nb * B.bY + nc * B.cy - B.cy * nc) / B.bY = d.y / B.bY + nb := by field_simp; ring
  have k2 : roundHA ((d.y + nb * B.bY + nc * B.cy - B.cy * (nc : α)) / B.bY) = nb := by
    rw [e2]; exact roundHA_int_add _ _ (half _ _ hby hy)
  -- x step
  have e1 : (d.x + na * B.ax + nb * B.bx + nc * B.cx - B.cx * nc - B.bx * nb) / B.ax = d.x / B.ax + na := by
    field_simp; ring
  have k1 : roundHA ((d.x + na * B.ax + nb * B.bx + nc * B.cx - B.cx * (nc : α) - B.bx * (nb : α)) / B.ax) = na := by
    rw [e1]; exact roundHA_int_add _ _ (half _ _ hax hx)
  simp only [micTri, shift]
  rw [k3, k2, k1]
  cases d; simp only [V3.mk.injEq]
  refine ⟨by ring, by ring, by ring⟩

end Tri
#print axioms Tri.micTri_recovers
