// scratch probe: cooperative scheduler driving votca threads through the VOTCA_VERIF hook
#include <votca/csg/csgapplication.h>
#include <votca/csg/topology.h>
#include <pthread.h>
#include <map>
#include <vector>
#include <set>
#include <string>
#include <fstream>
#include <iostream>
#include <cstdlib>
using namespace votca::csg; using namespace votca;

namespace sch {
enum { LOCK=1, UNLOCK=2, SPAWN=3, BEGIN=4, END=5, JOIN=6 };
struct Pending { int kind=0; const void* obj=nullptr; };
pthread_mutex_t G = PTHREAD_MUTEX_INITIALIZER; pthread_cond_t CV = PTHREAD_COND_INITIALIZER;
std::map<pthread_t,int> ids;            // pthread -> id (0 = main)
std::map<const void*,int> threadObj;    // Thread* -> id
std::vector<Pending> pend(64); std::vector<bool> parked(64,false), finished(64,false);
std::map<const void*,bool> locked;      // Mutex* -> held
int nthreads=1, current=0; std::vector<int> prefer; std::vector<std::string> trace; bool deadlock=false;
int self(){ auto it=ids.find(pthread_self()); return it==ids.end()? -1 : it->second; }
bool enabled(int t){ if(!parked[t]) return false; auto&p=pend[t];
  if(p.kind==LOCK) return !locked[p.obj];
  if(p.kind==JOIN) return finished[threadObj[p.obj]];
  return true; }
// called with G held by the running thread `me` after it has parked itself
void pickNext(){
  // wait until every live thread other than the picker is parked or finished
  for(;;){ bool all=true; for(int t=0;t<nthreads;t++) if(!parked[t] && !finished[t]) all=false; if(all) break; pthread_cond_wait(&CV,&G); }
  std::vector<int> en; for(int t=0;t<nthreads;t++) if(enabled(t)) en.push_back(t);
  if(en.empty()){ bool alldone=true; for(int t=0;t<nthreads;t++) if(!finished[t]) alldone=false; if(!alldone){ deadlock=true; std::cerr<<"DEADLOCK\n"; std::exit(3);} return; }
  int chosen=en[0]; for(int p: prefer){ bool f=false; for(int e:en) if(e==p){chosen=p;f=true;break;} if(f) break; }
  current=chosen; pthread_cond_broadcast(&CV);
}
void yieldPoint(int kind,const void*obj){
  pthread_mutex_lock(&G);
  int me=self(); pend[me]={kind,obj}; parked[me]=true;
  pthread_cond_broadcast(&CV);
  if(current==me || current==-1) pickNext();
  while(!(current==me && parked[me] && enabled(me))) { pthread_cond_wait(&CV,&G); }
  // granted: perform bookkeeping of the operation about to happen
  parked[me]=false;
  if(kind==LOCK) locked[obj]=true;
  if(kind==UNLOCK) locked[obj]=false;
  trace.push_back(std::to_string(me)+":"+std::to_string(kind));
  pthread_mutex_unlock(&G);
}
}
extern "C" void votca_verif_event(int kind,const void*obj,long){
  using namespace sch;
  if(kind==SPAWN){ pthread_mutex_lock(&G); threadObj[obj]=nthreads; finished[nthreads]=false; parked[nthreads]=false; nthreads++; pthread_mutex_unlock(&G); return; }
  if(kind==BEGIN){ pthread_mutex_lock(&G); ids[pthread_self()]=threadObj[obj]; pthread_mutex_unlock(&G); yieldPoint(kind,obj); return; }
  if(kind==END){ pthread_mutex_lock(&G); int me=self(); finished[me]=true; trace.push_back(std::to_string(me)+":end"); current=-1;
     // hand over: let somebody else pick
     bool all=true; for(int t=0;t<nthreads;t++) if(!parked[t]&&!finished[t]) all=false;
     if(all){ std::vector<int> en; for(int t=0;t<nthreads;t++) if(enabled(t)) en.push_back(t); if(!en.empty()){ int chosen=en[0]; for(int p:prefer){ bool f=false; for(int e:en) if(e==p){chosen=p;f=true;break;} if(f)break;} current=chosen; } }
     pthread_cond_broadcast(&CV); pthread_mutex_unlock(&G); return; }
  yieldPoint(kind,obj);
}

static std::vector<int> processed;   // frame index decoded from bead 0's x coordinate
class App : public CsgApplication {
 public:
  bool sync;
  std::string ProgramName() override { return "probe"; }
  void HelpText(std::ostream&) override {}
  bool DoTrajectory() override { return true; }
  bool DoMapping() override { return false; }
  bool DoThreaded() override { return true; }
  bool SynchronizeThreads() override { return sync; }
  class W : public CsgApplication::Worker { public: std::vector<int> mine;
    void EvalConfiguration(Topology* top, Topology*) override { mine.push_back(int(top->getBead(0)->getPos().x()*10+0.5)); } };
  std::unique_ptr<CsgApplication::Worker> ForkWorker() override { return std::make_unique<W>(); }
  void MergeWorker(CsgApplication::Worker* w) override { auto* ww=dynamic_cast<W*>(w); for(int f: ww->mine) processed.push_back(f); ww->mine.clear(); }
};
int main(int argc,char**argv){
  // argv: sync(0/1) nthreads nframes prefer...
  bool sync=std::atoi(argv[1]); std::string nt=argv[2], nf=argv[3];
  for(int i=4;i<argc;i++) sch::prefer.push_back(std::atoi(argv[i]));
  { std::ofstream o("traj.gro"); for(int f=1;f<=4;f++){ o<<"frame\n    2\n"; for(int a=0;a<2;a++){ char buf[200]; snprintf(buf,200,"%5d%-5.5s%5.5s%5d%8.3f%8.3f%8.3f\n",1,"RES","A",a+1,0.1*f,0.5+a,0.5); o<<buf;} o<<"   3.00000   3.00000   3.00000\n"; } }
  sch::ids[pthread_self()]=0; sch::current=0;
  App app; app.sync=sync;
  const char* av[]={"probe","--top","traj.gro","--trj","traj.gro","--nt",nt.c_str(),"--nframes",nf.c_str()};
  app.Exec(9,(char**)av);
  std::cout<<"processed frames:"; for(int f: processed) std::cout<<" "<<f; std::cout<<"\n";
  std::cout<<"events: "<<sch::trace.size()<<"\n";
  return 0;
}
