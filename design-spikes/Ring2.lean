import Mathlib.Logic.Function.Basic
import Mathlib.Tactic.Linarith
/-! spike 2: full ordered-mode protocol of CsgApplication (In ring, reader mutex, eval, Out ring, merge)
    for n workers and every schedule; ghost counters are linear (base + tok) so `omega` closes the arithmetic. -/
namespace Ring2

inductive PC
  | wantIn | wantReader | inReader
  | gotFrame (f : Nat) | passIn (f : Nat) | eval (f : Nat) | wantOut (f : Nat) | merging (f : Nat) | passOut
  | endUnlock | endPass | done
deriving DecidableEq, Repr

structure S where
  pc : Nat → PC
  inL : Nat → Bool
  outL : Nat → Bool
  rd : Bool
  budget : Option Nat
  isFirst : Bool
  pos : Nat
  readLog : List Nat
  mergeLog : List Nat
  -- ghost (never read by `step` to decide anything)
  inTok : Nat
  inBase : Nat
  outTok : Nat
  outBase : Nat
  ended : Bool

open PC

def advTok (n tok : Nat) : Nat := if tok + 1 = n then 0 else tok + 1
def advBase (n base tok : Nat) : Nat := if tok + 1 = n then base + n else base

/-- one step of worker `i` (none = blocked or finished); `F` = number of frames in the file,
    frame 0 is the one main already read into worker 0 -/
def step (n F : Nat) (s : S) (i : Nat) : Option S :=
  match s.pc i with
  | wantIn => if s.inL i then none else
      some { s with inL := Function.update s.inL i true, pc := Function.update s.pc i wantReader }
  | wantReader => if s.rd then none else
      some { s with rd := true, pc := Function.update s.pc i inReader }
  | inReader =>
      if s.budget = some 0 then
        some { s with ended := true, inTok := advTok n s.inTok, inBase := advBase n s.inBase s.inTok,
                      pc := Function.update s.pc i endUnlock }
      else if s.isFirst = true ∧ i = 0 then
        some { s with budget := s.budget.map (· - 1), isFirst := false, readLog := s.readLog ++ [0],
                      inTok := advTok n s.inTok, inBase := advBase n s.inBase s.inTok,
                      pc := Function.update s.pc i (gotFrame 0) }
      else if s.pos < F then
        some { s with budget := s.budget.map (· - 1), isFirst := (if i = 0 then false else s.isFirst),
                      pos := s.pos + 1, readLog := s.readLog ++ [s.pos],
                      inTok := advTok n s.inTok, inBase := advBase n s.inBase s.inTok,
                      pc := Function.update s.pc i (gotFrame s.pos) }
      else
        some { s with budget := s.budget.map (· - 1), ended := true,
                      inTok := advTok n s.inTok, inBase := advBase n s.inBase s.inTok,
                      pc := Function.update s.pc i endUnlock }
  | gotFrame f => some { s with rd := false, pc := Function.update s.pc i (passIn f) }
  | passIn f => some { s with inL := Function.update s.inL ((i + 1) % n) false,
                              pc := Function.update s.pc i (eval f) }
  | eval f => some { s with pc := Function.update s.pc i (wantOut f) }
  | wantOut f => if s.outL i then none else
      some { s with outL := Function.update s.outL i true, pc := Function.update s.pc i (merging f) }
  | merging f => some { s with mergeLog := s.mergeLog ++ [f],
                               outTok := advTok n s.outTok, outBase := advBase n s.outBase s.outTok,
                               pc := Function.update s.pc i passOut }
  | passOut => some { s with outL := Function.update s.outL ((i + 1) % n) false,
                             pc := Function.update s.pc i wantIn }
  | endUnlock => some { s with rd := false, pc := Function.update s.pc i endPass }
  | endPass => some { s with inL := Function.update s.inL ((i + 1) % n) false,
                             pc := Function.update s.pc i done }
  | done => none

def init (budget : Option Nat) : S :=
  { pc := fun _ => wantIn, inL := fun j => decide (j ≠ 0), outL := fun j => decide (j ≠ 0), rd := false,
    budget := budget, isFirst := true, pos := 1, readLog := [], mergeLog := [],
    inTok := 0, inBase := 0, outTok := 0, outBase := 0, ended := false }

def run (n F : Nat) : S → List Nat → S
  | s, [] => s
  | s, i :: rest => match (if i < n then step n F s i else none) with
    | some s' => run n F s' rest
    | none => run n F s rest


/-! ### classification of program counters -/
def PreRead : PC → Prop | wantReader | inReader => True | _ => False
def PostRead : PC → Prop | gotFrame _ | passIn _ | endUnlock | endPass => True | _ => False
def InSec (p : PC) : Prop := PreRead p ∨ PostRead p
def HoldsRd : PC → Prop | inReader | gotFrame _ | endUnlock => True | _ => False
def IsMerging : PC → Prop | merging _ => True | _ => False
def IsPassOut : PC → Prop | passOut => True | _ => False
def OutSec (p : PC) : Prop := IsMerging p ∨ IsPassOut p
def Holds : PC → Nat → Prop
  | gotFrame g, f | passIn g, f | eval g, f | wantOut g, f | merging g, f => g = f
  | _, _ => False
def Idle : PC → Prop | wantIn | wantReader | inReader | passOut => True | _ => False

theorem holdsRd_inSec (p : PC) (h : HoldsRd p) : InSec p := by
  cases p <;> simp [HoldsRd, InSec, PreRead, PostRead] at *

theorem succ_mod {n i : Nat} (hi : i < n) : (i + 1) % n = advTok n i := by
  unfold advTok
  by_cases h : i + 1 = n
  · simp [h]
  · simp [h]; exact Nat.mod_eq_of_lt (by omega)

theorem advTok_lt {n i : Nat} (hi : i < n) : advTok n i < n := by
  unfold advTok; split <;> omega

def cnt (n base tok j : Nat) : Nat := base + if j < tok then n else 0

theorem cnt_adv_ne {n base tok j : Nat} (ht : tok < n) (hj : j < n) (hne : j ≠ tok) :
    cnt n (advBase n base tok) (advTok n tok) j = cnt n base tok j := by
  unfold cnt advBase advTok
  by_cases h : tok + 1 = n
  · simp only [h, if_true]
    have : j < tok := by omega
    simp [this]
  · simp only [h, if_false]
    by_cases h2 : j < tok
    · have : j < tok + 1 := by omega
      simp [h2, this]
    · have : ¬ j < tok + 1 := by omega
      simp [h2, this]

theorem cnt_adv_eq {n base tok : Nat} (ht : tok < n) :
    cnt n (advBase n base tok) (advTok n tok) tok = cnt n base tok tok + n := by
  unfold cnt advBase advTok
  by_cases h : tok + 1 = n
  · simp [h]
  · simp [h]

/-! ### the invariant, in four groups -/
structure InRing (n : Nat) (s : S) : Prop where
  tok : s.inTok < n
  excl : ∀ i j, i < n → j < n → InSec (s.pc i) → InSec (s.pc j) → i = j
  locked : ∀ i j, i < n → j < n → InSec (s.pc i) → s.inL j = true
  one : ∀ j j', j < n → j' < n → s.inL j = false → s.inL j' = false → j = j'
  free : ∀ j, j < n → s.inL j = false → j = s.inTok
  pre : ∀ i, i < n → PreRead (s.pc i) → i = s.inTok
  post : ∀ i, i < n → PostRead (s.pc i) → advTok n i = s.inTok

structure OutRing (n : Nat) (s : S) : Prop where
  tok : s.outTok < n
  excl : ∀ i j, i < n → j < n → OutSec (s.pc i) → OutSec (s.pc j) → i = j
  locked : ∀ i j, i < n → j < n → OutSec (s.pc i) → s.outL j = true
  one : ∀ j j', j < n → j' < n → s.outL j = false → s.outL j' = false → j = j'
  free : ∀ j, j < n → s.outL j = false → j = s.outTok
  pre : ∀ i, i < n → IsMerging (s.pc i) → i = s.outTok
  post : ∀ i, i < n → IsPassOut (s.pc i) → advTok n i = s.outTok

structure RdM (n : Nat) (s : S) : Prop where
  iff : s.rd = true ↔ ∃ i, i < n ∧ HoldsRd (s.pc i)

structure Data (n F : Nat) (s : S) : Prop where
  rdRange : s.readLog = List.range s.readLog.length
  rdCount : s.ended = false → s.readLog.length = s.inBase + s.inTok
  first1 : s.isFirst = true → s.readLog = [] ∧ s.pos = 1
  first2 : s.isFirst = false → s.pos = s.readLog.length ∧ 1 ≤ s.pos
  sticky : s.ended = true → s.budget = some 0 ∨ (s.isFirst = false ∧ F ≤ s.pos)
  hold : ∀ i f, i < n → Holds (s.pc i) f →
    f + n = cnt n s.inBase s.inTok i + i ∧ cnt n s.inBase s.inTok i = cnt n s.outBase s.outTok i + n
  idle : ∀ i, i < n → Idle (s.pc i) → cnt n s.inBase s.inTok i = cnt n s.outBase s.outTok i
  mrg : s.mergeLog = List.range (s.outBase + s.outTok)

structure Inv (n F : Nat) (s : S) : Prop where
  inR : InRing n s
  outR : OutRing n s
  rdM : RdM n s
  data : Data n F s

/-! ### frame lemmas: a step that does not touch a group's fields and keeps thread i's class -/
theorem InRing.frame {n : Nat} {s s' : S} (h : InRing n s) (i : Nat)
    (hpc : ∀ j, j ≠ i → s'.pc j = s.pc j)
    (c1 : PreRead (s'.pc i) ↔ PreRead (s.pc i)) (c2 : PostRead (s'.pc i) ↔ PostRead (s.pc i))
    (hL : s'.inL = s.inL) (hT : s'.inTok = s.inTok) : InRing n s' := by
  have pre' : ∀ j, PreRead (s'.pc j) ↔ PreRead (s.pc j) := by
    intro j; by_cases e : j = i
    · subst e; exact c1
    · rw [hpc j e]
  have post' : ∀ j, PostRead (s'.pc j) ↔ PostRead (s.pc j) := by
    intro j; by_cases e : j = i
    · subst e; exact c2
    · rw [hpc j e]
  have sec' : ∀ j, InSec (s'.pc j) ↔ InSec (s.pc j) := by
    intro j; unfold InSec; rw [pre' j, post' j]
  refine ⟨by rw [hT]; exact h.tok, ?_, ?_, ?_, ?_, ?_, ?_⟩
  · intro a b ha hb x y; exact h.excl a b ha hb ((sec' a).1 x) ((sec' b).1 y)
  · intro a j ha hj x; rw [hL]; exact h.locked a j ha hj ((sec' a).1 x)
  · intro j j' hj hj' x y; rw [hL] at x y; exact h.one j j' hj hj' x y
  · intro j hj x; rw [hL] at x; rw [hT]; exact h.free j hj x
  · intro a ha x; rw [hT]; exact h.pre a ha ((pre' a).1 x)
  · intro a ha x; rw [hT]; exact h.post a ha ((post' a).1 x)

theorem OutRing.frame {n : Nat} {s s' : S} (h : OutRing n s) (i : Nat)
    (hpc : ∀ j, j ≠ i → s'.pc j = s.pc j)
    (c1 : IsMerging (s'.pc i) ↔ IsMerging (s.pc i)) (c2 : IsPassOut (s'.pc i) ↔ IsPassOut (s.pc i))
    (hL : s'.outL = s.outL) (hT : s'.outTok = s.outTok) : OutRing n s' := by
  have pre' : ∀ j, IsMerging (s'.pc j) ↔ IsMerging (s.pc j) := by
    intro j; by_cases e : j = i
    · subst e; exact c1
    · rw [hpc j e]
  have post' : ∀ j, IsPassOut (s'.pc j) ↔ IsPassOut (s.pc j) := by
    intro j; by_cases e : j = i
    · subst e; exact c2
    · rw [hpc j e]
  have sec' : ∀ j, OutSec (s'.pc j) ↔ OutSec (s.pc j) := by
    intro j; unfold OutSec; rw [pre' j, post' j]
  refine ⟨by rw [hT]; exact h.tok, ?_, ?_, ?_, ?_, ?_, ?_⟩
  · intro a b ha hb x y; exact h.excl a b ha hb ((sec' a).1 x) ((sec' b).1 y)
  · intro a j ha hj x; rw [hL]; exact h.locked a j ha hj ((sec' a).1 x)
  · intro j j' hj hj' x y; rw [hL] at x y; exact h.one j j' hj hj' x y
  · intro j hj x; rw [hL] at x; rw [hT]; exact h.free j hj x
  · intro a ha x; rw [hT]; exact h.pre a ha ((pre' a).1 x)
  · intro a ha x; rw [hT]; exact h.post a ha ((post' a).1 x)

theorem RdM.frame {n : Nat} {s s' : S} (h : RdM n s) (i : Nat)
    (hpc : ∀ j, j ≠ i → s'.pc j = s.pc j)
    (c : HoldsRd (s'.pc i) ↔ HoldsRd (s.pc i)) (hr : s'.rd = s.rd) : RdM n s' := by
  have hol : ∀ j, HoldsRd (s'.pc j) ↔ HoldsRd (s.pc j) := by
    intro j; by_cases e : j = i
    · subst e; exact c
    · rw [hpc j e]
  constructor
  rw [hr, h.iff]; constructor
  · rintro ⟨k, hk, hh⟩; exact ⟨k, hk, (hol k).2 hh⟩
  · rintro ⟨k, hk, hh⟩; exact ⟨k, hk, (hol k).1 hh⟩

theorem Data.frame {n F : Nat} {s s' : S} (h : Data n F s) (i : Nat)
    (hpc : ∀ j, j ≠ i → s'.pc j = s.pc j)
    (c1 : ∀ f, Holds (s'.pc i) f ↔ Holds (s.pc i) f) (c2 : Idle (s'.pc i) ↔ Idle (s.pc i))
    (e1 : s'.readLog = s.readLog) (e2 : s'.mergeLog = s.mergeLog) (e3 : s'.ended = s.ended)
    (e4 : s'.isFirst = s.isFirst) (e5 : s'.pos = s.pos) (e6 : s'.budget = s.budget)
    (e7 : s'.inTok = s.inTok) (e8 : s'.inBase = s.inBase) (e9 : s'.outTok = s.outTok)
    (e10 : s'.outBase = s.outBase) : Data n F s' := by
  have hol : ∀ j f, Holds (s'.pc j) f ↔ Holds (s.pc j) f := by
    intro j f; by_cases e : j = i
    · subst e; exact c1 f
    · rw [hpc j e]
  have idl : ∀ j, Idle (s'.pc j) ↔ Idle (s.pc j) := by
    intro j; by_cases e : j = i
    · subst e; exact c2
    · rw [hpc j e]
  refine ⟨?_, ?_, ?_, ?_, ?_, ?_, ?_, ?_⟩
  · rw [e1]; exact h.rdRange
  · rw [e3, e1, e7, e8]; exact h.rdCount
  · rw [e4, e1, e5]; exact h.first1
  · rw [e4, e1, e5]; exact h.first2
  · rw [e3, e6, e4, e5]; exact h.sticky
  · intro a f ha x; rw [e7, e8, e9, e10]; exact h.hold a f ha ((hol a f).1 x)
  · intro a ha x; rw [e7, e8, e9, e10]; exact h.idle a ha ((idl a).1 x)
  · rw [e2, e9, e10]; exact h.mrg

theorem upd_ne {α : Type} (f : Nat → α) (i j : Nat) (v : α) (h : j ≠ i) : Function.update f i v j = f j := by
  simp [Function.update, h]
theorem upd_eq {α : Type} (f : Nat → α) (i : Nat) (v : α) : Function.update f i v i = v := by
  simp [Function.update]


theorem pre_not_post (p : PC) (h1 : PreRead p) (h2 : PostRead p) : False := by
  cases p <;> simp [PreRead, PostRead] at *

/-- taking the token: thread i (outside the section) locks its own free In mutex -/
theorem InRing.acquire {n : Nat} {s s' : S} (h : InRing n s) (i : Nat) (hi : i < n)
    (hold : ¬ InSec (s.pc i)) (hfree : s.inL i = false) (p' : PC) (hp1 : PreRead p') (hp2 : ¬ PostRead p')
    (hpc' : s'.pc = Function.update s.pc i p') (hL : s'.inL = Function.update s.inL i true)
    (hT : s'.inTok = s.inTok) : InRing n s' := by
  have nobody : ∀ k, k < n → ¬ InSec (s.pc k) := by
    intro k hk hin
    have := h.locked k i hk hi hin; simp [hfree] at this
  have itok : i = s.inTok := h.free i hi hfree
  have secOnly : ∀ a, a < n → InSec (s'.pc a) → a = i := by
    intro a ha x
    by_contra e
    rw [hpc', upd_ne _ _ _ _ e] at x; exact nobody a ha x
  refine ⟨by rw [hT]; exact h.tok, ?_, ?_, ?_, ?_, ?_, ?_⟩
  · intro a b ha hb x y; rw [secOnly a ha x, secOnly b hb y]
  · intro a j ha hj x
    rw [hL]
    by_cases ej : j = i
    · subst ej; exact upd_eq _ _ _
    · rw [upd_ne _ _ _ _ ej]
      by_contra hc; simp at hc
      exact ej (h.one j i hj hi hc hfree)
  · intro j j' hj hj' x y
    rw [hL] at x y
    by_cases ej : j = i
    · subst ej; rw [upd_eq] at x; cases x
    · by_cases ej' : j' = i
      · subst ej'; rw [upd_eq] at y; cases y
      · rw [upd_ne _ _ _ _ ej] at x; rw [upd_ne _ _ _ _ ej'] at y
        exact h.one j j' hj hj' x y
  · intro j hj x
    rw [hL] at x
    by_cases ej : j = i
    · subst ej; rw [upd_eq] at x; cases x
    · rw [upd_ne _ _ _ _ ej] at x; rw [hT]; exact h.free j hj x
  · intro a ha x
    have := secOnly a ha (Or.inl x); rw [this, hT]; exact itok
  · intro a ha x
    have e := secOnly a ha (Or.inr x); subst e
    rw [hpc', upd_eq] at x; exact absurd x hp2

/-- the occupant performs the guarded action and the ghost token advances -/
theorem InRing.advance {n : Nat} {s s' : S} (h : InRing n s) (i : Nat) (hi : i < n)
    (hold : PreRead (s.pc i)) (p' : PC) (hp1 : PostRead p') (hp2 : ¬ PreRead p')
    (hpc' : s'.pc = Function.update s.pc i p') (hL : s'.inL = s.inL)
    (hT : s'.inTok = advTok n s.inTok) : InRing n s' := by
  have itok : i = s.inTok := h.pre i hi hold
  have mine : InSec (s.pc i) := Or.inl hold
  have sec' : ∀ a, InSec (s'.pc a) → InSec (s.pc a) := by
    intro a x
    by_cases e : a = i
    · subst e; exact mine
    · rwa [hpc', upd_ne _ _ _ _ e] at x
  refine ⟨by rw [hT]; exact advTok_lt h.tok, ?_, ?_, ?_, ?_, ?_, ?_⟩
  · intro a b ha hb x y; exact h.excl a b ha hb (sec' a x) (sec' b y)
  · intro a j ha hj x; rw [hL]; exact h.locked a j ha hj (sec' a x)
  · intro j j' hj hj' x y; rw [hL] at x y; exact h.one j j' hj hj' x y
  · intro j hj x; rw [hL] at x
    have := h.locked i j hi hj mine; rw [x] at this; cases this
  · intro a ha x
    exfalso
    by_cases e : a = i
    · subst e; rw [hpc', upd_eq] at x; exact hp2 x
    · have x' := x; rw [hpc', upd_ne _ _ _ _ e] at x'
      exact e (h.excl a i ha hi (Or.inl x') mine)
  · intro a ha x
    by_cases e : a = i
    · subst e; rw [hT, ← itok]
    · exfalso
      have x' := x; rw [hpc', upd_ne _ _ _ _ e] at x'
      exact e (h.excl a i ha hi (Or.inr x') mine)

/-- the occupant leaves and unlocks the successor's mutex -/
theorem InRing.pass {n : Nat} {s s' : S} (h : InRing n s) (i : Nat) (hi : i < n)
    (hold : PostRead (s.pc i)) (p' : PC) (hp' : ¬ InSec p')
    (hpc' : s'.pc = Function.update s.pc i p') (hL : s'.inL = Function.update s.inL (advTok n i) false)
    (hT : s'.inTok = s.inTok) : InRing n s' := by
  have mine : InSec (s.pc i) := Or.inr hold
  have nobody : ∀ k, k < n → ¬ InSec (s'.pc k) := by
    intro k hk hin
    by_cases ek : k = i
    · subst ek; rw [hpc', upd_eq] at hin; exact hp' hin
    · rw [hpc', upd_ne _ _ _ _ ek] at hin
      exact ek (h.excl k i hk hi hin mine)
  have allLocked : ∀ j, j < n → s.inL j = true := fun j hj => h.locked i j hi hj mine
  have onlyFree : ∀ j, j < n → s'.inL j = false → j = advTok n i := by
    intro j hj x
    by_contra e
    rw [hL, upd_ne _ _ _ _ e, allLocked j hj] at x; cases x
  refine ⟨by rw [hT]; exact h.tok, ?_, ?_, ?_, ?_, ?_, ?_⟩
  · intro a b ha hb x _; exact absurd x (nobody a ha)
  · intro a j ha hj x; exact absurd x (nobody a ha)
  · intro j j' hj hj' x y; rw [onlyFree j hj x, onlyFree j' hj' y]
  · intro j hj x; rw [onlyFree j hj x, hT]; exact h.post i hi hold
  · intro a ha x; exact absurd (Or.inl x) (nobody a ha)
  · intro a ha x; exact absurd (Or.inr x) (nobody a ha)

theorem mrg_not_pass (p : PC) (h1 : IsMerging p) (h2 : IsPassOut p) : False := by
  cases p <;> simp [IsMerging, IsPassOut] at *

/-- taking the token: thread i (outside the section) locks its own free In mutex -/
theorem OutRing.acquire {n : Nat} {s s' : S} (h : OutRing n s) (i : Nat) (hi : i < n)
    (hold : ¬ OutSec (s.pc i)) (hfree : s.outL i = false) (p' : PC) (hp1 : IsMerging p') (hp2 : ¬ IsPassOut p')
    (hpc' : s'.pc = Function.update s.pc i p') (hL : s'.outL = Function.update s.outL i true)
    (hT : s'.outTok = s.outTok) : OutRing n s' := by
  have nobody : ∀ k, k < n → ¬ OutSec (s.pc k) := by
    intro k hk hin
    have := h.locked k i hk hi hin; simp [hfree] at this
  have itok : i = s.outTok := h.free i hi hfree
  have secOnly : ∀ a, a < n → OutSec (s'.pc a) → a = i := by
    intro a ha x
    by_contra e
    rw [hpc', upd_ne _ _ _ _ e] at x; exact nobody a ha x
  refine ⟨by rw [hT]; exact h.tok, ?_, ?_, ?_, ?_, ?_, ?_⟩
  · intro a b ha hb x y; rw [secOnly a ha x, secOnly b hb y]
  · intro a j ha hj x
    rw [hL]
    by_cases ej : j = i
    · subst ej; exact upd_eq _ _ _
    · rw [upd_ne _ _ _ _ ej]
      by_contra hc; simp at hc
      exact ej (h.one j i hj hi hc hfree)
  · intro j j' hj hj' x y
    rw [hL] at x y
    by_cases ej : j = i
    · subst ej; rw [upd_eq] at x; cases x
    · by_cases ej' : j' = i
      · subst ej'; rw [upd_eq] at y; cases y
      · rw [upd_ne _ _ _ _ ej] at x; rw [upd_ne _ _ _ _ ej'] at y
        exact h.one j j' hj hj' x y
  · intro j hj x
    rw [hL] at x
    by_cases ej : j = i
    · subst ej; rw [upd_eq] at x; cases x
    · rw [upd_ne _ _ _ _ ej] at x; rw [hT]; exact h.free j hj x
  · intro a ha x
    have := secOnly a ha (Or.inl x); rw [this, hT]; exact itok
  · intro a ha x
    have e := secOnly a ha (Or.inr x); subst e
    rw [hpc', upd_eq] at x; exact absurd x hp2

/-- the occupant performs the guarded action and the ghost token advances -/
theorem OutRing.advance {n : Nat} {s s' : S} (h : OutRing n s) (i : Nat) (hi : i < n)
    (hold : IsMerging (s.pc i)) (p' : PC) (hp1 : IsPassOut p') (hp2 : ¬ IsMerging p')
    (hpc' : s'.pc = Function.update s.pc i p') (hL : s'.outL = s.outL)
    (hT : s'.outTok = advTok n s.outTok) : OutRing n s' := by
  have itok : i = s.outTok := h.pre i hi hold
  have mine : OutSec (s.pc i) := Or.inl hold
  have sec' : ∀ a, OutSec (s'.pc a) → OutSec (s.pc a) := by
    intro a x
    by_cases e : a = i
    · subst e; exact mine
    · rwa [hpc', upd_ne _ _ _ _ e] at x
  refine ⟨by rw [hT]; exact advTok_lt h.tok, ?_, ?_, ?_, ?_, ?_, ?_⟩
  · intro a b ha hb x y; exact h.excl a b ha hb (sec' a x) (sec' b y)
  · intro a j ha hj x; rw [hL]; exact h.locked a j ha hj (sec' a x)
  · intro j j' hj hj' x y; rw [hL] at x y; exact h.one j j' hj hj' x y
  · intro j hj x; rw [hL] at x
    have := h.locked i j hi hj mine; rw [x] at this; cases this
  · intro a ha x
    exfalso
    by_cases e : a = i
    · subst e; rw [hpc', upd_eq] at x; exact hp2 x
    · have x' := x; rw [hpc', upd_ne _ _ _ _ e] at x'
      exact e (h.excl a i ha hi (Or.inl x') mine)
  · intro a ha x
    by_cases e : a = i
    · subst e; rw [hT, ← itok]
    · exfalso
      have x' := x; rw [hpc', upd_ne _ _ _ _ e] at x'
      exact e (h.excl a i ha hi (Or.inr x') mine)

/-- the occupant leaves and unlocks the successor's mutex -/
theorem OutRing.pass {n : Nat} {s s' : S} (h : OutRing n s) (i : Nat) (hi : i < n)
    (hold : IsPassOut (s.pc i)) (p' : PC) (hp' : ¬ OutSec p')
    (hpc' : s'.pc = Function.update s.pc i p') (hL : s'.outL = Function.update s.outL (advTok n i) false)
    (hT : s'.outTok = s.outTok) : OutRing n s' := by
  have mine : OutSec (s.pc i) := Or.inr hold
  have nobody : ∀ k, k < n → ¬ OutSec (s'.pc k) := by
    intro k hk hin
    by_cases ek : k = i
    · subst ek; rw [hpc', upd_eq] at hin; exact hp' hin
    · rw [hpc', upd_ne _ _ _ _ ek] at hin
      exact ek (h.excl k i hk hi hin mine)
  have allLocked : ∀ j, j < n → s.outL j = true := fun j hj => h.locked i j hi hj mine
  have onlyFree : ∀ j, j < n → s'.outL j = false → j = advTok n i := by
    intro j hj x
    by_contra e
    rw [hL, upd_ne _ _ _ _ e, allLocked j hj] at x; cases x
  refine ⟨by rw [hT]; exact h.tok, ?_, ?_, ?_, ?_, ?_, ?_⟩
  · intro a b ha hb x _; exact absurd x (nobody a ha)
  · intro a j ha hj x; exact absurd x (nobody a ha)
  · intro j j' hj hj' x y; rw [onlyFree j hj x, onlyFree j' hj' y]
  · intro j hj x; rw [onlyFree j hj x, hT]; exact h.post i hi hold
  · intro a ha x; exact absurd (Or.inl x) (nobody a ha)
  · intro a ha x; exact absurd (Or.inr x) (nobody a ha)

theorem RdM.acquire {n : Nat} {s s' : S} (i : Nat) (hi : i < n) (p' : PC) (hp : HoldsRd p')
    (hpc' : s'.pc = Function.update s.pc i p') (hr : s'.rd = true) : RdM n s' := by
  constructor; rw [hr]; constructor
  · intro _; exact ⟨i, hi, by rw [hpc', upd_eq]; exact hp⟩
  · intro _; rfl

theorem RdM.release {n : Nat} {s s' : S} (hin : InRing n s) (i : Nat) (hi : i < n)
    (hold : HoldsRd (s.pc i)) (p' : PC) (hp : ¬ HoldsRd p')
    (hpc' : s'.pc = Function.update s.pc i p') (hr : s'.rd = false) : RdM n s' := by
  constructor; rw [hr]; constructor
  · intro x; cases x
  · rintro ⟨k, hk, hh⟩
    exfalso
    by_cases ek : k = i
    · subst ek; rw [hpc', upd_eq] at hh; exact hp hh
    · rw [hpc', upd_ne _ _ _ _ ek] at hh
      exact ek (hin.excl k i hk hi (holdsRd_inSec _ hh) (holdsRd_inSec _ hold))

theorem adv_sum {n base tok : Nat} (ht : tok < n) : advBase n base tok + advTok n tok = base + tok + 1 := by
  unfold advBase advTok; split <;> omega

/-- data invariant across the reader step, end outcome -/
theorem Data.readEnd {n F : Nat} {s s' : S} (h : Data n F s) (hin : InRing n s) (i : Nat) (hi : i < n)
    (hpc : s.pc i = inReader) (hpc' : s'.pc = Function.update s.pc i endUnlock)
    (hst : s'.budget = some 0 ∨ (s'.isFirst = false ∧ F ≤ s'.pos))
    (e1 : s'.readLog = s.readLog) (e2 : s'.mergeLog = s.mergeLog)
    (e4 : s'.isFirst = s.isFirst) (e5 : s'.pos = s.pos)
    (e7 : s'.inTok = advTok n s.inTok) (e8 : s'.inBase = advBase n s.inBase s.inTok)
    (e9 : s'.outTok = s.outTok) (e10 : s'.outBase = s.outBase) (e3 : s'.ended = true) : Data n F s' := by
  have itok : i = s.inTok := hin.pre i hi (by rw [hpc]; simp [PreRead])
  refine ⟨?_, ?_, ?_, ?_, ?_, ?_, ?_, ?_⟩
  · rw [e1]; exact h.rdRange
  · intro x; rw [e3] at x; cases x
  · rw [e4, e1, e5]; exact h.first1
  · rw [e4, e1, e5]; exact h.first2
  · intro _; exact hst
  · intro a f ha x
    by_cases e : a = i
    · subst e; rw [hpc', upd_eq] at x; simp [Holds] at x
    · rw [hpc', upd_ne _ _ _ _ e] at x
      rw [e7, e8, e9, e10, cnt_adv_ne hin.tok ha (by rw [← itok]; exact e)]
      exact h.hold a f ha x
  · intro a ha x
    by_cases e : a = i
    · subst e; rw [hpc', upd_eq] at x; simp [Idle] at x
    · rw [hpc', upd_ne _ _ _ _ e] at x
      rw [e7, e8, e9, e10, cnt_adv_ne hin.tok ha (by rw [← itok]; exact e)]
      exact h.idle a ha x
  · rw [e2, e9, e10]; exact h.mrg

/-- data invariant across the reader step, a frame `f = readLog.length` is delivered -/
theorem Data.readOk {n F : Nat} {s s' : S} (h : Data n F s) (hin : InRing n s) (i : Nat) (hi : i < n)
    (hpc : s.pc i = inReader) (f : Nat) (hf : f = s.readLog.length) (hne : s.ended = false)
    (hpc' : s'.pc = Function.update s.pc i (gotFrame f))
    (e1 : s'.readLog = s.readLog ++ [f]) (e2 : s'.mergeLog = s.mergeLog) (e3 : s'.ended = false)
    (e4 : s'.isFirst = false) (e5 : s'.pos = s.readLog.length + 1)
    (e7 : s'.inTok = advTok n s.inTok) (e8 : s'.inBase = advBase n s.inBase s.inTok)
    (e9 : s'.outTok = s.outTok) (e10 : s'.outBase = s.outBase) : Data n F s' := by
  have itok : i = s.inTok := hin.pre i hi (by rw [hpc]; simp [PreRead])
  have hlen : s.readLog.length = s.inBase + s.inTok := h.rdCount hne
  refine ⟨?_, ?_, ?_, ?_, ?_, ?_, ?_, ?_⟩
  · rw [e1, List.length_append, List.length_singleton, List.range_succ, hf, ← h.rdRange]
  · intro _; rw [e1, e7, e8, adv_sum hin.tok]; simp; omega
  · intro x; rw [e4] at x; cases x
  · intro _; rw [e5, e1]; simp
  · intro x; rw [e3] at x; cases x
  · intro a g ha x
    by_cases e : a = i
    · subst e; rw [hpc', upd_eq] at x
      simp only [Holds] at x; subst x
      have hidle := h.idle a ha (by rw [hpc]; simp [Idle])
      rw [e7, e8, e9, e10]
      have this : cnt n (advBase n s.inBase s.inTok) (advTok n s.inTok) a = cnt n s.inBase s.inTok a + n := by
        rw [itok]; exact cnt_adv_eq hin.tok
      have c0 : cnt n s.inBase s.inTok a = s.inBase := by unfold cnt; rw [itok]; simp
      constructor
      · rw [this, c0]; omega
      · rw [this, hidle]
    · rw [hpc', upd_ne _ _ _ _ e] at x
      rw [e7, e8, e9, e10, cnt_adv_ne hin.tok ha (by rw [← itok]; exact e)]
      exact h.hold a g ha x
  · intro a ha x
    by_cases e : a = i
    · subst e; rw [hpc', upd_eq] at x; simp [Idle] at x
    · rw [hpc', upd_ne _ _ _ _ e] at x
      rw [e7, e8, e9, e10, cnt_adv_ne hin.tok ha (by rw [← itok]; exact e)]
      exact h.idle a ha x
  · rw [e2, e9, e10]; exact h.mrg

/-- data invariant across the merge step -/
theorem Data.merge {n F : Nat} {s s' : S} (h : Data n F s) (hout : OutRing n s) (i : Nat) (hi : i < n)
    (f : Nat) (hpc : s.pc i = merging f) (hpc' : s'.pc = Function.update s.pc i passOut)
    (e1 : s'.readLog = s.readLog) (e2 : s'.mergeLog = s.mergeLog ++ [f]) (e3 : s'.ended = s.ended)
    (e4 : s'.isFirst = s.isFirst) (e5 : s'.pos = s.pos) (e6 : s'.budget = s.budget)
    (e7 : s'.inTok = s.inTok) (e8 : s'.inBase = s.inBase)
    (e9 : s'.outTok = advTok n s.outTok) (e10 : s'.outBase = advBase n s.outBase s.outTok) : Data n F s' := by
  have itok : i = s.outTok := hout.pre i hi (by rw [hpc]; simp [IsMerging])
  have hh := h.hold i f hi (by rw [hpc]; simp [Holds])
  have hf : f = s.outBase + s.outTok := by
    have : cnt n s.outBase s.outTok i = s.outBase := by unfold cnt; rw [itok]; simp
    omega
  refine ⟨?_, ?_, ?_, ?_, ?_, ?_, ?_, ?_⟩
  · rw [e1]; exact h.rdRange
  · rw [e3, e1, e7, e8]; exact h.rdCount
  · rw [e4, e1, e5]; exact h.first1
  · rw [e4, e1, e5]; exact h.first2
  · rw [e3, e6, e4, e5]; exact h.sticky
  · intro a g ha x
    by_cases e : a = i
    · subst e; rw [hpc', upd_eq] at x; simp [Holds] at x
    · rw [hpc', upd_ne _ _ _ _ e] at x
      rw [e7, e8, e9, e10, cnt_adv_ne hout.tok ha (by rw [← itok]; exact e)]
      exact h.hold a g ha x
  · intro a ha x
    by_cases e : a = i
    · subst e
      rw [e7, e8, e9, e10]
      have this : cnt n (advBase n s.outBase s.outTok) (advTok n s.outTok) a = cnt n s.outBase s.outTok a + n := by
        rw [itok]; exact cnt_adv_eq hout.tok
      rw [this]; exact hh.2
    · rw [hpc', upd_ne _ _ _ _ e] at x
      rw [e7, e8, e9, e10, cnt_adv_ne hout.tok ha (by rw [← itok]; exact e)]
      exact h.idle a ha x
  · rw [e2, e9, e10, adv_sum hout.tok, List.range_succ, hf, ← h.mrg]

theorem inv_init (n F : Nat) (hn : 0 < n) (b : Option Nat) : Inv n F (init b) := by
  refine ⟨⟨hn, ?_, ?_, ?_, ?_, ?_, ?_⟩, ⟨hn, ?_, ?_, ?_, ?_, ?_, ?_⟩, ⟨?_⟩, ⟨?_, ?_, ?_, ?_, ?_, ?_, ?_, ?_⟩⟩
  · intro i j _ _ h; simp [init, InSec, PreRead, PostRead] at h
  · intro i j _ _ h; simp [init, InSec, PreRead, PostRead] at h
  · intro j j' _ _ h h'; simp [init] at h h'; omega
  · intro j _ h; simp [init] at h; simp [init]; exact h
  · intro i _ h; simp [init, PreRead] at h
  · intro i _ h; simp [init, PostRead] at h
  · intro i j _ _ h; simp [init, OutSec, IsMerging, IsPassOut] at h
  · intro i j _ _ h; simp [init, OutSec, IsMerging, IsPassOut] at h
  · intro j j' _ _ h h'; simp [init] at h h'; omega
  · intro j _ h; simp [init] at h; simp [init]; exact h
  · intro i _ h; simp [init, IsMerging] at h
  · intro i _ h; simp [init, IsPassOut] at h
  · simp [init, HoldsRd]
  · simp [init]
  · intro _; simp [init]
  · intro _; simp [init]
  · intro h; simp [init] at h
  · intro h; simp [init] at h
  · intro i f _ h; simp [init, Holds] at h
  · intro i _ _; simp [init, cnt]
  · simp [init]

theorem inv_step (n F : Nat) (s s' : S) (i : Nat) (hi : i < n)
    (h : Inv n F s) (hs : step n F s i = some s') : Inv n F s' := by
  obtain ⟨hin, hout, hrd, hdat⟩ := h
  unfold step at hs
  split at hs
  · -- wantIn
    rename_i hpc
    split at hs
    · cases hs
    · rename_i hfree; simp at hfree; cases hs
      refine ⟨hin.acquire i hi (by rw [hpc]; simp [InSec, PreRead, PostRead]) hfree wantReader
                (by simp [PreRead]) (by simp [PostRead]) rfl rfl rfl, ?_, ?_, ?_⟩
      · exact hout.frame i (fun j e => upd_ne _ _ _ _ e) (by simp [hpc, IsMerging])
          (by simp [hpc, IsPassOut]) rfl rfl
      · exact hrd.frame i (fun j e => upd_ne _ _ _ _ e) (by simp [hpc, HoldsRd]) rfl
      · exact hdat.frame i (fun j e => upd_ne _ _ _ _ e) (by intro f; simp [hpc, Holds])
          (by simp [hpc, Idle]) rfl rfl rfl rfl rfl rfl rfl rfl rfl rfl
  · -- wantReader
    rename_i hpc
    split at hs
    · cases hs
    · rename_i hfree; cases hs
      refine ⟨hin.frame i (fun j e => upd_ne _ _ _ _ e) (by simp [hpc, PreRead])
                (by simp [hpc, PostRead]) rfl rfl, ?_, ?_, ?_⟩
      · exact hout.frame i (fun j e => upd_ne _ _ _ _ e) (by simp [hpc, IsMerging])
          (by simp [hpc, IsPassOut]) rfl rfl
      · exact RdM.acquire i hi inReader (by simp [HoldsRd]) rfl rfl
      · exact hdat.frame i (fun j e => upd_ne _ _ _ _ e) (by intro f; simp [hpc, Holds])
          (by simp [hpc, Idle]) rfl rfl rfl rfl rfl rfl rfl rfl rfl rfl
  · -- inReader
    rename_i hpc
    have itok : i = s.inTok := hin.pre i hi (by rw [hpc]; simp [PreRead])
    have outF : ∀ p : PC, ¬ IsMerging p → ¬ IsPassOut p → ∀ s'' : S, s''.pc = Function.update s.pc i p →
        s''.outL = s.outL → s''.outTok = s.outTok → OutRing n s'' := by
      intro p h1 h2 s'' e1 e2 e3
      exact hout.frame i (fun j e => by rw [e1]; exact upd_ne _ _ _ _ e)
        (by rw [e1, upd_eq, hpc]; exact ⟨fun x => absurd x h1, fun x => by simp [IsMerging] at x⟩)
        (by rw [e1, upd_eq, hpc]; exact ⟨fun x => absurd x h2, fun x => by simp [IsPassOut] at x⟩) e2 e3
    split at hs
    · -- budget exhausted
      rename_i hb; cases hs
      refine ⟨hin.advance i hi (by rw [hpc]; simp [PreRead]) endUnlock (by simp [PostRead]) (by simp [PreRead]) rfl rfl rfl,
        outF endUnlock (by simp [IsMerging]) (by simp [IsPassOut]) _ rfl rfl rfl, ?_, ?_⟩
      · exact hrd.frame i (fun j e => upd_ne _ _ _ _ e) (by simp [hpc, HoldsRd]) rfl
      · exact hdat.readEnd hin i hi hpc rfl (Or.inl hb) rfl rfl rfl rfl rfl rfl rfl rfl rfl
    · rename_i hb
      split at hs
      · -- first frame, worker 0
        rename_i hf0; obtain ⟨hfirst, hi0⟩ := hf0; cases hs
        have hnotended : s.ended = false := by
          by_contra hc; simp at hc
          rcases hdat.sticky hc with h1 | h1
          · exact hb h1
          · rw [hfirst] at h1; cases h1.1
        have hlog := hdat.first1 hfirst
        refine ⟨hin.advance i hi (by rw [hpc]; simp [PreRead]) (gotFrame 0) (by simp [PostRead]) (by simp [PreRead]) rfl rfl rfl,
          outF (gotFrame 0) (by simp [IsMerging]) (by simp [IsPassOut]) _ rfl rfl rfl, ?_, ?_⟩
        · exact hrd.frame i (fun j e => upd_ne _ _ _ _ e) (by simp [hpc, HoldsRd]) rfl
        · exact hdat.readOk hin i hi hpc 0 (by rw [hlog.1]; rfl) hnotended rfl rfl rfl hnotended rfl
            (by show s.pos = s.readLog.length + 1; rw [hlog.1, hlog.2]; rfl) rfl rfl rfl rfl
      · rename_i hf0
        -- in ordered mode isFirst must already be false here
        have hnf : s.isFirst = false := by
          by_contra hc; simp at hc
          have hnotended : s.ended = false := by
            by_contra hc2; simp at hc2
            rcases hdat.sticky hc2 with h1 | h1
            · exact hb h1
            · rw [hc] at h1; cases h1.1
          have h0 := hdat.rdCount hnotended
          rw [(hdat.first1 hc).1] at h0; simp at h0
          exact hf0 ⟨hc, by omega⟩
        split at hs
        · -- NextFrame delivers frame pos
          rename_i hlt; cases hs
          have hnotended : s.ended = false := by
            by_contra hc2; simp at hc2
            rcases hdat.sticky hc2 with h1 | h1
            · exact hb h1
            · omega
          have hp := hdat.first2 hnf
          refine ⟨hin.advance i hi (by rw [hpc]; simp [PreRead]) (gotFrame s.pos) (by simp [PostRead]) (by simp [PreRead]) rfl rfl rfl,
            outF (gotFrame s.pos) (by simp [IsMerging]) (by simp [IsPassOut]) _ rfl rfl rfl, ?_, ?_⟩
          · exact hrd.frame i (fun j e => upd_ne _ _ _ _ e) (by simp [hpc, HoldsRd]) rfl
          · exact hdat.readOk hin i hi hpc s.pos hp.1 hnotended rfl rfl rfl hnotended
              (by show (if i = 0 then false else s.isFirst) = false; split <;> simp [hnf])
              (by show s.pos + 1 = s.readLog.length + 1; rw [hp.1]) rfl rfl rfl rfl
        · -- NextFrame fails
          rename_i hge; cases hs
          refine ⟨hin.advance i hi (by rw [hpc]; simp [PreRead]) endUnlock (by simp [PostRead]) (by simp [PreRead]) rfl rfl rfl,
            outF endUnlock (by simp [IsMerging]) (by simp [IsPassOut]) _ rfl rfl rfl, ?_, ?_⟩
          · exact hrd.frame i (fun j e => upd_ne _ _ _ _ e) (by simp [hpc, HoldsRd]) rfl
          · exact hdat.readEnd hin i hi hpc rfl (Or.inr ⟨hnf, by show F ≤ s.pos; omega⟩) rfl rfl rfl rfl rfl rfl rfl rfl rfl
  · -- gotFrame f
    rename_i f hpc; cases hs
    refine ⟨hin.frame i (fun j e => upd_ne _ _ _ _ e) (by simp [hpc, PreRead])
              (by simp [hpc, PostRead]) rfl rfl, ?_, ?_, ?_⟩
    · exact hout.frame i (fun j e => upd_ne _ _ _ _ e) (by simp [hpc, IsMerging])
        (by simp [hpc, IsPassOut]) rfl rfl
    · exact RdM.release hin i hi (by rw [hpc]; simp [HoldsRd]) (passIn f) (by simp [HoldsRd]) rfl rfl
    · exact hdat.frame i (fun j e => upd_ne _ _ _ _ e) (by intro g; simp [hpc, Holds])
        (by simp [hpc, Idle]) rfl rfl rfl rfl rfl rfl rfl rfl rfl rfl
  · -- passIn f
    rename_i f hpc; cases hs
    refine ⟨hin.pass i hi (by rw [hpc]; simp [PostRead]) (eval f) (by simp [InSec, PreRead, PostRead]) rfl
              (by show Function.update s.inL ((i + 1) % n) false = _; rw [succ_mod hi]) rfl, ?_, ?_, ?_⟩
    · exact hout.frame i (fun j e => upd_ne _ _ _ _ e) (by simp [hpc, IsMerging])
        (by simp [hpc, IsPassOut]) rfl rfl
    · exact hrd.frame i (fun j e => upd_ne _ _ _ _ e) (by simp [hpc, HoldsRd]) rfl
    · exact hdat.frame i (fun j e => upd_ne _ _ _ _ e) (by intro g; simp [hpc, Holds])
        (by simp [hpc, Idle]) rfl rfl rfl rfl rfl rfl rfl rfl rfl rfl
  · -- eval f
    rename_i f hpc; cases hs
    refine ⟨hin.frame i (fun j e => upd_ne _ _ _ _ e) (by simp [hpc, PreRead])
              (by simp [hpc, PostRead]) rfl rfl, ?_, ?_, ?_⟩
    · exact hout.frame i (fun j e => upd_ne _ _ _ _ e) (by simp [hpc, IsMerging])
        (by simp [hpc, IsPassOut]) rfl rfl
    · exact hrd.frame i (fun j e => upd_ne _ _ _ _ e) (by simp [hpc, HoldsRd]) rfl
    · exact hdat.frame i (fun j e => upd_ne _ _ _ _ e) (by intro g; simp [hpc, Holds])
        (by simp [hpc, Idle]) rfl rfl rfl rfl rfl rfl rfl rfl rfl rfl
  · -- wantOut f
    rename_i f hpc
    split at hs
    · cases hs
    · rename_i hfree; simp at hfree; cases hs
      refine ⟨hin.frame i (fun j e => upd_ne _ _ _ _ e) (by simp [hpc, PreRead])
                (by simp [hpc, PostRead]) rfl rfl, ?_, ?_, ?_⟩
      · exact hout.acquire i hi (by rw [hpc]; simp [OutSec, IsMerging, IsPassOut]) hfree (merging f)
          (by simp [IsMerging]) (by simp [IsPassOut]) rfl rfl rfl
      · exact hrd.frame i (fun j e => upd_ne _ _ _ _ e) (by simp [hpc, HoldsRd]) rfl
      · exact hdat.frame i (fun j e => upd_ne _ _ _ _ e) (by intro g; simp [hpc, Holds])
          (by simp [hpc, Idle]) rfl rfl rfl rfl rfl rfl rfl rfl rfl rfl
  · -- merging f
    rename_i f hpc; cases hs
    refine ⟨hin.frame i (fun j e => upd_ne _ _ _ _ e) (by simp [hpc, PreRead])
              (by simp [hpc, PostRead]) rfl rfl, ?_, ?_, ?_⟩
    · exact hout.advance i hi (by rw [hpc]; simp [IsMerging]) passOut (by simp [IsPassOut]) (by simp [IsMerging]) rfl rfl rfl
    · exact hrd.frame i (fun j e => upd_ne _ _ _ _ e) (by simp [hpc, HoldsRd]) rfl
    · exact hdat.merge hout i hi f hpc rfl rfl rfl rfl rfl rfl rfl rfl rfl rfl rfl
  · -- passOut
    rename_i hpc; cases hs
    refine ⟨hin.frame i (fun j e => upd_ne _ _ _ _ e) (by simp [hpc, PreRead])
              (by simp [hpc, PostRead]) rfl rfl, ?_, ?_, ?_⟩
    · exact hout.pass i hi (by rw [hpc]; simp [IsPassOut]) wantIn (by simp [OutSec, IsMerging, IsPassOut]) rfl
        (by show Function.update s.outL ((i + 1) % n) false = _; rw [succ_mod hi]) rfl
    · exact hrd.frame i (fun j e => upd_ne _ _ _ _ e) (by simp [hpc, HoldsRd]) rfl
    · exact hdat.frame i (fun j e => upd_ne _ _ _ _ e) (by intro g; simp [hpc, Holds])
        (by simp [hpc, Idle]) rfl rfl rfl rfl rfl rfl rfl rfl rfl rfl
  · -- endUnlock
    rename_i hpc; cases hs
    refine ⟨hin.frame i (fun j e => upd_ne _ _ _ _ e) (by simp [hpc, PreRead])
              (by simp [hpc, PostRead]) rfl rfl, ?_, ?_, ?_⟩
    · exact hout.frame i (fun j e => upd_ne _ _ _ _ e) (by simp [hpc, IsMerging])
        (by simp [hpc, IsPassOut]) rfl rfl
    · exact RdM.release hin i hi (by rw [hpc]; simp [HoldsRd]) endPass (by simp [HoldsRd]) rfl rfl
    · exact hdat.frame i (fun j e => upd_ne _ _ _ _ e) (by intro g; simp [hpc, Holds])
        (by simp [hpc, Idle]) rfl rfl rfl rfl rfl rfl rfl rfl rfl rfl
  · -- endPass
    rename_i hpc; cases hs
    refine ⟨hin.pass i hi (by rw [hpc]; simp [PostRead]) done (by simp [InSec, PreRead, PostRead]) rfl
              (by show Function.update s.inL ((i + 1) % n) false = _; rw [succ_mod hi]) rfl, ?_, ?_, ?_⟩
    · exact hout.frame i (fun j e => upd_ne _ _ _ _ e) (by simp [hpc, IsMerging])
        (by simp [hpc, IsPassOut]) rfl rfl
    · exact hrd.frame i (fun j e => upd_ne _ _ _ _ e) (by simp [hpc, HoldsRd]) rfl
    · exact hdat.frame i (fun j e => upd_ne _ _ _ _ e) (by intro g; simp [hpc, Holds])
        (by simp [hpc, Idle]) rfl rfl rfl rfl rfl rfl rfl rfl rfl rfl
  · cases hs

theorem inv_run (n F : Nat) (sched : List Nat) : ∀ s, Inv n F s → Inv n F (run n F s sched) := by
  induction sched with
  | nil => intro s h; exact h
  | cons i rest ih =>
    intro s h
    unfold run
    by_cases hi : i < n
    · simp only [hi, if_true]
      cases hst : step n F s i with
      | none => exact ih s h
      | some s' => exact ih s' (inv_step n F s s' i hi h hst)
    · simp only [hi, if_false]; exact ih s h

/-! ### the protocol theorems: every n ≥ 1, every file length, every budget, every schedule -/

/-- frames are read in file order, each exactly once -/
theorem read_in_order (n F : Nat) (hn : 0 < n) (b : Option Nat) (sched : List Nat) :
    let s := run n F (init b) sched
    s.readLog = List.range s.readLog.length :=
  (inv_run n F sched _ (inv_init n F hn b)).data.rdRange

/-- merges happen in frame order: the merge log is always 0,1,2,…  -/
theorem merge_in_order (n F : Nat) (hn : 0 < n) (b : Option Nat) (sched : List Nat) :
    let s := run n F (init b) sched
    s.mergeLog = List.range s.mergeLog.length := by
  intro s
  have h := (inv_run n F sched _ (inv_init n F hn b)).data.mrg
  have : s.mergeLog.length = s.outBase + s.outTok := by
    show (run n F (init b) sched).mergeLog.length = _
    rw [h]; simp; rfl
  rw [this]; exact h

/-- never two workers inside the trajectory reader -/
theorem reader_mutex (n F : Nat) (hn : 0 < n) (b : Option Nat) (sched : List Nat) (i j : Nat)
    (hi : i < n) (hj : j < n)
    (h1 : (run n F (init b) sched).pc i = inReader) (h2 : (run n F (init b) sched).pc j = inReader) :
    i = j :=
  (inv_run n F sched _ (inv_init n F hn b)).inR.excl i j hi hj
    (by rw [h1]; simp [InSec, PreRead]) (by rw [h2]; simp [InSec, PreRead])

/-- never two workers inside the merge step -/
theorem merge_mutex (n F : Nat) (hn : 0 < n) (b : Option Nat) (sched : List Nat) (i j f g : Nat)
    (hi : i < n) (hj : j < n)
    (h1 : (run n F (init b) sched).pc i = merging f) (h2 : (run n F (init b) sched).pc j = merging g) :
    i = j :=
  (inv_run n F sched _ (inv_init n F hn b)).outR.excl i j hi hj
    (by rw [h1]; simp [OutSec, IsMerging]) (by rw [h2]; simp [OutSec, IsMerging])

end Ring2
#print axioms Ring2.merge_in_order
#print axioms Ring2.read_in_order
#print axioms Ring2.reader_mutex
#print axioms Ring2.merge_mutex
