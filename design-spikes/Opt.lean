/-! spike: user-over-default merge of option trees (OptionsHandler::OverwriteDefaultsWithUserInput,
    non-list branch) — user leaves win, untouched defaults stay.  Core Lean only. -/
namespace Opt

inductive PTree where
  | node (name value : String) (attrs : List (String × String)) (children : List PTree)
deriving Repr

namespace PTree
def name : PTree → String | node n _ _ _ => n
def value : PTree → String | node _ v _ _ => v
def attrs : PTree → List (String × String) | node _ _ a _ => a
def children : PTree → List PTree | node _ _ _ c => c
end PTree

/-- Property::get(name): first child with that name (names are unique among siblings in the
    descriptions; uniqueness is a stated well-formedness condition) -/
def lookup : List PTree → String → Option PTree
  | [], _ => none
  | c :: cs, n => if c.name = n then some c else lookup cs n

def setAttr (a : List (String × String)) (k v : String) : List (String × String) :=
  (a.filter (·.1 != k)) ++ [(k, v)]

mutual
def overwrite (user : PTree) : PTree → PTree
  | .node n _ a cs => .node n user.value (setAttr a "injected" "true") (overwriteList user cs)
def overwriteList (user : PTree) : List PTree → List PTree
  | [] => []
  | c :: cs =>
    (match lookup user.children c.name with
     | some u => overwrite u c
     | none => c) :: overwriteList user cs
end

def getPath : PTree → List String → Option PTree
  | t, [] => some t
  | t, n :: rest => match lookup t.children n with
    | some c => getPath c rest
    | none => none

theorem overwrite_name (u d : PTree) : (overwrite u d).name = d.name := by
  cases d; simp [overwrite, PTree.name]
theorem overwrite_value (u d : PTree) : (overwrite u d).value = u.value := by
  cases d; simp [overwrite, PTree.value]
theorem overwrite_children (u d : PTree) : (overwrite u d).children = overwriteList u d.children := by
  cases d; simp [overwrite, PTree.children]

/-- looking a name up in the merged children: the merged version of the default child -/
theorem lookup_overwriteList (u : PTree) (n : String) : ∀ (cs : List PTree),
    lookup (overwriteList u cs) n =
      (lookup cs n).map (fun c => match lookup u.children c.name with
                                   | some uc => overwrite uc c
                                   | none => c) := by
  intro cs
  induction cs with
  | nil => simp [overwriteList, lookup]
  | cons c cs ih =>
    simp only [overwriteList, lookup]
    have hname : (match lookup u.children c.name with
                  | some uc => overwrite uc c
                  | none => c).name = c.name := by
      cases lookup u.children c.name with
      | none => rfl
      | some uc => exact overwrite_name uc c
    rw [hname]
    by_cases h : c.name = n
    · simp [h]
    · simp [h, ih]

/-- every node the user supplied (along a path that exists in the defaults) carries the user's value -/
theorem user_value_wins : ∀ (path : List String) (u d un dn : PTree),
    getPath u path = some un → getPath d path = some dn →
    (getPath (overwrite u d) path).map PTree.value = some un.value := by
  intro path
  induction path with
  | nil =>
    intro u d un dn hu _
    simp only [getPath] at hu ⊢
    cases hu
    simp [overwrite_value]
  | cons n rest ih =>
    intro u d un dn hu hd
    simp only [getPath] at hu hd ⊢
    cases hlu : lookup u.children n with
    | none => rw [hlu] at hu; cases hu
    | some uc =>
      cases hld : lookup d.children n with
      | none => rw [hld] at hd; cases hd
      | some dc =>
        rw [hlu] at hu; rw [hld] at hd
        rw [overwrite_children, lookup_overwriteList, hld]
        simp only [Option.map_some]
        -- the default child is called n
        have hdn : dc.name = n := by
          have : ∀ cs : List PTree, lookup cs n = some dc → dc.name = n := by
            intro cs
            induction cs with
            | nil => intro h; cases h
            | cons c cs ih2 =>
              intro h
              simp only [lookup] at h
              by_cases hc : c.name = n
              · simp [hc] at h; subst h; exact hc
              · simp [hc] at h; exact ih2 h
          exact this _ hld
        rw [hdn, hlu]
        exact ih uc dc un dn hu hd

/-- a default subtree the user did not mention is left exactly as it was -/
theorem untouched_default_kept (u d dc : PTree) (n : String)
    (hd : lookup d.children n = some dc) (hu : lookup u.children n = none) :
    lookup (overwrite u d).children n = some dc := by
  rw [overwrite_children, lookup_overwriteList, hd]
  have hdn : dc.name = n := by
    have : ∀ cs : List PTree, lookup cs n = some dc → dc.name = n := by
      intro cs
      induction cs with
      | nil => intro h; cases h
      | cons c cs ih2 =>
        intro h
        simp only [lookup] at h
        by_cases hc : c.name = n
        · simp [hc] at h; subst h; exact hc
        · simp [hc] at h; exact ih2 h
    exact this _ hd
  simp [hdn, hu]

end Opt
#print axioms Opt.user_value_wins
#print axioms Opt.untouched_default_kept
