import Mathlib.Tactic.Ring
import Mathlib.Tactic.Linarith
import Mathlib.Algebra.Order.Field.Basic
/-! prototype: xtp/huffmantree.h threshold redistribution and descent -/
namespace Huff
variable {α : Type} [Field α] [LinearOrder α] [IsStrictOrderedRing α]

/-- tree as built by makeTree; `p` is the mutable `probability` field -/
inductive T (α : Type) where
  | two (l r : Nat) (vl vr : α) (p : α)      -- last level, two events (values already / sum)
  | one (e : Nat) (v : α) (p : α)            -- last level, odd leftover: left = right = e
  | inner (l r : T α) (p : α)

open T

def prob : T α → α
  | two _ _ _ _ p => p
  | one _ _ p => p
  | inner _ _ p => p

/-- total probability mass of the leaves -/
def mass : T α → α
  | two _ _ vl vr _ => vl + vr
  | one _ v _ => v
  | inner l r _ => mass l + mass r

/-- state right after the merge phase: every node holds the mass of its subtree -/
def fresh : T α → Prop
  | two _ _ vl vr p => p = vl + vr
  | one _ v p => p = v
  | inner l r p => fresh l ∧ fresh r ∧ p = prob l + prob r

/-- addProbabilityFromRightSubtreeToLeftSubtree -/
def pass1 : T α → α → T α
  | two l r vl vr p, add => two l r vl vr (p + add)
  | one e v p, add => one e v (p + add)
  | inner l r p, add => inner (pass1 l (add + prob r)) (pass1 r add) (p + add)

/-- moveProbabilitiesFromRightSubtreesOneLevelUp -/
def pass2 : T α → T α
  | two l r vl vr p => two l r vl vr (p - vl)
  | one e v p => one e v (p - v)
  | inner l r _ => inner (pass2 l) (pass2 r) (prob r)

/-- findHoppingDestination -/
def find : T α → α → Nat
  | two l r _ _ p, x => if x > p then l else r
  | one e _ _, _ => e
  | inner l r p, x => if x > p then find l x else find r x

/-- leaves from right to left with their masses -/
def leavesRL : T α → List (Nat × α)
  | two l r vl vr _ => [(r, vr), (l, vl)]
  | one e v _ => [(e, v)]
  | inner l r _ => leavesRL r ++ leavesRL l

/-- reference selection: walk the cumulative sums, last element catches everything above -/
def select : List (Nat × α) → α → α → Nat
  | [], _, _ => 0
  | [(e, _)], _, _ => e
  | (e, v) :: rest, a, x => if x > a + v then select rest (a + v) x else e

theorem fresh_prob (t : T α) (h : fresh t) : prob t = mass t := by
  induction t with
  | two l r vl vr p => simpa [fresh, prob, mass] using h
  | one e v p => simpa [fresh, prob, mass] using h
  | inner l r p ihl ihr =>
    obtain ⟨hl, hr, hp⟩ := h
    have e1 := ihl hl
    have e2 := ihr hr
    show p = mass l + mass r
    rw [hp, e1, e2]

theorem leaves_ne_nil (t : T α) : leavesRL t ≠ [] := by
  induction t with
  | two => simp [leavesRL]
  | one => simp [leavesRL]
  | inner l r p ihl ihr => simp [leavesRL, ihl, ihr]

def total : List (Nat × α) → α
  | [] => 0
  | (_, v) :: rest => v + total rest

theorem total_leaves (t : T α) : total (leavesRL t) = mass t := by
  induction t with
  | two l r vl vr p => simp [leavesRL, total, mass]; ring
  | one e v p => simp [leavesRL, total, mass]
  | inner l r p ihl ihr =>
    simp only [leavesRL, mass]
    have : ∀ (xs ys : List (Nat × α)), total (xs ++ ys) = total xs + total ys := by
      intro xs ys; induction xs with
      | nil => simp [total]
      | cons x xs ih => obtain ⟨e, v⟩ := x; simp [total, ih]; ring
    rw [this, ihl, ihr]; ring

theorem total_append (xs ys : List (Nat × α)) : total (xs ++ ys) = total xs + total ys := by
  induction xs with
  | nil => simp [total]
  | cons x xs ih => obtain ⟨e, v⟩ := x; simp [total, ih]; ring

def nonneg (xs : List (Nat × α)) : Prop := ∀ q ∈ xs, (0 : α) ≤ q.2

theorem total_nonneg (xs : List (Nat × α)) (h : nonneg xs) : 0 ≤ total xs := by
  induction xs with
  | nil => simp [total]
  | cons x xs ih =>
    obtain ⟨e, v⟩ := x
    have hv : (0:α) ≤ v := h (e, v) (by simp)
    have := ih (fun q hq => h q (by simp [hq]))
    simp only [total]; linarith

/-- selecting in a concatenation: up to the first block's top stay in the first block,
    above it continue in the second with the offset advanced -/
theorem select_append (xs ys : List (Nat × α)) (hx : xs ≠ []) (hy : ys ≠ []) (hn : nonneg xs) (a x : α) :
    select (xs ++ ys) a x = if x > a + total xs then select ys (a + total xs) x else select xs a x := by
  induction xs generalizing a with
  | nil => exact absurd rfl hx
  | cons p xs ih =>
    obtain ⟨e, v⟩ := p
    cases xs with
    | nil =>
      cases ys with
      | nil => exact absurd rfl hy
      | cons q ys => simp [select, total]
    | cons q xs =>
      have hn' : nonneg (q :: xs) := fun z hz => hn z (by simp [hz])
      have ih' := ih (by simp) hn' (a + v)
      have ht := total_nonneg (q :: xs) hn'
      simp only [List.cons_append] at ih' ⊢
      have e1 : a + v + total (q :: xs) = a + total ((e, v) :: q :: xs) := by simp only [total]; ring
      by_cases h1 : x > a + v
      · have : select ((e, v) :: q :: (xs ++ ys)) a x = select (q :: (xs ++ ys)) (a + v) x := by
          simp only [select, h1, if_true]
        rw [this, ih', e1]
        have : select ((e, v) :: q :: xs) a x = select (q :: xs) (a + v) x := by
          simp only [select, h1, if_true]
        rw [this]
      · have h2 : ¬ x > a + total ((e, v) :: q :: xs) := by
          rw [← e1]; intro hh; apply h1; linarith
        simp only [h2, if_false]
        simp only [select, h1, if_false]

/-- all leaf masses non-negative -/
def leafNonneg (t : T α) : Prop := nonneg (leavesRL t)

/-- main lemma: after both passes with offset `a`, the descent is the cumulative selection -/
theorem find_spec (t : T α) (hf : fresh t) (hn : leafNonneg t) (a x : α) :
    find (pass2 (pass1 t a)) x = select (leavesRL t) a x := by
  induction t generalizing a with
  | two l r vl vr p =>
    have hp : p = vl + vr := hf
    simp only [pass1, pass2, find, leavesRL, select]
    have : p + a - vl = a + vr := by rw [hp]; ring
    rw [this]
  | one e v p => simp [pass1, pass2, find, leavesRL, select]
  | inner l r p ihl ihr =>
    obtain ⟨hl, hr, hp⟩ := hf
    have hnr : nonneg (leavesRL r) := fun q hq => hn q (by simp [leavesRL, hq])
    have hnl : nonneg (leavesRL l) := fun q hq => hn q (by simp [leavesRL, hq])
    have key : prob (pass1 r a) = a + total (leavesRL r) := by
      rw [total_leaves, ← fresh_prob r hr]
      cases r <;> simp [pass1, prob] <;> ring
    simp only [pass1, pass2, find, leavesRL]
    rw [select_append _ _ (leaves_ne_nil r) (leaves_ne_nil l) hnr, key]
    by_cases h : x > a + total (leavesRL r)
    · simp only [h, if_true]
      rw [ihl hl hnl]
      congr 1
      rw [total_leaves, ← fresh_prob r hr]
    · simp only [h, if_false]
      exact ihr hr hnr a

end Huff
#print axioms Huff.find_spec
