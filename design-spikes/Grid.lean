import Mathlib.Data.List.Perm.Basic
import Mathlib.Data.List.Basic
import Mathlib.Tactic.Linarith
/-! spike: NBListGrid::Generate(BeadList&) at the list level.
    Beads are visited in list order; bead b is tested against the beads already inserted in its own
    cell and in the neighbour cells, then inserted.  `cell`, `nbrs` and `close` are abstract. -/
namespace Grid
variable {C : Type} [DecidableEq C]

/-- candidates scanned for a bead whose cell list is `cs` (own cell first, then neighbours_) -/
def scan (cell : Nat → C) (seen : List Nat) (cs : List C) : List Nat :=
  cs.flatMap (fun c => seen.filter (fun e => cell e = c))

def gridStep (cell : Nat → C) (cells : Nat → List C) (close : Nat → Nat → Bool)
    (st : List Nat × List (Nat × Nat)) (b : Nat) : List Nat × List (Nat × Nat) :=
  (st.1 ++ [b], st.2 ++ ((scan cell st.1 (cells b)).filter (fun e => close e b)).map (fun e => (e, b)))

def gridPairs (cell : Nat → C) (cells : Nat → List C) (close : Nat → Nat → Bool) (beads : List Nat) :
    List (Nat × Nat) := (beads.foldl (gridStep cell cells close) ([], [])).2

def bruteStep (close : Nat → Nat → Bool) (st : List Nat × List (Nat × Nat)) (b : Nat) :
    List Nat × List (Nat × Nat) :=
  (st.1 ++ [b], st.2 ++ (st.1.filter (fun e => close e b)).map (fun e => (e, b)))

/-- O(N²) reference: every earlier bead within the cutoff -/
def brutePairs (close : Nat → Nat → Bool) (beads : List Nat) : List (Nat × Nat) :=
  (beads.foldl (bruteStep close) ([], [])).2

/-- scanning a duplicate-free list of cells visits exactly the seen beads lying in those cells, once each -/
theorem scan_perm (cell : Nat → C) (seen : List Nat) : ∀ (cs : List C), cs.Nodup →
    (scan cell seen cs).Perm (seen.filter (fun e => decide (cell e ∈ cs))) := by
  intro cs
  induction cs with
  | nil => intro _; simp [scan]
  | cons c cs ih =>
    intro hnd
    obtain ⟨hc, hnd'⟩ := List.nodup_cons.1 hnd
    have ih' := ih hnd'
    unfold scan at ih' ⊢
    rw [List.flatMap_cons]
    -- split the target filter by `cell e = c`
    have split := List.filter_append_perm (fun e => decide (cell e = c))
      (seen.filter (fun e => decide (cell e ∈ c :: cs)))
    refine List.Perm.trans ?_ split
    apply List.Perm.append
    · rw [List.filter_filter]
      apply List.Perm.of_eq
      apply List.filter_congr
      intro e _
      by_cases h : cell e = c <;> simp [h]
    · rw [List.filter_filter]
      refine ih'.trans (List.Perm.of_eq ?_)
      apply List.filter_congr
      intro e _
      by_cases h : cell e = c
      · subst h; simp [hc]
      · simp [h]

/-- with complete, duplicate-free neighbour lists the grid search returns exactly the brute-force pairs,
    each once (as a permutation, since the scan order differs) -/
theorem grid_exact (cell : Nat → C) (cells : Nat → List C) (close : Nat → Nat → Bool)
    (hnd : ∀ b, (cells b).Nodup)
    (hcomplete : ∀ e b, close e b = true → cell e ∈ cells b) (beads : List Nat) :
    (gridPairs cell cells close beads).Perm (brutePairs close beads) := by
  unfold gridPairs brutePairs
  -- generalise over the accumulated state
  suffices H : ∀ (bs seen : List Nat) (p q : List (Nat × Nat)), p.Perm q →
      ((bs.foldl (gridStep cell cells close) (seen, p)).2).Perm ((bs.foldl (bruteStep close) (seen, q)).2) by
    exact H beads [] [] [] (List.Perm.refl _)
  intro bs
  induction bs with
  | nil => intro seen p q h; simpa using h
  | cons b bs ih =>
    intro seen p q h
    simp only [List.foldl_cons, gridStep, bruteStep]
    apply ih
    apply List.Perm.append h
    apply List.Perm.map
    have h1 := (scan_perm cell seen (cells b) (hnd b)).filter (fun e => close e b)
    refine h1.trans (List.Perm.of_eq ?_)
    rw [List.filter_filter]
    apply List.filter_congr
    intro e _
    by_cases hc : close e b = true
    · simp [hc, hcomplete e b hc]
    · simp [hc]

end Grid
#print axioms Grid.grid_exact
