import Mathlib.Analysis.SpecialFunctions.Exp
import Mathlib.Analysis.SpecialFunctions.Sqrt
import Mathlib.Data.Matrix.Basic
import Mathlib.Data.Matrix.Diagonal
import Mathlib.Tactic.Ring
import Mathlib.Tactic.FieldSimp
import Mathlib.Tactic.Linarith
/-! spike: algebraic obligations of C14 (Marcus), C12 (cubic spline C¹), C04 (running mean), C06 (Tikhonov) -/
open Real

namespace Marcus
/-- Rate_Engine::Marcusrate with hbar, π as positive parameters -/
noncomputable def rate (pi hbar J2 dG lam kT : ℝ) : ℝ :=
  2 * pi / hbar * J2 / sqrt (4 * pi * lam * kT) * exp (-(dG - lam) * (dG - lam) / (4 * lam * kT))

theorem rate_pos (pi hbar J2 dG lam kT : ℝ) (hpi : 0 < pi) (hh : 0 < hbar) (hJ : 0 < J2) (hl : 0 < lam) (hT : 0 < kT) :
    0 < rate pi hbar J2 dG lam kT := by
  unfold rate
  have : 0 < sqrt (4 * pi * lam * kT) := sqrt_pos.2 (by positivity)
  positivity

theorem rate_linear_J2 (pi hbar J2 c dG lam kT : ℝ) :
    rate pi hbar (c * J2) dG lam kT = c * rate pi hbar J2 dG lam kT := by
  unfold rate; ring

/-- detailed balance: forward with dG, backward with -dG, equal reorganisation energy -/
theorem detailed_balance (pi hbar J2 dG lam kT : ℝ) (hpi : 0 < pi) (hh : 0 < hbar) (hJ : 0 < J2)
    (hl : 0 < lam) (hT : 0 < kT) :
    rate pi hbar J2 dG lam kT / rate pi hbar J2 (-dG) lam kT = exp (dG / kT) := by
  unfold rate
  have hs : 0 < sqrt (4 * pi * lam * kT) := sqrt_pos.2 (by positivity)
  have hpre : 2 * pi / hbar * J2 / sqrt (4 * pi * lam * kT) ≠ 0 := by positivity
  rw [mul_div_mul_left _ _ hpre, ← exp_sub]
  congr 1
  field_simp
  ring
end Marcus

namespace Spline
variable {α : Type} [Field α] [CharZero α]
/-- derivative of the left piece at its right end minus derivative of the right piece at its left end
    (CalculateDerivative on both sides of knot x1) equals the residual of row i+1 of the system -/
theorem deriv_jump_eq_residual (h1 h2 f0 f1 f2 s0 s1 s2 : α) (hh1 : h1 ≠ 0) (hh2 : h2 ≠ 0) :
    -- left piece on [x0,x1], xxi = h1
    ((-1 / h1) * f0 + (1 / h1) * f1 + (h1 - (1/2) * h1 * h1 / h1 - h1 / 3) * s0 + ((1/2) * h1 * h1 / h1 - (1/6) * h1) * s1)
    -- right piece on [x1,x2], xxi = 0
    - ((-1 / h2) * f1 + (1 / h2) * f2 + (0 - (1/2) * 0 * 0 / h2 - h2 / 3) * s1 + ((1/2) * 0 * 0 / h2 - (1/6) * h2) * s2)
    = -- A(i+1,·)·s − temp(i+1) with the code's coefficients
      ((1/6) * h1) * s0 + ((1/3) * h1 - (-(1/3) * h2)) * s1 + (-(-(1/6) * h2)) * s2
      - (-((-1 / h1) * f0 + ((1 / h1) - (-1 / h2)) * f1 - (1 / h2) * f2)) := by
  field_simp
  ring
end Spline

namespace Mean
variable {α : Type} [Field α] [CharZero α]
/-- Imc::MergeWorker: avg ← ((n-1)·avg + x)/n -/
def upd (n : Nat) (avg x : α) : α := (((n : α) - 1) * avg + x) / n

def runAvg : List α → Nat × α
  | [] => (0, 0)
  | x :: xs => let r := runAvg xs; (r.1 + 1, upd (r.1 + 1) r.2 x)

theorem runAvg_spec (xs : List α) : (runAvg xs).1 = xs.length ∧ ((runAvg xs).1 : α) * (runAvg xs).2 = xs.sum := by
  induction xs with
  | nil => simp [runAvg]
  | cons x xs ih =>
    obtain ⟨h1, h2⟩ := ih
    refine ⟨by simp [runAvg, h1], ?_⟩
    simp only [runAvg, upd, List.sum_cons]
    have hn : ((((runAvg xs).1 + 1 : Nat)) : α) ≠ 0 := by
      have : (runAvg xs).1 + 1 ≠ 0 := Nat.succ_ne_zero _
      exact_mod_cast this
    rw [mul_div_cancel₀ _ hn]
    push_cast
    rw [← h2]; ring
end Mean

namespace Tik
open Matrix
variable {n : Type} [Fintype n] [DecidableEq n]
/-- csg_imc_solve: inverse built from an orthogonal eigen-decomposition of AᵀA -/
theorem tikhonov (M V : Matrix n n ℝ) (d : n → ℝ) (r : ℝ)
    (h1 : V * Vᵀ = 1) (h2 : Vᵀ * V = 1) (hM : M = V * diagonal d * Vᵀ) (hr : ∀ i, d i + r ≠ 0) :
    (M + r • (1 : Matrix n n ℝ)) * (V * diagonal (fun i => 1 / (d i + r)) * Vᵀ) = 1 := by
  have e1 : M + r • (1 : Matrix n n ℝ) = V * diagonal (fun i => d i + r) * Vᵀ := by
    rw [hM]
    have : r • (1 : Matrix n n ℝ) = V * diagonal (fun _ => r) * Vᵀ := by
      have : diagonal (fun _ : n => r) = r • (1 : Matrix n n ℝ) := by
        ext i j; by_cases h : i = j <;> simp [diagonal, h, Matrix.one_apply]
      rw [this, Matrix.mul_smul, Matrix.smul_mul, Matrix.mul_one, h1]
    rw [this, ← Matrix.add_mul, ← Matrix.mul_add, diagonal_add]
  rw [e1]
  calc V * diagonal (fun i => d i + r) * Vᵀ * (V * diagonal (fun i => 1 / (d i + r)) * Vᵀ)
      = V * (diagonal (fun i => d i + r) * (Vᵀ * V) * diagonal (fun i => 1 / (d i + r))) * Vᵀ := by
        simp only [Matrix.mul_assoc]
    _ = V * (diagonal (fun i => d i + r) * diagonal (fun i => 1 / (d i + r))) * Vᵀ := by rw [h2, Matrix.mul_one]
    _ = V * 1 * Vᵀ := by
        congr 2
        rw [diagonal_mul_diagonal]
        have : (fun i => (d i + r) * (1 / (d i + r))) = fun _ : n => (1 : ℝ) := by
          funext i; field_simp [hr i]
        rw [this, diagonal_one]
    _ = 1 := by rw [Matrix.mul_one, h1]
end Tik
#print axioms Marcus.detailed_balance
#print axioms Spline.deriv_jump_eq_residual
#print axioms Mean.runAvg_spec
#print axioms Tik.tikhonov
