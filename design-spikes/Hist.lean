import Mathlib.Tactic.Linarith
import Mathlib.Tactic.Ring
import Mathlib.Algebra.Order.Floor.Ring
import Mathlib.Algebra.Order.Field.Basic
/-! spike: HistogramNew::Process index logic -/
namespace Hist

/-- the code's wrap for a raw index i (C++ truncating %) -/
def wrapCode (i : Int) (n : Int) : Int :=
  if i < 0 then n - (Int.tmod (-i) n) else Int.tmod i n

/-- what the wrap should be -/
def wrapSpec (i : Int) (n : Int) : Int := Int.emod i n

/-- counterexample on the current tree: i = -n gives n (one past the end) -/
theorem wrapCode_out_of_range : ¬ (∀ i n : Int, 0 < n → 0 ≤ wrapCode i n ∧ wrapCode i n < n) := by
  intro h
  have := h (-4) 4 (by decide)
  revert this; decide

/-- partial: in range whenever i is not a negative multiple of n -/
theorem wrapCode_in_range (i n : Int) (hn : 0 < n) (h : ¬ (i < 0 ∧ n ∣ i)) :
    0 ≤ wrapCode i n ∧ wrapCode i n < n := by
  unfold wrapCode
  split
  · rename_i hi
    have h1 : 0 ≤ Int.tmod (-i) n := Int.tmod_nonneg _ (by omega)
    have h2 : Int.tmod (-i) n < n := Int.tmod_lt_of_pos _ hn
    have h3 : Int.tmod (-i) n ≠ 0 := by
      intro h0
      apply h; refine ⟨hi, ?_⟩
      have : n ∣ -i := Int.dvd_of_tmod_eq_zero h0
      exact (Int.dvd_neg).1 this
    omega
  · rename_i hi
    exact ⟨Int.tmod_nonneg _ (by omega), Int.tmod_lt_of_pos _ hn⟩

/-- the repaired wrap `(n - (-i) % n) % n` agrees with the mathematical residue, always in range -/
def wrapFixed (i : Int) (n : Int) : Int :=
  if i < 0 then Int.tmod (n - (Int.tmod (-i) n)) n else Int.tmod i n

theorem wrapFixed_in_range (i n : Int) (hn : 0 < n) : 0 ≤ wrapFixed i n ∧ wrapFixed i n < n := by
  unfold wrapFixed
  split
  · have h1 : 0 ≤ Int.tmod (-i) n := Int.tmod_nonneg _ (by omega)
    have h2 : Int.tmod (-i) n < n := Int.tmod_lt_of_pos _ hn
    exact ⟨Int.tmod_nonneg _ (by omega), Int.tmod_lt_of_pos _ hn⟩
  · exact ⟨Int.tmod_nonneg _ (by omega), Int.tmod_lt_of_pos _ hn⟩

variable {α : Type} [Field α] [LinearOrder α] [IsStrictOrderedRing α] [FloorRing α]

/-- bin index expression: floor((v-min)/step + 1/2) -/
def rawIndex (min step v : α) : Int := ⌊(v - min) / step + 1 / 2⌋

/-- nearest-centre property: the chosen centre is within half a step -/
theorem nearest_centre (min step v : α) (hs : 0 < step) :
    let i := rawIndex min step v
    (-(step / 2) ≤ v - (min + i * step)) ∧ (v - (min + i * step) < step / 2) := by
  intro i
  have h1 : (i : α) ≤ (v - min) / step + 1 / 2 := Int.floor_le _
  have h2 : (v - min) / step + 1 / 2 < i + 1 := Int.lt_floor_add_one _
  have e : v - min = (v - min) / step * step := by field_simp
  constructor
  · have : ((v - min) / step) * step < (i + 1 - 1/2) * step := by
      apply mul_lt_mul_of_pos_right _ hs; linarith
    nlinarith [this]
  · have : (i - 1/2) * step ≤ ((v - min) / step) * step := by
      apply mul_le_mul_of_nonneg_right _ hs.le; linarith
    nlinarith [this]

end Hist
#print axioms Hist.nearest_centre
#print axioms Hist.wrapCode_out_of_range
