import Votca.Model.C05Unord
/-! # C05 — machine-checked witness of the recorded finding (KNOWN_FINDINGS.txt): in the unordered mode with a frame budget
(`--nframes`) the SET of processed frames depends on the schedule.  Not an obligation of the check (see tools/vlib.py). -/
namespace Votca.C05.Unord

/-- `--nframes 1`, two workers, three frames in the file: worker 0 first ⇒ frame 0 is processed -/
theorem sched_a : let s := run 2 3 (init (some 1)) [0,0,0,0, 0,0,0, 1,1,1]
    allDone 2 s = true ∧ s.processed = [0] := by decide

/-- same input, worker 1 first ⇒ frame 1 is processed and frame 0 (already read by the seek) never is -/
theorem sched_b : let s := run 2 3 (init (some 1)) [1,1,1,1, 1,1,1, 0,0,0]
    allDone 2 s = true ∧ s.processed = [1] := by decide

/-- hence the set of processed frames is NOT schedule independent in this mode -/
theorem unordered_budget_schedule_dependent :
    ∃ s1 s2 : List Nat,
      allDone 2 (run 2 3 (init (some 1)) s1) = true ∧ allDone 2 (run 2 3 (init (some 1)) s2) = true ∧
      (run 2 3 (init (some 1)) s1).processed ≠ (run 2 3 (init (some 1)) s2).processed :=
  ⟨[0,0,0,0, 0,0,0, 1,1,1], [1,1,1,1, 1,1,1, 0,0,0], by decide, by decide, by decide⟩
end Votca.C05.Unord
