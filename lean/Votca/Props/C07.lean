import Votca.Lemmas.C07
import Votca.Props.C12
import Mathlib.Tactic.FinCases
/-! # C07 — property theorems: every analytic derivative is the derivative of its value function

About the gradient formulas of `Votca/Model/C07.lean` (instantiated over ℝ with `Real.sqrt` for the norm witnesses) and
the potential-function formulas regenerated from the source (`Votca/Gen/PotReal.lean`).  `HasDerivAt … 0` along the line
`t ↦ x + t·e` for every direction `e` is the statement "the gradient with respect to that bead, contracted with `e`,
is the derivative of the reported value". -/
namespace Votca.C07
open Real Votca.Gen.PotReal

/-- cosine of the angle between two vectors, as `EvaluateVar` forms it -/
noncomputable def cosA (a b : Vec ℝ) : ℝ := a.dot b / (sqrt (a.dot a) * sqrt (b.dot b))

/-- away from collinear vectors the witness `s = √(1 - cos²)` is not zero (Cauchy–Schwarz) -/
theorem sin_witness_ne_zero (v1 v2 : Vec ℝ) (h1 : 0 < v1.dot v1) (h2 : 0 < v2.dot v2)
    (hc1 : cosA v1 v2 ≠ -1) (hc2 : cosA v1 v2 ≠ 1) : sqrt (1 - cosA v1 v2 ^ 2) ≠ 0 := by
  apply (sqrt_pos.2 _).ne'
  have : cosA v1 v2 ^ 2 < 1 := by
    have hle : |cosA v1 v2| ≤ 1 := by
      unfold cosA
      rw [abs_div, abs_of_pos (mul_pos (sqrt_pos.2 h1) (sqrt_pos.2 h2)), div_le_one (mul_pos (sqrt_pos.2 h1) (sqrt_pos.2 h2))]
      rw [← sqrt_mul h1.le]
      apply Real.abs_le_sqrt
      simp only [Vec.dot]
      nlinarith [sq_nonneg (v1.x * v2.y - v1.y * v2.x), sq_nonneg (v1.x * v2.z - v1.z * v2.x), sq_nonneg (v1.y * v2.z - v1.z * v2.y)]
    have hlt : |cosA v1 v2| < 1 := lt_of_le_of_ne hle (by
      intro h
      rcases abs_eq (by norm_num : (0 : ℝ) ≤ 1) |>.mp h with h | h
      · exact hc2 h
      · exact hc1 h)
    have := sq_lt_one_iff_abs_lt_one (cosA v1 v2) |>.mpr hlt
    linarith
  linarith

/-! ## bond -/

/-- `IBond`: moving bead 1 by `t·e` (so `r = getDist(b0,b1)` becomes `r + t e`), the length changes at the rate `Grad(1)·e` -/
theorem bond_grad1_is_derivative (r e : Vec ℝ) (hr : 0 < r.dot r) :
    HasDerivAt (fun t => sqrt ((line r e t).dot (line r e t))) ((bondGrad 1 r (sqrt (r.dot r))).dot e) 0 := by
  refine (hasDerivAt_norm_line r e hr).congr_deriv ?_
  simp [bondGrad, Vec.sdiv, Vec.dot]
  ring

/-- moving bead 0 by `t·e` turns `r` into `r - t e` -/
theorem bond_grad0_is_derivative (r e : Vec ℝ) (hr : 0 < r.dot r) :
    HasDerivAt (fun t => sqrt ((line r e.neg t).dot (line r e.neg t))) ((bondGrad 0 r (sqrt (r.dot r))).dot e) 0 := by
  refine (hasDerivAt_norm_line r e.neg hr).congr_deriv ?_
  simp [bondGrad, Vec.sdiv, Vec.dot, Vec.neg]
  ring

theorem bond_grad_sum_zero (r : Vec ℝ) (n : ℝ) : (bondGrad 0 r n).add (bondGrad 1 r n) = ⟨0, 0, 0⟩ := by
  simp [bondGrad, Vec.add, Vec.neg, Vec.sdiv]

/-! ## angle -/

/-- `IAngle`, bead 0: `v1 = getDist(b1,b0)` becomes `v1 + t e`; `acos(cos)` changes at the rate `Grad(0)·e`.
Hypotheses: both bonds have positive length and the beads are not collinear (`cos ≠ ±1`). -/
theorem angle_grad0_is_derivative (v1 v2 e : Vec ℝ) (h1 : 0 < v1.dot v1) (h2 : 0 < v2.dot v2)
    (hc1 : cosA v1 v2 ≠ -1) (hc2 : cosA v1 v2 ≠ 1) :
    HasDerivAt (fun t => arccos (cosA (line v1 e t) v2))
      ((angleGrad 0 v1 v2 (sqrt (v1.dot v1)) (sqrt (v2.dot v2)) (sqrt (1 - cosA v1 v2 ^ 2))).dot e) 0 := by
  have hcos := hasDerivAt_cos_line v1 e v2 h1 h2
  have h0 : cosA (line v1 e 0) v2 = cosA v1 v2 := by rw [line_zero]
  have := hasDerivAt_sign_arccos (fun t => cosA (line v1 e t) v2) _ 0 1 hcos (by simp only [h0]; exact hc1) (by simp only [h0]; exact hc2)
  simp only [one_mul] at this
  refine this.congr_deriv ?_
  simp only [h0]
  have hn1 : sqrt (v1.dot v1) ≠ 0 := (sqrt_pos.2 h1).ne'
  have hn2 : sqrt (v2.dot v2) ≠ 0 := (sqrt_pos.2 h2).ne'
  have hs : sqrt (1 - cosA v1 v2 ^ 2) ≠ 0 := sin_witness_ne_zero v1 v2 h1 h2 hc1 hc2
  simp only [angleGrad, Vec.dot, Vec.add, Vec.neg, Vec.sdiv, Vec.smul, if_pos]
  field_simp
  ring

/-- `cosA` is symmetric -/
theorem cosA_comm (a b : Vec ℝ) : cosA a b = cosA b a := by
  unfold cosA Vec.dot; ring

/-- `IAngle`, bead 2: `v2 = getDist(b1,b2)` becomes `v2 + t e` -/
theorem angle_grad2_is_derivative (v1 v2 e : Vec ℝ) (h1 : 0 < v1.dot v1) (h2 : 0 < v2.dot v2)
    (hc1 : cosA v1 v2 ≠ -1) (hc2 : cosA v1 v2 ≠ 1) :
    HasDerivAt (fun t => arccos (cosA v1 (line v2 e t)))
      ((angleGrad 2 v1 v2 (sqrt (v1.dot v1)) (sqrt (v2.dot v2)) (sqrt (1 - cosA v1 v2 ^ 2))).dot e) 0 := by
  have h := angle_grad0_is_derivative v2 v1 e h2 h1 (by rw [cosA_comm]; exact hc1) (by rw [cosA_comm]; exact hc2)
  have hf : (fun t => arccos (cosA v1 (line v2 e t))) = fun t => arccos (cosA (line v2 e t) v1) := by
    funext t; rw [cosA_comm]
  rw [hf]
  refine h.congr_deriv ?_
  rw [cosA_comm v2 v1]
  simp only [angleGrad, Vec.dot, Vec.add, Vec.neg, Vec.sdiv, Vec.smul]
  norm_num
  ring

/-- the three angle gradients sum to zero (the value depends on bead differences only), for any non-zero witnesses -/
theorem angle_grad_sum_zero (v1 v2 : Vec ℝ) (n1 n2 s : ℝ) (h1 : n1 ≠ 0) (h2 : n2 ≠ 0) (hs : s ≠ 0) :
    ((angleGrad 0 v1 v2 n1 n2 s).add (angleGrad 1 v1 v2 n1 n2 s)).add (angleGrad 2 v1 v2 n1 n2 s) = ⟨0, 0, 0⟩ := by
  simp only [angleGrad, Vec.dot, Vec.add, Vec.sub, Vec.neg, Vec.sdiv, Vec.smul]
  norm_num
  refine ⟨?_, ?_, ?_⟩ <;> field_simp <;> ring

/-! ## dihedral -/

theorem cross_line_left (v1 v2 e : Vec ℝ) (t : ℝ) :
    (line v1 e.neg t).cross v2 = line (v1.cross v2) (v2.cross e) t := by
  simp only [line, Vec.cross, Vec.neg, Vec.mk.injEq]
  refine ⟨by ring, by ring, by ring⟩

theorem cross_line_right (v2 v3 e : Vec ℝ) (t : ℝ) :
    v2.cross (line v3 e t) = line (v2.cross v3) (v2.cross e) t := by
  simp only [line, Vec.cross, Vec.mk.injEq]
  refine ⟨by ring, by ring, by ring⟩

/-- `IDihedral`, bead 0 (`v1 = getDist(b0,b1)` becomes `v1 - t e`): `sign·acos(cos(n1,n2))` changes at the rate
`Grad(0)·e`.  Hypotheses: both normals are non-zero and not parallel; `sign` is the (locally constant) sign factor. -/
theorem dihedral_grad0_is_derivative (v1 v2 v3 e : Vec ℝ) (sign : ℝ)
    (h1 : 0 < (v1.cross v2).dot (v1.cross v2)) (h2 : 0 < (v2.cross v3).dot (v2.cross v3))
    (hc1 : cosA (v1.cross v2) (v2.cross v3) ≠ -1) (hc2 : cosA (v1.cross v2) (v2.cross v3) ≠ 1) :
    HasDerivAt (fun t => sign * arccos (cosA ((line v1 e.neg t).cross v2) (v2.cross v3)))
      ((dihedralGrad 0 1 0 v1 v2 v3 (sqrt ((v1.cross v2).dot (v1.cross v2))) (sqrt ((v2.cross v3).dot (v2.cross v3)))
          (sqrt (1 - cosA (v1.cross v2) (v2.cross v3) ^ 2)) sign).dot e) 0 := by
  have hf : (fun t => sign * arccos (cosA ((line v1 e.neg t).cross v2) (v2.cross v3))) =
      fun t => sign * arccos (cosA (line (v1.cross v2) (v2.cross e) t) (v2.cross v3)) := by
    funext t; rw [cross_line_left]
  rw [hf]
  have hcos := hasDerivAt_cos_line (v1.cross v2) (v2.cross e) (v2.cross v3) h1 h2
  have h0 : cosA (line (v1.cross v2) (v2.cross e) 0) (v2.cross v3) = cosA (v1.cross v2) (v2.cross v3) := by rw [line_zero]
  have := hasDerivAt_sign_arccos (fun t => cosA (line (v1.cross v2) (v2.cross e) t) (v2.cross v3)) _ 0 sign hcos
    (by simp only [h0]; exact hc1) (by simp only [h0]; exact hc2)
  refine this.congr_deriv ?_
  simp only [h0]
  have hn1 : sqrt ((v1.cross v2).dot (v1.cross v2)) ≠ 0 := (sqrt_pos.2 h1).ne'
  have hn2 : sqrt ((v2.cross v3).dot (v2.cross v3)) ≠ 0 := (sqrt_pos.2 h2).ne'
  have hs := sin_witness_ne_zero _ _ h1 h2 hc1 hc2
  generalize sqrt ((v1.cross v2).dot (v1.cross v2)) = m1 at *
  generalize sqrt ((v2.cross v3).dot (v2.cross v3)) = m2 at *
  generalize sqrt (1 - cosA (v1.cross v2) (v2.cross v3) ^ 2) = s at *
  simp only [dihedralGrad, dihedralComp, unitVec, Vec.dot, Vec.cross, Vec.add]
  norm_num
  field_simp
  ring

/-- `IDihedral`, bead 3 (`v3 = getDist(b2,b3)` becomes `v3 + t e`) -/
theorem dihedral_grad3_is_derivative (v1 v2 v3 e : Vec ℝ) (sign : ℝ)
    (h1 : 0 < (v1.cross v2).dot (v1.cross v2)) (h2 : 0 < (v2.cross v3).dot (v2.cross v3))
    (hc1 : cosA (v1.cross v2) (v2.cross v3) ≠ -1) (hc2 : cosA (v1.cross v2) (v2.cross v3) ≠ 1) :
    HasDerivAt (fun t => sign * arccos (cosA (v1.cross v2) (v2.cross (line v3 e t))))
      ((dihedralGrad 0 1 3 v1 v2 v3 (sqrt ((v1.cross v2).dot (v1.cross v2))) (sqrt ((v2.cross v3).dot (v2.cross v3)))
          (sqrt (1 - cosA (v1.cross v2) (v2.cross v3) ^ 2)) sign).dot e) 0 := by
  have hf : (fun t => sign * arccos (cosA (v1.cross v2) (v2.cross (line v3 e t)))) =
      fun t => sign * arccos (cosA (line (v2.cross v3) (v2.cross e) t) (v1.cross v2)) := by
    funext t; rw [cross_line_right, cosA_comm]
  rw [hf]
  have hcos := hasDerivAt_cos_line (v2.cross v3) (v2.cross e) (v1.cross v2) h2 h1
  have h0 : cosA (line (v2.cross v3) (v2.cross e) 0) (v1.cross v2) = cosA (v1.cross v2) (v2.cross v3) := by
    rw [line_zero, cosA_comm]
  have := hasDerivAt_sign_arccos (fun t => cosA (line (v2.cross v3) (v2.cross e) t) (v1.cross v2)) _ 0 sign hcos
    (by simp only [h0]; exact hc1) (by simp only [h0]; exact hc2)
  refine this.congr_deriv ?_
  simp only [h0]
  have hn1 : sqrt ((v1.cross v2).dot (v1.cross v2)) ≠ 0 := (sqrt_pos.2 h1).ne'
  have hn2 : sqrt ((v2.cross v3).dot (v2.cross v3)) ≠ 0 := (sqrt_pos.2 h2).ne'
  have hs := sin_witness_ne_zero _ _ h1 h2 hc1 hc2
  generalize sqrt ((v1.cross v2).dot (v1.cross v2)) = m1 at *
  generalize sqrt ((v2.cross v3).dot (v2.cross v3)) = m2 at *
  generalize sqrt (1 - cosA (v1.cross v2) (v2.cross v3) ^ 2) = s at *
  simp only [dihedralGrad, dihedralComp, unitVec, Vec.dot, Vec.cross, Vec.add]
  norm_num
  field_simp
  ring

/-- the four dihedral gradients sum to zero, for any non-zero witnesses -/
theorem dihedral_grad_sum_zero (v1 v2 v3 : Vec ℝ) (m1 m2 s sign : ℝ) (h1 : m1 ≠ 0) (h2 : m2 ≠ 0) (hs : s ≠ 0) :
    (((dihedralGrad 0 1 0 v1 v2 v3 m1 m2 s sign).add (dihedralGrad 0 1 1 v1 v2 v3 m1 m2 s sign)).add
      (dihedralGrad 0 1 2 v1 v2 v3 m1 m2 s sign)).add (dihedralGrad 0 1 3 v1 v2 v3 m1 m2 s sign) = ⟨0, 0, 0⟩ := by
  simp only [dihedralGrad, dihedralComp, unitVec, Vec.dot, Vec.cross, Vec.add, Vec.mk.injEq]
  norm_num
  refine ⟨?_, ?_, ?_⟩ <;> field_simp <;> ring

/-! ## potential functions: the formulas regenerated from the source (`Gen/PotReal.lean`)

`HasDerivAt (fun x => F … x …) (DF i …) λ_i`: `CalculateDF(i)` is the partial derivative of `CalculateF` with respect to
parameter `i`; `HasDerivAt (fun x => DF i … x …) (D2F i j …) λ_j` likewise for the second derivatives. -/

section lj126
variable (l0 l1 r : ℝ)

theorem lj126_DF0_is_derivative : HasDerivAt (fun x => lj126F x l1 r) (lj126DF 0 l0 l1 r) l0 := by
  have hf : (fun x => lj126F x l1 r) = fun x => (1 / r ^ 12) * x + (-(l1 / r ^ 6)) := by funext x; unfold lj126F; ring
  rw [hf]
  exact (hd_lin _ _ l0).congr_deriv (by simp [lj126DF])

theorem lj126_DF1_is_derivative : HasDerivAt (fun x => lj126F l0 x r) (lj126DF 1 l0 l1 r) l1 := by
  have hf : (fun x => lj126F l0 x r) = fun x => (-(1 / r ^ 6)) * x + (l0 / r ^ 12) := by funext x; unfold lj126F; ring
  rw [hf]
  exact (hd_lin _ _ l1).congr_deriv (by simp [lj126DF]; ring)

/-- the first derivatives do not depend on the parameters, and `CalculateD2F` is 0 -/
theorem lj126_D2F_is_derivative (i j : Nat) (m0 m1 : ℝ) :
    lj126DF i l0 l1 r = lj126DF i m0 m1 r ∧ lj126D2F i j l0 l1 r = 0 := ⟨rfl, rfl⟩

end lj126

section ljg
variable (l0 l1 l2 l3 l4 r : ℝ)

theorem ljg_DF0_is_derivative : HasDerivAt (fun x => ljgF x l1 l2 l3 l4 r) (ljgDF 0 l0 l1 l2 l3 l4 r) l0 := by
  have hf : (fun x => ljgF x l1 l2 l3 l4 r) =
      fun x => (1 / r ^ 12) * x + (-(l1 / r ^ 6) + l2 * exp (-1 * l3 * (r - l4) * (r - l4))) := by
    funext x; unfold ljgF; ring
  rw [hf]
  exact (hd_lin _ _ l0).congr_deriv (by simp [ljgDF])

theorem ljg_DF1_is_derivative : HasDerivAt (fun x => ljgF l0 x l2 l3 l4 r) (ljgDF 1 l0 l1 l2 l3 l4 r) l1 := by
  have hf : (fun x => ljgF l0 x l2 l3 l4 r) =
      fun x => (-(1 / r ^ 6)) * x + (l0 / r ^ 12 + l2 * exp (-1 * l3 * (r - l4) * (r - l4))) := by
    funext x; unfold ljgF; ring
  rw [hf]
  exact (hd_lin _ _ l1).congr_deriv (by simp [ljgDF]; ring)

theorem ljg_DF2_is_derivative : HasDerivAt (fun x => ljgF l0 l1 x l3 l4 r) (ljgDF 2 l0 l1 l2 l3 l4 r) l2 := by
  have hf : (fun x => ljgF l0 l1 x l3 l4 r) =
      fun x => exp (-1 * l3 * (r - l4) * (r - l4)) * x + (l0 / r ^ 12 - l1 / r ^ 6) := by
    funext x; unfold ljgF; ring
  rw [hf]
  exact (hd_lin _ _ l2).congr_deriv (by simp [ljgDF])

theorem ljg_DF3_is_derivative : HasDerivAt (fun x => ljgF l0 l1 l2 x l4 r) (ljgDF 3 l0 l1 l2 l3 l4 r) l3 := by
  have hf : (fun x => ljgF l0 l1 l2 x l4 r) =
      fun x => (l0 / r ^ 12 - l1 / r ^ 6) + l2 * exp ((-((r - l4) * (r - l4))) * x + 0) := by
    funext x; unfold ljgF; ring_nf
  rw [hf]
  refine (hasDerivAt_gauss _ (fun _ => l2) _ 0 _ l3 (hasDerivAt_const l3 l2) (hd_lin (-((r - l4) * (r - l4))) 0 l3)).congr_deriv ?_
  simp only [ljgDF]; ring_nf

theorem ljg_DF4_is_derivative : HasDerivAt (fun x => ljgF l0 l1 l2 l3 x r) (ljgDF 4 l0 l1 l2 l3 l4 r) l4 := by
  have hf : (fun x => ljgF l0 l1 l2 l3 x r) =
      fun x => (l0 / r ^ 12 - l1 / r ^ 6) + l2 * exp ((-l3) * (r - x) * (r - x)) := by
    funext x; unfold ljgF; ring_nf
  rw [hf]
  refine (hasDerivAt_gauss _ (fun _ => l2) _ 0 _ l4 (hasDerivAt_const l4 l2) (hd_sq (-l3) r l4)).congr_deriv ?_
  simp only [ljgDF]; ring_nf

/-! second derivatives: `CalculateD2F(i, j)` is the derivative of `CalculateDF(i)` with respect to parameter `j` -/

theorem ljg_D2F_23 : HasDerivAt (fun x => ljgDF 2 l0 l1 l2 x l4 r) (ljgD2F 2 3 l0 l1 l2 l3 l4 r) l3 := by
  have hf : (fun x => ljgDF 2 l0 l1 l2 x l4 r) = fun x => 0 + 1 * exp ((-((r - l4) * (r - l4))) * x + 0) := by
    funext x; simp only [ljgDF]; ring_nf
  rw [hf]
  refine (hasDerivAt_gauss 0 (fun _ => 1) _ 0 _ l3 (hasDerivAt_const l3 1) (hd_lin (-((r - l4) * (r - l4))) 0 l3)).congr_deriv ?_
  simp only [ljgD2F]; ring_nf

theorem ljg_D2F_24 : HasDerivAt (fun x => ljgDF 2 l0 l1 l2 l3 x r) (ljgD2F 2 4 l0 l1 l2 l3 l4 r) l4 := by
  have hf : (fun x => ljgDF 2 l0 l1 l2 l3 x r) = fun x => 0 + 1 * exp ((-l3) * (r - x) * (r - x)) := by
    funext x; simp only [ljgDF]; ring_nf
  rw [hf]
  refine (hasDerivAt_gauss 0 (fun _ => 1) _ 0 _ l4 (hasDerivAt_const l4 1) (hd_sq (-l3) r l4)).congr_deriv ?_
  simp only [ljgD2F]; ring_nf

theorem ljg_D2F_32 : HasDerivAt (fun x => ljgDF 3 l0 l1 x l3 l4 r) (ljgD2F 3 2 l0 l1 l2 l3 l4 r) l2 := by
  have hf : (fun x => ljgDF 3 l0 l1 x l3 l4 r) =
      fun x => (-((r - l4) * (r - l4)) * exp (-1 * l3 * (r - l4) * (r - l4))) * x + 0 := by
    funext x; simp only [ljgDF]; ring
  rw [hf]
  exact (hd_lin _ _ l2).congr_deriv (by simp only [ljgD2F]; ring)

theorem ljg_D2F_33 : HasDerivAt (fun x => ljgDF 3 l0 l1 l2 x l4 r) (ljgD2F 3 3 l0 l1 l2 l3 l4 r) l3 := by
  have hf : (fun x => ljgDF 3 l0 l1 l2 x l4 r) =
      fun x => 0 + (-(l2 * ((r - l4) * (r - l4)))) * exp ((-((r - l4) * (r - l4))) * x + 0) := by
    funext x; simp only [ljgDF]; ring_nf
  rw [hf]
  refine (hasDerivAt_gauss 0 (fun _ => -(l2 * ((r - l4) * (r - l4)))) _ 0 _ l3 (hasDerivAt_const l3 _)
    (hd_lin (-((r - l4) * (r - l4))) 0 l3)).congr_deriv ?_
  simp only [ljgD2F]; ring_nf

theorem ljg_D2F_34 : HasDerivAt (fun x => ljgDF 3 l0 l1 l2 l3 x r) (ljgD2F 3 4 l0 l1 l2 l3 l4 r) l4 := by
  have hf : (fun x => ljgDF 3 l0 l1 l2 l3 x r) =
      fun x => 0 + ((-l2) * (r - x) * (r - x)) * exp ((-l3) * (r - x) * (r - x)) := by
    funext x; simp only [ljgDF]; ring_nf
  rw [hf]
  refine (hasDerivAt_gauss 0 _ _ _ _ l4 (hd_sq (-l2) r l4) (hd_sq (-l3) r l4)).congr_deriv ?_
  simp only [ljgD2F]; ring_nf

theorem ljg_D2F_42 : HasDerivAt (fun x => ljgDF 4 l0 l1 x l3 l4 r) (ljgD2F 4 2 l0 l1 l2 l3 l4 r) l2 := by
  have hf : (fun x => ljgDF 4 l0 l1 x l3 l4 r) =
      fun x => (2 * l3 * (r - l4) * exp (-1 * l3 * (r - l4) * (r - l4))) * x + 0 := by
    funext x; simp only [ljgDF]; ring
  rw [hf]
  exact (hd_lin _ _ l2).congr_deriv (by simp only [ljgD2F])

theorem ljg_D2F_43 : HasDerivAt (fun x => ljgDF 4 l0 l1 l2 x l4 r) (ljgD2F 4 3 l0 l1 l2 l3 l4 r) l3 := by
  have hf : (fun x => ljgDF 4 l0 l1 l2 x l4 r) =
      fun x => 0 + ((2 * l2 * (r - l4)) * x + 0) * exp ((-((r - l4) * (r - l4))) * x + 0) := by
    funext x; simp only [ljgDF]; ring_nf
  rw [hf]
  refine (hasDerivAt_gauss 0 _ _ _ _ l3 (hd_lin (2 * l2 * (r - l4)) 0 l3) (hd_lin (-((r - l4) * (r - l4))) 0 l3)).congr_deriv ?_
  simp only [ljgD2F]; ring_nf

theorem ljg_D2F_44 : HasDerivAt (fun x => ljgDF 4 l0 l1 l2 l3 x r) (ljgD2F 4 4 l0 l1 l2 l3 l4 r) l4 := by
  have hf : (fun x => ljgDF 4 l0 l1 l2 l3 x r) =
      fun x => 0 + ((-(2 * l2 * l3)) * x + 2 * l2 * l3 * r) * exp ((-l3) * (r - x) * (r - x)) := by
    funext x; simp only [ljgDF]; ring_nf
  rw [hf]
  refine (hasDerivAt_gauss 0 _ _ _ _ l4 (hd_lin (-(2 * l2 * l3)) (2 * l2 * l3 * r) l4) (hd_sq (-l3) r l4)).congr_deriv ?_
  simp only [ljgD2F]; ring_nf

/-- the remaining entries: `DF 0`, `DF 1` do not depend on any parameter, `DF 2` not on λ₀, λ₁, λ₂, and `DF 3`, `DF 4` not on
λ₀, λ₁ (definitional), and the corresponding `D2F` entries are 0 -/
theorem ljg_D2F_zero_entries (i j : Fin 5) (h : i.val < 2 ∨ j.val < 2 ∨ (i.val = 2 ∧ j.val = 2)) :
    ljgD2F i.val j.val l0 l1 l2 l3 l4 r = 0 := by
  fin_cases i <;> fin_cases j <;> simp_all [ljgD2F]

theorem ljg_DF_constant_in (m0 m1 m2 m3 m4 : ℝ) :
    ljgDF 0 l0 l1 l2 l3 l4 r = ljgDF 0 m0 m1 m2 m3 m4 r ∧ ljgDF 1 l0 l1 l2 l3 l4 r = ljgDF 1 m0 m1 m2 m3 m4 r ∧
    ljgDF 2 l0 l1 l2 l3 l4 r = ljgDF 2 m0 m1 m2 l3 l4 r ∧ ljgDF 3 l0 l1 l2 l3 l4 r = ljgDF 3 m0 m1 l2 l3 l4 r ∧
    ljgDF 4 l0 l1 l2 l3 l4 r = ljgDF 4 m0 m1 l2 l3 l4 r := ⟨rfl, rfl, rfl, rfl, rfl⟩

/-- the matrix of second derivatives is symmetric -/
theorem ljg_D2F_symmetric (i j : Fin 5) : ljgD2F i.val j.val l0 l1 l2 l3 l4 r = ljgD2F j.val i.val l0 l1 l2 l3 l4 r := by
  fin_cases i <;> fin_cases j <;> simp [ljgD2F]

end ljg

/-! ## cubic B-spline potential: linear in its coefficients -/

/-- the four basis values sum to one -/
theorem bspl_partition_of_unity (t : Rat) : (bsplRow t).sum = 1 := by
  simp only [bsplRow, List.sum_cons, List.sum_nil]; ring

/-- changing coefficient `j` of the window by `δ` changes the value by `δ ·` (basis value `j`): the derivative with respect
to that coefficient is the basis value `CalculateDF` returns, and all second derivatives vanish -/
theorem dotL_update (row win : List Rat) (j : Nat) (δ : Rat) (hj : j < win.length) (hr : row.length = win.length) :
    dotL row (win.set j (win.getD j 0 + δ)) = dotL row win + δ * row.getD j 0 := by
  induction row generalizing win j with
  | nil => simp at hr; omega
  | cons a as ih =>
    cases win with
    | nil => simp at hj
    | cons b bs =>
      cases j with
      | zero => simp [dotL]; ring
      | succ k =>
        simp only [List.set_cons_succ, dotL, List.getD_cons_succ]
        rw [ih bs k (by simpa using hj) (by simpa using hr)]
        ring

/-! ## splines: the reported derivative is the derivative of the reported value (C12) -/

open Votca.C12 in
/-- `CubicSpline::CalculateDerivative` is the derivative of `Calculate`: the first-order Taylor remainder is `e²·(…)` -/
theorem cubic_spline_derivative (xs fs f2 : List Rat) (i : Nat) (r e : Rat) (h : nth xs (i + 1) - nth xs i ≠ 0) :
    cubicCalcAt xs fs f2 i (r + e) - cubicCalcAt xs fs f2 i r - e * cubicDerivAt xs fs f2 i r =
      e ^ 2 * ((1 / 2 - (3 * (r - nth xs i) + e) / (6 * (nth xs (i + 1) - nth xs i))) * nth f2 i +
               ((3 * (r - nth xs i) + e) / (6 * (nth xs (i + 1) - nth xs i))) * nth f2 (i + 1)) :=
  Votca.C12.cubic_deriv_is_derivative xs fs f2 i r e h

open Votca.C12 in
theorem akima_spline_derivative (h y0 y1 t0 t1 z e : Rat) :
    akimaPiece h y0 y1 t0 t1 (z + e) - akimaPiece h y0 y1 t0 t1 z - e * akimaPieceDeriv h y0 y1 t0 t1 z =
      e ^ 2 * (akimaP2 h y0 y1 t0 t1 + akimaP3 h y0 y1 t0 t1 * (3 * z + e)) :=
  Votca.C12.akima_deriv_is_derivative h y0 y1 t0 t1 z e

end Votca.C07
