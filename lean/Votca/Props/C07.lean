import Votca.Lemmas.C07
import Votca.Props.C12
/-! # C07 — property theorems: every analytic derivative is the derivative of its value function

About the gradient formulas of `Votca/Model/C07.lean` (instantiated over ℝ with `Real.sqrt` for the norm witnesses) and
the potential-function formulas regenerated from the source (`Votca/Gen/PotReal.lean`).  `HasDerivAt … 0` along the line
`t ↦ x + t·e` for every direction `e` is the statement "the gradient with respect to that bead, contracted with `e`,
is the derivative of the reported value". -/
namespace Votca.C07
open Real Votca.Gen.PotReal

/-- cosine of the angle between two vectors, as `EvaluateVar` forms it -/
noncomputable def cosA (a b : Vec ℝ) : ℝ := a.dot b / (sqrt (a.dot a) * sqrt (b.dot b))

/-! ## bond -/

/-- `IBond`: moving bead 1 by `t·e` (so `r = getDist(b0,b1)` becomes `r + t e`), the length changes at the rate `Grad(1)·e` -/
theorem bond_grad1_is_derivative (r e : Vec ℝ) (hr : 0 < r.dot r) :
    HasDerivAt (fun t => sqrt ((line r e t).dot (line r e t))) ((bondGrad 1 r (sqrt (r.dot r))).dot e) 0 := by
  refine (hasDerivAt_norm_line r e hr).congr_deriv ?_
  simp [bondGrad, Vec.sdiv, Vec.dot]
  ring

/-- moving bead 0 by `t·e` turns `r` into `r - t e` -/
theorem bond_grad0_is_derivative (r e : Vec ℝ) (hr : 0 < r.dot r) :
    HasDerivAt (fun t => sqrt ((line r e.neg t).dot (line r e.neg t))) ((bondGrad 0 r (sqrt (r.dot r))).dot e) 0 := by
  refine (hasDerivAt_norm_line r e.neg hr).congr_deriv ?_
  simp [bondGrad, Vec.sdiv, Vec.dot, Vec.neg]
  ring

theorem bond_grad_sum_zero (r : Vec ℝ) (n : ℝ) : (bondGrad 0 r n).add (bondGrad 1 r n) = ⟨0, 0, 0⟩ := by
  simp [bondGrad, Vec.add, Vec.neg, Vec.sdiv]

/-! ## angle -/

/-- `IAngle`, bead 0: `v1 = getDist(b1,b0)` becomes `v1 + t e`; `acos(cos)` changes at the rate `Grad(0)·e`.
Hypotheses: both bonds have positive length and the beads are not collinear (`cos ≠ ±1`). -/
theorem angle_grad0_is_derivative (v1 v2 e : Vec ℝ) (h1 : 0 < v1.dot v1) (h2 : 0 < v2.dot v2)
    (hc1 : cosA v1 v2 ≠ -1) (hc2 : cosA v1 v2 ≠ 1) :
    HasDerivAt (fun t => arccos (cosA (line v1 e t) v2))
      ((angleGrad 0 v1 v2 (sqrt (v1.dot v1)) (sqrt (v2.dot v2)) (sqrt (1 - cosA v1 v2 ^ 2))).dot e) 0 := by
  have hcos := hasDerivAt_cos_line v1 e v2 h1 h2
  have h0 : (fun t => cosA (line v1 e t) v2) 0 = cosA v1 v2 := by simp [cosA, line_zero]
  have := hasDerivAt_sign_arccos (fun t => cosA (line v1 e t) v2) _ 0 1 hcos (by rw [h0]; exact hc1) (by rw [h0]; exact hc2)
  simp only [one_mul] at this
  refine this.congr_deriv ?_
  rw [h0]
  have hn1 : sqrt (v1.dot v1) ≠ 0 := (sqrt_pos.2 h1).ne'
  have hn2 : sqrt (v2.dot v2) ≠ 0 := (sqrt_pos.2 h2).ne'
  have hs : sqrt (1 - cosA v1 v2 ^ 2) ≠ 0 := by
    apply (sqrt_pos.2 _).ne'
    have : cosA v1 v2 ^ 2 < 1 := by
      have hle : |cosA v1 v2| ≤ 1 := by
        unfold cosA
        rw [abs_div, abs_of_pos (mul_pos (sqrt_pos.2 h1) (sqrt_pos.2 h2)), div_le_one (mul_pos (sqrt_pos.2 h1) (sqrt_pos.2 h2))]
        rw [← sqrt_mul h1.le]
        apply Real.abs_le_sqrt
        -- Cauchy–Schwarz in three dimensions
        simp only [Vec.dot]
        nlinarith [sq_nonneg (v1.x * v2.y - v1.y * v2.x), sq_nonneg (v1.x * v2.z - v1.z * v2.x), sq_nonneg (v1.y * v2.z - v1.z * v2.y)]
      have hlt : |cosA v1 v2| < 1 := lt_of_le_of_ne hle (by
        intro h
        rcases abs_eq (by norm_num : (0 : ℝ) ≤ 1) |>.mp h with h | h
        · exact hc2 h
        · exact hc1 h)
      have := sq_lt_one_iff_abs_lt_one (cosA v1 v2) |>.mpr hlt
      linarith
    linarith
  simp only [angleGrad, Vec.dot, Vec.add, Vec.neg, Vec.sdiv, Vec.smul, if_pos]
  field_simp
  ring

/-- `cosA` is symmetric -/
theorem cosA_comm (a b : Vec ℝ) : cosA a b = cosA b a := by
  unfold cosA Vec.dot; ring

/-- `IAngle`, bead 2: `v2 = getDist(b1,b2)` becomes `v2 + t e` -/
theorem angle_grad2_is_derivative (v1 v2 e : Vec ℝ) (h1 : 0 < v1.dot v1) (h2 : 0 < v2.dot v2)
    (hc1 : cosA v1 v2 ≠ -1) (hc2 : cosA v1 v2 ≠ 1) :
    HasDerivAt (fun t => arccos (cosA v1 (line v2 e t)))
      ((angleGrad 2 v1 v2 (sqrt (v1.dot v1)) (sqrt (v2.dot v2)) (sqrt (1 - cosA v1 v2 ^ 2))).dot e) 0 := by
  have h := angle_grad0_is_derivative v2 v1 e h2 h1 (by rw [cosA_comm]; exact hc1) (by rw [cosA_comm]; exact hc2)
  have hf : (fun t => arccos (cosA v1 (line v2 e t))) = fun t => arccos (cosA (line v2 e t) v1) := by
    funext t; rw [cosA_comm]
  rw [hf]
  refine h.congr_deriv ?_
  rw [cosA_comm v2 v1]
  simp only [angleGrad, Vec.dot, Vec.add, Vec.neg, Vec.sdiv, Vec.smul]
  norm_num
  ring

/-- the three angle gradients sum to zero (the value depends on bead differences only), for any non-zero witnesses -/
theorem angle_grad_sum_zero (v1 v2 : Vec ℝ) (n1 n2 s : ℝ) (h1 : n1 ≠ 0) (h2 : n2 ≠ 0) (hs : s ≠ 0) :
    ((angleGrad 0 v1 v2 n1 n2 s).add (angleGrad 1 v1 v2 n1 n2 s)).add (angleGrad 2 v1 v2 n1 n2 s) = ⟨0, 0, 0⟩ := by
  simp only [angleGrad, Vec.dot, Vec.add, Vec.sub, Vec.neg, Vec.sdiv, Vec.smul]
  norm_num
  refine ⟨?_, ?_, ?_⟩ <;> field_simp <;> ring

end Votca.C07
