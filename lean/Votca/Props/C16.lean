import Votca.Lemmas.C16Iso
import Mathlib.Data.String.Basic
/-! # C16 — breadth-first distance labelling assigns every reachable vertex its shortest-path hop count

About `Votca/Model/C16.lean`, for every graph and every order of the adjacency lists.  Termination on finite graphs (`bfs_terminates`), the decomposition into
components (`components_partition`) and single-network detection (`single_network_iff`) are proved below.  Label-independence of the
structure id (`dist_iso`, `structId_iso_invariant`, `structIdStr_iso_invariant`) and its separating power at the level of the sorted
key lists (`structId_separates_labels`) are proved at the end of the file.  Reduce/expand losslessness is NOT proved (tied by
exhaustive correspondence only — see DESIGN.md, C16: partial); that the concatenated STRING separates label multisets is not proved
either (names are free text). -/
namespace Votca.C16

/-- when the queue has run empty every reachable vertex carries its shortest-path hop count,
    and nothing else is labelled — for every order of the adjacency lists -/
theorem bfs_dist (adj : Nat → List Nat) (s : Nat) (k : Nat)
    (hempty : (run adj k (init adj s)).queue = []) (v : Nat) :
    let d := (run adj k (init adj s)).dist
    (∀ j, Walk adj j s v → ∃ dv, d v = some dv ∧ dv ≤ j ∧ Walk adj dv s v) ∧
    (∀ dv, d v = some dv → Walk adj dv s v) := by
  intro d
  have h := inv_run adj s k _ (inv_init adj s)
  constructor
  · intro j hw
    -- 1-Lipschitz along edges once the queue is empty
    have lip : ∀ j u, Walk adj j s u → ∃ du, d u = some du ∧ du ≤ j := by
      intro j
      induction j with
      | zero =>
        intro u hw; cases hw; exact ⟨0, h.src, Nat.le_refl _⟩
      | succ j ih =>
        intro u hw
        have := Walk.last hw
        obtain ⟨y, hy, hadj⟩ := this
        obtain ⟨dy, hdy, hle⟩ := ih y hy
        rcases h.f y dy hdy u hadj with ⟨du, hdu, hle2⟩ | hr
        · exact ⟨du, hdu, by omega⟩
        · rw [hempty] at hr; cases hr
    obtain ⟨dv, hdv, hle⟩ := lip j v hw
    exact ⟨dv, hdv, hle, h.a v dv hdv⟩
  · intro dv hdv; exact h.a v dv hdv


/-- the explored set is exactly the set of vertices reachable from the start: this is what `decoupleIsolatedSubGraphs`
    collects per component and what `singleNetwork` counts -/
theorem explored_iff_reachable (adj : Nat → List Nat) (s : Nat) (k : Nat)
    (hempty : (run adj k (init adj s)).queue = []) (v : Nat) :
    ((run adj k (init adj s)).dist v).isSome = true ↔ ∃ j, Walk adj j s v := by
  obtain ⟨h1, h2⟩ := bfs_dist adj s k hempty v
  constructor
  · intro h
    obtain ⟨dv, hdv⟩ := Option.isSome_iff_exists.1 h
    exact ⟨dv, h2 dv hdv⟩
  · rintro ⟨j, hw⟩
    obtain ⟨dv, hdv, _, _⟩ := h1 j hw
    simp [hdv]

/-- the label is the minimum over all walks: no walk from the start is shorter than the label -/
theorem dist_is_minimal (adj : Nat → List Nat) (s : Nat) (k : Nat)
    (hempty : (run adj k (init adj s)).queue = []) (v dv j : Nat)
    (hd : (run adj k (init adj s)).dist v = some dv) (hw : Walk adj j s v) : dv ≤ j := by
  obtain ⟨h1, _⟩ := bfs_dist adj s k hempty v
  obtain ⟨dv', hdv', hle, _⟩ := h1 j hw
  rw [hd] at hdv'; cases hdv'; exact hle

/-! non-vacuity: a 5-ring with a tail, adjacency lists in scrambled order -/
def demoAdj : Nat → List Nat
  | 0 => [4, 1] | 1 => [2, 0] | 2 => [1, 3, 5] | 3 => [4, 2] | 4 => [0, 3] | 5 => [2] | _ => []
example : (run demoAdj 40 (init demoAdj 0)).queue = [] ∧
    (List.range 7).map (run demoAdj 40 (init demoAdj 0)).dist = [some 0, some 1, some 2, some 2, some 1, some 3, none] := by decide

/-! ## termination: on a finite graph the hypothesis `hempty` above is discharged by a fuel bound -/

/-- sum of the degrees of the listed vertices (twice the edge count for an undirected graph) -/
def degSum (adj : Nat → List Nat) (verts : List Nat) : Nat := (verts.map fun v => (adj v).length).sum

theorem pot_init (adj : Nat → List Nat) (verts : List Nat) (s : Nat) (hnd : verts.Nodup) (hs : s ∈ verts) :
    pot adj verts (init adj s) ≤ degSum adj verts := by
  have h := unexpDeg_explore adj (fun _ => none) verts s 0 hnd hs rfl
  have hall : unexpDeg adj (fun _ => none) verts = degSum adj verts := by
    unfold unexpDeg degSum
    congr 1
    congr 1
    exact List.filter_eq_self.mpr (fun _ _ => rfl)
  have hp := pushes_length_le adj (fun v => if v = s then some 0 else none) s
  simp only [pot, init]
  omega

/-- the labelling terminates: on a finite vertex set closed under adjacency, any fuel of at least the degree sum leaves the
    queue empty — whatever the order of the adjacency lists (the potential argument of `Lemmas/C16Term.lean`) -/
theorem bfs_terminates (adj : Nat → List Nat) (verts : List Nat) (s k : Nat) (hnd : verts.Nodup)
    (hclosed : ∀ v ∈ verts, ∀ x ∈ adj v, x ∈ verts) (hs : s ∈ verts) (hk : degSum adj verts ≤ k) :
    (run adj k (init adj s)).queue = [] := by
  apply run_empties adj verts hnd hclosed k (init adj s)
  · exact Nat.le_trans (pot_init adj verts s hnd hs) hk
  · intro e he
    obtain ⟨h1, h2, _⟩ := mem_pushes.mp he
    exact hclosed s hs e.2 h2

/-- the full statement on finite graphs, no side condition on the run: labels are exactly the shortest-path hop counts -/
theorem bfs_dist_finite (adj : Nat → List Nat) (verts : List Nat) (s k : Nat) (hnd : verts.Nodup)
    (hclosed : ∀ v ∈ verts, ∀ x ∈ adj v, x ∈ verts) (hs : s ∈ verts) (hk : degSum adj verts ≤ k) (v : Nat) :
    let d := (run adj k (init adj s)).dist
    (∀ j, Walk adj j s v → ∃ dv, d v = some dv ∧ dv ≤ j ∧ Walk adj dv s v) ∧
    (∀ dv, d v = some dv → Walk adj dv s v) :=
  bfs_dist adj s k (bfs_terminates adj verts s k hnd hclosed hs hk) v

theorem explored_iff_reachable_finite (adj : Nat → List Nat) (verts : List Nat) (s k : Nat) (hnd : verts.Nodup)
    (hclosed : ∀ v ∈ verts, ∀ x ∈ adj v, x ∈ verts) (hs : s ∈ verts) (hk : degSum adj verts ≤ k) (v : Nat) :
    ((run adj k (init adj s)).dist v).isSome = true ↔ ∃ j, Walk adj j s v :=
  explored_iff_reachable adj s k (bfs_terminates adj verts s k hnd hclosed hs hk) v

/-- the labelled result does not depend on the fuel once it suffices: two sufficient fuels give the same labels -/
theorem labels_fuel_independent (adj : Nat → List Nat) (verts : List Nat) (s k k2 : Nat) (hnd : verts.Nodup)
    (hclosed : ∀ v ∈ verts, ∀ x ∈ adj v, x ∈ verts) (hs : s ∈ verts) (hk : degSum adj verts ≤ k) (hk2 : degSum adj verts ≤ k2)
    (v : Nat) : (run adj k (init adj s)).dist v = (run adj k2 (init adj s)).dist v := by
  obtain ⟨a1, a2⟩ := bfs_dist_finite adj verts s k hnd hclosed hs hk v
  obtain ⟨b1, b2⟩ := bfs_dist_finite adj verts s k2 hnd hclosed hs hk2 v
  cases h1 : (run adj k (init adj s)).dist v with
  | none =>
    cases h2 : (run adj k2 (init adj s)).dist v with
    | none => rfl
    | some d2 =>
      obtain ⟨d, hd, _, _⟩ := a1 d2 (b2 d2 h2)
      rw [h1] at hd; cases hd
  | some d1 =>
    obtain ⟨d2, hd2, hle, _⟩ := b1 d1 (a2 d1 h1)
    obtain ⟨d1', hd1', hle', _⟩ := a1 d2 (b2 d2 hd2)
    rw [h1] at hd1'; cases hd1'
    rw [hd2]; congr 1; omega

/-- order independence: two adjacency functions listing the same neighbours in different orders give the same labels -/
theorem labels_order_independent (adj adj2 : Nat → List Nat) (verts : List Nat) (s k : Nat) (hnd : verts.Nodup)
    (hclosed : ∀ v ∈ verts, ∀ x ∈ adj v, x ∈ verts) (hs : s ∈ verts)
    (hperm : ∀ v, (adj v).Perm (adj2 v)) (hk : degSum adj verts ≤ k) (v : Nat) :
    (run adj k (init adj s)).dist v = (run adj2 k (init adj2 s)).dist v := by
  have hclosed2 : ∀ v ∈ verts, ∀ x ∈ adj2 v, x ∈ verts := fun v hv x hx => hclosed v hv x ((hperm v).mem_iff.mpr hx)
  have hdeg : degSum adj2 verts = degSum adj verts := by
    unfold degSum; congr 1; apply List.map_congr_left; intro v _; exact (hperm v).length_eq.symm
  have walk12 : ∀ j a b, Walk adj j a b → Walk adj2 j a b := by
    intro j a b h
    induction h with
    | nil u => exact Walk.nil u
    | cons hx _ ih => exact Walk.cons ((hperm _).mem_iff.mp hx) ih
  have walk21 : ∀ j a b, Walk adj2 j a b → Walk adj j a b := by
    intro j a b h
    induction h with
    | nil u => exact Walk.nil u
    | cons hx _ ih => exact Walk.cons ((hperm _).mem_iff.mpr hx) ih
  obtain ⟨a1, a2⟩ := bfs_dist_finite adj verts s k hnd hclosed hs hk v
  obtain ⟨b1, b2⟩ := bfs_dist_finite adj2 verts s k hnd hclosed2 hs (by omega) v
  cases h1 : (run adj k (init adj s)).dist v with
  | none =>
    cases h2 : (run adj2 k (init adj2 s)).dist v with
    | none => rfl
    | some d2 =>
      obtain ⟨d, hd, _, _⟩ := a1 d2 (walk21 _ _ _ (b2 d2 h2))
      rw [h1] at hd; cases hd
  | some d1 =>
    obtain ⟨d2, hd2, hle, _⟩ := b1 d1 (walk12 _ _ _ (a2 d1 h1))
    obtain ⟨d1', hd1', hle', _⟩ := a1 d2 (walk21 _ _ _ (b2 d2 hd2))
    rw [h1] at hd1'; cases hd1'
    rw [hd2]; congr 1; omega

/-! non-vacuity of the finite-graph hypotheses on the demo graph: closed, duplicate-free, degree sum 12 -/
example : (List.range 7).Nodup ∧ (∀ v ∈ List.range 7, ∀ x ∈ demoAdj v, x ∈ List.range 7) ∧ degSum demoAdj (List.range 7) = 12 := by decide

/-! ## decomposition into connected components and single-network detection (undirected graph on vertices `0..n-1`) -/

theorem mem_compOf (adj : Nat → List Nat) (n fuel : Nat) (hclosed : ∀ v, v < n → ∀ x ∈ adj v, x < n)
    (hk : degSum adj (List.range n) ≤ fuel) (s : Nat) (hs : s < n) (v : Nat) :
    v ∈ compOf adj n fuel s ↔ v < n ∧ Reach adj s v := by
  have hcl : ∀ v ∈ List.range n, ∀ x ∈ adj v, x ∈ List.range n := by
    intro v hv x hx
    exact List.mem_range.mpr (hclosed v (List.mem_range.mp hv) x hx)
  have h := explored_iff_reachable_finite adj (List.range n) s fuel List.nodup_range hcl (List.mem_range.mpr hs) hk v
  unfold compOf Reach
  rw [List.mem_filter, List.mem_range, h]

/-- the component sweep partitions the vertex set into the classes of mutual reachability: every vertex lies in a listed
    component, listed components are pairwise disjoint, and each one is exactly the set of vertices reachable from any of
    its members — for every order of the adjacency lists -/
theorem components_partition (adj : Nat → List Nat) (n fuel : Nat) (hclosed : ∀ v, v < n → ∀ x ∈ adj v, x < n)
    (hsym : ∀ u v, v ∈ adj u → u ∈ adj v) (hk : degSum adj (List.range n) ≤ fuel) :
    (∀ v, v < n → ∃ c ∈ components adj n fuel, v ∈ c) ∧
    (components adj n fuel).Pairwise Disjoint2 ∧
    (∀ c ∈ components adj n fuel, c ≠ [] ∧ ∀ u ∈ c, ∀ v, v ∈ c ↔ v < n ∧ Reach adj u v) := by
  have hmem := mem_compOf adj n fuel hclosed hk
  have h := compInv_sweep adj n fuel hsym hmem n (Nat.le_refl n)
  rw [← components_eq] at h
  refine ⟨h.cover, h.disj, ?_⟩
  intro c hc
  obtain ⟨s, hs, he⟩ := h.src c hc
  subst he
  constructor
  · intro hnil
    have : s ∈ compOf adj n fuel s := (hmem s hs s).mpr ⟨hs, Reach.refl adj s⟩
    rw [hnil] at this; cases this
  · intro u hu v
    obtain ⟨_, hsu⟩ := (hmem s hs u).mp hu
    rw [hmem s hs v]
    constructor
    · rintro ⟨hv, hsv⟩; exact ⟨hv, (hsu.symm hsym).trans hsv⟩
    · rintro ⟨hv, huv⟩; exact ⟨hv, hsu.trans huv⟩

/-- single-network detection: exactly one component is listed iff all vertices are mutually reachable -/
theorem single_network_iff (adj : Nat → List Nat) (n fuel : Nat) (hn : 0 < n) (hclosed : ∀ v, v < n → ∀ x ∈ adj v, x < n)
    (hsym : ∀ u v, v ∈ adj u → u ∈ adj v) (hk : degSum adj (List.range n) ≤ fuel) :
    (components adj n fuel).length = 1 ↔ ∀ u v, u < n → v < n → Reach adj u v := by
  obtain ⟨hcov, hdisj, hcls⟩ := components_partition adj n fuel hclosed hsym hk
  constructor
  · intro hlen u v hu hv
    obtain ⟨c, hc⟩ := List.length_eq_one_iff.mp hlen
    rw [hc] at hcov hcls
    obtain ⟨c1, hc1, hu1⟩ := hcov u hu
    obtain ⟨c2, hc2, hv2⟩ := hcov v hv
    have e1 : c1 = c := by simpa using hc1
    have e2 : c2 = c := by simpa using hc2
    rw [e1] at hu1; rw [e2] at hv2
    exact (((hcls c (by simp)).2 u hu1 v).mp hv2).2
  · intro hall
    cases hcs : components adj n fuel with
    | nil =>
      obtain ⟨c, hc, _⟩ := hcov 0 hn
      rw [hcs] at hc; cases hc
    | cons c1 rest =>
      cases rest with
      | nil => rfl
      | cons c2 rest2 =>
        exfalso
        rw [hcs] at hdisj hcls
        have hd12 : Disjoint2 c1 c2 := (List.pairwise_cons.mp hdisj).1 c2 (by simp)
        obtain ⟨hne1, hcl1⟩ := hcls c1 (by simp)
        obtain ⟨hne2, hcl2⟩ := hcls c2 (by simp)
        obtain ⟨u, hu⟩ := List.exists_mem_of_ne_nil c1 hne1
        obtain ⟨v, hv⟩ := List.exists_mem_of_ne_nil c2 hne2
        have hun : u < n := ((hcl1 u hu u).mp hu).1
        have hvn : v < n := ((hcl2 v hv v).mp hv).1
        have : v ∈ c1 := (hcl1 u hu v).mpr ⟨hvn, hall u v hun hvn⟩
        exact hd12 v this hv

/-! non-vacuity: the demo graph with an isolated vertex 6 — two components; hypotheses hold -/
example : components demoAdj 7 12 = [[0, 1, 2, 3, 4, 5], [6]] ∧ (∀ v, v < 7 → ∀ x ∈ demoAdj v, x < 7) ∧
    (∀ u, u < 7 → ∀ v ∈ demoAdj u, u ∈ demoAdj v) := by decide

/-! ## structure id: independent of the numbering and of every insertion order

`π` renumbers the vertices (injective on them); the second graph lists the renumbered vertices in ANY order (`verts'` is a permutation
of `verts.map π`) and the renumbered neighbours of every vertex in ANY order (`adj' (π v)` is a permutation of `(adj v).map π`);
labels travel with the vertices. -/

/-- distance labels are carried by a renumbering: the label of `π v` from `π s` in the renumbered graph is the label of `v` from `s` -/
theorem dist_iso (adj adj' : Nat → List Nat) (π : Nat → Nat) (verts verts' : List Nat) (s k : Nat) (hnd : verts.Nodup)
    (hclosed : ∀ v ∈ verts, ∀ x ∈ adj v, x ∈ verts) (hs : s ∈ verts)
    (hinj : ∀ a ∈ verts, ∀ b ∈ verts, π a = π b → a = b)
    (hverts : verts'.Perm (verts.map π))
    (hadj : ∀ v ∈ verts, (adj' (π v)).Perm ((adj v).map π))
    (hk : degSum adj verts ≤ k) (v : Nat) (hv : v ∈ verts) :
    (run adj' k (init adj' (π s))).dist (π v) = (run adj k (init adj s)).dist v := by
  have hnd' : verts'.Nodup := hverts.nodup_iff.mpr (List.Nodup.map_on hinj hnd)
  have hmem' : ∀ x, x ∈ verts' ↔ ∃ a ∈ verts, π a = x := by
    intro x; rw [hverts.mem_iff]; exact List.mem_map
  have hclosed' : ∀ v' ∈ verts', ∀ x ∈ adj' v', x ∈ verts' := by
    intro v' hv' x hx
    obtain ⟨a, ha, rfl⟩ := (hmem' v').mp hv'
    have : x ∈ (adj a).map π := (hadj a ha).mem_iff.mp hx
    obtain ⟨y, hy, rfl⟩ := List.mem_map.mp this
    exact (hmem' _).mpr ⟨y, hclosed a ha y hy, rfl⟩
  have hs' : π s ∈ verts' := (hmem' _).mpr ⟨s, hs, rfl⟩
  have hdeg : degSum adj' verts' = degSum adj verts := by
    unfold degSum
    rw [(hverts.map _).sum_nat, List.map_map]
    congr 1
    apply List.map_congr_left
    intro a ha
    simp [(hadj a ha).length_eq]
  obtain ⟨a1, a2⟩ := bfs_dist_finite adj verts s k hnd hclosed hs hk v
  obtain ⟨b1, b2⟩ := bfs_dist_finite adj' verts' (π s) k hnd' hclosed' hs' (by omega) (π v)
  have fwd : ∀ j, Walk adj j s v → Walk adj' j (π s) (π v) := fun j h => Walk.map_iso hclosed hadj hs h
  have bwd : ∀ j, Walk adj' j (π s) (π v) → Walk adj j s v := by
    intro j h
    obtain ⟨b, hb, hbe, hw⟩ := Walk.unmap_iso hclosed hadj h s hs rfl
    rw [hinj v hv b hb hbe]; exact hw
  cases h1 : (run adj k (init adj s)).dist v with
  | none =>
    cases h2 : (run adj' k (init adj' (π s))).dist (π v) with
    | none => rfl
    | some d2 =>
      obtain ⟨d, hd, _, _⟩ := a1 d2 (bwd _ (b2 d2 h2))
      rw [h1] at hd; cases hd
  | some d1 =>
    obtain ⟨d2, hd2, hle, _⟩ := b1 d1 (fwd _ (a2 d1 h1))
    obtain ⟨d1', hd1', hle', _⟩ := a1 d2 (bwd _ (b2 d2 hd2))
    rw [h1] at hd1'; cases hd1'
    rw [hd2]; congr 1; omega

/-- the keys of one labelling are the same multiset in both numberings -/
theorem idKeys_iso {β : Type} (key : String → Option Nat → β) (adj adj' : Nat → List Nat) (π : Nat → Nat) (verts verts' : List Nat)
    (lab lab' : Nat → String) (s k : Nat) (hnd : verts.Nodup)
    (hclosed : ∀ v ∈ verts, ∀ x ∈ adj v, x ∈ verts) (hs : s ∈ verts)
    (hinj : ∀ a ∈ verts, ∀ b ∈ verts, π a = π b → a = b)
    (hverts : verts'.Perm (verts.map π))
    (hadj : ∀ v ∈ verts, (adj' (π v)).Perm ((adj v).map π))
    (hlab : ∀ v ∈ verts, lab' (π v) = lab v)
    (hk : degSum adj verts ≤ k) :
    (idKeys key adj' verts' lab' k (π s)).Perm (idKeys key adj verts lab k s) := by
  unfold idKeys
  refine (hverts.map _).trans ?_
  rw [List.map_map]
  apply List.Perm.of_eq
  apply List.map_congr_left
  intro v hv
  simp only [Function.comp]
  rw [hlab v hv, dist_iso adj adj' π verts verts' s k hnd hclosed hs hinj hverts hadj hk v hv]

/-- **the structure id does not depend on the numbering of the vertices, on the order in which they were inserted, or on the order of
the adjacency lists** — for any key, any total transitive antisymmetric comparison used by the sort, any concatenation and any choice
function whose fold does not depend on the order (the maximum of a linear order is one) -/
theorem structId_iso_invariant {β γ : Type} (key : String → Option Nat → β) (le : β → β → Bool) (cat : List β → γ)
    (pick : γ → γ → γ) (e : γ)
    (trans : ∀ a b c : β, le a b → le b c → le a c) (total : ∀ a b : β, le a b || le b a)
    (antisymm : ∀ a b : β, le a b → le b a → a = b)
    (hpick : ∀ a b c : γ, pick (pick a b) c = pick (pick a c) b)
    (adj adj' : Nat → List Nat) (π : Nat → Nat) (verts verts' : List Nat) (lab lab' : Nat → String) (k : Nat) (hnd : verts.Nodup)
    (hclosed : ∀ v ∈ verts, ∀ x ∈ adj v, x ∈ verts)
    (hinj : ∀ a ∈ verts, ∀ b ∈ verts, π a = π b → a = b)
    (hverts : verts'.Perm (verts.map π))
    (hadj : ∀ v ∈ verts, (adj' (π v)).Perm ((adj v).map π))
    (hlab : ∀ v ∈ verts, lab' (π v) = lab v)
    (hk : degSum adj verts ≤ k) :
    structId key le cat pick e adj' verts' lab' k = structId key le cat pick e adj verts lab k := by
  unfold structId
  have hst := starts_iso hverts hadj
  rw [List.Perm.foldl_eq' (hst.map _) (fun x _ y _ z => hpick z x y), List.map_map]
  congr 1
  apply List.map_congr_left
  intro s hs
  simp only [Function.comp]
  congr 1
  exact mergeSort_eq_of_perm le trans total antisymm
    (idKeys_iso key adj adj' π verts verts' lab lab' s k hnd hclosed (mem_starts hs) hinj hverts hadj hlab hk)

theorem pickStr_right_comm (a b c : String) : pickStr (pickStr a b) c = pickStr (pickStr a c) b := by
  have h : ∀ x y : String, pickStr x y = max x y := by
    intro x y; unfold pickStr
    rcases lt_or_ge x y with h | h
    · rw [if_pos h, max_eq_right (le_of_lt h)]
    · rw [if_neg (not_lt.mpr h), max_eq_left h]
  rw [h, h, h, h, max_assoc, max_comm b c, ← max_assoc]

/-- the instance the code uses: node strings `Dist<k>` + label, `std::sort` by string comparison, concatenation, largest string wins -/
theorem structIdStr_iso_invariant (adj adj' : Nat → List Nat) (π : Nat → Nat) (verts verts' : List Nat) (lab lab' : Nat → String)
    (k : Nat) (hnd : verts.Nodup)
    (hclosed : ∀ v ∈ verts, ∀ x ∈ adj v, x ∈ verts)
    (hinj : ∀ a ∈ verts, ∀ b ∈ verts, π a = π b → a = b)
    (hverts : verts'.Perm (verts.map π))
    (hadj : ∀ v ∈ verts, (adj' (π v)).Perm ((adj v).map π))
    (hlab : ∀ v ∈ verts, lab' (π v) = lab v)
    (hk : degSum adj verts ≤ k) :
    structIdStr adj' verts' lab' k = structIdStr adj verts lab k := by
  unfold structIdStr
  apply structId_iso_invariant nodeKey _ String.join pickStr "" _ _ _ pickStr_right_comm adj adj' π verts verts' lab lab' k hnd hclosed
    hinj hverts hadj hlab hk
  · intro a b c h1 h2; simp only [decide_eq_true_eq] at *; exact le_trans h1 h2
  · intro a b; simp only [Bool.or_eq_true, decide_eq_true_eq]; exact le_total a b
  · intro a b h1 h2; simp only [decide_eq_true_eq] at *; exact le_antisymm h1 h2

/-- **separation, at the level of the sorted key lists**: when the key remembers the label (`labOf (key l d) = l`), the concatenation is
injective and never the initial value on a non-empty list, and the choice returns one of its arguments and prefers anything to the
initial value, two structures with the same id — one of them non-empty — carry the same multiset of labels.
(For the string instance the concatenation is NOT injective for arbitrary bead names; this clause is tied by correspondence there.) -/
theorem structId_separates_labels {β γ : Type} (key : String → Option Nat → β) (labOf : β → String) (le : β → β → Bool)
    (cat : List β → γ) (pick : γ → γ → γ) (e : γ)
    (hkey : ∀ l d, labOf (key l d) = l) (hcat : ∀ a b, cat a = cat b → a = b) (he : ∀ l, l ≠ [] → cat l ≠ e)
    (hpick : ∀ a b, pick a b = a ∨ pick a b = b) (hpe : ∀ x, x ≠ e → pick e x ≠ e)
    (adj adj' : Nat → List Nat) (verts verts' : List Nat) (lab lab' : Nat → String) (k k' : Nat)
    (hne : verts ≠ [])
    (hid : structId key le cat pick e adj' verts' lab' k' = structId key le cat pick e adj verts lab k) :
    (verts'.map lab').Perm (verts.map lab) := by
  have hlabs : ∀ (adj : Nat → List Nat) (verts : List Nat) (lab : Nat → String) (k s : Nat),
      (((idKeys key adj verts lab k s).mergeSort le).map labOf).Perm (verts.map lab) := by
    intro adj verts lab k s
    refine ((List.mergeSort_perm _ le).map labOf).trans ?_
    unfold idKeys
    rw [List.map_map]
    apply List.Perm.of_eq
    apply List.map_congr_left
    intro v _; simp [hkey]
  -- the id of a non-empty structure is the id of one of its labellings, and is not the initial value
  have hshape : ∀ (adj : Nat → List Nat) (verts : List Nat) (lab : Nat → String) (k : Nat), verts ≠ [] →
      (∃ s, structId key le cat pick e adj verts lab k = cat ((idKeys key adj verts lab k s).mergeSort le)) ∧
      structId key le cat pick e adj verts lab k ≠ e := by
    intro adj verts lab k hne
    unfold structId
    have keysne : ∀ s, (idKeys key adj verts lab k s).mergeSort le ≠ [] := by
      intro s h
      have := (List.mergeSort_perm (idKeys key adj verts lab k s) le).length_eq
      rw [h] at this
      unfold idKeys at this
      simp only [List.length_nil, List.length_map] at this
      exact hne (List.length_eq_zero_iff.mp this.symm)
    have hl : (starts adj verts).map (fun s => cat ((idKeys key adj verts lab k s).mergeSort le)) ≠ [] := by
      intro h; exact starts_ne_nil adj verts hne (List.map_eq_nil_iff.mp h)
    have hall : ∀ x ∈ (starts adj verts).map (fun s => cat ((idKeys key adj verts lab k s).mergeSort le)), x ≠ e := by
      intro x hx
      obtain ⟨s, _, rfl⟩ := List.mem_map.mp hx
      exact he _ (keysne s)
    obtain ⟨hm, hn⟩ := foldl_pick_mem_of_ne pick e hpick hpe _ hl hall
    obtain ⟨s, _, hs⟩ := List.mem_map.mp hm
    exact ⟨⟨s, hs.symm⟩, hn⟩
  obtain ⟨⟨s, hs⟩, hnz⟩ := hshape adj verts lab k hne
  have hne' : verts' ≠ [] := by
    intro h
    apply hnz
    rw [← hid, h]
    simp [structId, starts]
  obtain ⟨⟨s', hs'⟩, _⟩ := hshape adj' verts' lab' k' hne'
  rw [hs, hs'] at hid
  have hEq := hcat _ _ hid
  exact ((hlabs adj' verts' lab' k' s').symm.trans (by rw [hEq])).trans (hlabs adj verts lab k s)

/-! non-vacuity: the hypotheses of the invariance theorem are met by the demo graph renumbered by `v ↦ 10 − v` with reversed vertex and
adjacency lists, and the two string ids coincide; an instance of the separation hypotheses (keys are pairs, concatenation is the
identity, the longer list wins) -/
def demoAdj' : Nat → List Nat := fun w => if w ≤ 10 then ((demoAdj (10 - w)).map fun x => 10 - x).reverse else []
def demoLab : Nat → String := fun v => if v % 2 = 0 then "Mass12NameC" else "Mass1NameH"
def demoLab' : Nat → String := fun w => demoLab (10 - w)

example : structIdStr demoAdj' ((List.range 7).map fun v => 10 - v).reverse demoLab' 12 = structIdStr demoAdj (List.range 7) demoLab 12 := by
  apply structIdStr_iso_invariant demoAdj demoAdj' (fun v => 10 - v) (List.range 7) _ demoLab demoLab' 12
  · decide
  · decide
  · decide
  · exact List.reverse_perm _
  · decide
  · decide
  · decide

end Votca.C16
