import Votca.Lemmas.C16Comp
/-! # C16 — breadth-first distance labelling assigns every reachable vertex its shortest-path hop count

About `Votca/Model/C16.lean`, for every graph and every order of the adjacency lists.  Termination on finite graphs (`bfs_terminates`), the decomposition into
components (`components_partition`) and single-network detection (`single_network_iff`) are proved below.  Label-independence of the structure id and
reduce/expand losslessness are NOT proved (tied by exhaustive correspondence only — see DESIGN.md, C16: partial). -/
namespace Votca.C16

/-- when the queue has run empty every reachable vertex carries its shortest-path hop count,
    and nothing else is labelled — for every order of the adjacency lists -/
theorem bfs_dist (adj : Nat → List Nat) (s : Nat) (k : Nat)
    (hempty : (run adj k (init adj s)).queue = []) (v : Nat) :
    let d := (run adj k (init adj s)).dist
    (∀ j, Walk adj j s v → ∃ dv, d v = some dv ∧ dv ≤ j ∧ Walk adj dv s v) ∧
    (∀ dv, d v = some dv → Walk adj dv s v) := by
  intro d
  have h := inv_run adj s k _ (inv_init adj s)
  constructor
  · intro j hw
    -- 1-Lipschitz along edges once the queue is empty
    have lip : ∀ j u, Walk adj j s u → ∃ du, d u = some du ∧ du ≤ j := by
      intro j
      induction j with
      | zero =>
        intro u hw; cases hw; exact ⟨0, h.src, Nat.le_refl _⟩
      | succ j ih =>
        intro u hw
        have := Walk.last hw
        obtain ⟨y, hy, hadj⟩ := this
        obtain ⟨dy, hdy, hle⟩ := ih y hy
        rcases h.f y dy hdy u hadj with ⟨du, hdu, hle2⟩ | hr
        · exact ⟨du, hdu, by omega⟩
        · rw [hempty] at hr; cases hr
    obtain ⟨dv, hdv, hle⟩ := lip j v hw
    exact ⟨dv, hdv, hle, h.a v dv hdv⟩
  · intro dv hdv; exact h.a v dv hdv


/-- the explored set is exactly the set of vertices reachable from the start: this is what `decoupleIsolatedSubGraphs`
    collects per component and what `singleNetwork` counts -/
theorem explored_iff_reachable (adj : Nat → List Nat) (s : Nat) (k : Nat)
    (hempty : (run adj k (init adj s)).queue = []) (v : Nat) :
    ((run adj k (init adj s)).dist v).isSome = true ↔ ∃ j, Walk adj j s v := by
  obtain ⟨h1, h2⟩ := bfs_dist adj s k hempty v
  constructor
  · intro h
    obtain ⟨dv, hdv⟩ := Option.isSome_iff_exists.1 h
    exact ⟨dv, h2 dv hdv⟩
  · rintro ⟨j, hw⟩
    obtain ⟨dv, hdv, _, _⟩ := h1 j hw
    simp [hdv]

/-- the label is the minimum over all walks: no walk from the start is shorter than the label -/
theorem dist_is_minimal (adj : Nat → List Nat) (s : Nat) (k : Nat)
    (hempty : (run adj k (init adj s)).queue = []) (v dv j : Nat)
    (hd : (run adj k (init adj s)).dist v = some dv) (hw : Walk adj j s v) : dv ≤ j := by
  obtain ⟨h1, _⟩ := bfs_dist adj s k hempty v
  obtain ⟨dv', hdv', hle, _⟩ := h1 j hw
  rw [hd] at hdv'; cases hdv'; exact hle

/-! non-vacuity: a 5-ring with a tail, adjacency lists in scrambled order -/
def demoAdj : Nat → List Nat
  | 0 => [4, 1] | 1 => [2, 0] | 2 => [1, 3, 5] | 3 => [4, 2] | 4 => [0, 3] | 5 => [2] | _ => []
example : (run demoAdj 40 (init demoAdj 0)).queue = [] ∧
    (List.range 7).map (run demoAdj 40 (init demoAdj 0)).dist = [some 0, some 1, some 2, some 2, some 1, some 3, none] := by decide

/-! ## termination: on a finite graph the hypothesis `hempty` above is discharged by a fuel bound -/

/-- sum of the degrees of the listed vertices (twice the edge count for an undirected graph) -/
def degSum (adj : Nat → List Nat) (verts : List Nat) : Nat := (verts.map fun v => (adj v).length).sum

theorem pot_init (adj : Nat → List Nat) (verts : List Nat) (s : Nat) (hnd : verts.Nodup) (hs : s ∈ verts) :
    pot adj verts (init adj s) ≤ degSum adj verts := by
  have h := unexpDeg_explore adj (fun _ => none) verts s 0 hnd hs rfl
  have hall : unexpDeg adj (fun _ => none) verts = degSum adj verts := by
    unfold unexpDeg degSum
    congr 1
    congr 1
    exact List.filter_eq_self.mpr (fun _ _ => rfl)
  have hp := pushes_length_le adj (fun v => if v = s then some 0 else none) s
  simp only [pot, init]
  omega

/-- the labelling terminates: on a finite vertex set closed under adjacency, any fuel of at least the degree sum leaves the
    queue empty — whatever the order of the adjacency lists (the potential argument of `Lemmas/C16Term.lean`) -/
theorem bfs_terminates (adj : Nat → List Nat) (verts : List Nat) (s k : Nat) (hnd : verts.Nodup)
    (hclosed : ∀ v ∈ verts, ∀ x ∈ adj v, x ∈ verts) (hs : s ∈ verts) (hk : degSum adj verts ≤ k) :
    (run adj k (init adj s)).queue = [] := by
  apply run_empties adj verts hnd hclosed k (init adj s)
  · exact Nat.le_trans (pot_init adj verts s hnd hs) hk
  · intro e he
    obtain ⟨h1, h2, _⟩ := mem_pushes.mp he
    exact hclosed s hs e.2 h2

/-- the full statement on finite graphs, no side condition on the run: labels are exactly the shortest-path hop counts -/
theorem bfs_dist_finite (adj : Nat → List Nat) (verts : List Nat) (s k : Nat) (hnd : verts.Nodup)
    (hclosed : ∀ v ∈ verts, ∀ x ∈ adj v, x ∈ verts) (hs : s ∈ verts) (hk : degSum adj verts ≤ k) (v : Nat) :
    let d := (run adj k (init adj s)).dist
    (∀ j, Walk adj j s v → ∃ dv, d v = some dv ∧ dv ≤ j ∧ Walk adj dv s v) ∧
    (∀ dv, d v = some dv → Walk adj dv s v) :=
  bfs_dist adj s k (bfs_terminates adj verts s k hnd hclosed hs hk) v

theorem explored_iff_reachable_finite (adj : Nat → List Nat) (verts : List Nat) (s k : Nat) (hnd : verts.Nodup)
    (hclosed : ∀ v ∈ verts, ∀ x ∈ adj v, x ∈ verts) (hs : s ∈ verts) (hk : degSum adj verts ≤ k) (v : Nat) :
    ((run adj k (init adj s)).dist v).isSome = true ↔ ∃ j, Walk adj j s v :=
  explored_iff_reachable adj s k (bfs_terminates adj verts s k hnd hclosed hs hk) v

/-- the labelled result does not depend on the fuel once it suffices: two sufficient fuels give the same labels -/
theorem labels_fuel_independent (adj : Nat → List Nat) (verts : List Nat) (s k k2 : Nat) (hnd : verts.Nodup)
    (hclosed : ∀ v ∈ verts, ∀ x ∈ adj v, x ∈ verts) (hs : s ∈ verts) (hk : degSum adj verts ≤ k) (hk2 : degSum adj verts ≤ k2)
    (v : Nat) : (run adj k (init adj s)).dist v = (run adj k2 (init adj s)).dist v := by
  obtain ⟨a1, a2⟩ := bfs_dist_finite adj verts s k hnd hclosed hs hk v
  obtain ⟨b1, b2⟩ := bfs_dist_finite adj verts s k2 hnd hclosed hs hk2 v
  cases h1 : (run adj k (init adj s)).dist v with
  | none =>
    cases h2 : (run adj k2 (init adj s)).dist v with
    | none => rfl
    | some d2 =>
      obtain ⟨d, hd, _, _⟩ := a1 d2 (b2 d2 h2)
      rw [h1] at hd; cases hd
  | some d1 =>
    obtain ⟨d2, hd2, hle, _⟩ := b1 d1 (a2 d1 h1)
    obtain ⟨d1', hd1', hle', _⟩ := a1 d2 (b2 d2 hd2)
    rw [h1] at hd1'; cases hd1'
    rw [hd2]; congr 1; omega

/-- order independence: two adjacency functions listing the same neighbours in different orders give the same labels -/
theorem labels_order_independent (adj adj2 : Nat → List Nat) (verts : List Nat) (s k : Nat) (hnd : verts.Nodup)
    (hclosed : ∀ v ∈ verts, ∀ x ∈ adj v, x ∈ verts) (hs : s ∈ verts)
    (hperm : ∀ v, (adj v).Perm (adj2 v)) (hk : degSum adj verts ≤ k) (v : Nat) :
    (run adj k (init adj s)).dist v = (run adj2 k (init adj2 s)).dist v := by
  have hclosed2 : ∀ v ∈ verts, ∀ x ∈ adj2 v, x ∈ verts := fun v hv x hx => hclosed v hv x ((hperm v).mem_iff.mpr hx)
  have hdeg : degSum adj2 verts = degSum adj verts := by
    unfold degSum; congr 1; apply List.map_congr_left; intro v _; exact (hperm v).length_eq.symm
  have walk12 : ∀ j a b, Walk adj j a b → Walk adj2 j a b := by
    intro j a b h
    induction h with
    | nil u => exact Walk.nil u
    | cons hx _ ih => exact Walk.cons ((hperm _).mem_iff.mp hx) ih
  have walk21 : ∀ j a b, Walk adj2 j a b → Walk adj j a b := by
    intro j a b h
    induction h with
    | nil u => exact Walk.nil u
    | cons hx _ ih => exact Walk.cons ((hperm _).mem_iff.mpr hx) ih
  obtain ⟨a1, a2⟩ := bfs_dist_finite adj verts s k hnd hclosed hs hk v
  obtain ⟨b1, b2⟩ := bfs_dist_finite adj2 verts s k hnd hclosed2 hs (by omega) v
  cases h1 : (run adj k (init adj s)).dist v with
  | none =>
    cases h2 : (run adj2 k (init adj2 s)).dist v with
    | none => rfl
    | some d2 =>
      obtain ⟨d, hd, _, _⟩ := a1 d2 (walk21 _ _ _ (b2 d2 h2))
      rw [h1] at hd; cases hd
  | some d1 =>
    obtain ⟨d2, hd2, hle, _⟩ := b1 d1 (walk12 _ _ _ (a2 d1 h1))
    obtain ⟨d1', hd1', hle', _⟩ := a1 d2 (walk21 _ _ _ (b2 d2 hd2))
    rw [h1] at hd1'; cases hd1'
    rw [hd2]; congr 1; omega

/-! non-vacuity of the finite-graph hypotheses on the demo graph: closed, duplicate-free, degree sum 12 -/
example : (List.range 7).Nodup ∧ (∀ v ∈ List.range 7, ∀ x ∈ demoAdj v, x ∈ List.range 7) ∧ degSum demoAdj (List.range 7) = 12 := by decide

/-! ## decomposition into connected components and single-network detection (undirected graph on vertices `0..n-1`) -/

theorem mem_compOf (adj : Nat → List Nat) (n fuel : Nat) (hclosed : ∀ v, v < n → ∀ x ∈ adj v, x < n)
    (hk : degSum adj (List.range n) ≤ fuel) (s : Nat) (hs : s < n) (v : Nat) :
    v ∈ compOf adj n fuel s ↔ v < n ∧ Reach adj s v := by
  have hcl : ∀ v ∈ List.range n, ∀ x ∈ adj v, x ∈ List.range n := by
    intro v hv x hx
    exact List.mem_range.mpr (hclosed v (List.mem_range.mp hv) x hx)
  have h := explored_iff_reachable_finite adj (List.range n) s fuel List.nodup_range hcl (List.mem_range.mpr hs) hk v
  unfold compOf Reach
  rw [List.mem_filter, List.mem_range, h]

/-- the component sweep partitions the vertex set into the classes of mutual reachability: every vertex lies in a listed
    component, listed components are pairwise disjoint, and each one is exactly the set of vertices reachable from any of
    its members — for every order of the adjacency lists -/
theorem components_partition (adj : Nat → List Nat) (n fuel : Nat) (hclosed : ∀ v, v < n → ∀ x ∈ adj v, x < n)
    (hsym : ∀ u v, v ∈ adj u → u ∈ adj v) (hk : degSum adj (List.range n) ≤ fuel) :
    (∀ v, v < n → ∃ c ∈ components adj n fuel, v ∈ c) ∧
    (components adj n fuel).Pairwise Disjoint2 ∧
    (∀ c ∈ components adj n fuel, c ≠ [] ∧ ∀ u ∈ c, ∀ v, v ∈ c ↔ v < n ∧ Reach adj u v) := by
  have hmem := mem_compOf adj n fuel hclosed hk
  have h := compInv_sweep adj n fuel hsym hmem n (Nat.le_refl n)
  rw [← components_eq] at h
  refine ⟨h.cover, h.disj, ?_⟩
  intro c hc
  obtain ⟨s, hs, he⟩ := h.src c hc
  subst he
  constructor
  · intro hnil
    have : s ∈ compOf adj n fuel s := (hmem s hs s).mpr ⟨hs, Reach.refl adj s⟩
    rw [hnil] at this; cases this
  · intro u hu v
    obtain ⟨_, hsu⟩ := (hmem s hs u).mp hu
    rw [hmem s hs v]
    constructor
    · rintro ⟨hv, hsv⟩; exact ⟨hv, (hsu.symm hsym).trans hsv⟩
    · rintro ⟨hv, huv⟩; exact ⟨hv, hsu.trans huv⟩

/-- single-network detection: exactly one component is listed iff all vertices are mutually reachable -/
theorem single_network_iff (adj : Nat → List Nat) (n fuel : Nat) (hn : 0 < n) (hclosed : ∀ v, v < n → ∀ x ∈ adj v, x < n)
    (hsym : ∀ u v, v ∈ adj u → u ∈ adj v) (hk : degSum adj (List.range n) ≤ fuel) :
    (components adj n fuel).length = 1 ↔ ∀ u v, u < n → v < n → Reach adj u v := by
  obtain ⟨hcov, hdisj, hcls⟩ := components_partition adj n fuel hclosed hsym hk
  constructor
  · intro hlen u v hu hv
    obtain ⟨c, hc⟩ := List.length_eq_one_iff.mp hlen
    rw [hc] at hcov hcls
    obtain ⟨c1, hc1, hu1⟩ := hcov u hu
    obtain ⟨c2, hc2, hv2⟩ := hcov v hv
    have e1 : c1 = c := by simpa using hc1
    have e2 : c2 = c := by simpa using hc2
    rw [e1] at hu1; rw [e2] at hv2
    exact (((hcls c (by simp)).2 u hu1 v).mp hv2).2
  · intro hall
    cases hcs : components adj n fuel with
    | nil =>
      obtain ⟨c, hc, _⟩ := hcov 0 hn
      rw [hcs] at hc; cases hc
    | cons c1 rest =>
      cases rest with
      | nil => rfl
      | cons c2 rest2 =>
        exfalso
        rw [hcs] at hdisj hcls
        have hd12 : Disjoint2 c1 c2 := (List.pairwise_cons.mp hdisj).1 c2 (by simp)
        obtain ⟨hne1, hcl1⟩ := hcls c1 (by simp)
        obtain ⟨hne2, hcl2⟩ := hcls c2 (by simp)
        obtain ⟨u, hu⟩ := List.exists_mem_of_ne_nil c1 hne1
        obtain ⟨v, hv⟩ := List.exists_mem_of_ne_nil c2 hne2
        have hun : u < n := ((hcl1 u hu u).mp hu).1
        have hvn : v < n := ((hcl2 v hv v).mp hv).1
        have : v ∈ c1 := (hcl1 u hu v).mpr ⟨hvn, hall u v hun hvn⟩
        exact hd12 v this hv

/-! non-vacuity: the demo graph with an isolated vertex 6 — two components; hypotheses hold -/
example : components demoAdj 7 12 = [[0, 1, 2, 3, 4, 5], [6]] ∧ (∀ v, v < 7 → ∀ x ∈ demoAdj v, x < 7) ∧
    (∀ u, u < 7 → ∀ v ∈ demoAdj u, u ∈ demoAdj v) := by decide

end Votca.C16
