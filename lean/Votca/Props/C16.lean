import Votca.Lemmas.C16
/-! # C16 — breadth-first distance labelling assigns every reachable vertex its shortest-path hop count

About `Votca/Model/C16.lean`, for every graph and every order of the adjacency lists.  Decomposition into components and
single-network detection rest on the corollary `explored_iff_reachable`.  Label-independence of the structure id and
reduce/expand losslessness are NOT proved (tied by exhaustive correspondence only — see DESIGN.md, C16: partial). -/
namespace Votca.C16

/-- when the queue has run empty every reachable vertex carries its shortest-path hop count,
    and nothing else is labelled — for every order of the adjacency lists -/
theorem bfs_dist (adj : Nat → List Nat) (s : Nat) (k : Nat)
    (hempty : (run adj k (init adj s)).queue = []) (v : Nat) :
    let d := (run adj k (init adj s)).dist
    (∀ j, Walk adj j s v → ∃ dv, d v = some dv ∧ dv ≤ j ∧ Walk adj dv s v) ∧
    (∀ dv, d v = some dv → Walk adj dv s v) := by
  intro d
  have h := inv_run adj s k _ (inv_init adj s)
  constructor
  · intro j hw
    -- 1-Lipschitz along edges once the queue is empty
    have lip : ∀ j u, Walk adj j s u → ∃ du, d u = some du ∧ du ≤ j := by
      intro j
      induction j with
      | zero =>
        intro u hw; cases hw; exact ⟨0, h.src, Nat.le_refl _⟩
      | succ j ih =>
        intro u hw
        have := Walk.last hw
        obtain ⟨y, hy, hadj⟩ := this
        obtain ⟨dy, hdy, hle⟩ := ih y hy
        rcases h.f y dy hdy u hadj with ⟨du, hdu, hle2⟩ | hr
        · exact ⟨du, hdu, by omega⟩
        · rw [hempty] at hr; cases hr
    obtain ⟨dv, hdv, hle⟩ := lip j v hw
    exact ⟨dv, hdv, hle, h.a v dv hdv⟩
  · intro dv hdv; exact h.a v dv hdv


/-- the explored set is exactly the set of vertices reachable from the start: this is what `decoupleIsolatedSubGraphs`
    collects per component and what `singleNetwork` counts -/
theorem explored_iff_reachable (adj : Nat → List Nat) (s : Nat) (k : Nat)
    (hempty : (run adj k (init adj s)).queue = []) (v : Nat) :
    ((run adj k (init adj s)).dist v).isSome = true ↔ ∃ j, Walk adj j s v := by
  obtain ⟨h1, h2⟩ := bfs_dist adj s k hempty v
  constructor
  · intro h
    obtain ⟨dv, hdv⟩ := Option.isSome_iff_exists.1 h
    exact ⟨dv, h2 dv hdv⟩
  · rintro ⟨j, hw⟩
    obtain ⟨dv, hdv, _, _⟩ := h1 j hw
    simp [hdv]

/-- the label is the minimum over all walks: no walk from the start is shorter than the label -/
theorem dist_is_minimal (adj : Nat → List Nat) (s : Nat) (k : Nat)
    (hempty : (run adj k (init adj s)).queue = []) (v dv j : Nat)
    (hd : (run adj k (init adj s)).dist v = some dv) (hw : Walk adj j s v) : dv ≤ j := by
  obtain ⟨h1, _⟩ := bfs_dist adj s k hempty v
  obtain ⟨dv', hdv', hle, _⟩ := h1 j hw
  rw [hd] at hdv'; cases hdv'; exact hle

/-! non-vacuity: a 5-ring with a tail, adjacency lists in scrambled order -/
def demoAdj : Nat → List Nat
  | 0 => [4, 1] | 1 => [2, 0] | 2 => [1, 3, 5] | 3 => [4, 2] | 4 => [0, 3] | 5 => [2] | _ => []
example : (run demoAdj 40 (init demoAdj 0)).queue = [] ∧
    (List.range 7).map (run demoAdj 40 (init demoAdj 0)).dist = [some 0, some 1, some 2, some 2, some 1, some 3, none] := by decide

end Votca.C16
