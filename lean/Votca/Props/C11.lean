import Votca.Lemmas.C11Merge
import Votca.Lemmas.C11X
/-! # C11 — option handling merges user input over defaults without loss or invention

Theorems about the passes of `Votca/Model/C11.lean` (the model is executed against OptionsHandler::ProcessUserInput on every
shipped calculator description on every run).  "rejected" statements are given in the contrapositive form
"accepted ⇒ nothing to reject", for every tree and any sufficient fuel. -/
namespace Votca.C11
open PTree

/-! ## unknown options are rejected -/

/-- every name the user wrote is declared, recursively — except inside sections the DESCRIPTION declares `unchecked` (an attribute
    `unchecked` on the user's own node exempts nothing) -/
def KnownIn : Nat → PTree → PTree → Prop
  | 0, _, _ => True
  | fuel + 1, user, defaults =>
    defaults.hasAttr "unchecked" = true ∨
    ∀ c ∈ user.children, ∃ d, getLast defaults.children c.name = some d ∧ KnownIn fuel c d

/-- `CheckUserInput` accepts only user trees all of whose option names are declared in the description -/
theorem accepted_input_is_declared : ∀ (fuel : Nat) (user defaults : PTree),
    checkUserInput fuel user defaults = .ok () → KnownIn fuel user defaults
  | 0, _, _, _ => trivial
  | fuel + 1, user, defaults, h => by
    unfold checkUserInput at h
    unfold KnownIn
    by_cases hu : defaults.hasAttr "unchecked" = true
    · exact Or.inl hu
    · right
      simp only [hu, if_false, Bool.false_eq_true] at h
      obtain ⟨_, hall⟩ := foldl_except_ok (fun c => match getLast defaults.children c.name with
        | some d => checkUserInput fuel c d
        | none => .error ("Votca has no option:" ++ c.name)) user.children (.ok ()) h
      intro c hc
      have := hall c hc
      cases hg : getLast defaults.children c.name with
      | none => rw [hg] at this; cases this
      | some d =>
        rw [hg] at this
        exact ⟨d, rfl, accepted_input_is_declared fuel c d this⟩

/-- an undeclared name at the top level of a checked section is an error that names it -/
theorem unknown_rejected (fuel : Nat) (user defaults c : PTree) (hu : defaults.hasAttr "unchecked" = false)
    (hc : c ∈ user.children) (hnone : getLast defaults.children c.name = none) :
    ∃ e, checkUserInput (fuel + 1) user defaults = .error e := by
  cases h : checkUserInput (fuel + 1) user defaults with
  | error e => exact ⟨e, rfl⟩
  | ok u =>
    cases u
    have := accepted_input_is_declared (fuel + 1) user defaults h
    unfold KnownIn at this
    rcases this with h1 | h2
    · rw [hu] at h1; cases h1
    · obtain ⟨d, hd, _⟩ := h2 c hc
      rw [hnone] at hd; cases hd

/-- the other half of "outside an unchecked section": whatever the user writes inside a section the description declares `unchecked` passes the
    name check (it is then carried into the result as it is, `overwrite` step c) -/
theorem unchecked_section_accepts (fuel : Nat) (user defaults : PTree) (h : defaults.hasAttr "unchecked" = true) :
    checkUserInput (fuel + 1) user defaults = .ok () := by
  unfold checkUserInput; simp [h]

/-- an attribute `unchecked` on the USER's node exempts nothing (the defect repaired in /repo: `CheckUserInput` used to look at the user's node) -/
example : ∃ e, checkUserInput 3 (node "sec" "" [("unchecked", "")] [node "smuggled" "1" [] []]) (node "sec" "" [] [node "known" "" [] []]) = .error e :=
  unknown_rejected 2 _ _ (node "smuggled" "1" [] []) (by decide) (by simp [PTree.children]) (by decide)

/-! ## missing REQUIRED options are rejected -/

/-- `CheckRequired` accepts only trees in which no node at any depth is a REQUIRED option the user left out -/
theorem accepted_has_no_missing_required : ∀ (fuel : Nat) (t : PTree), heightP t ≤ fuel →
    checkRequired fuel t = .ok () → allNodes (fun p => !isRequiredLeft p) t = true
  | 0, t, hf, _ => by have := height_pos t; omega
  | fuel + 1, t, hf, h => by
    unfold checkRequired at h
    split at h
    · cases h
    · rename_i hfold
      obtain ⟨_, hall⟩ := foldl_except_ok (checkRequired fuel) t.children (.ok ()) hfold
      rw [allNodes_iff]
      constructor
      · by_cases hr : isRequiredLeft t = true
        · simp [hr] at h
        · simp [hr]
      · rw [allList_iff]
        intro c hc
        have hh := height_mem c t.children hc
        rw [height_children] at hf
        exact accepted_has_no_missing_required fuel c (by omega) (hall c hc)

/-! ## optional options the user left out are absent -/

theorem removeOptional_name_attrs (fuel : Nat) (t : PTree) :
    (removeOptional fuel t).name = t.name ∧ (removeOptional fuel t).attrs = t.attrs ∧ (removeOptional fuel t).value = t.value := by
  cases fuel <;> cases t <;> simp [removeOptional, withChildren, PTree.name, PTree.attrs, PTree.value]

theorem isOptionalLeft_removeOptional (fuel : Nat) (t : PTree) : isOptionalLeft (removeOptional fuel t) = isOptionalLeft t := by
  obtain ⟨_, h2, _⟩ := removeOptional_name_attrs fuel t
  simp [isOptionalLeft, PTree.attr, PTree.hasAttr, h2]

/-- after `RemoveOptional` no node below the root, at any depth, is an OPTIONAL option that was not supplied -/
theorem optional_absent : ∀ (fuel : Nat) (t : PTree), heightP t ≤ fuel →
    allList (fun p => !isOptionalLeft p) (removeOptional fuel t).children = true
  | 0, t, hf => by have := height_pos t; omega
  | fuel + 1, t, hf => by
    rw [allList_iff]
    intro c hc
    have hch : (removeOptional (fuel + 1) t).children = (t.children.filter (fun c => !isOptionalLeft c)).map (removeOptional fuel) := by
      cases t; simp [removeOptional, withChildren, PTree.children]
    rw [hch, List.mem_map] at hc
    obtain ⟨c0, hc0, rfl⟩ := hc
    rw [List.mem_filter] at hc0
    rw [allNodes_iff]
    constructor
    · rw [isOptionalLeft_removeOptional]; exact hc0.2
    · have hh := height_mem c0 t.children hc0.1
      rw [height_children] at hf
      exact optional_absent fuel c0 (by omega)

/-! ## defaults for what the user left out; user-supplied leaves untouched -/

/-- one level of `InjectDefaultsAsValues`: a leaf that was not supplied and has a proper default gets it as its value;
    supplied (injected) leaves and leaves without default keep their value -/
theorem injectDefaults_leaf (fuel : Nat) (t p : PTree) (hp : p ∈ t.children) (hleaf : p.children = []) :
    ∃ p' ∈ (injectDefaults (fuel + 1) t).children, p'.name = p.name ∧ p'.attrs = p.attrs ∧
      p'.value = (match p.attr "default" with
                  | some v => if !p.hasAttr "injected" && !reserved.contains v then v else p.value
                  | none => p.value) := by
  have hch : (injectDefaults (fuel + 1) t).children = t.children.map (fun p =>
      if !p.children.isEmpty then injectDefaults fuel p
      else match p.attr "default" with
        | some v => if !p.hasAttr "injected" && !reserved.contains v then p.withValue v else p
        | none => p) := by
    cases t; rfl
  rw [hch]
  refine ⟨_, List.mem_map.2 ⟨p, hp, rfl⟩, ?_⟩
  simp only [hleaf, List.isEmpty_nil, Bool.not_true, Bool.false_eq_true, if_false]
  cases hd : p.attr "default" with
  | none => simp
  | some v =>
    simp only []
    split
    · cases p; simp [withValue, PTree.name, PTree.attrs, PTree.value]
    · simp

/-! ## the merge pass: user values over declared defaults, nothing invented -/

/-- merging user input over a non-list, checked default node: the node keeps its name, takes the user's value, is marked as
    supplied, and has exactly the declared children in the declared order — each merged with the user's last element of that
    name, or untouched when the user has none -/
theorem overwrite_nolist (fuel : Nat) (user defaults r : PTree) (hl : defaults.hasAttr "list" = false)
    (hu : defaults.hasAttr "unchecked" = false) (h : overwrite (fuel + 1) user defaults = .ok r) :
    r.name = defaults.name ∧ r.value = user.value ∧ r.hasAttr "injected" = true ∧
    List.Forall₂ (fun d c => match getLast user.children d.name with
                            | some u => overwrite fuel u d = .ok c
                            | none => c = d) defaults.children r.children := by
  unfold overwrite at h
  simp only [hl, Bool.not_false, if_true] at h
  generalize hm : List.mapM (m := Except String) _ _ = m at h
  cases m with
  | error e => simp [Except.map] at h
  | ok cs =>
    simp only [Except.map] at h
    have hun : (((defaults.withValue user.value).setAttr "injected" "true").withChildren cs).hasAttr "unchecked" = false := by
      rw [hasAttr_def] at hu ⊢
      simp only [withChildren_attrs, setAttr_attrs, withValue_attrs]
      rw [any_insertAttr_ne "injected" "unchecked" "true" (by decide)]
      exact hu
    rw [hun] at h
    simp only [Bool.false_eq_true, if_false] at h
    cases h
    have hf := mapM_ok_forall2 _ _ _ hm
    simp only [setAttr_children, withValue_children] at hf
    refine ⟨by simp, by simp, ?_, ?_⟩
    · rw [hasAttr_def]; simp only [withChildren_attrs, setAttr_attrs]; exact any_insertAttr_self _ _ _
    · simp only [withChildren_children]
      refine hf.imp ?_
      intro d c hdc
      cases hg : getLast user.children d.name with
      | none => rw [hg] at hdc; cases hdc; rfl
      | some u => rw [hg] at hdc; exact hdc

/-- merging never renames a node: the result carries the declared name (list and unchecked sections included) -/
theorem overwrite_name (fuel : Nat) (user defaults r : PTree) (h : overwrite fuel user defaults = .ok r) :
    r.name = defaults.name := by
  cases fuel with
  | zero => simp [overwrite] at h
  | succ fuel =>
    unfold overwrite at h
    simp only [] at h
    generalize hs : (if (!defaults.hasAttr "list") = true then _ else _ : Except String PTree) = step1 at h
    cases step1 with
    | error e => simp [Except.map] at h
    | ok d =>
      simp only [Except.map] at h
      have hd : d.name = defaults.name := by
        by_cases hl : (!defaults.hasAttr "list") = true
        · rw [if_pos hl] at hs
          generalize hm : List.mapM (m := Except String) _ _ = m at hs
          cases m with
          | error e => simp [Except.map] at hs
          | ok cs => simp only [Except.map] at hs; cases hs; simp
        · rw [if_neg hl] at hs
          split at hs
          · cases hs
          · refine foldl_except_inv (fun d => d.name = defaults.name) _ (fun _ _ => rfl) ?_ _ _ d ?_ hs
            · intro a tag a' ha hstep
              simp only [] at hstep
              split at hstep
              · cases hstep; simp [ha]
              · split at hstep
                · cases hstep; exact ha
                · generalize hm2 : List.foldl _ _ _ = m2 at hstep
                  cases m2 with
                  | error e => simp [Except.map] at hstep
                  | ok l => simp only [Except.map] at hstep; cases hstep; simp [ha]
            · intro a ha; cases ha; simp
      cases h
      split
      · simp [hd]
      · exact hd

/-- nothing else: below a checked, non-list node the merged tree has exactly the declared children, in declared order -/
theorem merged_children_are_the_declared (fuel : Nat) (user defaults r : PTree) (hl : defaults.hasAttr "list" = false)
    (hu : defaults.hasAttr "unchecked" = false) (h : overwrite (fuel + 1) user defaults = .ok r) :
    r.children.map (·.name) = defaults.children.map (·.name) := by
  obtain ⟨_, _, _, hf⟩ := overwrite_nolist fuel user defaults r hl hu h
  generalize defaults.children = ds0 at hf
  generalize r.children = cs0 at hf
  induction hf with
  | nil => rfl
  | @cons d c ds cs hdc _ ih =>
    simp only [List.map_cons]
    congr 1
    cases hg : getLast user.children d.name with
    | none => rw [hg] at hdc; rw [hdc]
    | some u => rw [hg] at hdc; exact overwrite_name fuel u d c hdc

/-- every declared (non-list, checked) child the user supplied carries the user's value and is marked as supplied; every child
    the user left out is the declared node, untouched -/
theorem supplied_children_carry_user_values (fuel : Nat) (user defaults r : PTree) (hl : defaults.hasAttr "list" = false)
    (hu : defaults.hasAttr "unchecked" = false) (h : overwrite (fuel + 2) user defaults = .ok r) :
    List.Forall₂ (fun d c => match getLast user.children d.name with
        | some u => d.hasAttr "list" = false → d.hasAttr "unchecked" = false →
            c.name = d.name ∧ c.value = u.value ∧ c.hasAttr "injected" = true
        | none => c = d) defaults.children r.children := by
  obtain ⟨_, _, _, hf⟩ := overwrite_nolist (fuel + 1) user defaults r hl hu h
  refine hf.imp ?_
  intro d c hdc
  cases hg : getLast user.children d.name with
  | none => rw [hg] at hdc; exact hdc
  | some u =>
    rw [hg] at hdc
    intro hdl hdu
    obtain ⟨h1, h2, h3, _⟩ := overwrite_nolist fuel u d c hdl hdu hdc
    exact ⟨h1, h2, h3⟩

/-- a supplied leaf keeps the user's value through `InjectDefaultsAsValues`: only leaves NOT marked as supplied take defaults -/
theorem supplied_leaf_survives_injection (fuel : Nat) (t p : PTree) (hp : p ∈ t.children) (hleaf : p.children = [])
    (hinj : p.hasAttr "injected" = true) :
    ∃ p2 ∈ (injectDefaults (fuel + 1) t).children, p2.name = p.name ∧ p2.value = p.value := by
  obtain ⟨p2, hp2, hn, _, hv⟩ := injectDefaults_leaf fuel t p hp hleaf
  refine ⟨p2, hp2, hn, ?_⟩
  rw [hv]
  cases hd : p.attr "default" with
  | none => rfl
  | some v => simp [hinj]

/-! ## values outside the declared choices / types are rejected -/

/-- `RecursivelyCheckOptions` accepts only trees whose leaves below the root all satisfy their declared choices -/
theorem accepted_values_are_valid : ∀ (fuel : Nat) (t : PTree), heightP t ≤ fuel → checkOptions fuel t = .ok () →
    allList (fun p => !p.children.isEmpty || (choicesOf p).isEmpty || isValidOption p (choicesOf p)) t.children = true
  | 0, t, hf, _ => by have := height_pos t; omega
  | fuel + 1, t, hf, h => by
    unfold checkOptions at h
    obtain ⟨_, hall⟩ := foldl_except_ok (fun p =>
        if !p.children.isEmpty then checkOptions fuel p
        else if (choicesOf p).isEmpty || isValidOption p (choicesOf p) then .ok () else .error ("The input value for \"" ++ p.name ++ "\"")) t.children (.ok ()) h
    rw [allList_iff]
    intro c hc
    have hcc := hall c hc
    rw [allNodes_iff]
    have hh := height_mem c t.children hc
    rw [height_children] at hf
    by_cases hl : c.children.isEmpty = true
    · simp only [hl, Bool.not_true, Bool.false_eq_true, if_false] at hcc
      constructor
      · split at hcc
        · rename_i hv; simp [hl]; simpa using hv
        · cases hcc
      · have : c.children = [] := by simpa using hl
        rw [this]; rfl
    · simp only [hl, Bool.not_false, if_true] at hcc
      constructor
      · simp [hl]
      · exact accepted_values_are_valid fuel c (by omega) hcc

/-! ## typed access accepts exactly the documented literals -/

/-- `as<bool>`: exactly `true` / `false` in any letter case, `1` and `0` -/
theorem bool_literals (s : List Char) (b : Bool) :
    asBool s = some b ↔ (b = true ∧ (lower s = "true".toList ∨ s = ['1'])) ∨
                         (b = false ∧ ¬(lower s = "true".toList ∨ s = ['1']) ∧ (lower s = "false".toList ∨ s = ['0'])) := by
  unfold asBool
  by_cases h1 : (lower s = "true".toList ∨ s = ['1'])
  · have : (lower s == "true".toList || s == ['1']) = true := by simpa using h1
    simp only [this, if_true]
    constructor
    · intro h; cases h; exact Or.inl ⟨rfl, h1⟩
    · rintro (⟨rfl, _⟩ | ⟨_, h2, _⟩)
      · rfl
      · exact absurd h1 h2
  · have : (lower s == "true".toList || s == ['1']) = false := by simpa using h1
    simp only [this, Bool.false_eq_true, if_false]
    by_cases h2 : (lower s = "false".toList ∨ s = ['0'])
    · have : (lower s == "false".toList || s == ['0']) = true := by simpa using h2
      simp only [this, if_true]
      constructor
      · intro h; cases h; exact Or.inr ⟨rfl, h1, h2⟩
      · rintro (⟨_, h3⟩ | ⟨rfl, _, _⟩)
        · exact absurd h3 h1
        · rfl
    · have : (lower s == "false".toList || s == ['0']) = false := by simpa using h2
      simp only [this, Bool.false_eq_true, if_false]
      constructor
      · intro h; cases h
      · rintro (⟨_, h3⟩ | ⟨_, _, h3⟩)
        · exact absurd h3 h1
        · exact absurd h3 h2

/-! non-vacuity: a small description with a required, an optional and a defaulted option -/
def demoDefaults : PTree := node "" "" [] [node "options" "" [] [node "calc" "" []
  [node "job" "" [("default", "REQUIRED")] [], node "tol" "" [("choices", "float+"), ("default", "1e-3")] [],
   node "extra" "" [("default", "OPTIONAL")] []]]]
def demoUser : PTree := node "" "" [] [node "options" "" [] [node "calc" "" [] [node "job" "run1" [] []]]]
example : (match processUserInput demoUser demoDefaults with
    | .ok t => (t.children.map fun o => o.children.map fun c => c.children.map fun l => (l.name, l.value)) == [[[("job", "run1"), ("tol", "1e-3")]]]
    | .error _ => false) = true := by decide +kernel

/-! non-vacuity of the merge theorems: the `calc` node is checked and not a list, and the merge succeeds on it -/
def demoCalcD : PTree := node "calc" "" [] [node "job" "" [("default", "REQUIRED")] [], node "tol" "" [("choices", "float+"), ("default", "1e-3")] []]
def demoCalcU : PTree := node "calc" "" [] [node "job" "run1" [] []]
example : demoCalcD.hasAttr "list" = false ∧ demoCalcD.hasAttr "unchecked" = false ∧
    (match overwrite 4 demoCalcU demoCalcD with
     | .ok r => r.children.map (fun c => (c.name, c.value, c.hasAttr "injected")) == [("job", "run1", true), ("tol", "", false)]
     | .error _ => false) = true := by decide +kernel

/-! ## link resolution (`ResolveLinks`) -/

/-- a node without a `link` attribute is not touched by the splice step -/
theorem spliceAll_nolink (pkgs : List (String × PTree)) (t : PTree) (h : t.attr "link" = none) : spliceAll pkgs t = some t := by
  unfold spliceAll; rw [h]

/-- a package is spliced in by appending the children of its root after the node's own, in file order; name and value stay -/
theorem splice_shape (t root : PTree) :
    (splice t root).children = t.children ++ root.children ∧ (splice t root).name = t.name ∧ (splice t root).value = t.value := by
  cases t; exact ⟨rfl, rfl, rfl⟩

theorem lookup_insertAttr_ne (k k' v' : String) (a : List (String × String)) (hne : k ≠ k') :
    (insertAttr k' v' a).lookup k = a.lookup k := by
  induction a with
  | nil => simp [insertAttr, List.lookup, hne]
  | cons x xs ih =>
    obtain ⟨xk, xv⟩ := x
    have hb0 : (k == k') = false := by simpa using hne
    unfold insertAttr
    split
    · simp only [List.lookup, hb0]
    · split
      · rename_i _ heq
        have hx : k' = xk := by simpa using heq
        subst hx
        simp only [List.lookup, hb0]
      · by_cases hk : k = xk
        · subst hk; simp [List.lookup]
        · have hb : (k == xk) = false := by simpa using hk
          simp only [List.lookup, hb]
          exact ih

/-- **the node's own attributes win**: an attribute the linking node has itself keeps its value whatever the packages declare -/
theorem splice_keeps_own_attr (t root : PTree) (k v : String) (h : t.attr k = some v) : (splice t root).attr k = some v := by
  cases t with
  | node n val attrs cs =>
    simp only [PTree.attr, PTree.attrs] at h
    simp only [splice, PTree.attr, PTree.attrs]
    suffices H : ∀ (ra a : List (String × String)), a.lookup k = some v →
        (ra.foldl (fun a kv => if a.any (·.1 == kv.1) then a else insertAttr kv.1 kv.2 a) a).lookup k = some v from H _ _ h
    intro ra
    induction ra with
    | nil => intro a ha; simpa using ha
    | cons kv rest ih =>
      intro a ha
      simp only [List.foldl_cons]
      apply ih
      split
      · exact ha
      · rename_i hany
        by_cases hk : k = kv.1
        · exfalso
          apply hany
          subst hk
          have : ∃ p ∈ a, p.1 = kv.1 := by
            clear ih hany
            induction a with
            | nil => simp [List.lookup] at ha
            | cons y ys ihy =>
              by_cases hy : kv.1 = y.1
              · exact ⟨y, List.mem_cons_self, hy.symm⟩
              · have hb : (kv.1 == y.1) = false := by simpa using hy
                simp only [List.lookup, hb] at ha
                obtain ⟨p, hp, hpk⟩ := ihy ha
                exact ⟨p, List.mem_cons_of_mem _ hp, hpk⟩
          simpa [List.any_eq_true] using this
        · rw [lookup_insertAttr_ne k kv.1 kv.2 a hk]; exact ha

/-- one resolution step: the result keeps name and value of the node, and its children are the resolved children of the
    spliced node, one for one and in order -/
theorem resolveLinks_step (pkgs : List (String × PTree)) (fuel : Nat) (t t1 r : PTree)
    (hs : spliceAll pkgs t = some t1) (hr : resolveLinks pkgs (fuel + 1) t = some r) :
    r.name = t1.name ∧ r.value = t1.value ∧ r.attrs = t1.attrs ∧ t1.children.mapM (resolveLinks pkgs fuel) = some r.children := by
  unfold resolveLinks at hr
  rw [hs] at hr
  simp only at hr
  split at hr
  · rename_i cs hcs
    cases hr
    exact ⟨rfl, rfl, rfl, hcs⟩
  · cases hr

/-! non-vacuity: a node linking two packages; the second package's leaves arrive, the node's own attribute wins -/
def demoPkgs : List (String × PTree) :=
  [("a.xml", node "a" "" [("help", "from a"), ("x", "1")] [node "id" "" [("default", "0")] []]),
   ("b.xml", node "b" "" [("help", "from b")] [node "tol" "" [("default", "1e-5")] [], node "sub" "" [("link", "a.xml")] []])]
def demoLinked : PTree := node "region" "" [("help", "own"), ("link", "a.xml b.xml")] []
example : (match resolveLinks demoPkgs 10 demoLinked with
    | some r => r.attr "help" == some "own" && r.attr "x" == some "1" &&
        r.children.map (fun c => (c.name, c.children.map (·.name))) == [("id", []), ("tol", []), ("sub", ["id"])]
    | none => false) = true := by decide +kernel

/-! ## the XML text layer: what the writer escapes, a parser reads back as the original text

The replacement tables are GENERATED from `XmlEscape` in property.cc (`Gen/XmlEscape.lean`); the writer model `C11X.printXML` built on them is
compared character by character with the file the real writer produces on every run. -/

open Votca.C11X in
/-- **for every sound replacement table** (decidable test: every entry is the character itself — never for `&` and `<` — or the predefined
    entity of that character, and `&` and `<` do have entries) **and every text**, of any length and with any characters: the escaped text is
    well-formed character data and a parser reads it back as exactly the original text -/
theorem xml_escape_sound (tab : List (Char × List Char)) (h : tableOK tab = true) (s : List Char) :
    unescape (escapeWith tab s) = some s := unescape_escape_lem tab h s

open Votca.C11X in
/-- the tables the source contains NOW pass the test (re-decided on every run against the regenerated tables) -/
theorem generated_tables_sound : tableOK Votca.Gen.XmlEscape.textTable = true ∧ attrOK Votca.Gen.XmlEscape.attrTable = true := by decide

open Votca.C11X in
/-- **C11/XML values**: every node value the writer puts between its tags is read back unchanged — `&`, `<`, `>`, quotes, entity-like
    text such as `&amp;` itself, anything -/
theorem xml_text_roundtrip (s : List Char) : unescape (escapeWith Votca.Gen.XmlEscape.textTable s) = some s :=
  unescape_escape_lem _ generated_tables_sound.1 s

open Votca.C11X in
/-- **C11/XML attributes**: an attribute value written between double quotes ends at the writer's closing quote, not earlier, and is read
    back unchanged, whatever follows the closing quote -/
theorem xml_attr_roundtrip (v rest : List Char) :
    attrValue (escapeWith Votca.Gen.XmlEscape.attrTable v ++ '"' :: rest) = some (v, rest) :=
  attrValue_escape_lem _ generated_tables_sound.2 v rest

open Votca.C11X in
/-- the negative side (what the writer did before the repair 722b9a336): with an empty table a value holding `<` or a bare `&` is not
    well-formed character data — the hypothesis `tableOK` is not idle -/
theorem xml_no_escape_counterexample : unescape (escapeWith [] "a<b".toList) = none ∧ unescape (escapeWith [] "R&D".toList) = none := by decide

open Votca.C11X in
example : escapeWith Votca.Gen.XmlEscape.attrTable "a\"<&amp;>".toList = "a&quot;&lt;&amp;amp;&gt;".toList := by decide

end Votca.C11
