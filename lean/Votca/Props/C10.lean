import Votca.Lemmas.C10
import Votca.Gen.JobLock
/-! # C10 — every job in a shared job file is executed exactly once and never lost

About `Votca.C10.run` (replayed against the real `ProgObserver` running in forked processes under a controlled
interleaving), for every number of processes `P`, cache size `c`, number of jobs `J` and every interleaving of the
load / merge / back-up / assign / write / unlock / execute steps.  The lock mode is the one the translator reads from
progressobserver.cc on every run (`Votca.Gen.JobLock.lockMode`).
Not modelled: `maxjobs`, restart patterns, `fcntl` semantics over network file systems, stream buffering granularity. -/
namespace Votca.C10
open PC Status

theorem upd_eq_update {β : Type} (f : Nat → β) (i : Nat) (v : β) : upd f i v = Function.update f i v := by
  funext j; unfold upd; by_cases h : j = i <;> simp [h, Function.update]

theorem merge_eq (p : Nat) (ext mem : Nat → Job) : merge p ext mem = U.merge p ext mem := rfl

theorem assign_eq (p c J : Nat) : ∀ (fuel : Nat) (mem : Nat → Job) (mpos : Nat) (cache : List Nat),
    assign p c J fuel mem mpos cache = U.assign p c J fuel mem mpos cache
  | 0, _, _, _ => rfl
  | fuel + 1, mem, mpos, cache => by
    unfold assign U.assign
    simp only [upd_eq_update]
    split
    · split
      · exact assign_eq p c J fuel _ _ _
      · exact assign_eq p c J fuel _ _ _
    · rfl

theorem setP_eq (s : S) (p : Nat) (x : Proc) : setP s p x = U.setP s p x := by
  unfold setP U.setP; rw [upd_eq_update]

theorem step_eq (mode : Mode) (c J : Nat) (s : S) (p : Nat) : step mode c J s p = U.step mode c J s p := by
  unfold step U.step
  simp only [setP_eq, assign_eq, merge_eq, upd_eq_update]
  cases (s.proc p).pc <;> first | rfl | (cases (s.proc p).cache <;> rfl) | (cases mode <;> rfl)

theorem run_eq (mode : Mode) (P c J : Nat) : ∀ (sched : List Nat) (s : S), run mode P c J s sched = U.run mode P c J s sched
  | [], s => rfl
  | p :: rest, s => by
    unfold run U.run
    rw [step_eq]
    cases h : (if p < P then U.step mode c J s p else none) with
    | none => exact run_eq mode P c J rest s
    | some s' => exact run_eq mode P c J rest s'

/-- the synchronisation of the current source takes the EXCLUSIVE inter-process lock (regenerated from the source;
    this obligation fails to compile when the code takes a shared lock) -/
theorem lock_is_exclusive : Votca.Gen.JobLock.lockMode = Mode.exclusive := rfl

/-- **assigned exactly once.**  With the lock the code takes, no job is ever executed by two workers — for every number of
    processes, cache size, job count and interleaving. -/
theorem assigned_once (P c J : Nat) (sched : List Nat) :
    (jobsRun (run Votca.Gen.JobLock.lockMode P c J init sched)).Nodup := by
  rw [lock_is_exclusive, run_eq]; exact U.exclusive_assigned_once P c J sched

/-- **results are never overwritten.**  The record of a job a process has executed stays that process's COMPLETE record in its
    own view (which is what it writes at its next synchronisation); no other process's state replaces it. -/
theorem result_kept (P c J : Nat) (sched : List Nat) (p j : Nat)
    (h : (p, j) ∈ (run Votca.Gen.JobLock.lockMode P c J init sched).execLog) :
    ((run Votca.Gen.JobLock.lockMode P c J init sched).proc p).mem j = ⟨complete, some p⟩ := by
  rw [lock_is_exclusive, run_eq] at h ⊢; exact U.exclusive_result_kept P c J sched p j h

/-- why the lock has to be exclusive: with a shared lock two processes can both assign and execute job 0 -/
theorem shared_lock_double_assignment :
    ∃ sched : List Nat, ¬ (jobsRun (run Mode.shared 2 1 1 init sched)).Nodup :=
  ⟨[0,0,0, 1,1,1, 0,0,0,0,0,0,0, 1,1,1,1,1,1,1], by decide⟩

/-- **crash consistency.**  During a synchronisation the back-up is written completely before the job file is touched:
    at every write step — i.e. at every possible crash point — the job file or its back-up is a complete job list. -/
theorem always_one_complete (d : Disk) (g : Nat) (h : oneComplete d = true) (hf : ∃ k, d.file = .complete k) :
    ∀ d' ∈ syncSteps d g, oneComplete d' = true := by
  obtain ⟨k, hk⟩ := hf
  intro d' hd
  simp only [syncSteps, List.mem_cons, List.mem_singleton, List.not_mem_nil, or_false] at hd
  rcases hd with rfl | rfl | rfl | rfl | rfl <;> simp [oneComplete, hk, h]

/-! non-vacuity: three processes, cache 2, five jobs, one complete interleaving -/
example : (jobsRun (run Mode.exclusive 2 1 2 init
    [0,0,0,0,0,0,0,0, 1,1,1,1,1,1,1,1, 0,0, 1,1, 0,0,0,0,0,0,0,0, 1,1,1,1,1,1,1,1])).length = 2 := by decide

end Votca.C10
