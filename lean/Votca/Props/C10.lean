import Votca.Lemmas.C10
import Votca.Gen.JobLock
import Votca.Model.C10R
import Mathlib.Tactic.Common
/-! # C10 — every job in a shared job file is executed exactly once and never lost

About `Votca.C10.run` (replayed against the real `ProgObserver` running in forked processes under a controlled
interleaving), for every number of processes `P`, cache size `c`, number of jobs `J` and every interleaving of the
load / merge / back-up / assign / write / unlock / execute steps.  The lock mode is the one the translator reads from
progressobserver.cc on every run (`Votca.Gen.JobLock.lockMode`).
The job file with a history, restart patterns and `maxjobs` are a second model (`Votca.C10R`, end of this file): step-level
theorems, and the whole-run behaviour tied by replaying the real processes' interleavings on it.
Not modelled: `fcntl` semantics over network file systems, stream buffering granularity. -/
namespace Votca.C10
open PC Status

theorem upd_eq_update {β : Type} (f : Nat → β) (i : Nat) (v : β) : upd f i v = Function.update f i v := by
  funext j; unfold upd; by_cases h : j = i <;> simp [h, Function.update]

theorem merge_eq (p : Nat) (ext mem : Nat → Job) : merge p ext mem = U.merge p ext mem := rfl

theorem assign_eq (p c J : Nat) : ∀ (fuel : Nat) (mem : Nat → Job) (mpos : Nat) (cache : List Nat),
    assign p c J fuel mem mpos cache = U.assign p c J fuel mem mpos cache
  | 0, _, _, _ => rfl
  | fuel + 1, mem, mpos, cache => by
    unfold assign U.assign
    simp only [upd_eq_update]
    split
    · split
      · exact assign_eq p c J fuel _ _ _
      · exact assign_eq p c J fuel _ _ _
    · rfl

theorem setP_eq (s : S) (p : Nat) (x : Proc) : setP s p x = U.setP s p x := by
  unfold setP U.setP; rw [upd_eq_update]

theorem step_eq (mode : Mode) (c J : Nat) (s : S) (p : Nat) : step mode c J s p = U.step mode c J s p := by
  unfold step U.step
  simp only [setP_eq, assign_eq, merge_eq, upd_eq_update]
  cases (s.proc p).pc <;> first | rfl | (cases (s.proc p).cache <;> rfl) | (cases mode <;> rfl)

theorem run_eq (mode : Mode) (P c J : Nat) : ∀ (sched : List Nat) (s : S), run mode P c J s sched = U.run mode P c J s sched
  | [], s => rfl
  | p :: rest, s => by
    unfold run U.run
    rw [step_eq]
    cases h : (if p < P then U.step mode c J s p else none) with
    | none => exact run_eq mode P c J rest s
    | some s' => exact run_eq mode P c J rest s'

/-- the synchronisation of the current source takes the EXCLUSIVE inter-process lock (regenerated from the source;
    this obligation fails to compile when the code takes a shared lock) -/
theorem lock_is_exclusive : Votca.Gen.JobLock.lockMode = Mode.exclusive := rfl

/-- **assigned exactly once.**  With the lock the code takes, no job is ever executed by two workers — for every number of
    processes, cache size, job count and interleaving. -/
theorem assigned_once (P c J : Nat) (sched : List Nat) :
    (jobsRun (run Votca.Gen.JobLock.lockMode P c J init sched)).Nodup := by
  rw [lock_is_exclusive, run_eq]; exact U.exclusive_assigned_once P c J sched

/-- **results are never overwritten.**  The record of a job a process has executed stays that process's COMPLETE record in its
    own view (which is what it writes at its next synchronisation); no other process's state replaces it. -/
theorem result_kept (P c J : Nat) (sched : List Nat) (p j : Nat)
    (h : (p, j) ∈ (run Votca.Gen.JobLock.lockMode P c J init sched).execLog) :
    ((run Votca.Gen.JobLock.lockMode P c J init sched).proc p).mem j = ⟨complete, some p⟩ := by
  rw [lock_is_exclusive, run_eq] at h ⊢; exact U.exclusive_result_kept P c J sched p j h

/-- why the lock has to be exclusive: with a shared lock two processes can both assign and execute job 0 -/
theorem shared_lock_double_assignment :
    ∃ sched : List Nat, ¬ (jobsRun (run Mode.shared 2 1 1 init sched)).Nodup :=
  ⟨[0,0,0, 1,1,1, 0,0,0,0,0,0,0, 1,1,1,1,1,1,1], by decide⟩

/-- **crash consistency.**  During a synchronisation the back-up is written completely before the job file is touched:
    at every write step — i.e. at every possible crash point — the job file or its back-up is a complete job list. -/
theorem always_one_complete (d : Disk) (g : Nat) (h : oneComplete d = true) (hf : ∃ k, d.file = .complete k) :
    ∀ d' ∈ syncSteps d g, oneComplete d' = true := by
  obtain ⟨k, hk⟩ := hf
  intro d' hd
  simp only [syncSteps, List.mem_cons, List.mem_singleton, List.not_mem_nil, or_false] at hd
  rcases hd with rfl | rfl | rfl | rfl | rfl <;> simp [oneComplete, hk, h]

/-! non-vacuity: three processes, cache 2, five jobs, one complete interleaving -/
example : (jobsRun (run Mode.exclusive 2 1 2 init
    [0,0,0,0,0,0,0,0, 1,1,1,1,1,1,1,1, 0,0, 1,1, 0,0,0,0,0,0,0,0, 1,1,1,1,1,1,1,1])).length = 2 := by decide

end Votca.C10

/-! # restart patterns, `maxjobs`, job files with a history (`Votca/Model/C10R.lean`) -/
namespace Votca.C10R
open Status

/-- **results are never overwritten by another process**, the merge step: the record of a job owned by another host is taken from
    the job file as it stands — status, host, output and error text; nothing of the merging process's own (possibly older) view
    of that job survives -/
theorem merge_takes_foreign_record (p q : Nat) (ext mem : Nat → Job) (j : Nat) (hq : (ext j).host = some q) (hne : q ≠ p) :
    merge p ext mem j = ext j := by
  unfold merge
  rw [hq]
  simp only [hne, ne_eq, not_false_eq_true, if_true]
  unfold updateFrom
  rw [hq]
  cases h : ext j
  simp_all

/-- … and a job this process owns (or nobody owns yet) keeps the process's own record: the file cannot overwrite what the
    process has computed and not yet written -/
theorem merge_keeps_own_record (p : Nat) (ext mem : Nat → Job) (j : Nat) (h : (ext j).host = some p ∨ (ext j).host = none) :
    merge p ext mem j = mem j := by
  unfold merge
  rcases h with h | h <;> simp [h]

/-- **restart patterns re-open exactly what they name**: the start test of the assignment loop -/
theorem restart_opens_exactly (c : Cfg) (jb : Job) :
    startable c jb = true ↔
      jb.status = avail ∨ (c.restartMode = true ∧ (jb.status ∈ c.stats ∨ ∃ h, jb.host = some h ∧ h ∈ c.hosts)) := by
  unfold startable
  cases hh : jb.host with
  | none => simp [hh]
  | some h => simp [hh]; tauto

/-- without a restart pattern only AVAILABLE jobs are started -/
theorem no_pattern_only_available (c : Cfg) (jb : Job) (h : c.restartMode = false) :
    startable c jb = true ↔ jb.status = avail := by
  rw [restart_opens_exactly]; simp [h]

/-- the assignment loop touches a record only to assign a startable job to this process (cleared output and error text:
    `Job::Reset`), never exceeds `maxjobs` started jobs in total and never fills the cache beyond its size -/
theorem assign_spec (p : Nat) (c : Cfg) (J : Nat) : ∀ (fuel : Nat) (mem : Nat → Job) (mpos : Nat) (cache : List Nat) (started : Nat),
    (∀ j, (assign p c J fuel mem mpos cache started).1 j = mem j ∨
          (startable c (mem j) = true ∧ (assign p c J fuel mem mpos cache started).1 j = ⟨assigned, some p, none, none⟩)) ∧
    (started ≤ c.maxjobs → (assign p c J fuel mem mpos cache started).2.2.2 ≤ c.maxjobs) ∧
    (cache.length ≤ c.cache → (assign p c J fuel mem mpos cache started).2.2.1.length ≤ c.cache) := by
  intro fuel
  induction fuel with
  | zero => intro mem mpos cache started; simp [assign]
  | succ fuel ih =>
    intro mem mpos cache started
    unfold assign
    split
    · rename_i hc
      split
      · rename_i hs
        obtain ⟨h1, h2, h3⟩ := ih (upd mem mpos (assignTo p (mem mpos))) (mpos + 1) (cache ++ [mpos]) (started + 1)
        refine ⟨?_, ?_, ?_⟩
        · intro j
          by_cases hj : j = mpos
          · subst hj
            rcases h1 j with h | ⟨_, h⟩
            · right; refine ⟨hs, ?_⟩; rw [h]; simp [upd, assignTo]
            · right; exact ⟨hs, h⟩
          · rcases h1 j with h | ⟨hst, h⟩
            · left; rw [h]; simp [upd, hj]
            · right; refine ⟨?_, h⟩; simpa [upd, hj] using hst
        · intro hle; exact h2 (by omega)
        · intro hle; exact h3 (by simp; omega)
      · exact ih mem (mpos + 1) cache started
    · refine ⟨fun j => Or.inl rfl, fun h => h, fun h => h⟩

/-- `ReportJobDone`: the record a process reports carries its own host, and either COMPLETE with its output or FAILED with its
    error text -/
theorem report_record (fails : Nat → Nat → Bool) (p j : Nat) (jb : Job) :
    (report fails p j jb).host = some p ∧
    (fails p j = false → (report fails p j jb).status = complete ∧ (report fails p j jb).out = some p) ∧
    (fails p j = true → (report fails p j jb).status = failed ∧ (report fails p j jb).err = some p) := by
  unfold report
  cases fails p j <;> simp

/-! non-vacuity: process 0 holds an old FAILED record with an error text, the file holds process 1's COMPLETE record: the merge
    takes the file's record and the stale error text is gone -/
example : merge 0 (fun _ => ⟨complete, some 1, some 1, none⟩) (fun _ => ⟨failed, some 100, none, some 100⟩) 3 = ⟨complete, some 1, some 1, none⟩ := by
  decide

section lockHolder
open PC
/-! ## the shared files are written only by the holder of the lock (model `C10R`, every reachable state) -/

/-- the program points between taking the lock and releasing it -/
def holding (pc : PC) : Bool :=
  match pc with
  | .locked | .merged | .backedUp | .assignedSt | .written => true
  | _ => false

/-- states reachable from a job file with any history by any interleaving of the processes' steps -/
inductive Reach (cfg : Nat → Cfg) (fails : Nat → Nat → Bool) (J : Nat) (hist : Nat → Job) : S → Prop
  | init : Reach cfg fails J hist (init hist)
  | step (s s' : S) (p : Nat) : Reach cfg fails J hist s → step cfg fails J s p = some s' → Reach cfg fails J hist s'

def LockInv (s : S) : Prop := (∀ q, holding (s.proc q).pc = true → s.lock = [q])

theorem upd_same {β : Type} (f : Nat → β) (i : Nat) (v : β) : upd f i v i = v := by simp [upd]
theorem upd_other {β : Type} (f : Nat → β) (i j : Nat) (v : β) (h : j ≠ i) : upd f i v j = f j := by simp [upd, h]

theorem lockInv_step (cfg : Nat → Cfg) (fails : Nat → Nat → Bool) (J : Nat) (s s' : S) (p : Nat)
    (hi : LockInv s) (hs : step cfg fails J s p = some s') : LockInv s' := by
  unfold step at hs
  intro q hq
  by_cases hqp : q = p
  · subst hqp
    revert hs
    cases hpc : (s.proc q).pc <;> simp only [hpc] <;> intro hs
    · -- idle
      split at hs
      · cases hs; simp [setP, upd_same, holding] at hq
      · split at hs <;> (cases hs; simp [setP, upd_same, holding] at hq)
    · -- wantLock
      split at hs
      · cases hs; rfl
      · cases hs
    · cases hs; simp only [setP] at hq ⊢; exact hi q (by simp [hpc, holding])
    · cases hs; simp only [setP] at hq ⊢; exact hi q (by simp [hpc, holding])
    · cases hs; simp only [setP] at hq ⊢; exact hi q (by simp [hpc, holding])
    · cases hs; simp only [setP] at hq ⊢; exact hi q (by simp [hpc, holding])
    · cases hs; simp [setP, upd_same, holding] at hq
    · split at hs <;> (cases hs; simp [setP, upd_same, holding] at hq)
    · cases hs; simp [setP, upd_same, holding] at hq
    · cases hs
  · -- another process moved: q's program point is unchanged, and if q holds the lock p cannot have taken or released it
    have hsame : ∀ x : Proc, ((setP s p x).proc q) = s.proc q := fun x => by simp [setP, upd_other _ _ _ _ hqp]
    revert hs
    cases hpc : (s.proc p).pc <;> simp only [hpc] <;> intro hs
    · split at hs
      · cases hs; rw [hsame] at hq; simpa [setP] using hi q hq
      · split at hs <;> (cases hs; rw [hsame] at hq; simpa [setP] using hi q hq)
    · split at hs
      · rename_i hl
        cases hs
        simp only [] at hq
        rw [hsame] at hq
        have := hi q hq
        rw [hl] at this; cases this
      · cases hs
    · cases hs; rw [hsame] at hq; simpa [setP] using hi q hq
    · cases hs; simp only [] at hq; rw [hsame] at hq; simpa [setP] using hi q hq
    · cases hs; rw [hsame] at hq; simpa [setP] using hi q hq
    · cases hs; simp only [] at hq; rw [hsame] at hq; simpa [setP] using hi q hq
    · -- p releases: p was holding, so the lock is [p]; q holding would make it [q]
      cases hs
      simp only [] at hq
      rw [hsame] at hq
      have h1 := hi q hq
      have h2 := hi p (by simp [hpc, holding])
      rw [h1] at h2
      simp at h2
      exact absurd h2 hqp
    · split at hs <;> (cases hs; rw [hsame] at hq; simpa [setP] using hi q hq)
    · cases hs; simp only [] at hq; rw [hsame] at hq; simpa [setP] using hi q hq
    · cases hs

theorem reach_lockInv (cfg : Nat → Cfg) (fails : Nat → Nat → Bool) (J : Nat) (hist : Nat → Job) (s : S)
    (h : Reach cfg fails J hist s) : LockInv s := by
  induction h with
  | init => intro q hq; simp [init, holding] at hq
  | step s s' p _ hs ih => exact lockInv_step cfg fails J s s' p ih hs

/-- **only the holder of the lock writes the job file or its back-up**: in every reachable state, a step of process `p` that
    changes the job file or the back-up is taken while the lock list is exactly `[p]` — so two processes never write at the same
    time, and no process writes without the lock (the trace clause `writesUnderLock` of the check is this statement on the events
    of the real processes) -/
theorem write_needs_lock (cfg : Nat → Cfg) (fails : Nat → Nat → Bool) (J : Nat) (hist : Nat → Job) (s s' : S) (p : Nat)
    (hr : Reach cfg fails J hist s) (hs : step cfg fails J s p = some s') (hw : s'.disk ≠ s.disk ∨ s'.bak ≠ s.bak) :
    s.lock = [p] := by
  have hi := reach_lockInv cfg fails J hist s hr
  unfold step at hs
  revert hs
  cases hpc : (s.proc p).pc <;> simp only [hpc] <;> intro hs
  · split at hs
    · cases hs; simp [setP] at hw
    · split at hs <;> (cases hs; simp [setP] at hw)
  · split at hs
    · cases hs; simp [setP] at hw
    · cases hs
  · cases hs; simp [setP] at hw
  · exact hi p (by simp [hpc, holding])
  · cases hs; simp [setP] at hw
  · exact hi p (by simp [hpc, holding])
  · cases hs; simp [setP] at hw
  · split at hs <;> (cases hs; simp [setP] at hw)
  · cases hs; simp [setP] at hw
  · cases hs

/-! non-vacuity: one process, one available job, cache 1: after five steps the process holds the lock and its next step writes the job file -/
def demoCfg : Nat → Cfg := fun _ => { cache := 1, maxjobs := 1000, hosts := [], stats := [] }
def demoHist : Nat → Job := fun _ => { status := .avail, host := none, out := none, err := none }
def demoRun : Nat → Option S
  | 0 => some (init demoHist)
  | n + 1 => (demoRun n).bind fun s => step demoCfg (fun _ _ => false) 1 s 0
example : (match demoRun 5, demoRun 6 with
    | some s, some s' => holding (s.proc 0).pc && s.lock == [0] && ((s'.disk 0).status == Status.assigned) && ((s.disk 0).status == Status.avail)
    | _, _ => false) = true := by decide +kernel
end lockHolder

section provenance
open PC
/-! ## nothing is invented: every output / error text anywhere was reported for that job by the process it names (model `C10R`,
every reachable state, any history, any restart patterns, any interleaving) -/

/-- the record's output and error text name a process that executed this very job (an entry of the execution log), or are the texts
    the history already carried for this job -/
def okRec (hist : Nat → Job) (log : List (Nat × Nat)) (j : Nat) (r : Job) : Prop :=
  (∀ p, r.out = some p → (p, j) ∈ log ∨ (hist j).out = some p) ∧
  (∀ p, r.err = some p → (p, j) ∈ log ∨ (hist j).err = some p)

def ProvInv (hist : Nat → Job) (s : S) : Prop :=
  ∀ j, okRec hist s.execLog j (s.disk j) ∧ okRec hist s.execLog j (s.bak j) ∧ ∀ q, okRec hist s.execLog j ((s.proc q).mem j)

theorem okRec_mono {hist : Nat → Job} {log log' : List (Nat × Nat)} {j : Nat} {r : Job} (h : okRec hist log j r)
    (hsub : ∀ e ∈ log, e ∈ log') : okRec hist log' j r := by
  refine ⟨fun p hp => ?_, fun p hp => ?_⟩
  · rcases h.1 p hp with h1 | h1
    · exact Or.inl (hsub _ h1)
    · exact Or.inr h1
  · rcases h.2 p hp with h1 | h1
    · exact Or.inl (hsub _ h1)
    · exact Or.inr h1

theorem okRec_merge {hist : Nat → Job} {log : List (Nat × Nat)} (p : Nat) (ext mem : Nat → Job) (j : Nat)
    (h1 : okRec hist log j (ext j)) (h2 : okRec hist log j (mem j)) : okRec hist log j (merge p ext mem j) := by
  unfold merge
  split
  · split
    · exact ⟨fun q hq => h1.1 q (by simpa [updateFrom] using hq), fun q hq => h1.2 q (by simpa [updateFrom] using hq)⟩
    · exact h2
  · exact h2

theorem okRec_assign {hist : Nat → Job} {log : List (Nat × Nat)} (p : Nat) (c : Cfg) (J : Nat) :
    ∀ (fuel : Nat) (mem : Nat → Job) (mpos : Nat) (cache : List Nat) (started : Nat),
      (∀ j, okRec hist log j (mem j)) → ∀ j, okRec hist log j ((assign p c J fuel mem mpos cache started).1 j) := by
  intro fuel
  induction fuel with
  | zero => intro mem mpos cache started h j; simpa [assign] using h j
  | succ n ih =>
    intro mem mpos cache started h j
    unfold assign
    split
    · split
      · apply ih
        intro k
        unfold upd
        split
        · exact ⟨fun q hq => by simp [assignTo] at hq, fun q hq => by simp [assignTo] at hq⟩
        · exact h k
      · exact ih _ _ _ _ h j
    · exact h j

theorem setP_mem (s : S) (p : Nat) (x : Proc) (q : Nat) :
    ((setP s p x).proc q).mem = if q = p then x.mem else (s.proc q).mem := by
  simp only [setP, upd]; split <;> rfl

theorem provInv_step (cfg : Nat → Cfg) (fails : Nat → Nat → Bool) (J : Nat) (hist : Nat → Job) (s s' : S) (p : Nat)
    (hi : ProvInv hist s) (hs : step cfg fails J s p = some s') : ProvInv hist s' := by
  unfold step at hs
  -- the steps that leave every record and the log as they are
  have keep : ∀ x : Proc, x.mem = (s.proc p).mem → ProvInv hist (setP s p x) := by
    intro x hx j
    obtain ⟨hd, hb, hm⟩ := hi j
    refine ⟨hd, hb, fun q => ?_⟩
    rw [setP_mem]; split
    · rw [hx]; exact hm p
    · exact hm q
  revert hs
  cases hpc : (s.proc p).pc <;> simp only [hpc] <;> intro hs
  · -- idle
    split at hs
    · cases hs; exact keep _ rfl
    · split at hs <;> (cases hs; exact keep _ rfl)
  · -- wantLock
    split at hs
    · cases hs
      intro j
      obtain ⟨hd, hb, hm⟩ := keep { s.proc p with pc := locked } rfl j
      exact ⟨hd, hb, hm⟩
    · cases hs
  · -- locked: merge
    cases hs
    intro j
    obtain ⟨hd, hb, hm⟩ := hi j
    refine ⟨hd, hb, fun q => ?_⟩
    rw [setP_mem]; split
    · exact okRec_merge p s.disk (s.proc p).mem j hd (hm p)
    · exact hm q
  · -- merged: back-up written from memory
    cases hs
    intro j
    obtain ⟨hd, hb, hm⟩ := hi j
    refine ⟨hd, hm p, fun q => ?_⟩
    show okRec hist s.execLog j (((setP s p _).proc q).mem j)
    rw [setP_mem]; split
    · exact hm p
    · exact hm q
  · -- backedUp: assignment
    cases hs
    intro j
    obtain ⟨hd, hb, hm⟩ := hi j
    refine ⟨hd, hb, fun q => ?_⟩
    rw [setP_mem]; split
    · exact okRec_assign p (cfg p) J J (s.proc p).mem (s.proc p).mpos [] (s.proc p).started (fun k => (hi k).2.2 p) j
    · exact hm q
  · -- assignedSt: job file written from memory
    cases hs
    intro j
    obtain ⟨hd, hb, hm⟩ := hi j
    refine ⟨hm p, hb, fun q => ?_⟩
    show okRec hist s.execLog j (((setP s p _).proc q).mem j)
    rw [setP_mem]; split
    · exact hm p
    · exact hm q
  · -- written: release
    cases hs
    intro j
    obtain ⟨hd, hb, hm⟩ := keep { s.proc p with pc := unlocked } rfl j
    exact ⟨hd, hb, hm⟩
  · -- unlocked
    split at hs <;> (cases hs; exact keep _ rfl)
  · -- exec: the report enters the memory record, the execution enters the log
    rename_i jx
    cases hs
    intro j
    obtain ⟨hd, hb, hm⟩ := hi j
    have sub : ∀ e ∈ s.execLog, e ∈ s.execLog ++ [(p, jx)] := fun e he => List.mem_append_left _ he
    refine ⟨okRec_mono hd sub, okRec_mono hb sub, fun q => ?_⟩
    show okRec hist (s.execLog ++ [(p, jx)]) j (((setP s p _).proc q).mem j)
    rw [setP_mem]; split
    · show okRec hist (s.execLog ++ [(p, jx)]) j (upd (s.proc p).mem jx (report fails p jx ((s.proc p).mem jx)) j)
      unfold upd
      split
      · rename_i hj
        subst hj
        have hold := okRec_mono (hm p) sub
        unfold report
        split
        · refine ⟨fun q' hq' => hold.1 q' hq', fun q' hq' => ?_⟩
          simp only [Option.some.injEq] at hq'
          subst hq'
          exact Or.inl (List.mem_append_right _ (by simp))
        · refine ⟨fun q' hq' => ?_, fun q' hq' => hold.2 q' hq'⟩
          simp only [Option.some.injEq] at hq'
          subst hq'
          exact Or.inl (List.mem_append_right _ (by simp))
      · exact okRec_mono (hm p) sub
    · exact okRec_mono (hm q) sub
  · cases hs

/-- **no result is invented or misattributed**: in every state reachable from a job file with any history, by any interleaving of any
    number of processes with any restart patterns, cache sizes and job limits, every output and every error text — in the job file,
    in its back-up and in every process's memory — either is the text the history carried for that job or names a process whose
    execution of THAT job is in the execution log -/
theorem reach_provenance (cfg : Nat → Cfg) (fails : Nat → Nat → Bool) (J : Nat) (hist : Nat → Job) (s : S)
    (h : Reach cfg fails J hist s) : ProvInv hist s := by
  induction h with
  | init =>
    intro j
    have : okRec hist [] j (hist j) := ⟨fun p hp => Or.inr hp, fun p hp => Or.inr hp⟩
    exact ⟨this, this, fun _ => this⟩
  | step s s' p _ hs ih => exact provInv_step cfg fails J hist s s' p ih hs

/-- the statement on the job file alone, as the check's trace clause reads it: an output in the file that the history did not carry
    for that job was reported by the named process for that job -/
theorem file_output_was_reported (cfg : Nat → Cfg) (fails : Nat → Nat → Bool) (J : Nat) (hist : Nat → Job) (s : S)
    (h : Reach cfg fails J hist s) (j p : Nat) (ho : (s.disk j).out = some p) (hnew : (hist j).out ≠ some p) :
    (p, j) ∈ s.execLog := by
  rcases ((reach_provenance cfg fails J hist s h) j).1.1 p ho with h1 | h1
  · exact h1
  · exact absurd h1 hnew

/-! non-vacuity: the demo run reaches a state whose file carries process 0's output for job 0, and the log has the execution -/
example : (match demoRun 16 with
    | some s => ((s.disk 0).out == some 0) && s.execLog.contains (0, 0)
    | none => false) = true := by decide +kernel
end provenance

end Votca.C10R

