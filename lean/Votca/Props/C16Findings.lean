import Votca.Model.C16
/-! # C16 — machine-checked witnesses of the recorded findings (never an obligation: they stop being true when the defect is repaired)

`structId_separates_labels` (Props/C16) needs an injective concatenation.  `Graph::calcId_` appends the node strings without a
separator or a length, and `GraphNode` builds a node string as `Mass<8 significant digits>Name<free text>` in the same way: the
concatenation the code uses is NOT injective, so two structures with different multisets of (name, mass) can get one id. -/
namespace Votca.C16

/-- two unbonded beads `A`, `B` of mass 1 (node strings after the labelling from `B`: `Dist0Mass1NameB`, `Mass1NameA`) and ONE bead
    named `BMass1NameA` of mass 1 (node string `Dist0Mass1NameBMass1NameA`): different key lists, one id -/
theorem concat_not_injective_counterexample :
    String.join ["Dist0Mass1NameB", "Mass1NameA"] = String.join ["Dist0Mass1NameBMass1NameA"] ∧
    (["Dist0Mass1NameB", "Mass1NameA"] : List String) ≠ ["Dist0Mass1NameBMass1NameA"] := by decide

/-- the same at the level of the node key: the key of an unreached node is its bare label, so a label can imitate a reached node -/
theorem nodeKey_collision_counterexample : nodeKey "Dist1X" none = nodeKey "X" (some 1) := by decide

end Votca.C16
