import Votca.Lemmas.C14
import Votca.Lemmas.C14Build
import Votca.Gen.MarcusReal
import Mathlib.Tactic.FieldSimp
import Mathlib.Tactic.Positivity
/-! # C14 — KMC event selection is rate-proportional; Marcus rates obey detailed balance

Tree theorems are about `Votca/Model/C14.lean` (executed by the driver against the real huffmanTree/GNode);
rate theorems are about `Votca.Gen.Marcus.marcusrate`, GENERATED from rate_engine.cc on every run. -/
namespace Votca.C14
open T

/-! ## destination lookup -/

/-- **partition (every tree shape, every offset).**  After construction, a random number `x` in the half-open interval
    `(lo, lo + v]` belonging to leaf `e` (cumulative masses of the leaves, right to left) selects exactly `e`.
    The interval has length `v = rate e / Σ rates`, so each event is selected for a set of that length. -/
theorem find_partition (t : T) (hn : leafNonneg t) (pre post : List (Nat × Rat)) (e : Nat) (v : Rat)
    (hl : leavesRL t = pre ++ (e, v) :: post) (x : Rat) (hlo : total pre < x) (hhi : x ≤ total pre + v) :
    find (finish t) x = e := by
  unfold finish
  have hn' : leafNonneg (setFresh t) := by unfold leafNonneg; rw [leavesRL_setFresh]; exact hn
  rw [find_spec (setFresh t) (fresh_setFresh t) hn' 0 x, leavesRL_setFresh, hl]
  apply select_interval pre e v post (by rw [← hl]; exact hn) 0 x <;> simpa using ‹_›

/-- the intervals tile `(0, Σ masses]`: the cumulative mass over all leaves is the mass of the tree
    (= 1 when the values are rates divided by their sum) -/
theorem intervals_cover (t : T) : total (leavesRL t) = mass t := total_leaves t

theorem select_mem (xs : List (Nat × Rat)) (hx : xs ≠ []) (a x : Rat) : select xs a x ∈ xs.map (·.1) := by
  induction xs generalizing a with
  | nil => exact absurd rfl hx
  | cons p xs ih =>
    obtain ⟨e, v⟩ := p
    cases xs with
    | nil => simp [select]
    | cons q rest =>
      simp only [select]
      split
      · have := ih (by simp) (a + v)
        simp only [List.map_cons, List.mem_cons] at this ⊢
        right; exact this
      · simp

/-- **totality.**  Every number (in particular every `x ∈ [0,1]`, including 0, 1 and every threshold) selects one of the
    events of the tree. -/
theorem find_total (t : T) (hn : leafNonneg t) (x : Rat) : find (finish t) x ∈ (leavesRL t).map (·.1) := by
  unfold finish
  have hn' : leafNonneg (setFresh t) := by unfold leafNonneg; rw [leavesRL_setFresh]; exact hn
  rw [find_spec (setFresh t) (fresh_setFresh t) hn' 0 x, leavesRL_setFresh]
  exact select_mem _ (leaves_ne_nil t) 0 x

/-- **construction (every tie order of the two priority queues).**  The leaves of the finished tree are a permutation
    of the event list: no event is lost or duplicated (the odd leftover event sits in a one-leaf node). -/
theorem build_leaves (P1 : Build.Pop (Nat × Nat)) (P2 : Build.Pop Build.T) (evs : List (Nat × Nat)) (root : Build.T)
    (h : Build.phase2 P2 (Build.phase1 P1 evs.length evs []).length (Build.phase1 P1 evs.length evs []) = some root) :
    (Build.leaves root).Perm evs := Build.build_leaves P1 P2 evs root h

/-! non-vacuity: the commented example of huffmantree.h -/
example : (thresholds (finish (T.inner 4 (T.inner 3 (one 0 9 (1/4) 0) (two 1 7 8 (1/10) (1/20) 0) 0) (two 2 5 6 (7/20) (1/4) 0) 0))).map (·.2)
    = [3/5, 3/4, 3/4, 13/20, 1/4] := by decide +kernel

/-! ## Marcus rates (generated expression) -/
open Real Votca.Gen.Marcus

/-- rates are positive -/
theorem marcus_pos (pi hb e2h J2 dG lam kT : ℝ) (hpi : 0 < pi) (hh : 0 < hb) (he : 0 < e2h) (hJ : 0 < J2)
    (hl : 0 < lam) (hT : 0 < kT) : 0 < marcusrate pi hb e2h J2 dG lam kT := by
  unfold marcusrate
  have : 0 < sqrt (4 * pi * lam * kT) := sqrt_pos.2 (by positivity)
  positivity

/-- rates scale linearly with the squared coupling -/
theorem marcus_linear_J2 (pi hb e2h J2 c dG lam kT : ℝ) :
    marcusrate pi hb e2h (c * J2) dG lam kT = c * marcusrate pi hb e2h J2 dG lam kT := by
  unfold marcusrate; ring

/-- **detailed balance**, equal forward/backward reorganisation energy: `k12 / k21 = exp(dG / kT)` where the backward
    rate is evaluated with `-dG` (as `Rate_Engine::Rate` does) -/
theorem detailed_balance (pi hb e2h J2 dG lam kT : ℝ) (hpi : 0 < pi) (hh : 0 < hb) (he : 0 < e2h) (hJ : 0 < J2)
    (hl : 0 < lam) (hT : 0 < kT) :
    marcusrate pi hb e2h J2 dG lam kT / marcusrate pi hb e2h J2 (-dG) lam kT = exp (dG / kT) := by
  unfold marcusrate
  have hs : 0 < sqrt (4 * pi * lam * kT) := sqrt_pos.2 (by positivity)
  have hpre : 2 * pi / (hb * e2h) * J2 / sqrt (4 * pi * lam * kT) ≠ 0 := by positivity
  simp only []
  rw [mul_div_mul_left _ _ hpre, ← exp_sub]
  congr 1
  field_simp
  ring

/-- with the field term as `Rate` assembles it (`dG = (E1 - E2) + q R·F`, `R = r2 - r1` the pair vector):
    `k12 / k21 = exp(-(Etot2 - Etot1)/kT)` for `Etot i = E_i - q F·r_i`, i.e. a positive charge hopping along the field is
    favoured.  (`rf1`, `rf2` stand for `F·r1`, `F·r2`.) -/
theorem detailed_balance_field (pi hb e2h J2 E1 E2 q rf1 rf2 lam kT : ℝ) (hpi : 0 < pi) (hh : 0 < hb) (he : 0 < e2h)
    (hJ : 0 < J2) (hl : 0 < lam) (hT : 0 < kT) :
    let dG := (E1 - E2) + q * (rf2 - rf1)
    marcusrate pi hb e2h J2 dG lam kT / marcusrate pi hb e2h J2 (-dG) lam kT
      = exp (-((E2 - q * rf2) - (E1 - q * rf1)) / kT) := by
  intro dG
  rw [detailed_balance pi hb e2h J2 dG lam kT hpi hh he hJ hl hT]
  congr 1
  simp only [dG]; ring

/-! ### the pair as `Rate_Engine::Rate` evaluates it: effective reorganisation energies (generated from the source) -/

/-- the outer-sphere reorganisation energy of the pair enters both directions alike: a pair whose inner forward and backward
    reorganisation energies are equal is evaluated with equal effective ones -/
theorem effective_reorg_equal (inner lo : ℝ) : reorg12 inner lo = reorg21 inner lo := by
  unfold reorg12 reorg21; ring

/-- positive inner and non-negative outer reorganisation energy give positive effective ones in both directions -/
theorem effective_reorg_pos (inner lo : ℝ) (hi : 0 < inner) (hlo : 0 ≤ lo) : 0 < reorg12 inner lo ∧ 0 < reorg21 inner lo := by
  unfold reorg12 reorg21; constructor <;> linarith

/-- both pair rates are positive -/
theorem pair_rates_pos (pi hb e2h J2 dG inner12 inner21 lo kT : ℝ) (hpi : 0 < pi) (hh : 0 < hb) (he : 0 < e2h) (hJ : 0 < J2)
    (h12 : 0 < inner12) (h21 : 0 < inner21) (hlo : 0 ≤ lo) (hT : 0 < kT) :
    0 < marcusrate pi hb e2h J2 dG (reorg12 inner12 lo) kT ∧ 0 < marcusrate pi hb e2h J2 (-dG) (reorg21 inner21 lo) kT :=
  ⟨marcus_pos pi hb e2h J2 dG _ kT hpi hh he hJ (effective_reorg_pos inner12 lo h12 hlo).1 hT,
   marcus_pos pi hb e2h J2 (-dG) _ kT hpi hh he hJ (effective_reorg_pos inner21 lo h21 hlo).2 hT⟩

/-- **detailed balance of the pair rates**: equal inner reorganisation energies, any outer-sphere contribution -/
theorem pair_detailed_balance (pi hb e2h J2 dG inner lo kT : ℝ) (hpi : 0 < pi) (hh : 0 < hb) (he : 0 < e2h) (hJ : 0 < J2)
    (hi : 0 < inner) (hlo : 0 ≤ lo) (hT : 0 < kT) :
    marcusrate pi hb e2h J2 dG (reorg12 inner lo) kT / marcusrate pi hb e2h J2 (-dG) (reorg21 inner lo) kT = exp (dG / kT) := by
  rw [← effective_reorg_equal inner lo]
  exact detailed_balance pi hb e2h J2 dG _ kT hpi hh he hJ (effective_reorg_pos inner lo hi hlo).1 hT

/-- **waiting time.**  With `u = 1 - uniform[0,1) ∈ (0,1]`, the drawn time exceeds `t` exactly when `u < exp(-k t)`:
    the survival probability is `exp(-k t)`, the exponential distribution with the total escape rate `k`. -/
theorem waiting_time (k u t : ℝ) (hk : 0 < k) (hu : 0 < u) :
    t < promotetime k u ↔ u < exp (-(k * t)) := by
  unfold promotetime
  have h1 : -1 / k * log u = -(log u) / k := by ring
  rw [h1, lt_div_iff₀ hk, lt_neg, ← log_lt_iff_lt_exp hu]
  constructor <;> intro h <;> linarith

end Votca.C14
