import Votca.Lemmas.C06
import Votca.Model.C06F
import Votca.Lemmas.Vec3
import Mathlib.Tactic.FieldSimp
import Mathlib.Tactic.LinearCombination
/-! # C06 — property theorems: the inverse solvers return the minimiser of the stated least-squares problem

`tikhonov`: the inverse `csg_imc_solve` builds from an orthogonal eigen-decomposition of `AᵀA` is the inverse of
`AᵀA + r·1`, so `x = -inverse·Aᵀ·b` solves the regularised normal equations; `normal_equations_unique`: for `r > 0` that
solution is the only one; `kkt_optimal`: a vector that satisfies the constraints and whose residual gradient lies in
the row space of the constraint matrix (what the check verifies exactly on every output of `linalg_constrained_qrsolve`)
minimises `|Ax - b|²` over the constraint null-space; `split_partition`: the tables written by index ranges that
cover `1..n` consecutively concatenate back to `x`.  The numerical kernels (Eigen's eigen-solver and Householder QR) are
external: their outputs are certified per run by the exact residuals of `Votca/Model/C06.lean`. -/
namespace Votca.C06
open Matrix

section tikhonov
variable {n : Type} [Fintype n] [DecidableEq n]

/-- `csg_imc_solve`: `V diag(1/(d+r)) Vᵀ` inverts `M + r·1` when `M = V diag d Vᵀ` with orthogonal `V` -/
theorem tikhonov (M V : Matrix n n ℝ) (d : n → ℝ) (r : ℝ)
    (h1 : V * Vᵀ = 1) (h2 : Vᵀ * V = 1) (hM : M = V * diagonal d * Vᵀ) (hr : ∀ i, d i + r ≠ 0) :
    (M + r • (1 : Matrix n n ℝ)) * (V * diagonal (fun i => 1 / (d i + r)) * Vᵀ) = 1 := by
  have e1 : M + r • (1 : Matrix n n ℝ) = V * diagonal (fun i => d i + r) * Vᵀ := by
    rw [hM]
    have : r • (1 : Matrix n n ℝ) = V * diagonal (fun _ => r) * Vᵀ := by
      have : diagonal (fun _ : n => r) = r • (1 : Matrix n n ℝ) := by
        ext i j; by_cases h : i = j <;> simp [diagonal, h, Matrix.one_apply]
      rw [this, Matrix.mul_smul, Matrix.smul_mul, Matrix.mul_one, h1]
    rw [this, ← Matrix.add_mul, ← Matrix.mul_add, diagonal_add]
  rw [e1]
  calc V * diagonal (fun i => d i + r) * Vᵀ * (V * diagonal (fun i => 1 / (d i + r)) * Vᵀ)
      = V * (diagonal (fun i => d i + r) * (Vᵀ * V) * diagonal (fun i => 1 / (d i + r))) * Vᵀ := by
        simp only [Matrix.mul_assoc]
    _ = V * (diagonal (fun i => d i + r) * diagonal (fun i => 1 / (d i + r))) * Vᵀ := by rw [h2, Matrix.mul_one]
    _ = V * 1 * Vᵀ := by
        congr 2
        rw [diagonal_mul_diagonal]
        have : (fun i => (d i + r) * (1 / (d i + r))) = fun _ : n => (1 : ℝ) := by
          funext i; field_simp [hr i]
        rw [this, diagonal_one]
    _ = 1 := by rw [Matrix.mul_one, h1]

/-- hence the vector the program writes, `x = -(V diag(1/(d+r)) Vᵀ) (Aᵀ b)`, solves `(AᵀA + r·1) x = -Aᵀ b` -/
theorem imc_solution {m : Type} [Fintype m] (A : Matrix m n ℝ) (b : m → ℝ) (V : Matrix n n ℝ) (d : n → ℝ) (r : ℝ)
    (h1 : V * Vᵀ = 1) (h2 : Vᵀ * V = 1) (hM : Aᵀ * A = V * diagonal d * Vᵀ) (hr : ∀ i, d i + r ≠ 0) :
    (Aᵀ * A + r • (1 : Matrix n n ℝ)) *ᵥ (-((V * diagonal (fun i => 1 / (d i + r)) * Vᵀ) *ᵥ (Aᵀ *ᵥ b))) = -(Aᵀ *ᵥ b) := by
  rw [Matrix.mulVec_neg, Matrix.mulVec_mulVec, tikhonov (Aᵀ * A) V d r h1 h2 hM hr, Matrix.one_mulVec]

/-- eigenvalues of `AᵀA` are non-negative, so any `r > 0` makes every `d_i + r` non-zero -/
theorem psd_regular (d r : ℝ) (hd : 0 ≤ d) (hr : 0 < r) : d + r ≠ 0 := by linarith

/-- for `r > 0` the regularised normal equations have at most one solution -/
theorem normal_equations_unique {m : Type} [Fintype m] (A : Matrix m n ℝ) (r : ℝ) (hr : 0 < r) (x y : n → ℝ)
    (h : (Aᵀ * A + r • (1 : Matrix n n ℝ)) *ᵥ x = (Aᵀ * A + r • (1 : Matrix n n ℝ)) *ᵥ y) : x = y := by
  have hz : (Aᵀ * A + r • (1 : Matrix n n ℝ)) *ᵥ (x - y) = 0 := by
    rw [Matrix.mulVec_sub, h, sub_self]
  set z := x - y with hzdef
  have h0 : z ⬝ᵥ ((Aᵀ * A + r • (1 : Matrix n n ℝ)) *ᵥ z) = 0 := by rw [hz]; simp
  have hexp : z ⬝ᵥ ((Aᵀ * A + r • (1 : Matrix n n ℝ)) *ᵥ z) = (A *ᵥ z) ⬝ᵥ (A *ᵥ z) + r * (z ⬝ᵥ z) := by
    rw [Matrix.add_mulVec, dotProduct_add, ← Matrix.mulVec_mulVec, dot_mulVec_eq, Matrix.transpose_transpose,
      Matrix.smul_mulVec, Matrix.one_mulVec, dotProduct_smul, smul_eq_mul]
  rw [hexp] at h0
  have ha := dot_self_nonneg (A *ᵥ z)
  have hb := dot_self_nonneg z
  have hzz : z ⬝ᵥ z = 0 := by nlinarith
  have := dot_self_eq_zero z hzz
  have hxy : x - y = 0 := this
  exact sub_eq_zero.mp hxy

end tikhonov

section kkt
variable {m n k : Type} [Fintype m] [Fintype n] [Fintype k]

/-- force matching: coefficients that reproduce every reference force (`A u = b`, what the check certifies for the tables
`csg_fmatch` writes, by recomputing the forces from them) minimise `|A v - b|²` over all `v`, constrained or not -/
theorem zero_residual_is_minimum (A : Matrix m n ℝ) (b : m → ℝ) (u v : n → ℝ) (h : A *ᵥ u = b) :
    (A *ᵥ u - b) ⬝ᵥ (A *ᵥ u - b) ≤ (A *ᵥ v - b) ⬝ᵥ (A *ᵥ v - b) := by
  rw [h, sub_self]
  simpa using dot_self_nonneg (A *ᵥ v - b)

/-- the KKT conditions are sufficient: feasible `x` with `Aᵀ(Ax - b) = Bᵀλ` minimises `|Ay - b|²` over all feasible `y` -/
theorem kkt_optimal (A : Matrix m n ℝ) (B : Matrix k n ℝ) (b : m → ℝ) (x y : n → ℝ) (lam : k → ℝ)
    (hx : B *ᵥ x = 0) (hy : B *ᵥ y = 0) (hs : Aᵀ *ᵥ (A *ᵥ x - b) = Bᵀ *ᵥ lam) :
    (A *ᵥ x - b) ⬝ᵥ (A *ᵥ x - b) ≤ (A *ᵥ y - b) ⬝ᵥ (A *ᵥ y - b) := by
  set rx := A *ᵥ x - b with hrx
  set dv := y - x with hd
  have hsplit : A *ᵥ y - b = rx + A *ᵥ dv := by
    rw [hrx, hd, Matrix.mulVec_sub]; funext i; simp only [Pi.add_apply, Pi.sub_apply]; ring
  have hcross : rx ⬝ᵥ (A *ᵥ dv) = 0 := by
    rw [dot_mulVec_eq, hs, ← dot_mulVec_eq, hd, Matrix.mulVec_sub, hx, hy, sub_self]
    simp
  rw [hsplit, add_dotProduct, dotProduct_add, dotProduct_add, hcross, dotProduct_comm (A *ᵥ dv) rx, hcross]
  have := dot_self_nonneg (A *ᵥ dv)
  linarith

end kkt

/-- total number of rows named by the ranges -/
def totalRows (ranges : List (Nat × Nat)) : Nat := (ranges.map fun (b, e) => e + 1 - b).sum

theorem split_from (α : Type) (ranges : List (Nat × Nat)) (x : List α) (start : Nat) (hstart : 0 < start)
    (hc : consecutive start ranges = true) :
    (splitByIndex ranges x).flatten = (x.drop (start - 1)).take (totalRows ranges) := by
  induction ranges generalizing start with
  | nil => simp [splitByIndex, totalRows]
  | cons be rest ih =>
    obtain ⟨b, e⟩ := be
    simp only [consecutive, Bool.and_eq_true, beq_iff_eq, decide_eq_true_eq] at hc
    obtain ⟨⟨hb, hbe⟩, hrest⟩ := hc
    subst hb
    have := ih (e + 1) (by omega) hrest
    simp only [splitByIndex, List.map_cons, List.flatten_cons, totalRows, List.sum_cons] at this ⊢
    rw [this, List.take_add, List.drop_drop]
    congr 2
    simp
    omega

/-- index ranges that cover `1..n` consecutively cut `x` into tables whose concatenation is `x` again -/
theorem split_partition (α : Type) (ranges : List (Nat × Nat)) (x : List α)
    (hc : consecutive 1 ranges = true) (hn : totalRows ranges = x.length) :
    (splitByIndex ranges x).flatten = x := by
  rw [split_from α ranges x 1 (by omega) hc, hn]
  simp

example : consecutive 1 [(1, 3), (4, 4), (5, 7)] = true ∧ totalRows [(1, 3), (4, 4), (5, 7)] = 7 := by decide

end Votca.C06

/-! # the angle term of force matching (`Votca/Model/C06F.lean`, tied to the real csg_fmatch by recomputing the reference forces from
the written tables) -/
namespace Votca.C06F
open Votca Votca.C02

/-- the three forces of one angle term sum to zero (no net force), whatever the tabulated value and the geometry -/
theorem angle_forces_sum_zero (g : AngleGeom) (S : Rat) :
    ((-S) * (angleGrads g).1) + ((-S) * (angleGrads g).2) + (S * ((angleGrads g).1 + (angleGrads g).2)) = V3.zero := by
  apply Votca.C02.V3.ext3 <;> simp [V3.zero] <;> ring

/-- the gradient of the angle with respect to an outer bead is perpendicular to that bead's arm (moving a bead along its arm does
    not change the angle), given that `n1`, `n2`, `c` are the lengths and the cosine of the geometry -/
theorem angle_grad_perp_arm (g : AngleGeom) (h1 : g.n1 * g.n1 = V3.dot g.u g.u) (h2 : g.n2 * g.n2 = V3.dot g.w g.w)
    (hc : g.c * (g.n1 * g.n2) = V3.dot g.u g.w) (hn1 : g.n1 ≠ 0) (hn2 : g.n2 ≠ 0) :
    V3.dot (angleGrads g).1 g.u = 0 ∧ V3.dot (angleGrads g).2 g.w = 0 := by
  have e1 : g.u.x * g.u.x + g.u.y * g.u.y + g.u.z * g.u.z = g.n1 * g.n1 := h1.symm
  have e2 : g.w.x * g.w.x + g.w.y * g.w.y + g.w.z * g.w.z = g.n2 * g.n2 := h2.symm
  have e3 : g.u.x * g.w.x + g.u.y * g.w.y + g.u.z * g.w.z = g.c * (g.n1 * g.n2) := hc.symm
  constructor
  · simp only [angleGrads, V3.dot, smul_x, smul_y, smul_z, sub_x, sub_y, sub_z]
    have : (1 / (g.n1 * g.n2)) * (g.w.x * g.u.x + g.w.y * g.u.y + g.w.z * g.u.z) - (g.c / (g.n1 * g.n1)) * (g.u.x * g.u.x + g.u.y * g.u.y + g.u.z * g.u.z) = 0 := by
      have e3' : g.w.x * g.u.x + g.w.y * g.u.y + g.w.z * g.u.z = g.c * (g.n1 * g.n2) := by rw [← e3]; ring
      rw [e3', e1]; field_simp; ring
    linear_combination (-(1 / g.sn)) * this
  · simp only [angleGrads, V3.dot, smul_x, smul_y, smul_z, sub_x, sub_y, sub_z]
    have : (1 / (g.n1 * g.n2)) * (g.u.x * g.w.x + g.u.y * g.w.y + g.u.z * g.w.z) - (g.c / (g.n2 * g.n2)) * (g.w.x * g.w.x + g.w.y * g.w.y + g.w.z * g.w.z) = 0 := by
      rw [e3, e2]; field_simp; ring
    linear_combination (-(1 / g.sn)) * this

end Votca.C06F
