import Votca.Lemmas.C18Wild
import Votca.Lemmas.C18Print
import Votca.Lemmas.C18Iter
import Votca.Lemmas.C18Index
import Votca.Lemmas.C18RoundTrip
/-! # C18 — property theorems

Selection patterns, ranges and index lists denote exactly what they say.
Only property statements live here; helper lemmas are in `Votca/Lemmas/C18*.lean`.
Every theorem is about the executable definitions of `Votca/Model/C18.lean`, which the driver
runs against the real code on every check. -/
namespace Votca.C18

/-! ## 1. wildcard matching = the usual glob relation (all patterns, all strings) -/

/-- the usual glob meaning: `*` any run (possibly empty), `?` exactly one character, else literal -/
inductive Glob : List Char → List Char → Prop
  | nil : Glob [] []
  | starSkip {p s} : Glob p s → Glob ('*' :: p) s
  | starTake {p c s} : Glob ('*' :: p) s → Glob ('*' :: p) (c :: s)
  | one {p c s} : Glob p s → Glob ('?' :: p) (c :: s)
  | lit {p c s} : c ≠ '*' → Glob p s → Glob (c :: p) (c :: s)

theorem glob_to_Glob : ∀ (p s : List Char), glob p s = true → Glob p s
  | [], [], _ => Glob.nil
  | [], _ :: _, h => by simp [glob] at h
  | c :: p, [], h => by
    by_cases hc : c = star
    · subst hc; rw [glob_star_nil] at h; exact Glob.starSkip (glob_to_Glob p [] h)
    · rw [glob_lit_nil c p hc] at h; cases h
  | c :: p, d :: t, h => by
    by_cases hc : c = star
    · subst hc
      rw [glob_star_cons, Bool.or_eq_true] at h
      rcases h with h | h
      · exact Glob.starSkip (glob_to_Glob p (d :: t) h)
      · exact Glob.starTake (glob_to_Glob (star :: p) t h)
    · rw [glob_lit_cons c d p t hc] at h
      simp only [Bool.and_eq_true, Bool.or_eq_true, decide_eq_true_eq] at h
      obtain ⟨h1 | h1, h2⟩ := h
      · subst h1; exact Glob.one (glob_to_Glob p t h2)
      · subst h1; exact Glob.lit hc (glob_to_Glob p t h2)
termination_by p s => p.length + s.length

theorem glob_iff_Glob (p s : List Char) : glob p s = true ↔ Glob p s := by
  constructor
  · exact glob_to_Glob p s
  · intro h
    induction h with
    | nil => simp [glob]
    | starSkip _ ih => exact glob_star_of _ _ ih
    | starTake _ ih =>
      have := glob_star_cons
      show glob (star :: _) (_ :: _) = true
      rw [glob_star_cons]; simp [show glob (star :: _) _ = true from ih]
    | one _ ih =>
      show glob (qm :: _) (_ :: _) = true
      rw [glob_lit_cons _ _ _ _ (by decide)]; simp [ih]
    | lit hc _ ih => rw [glob_lit_cons _ _ _ _ hc]; simp [ih]

/-- **C18/wildcard (full strength).**  For every pattern and every string the three-loop matcher of
    `tools::wildcmp` returns true exactly when the string matches under the glob meaning.
    (C strings: no NUL inside; the C++ entry point passes `c_str()`.) -/
theorem wildcmp_iff_glob (p s : List Char) : wildcmp p s = true ↔ Glob p s := by
  rw [wildcmp_eq_glob]; exact glob_iff_Glob p s

/-- bead selection by type or `name:` pattern returns exactly the beads whose field matches, in order -/
theorem select_exact (sel : List Char) (beads : List BeadRec) : select sel beads = selectSpec sel beads := by
  unfold select selectSpec; simp only [wildcmp_eq_glob]

/-! ## 2. range expressions -/

/-- acceptance: the parser (tokenizer that drops empty fields, colon count, multiplication test) accepts
    exactly the declaratively well-formed expressions, with the same blocks.  In particular empty steps
    (`1::5`), zero strides, non-integers and unreachable ends are rejected. -/
theorem range_accept_iff_spec (str : List Char) : parse str = specParse str := parse_eq_spec str

theorem specBlock_ok (str : List Char) (k : Block) (h : specBlock str = some k) : SpecOK k := by
  unfold specBlock at h
  split at h
  · cases h; left; exact ⟨Int.one_pos, Int.le_refl _⟩
  · split at h
    · cases h; left; exact ⟨Int.one_pos, by assumption⟩
    · cases h
  · split at h
    · cases h; assumption
    · cases h
  · cases h

theorem mapM_mem {α β} (f : α → Option β) : ∀ (l : List α) (r : List β), l.mapM f = some r →
    ∀ y ∈ r, ∃ x ∈ l, f x = some y
  | [], r, h, y, hy => by simp at h; subst h; cases hy
  | x :: xs, r, h, y, hy => by
    rw [List.mapM_cons] at h
    cases hx : f x with
    | none => simp [hx] at h
    | some v =>
      cases hxs : xs.mapM f with
      | none => simp [hx, hxs] at h
      | some vs =>
        simp [hx, hxs] at h; subst h
        rcases List.mem_cons.1 hy with rfl | hy'
        · exact ⟨x, by simp, hx⟩
        · obtain ⟨x', hx', hf⟩ := mapM_mem f xs vs hxs y hy'
          exact ⟨x', by simp [hx'], hf⟩

theorem parse_blocks_ok (str : List Char) (bs : List Block) (h : parse str = some bs) : ∀ k ∈ bs, SpecOK k := by
  rw [parse_eq_spec] at h
  have h := (specParse_some str bs h).2
  intro k hk
  obtain ⟨x, _, hx⟩ := mapM_mem specBlock _ bs h k hk
  exact specBlock_ok x k hx

/-- **C18/range (full strength).**  Every accepted expression terminates and enumerates exactly the integers it
    denotes, in order: with any step budget of at least the number of denoted values the iteration
    reaches `end()` and has produced `denote bs` — for positive and negative strides, any number of blocks. -/
theorem range_enumerates (str : List Char) (bs : List Block) (h : parse str = some bs)
    (fuel : Nat) (hf : (denote bs).length ≤ fuel) : enumerate bs fuel = (denote bs, true) :=
  enumerate_spec bs (parse_blocks_ok str bs h) fuel hf

/-- termination on its own: some finite budget suffices for every accepted expression -/
theorem range_terminates (str : List Char) (bs : List Block) (h : parse str = some bs) :
    ∃ fuel, (enumerate bs fuel).2 = true :=
  ⟨(denote bs).length, by rw [range_enumerates str bs h _ (Nat.le_refl _)]⟩

/-- an accepted expression never contains a zero stride -/
theorem range_no_zero_stride (str : List Char) (bs : List Block) (h : parse str = some bs) : ∀ k ∈ bs, k.s ≠ 0 := by
  intro k hk
  rcases parse_blocks_ok str bs h k hk with ⟨h1, _⟩ | ⟨h1, _⟩ <;> omega

/-- a block with an empty field between colons (`1::5`, `1:5:`, `:1`) is rejected -/
theorem range_rejects_empty_field (blk : List Char) (h : [] ∈ splitAll (· = ':') blk) : parseBlock blk = none := by
  rw [parseBlock_eq_spec]; unfold specBlock
  rw [mapM_none_of_mem toIntFull _ [] h toIntFull_nil]

theorem comma_count_exposes_empty (s : List Char) (h : [] ∈ splitAll (· = ',') s) :
    countChar ',' s + 1 ≠ (tokenize (· = ',') s).length := by
  have hlen := splitAll_length (fun c => decide (c = ',')) s
  have hlt := filter_length_lt_of_mem (fun t : List Char => !t.isEmpty) _ [] h (by simp)
  unfold tokenize countChar
  omega

/-- an expression with an empty block between commas (`1,,3`, `1,3,`, `,1`) is rejected: the tokenizer drops empty blocks, the comma count exposes them -/
theorem range_rejects_empty_block (str : List Char) (h : [] ∈ splitAll (· = ',') (str.filter (· ≠ ' ')))
    (hne : str.filter (· ≠ ' ') ≠ []) : parse str = none := by
  unfold parse
  have : outerOK str = false := by
    unfold outerOK
    generalize str.filter (· ≠ ' ') = s at h hne
    have hc := comma_count_exposes_empty s h
    cases s with
    | nil => exact absurd rfl hne
    | cons a t => simp [hc]
  simp [this]

/-- the outer shape in examples: empty blocks and blanks inside a number are refused, blanks around numbers and separators are not, the empty
    expression is the empty range -/
example : parse "1,,3".toList = none ∧ parse "1,3,".toList = none ∧ parse ",".toList = none ∧ parse "1 2:30".toList = none ∧
    parse "1:2  0".toList = none ∧ parse " 1 : 2 , 5 ".toList = some [⟨1, 1, 2⟩, ⟨5, 1, 5⟩] ∧ parse "".toList = some [] ∧
    parse " - 2".toList = some [⟨-2, 1, -2⟩] := by decide

/-- what the denotation is, spelled out: the `i`-th value of a block is `b + i·s`, all between `b` and `e` -/
theorem denoteBlock_get (k : Block) (i : Nat) (hi : i < count k) :
    (denoteBlock k)[i]'(by rw [denoteBlock_length]; exact hi) = k.b + (i : Int) * k.s := by
  simp [denoteBlock]

/-! non-vacuity: concrete accepted expressions with positive, negative strides and several blocks -/
example : parse "1:2:7, 5:-2:0,9".toList = some [⟨1, 2, 7⟩, ⟨5, -2, 0⟩, ⟨9, 1, 9⟩] := by decide
example : (enumerate [⟨1, 2, 7⟩, ⟨5, -2, 0⟩, ⟨9, 1, 9⟩] 8) = ([1, 3, 5, 7, 5, 3, 1, 9], true) := by decide
example : parse "1:0:1".toList = none ∧ parse "1::5".toList = none ∧ parse "3abc".toList = none := by decide

/-! ## 3. index lists -/

/-- **C18/index lists.**  Printing an index vector as runs and expanding it again gives the sorted duplicate-free
    vector: no index is lost or invented (token level: `runs` is what `CreateIndexString` prints,
    `expand` is the `start..stop` loop of `CreateIndexVector`). -/
theorem index_roundtrip (xs : List Int) : sortDedup (expand (runs (sortDedup xs))) = sortDedup xs := by
  rw [expand_runs _ (sortDedup_sorted xs), sortDedup_of_sorted _ (sortDedup_sorted xs)]

/-- the normalised vector has the same members as the input, sorted strictly (so duplicate-free) -/
theorem index_normalised (xs : List Int) : StrictSorted (sortDedup xs) ∧ ∀ v, v ∈ sortDedup xs ↔ v ∈ xs :=
  ⟨sortDedup_sorted xs, fun v => mem_sortDedup v xs⟩

example : createIndexString [9, 3, 4, 5, 1, 3] = "1 3:5 9".toList := by decide
example : createIndexVector "1 3:5 9".toList = some [1, 3, 4, 5, 9] := by decide

/-! ## the text layer of integers: what `operator<<` prints, `std::stoi` / `lexical_cast` read back -/

/-- **printing an integer and scanning it back is the identity**, whatever follows the number (as long as it does not start with a
    digit): the decimal text of `i` is read as `i` and the rest is left unread -/
theorem scanInt_showInt (i : Int) (rest : List Char) (hr : ∀ c, rest.head? = some c → isDigit c = false) :
    scanInt (showInt i ++ rest) = some (i, rest) := scanInt_showInt_lem i rest hr


/-- the printed form of a block `b:s:e` starts with the text of `b` followed by a colon (or is the text of `b` alone): scanning it
    returns `b` and leaves the rest — the first field of the print / parse round trip of a range, at string level -/
theorem scanInt_printBlock_first (k : Block) :
    ∃ rest, scanInt (printBlock k) = some (k.b, rest) ∧ (rest = [] ∨ rest.head? = some ':') := by
  unfold printBlock
  split
  · refine ⟨[], ?_, Or.inl rfl⟩
    simpa using scanInt_showInt k.b [] (by simp)
  · split
    · refine ⟨':' :: showInt k.e, scanInt_showInt k.b _ (by intro c hc; simp at hc; subst hc; decide), Or.inr rfl⟩
    · refine ⟨':' :: (showInt k.s ++ ':' :: showInt k.e), ?_, Or.inr rfl⟩
      have := scanInt_showInt k.b (':' :: (showInt k.s ++ ':' :: showInt k.e)) (by intro c hc; simp at hc; subst hc; decide)
      simpa [List.append_assoc] using this

example : scanInt (showInt (-2048) ++ ":7".toList) = some (-2048, ":7".toList) := by decide

/-! ## print / parse round trips at string level (every character the printer writes, every character the parser reads) -/

/-- **C18/range print–parse (full strength, string level).**  For every accepted range expression: the text the stream operator
    writes for the parsed range is accepted again, block by block (a single value is printed without its stride and comes back with
    stride 1), and the re-parsed range **enumerates the same sequence** — the iteration over the re-parsed blocks terminates with
    any sufficient budget and yields exactly what the first range denotes.  The proof goes through the characters: the tokenizer cuts
    the printed text exactly at the printer's commas and colons, no field is dropped, and `std::stoi` reads every printed 32-bit field
    back as the integer it was printed from. -/
theorem range_print_parse (str : List Char) (bs : List Block) (h : parse str = some bs) :
    parse (printBlocks bs) = some (bs.map normBlock) ∧ denote (bs.map normBlock) = denote bs ∧
    ∀ fuel, (denote bs).length ≤ fuel → enumerate (bs.map normBlock) fuel = (denote bs, true) := by
  have hp := parse_printBlocks bs (parse_printable str bs h)
  refine ⟨hp, denote_norm bs, fun fuel hf => ?_⟩
  have := range_enumerates (printBlocks bs) (bs.map normBlock) hp fuel (by rw [denote_norm]; exact hf)
  rw [this, denote_norm]

/-- printing is idempotent after one round: the re-parsed range prints as the same text -/
theorem range_print_stable (k : Block) : printBlock (normBlock k) = printBlock k := by
  unfold normBlock; split
  · rename_i h; unfold printBlock; simp [h]
  · rfl

/-- **C18/index lists, string level**: `CreateIndexVector (CreateIndexString xs)` is the sorted duplicate-free `xs` for every list
    of 64-bit indices (negative ones included) -/
theorem index_string_roundtrip (xs : List Int) (h : ∀ x ∈ xs, inInt64 x = true) :
    createIndexVector (createIndexString xs) = some (sortDedup xs) :=
  createIndexVector_createIndexString xs h

example : parse (printBlocks [⟨1, 2, 7⟩, ⟨5, -2, 0⟩, ⟨9, 4, 9⟩]) = some [⟨1, 2, 7⟩, ⟨5, -2, 0⟩, ⟨9, 1, 9⟩] := by decide
example : printBlocks [⟨1, 2, 7⟩, ⟨5, -2, 0⟩, ⟨9, 4, 9⟩, ⟨3, 1, 6⟩] = "1:2:7,5:-2:0,9,3:6".toList := by decide
example : createIndexVector (createIndexString [9, -3, 4, 5, -2, 3]) = some [-3, -2, 3, 4, 5, 9] := by decide

end Votca.C18
