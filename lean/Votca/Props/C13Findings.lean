import Votca.Model.C13
/-! # C13 — machine-checked witness of the recorded finding (KNOWN_FINDINGS.txt, LEGACY-PERIODIC-WRAP-MOD-N-BINS)

This module is NOT an obligation of the check: when the finding is repaired in votca/votca these statements stop
being true, which is reported as a note ("known finding no longer reproduces"), never as a violation. -/
namespace Votca.C13

/-- the legacy periodic histogram on [2, 3] with three bins (centres 2, 5/2, 3; 2 and 3 are the same point, the range has
    length 1): the value 7/2 and its periodic image 5/2, one range length apart, are counted in different bins — the bin number
    is reduced modulo 3 bins instead of modulo the 2 bins the range is long -/
theorem legacy_periodic_wrap_counterexample :
    legacyPdf 2 3 3 true [7 / 2] = [1, 0, 1] ∧ legacyPdf 2 3 3 true [5 / 2] = [0, 1, 0] := by decide +kernel

end Votca.C13
