import Votca.Model.C02
import Votca.Lemmas.RoundHA
import Votca.Lemmas.Vec3
import Mathlib.Tactic.Positivity
/-! # C02 — periodic distances obey the minimum-image convention

Theorems about `Votca/Model/C02.lean` (exact arithmetic; IEEE rounding is modelled, not verified). -/
namespace Votca.C02
open Votca

/-! ## open box -/
theorem open_plain (B : Box) (ri rj : V3) : mic .open_ B ri rj = rj - ri := rfl

/-! ## the result is a periodic image: plain difference minus an integer combination of the box vectors -/

theorem ortho_lattice (B : Box) (ri rj : V3) : ∃ k1 k2 k3 : Int,
    micOrtho B ri rj = (rj - ri) - (⟨(k1 : Rat) * B.a.x, (k2 : Rat) * B.b.y, (k3 : Rat) * B.c.z⟩ : V3) :=
  ⟨roundHA ((rj - ri).x / B.a.x), roundHA ((rj - ri).y / B.b.y), roundHA ((rj - ri).z / B.c.z), by
    apply V3.ext3 <;> simp [micOrtho] <;> ring⟩

/-- any box matrix (not only reduced ones) -/
theorem tri_lattice (B : Box) (ri rj : V3) : ∃ na nb nc : Int, micTri B ri rj = (rj - ri) - B.lattice na nb nc := by
  refine ⟨roundHA (((rj - ri) - ((roundHA ((rj - ri).z / B.c.z) : Rat) * B.c) -
      ((roundHA (((rj - ri) - ((roundHA ((rj - ri).z / B.c.z) : Rat) * B.c)).y / B.b.y) : Rat) * B.b)).x / B.a.x),
    roundHA (((rj - ri) - ((roundHA ((rj - ri).z / B.c.z) : Rat) * B.c)).y / B.b.y),
    roundHA ((rj - ri).z / B.c.z), ?_⟩
  apply V3.ext3 <;> simp [micTri, Box.lattice] <;> ring

/-! ## swapping the points changes the sign (ties included: `std::round` is odd) -/

theorem ortho_antisymm (B : Box) (ri rj : V3) : micOrtho B rj ri = - micOrtho B ri rj := by
  have e : ∀ (a b L : Rat), (a - b) - L * (roundHA ((a - b) / L) : Rat) = -((b - a) - L * (roundHA ((b - a) / L) : Rat)) := by
    intro a b L
    have : (a - b) / L = -((b - a) / L) := by rw [← neg_div]; ring_nf
    rw [this, roundHA_neg]; push_cast; ring
  apply V3.ext3 <;> simp only [micOrtho, sub_x, sub_y, sub_z, neg_x, neg_y, neg_z] <;> exact e _ _ _

theorem tri_antisymm (B : Box) (ri rj : V3) : micTri B rj ri = - micTri B ri rj := by
  have hr : ri - rj = -(rj - ri) := by apply V3.ext3 <;> simp
  have hneg : ∀ (q L : Rat), (roundHA (-q / L) : Rat) = -(roundHA (q / L) : Rat) := by
    intro q L; rw [neg_div, roundHA_neg]; push_cast; ring
  unfold micTri
  simp only [hr]
  apply V3.ext3 <;>
  · simp only [sub_x, sub_y, sub_z, neg_x, neg_y, neg_z, smul_x, smul_y, smul_z]
    have h3 := hneg (rj - ri).z B.c.z
    simp only [sub_z] at h3
    rw [h3]
    have e2 : -(rj.y - ri.y) - -(roundHA ((rj.z - ri.z) / B.c.z) : Rat) * B.c.y
        = -((rj.y - ri.y) - (roundHA ((rj.z - ri.z) / B.c.z) : Rat) * B.c.y) := by ring
    rw [e2, hneg]
    have e1 : -(rj.x - ri.x) - -(roundHA ((rj.z - ri.z) / B.c.z) : Rat) * B.c.x -
          -(roundHA (((rj.y - ri.y) - (roundHA ((rj.z - ri.z) / B.c.z) : Rat) * B.c.y) / B.b.y) : Rat) * B.b.x
        = -((rj.x - ri.x) - (roundHA ((rj.z - ri.z) / B.c.z) : Rat) * B.c.x -
          (roundHA (((rj.y - ri.y) - (roundHA ((rj.z - ri.z) / B.c.z) : Rat) * B.c.y) / B.b.y) : Rat) * B.b.x) := by ring
    rw [e1, hneg]
    ring

/-! ## orthorhombic boxes: shortest of ALL periodic images, always -/

theorem ortho_shortest (B : Box) (hx : 0 < B.a.x) (hy : 0 < B.b.y) (hz : 0 < B.c.z) (ri rj : V3) (k1 k2 k3 : Int) :
    (micOrtho B ri rj).normSq ≤
      ((rj - ri) - (⟨(k1 : Rat) * B.a.x, (k2 : Rat) * B.b.y, (k3 : Rat) * B.c.z⟩ : V3)).normSq := by
  have h1 := mic1_sq_shortest B.a.x (rj - ri).x hx k1
  have h2 := mic1_sq_shortest B.b.y (rj - ri).y hy k2
  have h3 := mic1_sq_shortest B.c.z (rj - ri).z hz k3
  simp only [V3.normSq, V3.dot, micOrtho, sub_x, sub_y, sub_z, mic1] at *
  nlinarith [h1, h2, h3]

/-- every component is within half a box length -/
theorem ortho_bound (B : Box) (hx : 0 < B.a.x) (hy : 0 < B.b.y) (hz : 0 < B.c.z) (ri rj : V3) :
    |(micOrtho B ri rj).x| ≤ B.a.x / 2 ∧ |(micOrtho B ri rj).y| ≤ B.b.y / 2 ∧ |(micOrtho B ri rj).z| ≤ B.c.z / 2 :=
  ⟨mic1_bound B.a.x _ hx, mic1_bound B.b.y _ hy, mic1_bound B.c.z _ hz⟩

/-- moving a point by whole box vectors does not change the result (away from exact ties) -/
theorem ortho_shift_invariant (B : Box) (hx : B.a.x ≠ 0) (hy : B.b.y ≠ 0) (hz : B.c.z ≠ 0) (ri rj : V3) (n1 n2 n3 : Int)
    (t1 : |(rj - ri).x / B.a.x - (roundHA ((rj - ri).x / B.a.x) : Rat)| ≠ 1 / 2)
    (t2 : |(rj - ri).y / B.b.y - (roundHA ((rj - ri).y / B.b.y) : Rat)| ≠ 1 / 2)
    (t3 : |(rj - ri).z / B.c.z - (roundHA ((rj - ri).z / B.c.z) : Rat)| ≠ 1 / 2) :
    micOrtho B ri (rj + (⟨(n1 : Rat) * B.a.x, (n2 : Rat) * B.b.y, (n3 : Rat) * B.c.z⟩ : V3)) = micOrtho B ri rj := by
  have s1 := mic1_shift B.a.x (rj - ri).x hx n1 t1
  have s2 := mic1_shift B.b.y (rj - ri).y hy n2 t2
  have s3 := mic1_shift B.c.z (rj - ri).z hz n3 t3
  simp only [mic1, sub_x, sub_y, sub_z] at s1 s2 s3
  apply V3.ext3 <;> simp only [micOrtho, sub_x, sub_y, sub_z, add_x, add_y, add_z]
  · rw [← s1]; congr 2 <;> ring
  · rw [← s2]; congr 2 <;> ring
  · rw [← s3]; congr 2 <;> ring

/-! ## triclinic boxes under the GROMACS conditions -/

/-- upper-triangular box with positive diagonal: if SOME periodic image `d` of the difference lies strictly inside the
    half-slab in x, y and z, the sequential z,y,x reduction returns exactly that image — whatever the off-diagonal
    elements and however many box vectors away the points are. -/
theorem tri_recovers (B : Box) (hut : B.a.y = 0 ∧ B.a.z = 0 ∧ B.b.z = 0)
    (hax : 0 < B.a.x) (hby : 0 < B.b.y) (hcz : 0 < B.c.z) (ri rj d : V3) (na nb nc : Int)
    (himg : rj - ri = d + B.lattice na nb nc)
    (hx : |d.x| < B.a.x / 2) (hy : |d.y| < B.b.y / 2) (hz : |d.z| < B.c.z / 2) :
    micTri B ri rj = d := by
  obtain ⟨h1, h2, h3⟩ := hut
  have half : ∀ (t L : Rat), 0 < L → |t| < L / 2 → |t / L| < 1 / 2 := by
    intro t L hL ht
    rw [abs_div, abs_of_pos hL, div_lt_iff₀ hL]; linarith
  have ex : (rj - ri).x = d.x + na * B.a.x + nb * B.b.x + nc * B.c.x := by rw [himg]; simp [Box.lattice]; ring
  have ey : (rj - ri).y = d.y + nb * B.b.y + nc * B.c.y := by rw [himg]; simp [Box.lattice, h1]; ring
  have ez : (rj - ri).z = d.z + nc * B.c.z := by rw [himg]; simp [Box.lattice, h2, h3]
  have e3 : (d.z + nc * B.c.z) / B.c.z = d.z / B.c.z + nc := by field_simp
  have k3 : roundHA ((d.z + nc * B.c.z) / B.c.z) = nc := by
    rw [e3]; exact roundHA_int_add _ _ (half _ _ hcz hz)
  have e2 : (d.y + nb * B.b.y + nc * B.c.y - (nc : Rat) * B.c.y) / B.b.y = d.y / B.b.y + nb := by field_simp; ring
  have k2 : roundHA ((d.y + nb * B.b.y + nc * B.c.y - (nc : Rat) * B.c.y) / B.b.y) = nb := by
    rw [e2]; exact roundHA_int_add _ _ (half _ _ hby hy)
  have e1 : (d.x + na * B.a.x + nb * B.b.x + nc * B.c.x - (nc : Rat) * B.c.x - (nb : Rat) * B.b.x) / B.a.x = d.x / B.a.x + na := by
    field_simp; ring
  have k1 : roundHA ((d.x + na * B.a.x + nb * B.b.x + nc * B.c.x - (nc : Rat) * B.c.x - (nb : Rat) * B.b.x) / B.a.x) = na := by
    rw [e1]; exact roundHA_int_add _ _ (half _ _ hax hx)
  apply V3.ext3 <;> simp only [micTri, sub_x, sub_y, sub_z, smul_x, smul_y, smul_z, ex, ey, ez, k3, k2, k1, h1, h2, h3] <;> ring

/-- a vector shorter than half of `√H`, with `H` at most every squared diagonal element, lies strictly inside every half-slab -/
theorem inside_slabs (d : V3) (ax bY cz H : Rat) (hax : 0 < ax) (hby : 0 < bY) (hcz : 0 < cz)
    (hd : d.normSq < H / 4) (h1 : H ≤ ax ^ 2) (h2 : H ≤ bY ^ 2) (h3 : H ≤ cz ^ 2) :
    |d.x| < ax / 2 ∧ |d.y| < bY / 2 ∧ |d.z| < cz / 2 := by
  simp only [V3.normSq, V3.dot] at hd
  have key : ∀ (t L : Rat), 0 < L → t ^ 2 < L ^ 2 / 4 → |t| < L / 2 := by
    intro t L hL ht
    have h4 : |t| ^ 2 < (L / 2) ^ 2 := by rw [sq_abs]; nlinarith
    exact lt_of_pow_lt_pow_left₀ 2 (by positivity) h4
  refine ⟨key d.x ax hax ?_, key d.y bY hby ?_, key d.z cz hcz ?_⟩
  · nlinarith [sq_nonneg d.y, sq_nonneg d.z, mul_self_nonneg d.x]
  · nlinarith [sq_nonneg d.x, sq_nonneg d.z, mul_self_nonneg d.y]
  · nlinarith [sq_nonneg d.x, sq_nonneg d.y, mul_self_nonneg d.z]

/-- the squared shortest height of an upper-triangular box is at most every squared diagonal element -/
theorem minHeightSq_le_diag (B : Box) (hut : B.a.y = 0 ∧ B.a.z = 0 ∧ B.b.z = 0)
    (hax : 0 < B.a.x) (hby : 0 < B.b.y) (hcz : 0 < B.c.z) :
    minHeightSq B ≤ B.a.x ^ 2 ∧ minHeightSq B ≤ B.b.y ^ 2 ∧ minHeightSq B ≤ B.c.z ^ 2 := by
  obtain ⟨h1, h2, h3⟩ := hut
  have hdet : B.det = B.a.x * B.b.y * B.c.z := by simp [Box.det, V3.dot, V3.cross, h1, h2, h3]; ring
  have pa : (B.det * B.det / (V3.cross B.b B.c).normSq) ≤ B.a.x ^ 2 := by
    have hpos : 0 < (V3.cross B.b B.c).normSq := by
      simp only [V3.normSq, V3.dot, V3.cross, h3]
      have : 0 < (B.b.y * B.c.z) * (B.b.y * B.c.z) := by positivity
      nlinarith [mul_self_nonneg (0 * B.c.x - B.b.x * B.c.z), mul_self_nonneg (B.b.x * B.c.y - B.b.y * B.c.x)]
    rw [div_le_iff₀ hpos, hdet]
    simp only [V3.normSq, V3.dot, V3.cross, h3]
    nlinarith [mul_self_nonneg (B.a.x * (0 * B.c.x - B.b.x * B.c.z)), mul_self_nonneg (B.a.x * (B.b.x * B.c.y - B.b.y * B.c.x))]
  have pb : (B.det * B.det / (V3.cross B.c B.a).normSq) ≤ B.b.y ^ 2 := by
    have hpos : 0 < (V3.cross B.c B.a).normSq := by
      simp only [V3.normSq, V3.dot, V3.cross, h1, h2]
      have : 0 < (B.c.z * B.a.x) * (B.c.z * B.a.x) := by positivity
      nlinarith [mul_self_nonneg (B.c.x * 0 - B.c.y * B.a.x)]
    rw [div_le_iff₀ hpos, hdet]
    simp only [V3.normSq, V3.dot, V3.cross, h1, h2]
    nlinarith [mul_self_nonneg (B.b.y * (B.c.x * 0 - B.c.y * B.a.x))]
  have pc : (B.det * B.det / (V3.cross B.a B.b).normSq) ≤ B.c.z ^ 2 := by
    have hpos : 0 < (V3.cross B.a B.b).normSq := by
      simp only [V3.normSq, V3.dot, V3.cross, h1, h2, h3]
      have : 0 < (B.a.x * B.b.y) * (B.a.x * B.b.y) := by positivity
      nlinarith
    rw [div_le_iff₀ hpos, hdet]
    simp only [V3.normSq, V3.dot, V3.cross, h1, h2, h3]
    nlinarith
  unfold minHeightSq heightsSq
  simp only []
  refine ⟨?_, ?_, ?_⟩ <;> (split <;> split <;> linarith)

/-- **triclinic minimum image.**  For an upper-triangular box with positive diagonal: whenever some periodic image `d` of
    the difference is shorter than half the shortest box height, the reduction returns exactly `d`. -/
theorem tri_minimum_image (B : Box) (hut : B.a.y = 0 ∧ B.a.z = 0 ∧ B.b.z = 0)
    (hax : 0 < B.a.x) (hby : 0 < B.b.y) (hcz : 0 < B.c.z) (ri rj d : V3) (na nb nc : Int)
    (himg : rj - ri = d + B.lattice na nb nc) (hd : d.normSq < minHeightSq B / 4) :
    micTri B ri rj = d := by
  obtain ⟨m1, m2, m3⟩ := minHeightSq_le_diag B hut hax hby hcz
  obtain ⟨sx, sy, sz⟩ := inside_slabs d B.a.x B.b.y B.c.z (minHeightSq B) hax hby hcz hd m1 m2 m3
  exact tri_recovers B hut hax hby hcz ri rj d na nb nc himg sx sy sz

/-- … and that image is strictly shorter than every other periodic image -/
theorem tri_image_unique_shortest (B : Box) (hut : B.a.y = 0 ∧ B.a.z = 0 ∧ B.b.z = 0)
    (hax : 0 < B.a.x) (hby : 0 < B.b.y) (hcz : 0 < B.c.z) (d : V3) (hd : d.normSq < minHeightSq B / 4)
    (m1 m2 m3 : Int) (hm : ¬ (m1 = 0 ∧ m2 = 0 ∧ m3 = 0)) :
    d.normSq < (d + B.lattice m1 m2 m3).normSq := by
  obtain ⟨h1, h2, h3⟩ := hut
  obtain ⟨d1, d2, d3⟩ := minHeightSq_le_diag B ⟨h1, h2, h3⟩ hax hby hcz
  set l := B.lattice m1 m2 m3 with hl
  -- a non-zero lattice vector is at least as long as the shortest height: |l|² ≥ H
  have hH : minHeightSq B ≤ l.normSq := by
    have lx : l.x = m1 * B.a.x + m2 * B.b.x + m3 * B.c.x := by simp [hl, Box.lattice]
    have ly : l.y = m2 * B.b.y + m3 * B.c.y := by simp [hl, Box.lattice, h1]
    have lz : l.z = m3 * B.c.z := by simp [hl, Box.lattice, h2, h3]
    simp only [V3.normSq, V3.dot]
    by_cases c3 : m3 = 0
    · by_cases c2 : m2 = 0
      · have c1 : m1 ≠ 0 := fun c1 => hm ⟨c1, c2, c3⟩
        have : (1 : Rat) ≤ (m1 : Rat) * m1 := by
          have : 1 ≤ m1 * m1 := by nlinarith [Int.one_le_abs c1, abs_mul_abs_self m1, abs_nonneg m1]
          exact_mod_cast this
        rw [lx, ly, lz, c2, c3]; simp only [Int.cast_zero, zero_mul, add_zero]
        nlinarith [mul_self_nonneg B.a.x]
      · have : (1 : Rat) ≤ (m2 : Rat) * m2 := by
          have : 1 ≤ m2 * m2 := by nlinarith [Int.one_le_abs c2, abs_mul_abs_self m2, abs_nonneg m2]
          exact_mod_cast this
        rw [ly, lz, c3]; simp only [Int.cast_zero, zero_mul, add_zero]
        nlinarith [mul_self_nonneg B.b.y, mul_self_nonneg l.x]
    · have : (1 : Rat) ≤ (m3 : Rat) * m3 := by
        have : 1 ≤ m3 * m3 := by nlinarith [Int.one_le_abs c3, abs_mul_abs_self m3, abs_nonneg m3]
        exact_mod_cast this
      rw [lz]
      nlinarith [mul_self_nonneg B.c.z, mul_self_nonneg l.x, mul_self_nonneg l.y]
  -- Cauchy–Schwarz via the Lagrange identity
  have cs : (V3.dot d l) ^ 2 ≤ d.normSq * l.normSq := by
    simp only [V3.normSq, V3.dot]
    nlinarith [mul_self_nonneg (d.x * l.y - d.y * l.x), mul_self_nonneg (d.y * l.z - d.z * l.y), mul_self_nonneg (d.z * l.x - d.x * l.z)]
  have expand : (d + l).normSq = d.normSq + 2 * V3.dot d l + l.normSq := by
    simp only [V3.normSq, V3.dot, add_x, add_y, add_z]; ring
  rw [expand]
  have hlpos : 0 < l.normSq := by
    have : 0 ≤ d.normSq := by simp only [V3.normSq, V3.dot]; nlinarith [mul_self_nonneg d.x, mul_self_nonneg d.y, mul_self_nonneg d.z]
    linarith
  -- (d·l)² ≤ |d|²|l|² < |l|⁴/4  ⇒  2 d·l > -|l|²
  have hq : (V3.dot d l) ^ 2 < (l.normSq / 2) ^ 2 := by
    have : d.normSq * l.normSq < (l.normSq / 4) * l.normSq := by
      apply mul_lt_mul_of_pos_right _ hlpos; linarith
    nlinarith
  have : -(l.normSq / 2) < V3.dot d l := by
    have := abs_lt_of_sq_lt_sq' hq (by positivity)
    exact this.1
  linarith

/-! ## volume and heights -/
theorem volume_is_abs_det (B : Box) : volume B = |B.det| := by
  unfold volume absRat; split
  · rw [abs_of_neg (by assumption)]
  · rw [abs_of_nonneg (by linarith)]

/-! non-vacuity: a reduced triclinic box and a point pair thousands of images away -/
example : reduced ⟨⟨2, 0, 0⟩, ⟨1, 2, 0⟩, ⟨-1, 1, 4⟩⟩ = true := by decide +kernel
example : micTri ⟨⟨2, 0, 0⟩, ⟨1, 2, 0⟩, ⟨-1, 1, 4⟩⟩ ⟨0, 0, 0⟩ (⟨1/4, -1/4, 1/2⟩ + (⟨⟨2, 0, 0⟩, ⟨1, 2, 0⟩, ⟨-1, 1, 4⟩⟩ : Box).lattice 1000 (-2000) 3000)
    = ⟨1/4, -1/4, 1/2⟩ := by decide +kernel

end Votca.C02
