import Votca.Model.C09
import Mathlib.Tactic.Linarith
/-! # C09 — what is proved about the Davidson solver: the status logic, not the numerics

`success` is reported exactly when every requested root passed the residual test at the final iteration; otherwise the
status is `noConvergence` and the roots that failed the test are zeroed, so an unconverged root is never handed out as
converged.  That a converged run returns the LOWEST eigenvalues is not a theorem of the algorithm (Davidson can converge
to interior pairs): the check decides it per run with the exact inertia certificate of `Votca/Model/C09.lean`. -/
namespace Votca.C09

theorem success_iff_all_converged (tol : Rat) (neigen : Nat) (res lam : List Rat) :
    (finish tol neigen res lam).1 = Status.success ↔ ∀ r ∈ res.take neigen, r < tol := by
  unfold finish converged
  by_cases h : ((res.take neigen).all fun x => decide (x < tol)) = true
  · simp only [h, if_true, true_iff]
    intro r hr
    have := List.all_eq_true.mp h r hr
    simpa using this
  · simp only [h]
    constructor
    · intro hc; cases hc
    · intro hall
      exfalso; apply h
      apply List.all_eq_true.mpr
      intro r hr
      simpa using hall r hr

/-- without convergence the status says so -/
theorem noconv_reports (tol : Rat) (neigen : Nat) (res lam : List Rat) (r : Rat) (hr : r ∈ res.take neigen) (hbad : ¬ r < tol) :
    (finish tol neigen res lam).1 = Status.noConvergence := by
  have h : ¬ ∀ r ∈ res.take neigen, r < tol := fun hall => hbad (hall r hr)
  have := (success_iff_all_converged tol neigen res lam).not.mpr h
  cases hs : (finish tol neigen res lam).1
  · exact absurd hs this
  · rfl

/-- and every root whose residual failed the test is returned as zero -/
theorem unconverged_zeroed (tol : Rat) (neigen : Nat) (res lam : List Rat) (h : converged tol neigen res = false)
    (i : Nat) (l r : Rat) (hl : (lam.take neigen)[i]? = some l) (hr : (res.take neigen)[i]? = some r) (hbad : ¬ r < tol) :
    (finish tol neigen res lam).2[i]? = some 0 := by
  unfold finish
  simp only [h, Bool.false_eq_true, if_false]
  have hz : ((lam.take neigen).zip (res.take neigen))[i]? = some (l, r) := List.getElem?_zip_eq_some.mpr ⟨hl, hr⟩
  simp [List.getElem?_map, hz, hbad]

/-- converged roots keep their Ritz value -/
theorem converged_kept (tol : Rat) (neigen : Nat) (res lam : List Rat) (h : converged tol neigen res = false)
    (i : Nat) (l r : Rat) (hl : (lam.take neigen)[i]? = some l) (hr : (res.take neigen)[i]? = some r) (hok : r < tol) :
    (finish tol neigen res lam).2[i]? = some l := by
  unfold finish
  simp only [h, Bool.false_eq_true, if_false]
  have hz : ((lam.take neigen).zip (res.take neigen))[i]? = some (l, r) := List.getElem?_zip_eq_some.mpr ⟨hl, hr⟩
  simp [List.getElem?_map, hz, hok]

/-- the certificate on a diagonal matrix counts the diagonal entries below the shift (sanity of the elimination) -/
example : countBelow [[1, 0, 0], [0, 3, 0], [0, 0, 5]] 4 = some 2 ∧ countBelow [[2, 1], [1, 2]] (5 / 2) = some 1 ∧ countBelow [[2, 1], [1, 2]] 0 = some 0 := by
  decide +kernel

end Votca.C09
