import Votca.Model.C09
import Mathlib.Tactic.Linarith
import Mathlib.Analysis.InnerProductSpace.Spectrum
import Mathlib.Analysis.InnerProductSpace.PiL2
import Mathlib.Analysis.Matrix.Spectrum
/-! # C09 — what is proved about the Davidson solver: the status logic, not the numerics

`success` is reported exactly when every requested root passed the residual test at the final iteration; otherwise the
status is `noConvergence` and the roots that failed the test are zeroed, so an unconverged root is never handed out as
converged.  That a converged run returns the LOWEST eigenvalues is not a theorem of the algorithm (Davidson can converge
to interior pairs): the check decides it per run with the exact inertia certificate of `Votca/Model/C09.lean`. -/
namespace Votca.C09

theorem success_iff_all_converged (tol : Rat) (neigen : Nat) (res lam : List Rat) :
    (finish tol neigen res lam).1 = Status.success ↔ ∀ r ∈ res.take neigen, r < tol := by
  unfold finish converged
  by_cases h : ((res.take neigen).all fun x => decide (x < tol)) = true
  · simp only [h, if_true, true_iff]
    intro r hr
    have := List.all_eq_true.mp h r hr
    simpa using this
  · simp only [h]
    constructor
    · intro hc; cases hc
    · intro hall
      exfalso; apply h
      apply List.all_eq_true.mpr
      intro r hr
      simpa using hall r hr

/-- without convergence the status says so -/
theorem noconv_reports (tol : Rat) (neigen : Nat) (res lam : List Rat) (r : Rat) (hr : r ∈ res.take neigen) (hbad : ¬ r < tol) :
    (finish tol neigen res lam).1 = Status.noConvergence := by
  have h : ¬ ∀ r ∈ res.take neigen, r < tol := fun hall => hbad (hall r hr)
  have := (success_iff_all_converged tol neigen res lam).not.mpr h
  cases hs : (finish tol neigen res lam).1
  · exact absurd hs this
  · rfl

/-- and every root whose residual failed the test is returned as zero -/
theorem unconverged_zeroed (tol : Rat) (neigen : Nat) (res lam : List Rat) (h : converged tol neigen res = false)
    (i : Nat) (l r : Rat) (hl : (lam.take neigen)[i]? = some l) (hr : (res.take neigen)[i]? = some r) (hbad : ¬ r < tol) :
    (finish tol neigen res lam).2[i]? = some 0 := by
  unfold finish
  simp only [h, Bool.false_eq_true, if_false]
  have hz : ((lam.take neigen).zip (res.take neigen))[i]? = some (l, r) := List.getElem?_zip_eq_some.mpr ⟨hl, hr⟩
  simp [List.getElem?_map, hz, hbad]

/-- converged roots keep their Ritz value -/
theorem converged_kept (tol : Rat) (neigen : Nat) (res lam : List Rat) (h : converged tol neigen res = false)
    (i : Nat) (l r : Rat) (hl : (lam.take neigen)[i]? = some l) (hr : (res.take neigen)[i]? = some r) (hok : r < tol) :
    (finish tol neigen res lam).2[i]? = some l := by
  unfold finish
  simp only [h, Bool.false_eq_true, if_false]
  have hz : ((lam.take neigen).zip (res.take neigen))[i]? = some (l, r) := List.getElem?_zip_eq_some.mpr ⟨hl, hr⟩
  simp [List.getElem?_map, hz, hok]

/-- the certificate on a diagonal matrix counts the diagonal entries below the shift (sanity of the elimination) -/
example : countBelow [[1, 0, 0], [0, 3, 0], [0, 0, 5]] 4 = some 2 ∧ countBelow [[2, 1], [1, 2]] (5 / 2) = some 1 ∧ countBelow [[2, 1], [1, 2]] 0 = some 0 := by
  decide +kernel

/-! ## why the residual test pins down eigenvalues

The certificates of the check (and the solver's own convergence test) are residuals.  Over the reals, for a symmetric operator, a small
residual of a unit vector encloses an eigenvalue: this is the link between what is computed per run and the spectrum the property
speaks about.  (That the enclosed eigenvalues are the LOWEST ones is decided per run by the inertia count — Sylvester's law is
assumed, not proved, see DESIGN.md.) -/

open scoped RealInnerProductSpace
open Module

variable {E : Type*} [NormedAddCommGroup E] [InnerProductSpace ℝ E] [FiniteDimensional ℝ E]

/-- **residual enclosure**: if a unit vector `v` has residual `‖T v - θ v‖ ≤ ε` for a symmetric operator `T`, then some eigenvalue of
    `T` lies within `ε` of `θ` — the reason why the residual test of the solver (and of the certificates) pins down eigenvalues -/
theorem residual_enclosure {n : ℕ} (T : E →ₗ[ℝ] E) (hT : T.IsSymmetric) (hn : finrank ℝ E = n) (v : E) (hv : ‖v‖ = 1)
    (θ ε : ℝ) (h : ‖T v - θ • v‖ ≤ ε) : ∃ i, |hT.eigenvalues hn i - θ| ≤ ε := by
  by_contra hcon
  push Not at hcon
  have hε : 0 ≤ ε := le_trans (norm_nonneg _) h
  let b := hT.eigenvectorBasis hn
  have hcoef : ∀ i, ⟪b i, T v - θ • v⟫ = (hT.eigenvalues hn i - θ) * ⟪b i, v⟫ := by
    intro i
    rw [inner_sub_right, inner_smul_right, ← hT (b i) v, hT.apply_eigenvectorBasis hn i]
    rw [inner_smul_left]
    simp
    ring
  have h1 : ∑ i, ⟪b i, T v - θ • v⟫ ^ 2 = ‖T v - θ • v‖ ^ 2 := b.sum_sq_inner_right _
  have h2 : ∑ i, ⟪b i, v⟫ ^ 2 = 1 := by rw [b.sum_sq_inner_right, hv]; norm_num
  have hex : ∃ i, ⟪b i, v⟫ ≠ 0 := by
    by_contra hall
    push Not at hall
    simp [hall] at h2
  have hlt : ∑ i, ε ^ 2 * ⟪b i, v⟫ ^ 2 < ∑ i, ⟪b i, T v - θ • v⟫ ^ 2 := by
    apply Finset.sum_lt_sum
    · intro i _
      rw [hcoef i, mul_pow]
      apply mul_le_mul_of_nonneg_right _ (sq_nonneg _)
      have := hcon i
      calc ε ^ 2 ≤ |hT.eigenvalues hn i - θ| ^ 2 := by apply pow_le_pow_left₀ hε this.le
        _ = (hT.eigenvalues hn i - θ) ^ 2 := sq_abs _
    · obtain ⟨i, hi⟩ := hex
      refine ⟨i, Finset.mem_univ i, ?_⟩
      rw [hcoef i, mul_pow]
      apply mul_lt_mul_of_pos_right _ (by positivity)
      have := hcon i
      calc ε ^ 2 < |hT.eigenvalues hn i - θ| ^ 2 := by apply pow_lt_pow_left₀ this hε (by norm_num)
        _ = (hT.eigenvalues hn i - θ) ^ 2 := sq_abs _
  rw [← Finset.mul_sum, h2, mul_one, h1] at hlt
  have : ‖T v - θ • v‖ ^ 2 ≤ ε ^ 2 := pow_le_pow_left₀ (norm_nonneg _) h 2
  linarith

/-- the same for a real symmetric matrix acting on Euclidean space: the eigenvalues are Mathlib's `Matrix.IsHermitian.eigenvalues₀` -/
theorem matrix_residual_enclosure {n : Type} [Fintype n] [DecidableEq n] (A : Matrix n n ℝ) (hA : A.IsHermitian)
    (v : EuclideanSpace ℝ n) (hv : ‖v‖ = 1) (θ ε : ℝ) (h : ‖Matrix.toEuclideanLin A v - θ • v‖ ≤ ε) :
    ∃ i, |hA.eigenvalues₀ i - θ| ≤ ε :=
  residual_enclosure (Matrix.toEuclideanLin A) (Matrix.isSymmetric_toEuclideanLin_iff.mpr hA) finrank_euclideanSpace v hv θ ε h

end Votca.C09
