import Votca.Model.C17
import Votca.Lemmas.C17
import Mathlib.Tactic.Ring
import Mathlib.Tactic.Linarith
/-! # C17 — property theorems: the checkpoint store returns exactly what was stored

About the store model `Votca/Model/C17.lean`, which the check runs against the real CheckpointFile on generated
operation sequences (bit-identical comparison of every value read through a fresh handle). -/
namespace Votca.C17

/-- reading a name right after writing it returns the value written -/
theorem read_after_write (s : Store) (k : Key) (o : Obj) : (s.write k o).read k o.kind = some o := by
  simp [Store.write, Store.read, List.find?]

/-- writing a name again replaces the old value: only the last write is visible, whatever kind and shape came before -/
theorem overwrite_replaces (s : Store) (k : Key) (o1 o2 : Obj) : (s.write k o1).write k o2 = s.write k o2 := by
  simp only [Store.write, List.filter_cons, bne_self_eq_false, Bool.false_eq_true, if_false, List.filter_filter]
  congr 1
  apply List.filter_congr
  intro e _
  simp

/-- writing one name does not disturb another -/
theorem write_other (s : Store) (k k' : Key) (o : Obj) (kind : String) (h : k' ≠ k) :
    (s.write k o).read k' kind = s.read k' kind := by
  have hne : (k == k') = false := by simpa using fun heq => h heq.symm
  simp only [Store.write, Store.read, List.find?_cons, hne]
  congr 1
  induction s with
  | nil => rfl
  | cons e rest ih =>
    by_cases hk : e.1 = k
    · have h1 : (e.1 != k) = false := by simp [hk]
      have h2 : (e.1 == k') = false := by simp [hk, Ne.symm h]
      simp [List.filter_cons, h1, List.find?_cons, h2, ih]
    · have h1 : (e.1 != k) = true := by simp [hk]
      simp only [List.filter_cons, h1, if_true, List.find?_cons]
      split <;> simp_all

/-- a name that was never written is an error -/
theorem missing_is_error (k : Key) (kind : String) : Store.read ([] : Store) k kind = none := rfl

theorem missing_is_error_general (s : Store) (k : Key) (kind : String) (h : ∀ e ∈ s, e.1 ≠ k) : s.read k kind = none := by
  have : s.find? (fun e => e.1 == k) = none := by
    apply List.find?_eq_none.mpr
    intro e he
    simpa using h e he
  simp [Store.read, this]

/-- a read-only file cannot be modified -/
theorem readonly_rejects_writer (s : Store) (k : Key) (o : Obj) : step s (.write 0 k o) = (s, .err) := rfl

/-- reads never change the store -/
theorem read_pure (s : Store) (k : Key) (kind : String) : (step s (.read k kind)).1 = s := by
  simp only [step]; split <;> rfl

/-! ## matrix layout: the row-by-row hyperslab copy is a bijection between the memory rectangle and the file -/

theorem memIdx_inj (ld : Nat) (r c r' c' : Nat) (hr : r < ld) (hr' : r' < ld)
    (h : memIdx ld r c = memIdx ld r' c') : r = r' ∧ c = c' := by
  unfold memIdx at h
  have h1 : (r + c * ld) % ld = (r' + c' * ld) % ld := by rw [h]
  simp [Nat.add_mul_mod_self_right, Nat.mod_eq_of_lt hr, Nat.mod_eq_of_lt hr'] at h1
  subst h1
  have : c * ld = c' * ld := by omega
  exact ⟨rfl, Nat.eq_of_mul_eq_mul_right (by omega) this⟩

theorem fileIdx_inj (cols : Nat) (r c r' c' : Nat) (hc : c < cols) (hc' : c' < cols)
    (h : fileIdx cols r c = fileIdx cols r' c') : r = r' ∧ c = c' := by
  unfold fileIdx at h
  have h1 : (r * cols + c) % cols = (r' * cols + c') % cols := by rw [h]
  simp [Nat.mul_add_mod_self_right, Nat.mod_eq_of_lt hc, Nat.mod_eq_of_lt hc'] at h1
  subst h1
  have : r * cols = r' * cols := by omega
  exact ⟨Nat.eq_of_mul_eq_mul_right (by omega) this, rfl⟩

/-- write then read returns every element of the matrix, for every shape with at least one column and any leading
dimension -/
theorem hyperslab_roundtrip (rows cols ld : Nat) (mem : Nat → Rat) (r c : Nat) (hc : c < cols) :
    readMatrix rows cols ld (writeMatrix rows cols ld mem) r c = mem (memIdx ld r c) := by
  unfold readMatrix writeMatrix fileIdx
  have h1 : (r * cols + c) / cols = r := by
    rw [Nat.add_comm, Nat.add_mul_div_right _ _ (by omega : 0 < cols), Nat.div_eq_of_lt hc, Nat.zero_add]
  have h2 : (r * cols + c) % cols = c := by
    rw [Nat.add_comm, Nat.add_mul_mod_self_right, Nat.mod_eq_of_lt hc]
  rw [h1, h2]

/-! ## whole histories: the store refines a plain map -/

/-- **C17 (full strength, every history).**  For every operation sequence — writes of any kind and shape under any group path
    through read-write or read-only handles, reads of present, missing and differently typed names, in any order — the outputs
    of the store (association list with replace-on-write, as the HDF5 file is used) are those of a plain partial map
    `(path, name) ↦ value`: one refinement theorem from which the step-level statements above follow for every reachable state. -/
theorem run_refines (s : Store) (ops : List Op) : run s ops = Spec.run (absS s) ops := run_refines_lem ops s

/-- after any history a name holds the LAST value successfully written under it (whatever was there before, whatever kind or
    shape the earlier values had, however many other names were written in between), and what the file held at the start if the
    history never wrote it; writes attempted through a read-only handle leave no trace -/
theorem name_holds_last_write (s : Store) (ops : List Op) (k : Key) :
    absS (final s ops) k = visible s ops k ∧
    (∀ o, lastWrite k ops = some o → visible s ops k = some o) ∧ (lastWrite k ops = none → visible s ops k = absS s k) :=
  ⟨final_abs ops s k, fun o h => by simp [visible, h], fun h => by simp [visible, h]⟩

/-- hence a read after any history: the value of the last write when its kind is the one asked for, an error otherwise —
    in particular an error for a name no write of the history (and nothing before it) ever stored -/
theorem read_after_history (s : Store) (ops : List Op) (k : Key) (kind : String) :
    (final s ops).read k kind = ofKind kind (visible s ops k) := by
  rw [read_eq_abs, final_abs]

theorem never_written_is_error (ops : List Op) (k : Key) (kind : String) (h : lastWrite k ops = none) :
    (final [] ops).read k kind = none := by
  rw [read_after_history]; simp [visible, h, absS, ofKind]

/-- invariant over every reachable state: the file never holds two objects under one name -/
theorem one_object_per_name (ops : List Op) : KeysNodup (final [] ops) :=
  final_keysNodup ops [] (by simp [KeysNodup])

example : lastWrite ("/g", "a") [.write 1 ("/g", "a") (.int 3), .write 0 ("/g", "a") (.int 9), .write 1 ("/g", "b") (.int 4)] = some (.int 3) := by decide

example : run [] [.write 1 ("/", "a") (.int 3), .write 1 ("/", "a") (.mat 1 2 [1, 2]), .read ("/", "a") "m", .read ("/", "b") "i", .write 0 ("/", "a") (.int 1)]
    = [.ok, .ok, .val (.mat 1 2 [1, 2]), .err, .err] := by decide

end Votca.C17
