import Votca.Model.C12
import Votca.Model.C12R
import Mathlib.Tactic.Ring
import Mathlib.Tactic.FieldSimp
import Mathlib.Tactic.Linarith
import Mathlib.Tactic.LinearCombination
import Mathlib.Algebra.Order.Field.Basic
/-! # C12 — tables and splines interpolate, fit and resample faithfully

The cubic basis functions are GENERATED from cubicspline.cc on every run (`Votca/Gen/CubicBasis.lean`); all statements are exact
identities over ℚ (any grid with distinct knots, any ordinates, any second-derivative vector).  Eigen's QR solve is external: the
theorems speak about ANY `f2` through its residual, and the check evaluates that residual exactly on the implementation's `f2`. -/
namespace Votca.C12
open Votca.Gen.Cubic

/-! ## cubic spline: values at the knots, continuity -/

/-- on `[x0, x1]` the piece takes the ordinates at both ends, whatever the second derivatives are -/
theorem cubic_piece_ends (x0 x1 f0 f1 s0 s1 : Rat) (h : x1 - x0 ≠ 0) :
    A x0 x1 x0 * f0 + B x0 x1 x0 * f1 + C x0 x1 x0 * s0 + D x0 x1 x0 * s1 = f0 ∧
    A x0 x1 x1 * f0 + B x0 x1 x1 * f1 + C x0 x1 x1 * s0 + D x0 x1 x1 * s1 = f1 := by
  constructor
  · simp only [A, B, C, D]; field_simp; ring
  · simp only [A, B, C, D]; field_simp; ring

/-- **interpolation and continuity.**  The piece left of a knot and the piece right of it both take the data value there -/
theorem cubic_continuous_at_knot (xs fs f2 : List Rat) (i : Nat)
    (h1 : nth xs (i + 1) - nth xs i ≠ 0) (h2 : nth xs (i + 1 + 1) - nth xs (i + 1) ≠ 0) :
    cubicCalcAt xs fs f2 i (nth xs (i + 1)) = nth fs (i + 1) ∧ cubicCalcAt xs fs f2 (i + 1) (nth xs (i + 1)) = nth fs (i + 1) := by
  unfold cubicCalcAt
  exact ⟨(cubic_piece_ends _ _ _ _ _ _ h1).2, (cubic_piece_ends _ _ _ _ _ _ h2).1⟩

/-! ## the reported derivative is the derivative of the reported value (exact Taylor identities) -/

/-- for each basis function `f(r + e) − f(r) − e·f'(r) = e²·q(r, e)` with an explicit polynomial `q`:
    `CalculateDerivative` is the derivative of `Calculate` on every interval -/
theorem basis_taylor (x0 x1 r e : Rat) (h : x1 - x0 ≠ 0) :
    A x0 x1 (r + e) - A x0 x1 r - e * Aprime x0 x1 r = 0 ∧
    B x0 x1 (r + e) - B x0 x1 r - e * Bprime x0 x1 r = 0 ∧
    C x0 x1 (r + e) - C x0 x1 r - e * Cprime x0 x1 r = e ^ 2 * (1 / 2 - (3 * (r - x0) + e) / (6 * (x1 - x0))) ∧
    D x0 x1 (r + e) - D x0 x1 r - e * Dprime x0 x1 r = e ^ 2 * ((3 * (r - x0) + e) / (6 * (x1 - x0))) := by
  refine ⟨?_, ?_, ?_, ?_⟩ <;> simp only [A, B, C, D, Aprime, Bprime, Cprime, Dprime] <;> field_simp <;> ring

theorem cubic_deriv_is_derivative (xs fs f2 : List Rat) (i : Nat) (r e : Rat) (h : nth xs (i + 1) - nth xs i ≠ 0) :
    cubicCalcAt xs fs f2 i (r + e) - cubicCalcAt xs fs f2 i r - e * cubicDerivAt xs fs f2 i r =
      e ^ 2 * ((1 / 2 - (3 * (r - nth xs i) + e) / (6 * (nth xs (i + 1) - nth xs i))) * nth f2 i +
               ((3 * (r - nth xs i) + e) / (6 * (nth xs (i + 1) - nth xs i))) * nth f2 (i + 1)) := by
  obtain ⟨ha, hb, hc, hd⟩ := basis_taylor (nth xs i) (nth xs (i + 1)) r e h
  unfold cubicCalcAt cubicDerivAt
  simp only []
  linear_combination nth fs i * ha + nth fs (i + 1) * hb + nth f2 i * hc + nth f2 (i + 1) * hd

/-! ## first-derivative continuity = the linear system of `Interpolate` -/

/-- **C¹.**  The jump of the first derivative at knot `x_{i+1}` (left piece minus right piece) is exactly the residual of row
    `i + 1` of the system `Interpolate` solves: any `f2` that solves the system gives a continuously differentiable spline. -/
theorem deriv_jump_eq_residual (xs fs f2 : List Rat) (i : Nat)
    (h1 : nth xs (i + 1) - nth xs i ≠ 0) (h2 : nth xs (i + 2) - nth xs (i + 1) ≠ 0) :
    cubicDerivAt xs fs f2 i (nth xs (i + 1)) - cubicDerivAt xs fs f2 (i + 1) (nth xs (i + 1)) = rowResidual xs fs f2 i := by
  unfold cubicDerivAt rowResidual
  simp only [Aprime, Bprime, Cprime, Dprime, A_prime_l, A_prime_r, B_prime_l, B_prime_r, C_prime_l, C_prime_r, D_prime_l, D_prime_r]
  have e : i + 1 + 1 = i + 2 := rfl
  rw [e]
  field_simp
  ring

/-- natural boundaries: the boundary rows are `f2_0 = 0`, `f2_{N-1} = 0` (zero end curvature) -/
theorem natural_end_curvature (xs fs f2 : List Rat) (h : boundaryResiduals false xs fs f2 = (0, 0)) :
    nth f2 0 = 0 ∧ nth f2 (xs.length - 1) = 0 := by
  simp only [boundaryResiduals, Bool.false_eq_true, if_false, Prod.mk.injEq] at h
  exact h

/-- **periodic boundaries.**  The two boundary rows say: equal curvature at both ends, and equal slope at both ends
    (the derivative of the last piece at `x_{N-1}` equals the derivative of the first piece at `x_0`) -/
theorem periodic_ends (xs fs f2 : List Rat) (hn : 2 ≤ xs.length)
    (h0 : nth xs 1 - nth xs 0 ≠ 0) (hl : nth xs (xs.length - 1) - nth xs (xs.length - 2) ≠ 0)
    (h : boundaryResiduals true xs fs f2 = (0, 0)) :
    nth f2 0 = nth f2 (xs.length - 1) ∧
    cubicDerivAt xs fs f2 (xs.length - 2) (nth xs (xs.length - 1)) = cubicDerivAt xs fs f2 0 (nth xs 0) := by
  simp only [boundaryResiduals, if_true, Prod.mk.injEq] at h
  obtain ⟨hc, hs⟩ := h
  refine ⟨by linarith, ?_⟩
  have e1 : xs.length - 2 + 1 = xs.length - 1 := by omega
  unfold cubicDerivAt
  simp only [e1, Aprime, Bprime, Cprime, Dprime, zero_add]
  simp only [A_prime_l, B_prime_l, C_prime_l, D_prime_l] at hs
  have hs' := hs
  field_simp at hs' ⊢
  linarith

/-- **derivative-zero boundaries** (`splineDerivativeZero`, the rows `C06F.clampedF2` solves and the fit leg of the check uses): when
    the two end rows hold, the first piece has zero slope at the first knot and the last piece zero slope at the last knot -/
theorem clamped_rows_zero_slope (xs fs f2 : List Rat) (hn : 2 ≤ xs.length)
    (h0 : nth xs 1 - nth xs 0 ≠ 0) (hl : nth xs (xs.length - 1) - nth xs (xs.length - 2) ≠ 0)
    (r0 : (nth xs 1 - nth xs 0) / 3 * nth f2 0 + (nth xs 1 - nth xs 0) / 6 * nth f2 1 = (nth fs 1 - nth fs 0) / (nth xs 1 - nth xs 0))
    (rn : (nth xs (xs.length - 1) - nth xs (xs.length - 2)) / 6 * nth f2 (xs.length - 2) +
          (nth xs (xs.length - 1) - nth xs (xs.length - 2)) / 3 * nth f2 (xs.length - 1) =
          -((nth fs (xs.length - 1) - nth fs (xs.length - 2)) / (nth xs (xs.length - 1) - nth xs (xs.length - 2)))) :
    cubicDerivAt xs fs f2 0 (nth xs 0) = 0 ∧ cubicDerivAt xs fs f2 (xs.length - 2) (nth xs (xs.length - 1)) = 0 := by
  have e1 : xs.length - 2 + 1 = xs.length - 1 := by omega
  constructor
  · unfold cubicDerivAt
    simp only [Aprime, Bprime, Cprime, Dprime, zero_add]
    have r0' := r0
    field_simp at r0' ⊢
    linarith
  · unfold cubicDerivAt
    simp only [e1, Aprime, Bprime, Cprime, Dprime]
    have rn' := rn
    field_simp at rn' ⊢
    linarith

/-- **straight lines.**  For affine data `f2 = 0` solves every interior row, and with `f2 = 0` the spline is that line on every
    piece — also outside the grid, where `getInterval` clamps to the first / last piece -/
theorem line_row_residual (x0 x1 x2 a b : Rat) (h1 : x1 - x0 ≠ 0) (h2 : x2 - x1 ≠ 0) :
    A_prime_l x0 x1 x2 * (a * x0 + b) + (B_prime_l x0 x1 x2 - A_prime_r x0 x1 x2) * (a * x1 + b) - B_prime_r x0 x1 x2 * (a * x2 + b) = 0 := by
  simp only [A_prime_l, A_prime_r, B_prime_l, B_prime_r]; field_simp; ring

theorem line_exact (x0 x1 a b r : Rat) (h : x1 - x0 ≠ 0) :
    A x0 x1 r * (a * x0 + b) + B x0 x1 r * (a * x1 + b) + C x0 x1 r * 0 + D x0 x1 r * 0 = a * r + b := by
  simp only [A, B]; field_simp; ring

/-- **linear in the ordinates.**  Values (and residuals) are linear in `(f, f2)`: sums of solutions are solutions of the sum -/
theorem cubic_superposition (x0 x1 r f0 f1 s0 s1 g0 g1 t0 t1 : Rat) :
    A x0 x1 r * (f0 + g0) + B x0 x1 r * (f1 + g1) + C x0 x1 r * (s0 + t0) + D x0 x1 r * (s1 + t1) =
      (A x0 x1 r * f0 + B x0 x1 r * f1 + C x0 x1 r * s0 + D x0 x1 r * s1) +
      (A x0 x1 r * g0 + B x0 x1 r * g1 + C x0 x1 r * t0 + D x0 x1 r * t1) := by ring

/-! ## linear spline -/

theorem lin_at_knots (xs ys : List Rat) (i : Nat) (h : nth xs (i + 1) - nth xs i ≠ 0) :
    linA xs ys i * nth xs i + linB xs ys i = nth ys i ∧ linA xs ys i * nth xs (i + 1) + linB xs ys i = nth ys (i + 1) := by
  unfold linB linA
  constructor
  · ring
  · field_simp; ring

/-- between two knots the linear spline is the chord, and it is linear in the ordinates -/
theorem lin_chord (xs ys : List Rat) (i : Nat) (r : Rat) (h : nth xs (i + 1) - nth xs i ≠ 0) :
    linA xs ys i * r + linB xs ys i = nth ys i + (nth ys (i + 1) - nth ys i) * (r - nth xs i) / (nth xs (i + 1) - nth xs i) := by
  unfold linB linA; field_simp; ring

/-! ## Akima spline: every piece takes the knot values and slopes at both ends (so neighbouring pieces join C¹) -/

theorem akima_piece_ends (h y0 y1 t0 t1 : Rat) (hh : h ≠ 0) :
    akimaPiece h y0 y1 t0 t1 0 = y0 ∧ akimaPiece h y0 y1 t0 t1 h = y1 ∧
    akimaPieceDeriv h y0 y1 t0 t1 0 = t0 ∧ akimaPieceDeriv h y0 y1 t0 t1 h = t1 := by
  refine ⟨?_, ?_, ?_, ?_⟩ <;> simp only [akimaPiece, akimaPieceDeriv, akimaP2, akimaP3] <;> field_simp <;> ring

/-- straight-line data with the line's slope at both ends is reproduced exactly, everywhere -/
theorem akima_line (h a b z : Rat) (hh : h ≠ 0) : akimaPiece h b (a * h + b) a a z = a * z + b := by
  simp only [akimaPiece, akimaP2, akimaP3]; field_simp; ring

/-- the Akima slope of collinear neighbours is the common slope -/
theorem getSlope_line (m : Rat) : getSlope m m m m = m := by
  simp [getSlope]

theorem akima_deriv_is_derivative (h y0 y1 t0 t1 z e : Rat) :
    akimaPiece h y0 y1 t0 t1 (z + e) - akimaPiece h y0 y1 t0 t1 z - e * akimaPieceDeriv h y0 y1 t0 t1 z =
      e ^ 2 * (akimaP2 h y0 y1 t0 t1 + akimaP3 h y0 y1 t0 t1 * (3 * z + e)) := by
  simp only [akimaPiece, akimaPieceDeriv]; ring

/-! ## Table::Smooth -/

theorem smoothOnce_length (ys : List Rat) : (smoothOnce ys).length = ys.length := by
  unfold smoothOnce; split <;> simp

/-- smoothing keeps both end points -/
theorem smoothOnce_ends (ys : List Rat) (h : 3 ≤ ys.length) :
    nth (smoothOnce ys) 0 = nth ys 0 ∧ nth (smoothOnce ys) (ys.length - 1) = nth ys (ys.length - 1) := by
  have h3 : ¬ ys.length < 3 := by omega
  unfold smoothOnce nth
  simp only [h3, if_false]
  constructor
  · rw [List.getD_eq_getElem?_getD, List.getElem?_map, List.getElem?_range (by omega)]
    simp
  · rw [List.getD_eq_getElem?_getD, List.getElem?_map, List.getElem?_range (by omega)]
    have : ys.length - 1 + 1 = ys.length := by omega
    simp [this]

/-- a straight line is a fixed point of the three-point average `(y₋ + 2y + y₊)/4` -/
theorem smooth_line_fixed (a b x h : Rat) : ((a * (x - h) + b) + 2 * (a * x + b) + (a * (x + h) + b)) / 4 = a * x + b := by ring

/-! non-vacuity -/
example : cubicCalcAt [0, 1, 3] [2, 5, 1] [0, -4, 0] 0 1 = 5 ∧ cubicCalcAt [0, 1, 3] [2, 5, 1] [0, -4, 0] 1 1 = 5 := by decide +kernel
example : smooth 2 [0, 4, 0, 4, 0] = [0, 3/2, 2, 3/2, 0] := by decide +kernel

/-! ## csg_resample: flags of the output table -/

open Votca.C12R in
/-- an output point that is an input abscissa takes that point's flag (abscissae increasing by more than the 1e-12 slack) -/
theorem Votca.C12R.outFlags_at_input_point (pre post : List (Rat × Char)) (x : Rat) (f : Char)
    (hpre : ∀ e ∈ pre, e.1 < x - 1 / 1000000000000) :
    Votca.C12R.outFlags ((pre ++ (x, f) :: post).map (·.1)) ((pre ++ (x, f) :: post).map (·.2)) [x] = [f] := by
  have hzip : ((pre ++ (x, f) :: post).map (·.1)).zip ((pre ++ (x, f) :: post).map (·.2)) = pre ++ (x, f) :: post := by
    induction (pre ++ (x, f) :: post) with
    | nil => rfl
    | cons a l ih => simp [ih]
  have hfirst : ¬ (x < nth ((pre ++ (x, f) :: post).map (·.1)) 0 - 1 / 1000000000000) := by
    cases pre with
    | nil => simp [nth]
    | cons e rest =>
      have := hpre e (by simp)
      simp [nth]
      linarith
  have hnone : pre.find? (fun (xi, _) => decide (xi ≥ x) || decide (absRat (xi - x) < 1 / 1000000000000)) = none := by
    apply List.find?_eq_none.mpr
    intro e he
    have := hpre e he
    have h1 : ¬ e.1 ≥ x := by intro h; linarith
    have h2 : ¬ absRat (e.1 - x) < 1 / 1000000000000 := by
      unfold absRat
      split <;> intro h <;> linarith
    have h2' : ¬ absRat (e.1 - x) < 1000000000000⁻¹ := by simpa using h2
    simp [h1, h2']
  simp only [Votca.C12R.outFlags, List.map_cons, List.map_nil, hzip, if_neg hfirst]
  rw [List.find?_append, hnone]
  simp


end Votca.C12

theorem Votca.C12R.getD_map_range (f : Nat → Rat) (n i : Nat) (h : i < n) : ((List.range n).map f).getD i 0 = f i := by
  simp [List.getD_eq_getElem?_getD, h]

open Votca.C12R Votca.C12 in
/-- **periodic Akima boundaries: the two ends carry the same slope** (they are one point of the periodic function; with `y(N-1) = y(0)`
    value and slope join) — about the slopes `AkimaSpline::Interpolate` assigns in periodic mode (model `akimaSlopes true`) -/
theorem Votca.C12R.akima_periodic_end_slopes_equal (xs ys : List Rat) (h : 4 ≤ xs.length) :
    nth (akimaSlopes true xs ys) 0 = nth (akimaSlopes true xs ys) (xs.length - 1) := by
  unfold akimaSlopes
  simp only [if_true]
  unfold nth
  rw [getD_map_range _ _ _ (by omega : 0 < xs.length), getD_map_range _ _ _ (by omega : xs.length - 1 < xs.length)]
  have e1 : ((xs.length - 1 == 0) = false) := by simp; omega
  have e2 : ((xs.length - 1 == 1) = false) := by simp; omega
  have e3 : ((xs.length - 1 + 2 == xs.length) = false) := by simp; omega
  have e4 : ((xs.length - 1 + 1 == xs.length) = true) := by simp; omega
  simp [e1, e2, e3, e4]

/-! non-vacuity / a concrete instance: five points of a periodic data set -/
example : Votca.C12.nth (Votca.C12R.akimaSlopes true [0, 1, 2, 3, 4] [1, 3, 0, 2, 1]) 0 = Votca.C12.nth (Votca.C12R.akimaSlopes true [0, 1, 2, 3, 4] [1, 3, 0, 2, 1]) 4 := by
  decide +kernel
