import Votca.Model.C19
import Mathlib.Tactic.Ring
import Mathlib.Tactic.Linarith
import Mathlib.Tactic.FieldSimp
import Mathlib.Algebra.Order.Field.Basic
/-! # C19 — property theorems: the table scripts implement their point-wise formulas

About the list models of `Votca/Model/C19.lean`, which the check runs against the real Perl scripts on generated tables.
`lw` stands for `log(g_cur/g_tgt)` (resp. `log(P/norm)`): the theorems hold whatever value it has; where the statement
needs a property of the logarithm (`log 1 = 0`) it is a hypothesis. -/
namespace Votca.C19

/-- a valid point (both RDFs above 1e-10, potential not flagged `u`) gets `dU = kT·log(g_cur/g_tgt)` and the flag `i`,
whatever value is being carried -/
theorem ibi_pointwise (kT v : Rat) (p : IbiIn) (hv : ibiValid p = true) (hu : p.potFlag ≠ 'u') :
    ibiStep kT v p = (p.lw * kT, 'i', p.lw * kT) := by
  have : (p.potFlag == 'u') = false := by simpa using hu
  simp [ibiStep, hv, this]

/-- hence exactly zero where the two distributions coincide -/
theorem ibi_zero_when_equal (kT v : Rat) (p : IbiIn) (hv : ibiValid p = true) (hu : p.potFlag ≠ 'u') (hlog : p.lw = 0) :
    (ibiStep kT v p).1 = 0 := by
  rw [ibi_pointwise kT v p hv hu, hlog]; ring

/-- everywhere else the carried value continues with the flag `o` -/
theorem ibi_carry_flag_o (kT v : Rat) (p : IbiIn) (h : ibiValid p = false ∨ p.potFlag = 'u') :
    ibiStep kT v p = (v, 'o', v) := by
  rcases h with h | h
  · by_cases hu : p.potFlag = 'u'
    · simp [ibiStep, h, hu]
    · have : (p.potFlag == 'u') = false := by simpa using hu
      simp [ibiStep, h, this]
  · by_cases hv : ibiValid p = true <;> simp [ibiStep, hv, h]

/-- a sweep keeps one output row per input point -/
theorem ibiSweep_length (kT v : Rat) (l : List IbiIn) : (ibiSweep kT v l).length = l.length := by
  induction l generalizing v with
  | nil => rfl
  | cons p rest ih => simp [ibiSweep, ih]

/-- the whole update is on the input grid -/
theorem ibi_same_grid (kT : Rat) (pts : List IbiIn) : (ibi kT pts).length = pts.length := by
  simp only [ibi, List.length_append, List.length_reverse, ibiSweep_length, List.length_drop, List.length_take]
  omega

/-- Boltzmann inversion: `-kT·log(P/norm)` at every point above the threshold -/
theorem boltzmann_invert_pointwise (kT mn : Rat) (pts : List (Rat × Rat)) (i : Nat) (d lw : Rat)
    (hi : pts[i]? = some (d, lw)) (hd : d > mn) : (binvFirst kT mn pts)[i]? = some (some (-(kT * lw))) := by
  simp [binvFirst, List.getElem?_map, hi, hd]

/-- the linear operation changes the selected rows to `a·y + b` and nothing else: same grid, same flags -/
theorem linop_pointwise (wf : Option Char) (a b : Rat) (rows : List Row) (i : Nat) (r : Row) (hi : rows[i]? = some r) :
    (linop wf a b rows)[i]? = some (if (match wf with | some f => r.flag != f | none => false) then r else { r with y := a * r.y + b }) := by
  simp only [linop, List.getElem?_map, hi, Option.map_some]
  cases wf <;> rfl

theorem linop_keeps_grid_and_flags (wf : Option Char) (a b : Rat) (rows : List Row) :
    (linop wf a b rows).map (fun r => (r.x, r.flag)) = rows.map (fun r => (r.x, r.flag)) := by
  simp only [linop, List.map_map]
  apply List.map_congr_left
  intro r _
  simp only [Function.comp]
  split <;> (try split) <;> rfl

/-- smoothing leaves straight-line data unchanged at interior points of a uniform grid -/
theorem smooth_line_interior (a b x h : Rat) :
    (a * (x - h) + b) / 4 + (a * x + b) / 2 + (a * (x + h) + b) / 4 = a * x + b := by ring

/-- smoothing keeps the grid and the flags -/
theorem smooth_keeps_grid_and_flags (rows : List Row) :
    (smooth rows).map (fun r => (r.x, r.flag)) = rows.map (fun r => (r.x, r.flag)) := by
  unfold smooth
  simp only [List.map_map]
  have : rows.map (fun r => (r.x, r.flag)) = rows.zipIdx.map (fun p => (p.1.x, p.1.flag)) := by
    have h1 : rows.zipIdx.map (fun p => (p.1.x, p.1.flag)) = (rows.zipIdx.map Prod.fst).map (fun r : Row => (r.x, r.flag)) := by
      rw [List.map_map]; rfl
    rw [h1, List.zipIdx_map_fst]
  rw [this]
  apply List.map_congr_left
  intro p _
  simp only [Function.comp]
  split <;> (try split) <;> (try split) <;> rfl

/-- integration is the trapezoid rule: consecutive values differ by `h/2·(f_i + f_{i-1})`, so differentiating the result
by finite differences returns the mean of the two neighbouring forces (inverse up to the discretisation) -/
theorem integrate_step (acc : Rat) (p r : Row) (rest : List Row) (h : r.x - p.x ≠ 0) :
    (((integrateLeft acc (some p) (r :: rest)).head?.map (·.y)).getD 0 - acc) / (r.x - p.x) = (r.y + p.y) / 2 := by
  simp only [integrateLeft, List.head?_cons, Option.map_some, Option.getD_some]
  field_simp
  ring

/-- shifting a non-bonded table makes the last point zero -/
theorem shift_nonbonded_last_zero (rows : List Row) (r : Row) (h : rows.getLast? = some r) :
    ((shift false rows).bind fun l => l.getLast?.map (·.y)) = some 0 := by
  have hz : shiftZero false rows = some r.y := by simp [shiftZero, h]
  simp only [shift, hz, Option.map_some, Option.bind_some]
  rw [List.getLast?_map, h]
  simp

/-- combination is point-wise on the first table's grid -/
theorem combine_pointwise (op : CombOp) (sc : Rat) (a b : List Row) (i : Nat) (p q : Row) (hp : a[i]? = some p) (hq : b[i]? = some q) :
    ((combine op sc a b)[i]?.map (·.y)) = some ((match op with
      | .add => p.y + q.y | .sub => p.y - q.y | .mul => p.y * q.y | .dist => absRat (p.y - q.y)) * sc) := by
  have hz : (a.zip b)[i]? = some (p, q) := List.getElem?_zip_eq_some.mpr ⟨hp, hq⟩
  simp only [combine, List.getElem?_map, hz, Option.map_some]
  cases op <;> rfl

example : (ibi 2 [⟨0, 1, 'i', 0⟩, ⟨1, 2, 'i', 3⟩, ⟨1, 1, 'i', 0⟩, ⟨0, 0, 'i', 0⟩]) = [(6, 'o'), (6, 'i'), (0, 'i'), (0, 'o')] := by decide +kernel

/-! ## table_extrapolate.pl -/

/-- every extrapolating function passes through the anchor point (the first / last in-range point), for every `ew` with `ew 0 = 1` -/
theorem extrapolation_through_anchor (fn : ExFun) (curv x0 y0 m : Rat) (ew : Rat → Rat) (hew : ew 0 = 1)
    (hd : exDefined fn curv y0 m = true) : exVal fn curv x0 y0 m x0 ew = y0 := by
  cases fn <;> simp only [exVal, exDefined, bne_iff_ne, ne_eq, Bool.and_eq_true] at hd ⊢
  · ring
  · have hc : curv ≠ 0 := hd
    field_simp
    ring
  · obtain ⟨hy, hm⟩ := hd
    field_simp
    ring
  · ring
  · have hy : y0 ≠ 0 := hd
    have : m * (x0 - x0) / y0 = 0 := by simp
    rw [this, hew]; ring

/-- the quadratic and the `sasha` parabola have slope `m` at the anchor: the symmetric difference quotient of a parabola is its
    derivative, for every step `h ≠ 0` -/
theorem quadratic_slope_at_anchor (curv x0 y0 m h : Rat) (ew : Rat → Rat) (hc : curv ≠ 0) (hh : h ≠ 0) :
    (exVal .quadratic curv x0 y0 m (x0 + h) ew - exVal .quadratic curv x0 y0 m (x0 - h) ew) / (2 * h) = m := by
  simp only [exVal]
  field_simp
  ring

theorem sasha_slope_at_anchor (curv x0 y0 m h : Rat) (ew : Rat → Rat) (hy : y0 ≠ 0) (hm : m ≠ 0) (hh : h ≠ 0) :
    (exVal .sasha curv x0 y0 m (x0 + h) ew - exVal .sasha curv x0 y0 m (x0 - h) ew) / (2 * h) = m := by
  simp only [exVal]
  field_simp
  ring

/-- the quadratic form has the requested curvature: constant second difference `2 C h²` -/
theorem quadratic_curvature (curv x0 y0 m x h : Rat) (ew : Rat → Rat) (hc : curv ≠ 0) :
    exVal .quadratic curv x0 y0 m (x + h) ew - 2 * exVal .quadratic curv x0 y0 m x ew + exVal .quadratic curv x0 y0 m (x - h) ew
      = 2 * curv * h * h := by
  simp only [exVal]
  field_simp
  ring

/-- linear (and periodic) extrapolation is the straight line of the help text -/
theorem linear_is_line (curv x0 y0 m x : Rat) (ew : Rat → Rat) :
    exVal .linear curv x0 y0 m x ew = m * x + (-m * x0 + y0) ∧ exVal .periodic curv x0 y0 m x ew = exVal .linear curv x0 y0 m x ew := by
  simp only [exVal]; constructor
  · ring
  · trivial

theorem fillWhere_length (p : Nat → Bool) (g : Row → Row) (rows : List Row) : (fillWhere p g rows).length = rows.length := by
  simp [fillWhere]

theorem fillWhere_get (p : Nat → Bool) (g : Row → Row) (rows : List Row) (i : Nat) :
    (fillWhere p g rows)[i]? = (rows[i]?).map fun r => if p i then g r else r := by
  simp only [fillWhere, List.getElem?_map, List.getElem?_zipIdx]
  cases rows[i]? <;> simp

/-- what an extrapolation pass that succeeds has done: the anchor row exists, the script did not divide by zero, and exactly the
    rows before the first in-range point were replaced by extrapolated rows -/
theorem exLeft_some (o : ExOpts) (ew : Rat → Rat) (rows out : List Row) (h : exLeft o ew rows = some out) :
    ∃ r0 m, rows[firstIn rows]? = some r0 ∧ exDefined o.fn o.curv r0.y m = true ∧
      out = fillWhere (fun i => decide (i < firstIn rows)) (exRow o r0.x r0.y m ew) rows := by
  unfold exLeft at h
  cases h0 : rows[firstIn rows]? with
  | none => simp [h0] at h
  | some r0 =>
    cases h1 : rows[firstIn rows + o.avg]? with
    | none => simp [h0, h1] at h
    | some r1 =>
      simp only [h0, h1] at h
      by_cases hc : (o.fn != ExFun.constant && r1.x == r0.x) = true
      · rw [if_pos hc] at h; cases h
      · rw [if_neg hc] at h
        generalize (if (o.fn == ExFun.constant) = true then (0 : Rat) else (r1.y - r0.y) / (r1.x - r0.x)) = m at h
        by_cases hd : (!exDefined o.fn o.curv r0.y m) = true
        · simp only [hd, if_true] at h; cases h
        · simp only [hd, Bool.false_eq_true, if_false] at h
          refine ⟨r0, m, rfl, by simpa using hd, (Option.some.inj h).symm⟩

/-- left extrapolation keeps the row count and the grid, leaves every row from the first in-range point on untouched, and every
    row before it becomes an extrapolated row with the same abscissa, flagged in range unless `--no-flagupdate` -/
theorem exLeft_spec (o : ExOpts) (ew : Rat → Rat) (rows out : List Row) (h : exLeft o ew rows = some out) :
    out.length = rows.length ∧
    (∀ i, firstIn rows ≤ i → out[i]? = rows[i]?) ∧
    (∀ i r, i < firstIn rows → rows[i]? = some r → ∃ r2, out[i]? = some r2 ∧ r2.x = r.x ∧ r2.flag = (if o.flagUpdate then 'i' else r.flag)) := by
  obtain ⟨r0, m, _, _, rfl⟩ := exLeft_some o ew rows out h
  refine ⟨fillWhere_length _ _ _, ?_, ?_⟩
  · intro i hi
    rw [fillWhere_get]
    have : decide (i < firstIn rows) = false := by simp; omega
    cases rows[i]? <;> simp [this]
  · intro i r hi hr
    rw [fillWhere_get, hr]
    have : decide (i < firstIn rows) = true := by simpa using hi
    refine ⟨exRow o r0.x r0.y m ew r, by simp [this], rfl, rfl⟩

/-! non-vacuity: a table with two out-of-range points on the left, linear extrapolation with `--avgpoints 1` -/
example : (exLeft { fn := .linear, avg := 1, curv := 10000, left := true, right := false, flagUpdate := true } (fun _ => 1)
    [⟨0, 9, 'o'⟩, ⟨1, 9, 'u'⟩, ⟨2, 5, 'i'⟩, ⟨3, 3, 'i'⟩]).map (fun l => l.map fun r => (r.y, r.flag)) = some [(9, 'i'), (7, 'i'), (5, 'i'), (3, 'i')] := by
  decide +kernel

end Votca.C19
