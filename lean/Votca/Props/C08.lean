import Votca.Model.C08
import Mathlib.Tactic.Ring
import Mathlib.Tactic.Linarith
import Mathlib.Tactic.FieldSimp
import Mathlib.Algebra.Order.Field.Basic
import Mathlib.Data.Rat.Floor
/-! # C08 — property theorems: what survives a write/read round trip, at the level of the record codecs

`roundDec k x` is what `printf("%.kf")` followed by `strtod` returns (as exact numbers): the theorems bound the error of
every field by half a unit of the last printed decimal, show that a second round trip changes nothing, that the unit
factors of writer and reader cancel, that frames come back in the order they were written, that a record whose atom
count differs is refused, and that the matrix text (row by row out, row by row in) keeps shape and orientation.  The
character layer (`printf`, `strtod`, column slicing) is not modelled; the check compares the real writers/readers with
these codecs on generated frames. -/
namespace Votca.C08

theorem roundEven_err (x : Rat) : absRat ((roundEven x : Rat) - x) ≤ 1 / 2 := by
  have h1 : ((x.floor : Int) : Rat) ≤ x := Rat.floor_le x
  have h2 : x < ((x.floor : Int) : Rat) + 1 := by have := Rat.lt_floor_add_one x; push_cast at this; exact this
  unfold roundEven absRat
  simp only []
  split_ifs <;> push_cast <;> linarith

/-- every printed decimal field comes back within half a unit of its last decimal -/
theorem roundDec_err (k : Nat) (x : Rat) : absRat (roundDec k x - x) ≤ 1 / (2 * (10 : Rat) ^ k) := by
  have hp : (0 : Rat) < (10 : Rat) ^ k := by positivity
  have h := roundEven_err (x * (10 : Rat) ^ k)
  unfold roundDec
  unfold absRat at h ⊢
  have e : ((roundEven (x * (10 : Rat) ^ k) : Rat) / (10 : Rat) ^ k - x) = ((roundEven (x * (10 : Rat) ^ k) : Rat) - x * (10 : Rat) ^ k) / (10 : Rat) ^ k := by
    field_simp
  rw [e]
  split_ifs at h ⊢ with h1 h2 h2
  · rw [neg_div', div_le_div_iff₀ hp (by positivity)]; nlinarith
  · exfalso
    have : ((roundEven (x * (10 : Rat) ^ k) : Rat) - x * (10 : Rat) ^ k) / (10 : Rat) ^ k < 0 := h1
    have hh := div_neg_iff.mp this
    rcases hh with ⟨_, hn⟩ | ⟨hneg, _⟩
    · linarith
    · exact h2 hneg
  · exfalso
    have : ¬ ((roundEven (x * (10 : Rat) ^ k) : Rat) - x * (10 : Rat) ^ k) / (10 : Rat) ^ k < 0 := h1
    exact this (div_neg_of_neg_of_pos h2 hp)
  · rw [div_le_div_iff₀ hp (by positivity)]; nlinarith

/-- an integer is its own rounding -/
theorem roundEven_int (z : Int) : roundEven (z : Rat) = z := by
  unfold roundEven
  simp [Rat.floor_intCast]

/-- reading a written file and writing it again reproduces the same text: rounding is idempotent -/
theorem roundDec_idem (k : Nat) (x : Rat) : roundDec k (roundDec k x) = roundDec k x := by
  have hp : (10 : Rat) ^ k ≠ 0 := by positivity
  unfold roundDec
  rw [div_mul_cancel₀ _ hp, roundEven_int]

/-- the unit factors of every writer/reader pair, as read from the sources, cancel exactly: positions, velocities, box
(nm ↔ Å) and forces (kJ/mol/nm ↔ kcal/mol/Å) of the LAMMPS dump pair, the xyz pair and the DL_POLY pair -/
theorem unit_factors_cancel :
    Gen.Formats.dumpPosW * Gen.Formats.dumpPosR = 1 ∧ Gen.Formats.dumpVelW * Gen.Formats.dumpVelR = 1 ∧
    Gen.Formats.dumpFrcW * Gen.Formats.dumpFrcR = 1 ∧ Gen.Formats.dumpBoxW * Gen.Formats.dumpBoxR = 1 ∧
    Gen.Formats.xyzW * Gen.Formats.xyzR = 1 ∧ Gen.Formats.dlpolyW * Gen.Formats.dlpolyR = 1 := by
  refine ⟨?_, ?_, ?_, ?_, ?_, ?_⟩ <;> decide +kernel

/-- hence a field round trip deviates from the original by at most half a unit of the last printed digit, converted back -/
theorem field_roundtrip_dec (w r : Rat) (k : Nat) (x : Rat) (hwr : w * r = 1) :
    absRat ((⟨w, r, .dec k⟩ : Field).roundtrip x - x) ≤ (⟨w, r, .dec k⟩ : Field).tol x := by
  have herr := roundDec_err k (x * w)
  unfold Field.roundtrip Field.tol Mode.apply Mode.halfUlp
  simp only []
  have e : roundDec k (x * w) * r - x = (roundDec k (x * w) - x * w) * r := by
    have : x = x * w * r := by rw [mul_assoc, hwr, mul_one]
    nth_rewrite 2 [this]; ring
  rw [e]
  unfold absRat at herr ⊢
  split_ifs at herr ⊢ <;> nlinarith

/-- frames come back in the order they were written, as many as were written -/
theorem frames_in_order {α β : Type} (enc : α → β) (dec : β → Option α) (h : ∀ a, dec (enc a) = some a) (frames : List α) :
    decodeFrames dec (encodeFrames enc frames) = some frames := by
  unfold decodeFrames encodeFrames
  induction frames with
  | nil => rfl
  | cons a as ih => simp [List.mapM_cons, h a, ih]

/-- a frame is used only if its atom count is the topology's -/
theorem count_mismatch_rejected (ntop nfile : Nat) : checkCount ntop nfile = true ↔ ntop = nfile := by
  simp [checkCount]

/-- the matrix text keeps the shape and the orientation -/
theorem matrix_shape (m : List (List Rat)) :
    (matrixRoundtrip m).length = m.length ∧ (matrixRoundtrip m).map List.length = m.map List.length := by
  unfold matrixRoundtrip
  constructor
  · simp
  · simp [List.map_map, Function.comp_def]

/-- table flags are kept and rows stay in order -/
theorem table_flags_kept (rows : List (Rat × Rat × Char × Rat)) :
    (tableRoundtrip rows).map (fun r => r.2.2.1) = rows.map (fun r => r.2.2.1) := by
  unfold tableRoundtrip
  simp [List.map_map, Function.comp_def]

example : roundDec 3 (12345 / 10000) = 1234 / 1000 ∧ roundDec 3 (12355 / 10000) = 1236 / 1000 := by decide +kernel

end Votca.C08
