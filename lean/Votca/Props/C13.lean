import Votca.Lemmas.C13
import Votca.Gen.Hist
/-! # C13 — property theorems: histograms conserve weight and never write outside their bins

About the executable model `Votca/Model/C13.lean` (HistogramNew::Process / Normalize, legacy automatic range). -/
namespace Votca.C13

/-- the code's index computation (range test, truncating `%` wrap) is the declarative one
    (nearest centre; dropped outside, or Euclidean residue modulo `n`), for every histogram with at least one bin -/
theorem binIndex_eq_spec (h : Hist) (hn : 0 < h.n) (v : Rat) : binIndex h v = specIndex h v := by
  unfold binIndex specIndex
  simp only []
  have hn' : (0 : Int) < (h.n : Int) := by exact_mod_cast hn
  split
  · rfl
  · by_cases hp : h.periodic = true
    · simp only [hp, if_true]
      split
      · rw [wrapCode_eq_emod _ _ hn']
      · rename_i hin
        have : rawIndex h.min h.step v % (h.n : Int) = rawIndex h.min h.step v :=
          Int.emod_eq_of_lt (by omega) (by omega)
        rw [this]
    · simp only [hp]
      split
      · rename_i hout
        have : ¬ (0 ≤ rawIndex h.min h.step v ∧ rawIndex h.min h.step v < (h.n : Int)) := by omega
        simp [this]
      · rename_i hin
        have : (0 ≤ rawIndex h.min h.step v ∧ rawIndex h.min h.step v < (h.n : Int)) := by omega
        simp [this]

/-- **memory safety of the index.**  Whatever the value — far below, far above, on an edge, any multiple of the
    period — the bin that `Process` touches exists. -/
theorem binIndex_lt (h : Hist) (hn : 0 < h.n) (v : Rat) (i : Nat) (hi : binIndex h v = some i) : i < h.n := by
  have hn' : (0 : Int) < (h.n : Int) := by exact_mod_cast hn
  unfold binIndex at hi
  simp only [] at hi
  split at hi
  · cases hi
  · split at hi
    · split at hi
      · cases hi
        have := wrapCode_range (rawIndex h.min h.step v) h.n hn'
        omega
      · cases hi
    · cases hi
      omega

/-- `Process` never changes the number of bins -/
theorem process_length (h : Hist) (vw : Rat × Rat) : (process h vw).data.length = h.data.length := by
  unfold process; split <;> simp [addAt_length]

/-- non-periodic: a value whose nearest centre is not one of the `n` bins is discarded -/
theorem discard_outside (h : Hist) (hp : h.periodic = false) (v : Rat)
    (hout : rawIndex h.min h.step v < 0 ∨ (h.n : Int) ≤ rawIndex h.min h.step v) : binIndex h v = none := by
  unfold binIndex
  simp only [hp]
  split
  · rfl
  · have : rawIndex h.min h.step v < 0 ∨ rawIndex h.min h.step v ≥ (h.n : Int) := by omega
    simp [this]

/-- the accepted bin is the one whose centre `min + i·step` is nearest: `-step/2 ≤ v - centre < step/2`
    (non-periodic mode; for the periodic mode combine with `periodic_congruent`) -/
theorem nearest_centre (h : Hist) (hs : 0 < h.step) (hp : h.periodic = false) (v : Rat) (i : Nat)
    (hi : binIndex h v = some i) :
    -(h.step / 2) ≤ v - (h.min + (i : Rat) * h.step) ∧ v - (h.min + (i : Rat) * h.step) < h.step / 2 := by
  have hraw : rawIndex h.min h.step v = (i : Int) := by
    unfold binIndex at hi
    simp only [hp] at hi
    split at hi
    · cases hi
    · split at hi
      · simp at hi
      · cases hi; omega
  obtain ⟨h1, h2⟩ := floor_bounds ((v - h.min) / h.step + 1 / 2)
  unfold rawIndex at hraw
  rw [hraw] at h1 h2
  have e : v - h.min = (v - h.min) / h.step * h.step := by field_simp
  have hi' : ((i : Int) : Rat) = (i : Rat) := by norm_cast
  rw [hi'] at h1 h2
  constructor
  · have : ((v - h.min) / h.step) * h.step < ((i : Rat) + 1 - 1 / 2) * h.step := by
      apply mul_lt_mul_of_pos_right _ hs; linarith
    nlinarith [this]
  · have : ((i : Rat) - 1 / 2) * h.step ≤ ((v - h.min) / h.step) * h.step := by
      apply mul_le_mul_of_nonneg_right _ hs.le; linarith
    nlinarith [this]

/-- periodic mode: the bin is the raw (nearest-centre) bin number wrapped modulo the number of bins -/
theorem periodic_congruent (h : Hist) (hn : 0 < h.n) (hp : h.periodic = true) (v : Rat) (i : Nat)
    (hi : binIndex h v = some i) : (i : Int) = rawIndex h.min h.step v % (h.n : Int) := by
  rw [binIndex_eq_spec h hn] at hi
  unfold specIndex at hi
  simp only [hp, if_true] at hi
  split at hi
  · cases hi
  · cases hi
    have hn' : (0 : Int) < (h.n : Int) := by exact_mod_cast hn
    have := Int.emod_nonneg (rawIndex h.min h.step v) (show (h.n : Int) ≠ 0 by omega)
    omega

/-- one step conserves weight -/
theorem process_sum (h : Hist) (hn : 0 < h.n) (hl : h.data.length = h.n) (vw : Rat × Rat) :
    (process h vw).data.sum = h.data.sum + accepted h vw := by
  unfold process accepted
  cases hb : binIndex h vw.1 with
  | none => simp
  | some i =>
    have := binIndex_lt h hn vw.1 i hb
    simp [addAt_sum h.data i vw.2 (by omega)]

theorem process_fields (h : Hist) (vw : Rat × Rat) :
    (process h vw).min = h.min ∧ (process h vw).max = h.max ∧ (process h vw).n = h.n ∧ (process h vw).periodic = h.periodic := by
  unfold process; split <;> simp

theorem accepted_congr (h h' : Hist) (h1 : h'.min = h.min) (h2 : h'.max = h.max) (h3 : h'.n = h.n)
    (h4 : h'.periodic = h.periodic) (vw : Rat × Rat) : accepted h' vw = accepted h vw := by
  unfold accepted binIndex Hist.step
  rw [h1, h2, h3, h4]

/-- **weight conservation.**  For every stream of (value, weight) pairs the sum of the bins grows by exactly the total
    weight of the accepted values, and the histogram keeps its `n` bins. -/
theorem weight_conservation (stream : List (Rat × Rat)) : ∀ (h : Hist), 0 < h.n → h.data.length = h.n →
    (stream.foldl process h).data.sum = h.data.sum + (stream.map (accepted h)).sum ∧
    (stream.foldl process h).data.length = h.n := by
  induction stream with
  | nil => intro h _ hl; simp [hl]
  | cons vw rest ih =>
    intro h hn hl
    obtain ⟨f1, f2, f3, f4⟩ := process_fields h vw
    have hl' : (process h vw).data.length = (process h vw).n := by rw [process_length, f3, hl]
    obtain ⟨a, b⟩ := ih (process h vw) (by rw [f3]; exact hn) hl'
    simp only [List.foldl_cons, List.map_cons, List.sum_cons]
    refine ⟨?_, by rw [b, f3]⟩
    rw [a, process_sum h hn hl vw]
    have : rest.map (accepted (process h vw)) = rest.map (accepted h) :=
      List.map_congr_left (fun x _ => accepted_congr h (process h vw) f1 f2 f3 f4 x)
    rw [this]; ring

theorem sumAbs_nonneg (l : List Rat) (h : ∀ y ∈ l, 0 ≤ y) : sumAbs l = l.sum := by
  unfold sumAbs
  induction l with
  | nil => rfl
  | cons y ys ih =>
    have hy : 0 ≤ y := h y (by simp)
    have : absRat y = y := by unfold absRat; split <;> linarith
    simp [this, ih (fun z hz => h z (by simp [hz]))]

theorem sum_map_mul (l : List Rat) (c : Rat) : (l.map (· * c)).sum = l.sum * c := by
  induction l with
  | nil => simp
  | cons y ys ih => simp [ih]; ring

/-- **normalisation.**  For non-negative contents that are not all zero, after `Normalize` the integral
    (sum times step) is one, and every bin was multiplied by the same factor (ratios unchanged). -/
theorem normalize_integral (h : Hist) (hpos : ∀ y ∈ h.data, 0 ≤ y) (hs : h.step ≠ 0) (hsum : h.data.sum ≠ 0) :
    (normalize h).data.sum * h.step = 1 ∧ ∃ c, (normalize h).data = h.data.map (· * c) := by
  unfold normalize
  simp only []
  refine ⟨?_, ⟨_, rfl⟩⟩
  rw [sum_map_mul, sumAbs_nonneg h.data hpos]
  field_simp

/-- **legacy automatic range.**  Starting from sentinels that bracket the data (`max()` / `lowest()`), the range found
    is attained by the data and bounds every value — for data of any sign. -/
theorem autoRange_covers (vs : List Rat) (hi lo : Rat) (hne : vs ≠ []) (hb : ∀ v ∈ vs, lo ≤ v ∧ v ≤ hi) :
    ((autoRange vs hi lo).1 ∈ vs ∧ ∀ v ∈ vs, (autoRange vs hi lo).1 ≤ v) ∧
    ((autoRange vs hi lo).2 ∈ vs ∧ ∀ v ∈ vs, v ≤ (autoRange vs hi lo).2) := by
  unfold autoRange
  simp only []
  -- generalised fold invariants
  have hmin : ∀ (l : List Rat) (m : Rat), (∀ v ∈ l, v ≤ m) ∨ True →
      (l.foldl (fun m v => minR v m) m = m ∨ l.foldl (fun m v => minR v m) m ∈ l) ∧
      l.foldl (fun m v => minR v m) m ≤ m ∧ ∀ v ∈ l, l.foldl (fun m v => minR v m) m ≤ v := by
    intro l
    induction l with
    | nil => intro m _; simp
    | cons x xs ih =>
      intro m _
      obtain ⟨a, b, c⟩ := ih (minR x m) (Or.inr trivial)
      simp only [List.foldl_cons]
      have hx : minR x m ≤ x ∧ minR x m ≤ m ∧ (minR x m = x ∨ minR x m = m) := by
        unfold minR; split
        · exact ⟨le_refl _, by linarith, Or.inl rfl⟩
        · exact ⟨by linarith, le_refl _, Or.inr rfl⟩
      refine ⟨?_, by linarith [hx.2.1], ?_⟩
      · rcases a with a | a
        · rcases hx.2.2 with e | e
          · right; rw [a, e]; simp
          · left; rw [a, e]
        · right; simp [a]
      · intro v hv
        rcases List.mem_cons.1 hv with rfl | hv
        · linarith [hx.1]
        · exact c v hv
  have hmax : ∀ (l : List Rat) (m : Rat),
      (l.foldl (fun m v => maxR v m) m = m ∨ l.foldl (fun m v => maxR v m) m ∈ l) ∧
      m ≤ l.foldl (fun m v => maxR v m) m ∧ ∀ v ∈ l, v ≤ l.foldl (fun m v => maxR v m) m := by
    intro l
    induction l with
    | nil => intro m; simp
    | cons x xs ih =>
      intro m
      obtain ⟨a, b, c⟩ := ih (maxR x m)
      simp only [List.foldl_cons]
      have hx : x ≤ maxR x m ∧ m ≤ maxR x m ∧ (maxR x m = x ∨ maxR x m = m) := by
        unfold maxR; split
        · exact ⟨le_refl _, by linarith, Or.inl rfl⟩
        · exact ⟨by linarith, le_refl _, Or.inr rfl⟩
      refine ⟨?_, by linarith [hx.2.1], ?_⟩
      · rcases a with a | a
        · rcases hx.2.2 with e | e
          · right; rw [a, e]; simp
          · left; rw [a, e]
        · right; simp [a]
      · intro v hv
        rcases List.mem_cons.1 hv with rfl | hv
        · linarith [hx.1]
        · exact c v hv
  obtain ⟨x, xs, rfl⟩ := List.exists_cons_of_ne_nil hne
  obtain ⟨a1, b1, c1⟩ := hmin (x :: xs) hi (Or.inr trivial)
  obtain ⟨a2, b2, c2⟩ := hmax (x :: xs) lo
  refine ⟨⟨?_, c1⟩, ⟨?_, c2⟩⟩
  · rcases a1 with e | e
    · -- the fold stayed at the sentinel: then the sentinel equals a data value (all data ≤ hi and fold ≤ data)
      have h1 := c1 x (by simp)
      have h2 := (hb x (by simp)).2
      rw [e] at h1 ⊢
      have : hi = x := le_antisymm h1 h2
      rw [this]; simp
    · exact e
  · rcases a2 with e | e
    · have h1 := c2 x (by simp)
      have h2 := (hb x (by simp)).1
      rw [e] at h1 ⊢
      have : lo = x := le_antisymm h2 h1
      rw [this]; simp
    · exact e

/-! non-vacuity and the witness of the defect that was fixed (`fix:` d3734c221): the unrepaired wrap
    `n - (-i) % n` gives `n` itself for `i = -n` -/
example : binIndex (init 0 4 4 true) (-4) = some 0 := by decide +kernel
example : (4 : Int) - Int.tmod (-(-4)) 4 = 4 := by decide
example : ((init 0 4 4 true).step = 1) ∧ 0 < (init 0 4 4 true).n := by decide +kernel
example : (autoRange [-3, -1, -2] 1000 (-1000)) = (-3, -1) := by decide +kernel

/-! ## the model's formulas are the ones the sources contain now (`Gen/Hist.lean` is regenerated from histogramnew.cc and
histogram.cc on every run: a changed expression breaks one of these obligations) -/

/-- bin width of `Initialize_` -/
theorem stepOf_is_source (mn mx : Rat) (n : Nat) (periodic : Bool) :
    stepOf mn mx n periodic =
      if n = 1 then Gen.Hist.stepSingle else if periodic then Gen.Hist.stepPeriodic mn mx n else Gen.Hist.stepOpen mn mx n := by
  unfold stepOf Gen.Hist.stepSingle Gen.Hist.stepPeriodic Gen.Hist.stepOpen
  split
  · rfl
  · split <;> rfl

/-- the bin number of `Process` is the floor of the source's expression -/
theorem rawIndex_is_source (mn step v : Rat) : rawIndex mn step v = (Gen.Hist.binArg v mn step).floor := by
  unfold rawIndex Gen.Hist.binArg; rfl

/-- the cast guard of `Process` uses the source's bound -/
theorem castLimit_is_source : (castLimit : Rat) = Gen.Hist.castBound := by
  unfold castLimit Gen.Hist.castBound; norm_num

/-- `Normalize` scales by the source's factor -/
theorem normalize_is_source (h : Hist) :
    (normalize h).data = h.data.map (· * Gen.Hist.normScale (sumAbs h.data) h.step) := by
  unfold normalize Gen.Hist.normScale; rfl

/-- the legacy class: bin number and width -/
theorem legacy_is_source (mn iv v : Rat) (mx : Rat) (n : Nat) :
    rawIndex mn iv v = (Gen.Hist.legacyBinArg v mn iv).floor ∧ (mx - mn) / ((n : Rat) - 1) = Gen.Hist.legacyInterval mn mx n := by
  unfold rawIndex Gen.Hist.legacyBinArg Gen.Hist.legacyInterval
  exact ⟨rfl, rfl⟩

/-- the legacy normalisation makes the integral one: `Σ (p_i · norm) · interval = 1` for a non-zero sum and width -/
theorem legacyNorm_integral (pdf : List Rat) (iv : Rat) (hs : pdf.sum ≠ 0) (hi : iv ≠ 0) :
    (pdf.map (· * Gen.Hist.legacyNorm pdf.sum iv)).sum * iv = 1 := by
  have hsum : ∀ (l : List Rat) (c : Rat), (l.map (· * c)).sum = l.sum * c := by
    intro l c
    induction l with
    | nil => simp
    | cons x xs ih => simp only [List.map_cons, List.sum_cons, ih]; ring
  rw [hsum]
  unfold Gen.Hist.legacyNorm
  field_simp

end Votca.C13
