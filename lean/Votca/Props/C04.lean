import Votca.Lemmas.C04
import Votca.Props.C13
/-! # C04 — property theorems: what `csg_stat` writes is the documented statistic of the trajectory

About the executable model `Votca/Model/C04.lean`, which the check runs against the real `csg_stat` executable on
complete generated inputs (every written number is compared).  The theorems say that the recurrences the code uses
(`MergeWorker`, `Average::Process`, `DoCorrelations`) are the plain frame averages for every number of frames, that the
bin a pair distance is counted in is the bin whose centre is nearest, that the written matrix is minus the covariance and
symmetric, that the normalisations give 1 for an ideal gas / unit integral, and that a block's output depends on the
block's frames only. -/
namespace Votca.C04

/-- `MergeWorker`'s incremental update is the frame average, for every number of frames ≥ 1 -/
theorem runMean_eq_mean (hs : List Rat) (h : hs ≠ []) : runMean hs = mean hs := by
  have hpos : 0 < 0 + hs.length := by simpa using List.length_pos_iff.mpr h
  unfold runMean mean
  rw [foldl_mergeStep hs 0 0 hpos]
  simp

/-- `Average<double>::Process` (the box volume) is the plain average too -/
theorem avgVol_eq_mean (vs : List Rat) (h : vs ≠ []) : avgVol vs = mean vs := by
  have hpos : 0 < 0 + vs.length := by simpa using List.length_pos_iff.mpr h
  unfold avgVol mean
  rw [foldl_avgStep vs 0 0 hpos]
  simp

/-- the averaged histogram of interaction `k` is, bin by bin, the frame average of the per-frame counts -/
theorem avgHist_is_frame_average (defs : List IDef) (fs : List FrameData) (hfs : fs ≠ []) (k : Nat) (d : IDef)
    (hd : defs[k]? = some d) (i : Nat) (hi : i < nbins d) :
    (avgHist defs fs k)[i]? = some (mean (comp fs k i)) := by
  unfold avgHist
  rw [hd]
  have hne : comp fs k i ≠ [] := by
    unfold comp; simpa using hfs
  simp [hi, runMean_eq_mean _ hne]

/-- the boundary test of the model is `k ≤ ⌊(v - min)/h + ½⌋` -/
theorem geB_len_iff (d : IDef) (v : Rat) (hv : 0 ≤ v) (hh : 0 < hstep d) (k : Nat) :
    geB (.len (v * v)) (boundary d k) (d.cosb.getD k 0) = true ↔ (k : Int) ≤ C13.rawIndex d.min (hstep d) v := by
  have hb : (boundary d k ≤ 0 ∨ boundary d k * boundary d k ≤ v * v) ↔ boundary d k ≤ v := by
    constructor
    · rintro (h | h)
      · linarith
      · by_contra hc
        have hc' : v < boundary d k := not_le.mp hc
        have : v * v < boundary d k * boundary d k := by nlinarith
        linarith
    · intro h
      by_cases h0 : boundary d k ≤ 0
      · exact Or.inl h0
      · have h0' : 0 < boundary d k := not_le.mp h0
        exact Or.inr (by nlinarith)
  have hfl : boundary d k ≤ v ↔ (k : Int) ≤ C13.rawIndex d.min (hstep d) v := by
    unfold C13.rawIndex
    rw [Rat.le_floor_iff]
    unfold boundary
    constructor
    · intro h1
      have : ((k : Rat)) - 1 / 2 ≤ (v - d.min) / hstep d := by
        rw [le_div_iff₀ hh]; linarith
      push_cast; linarith
    · intro h1
      have : ((k : Rat)) - 1 / 2 ≤ (v - d.min) / hstep d := by push_cast at h1; linarith
      rw [le_div_iff₀ hh] at this
      linarith
  simp only [geB, Bool.or_eq_true, decide_eq_true_eq]
  rw [hb, hfl]

/-- a pair at distance `v` is counted in the bin `HistogramNew` assigns to `v` (C13: the bin whose centre is nearest),
although the model only ever compares squares -/
theorem binOf_len_eq_binIndex (d : IDef) (v : Rat) (hv : 0 ≤ v) (hh : 0 < hstep d)
    (hn : ((nbins d : Nat) : Int) < C13.castLimit) :
    binOf d (.len (v * v)) = C13.binIndex (C13.init d.min d.max (nbins d) false) v := by
  have hp := geB_len_iff d v hv hh
  have hmono : ∀ k, geB (.len (v * v)) (boundary d (k + 1)) (d.cosb.getD (k + 1) 0) = true →
      geB (.len (v * v)) (boundary d k) (d.cosb.getD k 0) = true := by
    intro k h
    rw [hp] at h ⊢
    push_cast at h; omega
  have hcount := count_down (fun k => geB (.len (v * v)) (boundary d k) (d.cosb.getD k 0)) hmono (nbins d + 1)
  have hcntle := List.length_filter_le (fun k => geB (.len (v * v)) (boundary d k) (d.cosb.getD k 0)) (List.range (nbins d + 1))
  rw [List.length_range] at hcntle
  have hst : (C13.init d.min d.max (nbins d) false).step = hstep d := rfl
  have hmin : (C13.init d.min d.max (nbins d) false).min = d.min := rfl
  have hinit : (C13.init d.min d.max (nbins d) false).n = nbins d := rfl
  have hper : (C13.init d.min d.max (nbins d) false).periodic = false := rfl
  unfold binOf C13.binIndex
  simp only [hst, hmin, hinit, hper, Bool.false_eq_true, if_false]
  generalize hcnt : ((List.range (nbins d + 1)).filter fun k => geB (.len (v * v)) (boundary d k) (d.cosb.getD k 0)).length = cnt
    at hcount hcntle
  generalize hr : C13.rawIndex d.min (hstep d) v = r at hp
  clear hst hmin hinit hper
  generalize nbins d = n at *
  have hL : (0 : Int) < C13.castLimit := by decide
  rcases lt_or_ge r 0 with hneg | hnn
  · have h0 : cnt = 0 := by
      have := (hcount 0 (by omega)).not.mp (by rw [hp]; push_cast; omega)
      omega
    rw [if_pos (Or.inl h0)]
    split
    · rfl
    · rw [if_pos (Or.inl hneg)]
  · rcases lt_or_ge r (n : Int) with hlt | hge
    · obtain ⟨k, hk⟩ : ∃ k : Nat, (k : Int) = r := ⟨r.toNat, Int.toNat_of_nonneg hnn⟩
      have hkn : k < n := by omega
      have h1 : k < cnt := (hcount k (by omega)).mp (by rw [hp]; omega)
      have h2 : ¬ (k + 1 < cnt) := by
        intro h
        have := (hcount (k + 1) (by omega)).mpr h
        rw [hp] at this
        push_cast at this; omega
      have hc : cnt = k + 1 := by omega
      have hnot : ¬ (cnt = 0 ∨ cnt = n + 1) := by omega
      rw [if_neg hnot]
      have hrange : -C13.castLimit < r ∧ r < C13.castLimit := by constructor <;> omega
      rw [if_neg (not_not.mpr hrange), if_neg (by omega)]
      simp [hc, ← hk]
    · have hn1 : cnt = n + 1 := by
        have := (hcount n (by omega)).mp (by rw [hp]; omega)
        omega
      rw [if_pos (Or.inr hn1)]
      split
      · rfl
      · rw [if_pos (Or.inr hge)]

/-- `DoCorrelations` accumulates the frame average of the product of two histogram components -/
theorem corr_is_mean_product (fs : List FrameData) (hfs : fs ≠ []) (a b : Nat × Nat × Nat) :
    corrEntry fs a b = mean ((comp fs a.2.1 a.2.2).zip (comp fs b.2.1 b.2.2) |>.map fun (x, y) => x * y) := by
  unfold corrEntry mean
  have hlen : 0 < 0 + ((comp fs a.2.1 a.2.2).zip (comp fs b.2.1 b.2.2)).length := by
    unfold comp
    cases fs with
    | nil => exact absurd rfl hfs
    | cons f fs => simp
  rw [foldl_corrStep _ 0 0 hlen]
  simp

theorem corrEntry_comm (fs : List FrameData) (a b : Nat × Nat × Nat) : corrEntry fs a b = corrEntry fs b a := by
  by_cases hfs : fs = []
  · subst hfs; rfl
  · rw [corr_is_mean_product fs hfs a b, corr_is_mean_product fs hfs b a]
    unfold mean comp
    have : (((fs.map fun f => (f.hists.getD a.2.1 []).getD a.2.2 0).zip (fs.map fun f => (f.hists.getD b.2.1 []).getD b.2.2 0)).map fun (x, y) => x * y)
         = (((fs.map fun f => (f.hists.getD b.2.1 []).getD b.2.2 0).zip (fs.map fun f => (f.hists.getD a.2.1 []).getD a.2.2 0)).map fun (x, y) => x * y) := by
      induction fs with
      | nil => rfl
      | cons f fs ih =>
        by_cases h : fs = []
        · subst h; simp [mul_comm]
        · simp only [List.map_cons, List.zip_cons_cons]
          rw [ih h, mul_comm]
    rw [this]

/-- the written matrix is symmetric although only the blocks on and above the diagonal are computed -/
theorem gmc_symmetric (fs : List FrameData) (a b : Nat × Nat × Nat) : gmcEntry fs a b = gmcEntry fs b a := by
  unfold gmcEntry
  by_cases h1 : a.1 ≤ b.1 <;> by_cases h2 : b.1 ≤ a.1
  · rw [if_pos h1, if_pos h2, corrEntry_comm fs a b, mul_comm]
  · rw [if_pos h1, if_neg h2]
  · rw [if_neg h1, if_pos h2]
  · omega

/-- every entry is minus the covariance of the two components over the frames: `-(<S_a S_b> - <S_a><S_b>)` -/
theorem gmc_is_minus_covariance (fs : List FrameData) (hfs : fs ≠ []) (a b : Nat × Nat × Nat) :
    gmcEntry fs a b =
      -(mean ((comp fs a.2.1 a.2.2).zip (comp fs b.2.1 b.2.2) |>.map fun (x, y) => x * y)
        - mean (comp fs a.2.1 a.2.2) * mean (comp fs b.2.1 b.2.2)) := by
  have hne : ∀ k i, comp fs k i ≠ [] := by
    intro k i; unfold comp; simpa using hfs
  rw [← corr_is_mean_product fs hfs]
  unfold gmcEntry
  by_cases h1 : a.1 ≤ b.1
  · rw [if_pos h1, runMean_eq_mean _ (hne _ _), runMean_eq_mean _ (hne _ _)]
  · rw [if_neg h1, runMean_eq_mean _ (hne _ _), runMean_eq_mean _ (hne _ _), corrEntry_comm fs b a, mul_comm]

/-- one shell value: `V̄ · norm · h · 3 / (4 c)`; with `h` the ideal-gas expectation `N₁N₂ · (4 p c / 3) / V̄` of a cross-type
interaction (`norm = 1/(N₁N₂)`) it is `p`, i.e. the written value `· / π` is exactly 1 (the identity is algebraic in `p`) -/
theorem ideal_gas_cross (V c p : Rat) (N1 N2 : Nat) (hV : V ≠ 0) (hc : c ≠ 0) (h1 : N1 ≠ 0) (h2 : N2 ≠ 0) :
    V * (1 / ((N1 * N2 : Nat) : Rat)) * (((N1 * N2 : Nat) : Rat) * (4 * p * c / 3) / V) * 3 / (4 * c) = p := by
  have : ((N1 * N2 : Nat) : Rat) ≠ 0 := by
    have : N1 * N2 ≠ 0 := Nat.mul_ne_zero h1 h2
    exact_mod_cast this
  field_simp

/-- same-type interaction: `N(N-1)/2` pairs, `norm = 2/N²`: the ideal gas gives `(N-1)/N` (→ 1 for large N) -/
theorem ideal_gas_same (V c p : Rat) (N : Nat) (hV : V ≠ 0) (hc : c ≠ 0) (hN : N ≠ 0) :
    V * (2 / ((N * N : Nat) : Rat)) * (((N : Rat) * ((N : Rat) - 1) / 2) * (4 * p * c / 3) / V) * 3 / (4 * c)
      = p * (((N : Rat) - 1) / (N : Rat)) := by
  have hN' : (N : Rat) ≠ 0 := by exact_mod_cast hN
  push_cast
  field_simp

/-- the same statements about the expressions regenerated from `WriteDist` / `BeginEvaluate`: an ideal gas (expected pair
count `N₁N₂ · shell / V̄` with the exact shell volume `4/3·p·(x2³ - x1³)`) is written as exactly 1 for a cross-type
interaction and as `(N-1)/N` for a same-type one -/
theorem rdfExpr_ideal_gas_cross (V x1 x2 p n1 n2 : Rat) (hV : V ≠ 0) (hp : p ≠ 0) (hc : x2 * x2 * x2 - x1 * x1 * x1 ≠ 0)
    (h1 : n1 ≠ 0) (h2 : n2 ≠ 0) :
    Gen.Stat.rdfExpr V (Gen.Stat.normCross n1 n2) (n1 * n2 * (4 / 3 * p * (x2 * x2 * x2 - x1 * x1 * x1)) / V) x1 x2 p = 1 := by
  unfold Gen.Stat.rdfExpr Gen.Stat.normCross
  have hc' : x2 ^ 3 - x1 ^ 3 ≠ 0 := by intro h; apply hc; rw [← h]; ring
  field_simp

theorem rdfExpr_ideal_gas_same (V x1 x2 p n : Rat) (hV : V ≠ 0) (hp : p ≠ 0) (hc : x2 * x2 * x2 - x1 * x1 * x1 ≠ 0) (hn : n ≠ 0) :
    Gen.Stat.rdfExpr V (Gen.Stat.normSame n n) (n * (n - 1) / 2 * (4 / 3 * p * (x2 * x2 * x2 - x1 * x1 * x1)) / V) x1 x2 p = (n - 1) / n := by
  unfold Gen.Stat.rdfExpr Gen.Stat.normSame
  have hc' : x2 ^ 3 - x1 ^ 3 ≠ 0 := by intro h; apply hc; rw [← h]; ring
  field_simp

/-- de-normalising a target and normalising it again is the identity: `CalcDeltaS` inverts `WriteDist` -/
theorem target_inverts_rdf (V norm t x1 x2 p : Rat) (hV : V ≠ 0) (hn : norm ≠ 0) (hp : p ≠ 0) (hc : x2 * x2 * x2 - x1 * x1 * x1 ≠ 0) :
    Gen.Stat.rdfExpr V norm (Gen.Stat.targetExpr V norm t x1 x2 p) x1 x2 p = t := by
  unfold Gen.Stat.rdfExpr Gen.Stat.targetExpr
  have hc' : x2 ^ 3 - x1 ^ 3 ≠ 0 := by intro h; apply hc; rw [← h]; ring
  field_simp

/-- the shells of consecutive bins tile the ball: their cubes telescope (no half-bin offset, no gap, no overlap) -/
theorem shells_telescope (x0 s : Rat) (n : Nat) :
    ((List.range n).map fun (i : Nat) =>
        let x1 := (x0 + (i : Rat) * s) - s / 2
        let x2 := x1 + s
        x2 * x2 * x2 - x1 * x1 * x1).sum
      = (x0 + (n : Rat) * s - s / 2) ^ 3 - (x0 - s / 2) ^ 3 := by
  induction n with
  | zero => simp
  | succ m ih =>
    rw [List.range_succ, List.map_append, List.sum_append, ih]
    simp only [List.map_cons, List.map_nil, List.sum_cons, List.sum_nil]
    push_cast
    ring

/-- the normalisation width is the spacing of the written grid up to 1e-8 of the step -/
theorem normStep_close (d : IDef) : absRat (normStep d - hstep d) ≤ absRat d.step / 100000000 := by
  unfold normStep
  split
  · have h0 : absRat (hstep d - hstep d) = 0 := by simp [absRat]
    rw [h0]
    have : 0 ≤ absRat d.step := by unfold absRat; split <;> linarith
    linarith
  · rename_i h
    have h' := not_lt.mp h
    have : absRat (d.step - hstep d) = absRat (hstep d - d.step) := by
      unfold absRat
      split <;> split <;> linarith
    rw [this]; exact h'

/-- bonded and three-body distributions integrate to one over the grid they are written on: `Σ y_i · Δx = 1` with `Δx` the
spacing of the written x column (`normStep d`: the histogram's spacing when the range is not a whole number of steps, the `step`
option — equal to it within 1e-8, `normStep_close` — otherwise), for non-negative averaged counts that are not all zero -/
theorem unitDist_integral (d : IDef) (avg : List Rat) (hnn : ∀ h ∈ avg, 0 ≤ h) (hs : 0 < C13.sumAbs avg) (hstep : normStep d ≠ 0) :
    (unitDist d avg).sum * normStep d = 1 := by
  have habs : avg.map absRat = avg := by
    conv_rhs => rw [← List.map_id avg]
    apply List.map_congr_left
    intro h hh
    have := hnn h hh
    simp [absRat, not_lt.mpr this]
  have hsum : ∀ (l : List Rat) (c : Rat), (l.map fun h => 1 * h / c).sum = l.sum / c := by
    intro l c
    induction l with
    | nil => simp
    | cons x xs ih => simp only [List.map_cons, List.sum_cons, ih]; ring
  have hs' : C13.sumAbs avg = avg.sum := by unfold C13.sumAbs; rw [habs]
  unfold unitDist
  simp only [Gen.Stat.unitExpr]
  rw [if_pos hs, hsum, hs']
  have : avg.sum ≠ 0 := by rw [hs'] at hs; exact hs.ne'
  field_simp

/-- without `--block-length` the one output written at the end averages over all merged frames (and their volumes) -/
theorem run_final (defs : List IDef) (fs : List FrameData) (h : fs ≠ []) :
    run defs 0 fs = [mkOut defs 0 fs (fs.map (·.vol))] := by
  unfold run
  rw [foldl_merge_noblock]
  simp [h]

/-- block output restarts the averages: a run over whole blocks `b₁ … b_m` followed by fewer than `L` left-over frames
writes, for block `i`, exactly the statistic of the frames (and box volumes) of `b_i` alone — the output a run over
`b_i` only would write — and nothing for the left-over frames -/
theorem block_restart (defs : List IDef) (L : Nat) (hL : 0 < L) (bs : List (List FrameData)) (tail : List FrameData)
    (hb : ∀ b ∈ bs, b.length = L) (ht : tail.length < L) :
    run defs L (bs.flatten ++ tail) = (bs.zipIdx 0).map fun (b, i) => mkOut defs (i + 1) b (b.map (·.vol)) := by
  unfold run
  rw [List.foldl_append, foldl_merge_blocks defs L hL bs _ hb rfl rfl, foldl_merge_short _ _ _ _ (by simpa using ht)]
  simp [Nat.pos_iff_ne_zero.mp hL]

/-- the numbers of a block output and of a standalone final output over the same frames coincide -/
theorem block_equals_standalone (defs : List IDef) (b : Nat) (fs : List FrameData) :
    (mkOut defs b fs (fs.map (·.vol))).vbar = (mkOut defs 0 fs (fs.map (·.vol))).vbar ∧
    (mkOut defs b fs (fs.map (·.vol))).avgs = (mkOut defs 0 fs (fs.map (·.vol))).avgs := ⟨rfl, rfl⟩

/-- the hypotheses are satisfiable: two blocks of two frames and one left-over frame give two outputs -/
example : (run [] 2 (([[⟨1, []⟩, ⟨2, []⟩], [⟨3, []⟩, ⟨5, []⟩]] : List (List FrameData)).flatten ++ [⟨7, []⟩])).map (·.vbar) = [3 / 2, 4] := by
  decide +kernel

end Votca.C04
