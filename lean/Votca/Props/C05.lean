import Votca.Lemmas.C05
/-! # C05 — threaded trajectory analysis is schedule- and thread-count-independent (ordered mode)

All statements are about `Votca.C05.run` (the executable model replayed against the real `CsgApplication` under the
controlled scheduler on every run), for EVERY number of workers `n ≥ 1`, every file length `F ≥ 1` (frames available from the
first selected one), every `--nframes` budget `b` and EVERY schedule (`List Nat` of worker ids; a step of a blocked or finished
worker is a no-op).  Runtime the model cannot exhibit: OS scheduling fairness, memory-model effects inside the evaluation,
pthread semantics of unlocking from another thread (mutexes are binary semaphores here). -/
namespace Votca.C05
open PC

theorem upd_eq_update {β : Type} (f : Nat → β) (i : Nat) (v : β) : upd f i v = Function.update f i v := by
  funext j; unfold upd; by_cases h : j = i <;> simp [h, Function.update]

/-- the model's transition function is the one the invariants were proved for -/
theorem step_eq (n F : Nat) (s : S) (i : Nat) : step n F s i = U.step n F s i := by
  unfold step U.step
  simp only [upd_eq_update]
  cases s.pc i <;> rfl

theorem run_eq (n F : Nat) : ∀ (sched : List Nat) (s : S), run n F s sched = U.run n F s sched
  | [], s => rfl
  | i :: rest, s => by
    unfold run U.run
    rw [step_eq]
    cases h : (if i < n then U.step n F s i else none) with
    | none => exact run_eq n F rest s
    | some s' => exact run_eq n F rest s'

/-- frames are read in file order, each exactly once: the read log is always 0,1,2,… -/
theorem read_in_order (n F : Nat) (hn : 0 < n) (b : Option Nat) (sched : List Nat) :
    (run n F (init b) sched).readLog = List.range (run n F (init b) sched).readLog.length := by
  rw [run_eq]; exact U.read_in_order n F hn b sched

/-- merges happen in frame order at every instant: the merge log is always 0,1,2,… (a prefix of the read log) -/
theorem merge_in_order (n F : Nat) (hn : 0 < n) (b : Option Nat) (sched : List Nat) :
    (run n F (init b) sched).mergeLog = List.range (run n F (init b) sched).mergeLog.length := by
  rw [run_eq]; exact U.merge_in_order n F hn b sched

/-- no two workers are ever inside the trajectory reader -/
theorem reader_mutex (n F : Nat) (hn : 0 < n) (b : Option Nat) (sched : List Nat) (i j : Nat)
    (hi : i < n) (hj : j < n)
    (h1 : (run n F (init b) sched).pc i = inReader) (h2 : (run n F (init b) sched).pc j = inReader) : i = j := by
  rw [run_eq] at h1 h2; exact U.reader_mutex n F hn b sched i j hi hj h1 h2

/-- no two workers are ever inside the merge step -/
theorem merge_mutex (n F : Nat) (hn : 0 < n) (b : Option Nat) (sched : List Nat) (i j f g : Nat)
    (hi : i < n) (hj : j < n)
    (h1 : (run n F (init b) sched).pc i = merging f) (h2 : (run n F (init b) sched).pc j = merging g) : i = j := by
  rw [run_eq] at h1 h2; exact U.merge_mutex n F hn b sched i j f g hi hj h1 h2

/-- **no deadlock**: in every reachable state in which some worker has not finished, some worker can take a step -/
theorem no_deadlock (n F : Nat) (hn : 0 < n) (hF : 1 ≤ F) (b : Option Nat) (sched : List Nat)
    (hnot : ∃ i, i < n ∧ (run n F (init b) sched).pc i ≠ done) :
    ∃ i, i < n ∧ (step n F (run n F (init b) sched) i).isSome = true := by
  rw [run_eq] at hnot
  obtain ⟨i, hi, h⟩ := U.no_deadlock n F hn hF b sched hnot
  exact ⟨i, hi, by rw [step_eq, run_eq]; exact h⟩

/-- **final state**: when all workers are done, exactly the selected frames `0 .. min(budget, F) - 1` were read and merged,
    in file order — whatever the schedule and the number of workers; in particular the same as with one worker -/
theorem final_ordered (n F : Nat) (hn : 0 < n) (hF : 1 ≤ F) (b : Option Nat) (sched : List Nat)
    (hdone : ∀ i, i < n → (run n F (init b) sched).pc i = done) :
    (run n F (init b) sched).mergeLog = List.range (U.target b F) ∧
    (run n F (init b) sched).readLog = List.range (U.target b F) := by
  rw [run_eq] at hdone ⊢; exact U.final_ordered n F hn hF b sched hdone

/-- thread-count independence: any two complete runs (any worker counts, any schedules) merge the same frames in the same order -/
theorem thread_count_independent (n m F : Nat) (hn : 0 < n) (hm : 0 < m) (hF : 1 ≤ F) (b : Option Nat) (s1 s2 : List Nat)
    (h1 : ∀ i, i < n → (run n F (init b) s1).pc i = done) (h2 : ∀ i, i < m → (run m F (init b) s2).pc i = done) :
    (run n F (init b) s1).mergeLog = (run m F (init b) s2).mergeLog := by
  rw [(final_ordered n F hn hF b s1 h1).1, (final_ordered m F hm hF b s2 h2).1]

/-- **termination**: along any schedule at most `10 F + 12 n` steps fire (no livelock) -/
theorem bounded_steps (n F : Nat) (hn : 0 < n) (hF : 1 ≤ F) (b : Option Nat) (sched : List Nat) :
    U.fired n F (init b) sched ≤ U.measure n F (init b) := by
  have := U.bounded_steps n F hF b sched (init b) (U.all_init n F hn hF b)
  omega

/-! non-vacuity: three workers, four frames, an adversarial schedule that completes -/
example : let s := run 2 2 (init none) [1, 0, 0, 0, 0, 0, 1, 1, 1, 1, 0, 1, 0, 0, 0, 1, 1, 1, 1, 0, 0, 0, 0, 0, 1, 1, 1, 1, 1, 0, 0, 0, 0, 0, 0, 1, 1, 1, 1, 1]
    allDone 2 s = true ∧ s.mergeLog = [0, 1] := by decide

end Votca.C05
