import Votca.Model.C15
import Mathlib.Tactic.Ring
import Mathlib.Tactic.FinCases
import Mathlib.Data.Fintype.Basic
import Mathlib.Data.Fin.VecNotation
import Mathlib.Tactic.FieldSimp
import Mathlib.Tactic.Linarith
import Mathlib.Algebra.Order.Field.Basic
import Votca.Lemmas.C15Field
import Mathlib.Analysis.SpecialFunctions.Sqrt
/-! # C15 — property theorems: the static multipole interaction is symmetric and matches point-charge physics

About `Votca/Model/C15.lean` (the polynomials of `VSiteA<9>` in the unit vector, `1/R`, `√3` and the spherical
components).  Proved: exchange symmetry for all 9×9 blocks at once and for every rank gating, the charge–charge limit,
charge–dipole and dipole–dipole point formulas, the field as the dipole derivative of the energy, dependence on the
difference vector only, and the Thole tensor's symmetry, tracelessness in the undamped regime and undamped form for
`au3 ≥ 40`.  Rotation invariance and the convergence of shrinking point-charge clusters (all ranks) are searched
numerically by the check on the implementation (partial). -/
namespace Votca.C15

/-- exchanging the two sites (`a ↦ -a`) leaves the energy unchanged: all 9×9 blocks at once -/
theorem energy_exchange (x y z f s : Rat) (A B : Q9) :
    energy x y z f s A B = energy (-x) (-y) (-z) f s B A := by
  simp only [energy, dot, vSite, Gen.EE.g0, Gen.EE.g1, Gen.EE.g2, Gen.EE.g3, Gen.EE.g4, Gen.EE.c0x, Gen.EE.c0y, Gen.EE.c0z, Gen.EE.c1x, Gen.EE.c1y, Gen.EE.c1z, Gen.EE.c2x, Gen.EE.c2y, Gen.EE.c2z, Gen.EE.c3x, Gen.EE.c3y, Gen.EE.c3z, Gen.EE.c4x, Gen.EE.c4y, Gen.EE.c4z, Gen.EE.m00, Gen.EE.m10, Gen.EE.m11, Gen.EE.m20, Gen.EE.m21, Gen.EE.m22, Gen.EE.m30, Gen.EE.m31, Gen.EE.m32, Gen.EE.m33, Gen.EE.m40, Gen.EE.m41, Gen.EE.m42, Gen.EE.m43, Gen.EE.m44]
  ring

/-- the same for the code's rank gating: `CalcStaticEnergy_site(A,B) = CalcStaticEnergy_site(B,A)` for all nine rank
combinations, provided the moments above a site's rank are zero (what `setMultipole` callers guarantee) -/
theorem energySite_exchange (x y z f s : Rat) (r1 r2 : Nat) (Q1 Q2 : Q9) (h1 : gate r1 Q1 = Q1) (h2 : gate r2 Q2 = Q2) :
    energySite x y z f s r1 r2 Q1 Q2 = energySite (-x) (-y) (-z) f s r2 r1 Q2 Q1 := by
  have hz : ∀ (r : Nat) (Q : Q9), gate r Q = Q → r < 2 →
      ({ Q with q20 := 0, q21c := 0, q21s := 0, q22c := 0, q22s := 0 } : Q9) = Q := by
    intro r Q hg hr
    have hr2 : ¬ (r ≥ 2) := by omega
    rw [← hg]
    simp [gate, hr2]
  unfold energySite
  by_cases hr1 : r1 < 2 <;> by_cases hr2 : r2 < 2 <;>
    simp only [hr1, hr2, if_true, if_false, h1, h2] <;>
    (try rw [hz r1 Q1 h1 hr1]) <;> (try rw [hz r2 Q2 h2 hr2]) <;> exact energy_exchange x y z f s _ _

/-- two charges: `q₁ q₂ / R` -/
theorem charges (x y z f s qa qb : Rat) :
    energy x y z f s ⟨qa, 0, 0, 0, 0, 0, 0, 0, 0⟩ ⟨qb, 0, 0, 0, 0, 0, 0, 0, 0⟩ = qa * qb * f := by
  simp only [energy, dot, vSite, Gen.EE.g0, Gen.EE.g1, Gen.EE.g2, Gen.EE.g3, Gen.EE.g4, Gen.EE.c0x, Gen.EE.c0y, Gen.EE.c0z, Gen.EE.c1x, Gen.EE.c1y, Gen.EE.c1z, Gen.EE.c2x, Gen.EE.c2y, Gen.EE.c2z, Gen.EE.c3x, Gen.EE.c3y, Gen.EE.c3z, Gen.EE.c4x, Gen.EE.c4y, Gen.EE.c4z, Gen.EE.m00, Gen.EE.m10, Gen.EE.m11, Gen.EE.m20, Gen.EE.m21, Gen.EE.m22, Gen.EE.m30, Gen.EE.m31, Gen.EE.m32, Gen.EE.m33, Gen.EE.m40, Gen.EE.m41, Gen.EE.m42, Gen.EE.m43, Gen.EE.m44]; ring

/-- a charge at A and a dipole `μ` at B (`a` from A to B): `-q (a·μ)/R²` -/
theorem charge_dipole (x y z f s q mx my mz : Rat) :
    energy x y z f s ⟨q, 0, 0, 0, 0, 0, 0, 0, 0⟩ ⟨0, mx, my, mz, 0, 0, 0, 0, 0⟩ = -(q * (x * mx + y * my + z * mz) * (f * f)) := by
  simp only [energy, dot, vSite, Gen.EE.g0, Gen.EE.g1, Gen.EE.g2, Gen.EE.g3, Gen.EE.g4, Gen.EE.c0x, Gen.EE.c0y, Gen.EE.c0z, Gen.EE.c1x, Gen.EE.c1y, Gen.EE.c1z, Gen.EE.c2x, Gen.EE.c2y, Gen.EE.c2z, Gen.EE.c3x, Gen.EE.c3y, Gen.EE.c3z, Gen.EE.c4x, Gen.EE.c4y, Gen.EE.c4z, Gen.EE.m00, Gen.EE.m10, Gen.EE.m11, Gen.EE.m20, Gen.EE.m21, Gen.EE.m22, Gen.EE.m30, Gen.EE.m31, Gen.EE.m32, Gen.EE.m33, Gen.EE.m40, Gen.EE.m41, Gen.EE.m42, Gen.EE.m43, Gen.EE.m44]; ring

/-- two dipoles: `(μ₁·μ₂ - 3 (a·μ₁)(a·μ₂))/R³` -/
theorem dipole_dipole (x y z f s ax ay az bx «by» bz : Rat) :
    energy x y z f s ⟨0, ax, ay, az, 0, 0, 0, 0, 0⟩ ⟨0, bx, «by», bz, 0, 0, 0, 0, 0⟩ =
      (ax * bx + ay * «by» + az * bz - 3 * (x * ax + y * ay + z * az) * (x * bx + y * «by» + z * bz)) * (f * f * f) := by
  simp only [energy, dot, vSite, Gen.EE.g0, Gen.EE.g1, Gen.EE.g2, Gen.EE.g3, Gen.EE.g4, Gen.EE.c0x, Gen.EE.c0y, Gen.EE.c0z, Gen.EE.c1x, Gen.EE.c1y, Gen.EE.c1z, Gen.EE.c2x, Gen.EE.c2y, Gen.EE.c2z, Gen.EE.c3x, Gen.EE.c3y, Gen.EE.c3z, Gen.EE.c4x, Gen.EE.c4y, Gen.EE.c4z, Gen.EE.m00, Gen.EE.m10, Gen.EE.m11, Gen.EE.m20, Gen.EE.m21, Gen.EE.m22, Gen.EE.m30, Gen.EE.m31, Gen.EE.m32, Gen.EE.m33, Gen.EE.m40, Gen.EE.m41, Gen.EE.m42, Gen.EE.m43, Gen.EE.m44]; ring

/-- the field accumulated on the polarisable site is the derivative of the pair energy in that site's dipole: the energy is
affine in the dipole with exactly these coefficients -/
theorem field_is_dE_dmu (x y z f s : Rat) (A B : Q9) (ex ey ez : Rat) :
    energy x y z f s { A with dx := A.dx + ex, dy := A.dy + ey, dz := A.dz + ez } B - energy x y z f s A B =
      ex * (vSite x y z f s B).dx + ey * (vSite x y z f s B).dy + ez * (vSite x y z f s B).dz := by
  simp only [energy, dot]; ring

/-- `fieldSite` is that coefficient vector -/
theorem fieldSite_eq (x y z f s : Rat) (r1 : Nat) (Q1 : Q9) :
    fieldSite x y z f s r1 Q1 = ((vSite x y z f s (gate r1 Q1)).dx, (vSite x y z f s (gate r1 Q1)).dy, (vSite x y z f s (gate r1 Q1)).dz) := rfl

/-- the Thole tensor is symmetric -/
theorem thole_symmetric (x y z f au3 e : Rat) (i j : Fin 3) :
    ((thole x y z f au3 e).getD i.val []).getD j.val 0 = ((thole x y z f au3 e).getD j.val []).getD i.val 0 := by
  fin_cases i <;> fin_cases j <;> simp [thole] <;> ring

/-- for `au3 ≥ 40` the code uses the undamped tensor `(1 - 3 a aᵀ)/R³`, which is traceless for a unit vector -/
theorem thole_undamped_traceless (x y z f au3 e : Rat) (h : 40 ≤ au3) (hu : x * x + y * y + z * z = 1) :
    ((thole x y z f au3 e).getD 0 []).getD 0 0 + ((thole x y z f au3 e).getD 1 []).getD 1 0 + ((thole x y z f au3 e).getD 2 []).getD 2 0 = 0 := by
  have hn : ¬ au3 < 40 := not_lt.mpr h
  simp [thole, hn]
  have : -(3 * (f * f * f) * x * x) + f * f * f + (-(3 * (f * f * f) * y * y) + f * f * f) + (-(3 * (f * f * f) * z * z) + f * f * f)
      = 3 * (f * f * f) * (1 - (x * x + y * y + z * z)) := by ring
  rw [this, hu]; ring

/-- and the damped tensor tends to it: with `e = 0` (the limit of `exp(-au3)`) both branches coincide -/
theorem thole_large_separation (x y z f au3 au3' : Rat) (h' : 40 ≤ au3') : thole x y z f au3 0 = thole x y z f au3' 0 := by
  have hn : ¬ au3' < 40 := not_lt.mpr h'
  by_cases h : au3 < 40 <;> simp [thole, h, hn]

/-! ## rotation invariance for ranks 0 and 1 over the rationals (no √3 involved); all ranks: end of this file -/

/-- closed form of the pair energy for sites of rank at most 1 (a charge and a dipole each): everything is a dot product -/
theorem rank1_closed_form (x y z f s qa ax ay az qb bx «by» bz : Rat) :
    energy x y z f s ⟨qa, ax, ay, az, 0, 0, 0, 0, 0⟩ ⟨qb, bx, «by», bz, 0, 0, 0, 0, 0⟩ =
      qa * qb * f - qa * (x * bx + y * «by» + z * bz) * (f * f) + qb * (x * ax + y * ay + z * az) * (f * f) +
      (ax * bx + ay * «by» + az * bz - 3 * (x * ax + y * ay + z * az) * (x * bx + y * «by» + z * bz)) * (f * f * f) := by
  simp only [energy, dot, vSite, Gen.EE.g0, Gen.EE.g1, Gen.EE.g2, Gen.EE.g3, Gen.EE.g4, Gen.EE.c0x, Gen.EE.c0y, Gen.EE.c0z, Gen.EE.c1x, Gen.EE.c1y, Gen.EE.c1z, Gen.EE.c2x, Gen.EE.c2y, Gen.EE.c2z, Gen.EE.c3x, Gen.EE.c3y, Gen.EE.c3z, Gen.EE.c4x, Gen.EE.c4y, Gen.EE.c4z, Gen.EE.m00, Gen.EE.m10, Gen.EE.m11, Gen.EE.m20, Gen.EE.m21, Gen.EE.m22, Gen.EE.m30, Gen.EE.m31, Gen.EE.m32, Gen.EE.m33, Gen.EE.m40, Gen.EE.m41, Gen.EE.m42, Gen.EE.m43, Gen.EE.m44]; ring

/-- a linear map of 3-vectors given by its nine entries -/
def rot (r : Fin 3 → Fin 3 → Rat) (v : Rat × Rat × Rat) : Rat × Rat × Rat :=
  (r 0 0 * v.1 + r 0 1 * v.2.1 + r 0 2 * v.2.2, r 1 0 * v.1 + r 1 1 * v.2.1 + r 1 2 * v.2.2, r 2 0 * v.1 + r 2 1 * v.2.1 + r 2 2 * v.2.2)

def dot3 (u v : Rat × Rat × Rat) : Rat := u.1 * v.1 + u.2.1 * v.2.1 + u.2.2 * v.2.2

/-- **rotation invariance for ranks 0 and 1**: rotating the connection direction and both dipoles by the same map that preserves dot
    products (an orthogonal matrix) leaves the pair energy unchanged -/
theorem rank1_rotation_invariant (r : Fin 3 → Fin 3 → Rat) (horth : ∀ u v, dot3 (rot r u) (rot r v) = dot3 u v)
    (a ma mb : Rat × Rat × Rat) (f s qa qb : Rat) :
    energy (rot r a).1 (rot r a).2.1 (rot r a).2.2 f s ⟨qa, (rot r ma).1, (rot r ma).2.1, (rot r ma).2.2, 0, 0, 0, 0, 0⟩
        ⟨qb, (rot r mb).1, (rot r mb).2.1, (rot r mb).2.2, 0, 0, 0, 0, 0⟩ =
      energy a.1 a.2.1 a.2.2 f s ⟨qa, ma.1, ma.2.1, ma.2.2, 0, 0, 0, 0, 0⟩ ⟨qb, mb.1, mb.2.1, mb.2.2, 0, 0, 0, 0, 0⟩ := by
  rw [rank1_closed_form, rank1_closed_form]
  have h1 := horth a mb
  have h2 := horth a ma
  have h3 := horth ma mb
  unfold dot3 at h1 h2 h3
  rw [h1, h2, h3]

/-- non-vacuity: the rotation by 90 degrees about z preserves dot products -/
example : ∀ u v : Rat × Rat × Rat, dot3 (rot (fun i j => if (i, j) = (0, 1) then -1 else if (i, j) = (1, 0) then 1 else if (i, j) = (2, 2) then 1 else 0) u)
    (rot (fun i j => if (i, j) = (0, 1) then -1 else if (i, j) = (1, 0) then 1 else if (i, j) = (2, 2) then 1 else 0) v) = dot3 u v := by
  intro u v
  simp [dot3, rot]
  ring

/-! ## all ranks: Cartesian closed form and rotation invariance (over a field of characteristic zero with `s² = 3`: the reals with `s = √3`) -/

/-- the rational executable model is the field model at `K = ℚ` (so the statements below are about the same function the check runs) -/
theorem model_is_field_model (x y z f s : ℚ) (A B : Q9) : energy x y z f s A B = energyK x y z f s (toK A) (toK B) :=
  energy_eq_energyK x y z f s A B

/-- **closed form, all ranks**: the spherical-tensor expression assembled from the generated entries of `eeInteractor::VSiteA` is the
    Cartesian multipole expansion up to quadrupole–quadrupole (coefficients 1, ∓1, 1/−3, 1, ∓2/±5, 2/3, −20/3, 35/3) -/
theorem closed_form_all_ranks {K : Type} [Field K] [CharZero K] (x y z f s : K) (A B : Q9K K) (hs : s * s = 3) (hu : x * x + y * y + z * z = 1) :
    energyK x y z f s A B = Ecl ![x, y, z] f A.q B.q (muK A) (muK B) (thetaK s A) (thetaK s B) :=
  energy_closed_form x y z f s A B hs hu

/-- **rotation invariance, all ranks**: a common rotation (any matrix with `Rᵀ R = 1`) of the connection direction and of both sites'
    moments — the quadrupoles through `CalculateCartesianMultipole`, `R Θ Rᵀ`, `CalculateSphericalMultipole` as `StaticSite::Rotate`
    does it — leaves the pair energy unchanged -/
theorem rotation_invariant_all_ranks {K : Type} [Field K] [CharZero K] (R : Matrix (Fin 3) (Fin 3) K) (hR : R.transpose * R = 1)
    (x y z f s : K) (A B : Q9K K) (hs : s * s = 3) (hu : x * x + y * y + z * z = 1) :
    energyK ((R.mulVec ![x, y, z]) 0) ((R.mulVec ![x, y, z]) 1) ((R.mulVec ![x, y, z]) 2) f s (rotQ R s A) (rotQ R s B) = energyK x y z f s A B :=
  energyK_rotation_invariant R hR x y z f s A B hs hu

/-- non-vacuity: over the reals `s = √3` has square 3, the direction (0, 3/5, 4/5) is a unit vector, and the quarter turn about z is a rotation -/
example : Real.sqrt 3 * Real.sqrt 3 = 3 ∧ ((0 : ℝ) * 0 + 3 / 5 * (3 / 5) + 4 / 5 * (4 / 5) = 1) ∧
    (!![0, -1, 0; 1, 0, 0; 0, 0, 1] : Matrix (Fin 3) (Fin 3) ℝ).transpose * !![0, -1, 0; 1, 0, 0; 0, 0, 1] = 1 := by
  refine ⟨Real.mul_self_sqrt (by norm_num), by norm_num, ?_⟩
  ext i j
  fin_cases i <;> fin_cases j <;> simp [Matrix.mul_apply, Fin.sum_univ_three, Matrix.transpose_apply]

end Votca.C15
