import Votca.Lemmas.C01
import Votca.Lemmas.Vec3
import Votca.Lemmas.RoundHA
import Votca.Props.C02
import Mathlib.Algebra.BigOperators.Group.List.Basic
import Mathlib.Algebra.BigOperators.Ring.List
/-! # C01 — the coarse-grained mapping is the weighted, periodic-image-aware linear map

Theorems about `Votca/Model/C01.lean` (Map_Sphere::Initialize / Apply; exact arithmetic). -/
namespace Votca.C01
open Votca Votca.C02

/-! ## weights -/

/-- the weights that enter the position are normalised: they sum to one -/
theorem weights_normalised (ws : List Rat) (hs : ws.sum ≠ 0) : ((ws.map (· * (1 / ws.sum)))).sum = 1 := by
  rw [sum_map_mul_right]; field_simp

/-- without `d` coefficients the force weight is 1 for every parent that carries weight and 0 otherwise:
    the force on the bead is the plain sum of the forces on its weighted parents -/
theorem force_weight_without_d (w : Rat) : (if w != 0 then w / w else 0) = (if w != 0 then (1 : Rat) else 0) := by
  by_cases h : w = 0
  · simp [h]
  · simp [h]

/-- with `d` coefficients the force weight times the weight is the normalised `d` coefficient (`d̂_i / ŵ_i · ŵ_i = d̂_i`) -/
theorem force_weight_with_d (w d : Rat) (h : w ≠ 0) : (if w != 0 then d / w else 0) * w = d := by
  simp [h]

/-! ## mass, rejection -/

theorem apply_mass (bt : BoxType) (B : Box) (parents : List Parent) (wf : List (Rat × Rat)) (b : CGBead)
    (h : apply bt B parents wf = .ok b) : b.mass = (parents.map (·.mass)).sum := by
  unfold apply at h
  simp only [] at h
  split at h
  · cases h
  · cases h; rfl

/-- a bead is mapped only if no parent is farther than half the shortest box height from the first parent … -/
theorem accepted_within_half_box (bt : BoxType) (B : Box) (parents : List Parent) (wf : List (Rat × Rat)) (b : CGBead)
    (hb : bt ≠ BoxType.open_) (h : apply bt B parents wf = .ok b) :
    maxDistSq bt B (refPoint parents) parents ≤ minHeightSq B / 4 := by
  unfold apply at h
  simp only [] at h
  split at h
  · cases h
  · rename_i hc
    simp only [Bool.and_eq_true, bne_iff_ne, ne_eq, decide_eq_true_eq, not_and, not_lt] at hc
    exact hc hb

/-- … and it is rejected with an error, never silently mapped, as soon as one is -/
theorem far_parent_rejected (bt : BoxType) (B : Box) (parents : List Parent) (wf : List (Rat × Rat))
    (hb : bt ≠ BoxType.open_) (hfar : minHeightSq B / 4 < maxDistSq bt B (refPoint parents) parents) :
    apply bt B parents wf = .error .halfBox := by
  unfold apply
  have : (bt != BoxType.open_ && decide (maxDistSq bt B (refPoint parents) parents > minHeightSq B / 4)) = true := by
    simp [hb, hfar]
  simp only [this, if_true]

theorem parent_dist_le_max (bt : BoxType) (B : Box) (r0 : V3) (parents : List Parent) (p : Parent) (r : V3)
    (hp : p ∈ parents) (hr : p.pos = some r) : (mic bt B r0 r).normSq ≤ maxDistSq bt B r0 parents := by
  unfold maxDistSq
  apply (le_foldl_max _ 0).2
  rw [List.mem_filterMap]
  exact ⟨p, hp, by simp [hr]⟩

/-! ## the position: translation, image shifts, convex hull -/

/-- the minimum-image connection depends on the difference of its arguments only -/
theorem mic_translate (bt : BoxType) (B : Box) (r0 r t : V3) : mic bt B (r0 + t) (r + t) = mic bt B r0 r := by
  have : (r + t) - (r0 + t) = r - r0 := by apply V3.ext3 <;> simp <;> ring
  cases bt <;> simp only [mic, micOpen, micOrtho, micTri, this]

/-- **rigid translation.**  Moving all atoms by `t` moves the bead by `t` (normalised weights). -/
theorem cgPos_translate (bt : BoxType) (B : Box) (r0 t : V3) (prs : List (V3 × Rat)) (hs : (prs.map (·.2)).sum = 1) :
    cgPos bt B (r0 + t) (prs.map fun q => (q.1 + t, q.2)) = cgPos bt B r0 prs + t := by
  have key : ∀ (f : V3 → Rat) (hf : ∀ a b : V3, f (a + b) = f a + f b) (hm : ∀ (k : Rat) (a : V3), f (k * a) = k * f a),
      ((prs.map fun q => (q.1 + t, q.2)).map fun q => f (q.2 * (mic bt B (r0 + t) q.1 + (r0 + t)))).sum =
      (prs.map fun q => f (q.2 * (mic bt B r0 q.1 + r0))).sum + f t := by
    intro f hf hm
    have pt : ∀ q : V3 × Rat, f (q.2 * (mic bt B (r0 + t) (q.1 + t) + (r0 + t))) = f (q.2 * (mic bt B r0 q.1 + r0)) + q.2 * f t := by
      intro q; rw [mic_translate, hm, hm, hf, hf, hf]; ring
    rw [List.map_map]
    have hfun : ((fun q : V3 × Rat => f (q.2 * (mic bt B (r0 + t) q.1 + (r0 + t)))) ∘ fun (q : V3 × Rat) => (q.1 + t, q.2))
        = fun (q : V3 × Rat) => f (q.2 * (mic bt B r0 q.1 + r0)) + q.2 * f t := funext (fun q => pt q)
    rw [hfun, List.sum_map_add, List.sum_map_mul_right, hs, one_mul]
  apply V3.ext3
  · simp only [cgPos, vsum_x, List.map_map, add_x]
    have := key (·.x) (fun a b => rfl) (fun k a => rfl)
    simpa [List.map_map, Function.comp_def] using this
  · simp only [cgPos, vsum_y, List.map_map, add_y]
    have := key (·.y) (fun a b => rfl) (fun k a => rfl)
    simpa [List.map_map, Function.comp_def] using this
  · simp only [cgPos, vsum_z, List.map_map, add_z]
    have := key (·.z) (fun a b => rfl) (fun k a => rfl)
    simpa [List.map_map, Function.comp_def] using this

/-- **periodic images.**  Replacing parent positions by other periodic images that the boundary condition maps to the same
    connection vector (which C02 proves for whole box vectors: `ortho_shift_invariant`, `tri_minimum_image`) leaves the bead
    where it is. -/
theorem cgPos_image_invariant (bt : BoxType) (B : Box) (r0 : V3) (prs prs' : List (V3 × Rat))
    (hlen : prs.length = prs'.length)
    (h : ∀ i (hi : i < prs.length), (prs'[i]'(hlen ▸ hi)).2 = (prs[i]).2 ∧
        mic bt B r0 (prs'[i]'(hlen ▸ hi)).1 = mic bt B r0 (prs[i]).1) :
    cgPos bt B r0 prs' = cgPos bt B r0 prs := by
  unfold cgPos
  congr 1
  apply List.ext_getElem (by simp [hlen])
  intro i h1 h2
  simp only [List.getElem_map]
  have hi : i < prs.length := by simpa using h2
  obtain ⟨e1, e2⟩ := h i hi
  rw [show (prs'[i]'(by simpa using h1)) = ((prs'[i]'(hlen ▸ hi)).1, (prs'[i]'(hlen ▸ hi)).2) from rfl]
  rw [show prs[i] = (prs[i].1, prs[i].2) from rfl]
  simp only [e1, e2]

/-- convex hull, one coordinate `f`: with non-negative weights summing to one the bead lies between the extreme
    unwrapped parents -/
theorem cg_between (f : V3 → Rat) (hf : ∀ a b : V3, f (a + b) = f a + f b) (hm : ∀ (k : Rat) (a : V3), f (k * a) = k * f a)
    (bt : BoxType) (B : Box) (r0 : V3) (prs : List (V3 × Rat)) (lo hi : Rat)
    (hw : ∀ q ∈ prs, 0 ≤ q.2) (hlo : ∀ q ∈ prs, lo ≤ f (mic bt B r0 q.1 + r0)) (hhi : ∀ q ∈ prs, f (mic bt B r0 q.1 + r0) ≤ hi) :
    (prs.map (·.2)).sum * lo ≤ (prs.map fun q => f (q.2 * (mic bt B r0 q.1 + r0))).sum ∧
    (prs.map fun q => f (q.2 * (mic bt B r0 q.1 + r0))).sum ≤ (prs.map (·.2)).sum * hi := by
  induction prs with
  | nil => simp
  | cons q qs ih =>
    obtain ⟨r, w⟩ := q
    simp only [List.map_cons, List.sum_cons]
    rw [hm w (mic bt B r0 r + r0)]
    have hw0 : 0 ≤ w := hw (r, w) (by simp)
    obtain ⟨a, b⟩ := ih (fun x hx => hw x (by simp [hx])) (fun x hx => hlo x (by simp [hx])) (fun x hx => hhi x (by simp [hx]))
    have h1 : lo ≤ f (mic bt B r0 r + r0) := hlo (r, w) (by simp)
    have h2 : f (mic bt B r0 r + r0) ≤ hi := hhi (r, w) (by simp)
    constructor
    · nlinarith [mul_le_mul_of_nonneg_left h1 hw0]
    · nlinarith [mul_le_mul_of_nonneg_left h2 hw0]

theorem cgPos_in_hull_x (bt : BoxType) (B : Box) (r0 : V3) (prs : List (V3 × Rat)) (lo hi : Rat)
    (hs : (prs.map (·.2)).sum = 1) (hw : ∀ q ∈ prs, 0 ≤ q.2)
    (hlo : ∀ q ∈ prs, lo ≤ (mic bt B r0 q.1 + r0).x) (hhi : ∀ q ∈ prs, (mic bt B r0 q.1 + r0).x ≤ hi) :
    lo ≤ (cgPos bt B r0 prs).x ∧ (cgPos bt B r0 prs).x ≤ hi := by
  have := cg_between (·.x) (fun a b => rfl) (fun k a => rfl) bt B r0 prs lo hi hw hlo hhi
  rw [hs, one_mul, one_mul] at this
  simpa [cgPos, vsum_x, List.map_map, Function.comp_def] using this

theorem cgPos_in_hull_y (bt : BoxType) (B : Box) (r0 : V3) (prs : List (V3 × Rat)) (lo hi : Rat)
    (hs : (prs.map (·.2)).sum = 1) (hw : ∀ q ∈ prs, 0 ≤ q.2)
    (hlo : ∀ q ∈ prs, lo ≤ (mic bt B r0 q.1 + r0).y) (hhi : ∀ q ∈ prs, (mic bt B r0 q.1 + r0).y ≤ hi) :
    lo ≤ (cgPos bt B r0 prs).y ∧ (cgPos bt B r0 prs).y ≤ hi := by
  have := cg_between (·.y) (fun a b => rfl) (fun k a => rfl) bt B r0 prs lo hi hw hlo hhi
  rw [hs, one_mul, one_mul] at this
  simpa [cgPos, vsum_y, List.map_map, Function.comp_def] using this

theorem cgPos_in_hull_z (bt : BoxType) (B : Box) (r0 : V3) (prs : List (V3 × Rat)) (lo hi : Rat)
    (hs : (prs.map (·.2)).sum = 1) (hw : ∀ q ∈ prs, 0 ≤ q.2)
    (hlo : ∀ q ∈ prs, lo ≤ (mic bt B r0 q.1 + r0).z) (hhi : ∀ q ∈ prs, (mic bt B r0 q.1 + r0).z ≤ hi) :
    lo ≤ (cgPos bt B r0 prs).z ∧ (cgPos bt B r0 prs).z ≤ hi := by
  have := cg_between (·.z) (fun a b => rfl) (fun k a => rfl) bt B r0 prs lo hi hw hlo hhi
  rw [hs, one_mul, one_mul] at this
  simpa [cgPos, vsum_z, List.map_map, Function.comp_def] using this

/-- what `Apply` returns for the position is `cgPos` over the parents that have one -/
theorem apply_pos (bt : BoxType) (B : Box) (parents : List Parent) (wf : List (Rat × Rat)) (b : CGBead)
    (h : apply bt B parents wf = .ok b) (hp : parents.any (·.pos.isSome) = true) :
    b.pos = some (cgPos bt B (refPoint parents) (posWeights parents wf)) := by
  unfold apply at h
  simp only [] at h
  split at h
  · cases h
  · cases h; simp [hp]

/-! non-vacuity: a molecule cut by a box face -/
example : (match apply .ortho ⟨⟨4, 0, 0⟩, ⟨0, 4, 0⟩, ⟨0, 0, 4⟩⟩
    [⟨some ⟨15/4, 0, 0⟩, none, none, 12⟩, ⟨some ⟨1/4, 0, 0⟩, none, none, 4⟩] [(3/4, 1), (1/4, 1)] with
    | .ok b => b.mass == 16 && b.pos == some ⟨31/8, 0, 0⟩
    | .error _ => false) = true := by decide +kernel

end Votca.C01
