import Votca.Model.C20
/-! # C20 — machine-checked witnesses of the recorded finding (KNOWN_FINDINGS.txt)

This module is NOT an obligation of the check: when the finding is repaired in votca/votca these statements stop
being true, which is reported as a note ("known finding no longer reproduces"), never as a violation. -/
namespace Votca.C20
open Votca.Gen.Units

/-- negation of the full statement on the current tree: `conv::kcal2kj` (4.18679994, International-Table calorie)
    is not the thermochemical 4.184 that `unitconverter.h` and LAMMPS `real` units use, to four digits -/
theorem kcal2kj_counterexample : constOK "kcal2kj" kcal2kj = false ∧ crossOK1 "kcal2kj" kcal2kj = false := by decide +kernel

theorem constants_full_statement_fails : ¬ (constantsOK = true ∧ crossOK = true) := by decide +kernel

end Votca.C20
