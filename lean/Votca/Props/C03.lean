import Votca.Lemmas.C03
import Votca.Props.C02
import Mathlib.Data.List.Nodup
import Mathlib.Tactic.Linarith
import Mathlib.Tactic.LinearCombination
import Votca.Lemmas.Vec3
import Mathlib.Tactic.Positivity
import Mathlib.Tactic.FieldSimp
/-! # C03 — the neighbour search finds exactly the pairs within the cutoff, once

List-level theorems hold for every bead list, every closeness predicate and every assignment of cells; the geometric
theorems supply their hypotheses from the cell construction of `NBListGrid::InitializeGrid` / `getCell`. -/
namespace Votca.C03
open Votca Votca.C02

/-! ## list level -/

/-- **one list.**  With duplicate-free cell lists that contain the cell of every bead within the cutoff, the grid search
    reports exactly the brute-force pairs (each unordered pair within the cutoff once) — as a permutation, because the scan
    order differs.  `brutePairs` is also what the simple search `NBList::Generate(list)` enumerates. -/
theorem grid_exact (cell : Nat → Cell) (cells : Nat → List Cell) (close : Nat → Nat → Bool)
    (hnd : ∀ b, (cells b).Nodup)
    (hcomplete : ∀ e b, close e b = true → cell e ∈ cells b) (beads : List Nat) :
    (gridPairs cell cells close beads).Perm (brutePairs close beads) := by
  unfold gridPairs brutePairs
  suffices H : ∀ (bs seen : List Nat) (p q : List (Nat × Nat)), p.Perm q →
      ((bs.foldl (gridStep cell cells close) (seen, p)).2).Perm ((bs.foldl (bruteStep close) (seen, q)).2) by
    exact H beads [] [] [] (List.Perm.refl _)
  intro bs
  induction bs with
  | nil => intro seen p q h; simpa using h
  | cons b bs ih =>
    intro seen p q h
    simp only [List.foldl_cons, gridStep, bruteStep]
    apply ih
    apply List.Perm.append h
    apply List.Perm.map
    have h1 := (scan_perm cell seen (cells b) (hnd b)).filter (fun e => close e b)
    refine h1.trans (List.Perm.of_eq ?_)
    rw [List.filter_filter]
    apply List.filter_congr
    intro e _
    by_cases hc : close e b = true
    · simp [hc, hcomplete e b hc]
    · simp [hc]

/-- **two lists** (`Generate(list1, list2)`): every bead of the second list against all beads of the first -/
theorem grid_exact2 (cell : Nat → Cell) (cells : Nat → List Cell) (close : Nat → Nat → Bool)
    (hnd : ∀ b, (cells b).Nodup)
    (hcomplete : ∀ e b, close e b = true → cell e ∈ cells b) (l1 l2 : List Nat) :
    (gridPairs2 cell cells close l1 l2).Perm (brutePairs2 close l1 l2) := by
  unfold gridPairs2 brutePairs2
  induction l2 with
  | nil => simp
  | cons b bs ih =>
    simp only [List.flatMap_cons]
    apply List.Perm.append _ ih
    apply List.Perm.map
    have h1 := (scan_perm cell l1 (cells b) (hnd b)).filter (fun e => close e b)
    refine h1.trans (List.Perm.of_eq ?_)
    rw [List.filter_filter]
    apply List.filter_congr
    intro e _
    by_cases hc : close e b = true
    · simp [hc, hcomplete e b hc]
    · simp [hc]

/-- the brute-force list contains a pair exactly when the earlier bead is within the cutoff of the later one:
    every such pair, and nothing else -/
theorem brutePairs_mem (close : Nat → Nat → Bool) (beads : List Nat) (e b : Nat) :
    (e, b) ∈ brutePairs close beads ↔ ∃ pre post, beads = pre ++ b :: post ∧ e ∈ pre ∧ close e b = true := by
  unfold brutePairs
  suffices H : ∀ (bs seen : List Nat) (acc : List (Nat × Nat)),
      (e, b) ∈ (bs.foldl (bruteStep close) (seen, acc)).2 ↔
        ((e, b) ∈ acc ∨ ∃ pre post, bs = pre ++ b :: post ∧ e ∈ seen ++ pre ∧ close e b = true) by
    have := H beads [] []
    simpa using this
  intro bs
  induction bs with
  | nil => intro seen acc; simp
  | cons x xs ih =>
    intro seen acc
    simp only [List.foldl_cons, bruteStep]
    rw [ih]
    constructor
    · rintro (h | ⟨pre, post, hx, he, hc⟩)
      · rcases List.mem_append.1 h with h | h
        · exact Or.inl h
        · simp only [List.mem_map, List.mem_filter] at h
          obtain ⟨e', ⟨he', hc'⟩, heq⟩ := h
          cases heq
          exact Or.inr ⟨[], xs, rfl, by simpa using he', hc'⟩
      · refine Or.inr ⟨x :: pre, post, by simp [hx], ?_, hc⟩
        simp only [List.mem_append, List.mem_cons, List.mem_singleton] at he ⊢
        tauto
    · rintro (h | ⟨pre, post, hx, he, hc⟩)
      · exact Or.inl (List.mem_append.2 (Or.inl h))
      · cases pre with
        | nil =>
          simp only [List.nil_append, List.cons.injEq] at hx
          obtain ⟨rfl, rfl⟩ := hx
          left
          apply List.mem_append.2; right
          simp only [List.mem_map, List.mem_filter]
          exact ⟨e, ⟨by simpa using he, hc⟩, rfl⟩
        | cons y ys =>
          simp only [List.cons_append, List.cons.injEq] at hx
          obtain ⟨rfl, rfl⟩ := hx
          right
          refine ⟨ys, post, rfl, ?_, hc⟩
          simp only [List.mem_append, List.mem_cons, List.mem_singleton] at he ⊢
          tauto

/-! ## cell geometry -/

/-- the code's index wrap (`N + a % N` for negatives, then `% N`, truncating `%`) is the Euclidean residue -/
theorem wrapIndex_eq_emod (a N : Int) (hN : 0 < N) : wrapIndex a N = a % N := by
  unfold wrapIndex
  simp only []
  split
  · rename_i ha
    have h1 : Int.tmod a N = -((-a) % N) := by
      rw [Int.tmod_eq_emod_of_nonneg (a := -a) (by omega) |>.symm]
      simp [Int.neg_tmod]
    have hr : 0 ≤ (-a) % N := Int.emod_nonneg _ (by omega)
    have hr2 : (-a) % N < N := Int.emod_lt_of_pos _ hN
    rw [h1, Int.tmod_eq_emod_of_nonneg (by omega)]
    have : N + -((-a) % N) = N - (-a) % N := by ring
    rw [this, Int.sub_emod, Int.emod_emod, ← Int.sub_emod]
    have : N - -a = a + N := by ring
    rw [this, Int.add_emod_right]
  · rename_i ha
    exact Int.tmod_eq_emod_of_nonneg (by omega)

theorem wrapIndex_range (a N : Int) (hN : 0 < N) : 0 ≤ wrapIndex a N ∧ wrapIndex a N < N := by
  rw [wrapIndex_eq_emod a N hN]
  exact ⟨Int.emod_nonneg _ (by omega), Int.emod_lt_of_pos _ hN⟩

/-- one direction: the scanned offsets are pairwise distinct modulo `N` … -/
theorem nbrOffsets_distinct (N : Nat) (hN : 0 < N) : ∀ a ∈ nbrOffsets N, ∀ b ∈ nbrOffsets N, (a - b) % (N : Int) = 0 → a = b := by
  intro a ha b hb h
  by_cases h2 : N < 2
  · simp only [nbrOffsets, h2, if_true, List.mem_singleton] at ha hb
    rw [ha, hb]
  · by_cases h3 : N < 3
    · have hN2 : N = 2 := by omega
      subst hN2
      simp only [nbrOffsets] at ha hb
      simp at ha hb
      rcases ha with rfl | rfl <;> rcases hb with rfl | rfl <;> simp_all
    · simp only [nbrOffsets, h2, h3, if_false] at ha hb
      simp at ha hb
      have hge : (3 : Int) ≤ (N : Int) := by omega
      have key : ∀ d : Int, -2 ≤ d → d ≤ 2 → d % (N : Int) = 0 → d = 0 := by
        intro d h1 h2' hm
        have hdvd : (N : Int) ∣ d := Int.dvd_of_emod_eq_zero hm
        obtain ⟨k, hk⟩ := hdvd
        rcases Int.lt_trichotomy k 0 with hk0 | hk0 | hk0
        · nlinarith
        · subst hk0; simpa using hk
        · nlinarith
      have := key (a - b) (by rcases ha with rfl | rfl | rfl <;> rcases hb with rfl | rfl | rfl <;> norm_num)
        (by rcases ha with rfl | rfl | rfl <;> rcases hb with rfl | rfl | rfl <;> norm_num) h
      omega

/-- … and cover every index difference `δ ∈ {-1, 0, 1}` modulo `N` (for 1, 2 and ≥ 3 cells) -/
theorem nbrOffsets_complete (N : Nat) (hN : 0 < N) (δ : Int) (hδ : δ = -1 ∨ δ = 0 ∨ δ = 1) :
    ∃ o ∈ nbrOffsets N, (δ - o) % (N : Int) = 0 := by
  unfold nbrOffsets
  split
  · have : N = 1 := by omega
    subst this
    exact ⟨0, by simp, by simp⟩
  · split
    · have : N = 2 := by omega
      subst this
      rcases hδ with rfl | rfl | rfl
      · exact ⟨-1, by simp, by decide⟩
      · exact ⟨0, by simp, by decide⟩
      · exact ⟨-1, by simp, by decide⟩
    · exact ⟨δ, by rcases hδ with rfl | rfl | rfl <;> simp, by simp⟩

/-- if two scaled coordinates differ by less than one cell (up to `m` whole periods of `N` cells), their floor indices
    differ by −1, 0 or 1 modulo `N` -/
theorem cell_adjacent (su sv : Rat) (N m : Int) (h : |su - sv - ((m * N : Int) : Rat)| < 1) :
    ∃ δ : Int, (δ = -1 ∨ δ = 0 ∨ δ = 1) ∧ (su.floor - sv.floor - δ) % N = 0 := by
  obtain ⟨a1, a2⟩ := floorQ_bounds su
  obtain ⟨b1, b2⟩ := floorQ_bounds sv
  rw [abs_lt] at h
  obtain ⟨h1, h2⟩ := h
  have hd1 : ((su.floor - sv.floor - m * N : Int) : Rat) < 2 := by push_cast at h1 h2 ⊢; linarith
  have hd2 : (-2 : Rat) < ((su.floor - sv.floor - m * N : Int) : Rat) := by push_cast at h1 h2 ⊢; linarith
  have hd1' : su.floor - sv.floor - m * N < 2 := by exact_mod_cast hd1
  have hd2' : -2 < su.floor - sv.floor - m * N := by exact_mod_cast hd2
  refine ⟨su.floor - sv.floor - m * N, by omega, ?_⟩
  have : su.floor - sv.floor - (su.floor - sv.floor - m * N) = m * N := by ring
  rw [this]; exact Int.mul_emod_left m N

/-- a connection vector shorter than the cutoff spans less than one cell in the direction of the plane normal `n`:
    with `N` cells over the height `h = det / |n|` and `N · rc ≤ h`, the scaled coordinate `r · (N / det) n` is below 1
    in absolute value (Cauchy–Schwarz by the Lagrange identity; no square roots) -/
theorem short_vector_within_one_cell (r n : V3) (det rc : Rat) (N : Nat) (hdet : det ≠ 0) (hrc : 0 < rc)
    (hN : ((N : Rat) * rc) ^ 2 * n.normSq ≤ det ^ 2) (hr : r.normSq < rc * rc) :
    |V3.dot r (scaledNormal n det N)| < 1 := by
  have cs : (V3.dot r n) ^ 2 ≤ r.normSq * n.normSq := by
    simp only [V3.normSq, V3.dot]
    nlinarith [mul_self_nonneg (r.x * n.y - r.y * n.x), mul_self_nonneg (r.y * n.z - r.z * n.y), mul_self_nonneg (r.z * n.x - r.x * n.z)]
  have hval : V3.dot r (scaledNormal n det N) = (N : Rat) / det * V3.dot r n := by
    simp only [scaledNormal, V3.dot, smul_x, smul_y, smul_z]; ring
  rw [hval]
  have hsq : ((N : Rat) / det * V3.dot r n) ^ 2 < 1 := by
    have hd2 : 0 < det ^ 2 := by positivity
    have hnn : 0 ≤ n.normSq := by simp only [V3.normSq, V3.dot]; nlinarith [mul_self_nonneg n.x, mul_self_nonneg n.y, mul_self_nonneg n.z]
    have hNN : (0 : Rat) ≤ (N : Rat) ^ 2 := by positivity
    have e : ((N : Rat) / det * V3.dot r n) ^ 2 = (N : Rat) ^ 2 * (V3.dot r n) ^ 2 / det ^ 2 := by field_simp
    rw [e, div_lt_one hd2]
    by_cases hn0 : n.normSq = 0
    · have : (V3.dot r n) ^ 2 ≤ 0 := by rw [hn0, mul_zero] at cs; exact cs
      nlinarith [sq_nonneg (V3.dot r n)]
    · have hnpos : 0 < n.normSq := lt_of_le_of_ne hnn (Ne.symm hn0)
      by_cases hN0 : (N : Rat) = 0
      · rw [hN0]; simp; exact hd2
      · have hNpos : (0 : Rat) < (N : Rat) ^ 2 := by positivity
        calc (N : Rat) ^ 2 * (V3.dot r n) ^ 2 ≤ (N : Rat) ^ 2 * (r.normSq * n.normSq) := by
              apply mul_le_mul_of_nonneg_left cs hNN
          _ < (N : Rat) ^ 2 * (rc * rc * n.normSq) := by
              apply mul_lt_mul_of_pos_left _ hNpos
              exact mul_lt_mul_of_pos_right hr hnpos
          _ = ((N : Rat) * rc) ^ 2 * n.normSq := by ring
          _ ≤ det ^ 2 := hN
  have h1 : ((N : Rat) / det * V3.dot r n) ^ 2 < 1 ^ 2 := by simpa using hsq
  have := abs_lt_of_sq_lt_sq' h1 (by norm_num : (0 : Rat) ≤ 1)
  rw [abs_lt]; exact this

/-- the scaled normals are dual to the box vectors: moving along a box vector changes the scaled coordinate by `N` cells
    for its own direction and by nothing for the other two (so periodic images differ by whole multiples of `N`) -/
theorem scaledNormal_dual (B : Box) (N : Nat) (hdet : B.det ≠ 0) :
    V3.dot B.a (scaledNormal (V3.cross B.b B.c) B.det N) = N ∧
    V3.dot B.b (scaledNormal (V3.cross B.b B.c) B.det N) = 0 ∧
    V3.dot B.c (scaledNormal (V3.cross B.b B.c) B.det N) = 0 := by
  refine ⟨?_, ?_, ?_⟩
  · have : V3.dot B.a (scaledNormal (V3.cross B.b B.c) B.det N) = (N : Rat) / B.det * B.det := by
      simp only [scaledNormal, V3.dot, V3.cross, Box.det, smul_x, smul_y, smul_z]; ring
    rw [this]; field_simp
  · simp only [scaledNormal, V3.dot, V3.cross, smul_x, smul_y, smul_z]; ring
  · simp only [scaledNormal, V3.dot, V3.cross, smul_x, smul_y, smul_z]; ring

/-! ## exclusions -/

/-- a pair is excluded exactly when both beads belong to one molecule and share a bonded interaction (order irrelevant) -/
theorem excluded_iff (interactions : List (List Nat)) (mol : Nat → Nat) (i j : Nat) :
    excludedBy interactions mol i j = true ↔ (mol i = mol j ∧ (∃ ia ∈ interactions, i ∈ ia ∧ j ∈ ia) ∧ i ≠ j) := by
  simp [excludedBy, and_assoc]

theorem excluded_symm (interactions : List (List Nat)) (mol : Nat → Nat) (i j : Nat) :
    excludedBy interactions mol i j = excludedBy interactions mol j i := by
  rw [Bool.eq_iff_iff, excluded_iff, excluded_iff]
  constructor
  · rintro ⟨h1, ⟨ia, h2, h3, h4⟩, h5⟩; exact ⟨h1.symm, ⟨ia, h2, h4, h3⟩, Ne.symm h5⟩
  · rintro ⟨h1, ⟨ia, h2, h3, h4⟩, h5⟩; exact ⟨h1.symm, ⟨ia, h2, h4, h3⟩, Ne.symm h5⟩

/-! non-vacuity: three cells per direction, a pair across the periodic boundary -/
example : (cellsFor (3, 3, 3) (0, 0, 0)).length = 27 := by decide
example : (cellsFor (2, 3, 2) (1, 2, 0)).Nodup := by decide

/-! # three-dimensional assembly: the cell lists of `NBListGrid` meet the hypotheses of `grid_exact`

`grid_exact` / `grid_exact2` are stated for abstract cells: duplicate-free cell lists that contain the cell of every bead
within the cutoff.  Here both hypotheses are *proved* for the concrete construction (`cellOf`, `cellsFor`, `cellCounts`)
in any periodic box with non-zero determinant, orthorhombic or triclinic, for any cutoff — also when the box is smaller than
the cutoff in some direction (one cell) or holds exactly two cells — and the end-to-end statement follows: the grid search
on real coordinates reports exactly the brute-force pairs. -/

/-! ## one direction -/

/-- one direction.  `g` is the scaled normal of the direction, `m` the number of box periods between the two points along it:
    when the connection vector spans less than one cell (or there is a single cell) the wrapped cell index of `pu` is the
    wrapped index of `pv` shifted by one of the scanned offsets, exactly in the form `InitializeGrid` computes it. -/
theorem dir_adjacent (g pu pv r : V3) (N : Nat) (hN : 0 < N) (m : Int)
    (hsplit : V3.dot pv g - V3.dot pu g = V3.dot r g + ((m * (N : Int) : Int) : Rat))
    (hshort : N = 1 ∨ |V3.dot r g| < 1) :
    ∃ o ∈ nbrOffsets N, wrapIndex (V3.dot pu g).floor N = (wrapIndex (V3.dot pv g).floor N + (N : Int) + o) % (N : Int) := by
  have hNi : (0 : Int) < (N : Int) := by exact_mod_cast hN
  rw [wrapIndex_eq_emod _ _ hNi, wrapIndex_eq_emod _ _ hNi]
  rcases hshort with h1 | hshort
  · subst h1
    exact ⟨0, by simp [nbrOffsets], by simp [Int.emod_one]⟩
  · have habs : |V3.dot pu g - V3.dot pv g - (((-m) * (N : Int) : Int) : Rat)| < 1 := by
      have e : V3.dot pu g - V3.dot pv g - (((-m) * (N : Int) : Int) : Rat) = -(V3.dot r g) := by
        push_cast at hsplit ⊢; linarith
      rw [e, abs_neg]; exact hshort
    obtain ⟨δ, hδ, hmod⟩ := cell_adjacent (V3.dot pu g) (V3.dot pv g) (N : Int) (-m) habs
    obtain ⟨o, ho, hmo⟩ := nbrOffsets_complete N hN δ hδ
    refine ⟨o, ho, ?_⟩
    have hd1 : (N : Int) ∣ (V3.dot pu g).floor - (V3.dot pv g).floor - δ := Int.dvd_of_emod_eq_zero hmod
    have hd2 : (N : Int) ∣ δ - o := Int.dvd_of_emod_eq_zero hmo
    have hd : (N : Int) ∣ (V3.dot pu g).floor - ((V3.dot pv g).floor + o) := by
      have : (V3.dot pu g).floor - ((V3.dot pv g).floor + o) = ((V3.dot pu g).floor - (V3.dot pv g).floor - δ) + (δ - o) := by ring
      rw [this]; exact Int.dvd_add hd1 hd2
    have e1 : (V3.dot pu g).floor % (N : Int) = ((V3.dot pv g).floor + o) % (N : Int) :=
      Int.emod_eq_emod_iff_emod_sub_eq_zero.2 (Int.emod_eq_zero_of_dvd hd)
    rw [e1]
    have e2 : (V3.dot pv g).floor % (N : Int) + (N : Int) + o = ((V3.dot pv g).floor % (N : Int) + o) + (N : Int) := by ring
    rw [e2, Int.add_emod_right, Int.emod_add_emod]

/-! ## the scaled normals of the other two directions are dual to the box vectors as well -/

theorem scaledNormal_dual_b (B : Box) (N : Nat) (hdet : B.det ≠ 0) :
    V3.dot B.a (scaledNormal (V3.cross B.c B.a) B.det N) = 0 ∧
    V3.dot B.b (scaledNormal (V3.cross B.c B.a) B.det N) = N ∧
    V3.dot B.c (scaledNormal (V3.cross B.c B.a) B.det N) = 0 := by
  refine ⟨?_, ?_, ?_⟩
  · simp only [scaledNormal, V3.dot, V3.cross, smul_x, smul_y, smul_z]; ring
  · have : V3.dot B.b (scaledNormal (V3.cross B.c B.a) B.det N) = (N : Rat) / B.det * B.det := by
      simp only [scaledNormal, V3.dot, V3.cross, Box.det, smul_x, smul_y, smul_z]; ring
    rw [this]; field_simp
  · simp only [scaledNormal, V3.dot, V3.cross, smul_x, smul_y, smul_z]; ring

theorem scaledNormal_dual_c (B : Box) (N : Nat) (hdet : B.det ≠ 0) :
    V3.dot B.a (scaledNormal (V3.cross B.a B.b) B.det N) = 0 ∧
    V3.dot B.b (scaledNormal (V3.cross B.a B.b) B.det N) = 0 ∧
    V3.dot B.c (scaledNormal (V3.cross B.a B.b) B.det N) = N := by
  refine ⟨?_, ?_, ?_⟩
  · simp only [scaledNormal, V3.dot, V3.cross, smul_x, smul_y, smul_z]; ring
  · simp only [scaledNormal, V3.dot, V3.cross, smul_x, smul_y, smul_z]; ring
  · have : V3.dot B.c (scaledNormal (V3.cross B.a B.b) B.det N) = (N : Rat) / B.det * B.det := by
      simp only [scaledNormal, V3.dot, V3.cross, Box.det, smul_x, smul_y, smul_z]; ring
    rw [this]; field_simp

/-- the dot product with a covector splits over `r + lattice` -/
theorem dot_image_split (B : Box) (g pu pv r : V3) (k1 k2 k3 : Int) (himg : pv - pu = r + B.lattice k1 k2 k3) :
    V3.dot pv g - V3.dot pu g = V3.dot r g + ((k1 : Rat) * V3.dot B.a g + (k2 : Rat) * V3.dot B.b g + (k3 : Rat) * V3.dot B.c g) := by
  have hx := congrArg V3.x himg
  have hy := congrArg V3.y himg
  have hz := congrArg V3.z himg
  simp only [Box.lattice, sub_x, sub_y, sub_z, add_x, add_y, add_z, smul_x, smul_y, smul_z] at hx hy hz
  simp only [V3.dot]
  have ex : pv.x = pu.x + (r.x + ((k1 : Rat) * B.a.x + (k2 : Rat) * B.b.x + (k3 : Rat) * B.c.x)) := by linarith
  have ey : pv.y = pu.y + (r.y + ((k1 : Rat) * B.a.y + (k2 : Rat) * B.b.y + (k3 : Rat) * B.c.y)) := by linarith
  have ez : pv.z = pu.z + (r.z + ((k1 : Rat) * B.a.z + (k2 : Rat) * B.b.z + (k3 : Rat) * B.c.z)) := by linarith
  rw [ex, ey, ez]; ring

/-! ## membership in the cell list -/

/-- an element of the offset product is in `cellsFor` (own cell first, the others after the `!= c` filter) -/
theorem mem_cellsFor (Ns : Nat × Nat × Nat) (c : Cell) (oa ob oc : Int)
    (ha : oa ∈ nbrOffsets Ns.1) (hb : ob ∈ nbrOffsets Ns.2.1) (hc : oc ∈ nbrOffsets Ns.2.2) :
    ((c.1 + (Ns.1 : Int) + oa) % (Ns.1 : Int), (c.2.1 + (Ns.2.1 : Int) + ob) % (Ns.2.1 : Int),
      (c.2.2 + (Ns.2.2 : Int) + oc) % (Ns.2.2 : Int)) ∈ cellsFor Ns c := by
  obtain ⟨na, nb, nc⟩ := Ns
  simp only [cellsFor]
  by_cases heq : ((c.1 + (na : Int) + oa) % (na : Int), (c.2.1 + (nb : Int) + ob) % (nb : Int), (c.2.2 + (nc : Int) + oc) % (nc : Int)) = c
  · rw [heq]; exact List.mem_cons_self
  · apply List.mem_cons_of_mem
    rw [List.mem_filter]
    refine ⟨?_, by simpa using heq⟩
    rw [List.mem_flatMap]
    refine ⟨oa, ha, ?_⟩
    rw [List.mem_flatMap]
    refine ⟨ob, hb, ?_⟩
    rw [List.mem_map]
    exact ⟨oc, hc, rfl⟩

/-- **completeness of the cell list, three dimensions.**  Two points one of whose periodic images is closer than the cutoff
    lie in listed cells of each other, provided every direction either has one cell or cells at least one cutoff high. -/
theorem neighbour_cell_listed (B : Box) (Ns : Nat × Nat × Nat) (rc : Rat) (pu pv r : V3) (k1 k2 k3 : Int)
    (hdet : B.det ≠ 0) (hrc : 0 < rc) (h1 : 0 < Ns.1) (h2 : 0 < Ns.2.1) (h3 : 0 < Ns.2.2)
    (ha : Ns.1 = 1 ∨ ((Ns.1 : Rat) * rc) ^ 2 * (V3.cross B.b B.c).normSq ≤ B.det ^ 2)
    (hb : Ns.2.1 = 1 ∨ ((Ns.2.1 : Rat) * rc) ^ 2 * (V3.cross B.c B.a).normSq ≤ B.det ^ 2)
    (hc : Ns.2.2 = 1 ∨ ((Ns.2.2 : Rat) * rc) ^ 2 * (V3.cross B.a B.b).normSq ≤ B.det ^ 2)
    (hr : r.normSq < rc * rc) (himg : pv - pu = r + B.lattice k1 k2 k3) :
    cellOf B Ns pu ∈ cellsFor Ns (cellOf B Ns pv) := by
  obtain ⟨da1, da2, da3⟩ := scaledNormal_dual B Ns.1 hdet
  obtain ⟨db1, db2, db3⟩ := scaledNormal_dual_b B Ns.2.1 hdet
  obtain ⟨dc1, dc2, dc3⟩ := scaledNormal_dual_c B Ns.2.2 hdet
  have sa := dot_image_split B (scaledNormal (V3.cross B.b B.c) B.det Ns.1) pu pv r k1 k2 k3 himg
  have sb := dot_image_split B (scaledNormal (V3.cross B.c B.a) B.det Ns.2.1) pu pv r k1 k2 k3 himg
  have sc := dot_image_split B (scaledNormal (V3.cross B.a B.b) B.det Ns.2.2) pu pv r k1 k2 k3 himg
  rw [da1, da2, da3] at sa
  rw [db1, db2, db3] at sb
  rw [dc1, dc2, dc3] at sc
  obtain ⟨oa, hoa, ea⟩ := dir_adjacent (scaledNormal (V3.cross B.b B.c) B.det Ns.1) pu pv r Ns.1 h1 k1
    (by rw [sa]; push_cast; ring)
    (ha.imp id fun h => short_vector_within_one_cell r _ B.det rc Ns.1 hdet hrc h hr)
  obtain ⟨ob, hob, eb⟩ := dir_adjacent (scaledNormal (V3.cross B.c B.a) B.det Ns.2.1) pu pv r Ns.2.1 h2 k2
    (by rw [sb]; push_cast; ring)
    (hb.imp id fun h => short_vector_within_one_cell r _ B.det rc Ns.2.1 hdet hrc h hr)
  obtain ⟨oc, hoc, ec⟩ := dir_adjacent (scaledNormal (V3.cross B.a B.b) B.det Ns.2.2) pu pv r Ns.2.2 h3 k3
    (by rw [sc]; push_cast; ring)
    (hc.imp id fun h => short_vector_within_one_cell r _ B.det rc Ns.2.2 hdet hrc h hr)
  have hm := mem_cellsFor Ns (cellOf B Ns pv) oa ob oc hoa hob hoc
  have hcell : cellOf B Ns pu = ((( cellOf B Ns pv).1 + (Ns.1 : Int) + oa) % (Ns.1 : Int),
      ((cellOf B Ns pv).2.1 + (Ns.2.1 : Int) + ob) % (Ns.2.1 : Int), ((cellOf B Ns pv).2.2 + (Ns.2.2 : Int) + oc) % (Ns.2.2 : Int)) := by
    simp only [cellOf] at ea eb ec ⊢
    rw [ea, eb, ec]
  rw [hcell]; exact hm

/-! ## the cell list has no duplicates -/

theorem nbrOffsets_nodup (N : Nat) : (nbrOffsets N).Nodup := by
  unfold nbrOffsets
  split
  · simp
  · split <;> decide

/-- shifting by scanned offsets is injective modulo the cell count -/
theorem shift_inj (c : Int) (N : Nat) (hN : 0 < N) (o o' : Int) (ho : o ∈ nbrOffsets N) (ho' : o' ∈ nbrOffsets N)
    (h : (c + (N : Int) + o) % (N : Int) = (c + (N : Int) + o') % (N : Int)) : o = o' := by
  have h0 := Int.emod_eq_emod_iff_emod_sub_eq_zero.1 h
  have e : c + (N : Int) + o - (c + (N : Int) + o') = o - o' := by ring
  rw [e] at h0
  exact nbrOffsets_distinct N hN o ho o' ho' h0

/-- a triple product list is duplicate-free when the component lists are and the combining function is injective on them -/
theorem nodup_triple {β : Type} (A B C : List Int) (f : Int → Int → Int → β) (hA : A.Nodup) (hB : B.Nodup) (hC : C.Nodup)
    (hinj : ∀ a ∈ A, ∀ b ∈ B, ∀ c ∈ C, ∀ a' ∈ A, ∀ b' ∈ B, ∀ c' ∈ C, f a b c = f a' b' c' → a = a' ∧ b = b' ∧ c = c') :
    (A.flatMap fun a => B.flatMap fun b => C.map fun c => f a b c).Nodup := by
  rw [List.nodup_flatMap]
  refine ⟨fun a ha => ?_, hA.pairwise_of_forall_ne fun a ha a' ha' hne => ?_⟩
  · rw [List.nodup_flatMap]
    refine ⟨fun b hb => ?_, hB.pairwise_of_forall_ne fun b hb b' hb' hne => ?_⟩
    · exact hC.map_on fun c hc c' hc' h => (hinj a ha b hb c hc a ha b hb c' hc' h).2.2
    · intro x hx hx'
      obtain ⟨c, hc, rfl⟩ := List.mem_map.1 hx
      obtain ⟨c', hc', h⟩ := List.mem_map.1 hx'
      exact hne (hinj a ha b' hb' c' hc' a ha b hb c hc h).2.1.symm
  · intro x hx hx'
    obtain ⟨b, hb, hx⟩ := List.mem_flatMap.1 hx
    obtain ⟨c, hc, rfl⟩ := List.mem_map.1 hx
    obtain ⟨b', hb', hx'⟩ := List.mem_flatMap.1 hx'
    obtain ⟨c', hc', h⟩ := List.mem_map.1 hx'
    exact hne (hinj a' ha' b' hb' c' hc' a ha b hb c hc h).1.symm

/-- **the cell list of `InitializeGrid` is duplicate-free**, for 1, 2 and ≥ 3 cells per direction in any combination -/
theorem cellsFor_nodup (Ns : Nat × Nat × Nat) (c : Cell) (h1 : 0 < Ns.1) (h2 : 0 < Ns.2.1) (h3 : 0 < Ns.2.2) :
    (cellsFor Ns c).Nodup := by
  obtain ⟨na, nb, nc⟩ := Ns
  simp only [cellsFor]
  rw [List.nodup_cons]
  refine ⟨fun hmem => ?_, List.Nodup.filter _ ?_⟩
  · have := (List.mem_filter.1 hmem).2
    simp at this
  · apply nodup_triple _ _ _ _ (nbrOffsets_nodup na) (nbrOffsets_nodup nb) (nbrOffsets_nodup nc)
    intro a ha b hb c' hc a' ha' b' hb' c'' hc' h
    simp only [Prod.mk.injEq] at h
    exact ⟨shift_inj _ na h1 a a' ha ha' h.1, shift_inj _ nb h2 b b' hb hb' h.2.1, shift_inj _ nc h3 c' c'' hc hc' h.2.2⟩

/-! ## the cell counts of the code meet the height condition -/

/-- `cellCount` is positive, and either 1 or so small that `N` cutoffs fit into the height (`hsq` is the squared height) -/
theorem cellCount_spec (hsq rc : Rat) (hrc : 0 < rc) :
    0 < cellCount hsq rc ∧ (cellCount hsq rc = 1 ∨ ((cellCount hsq rc : Rat) * rc) ^ 2 ≤ hsq) := by
  unfold cellCount
  refine ⟨by omega, ?_⟩
  by_cases hk : isqrtFloor (hsq / (rc * rc)) ≤ 1
  · left; omega
  · right
    have hmax : max (isqrtFloor (hsq / (rc * rc))) 1 = isqrtFloor (hsq / (rc * rc)) := by omega
    rw [hmax]
    unfold isqrtFloor at hk ⊢
    set q := hsq / (rc * rc) with hq
    have hsq_le := Nat.sqrt_le q.floor.toNat
    have hk2 : 2 ≤ Nat.sqrt q.floor.toNat := by omega
    have hpos : 0 < q.floor.toNat := by nlinarith
    have hfl : (0 : Int) < q.floor := by
      by_contra hneg
      have : q.floor.toNat = 0 := Int.toNat_of_nonpos (by omega)
      omega
    have hcast : ((q.floor.toNat : Nat) : Int) = q.floor := Int.toNat_of_nonneg (by omega)
    have hfq : ((q.floor : Int) : Rat) ≤ q := Rat.floor_le q
    have h1 : ((Nat.sqrt q.floor.toNat : Nat) : Rat) * (Nat.sqrt q.floor.toNat : Rat) ≤ q := by
      have h2 : ((Nat.sqrt q.floor.toNat * Nat.sqrt q.floor.toNat : Nat) : Rat) ≤ ((q.floor.toNat : Nat) : Rat) := by exact_mod_cast hsq_le
      have h3 : ((q.floor.toNat : Nat) : Rat) = ((q.floor : Int) : Rat) := by exact_mod_cast congrArg (fun z : Int => (z : Rat)) hcast
      push_cast at h2
      linarith
    have hrr : 0 < rc * rc := by positivity
    have hq' : q * (rc * rc) = hsq := by rw [hq]; field_simp
    calc ((Nat.sqrt q.floor.toNat : Rat) * rc) ^ 2 = ((Nat.sqrt q.floor.toNat : Rat) * (Nat.sqrt q.floor.toNat : Rat)) * (rc * rc) := by ring
      _ ≤ q * (rc * rc) := by apply mul_le_mul_of_nonneg_right h1 (le_of_lt hrr)
      _ = hsq := hq'

/-- a squared height `det² / |n|²` bounds `(N rc)² |n|² ≤ det²` (the form `short_vector_within_one_cell` asks for) -/
theorem height_form (det rc : Rat) (n : V3) (N : Nat) (hn : 0 < n.normSq)
    (h : ((N : Rat) * rc) ^ 2 ≤ det * det / n.normSq) : ((N : Rat) * rc) ^ 2 * n.normSq ≤ det ^ 2 := by
  have := mul_le_mul_of_nonneg_right h (le_of_lt hn)
  have e : det * det / n.normSq * n.normSq = det ^ 2 := by field_simp
  rw [e] at this; exact this

theorem normSq_nonneg (n : V3) : 0 ≤ n.normSq := by
  simp only [V3.normSq, V3.dot]; nlinarith [mul_self_nonneg n.x, mul_self_nonneg n.y, mul_self_nonneg n.z]

/-- with a non-zero determinant none of the three plane normals vanishes -/
theorem normals_pos (B : Box) (hdet : B.det ≠ 0) :
    0 < (V3.cross B.b B.c).normSq ∧ 0 < (V3.cross B.c B.a).normSq ∧ 0 < (V3.cross B.a B.b).normSq := by
  have key : ∀ n : V3, n.normSq = 0 → n.x = 0 ∧ n.y = 0 ∧ n.z = 0 := by
    intro n h
    simp only [V3.normSq, V3.dot] at h
    refine ⟨?_, ?_, ?_⟩ <;> nlinarith [mul_self_nonneg n.x, mul_self_nonneg n.y, mul_self_nonneg n.z]
  refine ⟨?_, ?_, ?_⟩
  · rcases (normSq_nonneg (V3.cross B.b B.c)).lt_or_eq with h | h
    · exact h
    · obtain ⟨hx, hy, hz⟩ := key _ h.symm
      exfalso; apply hdet
      simp only [Box.det, V3.dot]; rw [hx, hy, hz]; ring
  · rcases (normSq_nonneg (V3.cross B.c B.a)).lt_or_eq with h | h
    · exact h
    · obtain ⟨hx, hy, hz⟩ := key _ h.symm
      exfalso; apply hdet
      simp only [V3.cross] at hx hy hz
      simp only [Box.det, V3.dot, V3.cross]; linear_combination B.b.x * hx + B.b.y * hy + B.b.z * hz
  · rcases (normSq_nonneg (V3.cross B.a B.b)).lt_or_eq with h | h
    · exact h
    · obtain ⟨hx, hy, hz⟩ := key _ h.symm
      exfalso; apply hdet
      simp only [V3.cross] at hx hy hz
      simp only [Box.det, V3.dot, V3.cross]; linear_combination B.c.x * hx + B.c.y * hy + B.c.z * hz

/-! ## end to end -/

/-- the result of the minimum-image routine is a periodic image of the plain difference, for both periodic box types
    (an orthorhombic box is a diagonal matrix) -/
theorem mic_is_image (bt : BoxType) (B : Box) (hbt : bt ≠ .open_) (hdiag : bt = .ortho → B.isDiagonal = true) (ri rj : V3) :
    ∃ k1 k2 k3 : Int, rj - ri = mic bt B ri rj + B.lattice k1 k2 k3 := by
  cases bt with
  | open_ => exact absurd rfl hbt
  | ortho =>
    obtain ⟨k1, k2, k3, h⟩ := ortho_lattice B ri rj
    have hd := hdiag rfl
    simp only [Box.isDiagonal, Bool.and_eq_true, beq_iff_eq] at hd
    obtain ⟨⟨⟨⟨⟨h1, h2⟩, h3⟩, h4⟩, h5⟩, h6⟩ := hd
    refine ⟨k1, k2, k3, ?_⟩
    simp only [mic]
    rw [h]
    apply V3.ext3 <;> simp [Box.lattice, h1, h2, h3, h4, h5, h6]
  | tri =>
    obtain ⟨k1, k2, k3, h⟩ := tri_lattice B ri rj
    refine ⟨k1, k2, k3, ?_⟩
    simp only [mic]
    rw [h]
    apply V3.ext3 <;> simp

/-- **the grid search on real coordinates is exact.**  For every periodic box with non-zero determinant (orthorhombic or
    triclinic, however skewed), every positive cutoff — larger than the box in some directions or not —, the cell counts
    and cell lists `NBListGrid` constructs, and every bead list and coordinates: the pairs reported by the grid search are
    exactly (a permutation of) the pairs of the O(N²) search, each unordered pair within the cutoff once. -/
theorem grid_search_exact (bt : BoxType) (B : Box) (rc : Rat) (pos : Nat → V3)
    (hbt : bt ≠ .open_) (hdiag : bt = .ortho → B.isDiagonal = true) (hdet : B.det ≠ 0) (hrc : 0 < rc) (beads : List Nat) :
    (gridPairs (fun i => cellOf B (cellCounts B rc) (pos i)) (fun i => cellsFor (cellCounts B rc) (cellOf B (cellCounts B rc) (pos i)))
      (closeB bt B rc pos) beads).Perm (brutePairs (closeB bt B rc pos) beads) := by
  obtain ⟨na, nb, nc⟩ := normals_pos B hdet
  have sa := cellCount_spec (B.det * B.det / (V3.cross B.b B.c).normSq) rc hrc
  have sb := cellCount_spec (B.det * B.det / (V3.cross B.c B.a).normSq) rc hrc
  have sc := cellCount_spec (B.det * B.det / (V3.cross B.a B.b).normSq) rc hrc
  have hNs : cellCounts B rc = (cellCount (B.det * B.det / (V3.cross B.b B.c).normSq) rc,
      cellCount (B.det * B.det / (V3.cross B.c B.a).normSq) rc, cellCount (B.det * B.det / (V3.cross B.a B.b).normSq) rc) := by
    simp [cellCounts, heightsSq]
  apply grid_exact
  · intro b
    apply cellsFor_nodup <;> rw [hNs]
    · exact sa.1
    · exact sb.1
    · exact sc.1
  · intro e b hclose
    simp only [closeB, decide_eq_true_eq] at hclose
    obtain ⟨k1, k2, k3, himg⟩ := mic_is_image bt B hbt hdiag (pos e) (pos b)
    apply neighbour_cell_listed B (cellCounts B rc) rc (pos e) (pos b) (mic bt B (pos e) (pos b)) k1 k2 k3 hdet hrc
    · rw [hNs]; exact sa.1
    · rw [hNs]; exact sb.1
    · rw [hNs]; exact sc.1
    · rw [hNs]; exact sa.2.imp id fun h => height_form _ _ _ _ na h
    · rw [hNs]; exact sb.2.imp id fun h => height_form _ _ _ _ nb h
    · rw [hNs]; exact sc.2.imp id fun h => height_form _ _ _ _ nc h
    · exact hclose
    · exact himg

/-- two lists (`Generate(list1, list2)`) on real coordinates -/
theorem grid_search_exact2 (bt : BoxType) (B : Box) (rc : Rat) (pos : Nat → V3)
    (hbt : bt ≠ .open_) (hdiag : bt = .ortho → B.isDiagonal = true) (hdet : B.det ≠ 0) (hrc : 0 < rc) (l1 l2 : List Nat) :
    (gridPairs2 (fun i => cellOf B (cellCounts B rc) (pos i)) (fun i => cellsFor (cellCounts B rc) (cellOf B (cellCounts B rc) (pos i)))
      (closeB bt B rc pos) l1 l2).Perm (brutePairs2 (closeB bt B rc pos) l1 l2) := by
  obtain ⟨na, nb, nc⟩ := normals_pos B hdet
  have sa := cellCount_spec (B.det * B.det / (V3.cross B.b B.c).normSq) rc hrc
  have sb := cellCount_spec (B.det * B.det / (V3.cross B.c B.a).normSq) rc hrc
  have sc := cellCount_spec (B.det * B.det / (V3.cross B.a B.b).normSq) rc hrc
  have hNs : cellCounts B rc = (cellCount (B.det * B.det / (V3.cross B.b B.c).normSq) rc,
      cellCount (B.det * B.det / (V3.cross B.c B.a).normSq) rc, cellCount (B.det * B.det / (V3.cross B.a B.b).normSq) rc) := by
    simp [cellCounts, heightsSq]
  apply grid_exact2
  · intro b
    apply cellsFor_nodup <;> rw [hNs]
    · exact sa.1
    · exact sb.1
    · exact sc.1
  · intro e b hclose
    simp only [closeB, decide_eq_true_eq] at hclose
    obtain ⟨k1, k2, k3, himg⟩ := mic_is_image bt B hbt hdiag (pos e) (pos b)
    apply neighbour_cell_listed B (cellCounts B rc) rc (pos e) (pos b) (mic bt B (pos e) (pos b)) k1 k2 k3 hdet hrc
    · rw [hNs]; exact sa.1
    · rw [hNs]; exact sb.1
    · rw [hNs]; exact sc.1
    · rw [hNs]; exact sa.2.imp id fun h => height_form _ _ _ _ na h
    · rw [hNs]; exact sb.2.imp id fun h => height_form _ _ _ _ nb h
    · rw [hNs]; exact sc.2.imp id fun h => height_form _ _ _ _ nc h
    · exact hclose
    · exact himg

/-- every box type: the connection vector differs from the plain difference by a lattice vector (the zero one for the open type) -/
theorem mic_is_image_any (bt : BoxType) (B : Box) (hdiag : bt = .ortho → B.isDiagonal = true) (ri rj : V3) :
    ∃ k1 k2 k3 : Int, rj - ri = mic bt B ri rj + B.lattice k1 k2 k3 := by
  by_cases hbt : bt = .open_
  · subst hbt
    refine ⟨0, 0, 0, ?_⟩
    simp only [mic, micOpen]
    apply V3.ext3 <;> simp [Box.lattice]
  · exact mic_is_image bt B hbt hdiag ri rj

/-- **the grid search on real coordinates is exact, open boxes included.**  (`NBListGrid` builds its cells from the stored box matrix whatever the box
    type; with the open type the closeness test is the plain distance and the wrap of the cell indices only adds cells to look into.)  For every box with non-zero determinant (orthorhombic or
    triclinic, however skewed), every positive cutoff — larger than the box in some directions or not —, the cell counts
    and cell lists `NBListGrid` constructs, and every bead list and coordinates: the pairs reported by the grid search are
    exactly (a permutation of) the pairs of the O(N²) search, each unordered pair within the cutoff once. -/
theorem grid_search_exact_any (bt : BoxType) (B : Box) (rc : Rat) (pos : Nat → V3)
    (hdiag : bt = .ortho → B.isDiagonal = true) (hdet : B.det ≠ 0) (hrc : 0 < rc) (beads : List Nat) :
    (gridPairs (fun i => cellOf B (cellCounts B rc) (pos i)) (fun i => cellsFor (cellCounts B rc) (cellOf B (cellCounts B rc) (pos i)))
      (closeB bt B rc pos) beads).Perm (brutePairs (closeB bt B rc pos) beads) := by
  obtain ⟨na, nb, nc⟩ := normals_pos B hdet
  have sa := cellCount_spec (B.det * B.det / (V3.cross B.b B.c).normSq) rc hrc
  have sb := cellCount_spec (B.det * B.det / (V3.cross B.c B.a).normSq) rc hrc
  have sc := cellCount_spec (B.det * B.det / (V3.cross B.a B.b).normSq) rc hrc
  have hNs : cellCounts B rc = (cellCount (B.det * B.det / (V3.cross B.b B.c).normSq) rc,
      cellCount (B.det * B.det / (V3.cross B.c B.a).normSq) rc, cellCount (B.det * B.det / (V3.cross B.a B.b).normSq) rc) := by
    simp [cellCounts, heightsSq]
  apply grid_exact
  · intro b
    apply cellsFor_nodup <;> rw [hNs]
    · exact sa.1
    · exact sb.1
    · exact sc.1
  · intro e b hclose
    simp only [closeB, decide_eq_true_eq] at hclose
    obtain ⟨k1, k2, k3, himg⟩ := mic_is_image_any bt B hdiag (pos e) (pos b)
    apply neighbour_cell_listed B (cellCounts B rc) rc (pos e) (pos b) (mic bt B (pos e) (pos b)) k1 k2 k3 hdet hrc
    · rw [hNs]; exact sa.1
    · rw [hNs]; exact sb.1
    · rw [hNs]; exact sc.1
    · rw [hNs]; exact sa.2.imp id fun h => height_form _ _ _ _ na h
    · rw [hNs]; exact sb.2.imp id fun h => height_form _ _ _ _ nb h
    · rw [hNs]; exact sc.2.imp id fun h => height_form _ _ _ _ nc h
    · exact hclose
    · exact himg

/-- two lists, open boxes included -/
theorem grid_search_exact2_any (bt : BoxType) (B : Box) (rc : Rat) (pos : Nat → V3)
    (hdiag : bt = .ortho → B.isDiagonal = true) (hdet : B.det ≠ 0) (hrc : 0 < rc) (l1 l2 : List Nat) :
    (gridPairs2 (fun i => cellOf B (cellCounts B rc) (pos i)) (fun i => cellsFor (cellCounts B rc) (cellOf B (cellCounts B rc) (pos i)))
      (closeB bt B rc pos) l1 l2).Perm (brutePairs2 (closeB bt B rc pos) l1 l2) := by
  obtain ⟨na, nb, nc⟩ := normals_pos B hdet
  have sa := cellCount_spec (B.det * B.det / (V3.cross B.b B.c).normSq) rc hrc
  have sb := cellCount_spec (B.det * B.det / (V3.cross B.c B.a).normSq) rc hrc
  have sc := cellCount_spec (B.det * B.det / (V3.cross B.a B.b).normSq) rc hrc
  have hNs : cellCounts B rc = (cellCount (B.det * B.det / (V3.cross B.b B.c).normSq) rc,
      cellCount (B.det * B.det / (V3.cross B.c B.a).normSq) rc, cellCount (B.det * B.det / (V3.cross B.a B.b).normSq) rc) := by
    simp [cellCounts, heightsSq]
  apply grid_exact2
  · intro b
    apply cellsFor_nodup <;> rw [hNs]
    · exact sa.1
    · exact sb.1
    · exact sc.1
  · intro e b hclose
    simp only [closeB, decide_eq_true_eq] at hclose
    obtain ⟨k1, k2, k3, himg⟩ := mic_is_image_any bt B hdiag (pos e) (pos b)
    apply neighbour_cell_listed B (cellCounts B rc) rc (pos e) (pos b) (mic bt B (pos e) (pos b)) k1 k2 k3 hdet hrc
    · rw [hNs]; exact sa.1
    · rw [hNs]; exact sb.1
    · rw [hNs]; exact sc.1
    · rw [hNs]; exact sa.2.imp id fun h => height_form _ _ _ _ na h
    · rw [hNs]; exact sb.2.imp id fun h => height_form _ _ _ _ nb h
    · rw [hNs]; exact sc.2.imp id fun h => height_form _ _ _ _ nc h
    · exact hclose
    · exact himg

/-! non-vacuity of the open case: open type over a stored box of 2 x 2 x 2 cells, two beads in wrapped-adjacent cells are NOT close (plain distance),
    two beads in adjacent cells are -/
example : let B : Box := ⟨⟨2, 0, 0⟩, ⟨0, 2, 0⟩, ⟨0, 0, 2⟩⟩
    cellCounts B 1 = (2, 2, 2) ∧
    closeB .open_ B 1 (fun i => if i = 0 then ⟨1/10, 1/10, 1/10⟩ else ⟨19/10, 1/10, 1/10⟩) 0 1 = false ∧
    closeB .open_ B 1 (fun i => if i = 0 then ⟨9/10, 1/10, 1/10⟩ else ⟨11/10, 1/10, 1/10⟩) 0 1 = true := by decide +kernel

/-! non-vacuity: a skewed triclinic box (det 24), cutoff 1: the hypotheses of `grid_search_exact` hold, there are 2 x 2 x 4 cells,
    and two beads on opposite faces are within the cutoff through the periodic boundary -/
example : let B : Box := ⟨⟨2, 0, 0⟩, ⟨1, 3, 0⟩, ⟨1, 1, 4⟩⟩
    B.det ≠ 0 ∧ cellCounts B 1 = (1, 2, 4) ∧
    closeB .tri B 1 (fun i => if i = 0 then ⟨1/10, 1/10, 1/10⟩ else ⟨1, 1, 39/10⟩) 0 1 = true := by decide +kernel


/-! ## three-body search, distinct outer lists: the scan reports exactly the triples the property names -/

/-- **the three-type three-body scan lists exactly the triples (centre i, j, k)** with the centre in list 1, j in list 2, k in list 3, three
    different beads, both centre distances below the cutoff and no excluded pair among the three — membership in `bruteTriples … false`
    (the model of `NBList_3Body::Generate(list1, list2, list3)`, which the driver compares with the real grid and simple searches) -/
theorem bruteTriples_mem_distinct (close excl : Nat → Nat → Bool) (l1 l2 l3 : List Nat) (i j k : Nat) :
    (i, j, k) ∈ bruteTriples close excl l1 l2 l3 false ↔
      i ∈ l1 ∧ j ∈ l2 ∧ k ∈ l3 ∧ i ≠ j ∧ k ≠ i ∧ k ≠ j ∧ close i j = true ∧ close i k = true ∧
        (excl i j || excl i k || excl j k) = false := by
  unfold bruteTriples
  simp only [List.mem_flatMap, Bool.false_eq_true, if_false]
  constructor
  · rintro ⟨a, ha, ⟨b, bx⟩, hb, h⟩
    split at h
    · cases h
    · rename_i hne
      simp only [List.mem_map, List.mem_filter] at h
      obtain ⟨c, ⟨hc, hcond⟩, heq⟩ := h
      simp only [Prod.mk.injEq] at heq
      obtain ⟨rfl, rfl, rfl⟩ := heq
      have hbm : b ∈ l2 := by
        have := List.mem_zipIdx hb
        simp at this
        obtain ⟨hlt, hg⟩ := this
        rw [hg]; exact List.getElem_mem hlt
      simp only [Bool.and_eq_true, bne_iff_ne, ne_eq, Bool.not_eq_true'] at hcond
      obtain ⟨⟨⟨⟨h1, h2⟩, h3⟩, h4⟩, h5⟩ := hcond
      refine ⟨ha, hbm, hc, by simpa using hne, h1, h2, h3, h4, h5⟩
  · rintro ⟨hi, hj, hk, hij, hki, hkj, c1, c2, ex⟩
    obtain ⟨jx, hjx, hget⟩ := List.getElem_of_mem hj
    refine ⟨i, hi, (j, jx), ?_, ?_⟩
    · rw [List.mem_zipIdx_iff_getElem?]; simp [hget, hjx]
    · have : (i == j) = false := by simpa using hij
      simp only [this, Bool.false_eq_true, if_false, List.mem_map, List.mem_filter]
      refine ⟨k, ⟨hk, ?_⟩, rfl⟩
      simp [hki, hkj, c1, c2, ex]

/-! non-vacuity: centre 0, outer beads 1 (list 2) and 2 (list 3), everything close, nothing excluded -/
example : (0, 1, 2) ∈ bruteTriples (fun _ _ => true) (fun _ _ => false) [0] [1] [2] false := by decide


/-! ## three-body search, outer beads from ONE list (one- and two-type variants): every triple (centre, {j, k}) once -/

/-- positions: a listed triple of the one-list scan has its second bead at an earlier list position than its third -/
theorem bruteTriples_same_positions (close excl : Nat → Nat → Bool) (l1 l : List Nat) (i j k : Nat)
    (h : (i, j, k) ∈ bruteTriples close excl l1 l l true) :
    ∃ jx kx : Nat, jx < kx ∧ l[jx]? = some j ∧ l[kx]? = some k := by
  unfold bruteTriples at h
  simp only [List.mem_flatMap, if_true] at h
  obtain ⟨a, _, ⟨b, bx⟩, hb, h⟩ := h
  split at h
  · cases h
  · simp only [List.mem_map, List.mem_filter] at h
    obtain ⟨c, ⟨hc, _⟩, heq⟩ := h
    simp only [Prod.mk.injEq] at heq
    obtain ⟨rfl, rfl, rfl⟩ := heq
    have hz := List.mem_zipIdx hb
    simp at hz
    obtain ⟨hlt, hg⟩ := hz
    obtain ⟨n, hn, hget⟩ := List.getElem_of_mem hc
    simp only [List.length_drop] at hn
    refine ⟨bx, bx + 1 + n, by omega, ?_, ?_⟩
    · rw [List.getElem?_eq_getElem hlt, hg]
    · rw [List.getElem_drop] at hget
      rw [List.getElem?_eq_getElem (by omega), hget]

/-- **once each**: on a duplicate-free list the one-list scan never lists a triple in both orders of its outer beads -/
theorem bruteTriples_same_once (close excl : Nat → Nat → Bool) (l1 l : List Nat) (hnd : l.Nodup) (i j k : Nat)
    (h : (i, j, k) ∈ bruteTriples close excl l1 l l true) : (i, k, j) ∉ bruteTriples close excl l1 l l true := by
  intro h2
  obtain ⟨jx, kx, hlt, hj, hk⟩ := bruteTriples_same_positions close excl l1 l i j k h
  obtain ⟨kx', jx', hlt', hk', hj'⟩ := bruteTriples_same_positions close excl l1 l i k j h2
  have e1 : jx = jx' := (List.getElem?_inj (by
      have := List.getElem?_eq_some_iff.mp hj; exact this.1) hnd).mp (hj.trans hj'.symm)
  have e2 : kx = kx' := (List.getElem?_inj (by
      have := List.getElem?_eq_some_iff.mp hk; exact this.1) hnd).mp (hk.trans hk'.symm)
  omega

/-! non-vacuity: centre 0 with outer beads 1 and 2 from one list: listed as (0, 1, 2), not as (0, 2, 1) -/
example : (0, 1, 2) ∈ bruteTriples (fun _ _ => true) (fun _ _ => false) [0] [0, 1, 2] [0, 1, 2] true ∧
    (0, 2, 1) ∉ bruteTriples (fun _ _ => true) (fun _ _ => false) [0] [0, 1, 2] [0, 1, 2] true := by decide

end Votca.C03
