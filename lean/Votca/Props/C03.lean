import Votca.Lemmas.C03
import Votca.Lemmas.Vec3
import Mathlib.Tactic.Positivity
import Mathlib.Tactic.FieldSimp
/-! # C03 — the neighbour search finds exactly the pairs within the cutoff, once

List-level theorems hold for every bead list, every closeness predicate and every assignment of cells; the geometric
theorems supply their hypotheses from the cell construction of `NBListGrid::InitializeGrid` / `getCell`. -/
namespace Votca.C03
open Votca Votca.C02

/-! ## list level -/

/-- **one list.**  With duplicate-free cell lists that contain the cell of every bead within the cutoff, the grid search
    reports exactly the brute-force pairs (each unordered pair within the cutoff once) — as a permutation, because the scan
    order differs.  `brutePairs` is also what the simple search `NBList::Generate(list)` enumerates. -/
theorem grid_exact (cell : Nat → Cell) (cells : Nat → List Cell) (close : Nat → Nat → Bool)
    (hnd : ∀ b, (cells b).Nodup)
    (hcomplete : ∀ e b, close e b = true → cell e ∈ cells b) (beads : List Nat) :
    (gridPairs cell cells close beads).Perm (brutePairs close beads) := by
  unfold gridPairs brutePairs
  suffices H : ∀ (bs seen : List Nat) (p q : List (Nat × Nat)), p.Perm q →
      ((bs.foldl (gridStep cell cells close) (seen, p)).2).Perm ((bs.foldl (bruteStep close) (seen, q)).2) by
    exact H beads [] [] [] (List.Perm.refl _)
  intro bs
  induction bs with
  | nil => intro seen p q h; simpa using h
  | cons b bs ih =>
    intro seen p q h
    simp only [List.foldl_cons, gridStep, bruteStep]
    apply ih
    apply List.Perm.append h
    apply List.Perm.map
    have h1 := (scan_perm cell seen (cells b) (hnd b)).filter (fun e => close e b)
    refine h1.trans (List.Perm.of_eq ?_)
    rw [List.filter_filter]
    apply List.filter_congr
    intro e _
    by_cases hc : close e b = true
    · simp [hc, hcomplete e b hc]
    · simp [hc]

/-- **two lists** (`Generate(list1, list2)`): every bead of the second list against all beads of the first -/
theorem grid_exact2 (cell : Nat → Cell) (cells : Nat → List Cell) (close : Nat → Nat → Bool)
    (hnd : ∀ b, (cells b).Nodup)
    (hcomplete : ∀ e b, close e b = true → cell e ∈ cells b) (l1 l2 : List Nat) :
    (gridPairs2 cell cells close l1 l2).Perm (brutePairs2 close l1 l2) := by
  unfold gridPairs2 brutePairs2
  induction l2 with
  | nil => simp
  | cons b bs ih =>
    simp only [List.flatMap_cons]
    apply List.Perm.append _ ih
    apply List.Perm.map
    have h1 := (scan_perm cell l1 (cells b) (hnd b)).filter (fun e => close e b)
    refine h1.trans (List.Perm.of_eq ?_)
    rw [List.filter_filter]
    apply List.filter_congr
    intro e _
    by_cases hc : close e b = true
    · simp [hc, hcomplete e b hc]
    · simp [hc]

/-- the brute-force list contains a pair exactly when the earlier bead is within the cutoff of the later one:
    every such pair, and nothing else -/
theorem brutePairs_mem (close : Nat → Nat → Bool) (beads : List Nat) (e b : Nat) :
    (e, b) ∈ brutePairs close beads ↔ ∃ pre post, beads = pre ++ b :: post ∧ e ∈ pre ∧ close e b = true := by
  unfold brutePairs
  suffices H : ∀ (bs seen : List Nat) (acc : List (Nat × Nat)),
      (e, b) ∈ (bs.foldl (bruteStep close) (seen, acc)).2 ↔
        ((e, b) ∈ acc ∨ ∃ pre post, bs = pre ++ b :: post ∧ e ∈ seen ++ pre ∧ close e b = true) by
    have := H beads [] []
    simpa using this
  intro bs
  induction bs with
  | nil => intro seen acc; simp
  | cons x xs ih =>
    intro seen acc
    simp only [List.foldl_cons, bruteStep]
    rw [ih]
    constructor
    · rintro (h | ⟨pre, post, hx, he, hc⟩)
      · rcases List.mem_append.1 h with h | h
        · exact Or.inl h
        · simp only [List.mem_map, List.mem_filter] at h
          obtain ⟨e', ⟨he', hc'⟩, heq⟩ := h
          cases heq
          exact Or.inr ⟨[], xs, rfl, by simpa using he', hc'⟩
      · refine Or.inr ⟨x :: pre, post, by simp [hx], ?_, hc⟩
        simp only [List.mem_append, List.mem_cons, List.mem_singleton] at he ⊢
        tauto
    · rintro (h | ⟨pre, post, hx, he, hc⟩)
      · exact Or.inl (List.mem_append.2 (Or.inl h))
      · cases pre with
        | nil =>
          simp only [List.nil_append, List.cons.injEq] at hx
          obtain ⟨rfl, rfl⟩ := hx
          left
          apply List.mem_append.2; right
          simp only [List.mem_map, List.mem_filter]
          exact ⟨e, ⟨by simpa using he, hc⟩, rfl⟩
        | cons y ys =>
          simp only [List.cons_append, List.cons.injEq] at hx
          obtain ⟨rfl, rfl⟩ := hx
          right
          refine ⟨ys, post, rfl, ?_, hc⟩
          simp only [List.mem_append, List.mem_cons, List.mem_singleton] at he ⊢
          tauto

/-! ## cell geometry -/

/-- the code's index wrap (`N + a % N` for negatives, then `% N`, truncating `%`) is the Euclidean residue -/
theorem wrapIndex_eq_emod (a N : Int) (hN : 0 < N) : wrapIndex a N = a % N := by
  unfold wrapIndex
  simp only []
  split
  · rename_i ha
    have h1 : Int.tmod a N = -((-a) % N) := by
      rw [Int.tmod_eq_emod_of_nonneg (a := -a) (by omega) |>.symm]
      simp [Int.neg_tmod]
    have hr : 0 ≤ (-a) % N := Int.emod_nonneg _ (by omega)
    have hr2 : (-a) % N < N := Int.emod_lt_of_pos _ hN
    rw [h1, Int.tmod_eq_emod_of_nonneg (by omega)]
    have : N + -((-a) % N) = N - (-a) % N := by ring
    rw [this, Int.sub_emod, Int.emod_emod, ← Int.sub_emod]
    have : N - -a = a + N := by ring
    rw [this, Int.add_emod_right]
  · rename_i ha
    exact Int.tmod_eq_emod_of_nonneg (by omega)

theorem wrapIndex_range (a N : Int) (hN : 0 < N) : 0 ≤ wrapIndex a N ∧ wrapIndex a N < N := by
  rw [wrapIndex_eq_emod a N hN]
  exact ⟨Int.emod_nonneg _ (by omega), Int.emod_lt_of_pos _ hN⟩

/-- one direction: the scanned offsets are pairwise distinct modulo `N` … -/
theorem nbrOffsets_distinct (N : Nat) (hN : 0 < N) : ∀ a ∈ nbrOffsets N, ∀ b ∈ nbrOffsets N, (a - b) % (N : Int) = 0 → a = b := by
  intro a ha b hb h
  by_cases h2 : N < 2
  · simp only [nbrOffsets, h2, if_true, List.mem_singleton] at ha hb
    rw [ha, hb]
  · by_cases h3 : N < 3
    · have hN2 : N = 2 := by omega
      subst hN2
      simp only [nbrOffsets] at ha hb
      simp at ha hb
      rcases ha with rfl | rfl <;> rcases hb with rfl | rfl <;> simp_all
    · simp only [nbrOffsets, h2, h3, if_false] at ha hb
      simp at ha hb
      have hge : (3 : Int) ≤ (N : Int) := by omega
      have key : ∀ d : Int, -2 ≤ d → d ≤ 2 → d % (N : Int) = 0 → d = 0 := by
        intro d h1 h2' hm
        have hdvd : (N : Int) ∣ d := Int.dvd_of_emod_eq_zero hm
        obtain ⟨k, hk⟩ := hdvd
        rcases Int.lt_trichotomy k 0 with hk0 | hk0 | hk0
        · nlinarith
        · subst hk0; simpa using hk
        · nlinarith
      have := key (a - b) (by rcases ha with rfl | rfl | rfl <;> rcases hb with rfl | rfl | rfl <;> norm_num)
        (by rcases ha with rfl | rfl | rfl <;> rcases hb with rfl | rfl | rfl <;> norm_num) h
      omega

/-- … and cover every index difference `δ ∈ {-1, 0, 1}` modulo `N` (for 1, 2 and ≥ 3 cells) -/
theorem nbrOffsets_complete (N : Nat) (hN : 0 < N) (δ : Int) (hδ : δ = -1 ∨ δ = 0 ∨ δ = 1) :
    ∃ o ∈ nbrOffsets N, (δ - o) % (N : Int) = 0 := by
  unfold nbrOffsets
  split
  · have : N = 1 := by omega
    subst this
    exact ⟨0, by simp, by simp⟩
  · split
    · have : N = 2 := by omega
      subst this
      rcases hδ with rfl | rfl | rfl
      · exact ⟨-1, by simp, by decide⟩
      · exact ⟨0, by simp, by decide⟩
      · exact ⟨-1, by simp, by decide⟩
    · exact ⟨δ, by rcases hδ with rfl | rfl | rfl <;> simp, by simp⟩

/-- if two scaled coordinates differ by less than one cell (up to `m` whole periods of `N` cells), their floor indices
    differ by −1, 0 or 1 modulo `N` -/
theorem cell_adjacent (su sv : Rat) (N m : Int) (h : |su - sv - ((m * N : Int) : Rat)| < 1) :
    ∃ δ : Int, (δ = -1 ∨ δ = 0 ∨ δ = 1) ∧ (su.floor - sv.floor - δ) % N = 0 := by
  obtain ⟨a1, a2⟩ := floorQ_bounds su
  obtain ⟨b1, b2⟩ := floorQ_bounds sv
  rw [abs_lt] at h
  obtain ⟨h1, h2⟩ := h
  have hd1 : ((su.floor - sv.floor - m * N : Int) : Rat) < 2 := by push_cast at h1 h2 ⊢; linarith
  have hd2 : (-2 : Rat) < ((su.floor - sv.floor - m * N : Int) : Rat) := by push_cast at h1 h2 ⊢; linarith
  have hd1' : su.floor - sv.floor - m * N < 2 := by exact_mod_cast hd1
  have hd2' : -2 < su.floor - sv.floor - m * N := by exact_mod_cast hd2
  refine ⟨su.floor - sv.floor - m * N, by omega, ?_⟩
  have : su.floor - sv.floor - (su.floor - sv.floor - m * N) = m * N := by ring
  rw [this]; exact Int.mul_emod_left m N

/-- a connection vector shorter than the cutoff spans less than one cell in the direction of the plane normal `n`:
    with `N` cells over the height `h = det / |n|` and `N · rc ≤ h`, the scaled coordinate `r · (N / det) n` is below 1
    in absolute value (Cauchy–Schwarz by the Lagrange identity; no square roots) -/
theorem short_vector_within_one_cell (r n : V3) (det rc : Rat) (N : Nat) (hdet : det ≠ 0) (hrc : 0 < rc)
    (hN : ((N : Rat) * rc) ^ 2 * n.normSq ≤ det ^ 2) (hr : r.normSq < rc * rc) :
    |V3.dot r (scaledNormal n det N)| < 1 := by
  have cs : (V3.dot r n) ^ 2 ≤ r.normSq * n.normSq := by
    simp only [V3.normSq, V3.dot]
    nlinarith [mul_self_nonneg (r.x * n.y - r.y * n.x), mul_self_nonneg (r.y * n.z - r.z * n.y), mul_self_nonneg (r.z * n.x - r.x * n.z)]
  have hval : V3.dot r (scaledNormal n det N) = (N : Rat) / det * V3.dot r n := by
    simp only [scaledNormal, V3.dot, smul_x, smul_y, smul_z]; ring
  rw [hval]
  have hsq : ((N : Rat) / det * V3.dot r n) ^ 2 < 1 := by
    have hd2 : 0 < det ^ 2 := by positivity
    have hnn : 0 ≤ n.normSq := by simp only [V3.normSq, V3.dot]; nlinarith [mul_self_nonneg n.x, mul_self_nonneg n.y, mul_self_nonneg n.z]
    have hNN : (0 : Rat) ≤ (N : Rat) ^ 2 := by positivity
    have e : ((N : Rat) / det * V3.dot r n) ^ 2 = (N : Rat) ^ 2 * (V3.dot r n) ^ 2 / det ^ 2 := by field_simp
    rw [e, div_lt_one hd2]
    by_cases hn0 : n.normSq = 0
    · have : (V3.dot r n) ^ 2 ≤ 0 := by rw [hn0, mul_zero] at cs; exact cs
      nlinarith [sq_nonneg (V3.dot r n)]
    · have hnpos : 0 < n.normSq := lt_of_le_of_ne hnn (Ne.symm hn0)
      by_cases hN0 : (N : Rat) = 0
      · rw [hN0]; simp; exact hd2
      · have hNpos : (0 : Rat) < (N : Rat) ^ 2 := by positivity
        calc (N : Rat) ^ 2 * (V3.dot r n) ^ 2 ≤ (N : Rat) ^ 2 * (r.normSq * n.normSq) := by
              apply mul_le_mul_of_nonneg_left cs hNN
          _ < (N : Rat) ^ 2 * (rc * rc * n.normSq) := by
              apply mul_lt_mul_of_pos_left _ hNpos
              exact mul_lt_mul_of_pos_right hr hnpos
          _ = ((N : Rat) * rc) ^ 2 * n.normSq := by ring
          _ ≤ det ^ 2 := hN
  have h1 : ((N : Rat) / det * V3.dot r n) ^ 2 < 1 ^ 2 := by simpa using hsq
  have := abs_lt_of_sq_lt_sq' h1 (by norm_num : (0 : Rat) ≤ 1)
  rw [abs_lt]; exact this

/-- the scaled normals are dual to the box vectors: moving along a box vector changes the scaled coordinate by `N` cells
    for its own direction and by nothing for the other two (so periodic images differ by whole multiples of `N`) -/
theorem scaledNormal_dual (B : Box) (N : Nat) (hdet : B.det ≠ 0) :
    V3.dot B.a (scaledNormal (V3.cross B.b B.c) B.det N) = N ∧
    V3.dot B.b (scaledNormal (V3.cross B.b B.c) B.det N) = 0 ∧
    V3.dot B.c (scaledNormal (V3.cross B.b B.c) B.det N) = 0 := by
  refine ⟨?_, ?_, ?_⟩
  · have : V3.dot B.a (scaledNormal (V3.cross B.b B.c) B.det N) = (N : Rat) / B.det * B.det := by
      simp only [scaledNormal, V3.dot, V3.cross, Box.det, smul_x, smul_y, smul_z]; ring
    rw [this]; field_simp
  · simp only [scaledNormal, V3.dot, V3.cross, smul_x, smul_y, smul_z]; ring
  · simp only [scaledNormal, V3.dot, V3.cross, smul_x, smul_y, smul_z]; ring

/-! ## exclusions -/

/-- a pair is excluded exactly when both beads belong to one molecule and share a bonded interaction (order irrelevant) -/
theorem excluded_iff (interactions : List (List Nat)) (mol : Nat → Nat) (i j : Nat) :
    excludedBy interactions mol i j = true ↔ (mol i = mol j ∧ (∃ ia ∈ interactions, i ∈ ia ∧ j ∈ ia) ∧ i ≠ j) := by
  simp [excludedBy, and_assoc]

theorem excluded_symm (interactions : List (List Nat)) (mol : Nat → Nat) (i j : Nat) :
    excludedBy interactions mol i j = excludedBy interactions mol j i := by
  rw [Bool.eq_iff_iff, excluded_iff, excluded_iff]
  constructor
  · rintro ⟨h1, ⟨ia, h2, h3, h4⟩, h5⟩; exact ⟨h1.symm, ⟨ia, h2, h4, h3⟩, Ne.symm h5⟩
  · rintro ⟨h1, ⟨ia, h2, h3, h4⟩, h5⟩; exact ⟨h1.symm, ⟨ia, h2, h4, h3⟩, Ne.symm h5⟩

/-! non-vacuity: three cells per direction, a pair across the periodic boundary -/
example : (cellsFor (3, 3, 3) (0, 0, 0)).length = 27 := by decide
example : (cellsFor (2, 3, 2) (1, 2, 0)).Nodup := by decide

end Votca.C03
