import Votca.Model.C20
import Mathlib.Tactic.FieldSimp
import Mathlib.Tactic.Ring
import Mathlib.Algebra.Order.Field.Basic
/-! # C20 — unit conversions and physical constants are consistent and physically right

The tables are GENERATED from the working tree (`Votca/Gen/Units.lean`, by `tools/translate/tr_c20.py`) on every run,
so every theorem below is re-checked against what the source says now.  The quantifier of this property *is* a
finite table: `decide +kernel` over the whole table is the proof (no sampling). -/
namespace Votca.C20
open Votca.Gen.Units

/-! ## algebra of `convert` for any table whose entries are non-zero -/

/-- converting there and back is the identity -/
theorem conv_there_back (t : List (String × Rat)) (a b : String) (ha : lookup t a ≠ 0) (hb : lookup t b ≠ 0) :
    conv t a b * conv t b a = 1 := by
  unfold conv; field_simp

/-- conversion factors compose transitively -/
theorem conv_trans (t : List (String × Rat)) (a b c : String) (hb : lookup t b ≠ 0) :
    conv t a b * conv t b c = conv t a c := by
  unfold conv; field_simp

theorem lookup_ne_zero_of_allNonzero (t : List (String × Rat)) (h : allNonzero t = true) (k : String) (hk : k ∈ keys t) :
    lookup t k ≠ 0 := by
  induction t with
  | nil => simp [keys] at hk
  | cons p ps ih =>
    simp only [allNonzero, List.all_cons, Bool.and_eq_true] at h
    unfold lookup
    by_cases e : k = p.1
    · subst e
      simp only [List.lookup, beq_self_eq_true, Option.getD_some]
      simpa using h.1
    · have : (k == p.1) = false := by simpa using e
      rw [List.lookup, this]
      simp only [keys, List.map_cons, List.mem_cons] at hk
      rcases hk with hk | hk
      · exact absurd hk e
      · exact ih (by simpa [allNonzero] using h.2) hk

/-- every entry of every generated table is non-zero -/
theorem tables_nonzero : (dimensions.all fun d => allNonzero d.2) = true := by decide +kernel

theorem allNonzero_of_mem (d : String × List (String × Rat)) (hd : d ∈ dimensions) : allNonzero d.2 = true := by
  have := tables_nonzero
  rw [List.all_eq_true] at this
  exact this d hd

/-- **there and back / transitivity for every dimension and all units of the library** -/
theorem units_there_back (d : String × List (String × Rat)) (hd : d ∈ dimensions) (a b : String)
    (ha : a ∈ keys d.2) (hb : b ∈ keys d.2) : conv d.2 a b * conv d.2 b a = 1 :=
  conv_there_back d.2 a b (lookup_ne_zero_of_allNonzero d.2 (allNonzero_of_mem d hd) a ha)
    (lookup_ne_zero_of_allNonzero d.2 (allNonzero_of_mem d hd) b hb)

theorem units_transitive (d : String × List (String × Rat)) (hd : d ∈ dimensions) (a b c : String)
    (hb : b ∈ keys d.2) : conv d.2 a b * conv d.2 b c = conv d.2 a c :=
  conv_trans d.2 a b c (lookup_ne_zero_of_allNonzero d.2 (allNonzero_of_mem d hd) b hb)

/-! ## finite obligations over the generated tables -/

/-- derived units (velocity, force, molar force): every conversion equals the quotient of its base conversions, exactly -/
theorem derived_are_quotients : derivedOK = true := by decide +kernel

/-- every base conversion (all ordered pairs of distance, time, mass, energy, molar energy, charge units) agrees with
    SI / CODATA 2018 to four significant digits -/
theorem base_units_match_codata : baseOK = true := by decide +kernel

/-- FULL STATEMENT (not provable on the current tree, see `Votca/Props/C20Findings.lean`): every `tools::conv` constant
    agrees with its CODATA/SI value and with every other place that encodes the same quantity, to four digits. -/
def ConstantsFullStatement : Prop := constantsOK = true ∧ crossOK = true

/-- partial: every constant except the recorded `kcal2kj`/`kj2kcal` agrees with its CODATA/SI value to four digits … -/
theorem constants_match_codata_partial : constantsOKExcept knownKcal = true := by decide +kernel

/-- … and with every other place of the library that encodes the same quantity (`unitconverter.h`).
    Missing for the full statement: `kcal2kj`, `kj2kcal` (IT calorie 4.1868 vs thermochemical 4.184). -/
theorem constants_match_unitconverter_partial : crossOKExcept knownKcal = true := by decide +kernel

theorem constant_inverse_pairs : inversesOK = true := by decide +kernel

/-- the units csg files are written in exist in the tables -/
theorem csg_units_known : csgUnitsOK = true := by decide +kernel

/-- element data: atomic number, nuclear charge and number→symbol table agree with the periodic table, masses with the
    IUPAC atomic weights to 0.5 %, no symbol or number twice -/
theorem elements_consistent : elementsOK = true ∧ elementTablesConsistent = true := by decide +kernel

/-- the factors demanded of the reader / writer code paths ("other places") are those of the library's own tables and constants,
    and the two force factors are reciprocal -/
theorem place_references_are_the_tables : placeRefsOK = true := by decide +kernel

/-! non-vacuity: the tables are not empty and the hypotheses of the generic theorems are met -/
example : dimensions.length = 9 ∧ (tableOf "Distance").length = 5 ∧ elementNumber.length = 71 := by decide +kernel
example : ("Distance", distance) ∈ dimensions ∧ "bohr" ∈ keys distance := by decide +kernel

end Votca.C20
