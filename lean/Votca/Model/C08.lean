import Votca.Base.Util
import Votca.Gen.Units
import Votca.Gen.Formats
/-! # C08 — executable model of the text codecs of the trajectory / table / matrix files (csg/src/libcsg/modules/io/*,
imcio.cc, tools table.cc) at the record level: which quantity is written in which unit with how many decimals or
significant digits, how the box is laid out, and what the reader makes of it.  `printf("%.kf")` / `setprecision(k)` are
modelled as rounding of the exact value to the nearest multiple of `10⁻ᵏ` (ties to even) resp. to `s` significant digits;
the character-level layer is not modelled (correspondence only).  Exact rationals; core Lean only. -/
namespace Votca.C08

/-- nearest integer, ties to even -/
def roundEven (x : Rat) : Int :=
  let f := x.floor
  let d := x - (f : Rat)
  if d < 1 / 2 then f else if 1 / 2 < d then f + 1 else if f % 2 == 0 then f else f + 1

/-- `%.kf`: nearest multiple of `10⁻ᵏ` -/
def roundDec (k : Nat) (x : Rat) : Rat := (roundEven (x * (10 : Rat) ^ k) : Rat) / (10 : Rat) ^ k

/-- decimal exponent of `|x|`: the `e` with `10ᵉ ≤ |x| < 10ᵉ⁺¹` (searching from -40 to 40) -/
def dexp (x : Rat) : Int :=
  let a := absRat x
  ((List.range 81).map (fun (i : Nat) => (i : Int) - 40)).foldl (fun best e =>
    if (if e ≥ 0 then (10 : Rat) ^ e.toNat ≤ a else 1 / (10 : Rat) ^ (-e).toNat ≤ a) then e else best) (-41)

/-- `setprecision(s)` in general format: `s` significant digits -/
def roundSig (s : Nat) (x : Rat) : Rat :=
  if x == 0 then 0 else
  let e := dexp x
  let shift : Int := (s : Int) - 1 - e
  let p : Rat := if shift ≥ 0 then (10 : Rat) ^ shift.toNat else 1 / (10 : Rat) ^ (-shift).toNat
  (roundEven (x * p) : Rat) / p

inductive Mode | dec (k : Nat) | sig (s : Nat)
  deriving Repr

def Mode.apply : Mode → Rat → Rat
  | .dec k, x => roundDec k x
  | .sig s, x => roundSig s x

/-- bound on `|decode(encode x) - x|` in file units -/
def Mode.halfUlp : Mode → Rat → Rat
  | .dec k, _ => 1 / (2 * (10 : Rat) ^ k)
  | .sig s, x => absRat x * 10 / (2 * (10 : Rat) ^ s)

/-- one written quantity: value · `wfac` printed with `mode`, read back as text · `rfac` -/
structure Field where
  wfac : Rat
  rfac : Rat
  mode : Mode
  deriving Repr

def Field.roundtrip (f : Field) (x : Rat) : Rat := f.mode.apply (x * f.wfac) * f.rfac

/-- allowed deviation from the original in the original units -/
def Field.tol (f : Field) (x : Rat) : Rat := f.mode.halfUlp (x * f.wfac) * absRat f.rfac

inductive BoxKind | none | diag | full
  deriving Repr, BEq

structure Fmt where
  pos : Field
  vel : Option Field
  frc : Option Field
  box : BoxKind
  boxField : Field
  nameChars : Nat          -- how many leading characters of the bead name the format keeps (0: none)
  deriving Repr

/-- the unit factors are the ones regenerated from tools/constants.h for C20 -/
def kj2kcal : Rat := Votca.Gen.Units.kj2kcal
def kcal2kj : Rat := Votca.Gen.Units.kcal2kj
def nm2ang : Rat := Votca.Gen.Units.nm2ang
def ang2nm : Rat := Votca.Gen.Units.ang2nm

open Votca.Gen.Formats in
/-- the format table; precisions and unit factors are the ones `tr_c08` reads from the writers and readers -/
def fmtOf (name : String) : Option Fmt :=
  if name == "gro" then some { pos := ⟨1, 1, .dec groPosDec⟩, vel := some ⟨1, 1, .dec groVelDec⟩, frc := none, box := .full, boxField := ⟨1, 1, .dec groBoxDec⟩, nameChars := 5 }
  else if name == "dump" then some { pos := ⟨dumpPosW, dumpPosR, .dec dumpDec⟩, vel := some ⟨dumpVelW, dumpVelR, .dec dumpDec⟩, frc := some ⟨dumpFrcW, dumpFrcR, .dec dumpDec⟩,
                                     box := .diag, boxField := ⟨dumpBoxW, dumpBoxR, .dec dumpDec⟩, nameChars := 0 }
  else if name == "xyz" then some { pos := ⟨xyzW, xyzR, .dec xyzDec⟩, vel := none, frc := none, box := .none, boxField := ⟨1, 1, .dec xyzDec⟩, nameChars := 3 }
  else if name == "dlph" then some { pos := ⟨dlpolyW, dlpolyR, .sig dlpolySig⟩, vel := some ⟨dlpolyW, dlpolyR, .sig dlpolySig⟩, frc := some ⟨dlpolyW, dlpolyR, .sig dlpolySig⟩,
                                     box := .full, boxField := ⟨dlpolyW, dlpolyR, .sig dlpolySig⟩, nameChars := 0 }
  else if name == "pdb" then some { pos := ⟨nm2ang, ang2nm, .dec 3⟩, vel := none, frc := none, box := .none, boxField := ⟨1, 1, .dec 3⟩, nameChars := 4 }
  else none

/-! ## frame sequences -/

/-- the writer appends one record per frame; the reader returns them one at a time until the end of the file -/
def encodeFrames {α β} (enc : α → β) (frames : List α) : List β := frames.map enc
def decodeFrames {β γ} (dec : β → Option γ) (recs : List β) : Option (List γ) := recs.mapM dec

/-- a record whose atom count differs from the topology is refused -/
def checkCount (ntop nfile : Nat) : Bool := ntop == nfile

/-! ## matrix, index and table text -/

/-- `imcio_write_matrix` writes row by row, `imcio_read_matrix` reads row by row -/
def matrixRoundtrip (m : List (List Rat)) : List (List Rat) := m.map fun row => row.map (roundSig Votca.Gen.Formats.matrixSig)

def tableRoundtrip (rows : List (Rat × Rat × Char × Rat)) : List (Rat × Rat × Char × Rat) :=
  rows.map fun (x, y, f, e) => (roundSig Votca.Gen.Formats.tableSig x, roundSig Votca.Gen.Formats.tableSig y, f, roundSig Votca.Gen.Formats.tableSig e)

end Votca.C08
