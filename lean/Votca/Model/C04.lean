import Votca.Model.C01
import Votca.Model.C03
import Votca.Model.C13
import Votca.Gen.Stat
/-! # C04 — executable model of `csg_stat` (csg/src/tools/csg_stat_imc.cc): coarse-grained positions (C01 model) →
per-frame histograms of non-bonded pair distances (C02 minimum image, C03 exclusions, C13 nearest-centre binning), of
bonded values and of three-body centre angles → running frame averages (`MergeWorker`), running average volume
(`Average::Process`), running correlations (`DoCorrelations`) → `WriteDist`, `WriteIMCData`/`CalcDeltaS`, block output and
`ClearAverages`.  Exact rationals; square roots, arc cosines and π never appear: a value `√d2` or `±acos(num/√den2)` is
binned by comparing squares against the bin boundaries (the cosines of angular boundaries are inputs), and every
non-bonded output is the rational factor of `1/π`.  Core Lean only. -/
namespace Votca.C04
open Votca Votca.C02

/-- a coarse-grained bead: type, molecule, the atoms it is built from and the mapping weights -/
structure CgDef where
  type : String
  mol : Nat
  atoms : List Nat
  weights : List Rat
  deriving Repr

/-- one bonded interaction of the coarse-grained topology: the definition (group name) it belongs to, its kind
(0 bond, 1 angle, 2 dihedral) and its beads -/
structure Ia where
  defIdx : Nat
  kind : Nat
  beads : List Nat
  deriving Repr

/-- an interaction of the options file.  `kind`: 0 non-bonded pair, 1 non-bonded three-body, 2 bonded -/
structure IDef where
  kind : Nat
  t1 : String
  t2 : String
  t3 : String
  min : Rat
  max : Rat
  step : Rat
  cut : Rat            -- three-body cutoff
  group : Nat          -- IMC group (0 = none)
  cosb : List Rat      -- cosines of the bin boundaries (angular quantities only)
  deriving Repr

structure Frame where
  box : Box
  atoms : List V3
  deriving Repr

/-- `AddInteraction`: number of bins `(max - min)/step + 1.000000001` truncated -/
def nbins (d : IDef) : Nat := ((d.max - d.min) / d.step + 1000000001 / 1000000000).floor.toNat

/-- `HistogramNew::Initialize(min, max, n)`: the spacing of the histogram the interaction gets, `(max - min)/(n - 1)`.  It is the spacing of the written x column and — the
    specification — the width every normalisation (shell volumes, unit integral) has to use, also when `(max - min)/step` is not
    an integer and it differs from the `step` option -/
def hstep (d : IDef) : Rat := C13.stepOf d.min d.max (nbins d) false

/-- the width the normalisations use: the histogram's spacing when the range is not a whole number of steps (it then differs from
    the `step` option by more than 1e-8 relative), the `step` option as given otherwise -/
def normStep (d : IDef) : Rat := if absRat (hstep d - d.step) > absRat d.step / 100000000 then hstep d else d.step

/-- bin centres `min + i·hstep` (the x column of every output) -/
def centres (d : IDef) : List Rat := (List.range (nbins d)).map fun (i : Nat) => d.min + (i : Rat) * hstep d

/-! ## a binned quantity and its bin, by comparison of squares -/

inductive Q
  | len (d2 : Rat)                      -- √d2
  | ang (sgn : Int) (num den2 : Rat)    -- sgn · acos(num / √den2)
  deriving Repr

def piLo : Rat := 3141592653589793 / 1000000000000000
def piHi : Rat := 3141592653589794 / 1000000000000000

/-- `num/√den2 ≤ c` -/
def cosLE (num den2 c : Rat) : Bool :=
  if 0 ≤ c then num ≤ 0 || num * num ≤ c * c * den2 else num ≤ 0 && c * c * den2 ≤ num * num

/-- `num/√den2 ≥ c` -/
def cosGE (num den2 c : Rat) : Bool :=
  if c ≤ 0 then 0 ≤ num || num * num ≤ c * c * den2 else 0 ≤ num && c * c * den2 ≤ num * num

/-- is the value at least the boundary `b` (whose cosine is `cb`)? -/
def geB (q : Q) (b cb : Rat) : Bool :=
  match q with
  | .len d2 => b ≤ 0 || b * b ≤ d2
  | .ang sgn num den2 =>
    if 0 ≤ sgn then (b ≤ 0 || (b < piHi && cosLE num den2 cb))
    else (b ≤ 0 && (b ≤ -piHi || cosGE num den2 cb))

/-- boundaries of bin `k` are `min + (k ∓ ½)·h`; the value falls into the bin whose lower boundary is the last one it
reaches (`HistogramNew::Process`, non-periodic: outside → dropped) -/
def boundary (d : IDef) (k : Nat) : Rat := d.min + ((k : Rat) - 1 / 2) * hstep d

def binOf (d : IDef) (q : Q) : Option Nat :=
  let n := nbins d
  let cnt := ((List.range (n + 1)).filter fun k => geB q (boundary d k) (d.cosb.getD k 0)).length
  if cnt = 0 ∨ cnt = n + 1 then none else some (cnt - 1)

/-- relative closeness of the value to a bin boundary (the comparison then depends on rounding) -/
def nearBoundary (d : IDef) (q : Q) (eps : Rat) : Bool :=
  (List.range (nbins d + 1)).any fun k =>
    let b := boundary d k
    match q with
    | .len d2 => 0 < b && absRat (d2 - b * b) ≤ eps * (b * b)
    | .ang _ num den2 => absRat (num * num - (d.cosb.getD k 0) * (d.cosb.getD k 0) * den2) ≤ eps * den2

/-! ## coarse-grained positions of one frame (C01 model) -/

def cgPosOf (bt : BoxType) (B : Box) (atoms : List V3) (c : CgDef) : Option V3 :=
  let parents : List C01.Parent := c.atoms.map fun a => { pos := atoms[a]?, vel := none, frc := none, mass := 1 }
  match C01.initWeights c.atoms.length c.weights none with
  | .error _ => none
  | .ok wf =>
    match C01.apply bt B parents wf with
    | .ok b => b.pos
    | .error _ => none

def cgPositions (f : Frame) (cg : List CgDef) : Option (List V3) :=
  cg.mapM (cgPosOf (autoDetect f.box) f.box f.atoms)

/-! ## per-frame histograms -/

def countHist (d : IDef) (qs : List Q) : List Rat :=
  (List.range (nbins d)).map fun k => ((qs.filter fun q => binOf d q == some k).length : Rat)

def beadsOfType (cg : List CgDef) (t : String) : List Nat :=
  (List.range cg.length).filter fun i => (cg[i]?.map (·.type)) == some t

def orderedPairs : List Nat → List (Nat × Nat)
  | [] => []
  | a :: rest => rest.map (fun b => (a, b)) ++ orderedPairs rest

def molOf (cg : List CgDef) (i : Nat) : Nat := (cg[i]?.map (·.mol)).getD 0

def posAt (ps : List V3) (i : Nat) : V3 := ps.getD i V3.zero

/-- the pair quantities of a non-bonded interaction in one frame -/
def pairQs (d : IDef) (cg : List CgDef) (ias : List Ia) (intra : Bool) (f : Frame) (ps : List V3) : List Q :=
  let bt := autoDetect f.box
  let l1 := beadsOfType cg d.t1
  let l2 := beadsOfType cg d.t2
  let cand := if d.t1 == d.t2 then orderedPairs l1 else l1.flatMap fun i => l2.map fun j => (i, j)
  let rc := d.max + d.step
  let excl := C03.excludedBy (ias.map (·.beads)) (molOf cg)
  (cand.filter fun (i, j) => i != j && (intra || !excl i j) && C03.closeB bt f.box rc (posAt ps) i j).map fun (i, j) =>
    Q.len (mic bt f.box (posAt ps i) (posAt ps j)).normSq

/-- the centre angles of a three-body interaction in one frame -/
def tripleQs (d : IDef) (cg : List CgDef) (ias : List Ia) (f : Frame) (ps : List V3) : List Q :=
  let bt := autoDetect f.box
  let l1 := beadsOfType cg d.t1
  let l2 := beadsOfType cg d.t2
  let l3 := beadsOfType cg d.t3
  let excl := C03.excludedBy (ias.map (·.beads)) (molOf cg)
  let close := C03.closeB bt f.box d.cut (posAt ps)
  let tr := if d.t2 == d.t3 then (if d.t1 == d.t2 then C03.bruteTriples close excl l1 l1 l1 true
                                   else C03.bruteTriples close excl l1 l2 l2 true)
            else C03.bruteTriples close excl l1 l2 l3 false
  tr.map fun (i, j, k) =>
    let rij := mic bt f.box (posAt ps i) (posAt ps j)
    let rik := mic bt f.box (posAt ps i) (posAt ps k)
    Q.ang 1 (rij.dot rik) (rij.normSq * rik.normSq)

/-- `Interaction::EvaluateVar` of a bond, angle or dihedral -/
def iaQ (f : Frame) (ps : List V3) (ia : Ia) : Q :=
  let bt := autoDetect f.box
  let p := fun k => posAt ps (ia.beads.getD k 0)
  if ia.kind = 0 then Q.len (mic bt f.box (p 0) (p 1)).normSq
  else if ia.kind = 1 then
    let v1 := mic bt f.box (p 1) (p 0)
    let v2 := mic bt f.box (p 1) (p 2)
    Q.ang 1 (v1.dot v2) (v1.normSq * v2.normSq)
  else
    let v1 := mic bt f.box (p 0) (p 1)
    let v2 := mic bt f.box (p 1) (p 2)
    let v3 := mic bt f.box (p 2) (p 3)
    let n1 := v1.cross v2
    let n2 := v2.cross v3
    Q.ang (if v1.dot n2 < 0 then -1 else 1) (n1.dot n2) (n1.normSq * n2.normSq)

def frameQs (defs : List IDef) (cg : List CgDef) (ias : List Ia) (intra : Bool) (f : Frame) (ps : List V3) : List (List Q) :=
  (defs.zipIdx).map fun (d, di) =>
    if d.kind = 0 then pairQs d cg ias intra f ps
    else if d.kind = 1 then tripleQs d cg ias f ps
    else (ias.filter fun ia => ia.defIdx == di).map (iaQ f ps)

/-- what one worker hands to `MergeWorker`: the volume and one histogram per interaction -/
structure FrameData where
  vol : Rat
  hists : List (List Rat)
  deriving Repr

def frameData (defs : List IDef) (cg : List CgDef) (ias : List Ia) (intra : Bool) (f : Frame) : Option FrameData := do
  let ps ← cgPositions f cg
  pure { vol := volume f.box, hists := ((defs.zip (frameQs defs cg ias intra f ps)).map fun (d, qs) => countHist d qs) }

/-! ## running averages, literally as the code updates them -/

/-- `MergeWorker`: `avg ← ((n-1)·avg + h)/n` with `n` the new frame count -/
def mergeStep (st : Nat × Rat) (h : Rat) : Nat × Rat :=
  let n := st.1 + 1
  (n, Gen.Stat.mergeExpr (n : Rat) st.2 h)      -- the expression regenerated from Imc::MergeWorker

def runMean (hs : List Rat) : Rat := (hs.foldl mergeStep (0, 0)).2

/-- `Average<double>::Process`: `av ← av·n/(n+1) + v/(n+1)` -/
def avgStep (st : Nat × Rat) (v : Rat) : Nat × Rat :=
  (st.1 + 1, Gen.Stat.avgExpr (st.1 : Rat) st.2 v)     -- the expression regenerated from Average::Process

def avgVol (vs : List Rat) : Rat := (vs.foldl avgStep (0, 0)).2

/-- the plain mean, the specification of both -/
def mean (l : List Rat) : Rat := l.sum / (l.length : Rat)

/-- component `i` of interaction `k` over the frames -/
def comp (fs : List FrameData) (k i : Nat) : List Rat := fs.map fun f => (f.hists.getD k []).getD i 0

def avgHist (defs : List IDef) (fs : List FrameData) (k : Nat) : List Rat :=
  match defs[k]? with
  | none => []
  | some d => (List.range (nbins d)).map fun i => runMean (comp fs k i)

/-! ## `WriteDist` -/

/-- `BeginEvaluate`: pair normalisation -/
def pairNorm (d : IDef) (cg : List CgDef) : Rat :=
  let n1 : Rat := ((beadsOfType cg d.t1).length : Rat)
  let n2 : Rat := ((beadsOfType cg d.t2).length : Rat)
  if d.t1 == d.t2 then Gen.Stat.normSame n1 n2 else Gen.Stat.normCross n1 n2

/-- `x2³ - x1³` of the bin centred on `x` (× 4π/3 is the shell volume); `none` when the code writes 0 (`x1 < 0`) -/
def shellCube (d : IDef) (x : Rat) : Option Rat :=
  let x1 := Gen.Stat.shellX1 x (normStep d)
  let x2 := Gen.Stat.shellX2 x1 (normStep d)
  if x1 < 0 then none else some (x2 * x2 * x2 - x1 * x1 * x1)

/-- non-bonded pair distribution times π: `V̄ · norm · h̄_i · 3 / (4 (x2³ - x1³))` -/
def rdfTimesPi (d : IDef) (cg : List CgDef) (vbar : Rat) (avg : List Rat) : List Rat :=
  ((centres d).zip avg).map fun (x, h) =>
    let x1 := Gen.Stat.shellX1 x (normStep d)
    let x2 := Gen.Stat.shellX2 x1 (normStep d)
    -- the written value times π: the expression regenerated from WriteDist with `p = 1`
    if x1 < 0 then 0 else Gen.Stat.rdfExpr vbar (pairNorm d cg) h x1 x2 1

/-- bonded and three-body distributions: `norm_ · h̄ / (Σ|h̄| · step)` with `norm_ = 1`, unchanged when the sum is 0 -/
def unitDist (d : IDef) (avg : List Rat) : List Rat :=
  let s := C13.sumAbs avg
  if 0 < s then avg.map fun h => Gen.Stat.unitExpr 1 h s (normStep d) else avg

/-! ## IMC: correlations, `gmc`, `dS` -/

/-- members of group `g` (interaction indices, in definition order) and the offset of each in the group vector -/
def groupMembers (defs : List IDef) (g : Nat) : List Nat :=
  (List.range defs.length).filter fun k => (defs[k]?.map (·.group)) == some g

/-- the group vector index → (position of the member in the group, interaction, bin) -/
def groupIndex (defs : List IDef) (g : Nat) : List (Nat × Nat × Nat) :=
  ((groupMembers defs g).zipIdx).flatMap fun (k, pos) =>
    (List.range ((defs[k]?.map nbins).getD 0)).map fun i => (pos, k, i)

/-- `DoCorrelations`: entry of `corr_` for the entries the code updates -/
def corrStep (st : Nat × Rat) (ab : Rat × Rat) : Nat × Rat :=
  let n := st.1 + 1
  (n, Gen.Stat.corrExpr (n : Rat) st.2 ab.1 ab.2)      -- the expression regenerated from Imc::DoCorrelations

def corrEntry (fs : List FrameData) (a b : Nat × Nat × Nat) : Rat :=
  (((comp fs a.2.1 a.2.2).zip (comp fs b.2.1 b.2.2)).foldl corrStep (0, 0)).2

/-- `WriteIMCData`: `-(<S_a S_b> - <S_a><S_b>)` computed for the blocks with member position `a ≤ b`, mirrored below -/
def gmcEntry (fs : List FrameData) (a b : Nat × Nat × Nat) : Rat :=
  if a.1 ≤ b.1 then -(corrEntry fs a b - runMean (comp fs a.2.1 a.2.2) * runMean (comp fs b.2.1 b.2.2))
  else -(corrEntry fs b a - runMean (comp fs b.2.1 b.2.2) * runMean (comp fs a.2.1 a.2.2))

def gmc (defs : List IDef) (g : Nat) (fs : List FrameData) : List (List Rat) :=
  let ix := groupIndex defs g
  ix.map fun a => ix.map fun b => gmcEntry fs a b

/-- `CalcDeltaS` for a non-bonded interaction: `h̄_i - tgt_i · (x2³ - x1³) · 4π / (3 V̄ norm)`; returned as the pair
(`h̄_i`, the rational factor of π of the de-normalised target) -/
def dSParts (d : IDef) (cg : List CgDef) (vbar : Rat) (avg tgt : List Rat) : List (Rat × Rat) :=
  ((centres d).zip (avg.zip tgt)).map fun (x, h, t) =>
    let x1 := Gen.Stat.shellX1 x (normStep d)
    let x2 := Gen.Stat.shellX2 x1 (normStep d)
    if x1 < 0 then (h, 0) else (h, Gen.Stat.targetExpr vbar (pairNorm d cg) t x1 x2 1)

/-! ## the whole run: frame selection, merging in order, block output, `ClearAverages` -/

structure Out where
  block : Nat                 -- 0 = final output
  vbar : Rat
  avgs : List (List Rat)      -- averaged histogram per interaction
  frames : List FrameData     -- the frames this output averages over
  deriving Repr

structure Acc where
  frames : List FrameData     -- merged since the last `ClearAverages`
  vols : List Rat             -- volumes processed by `avg_vol_` since it was last cleared
  nblock : Nat
  outs : List Out
  deriving Repr

def mkOut (defs : List IDef) (block : Nat) (fs : List FrameData) (vols : List Rat) : Out :=
  { block := block, vbar := avgVol vols, avgs := (List.range defs.length).map (avgHist defs fs), frames := fs }

/-- `MergeWorker`; `ClearAverages` resets the frame count, the histograms, the correlations and the volume average -/
def mergeFrame (defs : List IDef) (blockLen : Nat) (a : Acc) (f : FrameData) : Acc :=
  let fs := a.frames ++ [f]
  let vols := a.vols ++ [f.vol]
  if blockLen ≠ 0 ∧ fs.length % blockLen = 0 then
    { frames := [], vols := [], nblock := a.nblock + 1, outs := a.outs ++ [mkOut defs (a.nblock + 1) fs vols] }
  else { a with frames := fs, vols := vols }

/-- `--first-frame k` ("start with this frame", counted from 1; 0 and 1 both mean the first), `--nframes` (negative: all) -/
def selectFrames {α} (first : Nat) (nframes : Int) (l : List α) : List α :=
  let l := l.drop (first - 1)
  if nframes < 0 then l else l.take nframes.toNat

/-- `BeginEvaluate` (on the first selected frame): a pair interaction whose `max` exceeds half the shortest box height is
refused -/
def beginOk (defs : List IDef) (f : Frame) : Bool :=
  defs.all fun d => d.kind != 0 || autoDetect f.box == BoxType.open_ || d.max * d.max * 4 ≤ minHeightSq f.box

/-- all outputs of a run: one per completed block, or the final one (`EndEvaluate`) when no block length is set -/
def run (defs : List IDef) (blockLen : Nat) (fs : List FrameData) : List Out :=
  let a := fs.foldl (mergeFrame defs blockLen) { frames := [], vols := [], nblock := 0, outs := [] }
  if blockLen = 0 then (if a.frames.isEmpty then [] else [mkOut defs 0 a.frames a.vols]) else a.outs

end Votca.C04
