import Votca.Model.C02
/-! # C01 — executable model of the coarse-grained mapping (csg/src/libcsg/map.cc: Map_Sphere::Initialize / Apply,
Map_Ellipsoid::Apply for position, velocity, force, mass; topologymap.cc).  Exact rationals, core Lean only. -/
namespace Votca.C01
open Votca Votca.C02

structure Parent where
  pos : Option V3
  vel : Option V3
  frc : Option V3
  mass : Rat
  deriving Repr

inductive Err | countMismatch | dWithoutWeight | halfBox
  deriving DecidableEq, Repr

/-- `Map_Sphere::Initialize`: normalised weights and force weights `d̂_i / ŵ_i` (0 where `ŵ_i = 0`) -/
def initWeights (n : Nat) (ws : List Rat) (ds : Option (List Rat)) : Except Err (List (Rat × Rat)) :=
  if n ≠ ws.length then .error .countMismatch else
  let norm := 1 / ws.sum
  let wn := ws.map (· * norm)
  let dn := match ds with
    | some d => let nd := 1 / d.sum; d.map (· * nd)
    | none => wn
  if n ≠ dn.length then .error .countMismatch else
  if (wn.zip dn).any (fun (w, d) => w == 0 && d != 0) then .error .dWithoutWeight else
  .ok ((wn.zip dn).map fun (w, d) => (w, if w != 0 then d / w else 0))

structure CGBead where
  mass : Rat
  pos : Option V3
  vel : Option V3
  frc : Option V3
  deriving Repr

def vsum (l : List V3) : V3 := l.foldl (· + ·) V3.zero

/-- the parents as the code sees them: each with a position is taken at the image nearest to the first parent -/
def unwrapped (bt : BoxType) (B : Box) (r0 : V3) (parents : List Parent) : List (Option V3) :=
  parents.map fun p => p.pos.map fun r => mic bt B r0 r + r0

/-- the (position, weight) pairs that enter the centre: parents without a position are skipped -/
def posWeights (parents : List Parent) (wf : List (Rat × Rat)) : List (V3 × Rat) :=
  (parents.zip wf).filterMap fun (p, w) => p.pos.map fun r => (r, w.1)

/-- `cg += weight * (BCShortestConnection(r0, pos) + r0)` over the parents -/
def cgPos (bt : BoxType) (B : Box) (r0 : V3) (prs : List (V3 × Rat)) : V3 :=
  vsum (prs.map fun q => q.2 * (mic bt B r0 q.1 + r0))

/-- weighted sum of velocities / forces -/
def wsum (prs : List (V3 × Rat)) : V3 := vsum (prs.map fun q => q.2 * q.1)

/-- reference point for the unwrapping: the first parent's position (origin if it has none) -/
def refPoint (parents : List Parent) : V3 :=
  match parents.head? with
  | some p => p.pos.getD V3.zero
  | none => V3.zero

/-- largest squared minimum-image distance of a parent from the reference point -/
def maxDistSq (bt : BoxType) (B : Box) (r0 : V3) (parents : List Parent) : Rat :=
  (parents.filterMap fun p => p.pos.map fun r => mic bt B r0 r).foldl (fun m r => if m < r.normSq then r.normSq else m) 0

/-- `Map_Sphere::Apply` (and the pos/vel/force/mass part of `Map_Ellipsoid::Apply`) -/
def apply (bt : BoxType) (B : Box) (parents : List Parent) (wf : List (Rat × Rat)) : Except Err CGBead :=
  let r0 := refPoint parents
  -- `max_bead_dist > 0.5 * getShortestBoxDimension()` compared in squares (right-handed box)
  if bt != BoxType.open_ && maxDistSq bt B r0 parents > minHeightSq B / 4 then .error .halfBox else
  let pw := parents.zip wf
  .ok { mass := (parents.map (·.mass)).sum,
        pos := if parents.any (·.pos.isSome) then some (cgPos bt B r0 (posWeights parents wf)) else none,
        vel := if parents.any (·.vel.isSome) then some (wsum (pw.filterMap fun (p, w) => p.vel.map fun v => (v, w.1))) else none,
        frc := if parents.any (·.frc.isSome) then some (wsum (pw.filterMap fun (p, w) => p.frc.map fun v => (v, w.2))) else none }

end Votca.C01
