import Votca.Base.Vec3
import Votca.Gen.Pot
/-! # C07 — executable model of the analytic derivatives: `IBond` / `IAngle` / `IDihedral::Grad`
(csg/include/votca/csg/interaction.h) and the parameter derivatives of the potential functions
(csg/src/libcsg/potentialfunctions).

The gradient formulas are written once, over any type with `+ - * /` and negation, so that the driver runs them over `Rat`
and the theorems are about the same definitions over `ℝ`.  Square roots enter as *witnesses*: `n1`, `n2` stand for
`|v1|`, `|v2|` (or `|n1|`, `|n2|` of the dihedral) and `s` for `√(1 - cos²)`; the theorems instantiate them with
`Real.sqrt`, the driver with 20-digit rational approximations.  Core Lean only. -/
namespace Votca.C07

structure Vec (α : Type) where
  x : α
  y : α
  z : α
  deriving Repr, BEq

section generic
variable {α : Type} [Add α] [Sub α] [Mul α] [Div α] [Neg α]

def Vec.add (a b : Vec α) : Vec α := ⟨a.x + b.x, a.y + b.y, a.z + b.z⟩
def Vec.sub (a b : Vec α) : Vec α := ⟨a.x - b.x, a.y - b.y, a.z - b.z⟩
def Vec.neg (a : Vec α) : Vec α := ⟨-a.x, -a.y, -a.z⟩
def Vec.smul (k : α) (a : Vec α) : Vec α := ⟨k * a.x, k * a.y, k * a.z⟩
def Vec.sdiv (a : Vec α) (k : α) : Vec α := ⟨a.x / k, a.y / k, a.z / k⟩
def Vec.dot (a b : Vec α) : α := a.x * b.x + a.y * b.y + a.z * b.z
def Vec.cross (a b : Vec α) : Vec α := ⟨a.y * b.z - a.z * b.y, a.z * b.x - a.x * b.z, a.x * b.y - a.y * b.x⟩

/-- `IBond::Grad`: `r = getDist(b0, b1)` normalised; bead 0 gets `-r̂`, bead 1 gets `r̂`.  `n = |r|`. -/
def bondGrad (bead : Nat) (r : Vec α) (n : α) : Vec α :=
  if bead = 0 then (r.sdiv n).neg else r.sdiv n

/-- `IAngle::Grad` with `v1 = getDist(b1, b0)`, `v2 = getDist(b1, b2)`, `n1 = |v1|`, `n2 = |v2|`,
`s = √(1 - (v1·v2)²/(|v1|²|v2|²))` (so `acos_prime = 1/s`) -/
def angleGrad (bead : Nat) (v1 v2 : Vec α) (n1 n2 s : α) : Vec α :=
  let d := v1.dot v2
  if bead = 0 then
    (((v2.sdiv (n1 * n2)).neg).add ((Vec.smul d v1).sdiv (n1 * n1 * n1 * n2))).sdiv s
  else if bead = 1 then
    (((v1.add v2).sdiv (n1 * n2)).sub
      ((Vec.smul d ((Vec.smul (n2 * n2) v1).add (Vec.smul (n1 * n1) v2))).sdiv ((n1 * n1 * n1) * (n2 * n2 * n2)))).sdiv s
  else
    (((v1.sdiv (n1 * n2)).neg).add ((Vec.smul d v2).sdiv (n1 * (n2 * n2 * n2)))).sdiv s

/-- the three unit vectors, from the caller's `0` and `1` -/
def unitVec (o l : α) (i : Nat) : Vec α := if i = 0 then ⟨l, o, o⟩ else if i = 1 then ⟨o, l, o⟩ else ⟨o, o, l⟩

/-- component `i` of `IDihedral::Grad` before the factor `acos_prime`.  `n1 = v1×v2`, `n2 = v2×v3`, `m1 = |n1|`, `m2 = |n2|` -/
def dihedralComp (bead : Nat) (v1 v2 v3 : Vec α) (m1 m2 : α) (e : Vec α) : α :=
  let n1 := v1.cross v2
  let n2 := v2.cross v3
  let c := n1.dot n2
  if bead = 0 then
    n2.dot (v2.cross e) / (m1 * m2) - c * n1.dot (v2.cross e) / (m2 * (m1 * m1 * m1))
  else if bead = 1 then
    (n1.dot (v3.cross e) + n2.dot ((e.cross v1).add (e.cross v2))) / (m1 * m2) -
      c * (n1.dot ((e.cross v1).add (e.cross v2)) / (m2 * (m1 * m1 * m1)) + n2.dot (v3.cross e) / (m1 * (m2 * m2 * m2)))
  else if bead = 2 then
    (n1.dot ((e.cross v2).add (e.cross v3)) + n2.dot (v1.cross e)) / (m1 * m2) -
      c * (n1.dot (v1.cross e) / (m2 * (m1 * m1 * m1)) + n2.dot ((e.cross v2).add (e.cross v3)) / (m1 * (m2 * m2 * m2)))
  else
    n1.dot (v2.cross e) / (m1 * m2) - c * n2.dot (v2.cross e) / (m1 * (m2 * m2 * m2))

/-- `IDihedral::Grad`: `acos_prime = sign · (-1/s)` times the components along the unit vectors -/
def dihedralGrad (o l : α) (bead : Nat) (v1 v2 v3 : Vec α) (m1 m2 s sign : α) : Vec α :=
  let f := sign * (-(l / s))
  ⟨f * dihedralComp bead v1 v2 v3 m1 m2 (unitVec o l 0), f * dihedralComp bead v1 v2 v3 m1 m2 (unitVec o l 1),
   f * dihedralComp bead v1 v2 v3 m1 m2 (unitVec o l 2)⟩

end generic

/-! ## potential functions -/

open Votca.Gen.Pot

/-- the range guard of `CalculateF` / `CalculateDF` / `CalculateD2F` -/
def inRange (mn cut r : Rat) : Bool := mn ≤ r && r ≤ cut

def lj126 (lam : List Rat) (mn cut r : Rat) : Rat × List Rat × List Rat :=
  let l := fun k => lam.getD k 0
  if inRange mn cut r then
    (lj126F (l 0) (l 1) r 0, (List.range 2).map (fun i => lj126DF i (l 0) (l 1) r 0),
     (List.range 2).flatMap fun i => (List.range 2).map fun j => lj126D2F i j (l 0) (l 1) r 0)
  else (0, List.replicate 2 0, List.replicate 4 0)

def ljg (lam : List Rat) (mn cut r E : Rat) : Rat × List Rat × List Rat :=
  let l := fun k => lam.getD k 0
  if inRange mn cut r then
    (ljgF (l 0) (l 1) (l 2) (l 3) (l 4) r E, (List.range 5).map (fun i => ljgDF i (l 0) (l 1) (l 2) (l 3) (l 4) r E),
     (List.range 5).flatMap fun i => (List.range 5).map fun j => ljgD2F i j (l 0) (l 1) (l 2) (l 3) (l 4) r E)
  else (0, List.replicate 5 0, List.replicate 25 0)

/-! ### cubic B-spline potential (`PotentialFunctionCBSPL`) -/

/-- row vector `(1, t, t², t³) · M` with the uniform cubic B-spline matrix -/
def bsplRow (t : Rat) : List Rat :=
  [(1 - 3 * t + 3 * t * t - t * t * t) / 6, (4 - 6 * t * t + 3 * t * t * t) / 6, (1 + 3 * t + 3 * t * t - 3 * t * t * t) / 6, (t * t * t) / 6]

structure Cbspl where
  nlam : Nat
  mn : Rat
  cut : Rat
  nexcl : Nat          -- number of leading coefficients that are not optimised (read back from the implementation)
  deriving Repr

def Cbspl.nbreak (c : Cbspl) : Nat := c.nlam - 2
def Cbspl.dr (c : Cbspl) : Rat := c.cut / ((c.nbreak : Rat) - 1)
/-- `nexcl_ = min((Index)(min/dr), nbreak-2) + 1`, and one more when the knot coincides with `min` in double arithmetic -/
def Cbspl.nexclBase (c : Cbspl) : Nat := Nat.min (c.mn / c.dr).floor.toNat (c.nbreak - 2) + 1
def Cbspl.nopt (c : Cbspl) : Int := (c.nlam : Int) - (c.nexcl : Int) - 4
def Cbspl.indx (c : Cbspl) (r : Rat) : Nat := Nat.min (r / c.dr).floor.toNat (c.nbreak - 2)
def Cbspl.t (c : Cbspl) (r : Rat) : Rat := (r - (c.indx r : Rat) * c.dr) / c.dr

def dotL : List Rat → List Rat → Rat
  | a :: as, b :: bs => a * b + dotL as bs
  | _, _ => 0

/-- `CalculateF` -/
def Cbspl.F (c : Cbspl) (lam : List Rat) (r : Rat) : Rat :=
  if r ≤ c.cut then dotL (bsplRow (c.t r)) ((lam.drop (c.indx r)).take 4) else 0

/-- `CalculateDF(i, r)` for the optimised parameter `i` (`lam_(i + nexcl_)`) -/
def Cbspl.DF (c : Cbspl) (i : Nat) (r : Rat) : Rat :=
  if r ≤ c.cut then
    let io := i + c.nexcl
    let ix := c.indx r
    if ix ≤ io ∧ io ≤ ix + 3 then (bsplRow (c.t r)).getD (io - ix) 0 else 0
  else 0

end Votca.C07
