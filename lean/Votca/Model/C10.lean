import Votca.Base.Util
/-! # C10 — executable model of the shared job file protocol (xtp/src/libxtp/progressobserver.cc: RequestNextJob,
SyncWithProgFile, ReportJobDone; job.cc: UPDATE_JOBS) for `P` processes sharing one job file.  One worker per process (threads
inside a process are serialised by `lockThread_`).  The lock mode is a parameter; the mode the code uses is read from the source
by the translator (`Votca/Gen/JobLock.lean`).  `maxjobs` and restart patterns are not part of this model.  Core Lean only. -/
namespace Votca.C10

def upd {β : Type} (f : Nat → β) (i : Nat) (v : β) : Nat → β := fun j => if j = i then v else f j

inductive Status | avail | assigned | complete
deriving DecidableEq, Repr

structure Job where
  status : Status
  host : Option Nat
deriving DecidableEq, Repr

inductive PC
  | idle | wantLock | locked | merged | backedUp | assignedSt | written | unlocked
  | exec (j : Nat) | done
deriving DecidableEq, Repr

inductive Mode | shared | exclusive
deriving DecidableEq, Repr

structure Proc where
  pc : PC
  mem : Nat → Job
  mpos : Nat
  cache : List Nat
  more : Bool
  fin : Bool

structure S where
  proc : Nat → Proc
  disk : Nat → Job
  bak : Nat → Job
  lock : List Nat
  execLog : List (Nat × Nat)

open PC Status

/-- UPDATE_JOBS: take the external record when it is owned by another host -/
def merge (p : Nat) (ext mem : Nat → Job) : Nat → Job :=
  fun j => match (ext j).host with
    | some q => if q ≠ p then ext j else mem j
    | none => mem j

/-- the assignment loop of SyncWithProgFile: scan from `mpos`, fill the cache up to `c` -/
def assign (p c J : Nat) : Nat → (Nat → Job) → Nat → List Nat → (Nat → Job) × Nat × List Nat
  | 0, mem, mpos, cache => (mem, mpos, cache)
  | fuel + 1, mem, mpos, cache =>
    if cache.length < c ∧ mpos < J then
      if (mem mpos).status = avail then
        assign p c J fuel (upd mem mpos ⟨assigned, some p⟩) (mpos + 1) (cache ++ [mpos])
      else assign p c J fuel mem (mpos + 1) cache
    else (mem, mpos, cache)

def setP (s : S) (p : Nat) (x : Proc) : S := { s with proc := upd s.proc p x }

def step (mode : Mode) (c J : Nat) (s : S) (p : Nat) : Option S :=
  let x := s.proc p
  match x.pc with
  | idle =>
    match x.cache with
    | j :: rest => some (setP s p { x with cache := rest, pc := exec j })
    | [] => if x.more then some (setP s p { x with pc := wantLock })
            else some (setP s p { x with fin := true, pc := wantLock })
  | wantLock =>
    match mode with
    | Mode.exclusive => if s.lock = [] then some { setP s p { x with pc := locked } with lock := [p] } else none
    | Mode.shared => some { setP s p { x with pc := locked } with lock := p :: s.lock }
  | locked => some (setP s p { x with mem := merge p s.disk x.mem, pc := merged })
  | merged => some { setP s p { x with pc := backedUp } with bak := x.mem }
  | backedUp =>
    let r := assign p c J J x.mem x.mpos []
    some (setP s p { x with mem := r.1, mpos := r.2.1, cache := r.2.2, pc := assignedSt })
  | assignedSt => some { setP s p { x with pc := written } with disk := x.mem }
  | written => some { setP s p { x with pc := unlocked } with lock := s.lock.erase p }
  | unlocked =>
    if x.fin then some (setP s p { x with pc := done })
    else some (setP s p { x with more := (if x.cache = [] then false else x.more), pc := idle })
  | exec j => some { setP s p { x with mem := upd x.mem j ⟨complete, some p⟩, pc := idle }
                      with execLog := s.execLog ++ [(p, j)] }
  | done => none

def initJob : Job := ⟨avail, none⟩
def init : S :=
  { proc := fun _ => { pc := idle, mem := fun _ => initJob, mpos := 0, cache := [], more := true, fin := false },
    disk := fun _ => initJob, bak := fun _ => initJob, lock := [], execLog := [] }

def run (mode : Mode) (P c J : Nat) : S → List Nat → S
  | s, [] => s
  | s, p :: rest => match (if p < P then step mode c J s p else none) with
    | some s' => run mode P c J s' rest
    | none => run mode P c J s rest

def jobsRun (s : S) : List Nat := s.execLog.map Prod.snd


/-! ## crash consistency of one synchronisation: back-up written completely before the job file is touched -/
inductive FileState | complete (gen : Nat) | torn
  deriving DecidableEq, Repr

structure Disk where
  file : FileState
  backup : FileState
  deriving DecidableEq, Repr

/-- the write steps of `SyncWithProgFile`: truncate+write the back-up (torn while in progress), then the job file -/
def syncSteps (d : Disk) (g : Nat) : List Disk :=
  [d, { d with backup := .torn }, { d with backup := .complete g }, { file := .torn, backup := .complete g },
   { file := .complete (g + 1), backup := .complete g }]

def oneComplete (d : Disk) : Bool :=
  (match d.file with | .complete _ => true | .torn => false) || (match d.backup with | .complete _ => true | .torn => false)

end Votca.C10
