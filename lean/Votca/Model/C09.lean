import Votca.Model.C06
/-! # C09 — what can be modelled of the Davidson solver (xtp davidsonsolver.{h,cc}): the status logic around the numerics
(`checkConvergence`, `storeConvergedData`, `storeNotConvergedData`) and the exact certificates the check evaluates on
the solver's output: residuals, orthonormality, and the number of eigenvalues below a shift as the number of negative
pivots of an exact LDLᵀ elimination (Sylvester's law of inertia, not proved here).  Exact rationals; core Lean only. -/
namespace Votca.C09
open Votca Votca.C06

/-! ## status logic -/

inductive Status | success | noConvergence
  deriving Repr, BEq, DecidableEq

/-- `checkConvergence`: the first `neigen` residual norms are below the tolerance -/
def converged (tol : Rat) (neigen : Nat) (resNorms : List Rat) : Bool := (resNorms.take neigen).all (· < tol)

/-- what `solve` leaves behind after an iteration that ends it: on convergence the first `neigen` Ritz values, at the
last iteration the converged ones with the unconverged roots set to zero -/
def finish (tol : Rat) (neigen : Nat) (resNorms lambdas : List Rat) : Status × List Rat :=
  if converged tol neigen resNorms then (.success, lambdas.take neigen)
  else (.noConvergence, ((lambdas.take neigen).zip (resNorms.take neigen)).map fun (l, r) => if r < tol then l else 0)

/-! ## exact certificates -/

def subDiag (A : Mat) (s : Rat) : Mat := A.zipIdx.map fun (row, i) => row.zipIdx.map fun (a, j) => if i == j then a - s else a

/-- symmetric elimination without pivoting: the pivots `d₁ … dₙ` of `M = L D Lᵀ`; `none` on a zero pivot -/
def pivots : Nat → Mat → Option (List Rat)
  | 0, _ => some []
  | k + 1, M =>
    match M with
    | [] => some []
    | row :: rest =>
      let p := row.headD 0
      if p == 0 then none else
      let r1 := row.tail
      let M' := rest.map fun r => let f := r.headD 0 / p; (r.tail.zip r1).map fun (a, b) => a - f * b
      (pivots k M').map (p :: ·)

/-- number of eigenvalues of the symmetric matrix `A` below `s` (negative pivots of `A - s·1`) -/
def countBelow (A : Mat) (s : Rat) : Option Nat := (pivots A.length (subDiag A s)).map fun ps => (ps.filter (· < 0)).length

/-- the count with a shift moved a little when a pivot vanishes -/
def countBelowRobust (A : Mat) (s eps : Rat) : Option Nat :=
  (countBelow A s).orElse fun _ => (countBelow A (s + eps)).orElse fun _ => countBelow A (s + 2 * eps)

def residualSq (A : Mat) (lam : Rat) (v : C06.Vec) : Rat :=
  let r := vsub (mulVec A v) (vscale lam v)
  dot r r

def matMul (A B : Mat) : Mat := let Bt := transpose B; A.map fun row => Bt.map fun col => dot row col

end Votca.C09
