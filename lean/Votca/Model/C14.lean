import Votca.Base.Util
import Votca.Gen.Marcus
/-! # C14 — executable model of xtp/huffmantree.h (threshold redistribution and descent) over exact rationals, and
the pair-rate assembly of `Rate_Engine::Rate`.  Core Lean only. -/
namespace Votca.C14

/-- the tree as `makeTree` leaves it; `p` is the mutable `probability` field, `id` the index in `htree`.
    `vl`,`vr`,`v` are the event values divided by `sum_of_values`. -/
inductive T where
  | two (id l r : Nat) (vl vr p : Rat)      -- last level with two events
  | one (id e : Nat) (v p : Rat)            -- last level, odd leftover event: left = right = e
  | inner (id : Nat) (l r : T) (p : Rat)
  deriving Repr

open T

def prob : T → Rat
  | two _ _ _ _ _ p => p
  | one _ _ _ p => p
  | inner _ _ _ p => p

/-- total probability mass of the leaves below a node -/
def mass : T → Rat
  | two _ _ _ vl vr _ => vl + vr
  | one _ _ v _ => v
  | inner _ l r _ => mass l + mass r

/-- the node probabilities right after the merge phase -/
def setFresh : T → T
  | two i l r vl vr _ => two i l r vl vr (vl + vr)
  | one i e v _ => one i e v v
  | inner i l r _ =>
    let l' := setFresh l
    let r' := setFresh r
    inner i l' r' (prob l' + prob r')

/-- `addProbabilityFromRightSubtreeToLeftSubtree` -/
def pass1 : T → Rat → T
  | two i l r vl vr p, add => two i l r vl vr (p + add)
  | one i e v p, add => one i e v (p + add)
  | inner i l r p, add => inner i (pass1 l (add + prob r)) (pass1 r add) (p + add)

/-- `moveProbabilitiesFromRightSubtreesOneLevelUp` -/
def pass2 : T → T
  | two i l r vl vr p => two i l r vl vr (p - vl)
  | one i e v p => one i e v (p - v)
  | inner i l r _ => inner i (pass2 l) (pass2 r) (prob r)

/-- `findHoppingDestination` -/
def find : T → Rat → Nat
  | two _ l r _ _ p, x => if x > p then l else r
  | one _ e _ _, _ => e
  | inner _ l r p, x => if x > p then find l x else find r x

/-- the finished tree for a given shape -/
def finish (t : T) : T := pass2 (pass1 (setFresh t) 0)

/-- (htree index, threshold) of every node -/
def thresholds : T → List (Nat × Rat)
  | two i _ _ _ _ p => [(i, p)]
  | one i _ _ p => [(i, p)]
  | inner i l r p => (i, p) :: (thresholds l ++ thresholds r)

/-- leaves from right to left with their masses -/
def leavesRL : T → List (Nat × Rat)
  | two _ l r vl vr _ => [(r, vr), (l, vl)]
  | one _ e v _ => [(e, v)]
  | inner _ l r _ => leavesRL r ++ leavesRL l

/-- reference selection: walk the cumulative sums from offset `a`; the last leaf catches everything above -/
def select : List (Nat × Rat) → Rat → Rat → Nat
  | [], _, _ => 0
  | [(e, _)], _, _ => e
  | (e, v) :: rest, a, x => if x > a + v then select rest (a + v) x else e

def total : List (Nat × Rat) → Rat
  | [] => 0
  | (_, v) :: rest => v + total rest

/-! ## tree shape as dumped from the implementation -/

inductive NodeDesc where
  | last (l r : Nat)        -- event indices
  | inner (lc rc : Nat)     -- htree indices of the children
  deriving Repr

/-- rebuild the tree below node `idx`; children must have smaller indices (they were created earlier) -/
def ofNodes (nodes : Array NodeDesc) (val : Nat → Rat) : Nat → Nat → Option T
  | 0, _ => none
  | fuel + 1, idx =>
    match nodes[idx]? with
    | none => none
    | some (.last l r) => if l = r then some (one idx l (val l) 0) else some (two idx l r (val l) (val r) 0)
    | some (.inner lc rc) =>
      if lc < idx ∧ rc < idx then
        match ofNodes nodes val fuel lc, ofNodes nodes val fuel rc with
        | some a, some b => some (T.inner idx a b 0)
        | _, _ => none
      else none

/-! ## pair rates (`Rate_Engine::Rate`), double arithmetic, using the GENERATED Marcus expression -/

structure PairIn where
  (pi hbar ev2hrt : Float)
  (charge : Float)
  (e1 e2 : Float)             -- site energies of segment 1 and 2
  (inner12 inner21 : Float)   -- pair.getReorg12 / getReorg21: inner-sphere reorganisation energies
  (lambdaO : Float)           -- outer-sphere reorganisation energy of the pair
  (r : Float × Float × Float) -- pair.R()
  (f : Float × Float × Float) -- field
  (kT : Float)
  (j2 : Float)

def dot3 (a b : Float × Float × Float) : Float := a.1 * b.1 + a.2.1 * b.2.1 + a.2.2 * b.2.2

def deltaG (p : PairIn) : Float :=
  let dGField := if p.charge != 0.0 then p.charge * dot3 p.r p.f else 0.0
  (p.e1 - p.e2) + dGField

def pairRates (p : PairIn) : Float × Float :=
  let dG := deltaG p
  (Votca.Gen.Marcus.marcusrateF p.pi p.hbar p.ev2hrt p.j2 dG (Votca.Gen.Marcus.reorg12F p.inner12 p.lambdaO) p.kT,
   Votca.Gen.Marcus.marcusrateF p.pi p.hbar p.ev2hrt p.j2 (-dG) (Votca.Gen.Marcus.reorg21F p.inner21 p.lambdaO) p.kT)

end Votca.C14
