import Votca.Base.Util
import Votca.Gen.CubicBasis
/-! # C12 — executable models of the splines and table tools (tools/src/libtools: spline.cc getInterval, linspline.cc, akimaspline.cc,
cubicspline.cc Calculate / CalculateDerivative / the linear system of Interpolate, table.cc Smooth).  The cubic basis functions are
GENERATED from cubicspline.cc.  The linear solve itself (Eigen's QR) is not executed here: a second-derivative vector `f2` is an
input together with its exact residual.  Exact rationals, core Lean only. -/
namespace Votca.C12
open Votca.Gen.Cubic

def nth (l : List Rat) (i : Nat) : Rat := l.getD i 0

/-- `Spline::getInterval`: clamped at both ends -/
def getInterval (rs : List Rat) (r : Rat) : Nat :=
  if r < nth rs 0 then 0
  else if r > nth rs (rs.length - 2) then rs.length - 2
  else
    match rs.findIdx? (fun x => x > r) with
    | some i => i - 1
    | none => rs.length - 1

/-! ## linear spline -/
def linA (xs ys : List Rat) (i : Nat) : Rat := (nth ys (i + 1) - nth ys i) / (nth xs (i + 1) - nth xs i)
def linB (xs ys : List Rat) (i : Nat) : Rat := nth ys i - linA xs ys i * nth xs i
def linCalc (xs ys : List Rat) (r : Rat) : Rat := let i := getInterval xs r; linA xs ys i * r + linB xs ys i
def linDeriv (xs ys : List Rat) (r : Rat) : Rat := linA xs ys (getInterval xs r)

/-! ## cubic spline -/
def cubicCalcAt (xs fs f2 : List Rat) (i : Nat) (r : Rat) : Rat :=
  let x0 := nth xs i
  let x1 := nth xs (i + 1)
  A x0 x1 r * nth fs i + B x0 x1 r * nth fs (i + 1) + C x0 x1 r * nth f2 i + D x0 x1 r * nth f2 (i + 1)

def cubicDerivAt (xs fs f2 : List Rat) (i : Nat) (r : Rat) : Rat :=
  let x0 := nth xs i
  let x1 := nth xs (i + 1)
  Aprime x0 x1 r * nth fs i + Bprime x0 x1 r * nth fs (i + 1) + Cprime x0 x1 r * nth f2 i + Dprime x0 x1 r * nth f2 (i + 1)

def cubicCalc (xs fs f2 : List Rat) (r : Rat) : Rat := cubicCalcAt xs fs f2 (getInterval xs r) r
def cubicDeriv (xs fs f2 : List Rat) (r : Rat) : Rat := cubicDerivAt xs fs f2 (getInterval xs r) r

/-- residual of interior row `i + 1` of the system of `Interpolate`: `(A f2 − temp)_{i+1}` -/
def rowResidual (xs fs f2 : List Rat) (i : Nat) : Rat :=
  let x0 := nth xs i
  let x1 := nth xs (i + 1)
  let x2 := nth xs (i + 2)
  C_prime_l x0 x1 x2 * nth f2 i + (D_prime_l x0 x1 x2 - C_prime_r x0 x1 x2) * nth f2 (i + 1) + (-(D_prime_r x0 x1 x2)) * nth f2 (i + 2)
    - (-(A_prime_l x0 x1 x2 * nth fs i + (B_prime_l x0 x1 x2 - A_prime_r x0 x1 x2) * nth fs (i + 1) - B_prime_r x0 x1 x2 * nth fs (i + 2)))

/-- boundary rows of `Interpolate`: natural (`f2_0 = 0`, `f2_{N-1} = 0`); periodic: row 0 is `f2_0 − f2_{N-1}` (equal curvature), row N-1
    is slope continuity across the period (derivative of the last piece at its right end = derivative of the first piece at its left end) -/
def boundaryResiduals (periodic : Bool) (xs fs f2 : List Rat) : Rat × Rat :=
  let n := xs.length
  if periodic then
    let h0 := nth xs 1 - nth xs 0
    let xa := nth xs (n - 2)
    let xb := nth xs (n - 1)
    (nth f2 0 - nth f2 (n - 1),
     C_prime_l xa xb xb * nth f2 (n - 2) + D_prime_l xa xb xb * nth f2 (n - 1) + h0 / 3 * nth f2 0 + h0 / 6 * nth f2 1
       - (-(A_prime_l xa xb xb * nth fs (n - 2) + B_prime_l xa xb xb * nth fs (n - 1) + nth fs 0 / h0 - nth fs 1 / h0)))
  else (nth f2 0, nth f2 (n - 1))

/-! ## Akima spline -/
def absQ (x : Rat) : Rat := if x < 0 then -x else x

/-- `getSlope` (the degenerate case uses exact equality here; the code's test is `|a-b| ≤ 1e-15·…`) -/
def getSlope (m1 m2 m3 m4 : Rat) : Rat :=
  if m1 == m2 && m3 == m4 then (m2 + m3) / 2
  else (absQ (m4 - m3) * m2 + absQ (m2 - m1) * m3) / (absQ (m4 - m3) + absQ (m2 - m1))

/-- Hermite coefficients of one Akima piece from the end values and slopes -/
def akimaP2 (h y0 y1 t0 t1 : Rat) : Rat := (3 * (y1 - y0) / h - 2 * t0 - t1) / h
def akimaP3 (h y0 y1 t0 t1 : Rat) : Rat := (t0 + t1 - 2 * (y1 - y0) / h) / (h * h)
def akimaPiece (h y0 y1 t0 t1 z : Rat) : Rat := y0 + t0 * z + akimaP2 h y0 y1 t0 t1 * z * z + akimaP3 h y0 y1 t0 t1 * z * z * z
def akimaPieceDeriv (h y0 y1 t0 t1 z : Rat) : Rat := t0 + 2 * akimaP2 h y0 y1 t0 t1 * z + 3 * akimaP3 h y0 y1 t0 t1 * z * z

/-- interior slope `t_i` (2 ≤ i < N-2) -/
def akimaInteriorSlope (xs ys : List Rat) (i : Nat) : Rat :=
  let m (k : Nat) := (nth ys (k + 1) - nth ys k) / (nth xs (k + 1) - nth xs k)
  getSlope (m (i - 2)) (m (i - 1)) (m i) (m (i + 1))

def akimaCalc (xs ys ts : List Rat) (r : Rat) : Rat :=
  let i := getInterval xs r
  akimaPiece (nth xs (i + 1) - nth xs i) (nth ys i) (nth ys (i + 1)) (nth ts i) (nth ts (i + 1)) (r - nth xs i)

def akimaDeriv (xs ys ts : List Rat) (r : Rat) : Rat :=
  let i := getInterval xs r
  akimaPieceDeriv (nth xs (i + 1) - nth xs i) (nth ys i) (nth ys (i + 1)) (nth ts i) (nth ts (i + 1)) (r - nth xs i)

/-! ## Table::Smooth -/
def smoothOnce (ys : List Rat) : List Rat :=
  if ys.length < 3 then ys else
  (List.range ys.length).map fun i =>
    if i == 0 || i + 1 == ys.length then nth ys i else (nth ys (i - 1) + 2 * nth ys i + nth ys (i + 1)) / 4

def smooth : Nat → List Rat → List Rat
  | 0, ys => ys
  | k + 1, ys => smooth k (smoothOnce ys)

end Votca.C12
