import Votca.Base.Util
/-! # C05 — unordered mode (`SynchronizeThreads() == false`: csg_reupdate, orientcorr): no token rings, only the reader
mutex; workers are merged by the main thread after the joins.  Core Lean only. -/
namespace Votca.C05.Unord


inductive PC | wantReader | inReader | gotFrame (f : Nat) | eval (f : Nat) | endUnlock | done
deriving DecidableEq, Repr

structure S where
  pc : Nat → PC
  rd : Bool
  budget : Option Nat
  isFirst : Bool
  pos : Nat
  processed : List Nat

open PC
def upd (f : Nat → PC) (i : Nat) (p : PC) : Nat → PC := fun j => if j = i then p else f j

def step (F : Nat) (s : S) (i : Nat) : Option S :=
  match s.pc i with
  | wantReader => if s.rd then none else some { s with rd := true, pc := upd s.pc i inReader }
  | inReader =>
      if s.budget = some 0 then some { s with pc := upd s.pc i endUnlock }
      else if s.isFirst = true ∧ i = 0 then
        some { s with budget := s.budget.map (· - 1), isFirst := false, pc := upd s.pc i (gotFrame 0) }
      else if s.pos < F then
        some { s with budget := s.budget.map (· - 1), isFirst := (if i = 0 then false else s.isFirst),
                      pos := s.pos + 1, pc := upd s.pc i (gotFrame s.pos) }
      else some { s with budget := s.budget.map (· - 1), pc := upd s.pc i endUnlock }
  | gotFrame f => some { s with rd := false, pc := upd s.pc i (eval f) }
  | eval f => some { s with processed := s.processed ++ [f], pc := upd s.pc i wantReader }
  | endUnlock => some { s with rd := false, pc := upd s.pc i done }
  | done => none

def init (b : Option Nat) : S :=
  { pc := fun _ => wantReader, rd := false, budget := b, isFirst := true, pos := 1, processed := [] }

def run (n F : Nat) : S → List Nat → S
  | s, [] => s
  | s, i :: rest => match (if i < n then step F s i else none) with
    | some s' => run n F s' rest
    | none => run n F s rest

def allDone (n : Nat) (s : S) : Bool := (List.range n).all (fun i => s.pc i == done)




end Votca.C05.Unord
