import Votca.Base.Util
/-! # C05 — executable model of the threaded trajectory analysis (csg/src/libcsg/csgapplication.cc:
`CsgApplication::ProcessData`, `Worker::Run`, the start-up in `Run`) as a transition system over `n` workers.
Ordered mode (`SynchronizeThreads() == true`): In ring, reader mutex, evaluation, Out ring, merge.  Frame 0 is the frame
the main thread has already read into worker 0 while seeking; `F` frames are available from there on; `budget` is `--nframes`.
Mutexes are binary semaphores (votca unlocks them from another thread than the one that locked them).
The ghost counters (`inTok`, `inBase`, `outTok`, `outBase`, `ended`) are never read by `step` to decide anything.
Core Lean only. -/
namespace Votca.C05

def upd {β : Type} (f : Nat → β) (i : Nat) (v : β) : Nat → β := fun j => if j = i then v else f j

inductive PC
  | wantIn | wantReader | inReader
  | gotFrame (f : Nat) | passIn (f : Nat) | eval (f : Nat) | wantOut (f : Nat) | merging (f : Nat) | passOut
  | endUnlock | endPass | done
deriving DecidableEq, Repr

structure S where
  pc : Nat → PC
  inL : Nat → Bool
  outL : Nat → Bool
  rd : Bool
  budget : Option Nat
  isFirst : Bool
  pos : Nat
  readLog : List Nat
  mergeLog : List Nat
  -- ghost (never read by `step` to decide anything)
  inTok : Nat
  inBase : Nat
  outTok : Nat
  outBase : Nat
  ended : Bool

open PC

def advTok (n tok : Nat) : Nat := if tok + 1 = n then 0 else tok + 1
def advBase (n base tok : Nat) : Nat := if tok + 1 = n then base + n else base

/-- one step of worker `i` (none = blocked or finished); `F` = number of frames in the file,
    frame 0 is the one main already read into worker 0 -/
def step (n F : Nat) (s : S) (i : Nat) : Option S :=
  match s.pc i with
  | wantIn => if s.inL i then none else
      some { s with inL := upd s.inL i true, pc := upd s.pc i wantReader }
  | wantReader => if s.rd then none else
      some { s with rd := true, pc := upd s.pc i inReader }
  | inReader =>
      if s.budget = some 0 then
        some { s with ended := true, inTok := advTok n s.inTok, inBase := advBase n s.inBase s.inTok,
                      pc := upd s.pc i endUnlock }
      else if s.isFirst = true ∧ i = 0 then
        some { s with budget := s.budget.map (· - 1), isFirst := false, readLog := s.readLog ++ [0],
                      inTok := advTok n s.inTok, inBase := advBase n s.inBase s.inTok,
                      pc := upd s.pc i (gotFrame 0) }
      else if s.pos < F then
        some { s with budget := s.budget.map (· - 1), isFirst := (if i = 0 then false else s.isFirst),
                      pos := s.pos + 1, readLog := s.readLog ++ [s.pos],
                      inTok := advTok n s.inTok, inBase := advBase n s.inBase s.inTok,
                      pc := upd s.pc i (gotFrame s.pos) }
      else
        some { s with budget := s.budget.map (· - 1), ended := true,
                      inTok := advTok n s.inTok, inBase := advBase n s.inBase s.inTok,
                      pc := upd s.pc i endUnlock }
  | gotFrame f => some { s with rd := false, pc := upd s.pc i (passIn f) }
  | passIn f => some { s with inL := upd s.inL ((i + 1) % n) false,
                              pc := upd s.pc i (eval f) }
  | eval f => some { s with pc := upd s.pc i (wantOut f) }
  | wantOut f => if s.outL i then none else
      some { s with outL := upd s.outL i true, pc := upd s.pc i (merging f) }
  | merging f => some { s with mergeLog := s.mergeLog ++ [f],
                               outTok := advTok n s.outTok, outBase := advBase n s.outBase s.outTok,
                               pc := upd s.pc i passOut }
  | passOut => some { s with outL := upd s.outL ((i + 1) % n) false,
                             pc := upd s.pc i wantIn }
  | endUnlock => some { s with rd := false, pc := upd s.pc i endPass }
  | endPass => some { s with inL := upd s.inL ((i + 1) % n) false,
                             pc := upd s.pc i done }
  | done => none

def init (budget : Option Nat) : S :=
  { pc := fun _ => wantIn, inL := fun j => decide (j ≠ 0), outL := fun j => decide (j ≠ 0), rd := false,
    budget := budget, isFirst := true, pos := 1, readLog := [], mergeLog := [],
    inTok := 0, inBase := 0, outTok := 0, outBase := 0, ended := false }

def run (n F : Nat) : S → List Nat → S
  | s, [] => s
  | s, i :: rest => match (if i < n then step n F s i else none) with
    | some s' => run n F s' rest
    | none => run n F s rest



def allDone (n : Nat) (s : S) : Bool := (List.range n).all (fun i => s.pc i == PC.done)

end Votca.C05
