import Votca.Base.Util
/-! # C13 — executable models of `HistogramNew` (tools/src/libtools/histogramnew.cc) and the automatic range /
binning of the legacy `Histogram` (histogram.cc).  Exact rational arithmetic; core Lean only. -/
namespace Votca.C13

/-- `Initialize_`: bin width -/
def stepOf (min max : Rat) (n : Nat) (periodic : Bool) : Rat :=
  if n = 1 then 1 else if periodic then (max - min) / (n : Rat) else (max - min) / ((n : Rat) - 1)

structure Hist where
  min : Rat
  max : Rat
  n : Nat
  periodic : Bool
  data : List Rat
  deriving Repr

def Hist.step (h : Hist) : Rat := stepOf h.min h.max h.n h.periodic

def init (min max : Rat) (n : Nat) (periodic : Bool) : Hist := ⟨min, max, n, periodic, List.replicate n 0⟩

/-- `floor((v - min_) / step_ + 0.5)` -/
def rawIndex (min step v : Rat) : Int := ((v - min) / step + 1 / 2).floor

/-- beyond this the `double → Index` cast would be undefined; the code drops the value -/
def castLimit : Int := 9000000000000000000

/-- the periodic wrap as the code writes it (C++ `%` truncates: `Int.tmod`) -/
def wrapCode (i n : Int) : Int :=
  if i < 0 then Int.tmod (n - Int.tmod (-i) n) n else Int.tmod i n

/-- the bin `Process` adds to, or `none` when the value is dropped -/
def binIndex (h : Hist) (v : Rat) : Option Nat :=
  let i := rawIndex h.min h.step v
  if ¬ (-castLimit < i ∧ i < castLimit) then none
  else if i < 0 ∨ i ≥ (h.n : Int) then
    (if h.periodic then some (wrapCode i h.n).toNat else none)
  else some i.toNat

/-- what the property asks for: nearest centre `min + k·step`; outside → dropped, or wrapped modulo `n` -/
def specIndex (h : Hist) (v : Rat) : Option Nat :=
  let k := rawIndex h.min h.step v
  if ¬ (-castLimit < k ∧ k < castLimit) then none
  else if h.periodic then some (k % (h.n : Int)).toNat
  else if 0 ≤ k ∧ k < (h.n : Int) then some k.toNat else none

def addAt : List Rat → Nat → Rat → List Rat
  | [], _, _ => []
  | y :: ys, 0, w => (y + w) :: ys
  | y :: ys, i + 1, w => y :: addAt ys i w

/-- `Process(v, scale)` -/
def process (h : Hist) (vw : Rat × Rat) : Hist :=
  match binIndex h vw.1 with
  | some i => { h with data := addAt h.data i vw.2 }
  | none => h

/-- weight the value contributes (0 when dropped) -/
def accepted (h : Hist) (vw : Rat × Rat) : Rat :=
  match binIndex h vw.1 with
  | some _ => vw.2
  | none => 0

def sumAbs (l : List Rat) : Rat := (l.map absRat).sum

/-- `Normalize()` -/
def normalize (h : Hist) : Hist :=
  let area := sumAbs h.data * h.step
  let scale := 1 / area
  { h with data := h.data.map (· * scale) }

def clear (h : Hist) : Hist := { h with data := List.replicate h.n 0 }

/-! ## legacy `Histogram::ProcessData` (automatic range, binning, periodic end folding; scale "no") -/

def minR (a b : Rat) : Rat := if a < b then a else b   -- std::min(value, min_): returns min_ unless value < min_
def maxR (a b : Rat) : Rat := if b < a then a else b

/-- automatic interval: start from the sentinels (`numeric_limits<double>::max()` / `lowest()`) -/
def autoRange (vs : List Rat) (hi lo : Rat) : Rat × Rat :=
  (vs.foldl (fun m v => minR v m) hi, vs.foldl (fun m v => maxR v m) lo)

/-- periodic wrap of the legacy class: `while (ii < 0) ii += n; ii %= n` -/
def legacyIndex (min interval : Rat) (n : Nat) (periodic : Bool) (v : Rat) : Option Nat :=
  let ii := rawIndex min interval v
  if ii < 0 ∨ ii ≥ (n : Int) then
    (if periodic then some (ii % (n : Int)).toNat else none)
  else some ii.toNat

def legacyPdf (min max : Rat) (n : Nat) (periodic : Bool) (vs : List Rat) : List Rat :=
  let interval := (max - min) / ((n : Rat) - 1)
  let pdf := vs.foldl (fun acc v => match legacyIndex min interval n periodic v with
                                     | some i => addAt acc i 1
                                     | none => acc) (List.replicate n 0)
  if periodic ∧ n ≥ 1 then
    let s := pdf.headD 0 + pdf.getLastD 0
    (pdf.set 0 s).set (n - 1) s
  else pdf

end Votca.C13
