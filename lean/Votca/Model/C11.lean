import Votca.Model.C18
/-! # C11 — executable model of option handling (tools/src/libtools/optionshandler.cc on top of tools::Property):
user input merged over the (link-resolved) defaults, optional / required / default injection, choice and type checks.
Core Lean only.  Recursion over the nested children lists is by explicit fuel (tree height + 1 suffices). -/
namespace Votca.C11
open Votca.C18

inductive PTree where
  | node (name value : String) (attrs : List (String × String)) (children : List PTree)
  deriving Repr, BEq

namespace PTree
def name : PTree → String | node n _ _ _ => n
def value : PTree → String | node _ v _ _ => v
def attrs : PTree → List (String × String) | node _ _ a _ => a
def children : PTree → List PTree | node _ _ _ c => c
def hasAttr (t : PTree) (k : String) : Bool := t.attrs.any (·.1 == k)
def attr (t : PTree) (k : String) : Option String := t.attrs.lookup k
def withValue (t : PTree) (v : String) : PTree := node t.name v t.attrs t.children
def withChildren (t : PTree) (c : List PTree) : PTree := node t.name t.value t.attrs c
/-- `std::map` insert-or-assign, kept sorted by key -/
def insertAttr (k v : String) : List (String × String) → List (String × String)
  | [] => [(k, v)]
  | (k', v') :: rest => if k < k' then (k, v) :: (k', v') :: rest else if k == k' then (k, v) :: rest else (k', v') :: insertAttr k v rest
def setAttr (t : PTree) (k v : String) : PTree := node t.name t.value (insertAttr k v t.attrs) t.children
end PTree
open PTree

/-! height of the tree (fuel that always suffices) -/
mutual
def heightP : PTree → Nat
  | node _ _ _ cs => 1 + heightL cs
def heightL : List PTree → Nat
  | [] => 0
  | c :: cs => max (heightP c) (heightL cs)
end

/-- `Property::get(name)`: the LAST child with that name (`map_[name].back()`) -/
def getLast (cs : List PTree) (n : String) : Option PTree := (cs.filter (·.name == n)).getLast?

def existsChild (t : PTree) (n : String) : Bool := t.children.any (·.name == n)

/-- `Property::Select(tag)` on the children: names matched with `wildcmp` -/
def selectIdx (cs : List PTree) (tag : String) : List Nat :=
  (cs.zipIdx.filter (fun (c, _) => wildcmp tag.toList c.name.toList)).map (·.2)

/-! ## ResolveLinks: a node with a `link` attribute takes over, from each named sub-package file in turn, the attributes it does not
have itself and all children of the package root; then the children (the spliced ones included) are resolved -/

/-- `Tokenizer(link, " ,")`: non-empty pieces between blanks and commas -/
def linkTokensAux : List Char → List Char → List String → List String
  | [], cur, acc => (if cur.isEmpty then acc else String.ofList cur.reverse :: acc).reverse
  | c :: cs, cur, acc =>
    if c == ' ' || c == ',' then linkTokensAux cs [] (if cur.isEmpty then acc else String.ofList cur.reverse :: acc)
    else linkTokensAux cs (c :: cur) acc
def linkTokens (s : String) : List String := linkTokensAux s.toList [] []

/-- one package spliced into a node: missing attributes, all children appended -/
def splice (t root : PTree) : PTree :=
  node t.name t.value (root.attrs.foldl (fun a kv => if a.any (·.1 == kv.1) then a else insertAttr kv.1 kv.2 a) t.attrs) (t.children ++ root.children)

/-- all packages named by the `link` attribute, in order; `none` when a file is missing (the code throws) -/
def spliceAll (pkgs : List (String × PTree)) (t : PTree) : Option PTree :=
  match t.attr "link" with
  | none => some t
  | some l => (linkTokens l).foldl (fun acc path => match acc, pkgs.lookup path with
      | some a, some root => some (splice a root)
      | _, _ => none) (some t)

def resolveLinks (pkgs : List (String × PTree)) : Nat → PTree → Option PTree
  | 0, _ => none
  | fuel + 1, t =>
    match spliceAll pkgs t with
    | none => none
    | some t1 =>
      match t1.children.mapM (resolveLinks pkgs fuel) with
      | some cs => some (node t1.name t1.value t1.attrs cs)
      | none => none

/-! ## CheckUserInput -/
def checkUserInput : Nat → PTree → PTree → Except String Unit
  | 0, _, _ => .error "fuel"
  | fuel + 1, user, defaults =>
    if defaults.hasAttr "unchecked" then .ok () else
    user.children.foldl (fun (acc : Except String Unit) c => match acc with
      | .error e => .error e
      | .ok () => match getLast defaults.children c.name with
        | some d => checkUserInput fuel c d
        | none => .error ("Votca has no option:" ++ c.name)) (.ok ())

/-! ## OverwriteDefaultsWithUserInput -/

def distinctSorted (l : List String) : List String :=
  l.foldl (fun acc s => if acc.contains s then acc else (acc.filter (· < s)) ++ [s] ++ (acc.filter (s < ·))) []

def setNth (l : List PTree) (i : Nat) (t : PTree) : List PTree := l.zipIdx.map fun (c, j) => if j == i then t else c

def overwrite : Nat → PTree → PTree → Except String PTree
  | 0, _, _ => .error "fuel"
  | fuel + 1, user, defaults =>
    let step1 : Except String PTree :=
      if !defaults.hasAttr "list" then
        -- a) value copied, then every default child the user also has (last one wins) is merged
        let d1 := (defaults.withValue user.value).setAttr "injected" "true"
        let cs := d1.children.mapM fun child =>
          match getLast user.children child.name with
          | some u => overwrite fuel u child
          | none => .ok child
        cs.map d1.withChildren
      else
        -- b) list: per distinct tag (in `std::map` order) as many copies as the user gave elements
        let d1 := defaults.setAttr "injected" "true"
        let tags := distinctSorted (d1.children.map (·.name))
        if tags.any (fun t => (d1.children.filter (·.name == t)).length > 1) then
          .error "Developers: Each distinct tag in list should only appear once."
        else
          tags.foldl (fun (acc : Except String PTree) tag => match acc with
            | .error e => .error e
            | .ok d =>
              let inputs := (selectIdx user.children tag).filterMap fun i => user.children[i]?
              if inputs.isEmpty then .ok (d.withChildren (d.children.filter (·.name != tag)))
              else match getLast d.children tag with
                | none => .ok d
                | some copy =>
                  let cs := d.children ++ List.replicate (inputs.length - 1) copy
                  let idx := selectIdx cs tag
                  (inputs.zip idx).foldl (fun (acc2 : Except String (List PTree)) (u, i) => match acc2 with
                    | .error e => .error e
                    | .ok l => match l[i]? with
                      | some dchild => (overwrite fuel u dchild).map (setNth l i)
                      | none => .ok l) (.ok cs) |>.map d.withChildren) (.ok d1)
    -- c) unchecked: the user's children are appended as they are
    step1.map fun d => if d.hasAttr "unchecked" then d.withChildren (d.children ++ user.children) else d

/-! ## RemoveOptional / CheckRequired / InjectDefaultsAsValues -/

def isOptionalLeft (p : PTree) : Bool := p.attr "default" == some "OPTIONAL" && !p.hasAttr "injected"
def isRequiredLeft (p : PTree) : Bool := p.attr "default" == some "REQUIRED" && !p.hasAttr "injected"

def removeOptional : Nat → PTree → PTree
  | 0, t => t
  | fuel + 1, t => t.withChildren ((t.children.filter (fun c => !isOptionalLeft c)).map (removeOptional fuel))

/-- first missing REQUIRED option (children first, as the code recurses before it tests the node) -/
def checkRequired : Nat → PTree → Except String Unit
  | 0, _ => .error "fuel"
  | fuel + 1, t =>
    match t.children.foldl (fun (acc : Except String Unit) c => match acc with | .error e => .error e | .ok () => checkRequired fuel c) (.ok ()) with
    | .error e => .error e
    | .ok () => if isRequiredLeft t then .error ("Please specify an input for:" ++ t.name) else .ok ()

def reserved : List String := ["OPTIONAL", "REQUIRED"]

def injectDefaults : Nat → PTree → PTree
  | 0, t => t
  | fuel + 1, t => t.withChildren (t.children.map fun p =>
      if !p.children.isEmpty then injectDefaults fuel p
      else match p.attr "default" with
        | some v => if !p.hasAttr "injected" && !reserved.contains v then p.withValue v else p
        | none => p)

/-! ## typed access and choices -/

def trimWs (s : List Char) : List Char := ((s.dropWhile isSpace).reverse.dropWhile isSpace).reverse
def lower (s : List Char) : List Char := s.map Char.toLower

/-- `convert_impl(…, type<bool>)` -/
def asBool (s : List Char) : Option Bool :=
  if lower s == "true".toList || s == ['1'] then some true
  else if lower s == "false".toList || s == ['0'] then some false else none

def digitsOnly (s : List Char) : Bool := !s.isEmpty && s.all Char.isDigit

/-- the finite decimal literals `boost::lexical_cast<double>` accepts: `[+-]? (d+ [. d*] | . d+) [(e|E) [+-]? d+]` -/
def isFiniteFloat (s : List Char) : Bool :=
  let s1 := match s with | '+' :: t => t | '-' :: t => t | _ => s
  let mant := s1.takeWhile (fun c => c != 'e' && c != 'E')
  let rest := s1.dropWhile (fun c => c != 'e' && c != 'E')
  let ip := mant.takeWhile (· != '.')
  let fp := (mant.dropWhile (· != '.')).drop 1
  let hasDot := mant.contains '.'
  let mantOk := ip.all Char.isDigit && fp.all Char.isDigit && (!ip.isEmpty || !fp.isEmpty) && (mant.filter (· == '.')).length ≤ 1 && (hasDot || fp.isEmpty)
  let expOk := match rest with
    | [] => true
    | _ :: e => let e1 := match e with | '+' :: t => t | '-' :: t => t | _ => e; digitsOnly e1
  mantOk && expOk

def isInfNan (s : List Char) : Option (Bool × Bool) :=   -- (isNan, negative)
  let neg := s.head? == some '-'
  let s1 := lower (match s with | '+' :: t => t | '-' :: t => t | _ => s)
  if s1 == "inf".toList || s1 == "infinity".toList then some (false, neg)
  else if s1 == "nan".toList then some (true, neg) else none

def isFloatLit (s : List Char) : Bool := isFiniteFloat s || (isInfNan s).isSome

/-- `as<double>() >= 0.0` for an accepted literal: no minus sign, or every mantissa digit is zero; nan is not ≥ 0 -/
def floatNonneg (s : List Char) : Bool :=
  match isInfNan s with
  | some (nan, neg) => !nan && !neg
  | none => s.head? != some '-' || ((s.takeWhile (fun c => c != 'e' && c != 'E')).all fun c => !c.isDigit || c == '0')

def choicesOf (p : PTree) : List (List Char) :=
  match p.attr "choices" with
  | none => []
  | some att =>
    let a := att.toList
    let inner := if a.contains '[' then (a.dropWhile (· != '[')).drop 1 |>.takeWhile (· != ']') else a
    tokenize (fun c => c == ' ' || c == ',') inner

/-- `IsValidOption` (without `additional_choices_`, which the calculators leave empty) -/
def isValidOption (p : PTree) (choices : List (List Char)) : Bool :=
  let v := trimWs p.value.toList
  match choices.head? with
  | none => true
  | some head =>
    if head == "bool".toList then (asBool v).isSome
    else if head == "float".toList then isFloatLit v
    else if head == "float+".toList then isFloatLit v && floatNonneg v
    else if head == "int".toList then (lexCast v).isSome
    else if head == "int+".toList then (match lexCast v with | some i => i ≥ 0 | none => false)
    else if !((p.attr "choices").getD "").toList.contains '[' then choices.contains v
    else (tokenize (fun c => c == ' ' || c == ',') v).all (fun w => choices.contains w)

def checkOptions : Nat → PTree → Except String Unit
  | 0, _ => .error "fuel"
  | fuel + 1, t => t.children.foldl (fun (acc : Except String Unit) p => match acc with
      | .error e => .error e
      | .ok () =>
        if !p.children.isEmpty then checkOptions fuel p
        else
          let ch := choicesOf p
          if ch.isEmpty || isValidOption p ch then .ok () else .error ("The input value for \"" ++ p.name ++ "\"")) (.ok ())

/-! ## ProcessUserInput -/

def replaceLast (cs : List PTree) (n : String) (t : PTree) : List PTree :=
  match ((cs.zipIdx.filter (fun (c, _) => c.name == n)).map (·.2)).getLast? with
  | some i => setNth cs i t
  | none => cs

/-- `ProcessUserInput(user_input, calc)` given the link-resolved defaults `print` -/
def processUserInput (user print : PTree) : Except String PTree :=
  let fuel := heightP print + heightP user + 2
  match checkUserInput fuel user print with
  | .error e => .error e
  | .ok () =>
    match getLast user.children "options", getLast print.children "options" with
    | some uo, some po =>
      match overwrite fuel uo po with
      | .error e => .error e
      | .ok merged =>
        let p1 := print.withChildren (replaceLast print.children "options" merged)
        let p2 := removeOptional fuel p1
        match checkRequired fuel p2 with
        | .error e => .error e
        | .ok () =>
          let p3 := injectDefaults fuel p2
          match checkOptions fuel p3 with
          | .error e => .error e
          | .ok () => .ok p3
    | _, _ => .error "property not found: options"

end Votca.C11
