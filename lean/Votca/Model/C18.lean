import Votca.Base.Util
/-! # C18 — executable models (core Lean only)

`wildcmp` (tools/src/libtools/tokenizer.cc), `RangeParser` (tools/rangeparser.{h,cc}),
xtp `IndexParser`, csg `BeadList::Generate`.  The theorems about these definitions are in
`Votca/Lemmas/C18.lean` and `Votca/Props/C18.lean`; the driver executes exactly these definitions. -/
namespace Votca.C18

/-! ## wildcmp: the three loops of the C function, as they are written -/

def star : Char := '*'
def qm : Char := '?'

/-- spec: usual glob meaning -/
def glob : List Char → List Char → Bool
  | [], s => s.isEmpty
  | c :: p, s =>
    if c = star then
      glob p s || (match s with | [] => false | _ :: t => glob (c :: p) t)
    else
      match s with
      | [] => false
      | d :: t => (c = qm || c = d) && glob p t
termination_by p s => p.length + s.length

/-- third loop + return -/
def loop3 (w : List Char) : Bool := (w.dropWhile (· = star)).isEmpty

/-- second loop. `cp` is the string position to resume from, `mp` the pattern after the last star. -/
def loop2 (w s mp cp : List Char) (h : s.length ≤ cp.length + 1) : Bool :=
  match s, h with
  | [], _ => loop3 w
  | d :: s', h =>
    match w with
    | c :: w' =>
      if c = star then
        if w' = [] then true else loop2 w' (d :: s') w' s' (by simp)
      else if c = d || c = qm then loop2 w' s' mp cp (by simp at h ⊢; omega)
      else (match cp with
            | [] => loop3 mp
            | y :: cp' => loop2 mp (y :: cp') mp cp' (by simp))
    | [] => (match cp with
            | [] => loop3 mp
            | y :: cp' => loop2 mp (y :: cp') mp cp' (by simp))
termination_by (cp.length, w.length + s.length)
decreasing_by
  all_goals simp_wf
  all_goals simp at h
  · by_cases hh : s'.length < cp.length
    · exact Prod.Lex.left _ _ hh
    · have : s'.length = cp.length := by omega
      rw [this]; apply Prod.Lex.right; omega
  · apply Prod.Lex.right; omega
  · apply Prod.Lex.left; omega
  · apply Prod.Lex.left; omega

/-- first loop, then hand over -/
def wildcmp : List Char → List Char → Bool
  | w, [] => loop3 w
  | [], _ :: _ => false
  | c :: w, d :: s =>
    if c = star then
      (if w = [] then true else loop2 w (d :: s) w s (by simp))
    else if c ≠ d ∧ c ≠ qm then false
    else wildcmp w s



/-! ## Tokenizer (boost::char_separator, dropped delimiters, empty tokens dropped) -/

/-- split at every separator, keeping empty fields -/
def splitAll (sep : Char → Bool) : List Char → List (List Char)
  | [] => [[]]
  | c :: cs =>
    if sep c then [] :: splitAll sep cs
    else match splitAll sep cs with
      | f :: fs => (c :: f) :: fs
      | [] => [[c]]

/-- `Tokenizer(str, seps).ToVector()` -/
def tokenize (sep : Char → Bool) (s : List Char) : List (List Char) :=
  (splitAll sep s).filter (fun t => !t.isEmpty)

/-! ## integer literals -/

def isSpace (c : Char) : Bool :=
  c = ' ' || c = '\t' || c = '\n' || c = Char.ofNat 11 || c = Char.ofNat 12 || c = '\r'

def isDigit (c : Char) : Bool := '0' ≤ c && c ≤ '9'

/-- consume a run of decimal digits -/
def digitsVal : List Char → Nat → Nat × List Char
  | [], acc => (acc, [])
  | c :: cs, acc => if isDigit c then digitsVal cs (10 * acc + (c.toNat - '0'.toNat)) else (acc, c :: cs)

/-- `strtol`-style literal: optional white space, optional sign, at least one digit.
    Returns value and unread rest; `none` = `std::invalid_argument`. -/
def scanInt (s : List Char) : Option (Int × List Char) :=
  let s1 := s.dropWhile isSpace
  let (neg, s2) := match s1 with
    | '-' :: t => (true, t)
    | '+' :: t => (false, t)
    | _ => (false, s1)
  match s2 with
  | c :: _ =>
    if isDigit c then
      let (v, rest) := digitsVal s2 0
      some (if neg then -(v : Int) else (v : Int), rest)
    else none
  | [] => none

def inInt32 (i : Int) : Bool := -2147483648 ≤ i && i ≤ 2147483647
def inInt64 (i : Int) : Bool := -9223372036854775808 ≤ i && i ≤ 9223372036854775807

/-- the field conversion of `RangeParser::ParseBlock`: `std::stoi` which must consume the whole field -/
def toIntFull (s : List Char) : Option Int :=
  match scanInt s with
  | some (i, []) => if inInt32 i then some i else none
  | _ => none

/-- `boost::lexical_cast<Index>`: no white space, whole token, 64 bit -/
def lexCast (s : List Char) : Option Int :=
  match s with
  | [] => none
  | c :: _ => if isSpace c then none else
    match scanInt s with
    | some (i, []) => if inInt64 i then some i else none
    | _ => none

/-! ## RangeParser -/

structure Block where
  (b s e : Int)
  deriving DecidableEq, Repr

/-- the closed-interval test of `ParseBlock` -/
def closed (k : Block) : Bool := !(k.b * k.s > k.e * k.s)

def countChar (c : Char) (s : List Char) : Nat := (s.filter (· = c)).length

/-- `RangeParser::ParseBlock`; `none` = throws -/
def parseBlock (str : List Char) : Option Block :=
  let toks := tokenize (· = ':') str
  if toks.length > 3 || toks.length < 1 then none
  else if countChar ':' str ≠ toks.length - 1 then none       -- an empty field was dropped by the tokenizer
  else match toks.mapM toIntFull with
    | some [b] => some ⟨b, 1, b⟩
    | some [b, e] => if closed ⟨b, 1, e⟩ then some ⟨b, 1, e⟩ else none
    | some [b, s, e] => if s = 0 then none else if closed ⟨b, s, e⟩ then some ⟨b, s, e⟩ else none
    | _ => none

/-- a run of blanks with a digit on either side (`1 2:30`): `seen` says that the last non-blank character so far was a digit and at least one blank followed it -/
def blankInNumber : List Char → Bool → Bool → Bool
  | [], _, _ => false
  | c :: cs, lastDigit, gap =>
    if c = ' ' then blankInNumber cs lastDigit lastDigit
    else if isDigit c && gap then true
    else blankInNumber cs (isDigit c) false

/-- the outer shape `RangeParser::Parse` insists on: no blank inside a number, and (unless nothing is left) no empty block between commas —
    the tokenizer drops empty fields, so the commas are counted -/
def outerOK (str : List Char) : Bool :=
  !blankInNumber str false false &&
  (let s := str.filter (· ≠ ' ')
   s.isEmpty || countChar ',' s + 1 == (tokenize (· = ',') s).length)

/-- `RangeParser::Parse`: refuse blanks inside numbers and empty blocks, strip blanks, split at commas, parse each block -/
def parse (str : List Char) : Option (List Block) :=
  if outerOK str then (tokenize (· = ',') (str.filter (· ≠ ' '))).mapM parseBlock else none

/-- `iterator::operator++` inside one block: the next value, or `none` when the block is left -/
def next (k : Block) (cur : Int) : Option Int :=
  let c := cur + k.s
  if (if k.s > 0 then c > k.e else c < k.e) then none else some c

/-- values produced while the iterator stays in block `k`, starting at `cur`, with a step budget;
    the flag says whether the block was left within the budget -/
def runBlock (k : Block) : Nat → Int → List Int × Bool
  | 0, _ => ([], false)
  | fuel + 1, cur =>
    match next k cur with
    | none => ([cur], true)
    | some c => let (l, f) := runBlock k fuel c; (cur :: l, f)

/-- `for (Index i : rp)` with a total step budget -/
def enumerate : List Block → Nat → List Int × Bool
  | [], _ => ([], true)
  | k :: ks, fuel =>
    let (l, f) := runBlock k fuel k.b
    if f then
      let (l', f') := enumerate ks (fuel - l.length)
      (l ++ l', f')
    else (l, false)

/-- number of values a block denotes -/
def count (k : Block) : Nat := (k.e - k.b).natAbs / k.s.natAbs + 1

/-- what a block *means*: the arithmetic progression from `b` in steps of `s` up to (down to) `e` -/
def denoteBlock (k : Block) : List Int := (List.range (count k)).map (fun (i : Nat) => k.b + (i : Int) * k.s)

def denote (bs : List Block) : List Int := bs.flatMap denoteBlock

/-- declarative acceptance of one block: every field between colons (none dropped) is an integer literal,
    one to three fields, non-zero stride, end reachable from begin in the direction of the stride -/
def specBlock (str : List Char) : Option Block :=
  match (splitAll (· = ':') str).mapM toIntFull with
  | some [b] => some ⟨b, 1, b⟩
  | some [b, e] => if b ≤ e then some ⟨b, 1, e⟩ else none
  | some [b, s, e] => if (0 < s ∧ b ≤ e) ∨ (s < 0 ∧ e ≤ b) then some ⟨b, s, e⟩ else none
  | _ => none

def specParse (str : List Char) : Option (List Block) :=
  if outerOK str then (tokenize (· = ',') (str.filter (· ≠ ' '))).mapM specBlock else none

def showInt (i : Int) : List Char := (toString i).toList

/-- `operator<<(ostream&, RangeParser const&)` -/
def printBlock (k : Block) : List Char :=
  if k.b = k.e then showInt k.b
  else if k.s = 1 then showInt k.b ++ ':' :: showInt k.e
  else showInt k.b ++ ':' :: showInt k.s ++ ':' :: showInt k.e

def printBlocks : List Block → List Char
  | [] => []
  | [k] => printBlock k
  | k :: ks => printBlock k ++ ',' :: printBlocks ks

/-! ## xtp IndexParser -/

/-- insert into a strictly sorted list, dropping duplicates (`std::set`) -/
def insertSorted (x : Int) : List Int → List Int
  | [] => [x]
  | y :: ys => if x < y then x :: y :: ys else if x = y then y :: ys else y :: insertSorted x ys

def sortDedup (l : List Int) : List Int := l.foldr insertSorted []

/-- maximal runs of consecutive integers of a sorted duplicate-free list -/
def runs : List Int → List (Int × Int)
  | [] => []
  | x :: xs =>
    match runs xs with
    | (a, b) :: rest => if a = x + 1 then (x, b) :: rest else (x, x) :: (a, b) :: rest
    | [] => [(x, x)]

/-- `a, a+1, …, a+n` -/
def expandRun (a : Int) : Nat → List Int
  | 0 => [a]
  | n + 1 => a :: expandRun (a + 1) n

/-- the `for (i = start; i <= stop; i++)` loop -/
def expandPair (p : Int × Int) : List Int :=
  if p.1 ≤ p.2 then expandRun p.1 (p.2 - p.1).toNat else []

def expand (l : List (Int × Int)) : List Int := l.flatMap expandPair

def isIndexSep (c : Char) : Bool := c = ' ' || c = ',' || c = '\n' || c = '\t'

/-- one token of `CreateIndexVector`: `n` or `start:stop` (split at the FIRST colon) -/
def parseIndexToken (t : List Char) : Option (Int × Int) :=
  if t.contains ':' then
    let a := t.takeWhile (· ≠ ':')
    let b := (t.dropWhile (· ≠ ':')).drop 1
    match lexCast a, lexCast b with
    | some x, some y => some (x, y)
    | _, _ => none
  else match lexCast t with
    | some x => some (x, x)
    | none => none

/-- `IndexParser::CreateIndexVector`; `none` = throws -/
def createIndexVector (s : List Char) : Option (List Int) :=
  match (tokenize isIndexSep s).mapM parseIndexToken with
  | some ps => some (sortDedup (expand ps))
  | none => none

def printRun (p : Int × Int) : List Char :=
  if p.1 = p.2 then showInt p.1 else showInt p.1 ++ ':' :: showInt p.2

def joinSp : List (List Char) → List Char
  | [] => []
  | [x] => x
  | x :: xs => x ++ ' ' :: joinSp xs

/-- `IndexParser::CreateIndexString` -/
def createIndexString (l : List Int) : List Char :=
  joinSp ((runs (sortDedup l)).map printRun)

/-! ## bead selection (`BeadList::Generate`) -/

structure BeadRec where
  (name type : List Char)

def namePrefix : List Char := "name:".toList

/-- indices of the selected beads, in topology order -/
def select (sel : List Char) (beads : List BeadRec) : List Nat :=
  let byName := sel.take 5 == namePrefix
  let pat := if byName then sel.drop 5 else sel
  (beads.zipIdx.filter (fun (b, _) => wildcmp pat (if byName then b.name else b.type))).map (·.2)

/-- the same selection stated with the glob relation -/
def selectSpec (sel : List Char) (beads : List BeadRec) : List Nat :=
  let byName := sel.take 5 == namePrefix
  let pat := if byName then sel.drop 5 else sel
  (beads.zipIdx.filter (fun (b, _) => glob pat (if byName then b.name else b.type))).map (·.2)

end Votca.C18
