import Votca.Model.C11
/-! # C11 — the XML text layer of `Property` (tools/src/libtools/property.cc: `XmlEscape`, `PrintNodeXML`), core Lean only

`escapeWith tab` is `XmlEscape` for a replacement table (the tables themselves are generated from the source: `Gen/XmlEscape.lean`);
`printXML` writes a tree the way `operator<<` does with `PropertyIOManipulator(XML, 0, "")`; `unescape` / `attrValue` are what an XML
parser makes of character data and of a double-quoted attribute value (the five predefined entities; a raw `<`, a raw `&` that starts no
entity are "not well-formed").  The parser side is expat in the real code — external; these definitions state the XML rules the writer
has to respect. -/
namespace Votca.C11X
open Votca.C11

/-- the replacement of one character: its table entry, the character itself when it has none -/
def rep (tab : List (Char × List Char)) (c : Char) : List Char := match tab.lookup c with | some e => e | none => [c]

/-- `XmlEscape`: every character replaced -/
def escapeWith (tab : List (Char × List Char)) (s : List Char) : List Char := s.flatMap (rep tab)

/-- the predefined entities of XML -/
def entityOf (name : List Char) : Option Char :=
  if name = "amp".toList then some '&' else if name = "lt".toList then some '<' else if name = "gt".toList then some '>'
  else if name = "quot".toList then some '"' else if name = "apos".toList then some '\'' else none

/-- character data as a parser reads it: entities resolved; `none` = not well-formed (raw `<`, `&` without a known entity name) -/
def unescapeF : Nat → List Char → Option (List Char)
  | _, [] => some []
  | 0, _ :: _ => none
  | fuel + 1, c :: rest =>
    if c = '&' then
      match entityOf (rest.takeWhile (· ≠ ';')), rest.dropWhile (· ≠ ';') with
      | some d, _ :: rest' => (unescapeF fuel rest').map (d :: ·)
      | _, _ => none
    else if c = '<' then none
    else (unescapeF fuel rest).map (c :: ·)

def unescape (s : List Char) : Option (List Char) := unescapeF s.length s

/-- a double-quoted attribute value as a parser reads it from the text behind the opening quote: everything up to the next `"`,
    unescaped; returns the value and the text behind the closing quote -/
def attrValue (s : List Char) : Option (List Char × List Char) :=
  match s.dropWhile (· ≠ '"') with
  | _ :: rest => (unescape (s.takeWhile (· ≠ '"'))).map (·, rest)
  | [] => none

def isBlankChar (c : Char) : Bool := c = '\t' || c = '\n' || c = ' '

/-- `PrintNodeXML` at start level 0, empty indentation, no colours -/
partial def printXML (textTab attrTab : List (Char × List Char)) (offset : List Char) : PTree → List Char
  | .node name value attrs children =>
    let hasValue := value.toList.any (fun c => !isBlankChar c)
    let hasKids := !children.isEmpty
    let head := offset ++ '<' :: name.toList ++
      attrs.flatMap (fun (k, v) => ' ' :: k.toList ++ '=' :: '"' :: escapeWith attrTab v.toList ++ ['"'])
    let openEnd := if hasValue || hasKids then ">".toList else "/>\n".toList
    let val := if hasValue then escapeWith textTab value.toList else []
    let nl := if !hasValue && hasKids then "\n".toList else []
    let kids := children.flatMap (printXML textTab attrTab (offset ++ ['\t']))
    let linebreak := !hasValue && hasKids
    let close := if linebreak then offset ++ '<' :: '/' :: name.toList ++ ">\n".toList
                 else if hasValue then '<' :: '/' :: name.toList ++ ">\n".toList else []
    head ++ openEnd ++ val ++ nl ++ kids ++ close

end Votca.C11X
