import Votca.Model.C06
import Votca.Model.C02
import Votca.Model.C12
import Votca.Model.C07
/-! # C06 — executable model of what `csg_fmatch` is asked to do (csg/src/tools/csg_fmatch.cc): the force on every bead is
the sum over non-excluded pairs within the cutoff of `S(r)·r̂` and over bonds of `-S(l)·∇l`, with `S` the natural cubic
spline (C12 basis regenerated from cubicspline.cc) on the grid `Spline::GenerateGrid(min, max, step)`; the written
`.force` table is `-S` on the output grid.  Forces recomputed from the written tables must reproduce the reference forces
the trajectory carries.  Square roots are 20-digit rational approximations.  Core Lean only. -/
namespace Votca.C06F
open Votca Votca.C06

structure Inter where
  bonded : Bool
  t1 : Nat
  t2 : Nat
  mn : Rat
  mx : Rat
  step : Rat
  star : List Rat          -- knot values of the generating function (for the correspondence)
  angle : Bool := false    -- a bonded interaction over bead triples: the variable is the angle at the middle bead
  dihedral : Bool := false -- a bonded interaction over bead quadruples: the variable is the signed dihedral angle
  deriving Repr

/-- `Spline::GenerateGrid` -/
def gridOf (it : Inter) : List Rat :=
  let n := ((it.mx - it.mn) / it.step + 100000001 / 100000000).floor.toNat
  (List.range (n - 1)).map (fun (i : Nat) => it.mn + (i : Rat) * it.step) ++ [it.mx]

/-- second derivatives of the natural cubic spline through `(xs, fs)` (exact solve of the tridiagonal system whose rows
are C12's `rowResidual = 0` and `f2₀ = f2ₙ = 0`) -/
def naturalF2 (xs fs : List Rat) : Option (List Rat) :=
  let n := xs.length
  if n < 3 then some (List.replicate n 0) else
  let x := fun i => C12.nth xs i
  let f := fun i => C12.nth fs i
  let rows : Mat := (List.range n).map fun i =>
    if i == 0 || i + 1 == n then (List.range n).map fun j => if j == i then 1 else 0
    else (List.range n).map fun j =>
      if j + 1 == i then (x i - x (i - 1)) / 6 else if j == i then (x (i + 1) - x (i - 1)) / 3 else if j == i + 1 then (x (i + 1) - x i) / 6 else 0
  let rhs : List Rat := (List.range n).map fun i =>
    if i == 0 || i + 1 == n then 0 else (f (i + 1) - f i) / (x (i + 1) - x i) - (f i - f (i - 1)) / (x i - x (i - 1))
  solve rows rhs

/-- second derivatives of the cubic spline through `(xs, fs)` with zero slope at both ends (`splineDerivativeZero`): the interior rows
are those of `naturalF2`, the end rows say `S'(x₀) = 0` and `S'(xₙ) = 0` -/
def clampedF2 (xs fs : List Rat) : Option (List Rat) :=
  let n := xs.length
  if n < 3 then none else
  let x := fun i => C12.nth xs i
  let f := fun i => C12.nth fs i
  let rows : Mat := (List.range n).map fun i =>
    if i == 0 then (List.range n).map fun j => if j == 0 then (x 1 - x 0) / 3 else if j == 1 then (x 1 - x 0) / 6 else 0
    else if i + 1 == n then (List.range n).map fun j => if j + 2 == n then (x i - x (i - 1)) / 6 else if j + 1 == n then (x i - x (i - 1)) / 3 else 0
    else (List.range n).map fun j =>
      if j + 1 == i then (x i - x (i - 1)) / 6 else if j == i then (x (i + 1) - x (i - 1)) / 3 else if j == i + 1 then (x (i + 1) - x i) / 6 else 0
  let rhs : List Rat := (List.range n).map fun i =>
    if i == 0 then (f 1 - f 0) / (x 1 - x 0)
    else if i + 1 == n then -((f i - f (i - 1)) / (x i - x (i - 1)))
    else (f (i + 1) - f i) / (x (i + 1) - x i) - (f i - f (i - 1)) / (x i - x (i - 1))
  solve rows rhs

def ratSqrt (q : Rat) : Rat :=
  if q ≤ 0 then 0 else ((Nat.sqrt (q.num.toNat * 10 ^ 40 / q.den) : Nat) : Rat) / (10 ^ 20 : Nat)

structure Sys where
  L : Rat
  types : List Nat
  mols : List Nat
  bonds : List (Nat × Nat)
  inters : List Inter
  angles : List (Nat × Nat × Nat) := []
  dihedrals : List (Nat × Nat × Nat × Nat) := []
  deriving Repr

def boxOf (s : Sys) : Box := ⟨⟨s.L, 0, 0⟩, ⟨0, s.L, 0⟩, ⟨0, 0, s.L⟩⟩

/-- `ExclusionList::CreateExclusions`: every pair of beads that share a bonded interaction (bond, or any two beads of an angle) -/
def excluded (s : Sys) (i j : Nat) : Bool :=
  (s.bonds.any fun (a, b) => (a == i && b == j) || (a == j && b == i)) ||
  (s.angles.any fun (a, b, c) => i != j && (a == i || b == i || c == i) && (a == j || b == j || c == j)) ||
  (s.dihedrals.any fun (a, b, c, d) => i != j && [a, b, c, d].contains i && [a, b, c, d].contains j)

/-- the samples one frame contributes to interaction `it`: (i, j, connection vector from i to j, distance) -/
def samples (s : Sys) (it : Inter) (pos : List V3) : List (Nat × Nat × V3 × Rat) :=
  let n := pos.length
  let p := fun i => pos.getD i V3.zero
  let ty := fun i => s.types.getD i 0
  let cand : List (Nat × Nat) :=
    if it.angle || it.dihedral then [] else if it.bonded then s.bonds
    else (List.range n).flatMap fun i => ((List.range n).filter fun j => i < j &&
      ((ty i == it.t1 && ty j == it.t2) || (ty i == it.t2 && ty j == it.t1)) && !excluded s i j).map fun j => (i, j)
  cand.filterMap fun (i, j) =>
    let d := C02.micOrtho (boxOf s) (p i) (p j)
    let r := ratSqrt d.normSq
    if it.bonded || d.normSq < it.mx * it.mx then some (i, j, d, r) else none

/-- one angle sample: the two arms from the middle bead, their lengths, the cosine and the sine of the angle -/
structure AngleGeom where
  i : Nat
  j : Nat
  k : Nat
  u : V3
  w : V3
  n1 : Rat
  n2 : Rat
  c : Rat
  sn : Rat

def angleGeoms (s : Sys) (pos : List V3) : List AngleGeom :=
  let p := fun i => pos.getD i V3.zero
  s.angles.map fun (i, j, k) =>
    let u := C02.micOrtho (boxOf s) (p j) (p i)
    let w := C02.micOrtho (boxOf s) (p j) (p k)
    let n1 := ratSqrt u.normSq
    let n2 := ratSqrt w.normSq
    let c := (u.x * w.x + u.y * w.y + u.z * w.z) / (n1 * n2)
    { i := i, j := j, k := k, u := u, w := w, n1 := n1, n2 := n2, c := c, sn := ratSqrt (1 - c * c) }

/-- gradients of the angle with respect to the two outer beads (`dθ/dc = -1/sin θ`); the middle bead takes minus their sum -/
def angleGrads (g : AngleGeom) : V3 × V3 :=
  let gi : V3 := (-(1 / g.sn)) * ((1 / (g.n1 * g.n2)) * g.w - (g.c / (g.n1 * g.n1)) * g.u)
  let gk : V3 := (-(1 / g.sn)) * ((1 / (g.n1 * g.n2)) * g.u - (g.c / (g.n2 * g.n2)) * g.w)
  (gi, gk)

/-- geometry of one dihedral as `IDihedral` sees it: the three connection vectors, the norms of the two plane normals, cosine, sine and
    sign of the angle -/
structure DihGeom where
  b : List Nat
  v1 : C07.Vec Rat
  v2 : C07.Vec Rat
  v3 : C07.Vec Rat
  m1 : Rat
  m2 : Rat
  c : Rat
  sn : Rat
  sign : Rat
  triple : Rat          -- v1 · (v2 × v3): its sign is the sign of the angle

def dihGeoms (s : Sys) (pos : List V3) : List DihGeom :=
  let p := fun i => pos.getD i V3.zero
  let conn := fun i j => let d := C02.micOrtho (boxOf s) (p i) (p j); (⟨d.x, d.y, d.z⟩ : C07.Vec Rat)
  s.dihedrals.map fun (a, b, c, d) =>
    let v1 := conn a b
    let v2 := conn b c
    let v3 := conn c d
    let n1 := v1.cross v2
    let n2 := v2.cross v3
    let m1 := ratSqrt (n1.dot n1)
    let m2 := ratSqrt (n2.dot n2)
    let cc := n1.dot n2 / (m1 * m2)
    { b := [a, b, c, d], v1 := v1, v2 := v2, v3 := v3, m1 := m1, m2 := m2, c := cc, sn := ratSqrt (1 - cc * cc),
      sign := if v1.dot n2 < 0 then -1 else 1, triple := v1.dot n2 }

/-- forces on all beads from splines with knot values `vals` and second derivatives `f2s` per interaction; `thetas` are the
    angle values of this frame (witnesses: the driver checks their cosines against the geometry) -/
def predict (s : Sys) (tabs : List (List Rat × List Rat × List Rat)) (pos : List V3) (thetas : List Rat := []) (phis : List Rat := []) : List V3 :=
  let n := pos.length
  let contrib : List (Nat × V3) := (s.inters.zip tabs).flatMap fun (it, (xs, fs, f2)) =>
    if it.dihedral then
      ((dihGeoms s pos).zip phis).flatMap fun (g, ph) =>
        let S := C12.cubicCalc xs fs f2 ph
        -- `IDihedral::Grad` as modelled (and proved to be the derivative of the angle) in C07; F = -S(φ) ∇φ
        (g.b.zipIdx.map fun (bead, k) =>
          let gr := C07.dihedralGrad (0 : Rat) 1 k g.v1 g.v2 g.v3 g.m1 g.m2 g.sn g.sign
          (bead, ((-S) * (⟨gr.x, gr.y, gr.z⟩ : V3))))
    else if it.angle then
      ((angleGeoms s pos).zip thetas).flatMap fun (g, th) =>
        let S := C12.cubicCalc xs fs f2 th
        let (gi, gk) := angleGrads g
        -- EvalBonded enters `-gradient` for every bead of the interaction: F = -S(θ) ∇θ
        [(g.i, (-S) * gi), (g.k, (-S) * gk), (g.j, S * (gi + gk))]
    else
    (samples s it pos).flatMap fun (i, j, d, r) =>
      let S := C12.cubicCalc xs fs f2 r
      let v : V3 := (S / r) * d
      [(i, v), (j, -v)]
  (List.range n).map fun k => (contrib.filter fun c => c.1 == k).foldl (fun acc c => acc + c.2) V3.zero

/-- how many samples fall into each grid interval -/
def coverage (xs : List Rat) (rs : List Rat) : List Nat :=
  (List.range (xs.length - 1)).map fun k => (rs.filter fun r => C12.getInterval xs r == k).length

end Votca.C06F
