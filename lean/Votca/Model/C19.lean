import Votca.Base.Util
/-! # C19 — executable models of the Perl table scripts (csg/share/scripts/inverse/*.pl, CsgFunctions.pm): point-wise loops over
(x, y, flag) rows, written as list functions.  Logarithms are a parameter (`lg`): the driver supplies the logarithms of
the actual inputs as witnesses, the theorems hold for every `lg` (and `ibi_zero_when_equal` for every `lg` with `lg 1 = 0`).
Perl's floating point and number formatting are not modelled.  Core Lean only. -/
namespace Votca.C19

structure Row where
  x : Rat
  y : Rat
  flag : Char
  deriving Repr, BEq

def thr : Rat := 1 / 10000000000     -- 1e-10

/-! ## update_ibi_pot.pl -/

structure IbiIn where
  aim : Rat
  cur : Rat
  potFlag : Char
  lw : Rat                 -- log(cur/aim) where both exceed 1e-10
  deriving Repr

/-- first index of the largest `cur` value above 0 (`maxindex`) -/
def maxIndex (l : List Rat) : Nat :=
  (l.zipIdx.foldl (fun (acc : Nat × Rat) (p : Rat × Nat) => if p.1 > acc.2 then (p.2, p.1) else acc) (0, 0)).1

def ibiValid (p : IbiIn) : Bool := p.aim > thr && p.cur > thr

/-- one step of either sweep: returns (dpot, flag, carried value) -/
def ibiStep (kT : Rat) (value : Rat) (p : IbiIn) : Rat × Char × Rat :=
  let (d, f) := if ibiValid p then (p.lw * kT, 'i') else (value, 'o')
  if p.potFlag == 'u' then (value, 'o', value) else (d, f, d)

/-- a sweep over the points in the given order, starting with carried value `v0` -/
def ibiSweep (kT : Rat) : Rat → List IbiIn → List (Rat × Char)
  | _, [] => []
  | v, p :: rest => let r := ibiStep kT v p; (r.1, r.2.1) :: ibiSweep kT r.2.2 rest

/-- the whole script: upward from the maximum of the current RDF, then downward from the point below it; the downward
sweep continues with the value at the maximum -/
def ibi (kT : Rat) (pts : List IbiIn) : List (Rat × Char) :=
  let m := maxIndex (pts.map (·.cur))
  let up := ibiSweep kT 0 (pts.drop m)
  let v0 := (up.head?.map (·.1)).getD 0
  let down := ibiSweep kT v0 ((pts.take m).reverse)
  down.reverse ++ up

/-! ## dist_boltzmann_invert.pl -/

/-- first pass: `-kT·log(dist/norm)` where `dist > min`, otherwise undefined -/
def binvFirst (kT mn : Rat) (pts : List (Rat × Rat)) : List (Option Rat) :=   -- (dist, lw)
  pts.map fun (d, lw) => if d > mn then some (-(kT * lw)) else none

/-- the undefined points left and right of the first valid one take their neighbour's value (flag `o`); afterwards at
least ten points between the first and the last extrapolated point must remain, else the script dies -/
def binv (kT mn : Rat) (pts : List (Rat × Rat)) : Option (List (Rat × Char)) :=
  let p := binvFirst kT mn pts
  match p.findIdx? Option.isSome with
  | none => none
  | some v =>
    let n := p.length
    -- leftwards from v
    let left := ((List.range v).reverse).foldl (fun (acc : List (Rat × Char) × Rat) i =>
      match p.getD i none with
      | some y => ((y, 'i') :: acc.1, y)
      | none => ((acc.2, 'o') :: acc.1, acc.2)) ([], (p.getD v none).getD 0)
    let right := ((List.range n).drop v).foldl (fun (acc : List (Rat × Char) × Rat) i =>
      match p.getD i none with
      | some y => (acc.1 ++ [(y, 'i')], y)
      | none => (acc.1 ++ [(acc.2, 'o')], acc.2)) ([], 0)
    let out := left.1 ++ right.1
    -- `$first`: the first extrapolated index met going left from v (i.e. the largest undefined index below v), else 0
    let first := (((List.range v).reverse).find? fun i => (p.getD i none).isNone).getD 0
    let last := (((List.range n).drop v).find? fun i => (p.getD i none).isNone).getD (n - 1)
    if last + 1 - first < 10 then none else some out

/-! ## the table tools -/

def linop (withflag : Option Char) (a b : Rat) (rows : List Row) : List Row :=
  rows.map fun r => if (match withflag with | some f => r.flag != f | none => false) then r else { r with y := a * r.y + b }

def scale (p1 p2 : Rat) (rows : List Row) : List Row :=
  let n1 : Rat := ((rows.length - 1 : Nat) : Rat)
  rows.zipIdx.map fun (r, i) => { r with y := (i : Rat) / n1 * r.y * p2 + (1 - (i : Rat) / n1) * r.y * p1 }

/-- `potential_shift.pl`: non-bonded tables are shifted to zero at the last point, bonded ones to zero at the minimum over
the points flagged `i` -/
def shiftZero (bonded : Bool) (rows : List Row) : Option Rat :=
  if !bonded then rows.getLast?.map (·.y)
  else (rows.filter (·.flag == 'i')).foldl (fun (z : Option Rat) r => match z with | none => some r.y | some m => if r.y < m then some r.y else some m) none

def shift (bonded : Bool) (rows : List Row) : Option (List Row) :=
  (shiftZero bonded rows).map fun z => rows.map fun r => { r with y := r.y - z }

/-- `table_smooth.pl`: points flagged `i` become the weighted mean of their neighbours -/
def smooth (rows : List Row) : List Row :=
  let n := rows.length
  let y := fun (i : Nat) => (rows[i]?.map (·.y)).getD 0
  rows.zipIdx.map fun (r, i) =>
    if r.flag != 'i' then r
    else if i == 0 then { r with y := (2 * y 0 + y 1) / 3 }
    else if i + 1 == n then { r with y := (2 * y i + y (i - 1)) / 3 }
    else { r with y := y (i - 1) / 4 + y i / 2 + y (i + 1) / 4 }

/-- `table_integrate.pl --from left`: trapezoid rule, zero at the first point -/
def integrateLeft : Rat → Option Row → List Row → List Row
  | _, _, [] => []
  | acc, prev, r :: rest =>
    let v := match prev with
      | none => 0
      | some p => acc + (r.x - p.x) / 2 * (r.y + p.y)
    { r with y := v } :: integrateLeft v (some r) rest

/-- `--from right`: zero at the last point, `pot[i] = pot[i+1] - h/2 (f[i+1] + f[i])` -/
def integrateRight (rows : List Row) : List Row := (integrateLeft 0 none rows.reverse).reverse

inductive CombOp | add | sub | mul | dist
  deriving Repr, BEq

def combine (op : CombOp) (sc : Rat) (a b : List Row) : List Row :=
  (a.zip b).map fun (p, q) =>
    let v := match op with
      | .add => p.y + q.y | .sub => p.y - q.y | .mul => p.y * q.y | .dist => absRat (p.y - q.y)
    { p with y := v * sc }

/-! ## table_extrapolate.pl -/

inductive ExFun | constant | linear | quadratic | sasha | periodic | exponential
  deriving Repr, BEq, DecidableEq

/-- where the script divides by zero -/
def exDefined (fn : ExFun) (curv y0 m : Rat) : Bool :=
  match fn with
  | .quadratic => curv != 0
  | .sasha => y0 != 0 && m != 0
  | .exponential => y0 != 0
  | _ => true

/-- the extrapolating function through the anchor `(x0, y0)` with slope `m`; `curv` is the `--curvature` of the quadratic form;
    `ew` stands for the exponential function (the driver supplies a rational approximation; the theorems hold for every `ew`) -/
def exVal (fn : ExFun) (curv x0 y0 m x : Rat) (ew : Rat → Rat) : Rat :=
  match fn with
  | .constant => y0
  | .linear | .periodic => m * (x - x0) + y0
  | .quadratic =>
      let a := m / 2 / curv - x0
      let b := y0 - m * m / 4 / curv
      curv * (x + a) * (x + a) + b
  | .sasha =>
      let a := m * m / (4 * y0)
      let b := x0 - 2 * y0 / m
      a * (x - b) * (x - b)
  | .exponential => y0 * ew (m * (x - x0) / y0)

structure ExOpts where
  fn : ExFun
  avg : Nat
  curv : Rat
  left : Bool
  right : Bool
  flagUpdate : Bool

/-- rows whose index satisfies `p` are replaced by `g row` -/
def fillWhere (p : Nat → Bool) (g : Row → Row) (rows : List Row) : List Row :=
  rows.zipIdx.map fun (r, i) => if p i then g r else r

/-- an extrapolated row: same abscissa, the value of the extrapolating function, flag `i` unless `--no-flagupdate` -/
def exRow (o : ExOpts) (x0 y0 m : Rat) (ew : Rat → Rat) (r : Row) : Row :=
  { r with y := exVal o.fn o.curv x0 y0 m r.x ew, flag := if o.flagUpdate then 'i' else r.flag }

def firstIn (rows : List Row) : Nat := (rows.findIdx? (·.flag == 'i')).getD rows.length
/-- `for ($last=$#r; $last>0; $last--) { last if flag eq "i" }`: stops at index 0 whatever its flag -/
def lastIn (rows : List Row) : Nat :=
  ((List.range rows.length).reverse.find? fun i => i == 0 || (rows[i]?.map (·.flag)) == some 'i').getD 0

/-- left part: gradient from the first in-range point and the point `avg` further on; everything before it is replaced -/
def exLeft (o : ExOpts) (ew : Rat → Rat) (rows : List Row) : Option (List Row) :=
  let f := firstIn rows
  match rows[f]?, rows[f + o.avg]? with
  | some r0, some r1 =>
    if o.fn != .constant && r1.x == r0.x then none else
    let m := if o.fn == .constant then 0 else (r1.y - r0.y) / (r1.x - r0.x)
    if !exDefined o.fn o.curv r0.y m then none else
    some (fillWhere (fun i => decide (i < f)) (exRow o r0.x r0.y m ew) rows)
  | _, _ => none

def exRight (o : ExOpts) (ew : Rat → Rat) (rows : List Row) : Option (List Row) :=
  let l := lastIn rows
  let n := rows.length
  match rows[l]? with
  | none => none
  | some r0 =>
    let mOpt : Option Rat :=
      if o.fn == .constant then some 0
      else if o.fn == .periodic then
        (if l + 1 == n then some 0 else
          match rows[0]?, rows[n - 1]? with
          | some a, some z => if z.x == r0.x then none else some ((a.y - r0.y) / (z.x - r0.x))
          | _, _ => none)
      else if l < o.avg then none
      else match rows[l - o.avg]? with
        | some r1 => if r0.x == r1.x then none else some ((r0.y - r1.y) / (r0.x - r1.x))
        | none => none
    match mOpt with
    | none => none
    | some m =>
      if !exDefined o.fn o.curv r0.y m then none else
      some (fillWhere (fun i => decide (i > l)) (exRow o r0.x r0.y m ew) rows)

def extrapolate (o : ExOpts) (ew : Rat → Rat) (rows : List Row) : Option (List Row) := do
  let a ← if o.left then exLeft o ew rows else some rows
  if o.right then exRight o ew a else some a

end Votca.C19
