import Votca.Base.Util
/-! # C17 — executable model of the checkpoint store (xtp checkpoint.{h,cc}, checkpointwriter.h, checkpointreader.h):
a map from (group path, name) to a typed value; scalars are attributes, arrays datasets, lists of 3-vectors groups of
datasets — at this level all of them are entries of the map.  Writing replaces, reading a missing name (or a name of
another kind) fails, a file opened read-only refuses writers.  The matrix layout (memory column-major, file row-major,
one hyperslab per row) is modelled by its two index maps.  HDF5 itself is not modelled.  Core Lean only. -/
namespace Votca.C17

inductive Obj
  | int (i : Int) | dbl (r : Rat) | bool (b : Bool) | str (s : String)
  | vecI (l : List Int) | vecD (l : List Rat) | vecS (l : List String)
  | mat (rows cols : Nat) (vals : List Rat)      -- row by row
  | v3 (x y z : Rat) | lv3 (l : List (Rat × Rat × Rat))
  deriving Repr, BEq, DecidableEq

def Obj.kind : Obj → String
  | .int _ => "i" | .dbl _ => "d" | .bool _ => "b" | .str _ => "s" | .vecI _ => "vi" | .vecD _ => "vd" | .vecS _ => "vs"
  | .mat _ _ _ => "m" | .v3 _ _ _ => "v3" | .lv3 _ => "lv3"

abbrev Key := String × String
abbrev Store := List (Key × Obj)

def Store.write (s : Store) (k : Key) (o : Obj) : Store := (k, o) :: s.filter (fun e => e.1 != k)

def Store.read (s : Store) (k : Key) (kind : String) : Option Obj :=
  match s.find? (fun e => e.1 == k) with
  | some e => if e.2.kind == kind then some e.2 else none
  | none => none

inductive Op
  | write (level : Nat) (k : Key) (o : Obj)      -- level 0: the file is opened read-only
  | read (k : Key) (kind : String)

inductive Out
  | ok | err | val (o : Obj)
  deriving Repr, BEq, DecidableEq

def step (s : Store) : Op → Store × Out
  | .write level k o => if level = 0 then (s, .err) else (s.write k o, .ok)
  | .read k kind => match s.read k kind with
    | some o => (s, .val o)
    | none => (s, .err)

def run (s : Store) : List Op → List Out
  | [] => []
  | op :: rest => let r := step s op; r.2 :: run r.1 rest

/-! ## matrix layout -/

/-- memory is column-major with leading dimension `ld ≥ rows`: element `(r, c)` at `r + c·ld` -/
def memIdx (ld r c : Nat) : Nat := r + c * ld
/-- the dataset is row-major `rows × cols`: element `(r, c)` at `r·cols + c` -/
def fileIdx (cols r c : Nat) : Nat := r * cols + c

/-- `WriteData(MatrixBase)`: one hyperslab per row, `cols` elements with stride `ld` in memory to a contiguous file row -/
def writeMatrix (rows cols ld : Nat) (mem : Nat → Rat) : Nat → Rat :=
  fun fi => mem (memIdx ld (fi / cols) (fi % cols))

/-- `ReadData(MatrixBase)`: the inverse copy -/
def readMatrix (rows cols ld : Nat) (file : Nat → Rat) (r c : Nat) : Rat := file (fileIdx cols r c)

end Votca.C17
