import Votca.Base.Util
import Votca.Gen.Units
/-! # C20 — reference values (SI / CODATA 2018, typed in by hand, see DESIGN.md §4) and the decidable predicates that
state the property over the GENERATED tables of `Votca/Gen/Units.lean`.  Core Lean only. -/
namespace Votca.C20
open Votca.Gen.Units

/-- |a - b| ≤ tol·|b| -/
def relClose (a b tol : Rat) : Bool := absRat (a - b) ≤ tol * absRat b

/-- "four significant digits" -/
def tol4 : Rat := 5 / 10000

/-! ## reference tables: units per base unit (same convention as the code) -/

def bohrInAngstrom : Rat := 529177210903 / 1000000000000          -- CODATA 2018: a0 = 0.529177210903 Å
def amuInKg : Rat := 166053906660 / (10 : Rat) ^ 38               -- 1.66053906660e-27 kg
def eVInJoule : Rat := 1602176634 / (10 : Rat) ^ 28               -- 1.602176634e-19 J (exact, SI 2019)
def hartreeInEV : Rat := 27211386245988 / (10 : Rat) ^ 12         -- 27.211386245988 eV
def kcalInKJ : Rat := 4184 / 1000                                 -- thermochemical calorie (defined)
def avogadro : Rat := 602214076 * (10 : Rat) ^ 15                 -- 6.02214076e23 (exact)
def kBoltzEVperK : Rat := 8617333262 / (10 : Rat) ^ 14            -- 8.617333262e-5 eV/K
def hbarEVs : Rat := 6582119569 / (10 : Rat) ^ 25                 -- 6.582119569e-16 eV s

def refDistance : List (String × Rat) := [
  ("meters", 1 / (10 : Rat) ^ 10), ("centimeters", 1 / (10 : Rat) ^ 8), ("nanometers", 1 / 10), ("angstroms", 1),
  ("bohr", 1 / bohrInAngstrom)]
def refTime : List (String × Rat) := [
  ("seconds", 1 / (10 : Rat) ^ 12), ("microseconds", 1 / (10 : Rat) ^ 6), ("nanoseconds", 1 / 1000), ("picoseconds", 1),
  ("femtoseconds", 1000)]
def refMass : List (String × Rat) := [
  ("kilograms", amuInKg), ("grams", amuInKg * 1000), ("picograms", amuInKg * (10 : Rat) ^ 15),
  ("femtograms", amuInKg * (10 : Rat) ^ 18), ("attograms", amuInKg * (10 : Rat) ^ 21), ("atomic_mass_units", 1),
  ("grams_per_mole", 1)]
def refEnergy : List (String × Rat) := [
  ("kilocalories", eVInJoule / 1000 / kcalInKJ), ("kilojoules", eVInJoule / 1000), ("joules", eVInJoule),
  ("hartrees", 1 / hartreeInEV), ("electron_volts", 1)]
def refMolarEnergy : List (String × Rat) := [
  ("kilojoules_per_mole", eVInJoule / 1000), ("joules_per_mole", eVInJoule), ("kilocalories_per_mole", eVInJoule / 1000 / kcalInKJ),
  ("hartrees_per_mole", 1 / hartreeInEV), ("electron_volts_per_mole", 1)]
def refCharge : List (String × Rat) := [("e", 1), ("coulombs", eVInJoule)]

def refBase : List (String × List (String × Rat)) := [
  ("Distance", refDistance), ("Time", refTime), ("Mass", refMass), ("Energy", refEnergy),
  ("MolarEnergy", refMolarEnergy), ("Charge", refCharge)]

/-- derived dimension ↦ (numerator dimension, denominator dimension, unit ↦ (numerator unit, denominator unit)) -/
def derivedParts : List (String × String × String × List (String × String × String)) := [
  ("Velocity", "Distance", "Time", [
    ("nanometers_per_picosecond", "nanometers", "picoseconds"),
    ("angstroms_per_picosecond", "angstroms", "picoseconds"),
    ("angstroms_per_femtosecond", "angstroms", "femtoseconds")]),
  ("Force", "Energy", "Distance", [
    ("kilocalories_per_angstrom", "kilocalories", "angstroms"), ("newtons", "joules", "meters"),
    ("kilojoules_per_nanometer", "kilojoules", "nanometers"), ("kilojoules_per_angstrom", "kilojoules", "angstroms"),
    ("hatree_per_bohr", "hartrees", "bohr")]),
  ("MolarForce", "MolarEnergy", "Distance", [
    ("kilocalories_per_mole_angstrom", "kilocalories_per_mole", "angstroms"), ("newtons_per_mole", "joules_per_mole", "meters"),
    ("kilojoules_per_mole_nanometer", "kilojoules_per_mole", "nanometers"),
    ("kilojoules_per_mole_angstrom", "kilojoules_per_mole", "angstroms"), ("hatree_per_mole_bohr", "hartrees_per_mole", "bohr")])]

def tableOf (name : String) : List (String × Rat) := (dimensions.lookup name).getD []

/-! ## predicates (all decidable, evaluated by `decide +kernel` in `Props/C20.lean` and per item by the driver) -/

def allNonzero (t : List (String × Rat)) : Bool := t.all (fun p => p.2 != 0)

def keys (t : List (String × Rat)) : List String := t.map (·.1)

/-- every pair of units of a generated base table converts as the reference does, to four digits -/
def tableMatchesRef (t r : List (String × Rat)) : Bool :=
  keys t == keys r || (keys t).all (fun k => (keys r).contains k) &&
  ((keys t).all fun a => (keys t).all fun b => relClose (conv t a b) (conv r a b) tol4)

def baseOK : Bool := refBase.all fun (n, r) =>
  let t := tableOf n
  !t.isEmpty && (keys t).all (fun k => (keys r).contains k) &&
  ((keys t).all fun a => (keys t).all fun b => relClose (conv t a b) (conv r a b) tol4)

/-- the conversion of a derived unit is exactly the quotient of its base conversions -/
def derivedPairOK (d : String × String × String × List (String × String × String)) (a b : String) : Bool :=
  let (dn, nn, dd, parts) := d
  match parts.lookup a, parts.lookup b with
  | some (na, da), some (nb, db) =>
    conv (tableOf dn) a b == conv (tableOf nn) na nb / conv (tableOf dd) da db
  | _, _ => false

def derivedOK : Bool := derivedParts.all fun d =>
  let t := tableOf d.1
  !t.isEmpty && ((keys t).all fun a => (keys t).all fun b => derivedPairOK d a b)

/-- reference value of every `tools::conv` constant -/
def constRef : List (String × Rat) := [
  ("kB", kBoltzEVperK), ("hbar", hbarEVs),
  ("bohr2nm", bohrInAngstrom / 10), ("nm2bohr", 10 / bohrInAngstrom), ("ang2bohr", 1 / bohrInAngstrom),
  ("bohr2ang", bohrInAngstrom), ("nm2ang", 10), ("ang2nm", 1 / 10),
  ("hrt2ev", hartreeInEV), ("ev2hrt", 1 / hartreeInEV),
  ("ev2kj_per_mol", eVInJoule / 1000 * avogadro), ("kcal2kj", kcalInKJ), ("kj2kcal", 1 / kcalInKJ)]

def constOK (name : String) (v : Rat) : Bool :=
  match constRef.lookup name with
  | some r => relClose v r tol4
  | none => false     -- a constant without a reference value is not vouched for

def constantsOK : Bool := constants.all fun (n, v) => constOK n v

/-- the same with an explicit list of constants that are *not* vouched for (recorded known findings) -/
def constantsOKExcept (ex : List String) : Bool := constants.all fun (n, v) => ex.contains n || constOK n v

/-- other places of the library that encode the same quantity: constant ↦ (dimension, from, to, extra factor) -/
def crossPlaces : List (String × String × String × String × Rat) := [
  ("bohr2nm", "Distance", "bohr", "nanometers", 1), ("nm2bohr", "Distance", "nanometers", "bohr", 1),
  ("ang2bohr", "Distance", "angstroms", "bohr", 1), ("bohr2ang", "Distance", "bohr", "angstroms", 1),
  ("nm2ang", "Distance", "nanometers", "angstroms", 1), ("ang2nm", "Distance", "angstroms", "nanometers", 1),
  ("hrt2ev", "Energy", "hartrees", "electron_volts", 1), ("ev2hrt", "Energy", "electron_volts", "hartrees", 1),
  ("kcal2kj", "Energy", "kilocalories", "kilojoules", 1), ("kj2kcal", "Energy", "kilojoules", "kilocalories", 1),
  ("kcal2kj", "MolarEnergy", "kilocalories_per_mole", "kilojoules_per_mole", 1),
  ("ev2kj_per_mol", "Energy", "electron_volts", "kilojoules", avogadro)]

def crossOK1 (name : String) (v : Rat) : Bool :=
  (crossPlaces.filter (·.1 == name)).all fun (_, d, a, b, f) => relClose v (f * conv (tableOf d) a b) tol4

def crossOK : Bool := constants.all fun (n, v) => crossOK1 n v
def crossOKExcept (ex : List String) : Bool := constants.all fun (n, v) => ex.contains n || crossOK1 n v

/-- recorded finding (KNOWN_FINDINGS.txt): `conv::kcal2kj` is the International-Table calorie 4.1868 while the LAMMPS
    readers/writers that use it and `unitconverter.h` mean the thermochemical 4.184 -/
def knownKcal : List String := ["kcal2kj", "kj2kcal"]

/-- inverse pairs among the constants are inverse to four digits -/
def inversePairs : List (String × String) := [("bohr2nm", "nm2bohr"), ("ang2bohr", "bohr2ang"), ("nm2ang", "ang2nm"),
  ("hrt2ev", "ev2hrt"), ("kcal2kj", "kj2kcal")]
def inversesOK : Bool := inversePairs.all fun (a, b) => relClose (lookup constants a * lookup constants b) 1 tol4

/-! ## other places: the factor a reader / writer code path must have applied (observed on real files by the harness) -/

/-- `len`: Å → nm; `invlen`: nm → Å (SI: exactly 1/10 and 10); `force`: kcal/mol/Å → kJ/mol/nm and `invforce` the reverse, in
    terms of the library's own constants (their agreement with SI is the business of `constOK` and the recorded kcal finding) -/
def placeRef (kind : String) : Option Rat :=
  if kind == "len" then some (1 / 10)
  else if kind == "invlen" then some 10
  else if kind == "force" then some (lookup constants "kcal2kj" / lookup constants "ang2nm")
  else if kind == "invforce" then some (lookup constants "kj2kcal" / lookup constants "nm2ang")
  else none

def placeOK (kind : String) (v : Rat) : Bool :=
  match placeRef kind with
  | some r => relClose v r tol4
  | none => false

/-- the references of the places agree with the unit tables and constants of the library itself -/
def placeRefsOK : Bool :=
  placeOK "len" (conv distance "angstroms" "nanometers") && placeOK "invlen" (conv distance "nanometers" "angstroms") &&
  placeOK "len" (lookup constants "ang2nm") && placeOK "invlen" (lookup constants "nm2ang") &&
  relClose ((placeRef "force").getD 0 * (placeRef "invforce").getD 0) 1 tol4

/-- the units csg files are in must exist in the tables -/
def csgUnitsOK : Bool := csgUnits.all fun (_, u) => dimensions.any fun (_, t) => (keys t).contains u

/-! ## elements: symbol ↦ (atomic number, standard atomic weight) — IUPAC abridged values -/
def elemRef : List (String × Nat × Rat) := [
  ("H", 1, 1008 / 1000), ("He", 2, 40026 / 10000), ("Li", 3, 694 / 100), ("Be", 4, 90122 / 10000), ("B", 5, 1081 / 100),
  ("C", 6, 12011 / 1000), ("N", 7, 14007 / 1000), ("O", 8, 15999 / 1000), ("F", 9, 18998 / 1000), ("Ne", 10, 20180 / 1000),
  ("Na", 11, 22990 / 1000), ("Mg", 12, 24305 / 1000), ("Al", 13, 26982 / 1000), ("Si", 14, 28085 / 1000), ("P", 15, 30974 / 1000),
  ("S", 16, 3206 / 100), ("Cl", 17, 3545 / 100), ("Ar", 18, 39948 / 1000), ("K", 19, 39098 / 1000), ("Ca", 20, 40078 / 1000),
  ("Sc", 21, 44956 / 1000), ("Ti", 22, 47867 / 1000), ("V", 23, 50942 / 1000), ("Cr", 24, 51996 / 1000), ("Mn", 25, 54938 / 1000),
  ("Fe", 26, 55845 / 1000), ("Co", 27, 58933 / 1000), ("Ni", 28, 58693 / 1000), ("Cu", 29, 63546 / 1000), ("Zn", 30, 6538 / 100),
  ("Ga", 31, 69723 / 1000), ("Ge", 32, 72630 / 1000), ("As", 33, 74922 / 1000), ("Se", 34, 78971 / 1000), ("Br", 35, 79904 / 1000),
  ("Kr", 36, 83798 / 1000), ("Rb", 37, 85468 / 1000), ("Sr", 38, 8762 / 100), ("Y", 39, 88906 / 1000), ("Zr", 40, 91224 / 1000),
  ("Nb", 41, 92906 / 1000), ("Mo", 42, 9595 / 100), ("Tc", 43, 98), ("Ru", 44, 10107 / 100), ("Rh", 45, 10291 / 100),
  ("Pd", 46, 10642 / 100), ("Ag", 47, 10787 / 100), ("Cd", 48, 11241 / 100), ("In", 49, 11482 / 100), ("Sn", 50, 11871 / 100),
  ("Sb", 51, 12176 / 100), ("Te", 52, 12760 / 100), ("I", 53, 12690 / 100), ("Xe", 54, 13129 / 100), ("Cs", 55, 13291 / 100),
  ("Ba", 56, 13733 / 100), ("La", 57, 13891 / 100), ("Ce", 58, 14012 / 100), ("Pr", 59, 14091 / 100), ("Nd", 60, 14424 / 100),
  ("Pm", 61, 145), ("Sm", 62, 15036 / 100), ("Eu", 63, 15196 / 100), ("Gd", 64, 15725 / 100), ("Tb", 65, 15893 / 100),
  ("Dy", 66, 16250 / 100), ("Ho", 67, 16493 / 100), ("Er", 68, 16726 / 100), ("Tm", 69, 16893 / 100), ("Yb", 70, 17305 / 100),
  ("Lu", 71, 17497 / 100), ("Hf", 72, 17849 / 100), ("Ta", 73, 18095 / 100), ("W", 74, 18384 / 100), ("Re", 75, 18621 / 100),
  ("Os", 76, 19023 / 100), ("Ir", 77, 19222 / 100), ("Pt", 78, 19508 / 100), ("Au", 79, 19697 / 100), ("Hg", 80, 20059 / 100),
  ("Tl", 81, 20438 / 100), ("Pb", 82, 2072 / 10), ("Bi", 83, 20898 / 100), ("Po", 84, 209), ("At", 85, 210), ("Rn", 86, 222)]

def massTol : Rat := 5 / 1000

/-- one element of the library tables against the reference and against the other tables -/
def elementOK (sym : String) (num : Nat) (crg mass : Rat) (nameOfNum fullOfSym shortOfFull : String) : Bool :=
  match elemRef.lookup sym with
  | some (z, m) =>
    -- the property names mass and atomic number; the full-name tables (`EleShort_`/`EleFull_`) are reported by the
    -- harness but not judged (they contain misspellings such as NITROGEN ↦ "Ni" that are outside the stated property)
    let _ := (fullOfSym, shortOfFull)
    num == z && crg == (z : Rat) && relClose mass m massTol && nameOfNum == sym && (z : Rat) ≤ mass && mass ≤ 3 * (z : Rat)
  | none => false

def elementsOK : Bool := elementNumber.all fun (sym, num) =>
  let full := (elementFull.lookup sym).getD ""
  elementOK sym num ((nuclearCharge.lookup sym).getD 0) ((elementMass.lookup sym).getD 0)
    ((elementName.lookup num).getD "") full ((elementShort.lookup full).getD "")

/-- no symbol or number occurs twice; all five tables list the same elements -/
def elementTablesConsistent : Bool :=
  let syms := elementNumber.map (·.1)
  syms.eraseDups.length == syms.length && (elementNumber.map (·.2)).eraseDups.length == syms.length &&
  elementMass.length == syms.length + (elementMass.length - syms.length) &&
  (elementMass.map (·.1)).all (fun s => syms.contains s || elemRef.lookup s != none) &&
  nuclearCharge.length == syms.length && elementName.length == syms.length &&
  elementShort.length == syms.length && elementFull.length == syms.length

end Votca.C20
