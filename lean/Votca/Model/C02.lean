import Votca.Base.Vec3
/-! # C02 — executable models of the boundary conditions (csg/src/libcsg/{orthorhombic,triclinic,open}box.cc,
boundarycondition.cc, Topology::autoDetectBoxType), exact rational arithmetic, core Lean only. -/
namespace Votca.C02
open Votca

inductive BoxType | open_ | ortho | tri
  deriving DecidableEq, Repr

/-- `Topology::autoDetectBoxType` (`isApproxToConstant(0)` is an exact zero test) -/
def autoDetect (B : Box) : BoxType :=
  if B.isZero then .open_ else if B.isDiagonal then .ortho else .tri

/-- `OrthorhombicBox::BCShortestConnection`: component-wise, with the box diagonal -/
def micOrtho (B : Box) (ri rj : V3) : V3 :=
  let r := rj - ri
  ⟨r.x - B.a.x * (roundHA (r.x / B.a.x) : Rat), r.y - B.b.y * (roundHA (r.y / B.b.y) : Rat), r.z - B.c.z * (roundHA (r.z / B.c.z) : Rat)⟩

/-- `TriclinicBox::BCShortestConnection`: sequential z, y, x reduction with the box columns -/
def micTri (B : Box) (ri rj : V3) : V3 :=
  let rtp := rj - ri
  let rdp := rtp - ((roundHA (rtp.z / B.c.z) : Rat) * B.c)
  let rsp := rdp - ((roundHA (rdp.y / B.b.y) : Rat) * B.b)
  rsp - ((roundHA (rsp.x / B.a.x) : Rat) * B.a)

def micOpen (ri rj : V3) : V3 := rj - ri

def mic (t : BoxType) (B : Box) (ri rj : V3) : V3 :=
  match t with
  | .open_ => micOpen ri rj
  | .ortho => micOrtho B ri rj
  | .tri => micTri B ri rj

/-- `BoxVolume` -/
def volume (B : Box) : Rat := absRat B.det

/-- squared heights of the parallelepiped: `(a·(b×c))² / |b×c|²` etc. (`getShortestBoxDimension` returns the
    minimum of the three signed heights; for a right-handed box that is the square root of the minimum below) -/
def heightsSq (B : Box) : Rat × Rat × Rat :=
  let d := B.det
  (d * d / (V3.cross B.b B.c).normSq, d * d / (V3.cross B.c B.a).normSq, d * d / (V3.cross B.a B.b).normSq)

def minHeightSq (B : Box) : Rat :=
  let (p, q, r) := heightsSq B
  let m := if p < q then p else q
  if m < r then m else r

/-- GROMACS reduction conditions (upper-triangular, positive diagonal, bounded off-diagonals) -/
def reduced (B : Box) : Bool :=
  B.isUpperTriangular && 0 < B.a.x && 0 < B.b.y && 0 < B.c.z &&
  absRat B.b.x ≤ B.a.x / 2 && absRat B.c.x ≤ B.a.x / 2 && absRat B.c.y ≤ B.b.y / 2

end Votca.C02
