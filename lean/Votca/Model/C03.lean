import Votca.Model.C02
/-! # C03 — executable models of the neighbour searches (csg nblistgrid.cc, nblist.cc, nblist_3body.cc, exclusionlist.cc).
Two layers: the list-level scan (abstract cells / closeness) and the concrete cell geometry.  Core Lean only. -/
namespace Votca.C03
open Votca Votca.C02

abbrev Cell := Int × Int × Int

/-! ## list level (abstract `cell`, `cells`, `close`) -/

/-- beads already inserted that are scanned for a bead whose cell list is `cs` (own cell first, then `neighbours_`) -/
def scan (cell : Nat → Cell) (seen : List Nat) (cs : List Cell) : List Nat :=
  cs.flatMap (fun c => seen.filter (fun e => cell e == c))

/-- `NBListGrid::Generate(list)`: test the bead against the inserted ones, then insert it -/
def gridStep (cell : Nat → Cell) (cells : Nat → List Cell) (close : Nat → Nat → Bool)
    (st : List Nat × List (Nat × Nat)) (b : Nat) : List Nat × List (Nat × Nat) :=
  (st.1 ++ [b], st.2 ++ ((scan cell st.1 (cells b)).filter (fun e => close e b)).map (fun e => (e, b)))

def gridPairs (cell : Nat → Cell) (cells : Nat → List Cell) (close : Nat → Nat → Bool) (beads : List Nat) :
    List (Nat × Nat) := (beads.foldl (gridStep cell cells close) ([], [])).2

def bruteStep (close : Nat → Nat → Bool) (st : List Nat × List (Nat × Nat)) (b : Nat) :
    List Nat × List (Nat × Nat) :=
  (st.1 ++ [b], st.2 ++ (st.1.filter (fun e => close e b)).map (fun e => (e, b)))

/-- O(N²) reference: every earlier bead of the list within the cutoff (this is also `NBList::Generate(list)`) -/
def brutePairs (close : Nat → Nat → Bool) (beads : List Nat) : List (Nat × Nat) :=
  (beads.foldl (bruteStep close) ([], [])).2

/-- `NBListGrid::Generate(list1, list2)`: all of list1 is inserted first, then every bead of list2 is tested -/
def gridPairs2 (cell : Nat → Cell) (cells : Nat → List Cell) (close : Nat → Nat → Bool) (l1 l2 : List Nat) : List (Nat × Nat) :=
  l2.flatMap fun b => ((scan cell l1 (cells b)).filter (fun e => close e b)).map (fun e => (e, b))

def brutePairs2 (close : Nat → Nat → Bool) (l1 l2 : List Nat) : List (Nat × Nat) :=
  l2.flatMap fun b => (l1.filter (fun e => close e b)).map (fun e => (e, b))

/-! ## cell geometry -/

/-- `floor(sqrt q)` for `q ≥ 0` -/
def isqrtFloor (q : Rat) : Nat := Nat.sqrt q.floor.toNat

/-- cells per direction: `Index(max(|l / cutoff|, 1))` with `l` the box height; computed from the squared height -/
def cellCount (hsq rc : Rat) : Nat := max (isqrtFloor (hsq / (rc * rc))) 1

def cellCounts (B : Box) (rc : Rat) : Nat × Nat × Nat :=
  let (ha, hb, hc) := heightsSq B
  (cellCount ha rc, cellCount hb rc, cellCount hc rc)

/-- the scaled plane normal `n̂ / (a·n̂) · N` written without square roots: `(b × c) / det · N` -/
def scaledNormal (n : V3) (det : Rat) (N : Nat) : V3 := ((N : Rat) / det) * n

/-- `getCell`: floor of the scaled coordinate, wrapped as the code does it (`N + a % N` for negatives, then `% N`) -/
def wrapIndex (a : Int) (N : Int) : Int :=
  let a' := if a < 0 then N + Int.tmod a N else a
  Int.tmod a' N

def cellOf (B : Box) (Ns : Nat × Nat × Nat) (r : V3) : Cell :=
  let det := B.det
  let a := (V3.dot r (scaledNormal (V3.cross B.b B.c) det Ns.1)).floor
  let b := (V3.dot r (scaledNormal (V3.cross B.c B.a) det Ns.2.1)).floor
  let c := (V3.dot r (scaledNormal (V3.cross B.a B.b) det Ns.2.2)).floor
  (wrapIndex a Ns.1, wrapIndex b Ns.2.1, wrapIndex c Ns.2.2)

/-- offsets scanned in one direction: `{0}`, `{-1,0}`, `{-1,0,1}` for 1, 2, ≥3 cells -/
def nbrOffsets (N : Nat) : List Int := if N < 2 then [0] else if N < 3 then [-1, 0] else [-1, 0, 1]

/-- own cell first, then `neighbours_` in the order `InitializeGrid` pushes them (self skipped) -/
def cellsFor (Ns : Nat × Nat × Nat) (c : Cell) : List Cell :=
  let (na, nb, nc) := Ns
  let nbrs := (nbrOffsets na).flatMap fun da => (nbrOffsets nb).flatMap fun db => (nbrOffsets nc).map fun dc =>
    ((c.1 + (na : Int) + da) % (na : Int), (c.2.1 + (nb : Int) + db) % (nb : Int), (c.2.2 + (nc : Int) + dc) % (nc : Int))
  c :: nbrs.filter (fun x => x != c)

/-- `d < cutoff` with `d = |BCShortestConnection|`, compared in squares -/
def closeB (bt : BoxType) (B : Box) (rc : Rat) (pos : Nat → V3) (i j : Nat) : Bool :=
  (mic bt B (pos i) (pos j)).normSq < rc * rc

/-! ## exclusions (`ExclusionList`): unordered pairs of beads of one molecule that share an interaction -/

def excludedBy (interactions : List (List Nat)) (mol : Nat → Nat) (i j : Nat) : Bool :=
  mol i == mol j && interactions.any (fun ia => ia.contains i && ia.contains j) && i != j

/-! ## three-body search (`NBList_3Body::Generate`): (centre, j, k) with both centre distances below the cutoff -/

def bruteTriples (close : Nat → Nat → Bool) (excl : Nat → Nat → Bool) (l1 l2 l3 : List Nat) (sameL23 : Bool) : List (Nat × Nat × Nat) :=
  l1.flatMap fun i =>
    (l2.zipIdx).flatMap fun (j, jx) =>
      if i == j then [] else
      ((if sameL23 then l3.drop (jx + 1) else l3).filter (fun k => k != i && k != j && close i j && close i k &&
        !(excl i j || excl i k || excl j k))).map fun k => (i, j, k)

end Votca.C03
