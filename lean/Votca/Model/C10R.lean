import Votca.Base.Util
/-! # C10, second model — the shared job file with a HISTORY, restart patterns and `maxjobs`

`Model/C10.lean` is the protocol for a fresh job file (every job AVAILABLE, no restart pattern, no job limit); the invariants and
the exactly-once theorems are proved about it.  This model extends the record (status FAILED, who produced the output, who
produced the error text), the per-process configuration (restart hosts / statuses, `maxjobs`) and the assignment test
(`progressobserver.cc:SyncWithProgFile`: AVAILABLE, or the restart mode names the status, or the restart mode names the host),
with `Job::Reset` on assignment, `Job::UpdateFromResult` on report and `Job::UpdateFrom` on merge.  Core Lean only. -/
namespace Votca.C10R

def upd {β : Type} (f : Nat → β) (i : Nat) (v : β) : Nat → β := fun j => if j = i then v else f j

inductive Status | avail | assigned | complete | failed
deriving DecidableEq, Repr

/-- one job record; hosts are numbers (live processes `0..P-1`, hosts of earlier runs `≥ 100`); `out` / `err` name the host whose
    output / error text the record carries -/
structure Job where
  status : Status
  host : Option Nat
  out : Option Nat
  err : Option Nat
deriving DecidableEq, Repr

structure Cfg where
  cache : Nat
  maxjobs : Nat
  hosts : List Nat            -- restart pattern host(...)
  stats : List Status         -- restart pattern stat(...)
deriving Repr

def Cfg.restartMode (c : Cfg) : Bool := !(c.hosts.isEmpty && c.stats.isEmpty)

inductive PC
  | idle | wantLock | locked | merged | backedUp | assignedSt | written | unlocked
  | exec (j : Nat) | done
deriving DecidableEq, Repr

structure Proc where
  pc : PC
  mem : Nat → Job
  mpos : Nat
  cache : List Nat
  more : Bool
  fin : Bool
  started : Nat

structure S where
  proc : Nat → Proc
  disk : Nat → Job
  bak : Nat → Job
  lock : List Nat
  execLog : List (Nat × Nat)

open PC Status

/-- `Job::UpdateFrom(ext)`: status, output and error text are those of the external record (absent when it has none); host (and
    time) only when the external record has one -/
def updateFrom (ext mem : Job) : Job :=
  { status := ext.status,
    host := match ext.host with | some h => some h | none => mem.host,
    out := ext.out,
    err := ext.err }

/-- `UPDATE_JOBS`: take the external record when it is owned by another host -/
def merge (p : Nat) (ext mem : Nat → Job) : Nat → Job :=
  fun j => match (ext j).host with
    | some q => if q ≠ p then updateFrom (ext j) (mem j) else mem j
    | none => mem j

/-- the start test of the assignment loop -/
def startable (c : Cfg) (jb : Job) : Bool :=
  jb.status == avail ||
  (c.restartMode && c.stats.contains jb.status) ||
  (c.restartMode && (match jb.host with | some h => c.hosts.contains h | none => false))

/-- `Reset`, ASSIGNED, host -/
def assignTo (p : Nat) (_jb : Job) : Job := { status := assigned, host := some p, out := none, err := none }

/-- the assignment loop: scan from `mpos`, fill the cache up to `c.cache`, at most `c.maxjobs` jobs per process in total -/
def assign (p : Nat) (c : Cfg) (J : Nat) : Nat → (Nat → Job) → Nat → List Nat → Nat → (Nat → Job) × Nat × List Nat × Nat
  | 0, mem, mpos, cache, started => (mem, mpos, cache, started)
  | fuel + 1, mem, mpos, cache, started =>
    if cache.length < c.cache ∧ mpos < J ∧ started ≠ c.maxjobs then
      if startable c (mem mpos) then
        assign p c J fuel (upd mem mpos (assignTo p (mem mpos))) (mpos + 1) (cache ++ [mpos]) (started + 1)
      else assign p c J fuel mem (mpos + 1) cache started
    else (mem, mpos, cache, started)

def setP (s : S) (p : Nat) (x : Proc) : S := { s with proc := upd s.proc p x }

/-- `ReportJobDone` with the result of the stub calculator: `fails p j` decides COMPLETE (output) or FAILED (error text) -/
def report (fails : Nat → Nat → Bool) (p j : Nat) (jb : Job) : Job :=
  if fails p j then { jb with status := failed, host := some p, err := some p }
  else { jb with status := complete, host := some p, out := some p }

def step (cfg : Nat → Cfg) (fails : Nat → Nat → Bool) (J : Nat) (s : S) (p : Nat) : Option S :=
  let x := s.proc p
  match x.pc with
  | idle =>
    match x.cache with
    | j :: rest => some (setP s p { x with cache := rest, pc := exec j })
    | [] => if x.more then some (setP s p { x with pc := wantLock })
            else some (setP s p { x with fin := true, pc := wantLock })
  | wantLock => if s.lock = [] then some { setP s p { x with pc := locked } with lock := [p] } else none
  | locked => some (setP s p { x with mem := merge p s.disk x.mem, pc := merged })
  | merged => some { setP s p { x with pc := backedUp } with bak := x.mem }
  | backedUp =>
    let r := assign p (cfg p) J J x.mem x.mpos [] x.started
    some (setP s p { x with mem := r.1, mpos := r.2.1, cache := r.2.2.1, started := r.2.2.2, pc := assignedSt })
  | assignedSt => some { setP s p { x with pc := written } with disk := x.mem }
  | written => some { setP s p { x with pc := unlocked } with lock := s.lock.erase p }
  | unlocked =>
    if x.fin then some (setP s p { x with pc := done })
    else some (setP s p { x with more := (if x.cache = [] then false else x.more), pc := idle })
  | exec j => some { setP s p { x with mem := upd x.mem j (report fails p j (x.mem j)), pc := idle }
                      with execLog := s.execLog ++ [(p, j)] }
  | done => none

def init (hist : Nat → Job) : S :=
  { proc := fun _ => { pc := idle, mem := hist, mpos := 0, cache := [], more := true, fin := false, started := 0 },
    disk := hist, bak := hist, lock := [], execLog := [] }

end Votca.C10R
