import Votca.Base.Util
/-! # C06 — executable model of the inverse solvers at the level of their defining equations:
`csg_imc_solve` (csg/src/tools/csg_imc_solve.cc, imcio.cc): the matrix of the `.gmc` file read row by row, the
regularised normal equations `(AᵀA + r·1) x = -Aᵀ b`, the split of `x` into the tables named by the index file;
`linalg_constrained_qrsolve` (tools/src/libtools/linalg.cc): the KKT conditions of `min |Ax - b|²  s.t.  Bx = 0`.
Exact rationals, dense lists; core Lean only. -/
namespace Votca.C06

abbrev Mat := List (List Rat)
abbrev Vec := List Rat

def dot : Vec → Vec → Rat
  | a :: as, b :: bs => a * b + dot as bs
  | _, _ => 0

def mulVec (M : Mat) (v : Vec) : Vec := M.map fun row => dot row v

def ncols (M : Mat) : Nat := (M.head?.map List.length).getD 0

def transpose (M : Mat) : Mat := (List.range (ncols M)).map fun j => M.map fun row => row.getD j 0

def vadd (a b : Vec) : Vec := (a.zip b).map fun (x, y) => x + y
def vsub (a b : Vec) : Vec := (a.zip b).map fun (x, y) => x - y
def vscale (k : Rat) (a : Vec) : Vec := a.map (k * ·)
def maxAbs (a : Vec) : Rat := a.foldl (fun m x => if m < absRat x then absRat x else m) 0

/-- `(AᵀA + r·1) x + Aᵀ b`: zero exactly when `x` solves the regularised normal equations -/
def normalResidual (A : Mat) (b : Vec) (r : Rat) (x : Vec) : Vec :=
  vadd (vadd (mulVec (transpose A) (mulVec A x)) (vscale r x)) (mulVec (transpose A) b)

/-- the rows `begin..end` (1-based, inclusive) of `x` for every entry of the index file -/
def splitByIndex (ranges : List (Nat × Nat)) (x : List α) : List (List α) :=
  ranges.map fun (b, e) => (x.drop (b - 1)).take (e + 1 - b)

/-- the rows an index expression denotes (1-based), in the order it enumerates them: what `csg_imc_solve` writes into one table -/
def selectRows [Inhabited α] (idx : List Nat) (x : List α) : List α := idx.map fun i => x.getD (i - 1) default

/-- do the index lists name every row `1..n` exactly once? -/
def isPartition (n : Nat) (idxs : List (List Nat)) : Bool :=
  (List.range n).all fun i => (idxs.flatten.count (i + 1)) == 1 && idxs.flatten.length == n

/-- consecutive ranges covering `1..n` -/
def consecutive : Nat → List (Nat × Nat) → Bool
  | next, [] => next != 0
  | next, (b, e) :: rest => b == next && b ≤ e && consecutive (e + 1) rest

/-- exact solution of a square system by Gauss–Jordan elimination (`none` when singular) -/
def eliminate : Nat → Mat → Option Mat
  | 0, M => some M
  | k + 1, M =>
    let n := M.length
    let col := n - (k + 1)
    match (List.range n).find? (fun i => col ≤ i && (M.getD i []).getD col 0 != 0) with
    | none => none
    | some p =>
      let rowP := M.getD p []
      let rowC := M.getD col []
      let M1 := (M.set p rowC).set col rowP
      let piv := rowP.getD col 0
      let prow := rowP.map (· / piv)
      let M2 := (List.range n).map fun i =>
        if i == col then prow else
          let ri := M1.getD i []
          let f := ri.getD col 0
          (ri.zip prow).map fun (a, c) => a - f * c
      eliminate k M2

def solve (M : Mat) (rhs : Vec) : Option Vec :=
  let aug := (M.zip rhs).map fun (row, y) => row ++ [y]
  (eliminate M.length aug).map fun R => R.map fun row => row.getLastD 0

/-- `AᵀA + r·1` -/
def regularised (A : Mat) (r : Rat) : Mat :=
  let At := transpose A
  (List.range At.length).map fun i => (List.range At.length).map fun j =>
    dot (At.getD i []) (At.getD j []) + (if i == j then r else 0)

def imcSolve (A : Mat) (b : Vec) (r : Rat) : Option Vec :=
  solve (regularised A r) (vscale (-1) (mulVec (transpose A) b))

/-! ## KKT conditions of the constrained least-squares problem -/

/-- stationarity residual `Aᵀ(Ax - b) - Bᵀλ` -/
def kktStationarity (A : Mat) (b : Vec) (B : Mat) (x lam : Vec) : Vec :=
  vsub (mulVec (transpose A) (vsub (mulVec A x) b)) (mulVec (transpose B) lam)

/-- feasibility residual `Bx` -/
def kktFeasibility (B : Mat) (x : Vec) : Vec := mulVec B x

end Votca.C06
