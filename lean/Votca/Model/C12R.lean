import Votca.Model.C06F
/-! # C12 — executable model of `csg_resample` in interpolation mode (csg/src/tools/csg_resample.cc): read a table, build a
linear / natural cubic / Akima (natural or periodic end slopes) spline through it, evaluate value and derivative on the
output grid `Table::GenerateGridSpacing(min, max, step)`, carry the point flags.  Composes the C12 piece functions with the
exact tridiagonal solve of the natural cubic system.  Core Lean only. -/
namespace Votca.C12R
open Votca Votca.C12

/-- `Table::GenerateGridSpacing`: `n = (Index)((max - min)/step + 1.00000001)` points, the spacing rescaled to
`(max - min)/(n - 1)` so that the last point is `max` -/
def outGrid (mn mx step : Rat) : List Rat :=
  let n := ((mx - mn) / step + 100000001 / 100000000).floor.toNat
  let h := (mx - mn) / ((n : Rat) - 1)
  (List.range (n - 1)).map (fun (i : Nat) => mn + (i : Rat) * h) ++ [mx]

/-- Akima slopes at all knots, end slopes as `AkimaSpline::Interpolate` builds them (natural: two points extrapolated by a
parabola on each side; periodic: slopes taken around the ends) -/
def akimaSlopes (periodic : Bool) (xs ys : List Rat) : List Rat :=
  let n := xs.length
  let x := nth xs
  let y := nth ys
  let m := fun (k : Nat) => (y (k + 1) - y k) / (x (k + 1) - x k)
  let interior := fun (i : Nat) => akimaInteriorSlope xs ys i
  if periodic then
    -- the last point is the periodic image of the first: in front of the first point lie the last intervals, behind the last point
    -- the first ones; both ends carry the same slope
    let t0 := getSlope (m (n - 3)) (m (n - 2)) (m 0) (m 1)
    let t1 := getSlope (m (n - 2)) (m 0) (m 1) (m 2)
    let tn2 := getSlope (m (n - 4)) (m (n - 3)) (m (n - 2)) (m 0)
    (List.range n).map fun i => if i == 0 then t0 else if i == 1 then t1 else if i + 2 == n then tn2 else if i + 1 == n then t0 else interior i
  else
    -- left end
    let temp := ((x 1 - x 0) / (x 2 - x 0)) * ((x 1 - x 0) / (x 2 - x 0))
    let g0 := y 0
    let g1 := ((y 1 - y 0) - temp * (y 2 - y 0)) / ((x 1 - x 0) - temp * (x 2 - x 0))
    let g2 := ((y 2 - y 0) - g1 * (x 2 - x 0)) / ((x 2 - x 0) * (x 2 - x 0))
    let x1 := x 0 - (x 2 - x 0)
    let x2 := x 1 - (x 2 - x 0)
    let y1 := g0 + g1 * (x1 - x 0) + g2 * (x1 - x 0) * (x1 - x 0)
    let y2 := g0 + g1 * (x2 - x 0) + g2 * (x2 - x 0) * (x2 - x 0)
    let ma := (y2 - y1) / (x2 - x1)
    let mb := (y 0 - y2) / (x 0 - x2)
    let t0 := getSlope ma mb (m 0) (m 1)
    let t1 := getSlope mb (m 0) (m 1) (m 2)
    -- right end
    let tempR := ((x (n - 2) - x (n - 1)) / (x (n - 3) - x (n - 1))) * ((x (n - 2) - x (n - 1)) / (x (n - 3) - x (n - 1)))
    let h0 := y (n - 1)
    let h1 := ((y (n - 2) - y (n - 1)) - tempR * (y (n - 3) - y (n - 1))) / ((x (n - 2) - x (n - 1)) - tempR * (x (n - 3) - x (n - 1)))
    let h2 := ((y (n - 3) - y (n - 1)) - h1 * (x (n - 3) - x (n - 1))) / ((x (n - 3) - x (n - 1)) * (x (n - 3) - x (n - 1)))
    let x4 := x (n - 2) + (x (n - 1) - x (n - 3))
    let x5 := x (n - 1) + (x (n - 1) - x (n - 3))
    let y4 := h0 + h1 * (x4 - x (n - 1)) + h2 * (x4 - x (n - 1)) * (x4 - x (n - 1))
    let y5 := h0 + h1 * (x5 - x (n - 1)) + h2 * (x5 - x (n - 1)) * (x5 - x (n - 1))
    let m4 := (y4 - y (n - 1)) / (x4 - x (n - 1))
    let m5 := (y5 - y4) / (x5 - x4)
    let tn2 := getSlope (m (n - 4)) (m (n - 3)) (m (n - 2)) m4
    let tn1 := getSlope (m (n - 3)) (m (n - 2)) m4 m5
    (List.range n).map fun i => if i == 0 then t0 else if i == 1 then t1 else if i + 2 == n then tn2 else if i + 1 == n then tn1 else interior i

inductive Kind | linear | cubic | akima
  deriving Repr, BEq

/-- value and derivative of the chosen spline at `r` -/
def eval (k : Kind) (periodic : Bool) (xs ys : List Rat) : Option (Rat → Rat × Rat) :=
  match k with
  | .linear => some fun r => (linCalc xs ys r, linDeriv xs ys r)
  | .akima => let ts := akimaSlopes periodic xs ys; some fun r => (akimaCalc xs ys ts r, akimaDeriv xs ys ts r)
  | .cubic => (C06F.naturalF2 xs ys).map fun f2 => fun r => (cubicCalc xs ys f2 r, cubicDeriv xs ys f2 r)

/-- flags of the output points: points left of the first input point and right of the last keep `o`; the others take the
flag of the first input point that is not left of them (up to 1e-12) -/
def outFlags (xin : List Rat) (fin : List Char) (xout : List Rat) : List Char :=
  xout.map fun xo =>
    if xo < nth xin 0 - 1 / 1000000000000 then 'o' else   -- (the code compares doubles; grid points that coincide with the first abscissa up to rounding count as on it)
    match (xin.zip fin).find? fun (xi, _) => xi ≥ xo || absRat (xi - xo) < 1 / 1000000000000 with
    | some (_, f) => f
    | none => 'o'

end Votca.C12R
