import Votca.Base.Util
/-! # C16 — executable model of the breadth-first distance labelling (tools GraphDistVisitor + Graph_BF_Visitor):
a FIFO of edges; a popped edge whose far end is unexplored explores it with Dist = Dist(near) + 1 and pushes the far end's
edges to unexplored neighbours.  `adj v` may be in ANY order (it stands for the unordered containers of the code).
Core Lean only. -/
namespace Votca.C16

structure St where
  dist : Nat → Option Nat
  queue : List (Nat × Nat)      -- (explored end, other end), oldest first

def pushes (adj : Nat → List Nat) (dist : Nat → Option Nat) (w : Nat) : List (Nat × Nat) :=
  ((adj w).filter (fun x => (dist x).isNone)).map (fun x => (w, x))

def init (adj : Nat → List Nat) (s : Nat) : St :=
  let d0 : Nat → Option Nat := fun v => if v = s then some 0 else none
  { dist := d0, queue := pushes adj d0 s }

def explore (adj : Nat → List Nat) (st : St) (u w : Nat) (rest : List (Nat × Nat)) : St :=
  { dist := fun v => if v = w then some ((st.dist u).getD 0 + 1) else st.dist v,
    queue := rest ++ pushes adj st.dist w }

def step (adj : Nat → List Nat) (st : St) : Option St :=
  match st.queue with
  | [] => none
  | (u, w) :: rest =>
    match st.dist w with
    | some _ => some { st with queue := rest }
    | none => some (explore adj st u w rest)

/-- run at most `fuel` steps -/
def run (adj : Nat → List Nat) : Nat → St → St
  | 0, st => st
  | k + 1, st => match step adj st with
    | some st' => run adj k st'
    | none => st


/-- connected components by repeated labelling: vertices `0..n-1`, returns the list of explored sets in order of discovery -/
def components (adj : Nat → List Nat) (n fuel : Nat) : List (List Nat) :=
  (List.range n).foldl (fun acc s =>
    if acc.any (fun c => c.contains s) then acc
    else
      let d := (run adj fuel (init adj s)).dist
      acc ++ [(List.range n).filter (fun v => (d v).isSome)]) []

/-! ## structure id (`findStructureId<GraphDistVisitor>` + `Graph::calcId_` + `GraphNode::initStringId_`)

Every vertex of maximal degree is tried as the start of a distance labelling; the id of one labelling is the concatenation of the
SORTED node strings (label of the node with its `Dist` entry in front, when it was reached); the largest id wins.  Generic in the
key type `β`, the comparison used by the sort, the concatenation `cat` and the choice `pick`, so that the theorems hold for any of
them; `structIdStr` is the instance the code uses. -/

def idKeys {β : Type} (key : String → Option Nat → β) (adj : Nat → List Nat) (verts : List Nat) (lab : Nat → String)
    (fuel s : Nat) : List β :=
  let d := (run adj fuel (init adj s)).dist
  verts.map fun v => key (lab v) (d v)

def maxDeg (adj : Nat → List Nat) (verts : List Nat) : Nat := (verts.map fun v => (adj v).length).foldl max 0

def starts (adj : Nat → List Nat) (verts : List Nat) : List Nat :=
  verts.filter fun v => (adj v).length == maxDeg adj verts

def structId {β γ : Type} (key : String → Option Nat → β) (le : β → β → Bool) (cat : List β → γ) (pick : γ → γ → γ) (e : γ)
    (adj : Nat → List Nat) (verts : List Nat) (lab : Nat → String) (fuel : Nat) : γ :=
  ((starts adj verts).map fun s => cat ((idKeys key adj verts lab fuel s).mergeSort le)).foldl pick e

/-- `GraphNode::getStringId` after the visitor stored `Dist`: integer entries come first -/
def nodeKey (lab : String) (d : Option Nat) : String :=
  match d with
  | some k => "Dist" ++ toString k ++ lab
  | none => lab

def pickStr (a b : String) : String := if a < b then b else a

def structIdStr (adj : Nat → List Nat) (verts : List Nat) (lab : Nat → String) (fuel : Nat) : String :=
  structId nodeKey (fun a b => decide (a ≤ b)) String.join pickStr "" adj verts lab fuel

end Votca.C16
