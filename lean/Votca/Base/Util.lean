/-! Core-only utilities shared by the executable models and the line-protocol driver. -/
namespace Votca

/-- outcome of one protocol line -/
structure Verdict where
  agree  : Bool := true      -- model output = implementation output
  propOk : Bool := true      -- property predicate holds on the implementation output
  msg    : String := ""
  tag    : String := ""      -- input-distribution bucket
  deriving Repr

def hexVal (c : Char) : Option Nat :=
  if '0' ≤ c ∧ c ≤ '9' then some (c.toNat - '0'.toNat)
  else if 'a' ≤ c ∧ c ≤ 'f' then some (c.toNat - 'a'.toNat + 10)
  else if 'A' ≤ c ∧ c ≤ 'F' then some (c.toNat - 'A'.toNat + 10)
  else none

/-- decode a hex string into bytes-as-chars; "-" stands for the empty string -/
def unhexList : List Char → Option (List Char)
  | [] => some []
  | [_] => none
  | a :: b :: rest => do
    let x ← hexVal a
    let y ← hexVal b
    let r ← unhexList rest
    pure (Char.ofNat (16 * x + y) :: r)

def unhex (s : String) : Option (List Char) :=
  if s = "-" then some [] else unhexList s.toList

def hexDigit (n : Nat) : Char :=
  if n < 10 then Char.ofNat ('0'.toNat + n) else Char.ofNat ('a'.toNat + n - 10)

def hex (l : List Char) : String :=
  if l.isEmpty then "-" else
  String.ofList (l.foldr (fun c acc => hexDigit (c.toNat / 16) :: hexDigit (c.toNat % 16) :: acc) [])

/-- `m · 2^e` as an exact rational (every finite double is one of these) -/
def dyadic (m e : Int) : Rat :=
  if e ≥ 0 then (m : Rat) * (2 : Rat) ^ e.toNat else (m : Rat) / (2 : Rat) ^ (-e).toNat

def parseRat2 (m e : String) : Option Rat := do
  let a ← m.toInt?
  let b ← e.toInt?
  pure (dyadic a b)

def intsToString (l : List Int) : String :=
  " ".intercalate (l.map toString)

def parseInts (l : List String) : Option (List Int) := l.mapM (·.toInt?)

def absRat (x : Rat) : Rat := if x < 0 then -x else x

end Votca
