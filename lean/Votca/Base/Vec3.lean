import Votca.Base.Util
/-! exact-rational 3-vectors and 3×3 boxes (columns are the box vectors), core Lean only -/
namespace Votca

structure V3 where
  (x y z : Rat)
  deriving DecidableEq, Repr

namespace V3
def add (a b : V3) : V3 := ⟨a.x + b.x, a.y + b.y, a.z + b.z⟩
def sub (a b : V3) : V3 := ⟨a.x - b.x, a.y - b.y, a.z - b.z⟩
def neg (a : V3) : V3 := ⟨-a.x, -a.y, -a.z⟩
def smul (k : Rat) (a : V3) : V3 := ⟨k * a.x, k * a.y, k * a.z⟩
def dot (a b : V3) : Rat := a.x * b.x + a.y * b.y + a.z * b.z
def cross (a b : V3) : V3 := ⟨a.y * b.z - a.z * b.y, a.z * b.x - a.x * b.z, a.x * b.y - a.y * b.x⟩
def normSq (a : V3) : Rat := dot a a
def zero : V3 := ⟨0, 0, 0⟩
instance : Add V3 := ⟨add⟩
instance : Sub V3 := ⟨sub⟩
instance : Neg V3 := ⟨neg⟩
instance : HMul Rat V3 V3 := ⟨smul⟩
end V3

/-- box matrix given by its columns `a b c` (the three box vectors) -/
structure Box where
  (a b c : V3)
  deriving DecidableEq, Repr

namespace Box
def det (B : Box) : Rat := V3.dot B.a (V3.cross B.b B.c)
/-- `n_a a + n_b b + n_c c` -/
def lattice (B : Box) (na nb nc : Int) : V3 := ((na : Rat) * B.a) + ((nb : Rat) * B.b) + ((nc : Rat) * B.c)
def isZero (B : Box) : Bool := B.a == V3.zero && B.b == V3.zero && B.c == V3.zero
def isDiagonal (B : Box) : Bool :=
  B.a.y == 0 && B.a.z == 0 && B.b.x == 0 && B.b.z == 0 && B.c.x == 0 && B.c.y == 0
def isUpperTriangular (B : Box) : Bool := B.a.y == 0 && B.a.z == 0 && B.b.z == 0
end Box

/-- `std::round`: nearest integer, halves away from zero -/
def roundHA (x : Rat) : Int := if 0 ≤ x then (x + 1 / 2).floor else -((-x + 1 / 2).floor)

end Votca
