import Votca.Model.C07
import Votca.Gen.PotReal
import Mathlib.Analysis.SpecialFunctions.ExpDeriv
import Mathlib.Analysis.SpecialFunctions.Trigonometric.InverseDeriv
import Mathlib.Analysis.SpecialFunctions.Sqrt
import Mathlib.Tactic.Ring
import Mathlib.Tactic.FieldSimp
import Mathlib.Tactic.Linarith
/-! # C07 — calculus lemmas (over ℝ) behind the derivative theorems -/
namespace Votca.C07
open Real

/-- the point `a + t·d` -/
def line (a d : Vec ℝ) (t : ℝ) : Vec ℝ := ⟨a.x + t * d.x, a.y + t * d.y, a.z + t * d.z⟩

theorem line_zero (a d : Vec ℝ) : line a d 0 = a := by simp [line]

theorem hasDerivAt_dot_line (a d b : Vec ℝ) (t : ℝ) :
    HasDerivAt (fun t => (line a d t).dot b) (d.dot b) t := by
  have lin : ∀ (p q : ℝ), HasDerivAt (fun t : ℝ => p + t * q) q t := by
    intro p q; simpa using ((hasDerivAt_id t).mul_const q).const_add p
  have := (((lin a.x d.x).mul_const b.x).add ((lin a.y d.y).mul_const b.y)).add ((lin a.z d.z).mul_const b.z)
  exact this

theorem hasDerivAt_normSq_line (a d : Vec ℝ) :
    HasDerivAt (fun t => (line a d t).dot (line a d t)) (2 * a.dot d) 0 := by
  have lin : ∀ (p q : ℝ), HasDerivAt (fun t : ℝ => p + t * q) q 0 := by
    intro p q; simpa using ((hasDerivAt_id (0 : ℝ)).mul_const q).const_add p
  have := (((lin a.x d.x).mul (lin a.x d.x)).add ((lin a.y d.y).mul (lin a.y d.y))).add ((lin a.z d.z).mul (lin a.z d.z))
  have h2 : HasDerivAt (fun t => (line a d t).dot (line a d t))
      (d.x * (a.x + 0 * d.x) + (a.x + 0 * d.x) * d.x + (d.y * (a.y + 0 * d.y) + (a.y + 0 * d.y) * d.y) +
        (d.z * (a.z + 0 * d.z) + (a.z + 0 * d.z) * d.z)) 0 := this
  exact h2.congr_deriv (by simp [Vec.dot]; ring)

/-- the norm along a line: `d/dt |a + t d| = a·d / |a|` -/
theorem hasDerivAt_norm_line (a d : Vec ℝ) (ha : 0 < a.dot a) :
    HasDerivAt (fun t => sqrt ((line a d t).dot (line a d t))) (a.dot d / sqrt (a.dot a)) 0 := by
  have h := (hasDerivAt_normSq_line a d).sqrt (by rw [line_zero]; exact ha.ne')
  rw [line_zero] at h
  refine h.congr_deriv ?_
  have : sqrt (a.dot a) ≠ 0 := (sqrt_pos.2 ha).ne'
  field_simp

/-- the cosine between `a + t d` and a fixed `b`:
`d/dt = d·b/(|a||b|) - (a·b)(a·d)/(|a|³|b|)` -/
theorem hasDerivAt_cos_line (a d b : Vec ℝ) (ha : 0 < a.dot a) (hb : 0 < b.dot b) :
    HasDerivAt (fun t => (line a d t).dot b / (sqrt ((line a d t).dot (line a d t)) * sqrt (b.dot b)))
      (d.dot b / (sqrt (a.dot a) * sqrt (b.dot b)) -
        a.dot b * a.dot d / (sqrt (a.dot a) * sqrt (a.dot a) * sqrt (a.dot a) * sqrt (b.dot b))) 0 := by
  have hn1 : 0 < sqrt (a.dot a) := sqrt_pos.2 ha
  have hn2 : 0 < sqrt (b.dot b) := sqrt_pos.2 hb
  have hnum := hasDerivAt_dot_line a d b 0
  have hden := (hasDerivAt_norm_line a d ha).mul_const (sqrt (b.dot b))
  have hden0 : sqrt ((line a d 0).dot (line a d 0)) * sqrt (b.dot b) ≠ 0 := by
    rw [line_zero]; exact mul_ne_zero hn1.ne' hn2.ne'
  have hq := hnum.div hden hden0
  refine hq.congr_deriv ?_
  rw [line_zero]
  have hsq : sqrt (a.dot a) * sqrt (a.dot a) = a.dot a := mul_self_sqrt ha.le
  field_simp

/-- chain rule for `sign · arccos (g t)` with the code's factor `sign · (-1/s)`, `s = √(1 - g²)` -/
theorem hasDerivAt_sign_arccos (g : ℝ → ℝ) (g' t sign : ℝ) (hg : HasDerivAt g g' t) (h1 : g t ≠ -1) (h2 : g t ≠ 1) :
    HasDerivAt (fun t => sign * arccos (g t)) (sign * (-(1 / sqrt (1 - g t ^ 2))) * g') t := by
  have := ((Real.hasDerivAt_arccos h1 h2).comp t hg).const_mul sign
  refine this.congr_deriv ?_
  ring

/-- `f · exp ∘ g` -/
theorem hasDerivAt_mul_exp (f g : ℝ → ℝ) (f' g' x : ℝ) (hf : HasDerivAt f f' x) (hg : HasDerivAt g g' x) :
    HasDerivAt (fun x => f x * exp (g x)) (f' * exp (g x) + f x * (exp (g x) * g')) x :=
  hf.mul hg.exp

theorem hd_lin (a b x : ℝ) : HasDerivAt (fun x : ℝ => a * x + b) a x := by
  simpa using ((hasDerivAt_id x).const_mul a).add_const b

theorem hd_sq (c r x : ℝ) : HasDerivAt (fun x : ℝ => c * (r - x) * (r - x)) (-(2 * c * (r - x))) x := by
  have h1 : HasDerivAt (fun x : ℝ => r - x) (-1) x := by simpa using (hasDerivAt_id x).const_sub r
  have := ((h1.const_mul c).mul h1)
  refine this.congr_deriv ?_
  ring

/-- `C + f · exp ∘ g` -/
theorem hasDerivAt_gauss (C : ℝ) (f g : ℝ → ℝ) (f' g' x : ℝ) (hf : HasDerivAt f f' x) (hg : HasDerivAt g g' x) :
    HasDerivAt (fun x => C + f x * exp (g x)) (f' * exp (g x) + f x * (exp (g x) * g')) x :=
  (hasDerivAt_mul_exp f g f' g' x hf hg).const_add C

end Votca.C07
