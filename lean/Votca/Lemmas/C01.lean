import Votca.Model.C01
import Votca.Lemmas.Vec3
import Mathlib.Algebra.BigOperators.Group.List.Basic
import Mathlib.Tactic.Ring
import Mathlib.Tactic.Linarith
/-! # C01 — helper lemmas (component form of vector sums, running maximum) -/
namespace Votca.C01
open Votca Votca.C02

/-! ## component form of the vector sums -/

theorem vsum_foldl_x (l : List V3) (a : V3) : (l.foldl (· + ·) a).x = a.x + (l.map (·.x)).sum := by
  induction l generalizing a with
  | nil => simp
  | cons v vs ih => simp [List.foldl_cons, ih, add_assoc]
theorem vsum_foldl_y (l : List V3) (a : V3) : (l.foldl (· + ·) a).y = a.y + (l.map (·.y)).sum := by
  induction l generalizing a with
  | nil => simp
  | cons v vs ih => simp [List.foldl_cons, ih, add_assoc]
theorem vsum_foldl_z (l : List V3) (a : V3) : (l.foldl (· + ·) a).z = a.z + (l.map (·.z)).sum := by
  induction l generalizing a with
  | nil => simp
  | cons v vs ih => simp [List.foldl_cons, ih, add_assoc]

theorem vsum_x (l : List V3) : (vsum l).x = (l.map (·.x)).sum := by simp [vsum, vsum_foldl_x, V3.zero]
theorem vsum_y (l : List V3) : (vsum l).y = (l.map (·.y)).sum := by simp [vsum, vsum_foldl_y, V3.zero]
theorem vsum_z (l : List V3) : (vsum l).z = (l.map (·.z)).sum := by simp [vsum, vsum_foldl_z, V3.zero]

theorem sum_map_mul_right (l : List Rat) (c : Rat) : (l.map (· * c)).sum = l.sum * c := by
  induction l with
  | nil => simp
  | cons y ys ih => simp [ih]; ring

/-- the running maximum dominates every parent's squared distance -/
theorem le_foldl_max (l : List V3) (m : Rat) :
    m ≤ l.foldl (fun m r => if m < r.normSq then r.normSq else m) m ∧
    ∀ r ∈ l, r.normSq ≤ l.foldl (fun m r => if m < r.normSq then r.normSq else m) m := by
  induction l generalizing m with
  | nil => simp
  | cons v vs ih =>
    simp only [List.foldl_cons]
    by_cases hc : m < v.normSq
    · simp only [hc, if_true]
      obtain ⟨a, b⟩ := ih v.normSq
      refine ⟨by linarith, fun r hr => ?_⟩
      rcases List.mem_cons.1 hr with rfl | hr
      · exact a
      · exact b r hr
    · simp only [hc, if_false]
      obtain ⟨a, b⟩ := ih m
      refine ⟨a, fun r hr => ?_⟩
      rcases List.mem_cons.1 hr with rfl | hr
      · linarith
      · exact b r hr

end Votca.C01
