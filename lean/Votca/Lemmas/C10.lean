import Votca.Model.C10
import Mathlib.Logic.Function.Basic
import Mathlib.Tactic.Linarith
/-! # C10 — the 15-clause invariant of the exclusive-lock protocol (lock uniqueness, well-formed records, unique self-claims, disk
claims are true claims, claims are published outside the claimer's critical section, the merged view covers all foreign claims,
cache/exec bookkeeping), stated for the transition function written with `Function.update` (`U.step`). -/
namespace Votca.C10.U
open Votca.C10 Votca.C10.PC Votca.C10.Status

/-- UPDATE_JOBS: take the external record when it is owned by another host -/
def merge (p : Nat) (ext mem : Nat → Job) : Nat → Job :=
  fun j => match (ext j).host with
    | some q => if q ≠ p then ext j else mem j
    | none => mem j

/-- the assignment loop of SyncWithProgFile: scan from `mpos`, fill the cache up to `c` -/
def assign (p c J : Nat) : Nat → (Nat → Job) → Nat → List Nat → (Nat → Job) × Nat × List Nat
  | 0, mem, mpos, cache => (mem, mpos, cache)
  | fuel + 1, mem, mpos, cache =>
    if cache.length < c ∧ mpos < J then
      if (mem mpos).status = avail then
        assign p c J fuel (Function.update mem mpos ⟨assigned, some p⟩) (mpos + 1) (cache ++ [mpos])
      else assign p c J fuel mem (mpos + 1) cache
    else (mem, mpos, cache)

def setP (s : S) (p : Nat) (x : Proc) : S := { s with proc := Function.update s.proc p x }

def step (mode : Mode) (c J : Nat) (s : S) (p : Nat) : Option S :=
  let x := s.proc p
  match x.pc with
  | idle =>
    match x.cache with
    | j :: rest => some (setP s p { x with cache := rest, pc := exec j })
    | [] => if x.more then some (setP s p { x with pc := wantLock })
            else some (setP s p { x with fin := true, pc := wantLock })
  | wantLock =>
    match mode with
    | Mode.exclusive => if s.lock = [] then some { setP s p { x with pc := locked } with lock := [p] } else none
    | Mode.shared => some { setP s p { x with pc := locked } with lock := p :: s.lock }
  | locked => some (setP s p { x with mem := merge p s.disk x.mem, pc := merged })
  | merged => some { setP s p { x with pc := backedUp } with bak := x.mem }
  | backedUp =>
    let r := assign p c J J x.mem x.mpos []
    some (setP s p { x with mem := r.1, mpos := r.2.1, cache := r.2.2, pc := assignedSt })
  | assignedSt => some { setP s p { x with pc := written } with disk := x.mem }
  | written => some { setP s p { x with pc := unlocked } with lock := s.lock.erase p }
  | unlocked =>
    if x.fin then some (setP s p { x with pc := done })
    else some (setP s p { x with more := (if x.cache = [] then false else x.more), pc := idle })
  | exec j => some { setP s p { x with mem := Function.update x.mem j ⟨complete, some p⟩, pc := idle }
                      with execLog := s.execLog ++ [(p, j)] }
  | done => none

def run (mode : Mode) (P c J : Nat) : S → List Nat → S
  | s, [] => s
  | s, p :: rest => match (if p < P then step mode c J s p else none) with
    | some s' => run mode P c J s' rest
    | none => run mode P c J s rest

/-- with the SHARED lock of the current code, two processes both execute job 0 -/
theorem shared_lock_double_assignment :
    ∃ sched : List Nat, ¬ (jobsRun (run Mode.shared 2 1 1 init sched)).Nodup :=
  ⟨[0,0,0, 1,1,1, 0,0,0,0,0,0,0, 1,1,1,1,1,1,1], by decide⟩


/-! ### the assignment loop -/
theorem assign_spec (p c J : Nat) : ∀ (fuel : Nat) (mem : Nat → Job) (mpos : Nat) (cache : List Nat),
    let r := assign p c J fuel mem mpos cache
    (∀ j, r.1 j = mem j ∨ ((mem j).status = avail ∧ r.1 j = ⟨assigned, some p⟩ ∧ j ∈ r.2.2 ∧ mpos ≤ j)) ∧
    (∀ j, j ∈ r.2.2 → j ∈ cache ∨ ((mem j).status = avail ∧ r.1 j = ⟨assigned, some p⟩ ∧ mpos ≤ j)) ∧
    (∀ j, j ∈ cache → j ∈ r.2.2) ∧
    (cache.Pairwise (· < ·) → (∀ j, j ∈ cache → j < mpos) → r.2.2.Pairwise (· < ·)) := by
  intro fuel
  induction fuel with
  | zero =>
    intro mem mpos cache
    exact ⟨fun j => Or.inl rfl, fun j hj => Or.inl hj, fun j hj => hj, fun hp _ => hp⟩
  | succ fuel ih =>
    intro mem mpos cache
    unfold assign
    by_cases hc : cache.length < c ∧ mpos < J
    · simp only [hc, and_self, if_true]
      by_cases ha : (mem mpos).status = avail
      · simp only [ha, if_true]
        obtain ⟨h1, h2, h3, h4⟩ := ih (Function.update mem mpos ⟨assigned, some p⟩) (mpos + 1) (cache ++ [mpos])
        refine ⟨?_, ?_, ?_, ?_⟩
        · intro j
          by_cases ej : j = mpos
          · subst ej
            right
            rcases h1 j with e | ⟨e, _⟩
            · refine ⟨ha, by rw [e]; simp [Function.update], h3 j (by simp), Nat.le_refl _⟩
            · simp [Function.update] at e
          · rcases h1 j with e | ⟨e1, e2, e3, e4⟩
            · left; rw [e]; simp [Function.update, ej]
            · right; simp [Function.update, ej] at e1; exact ⟨e1, e2, e3, by omega⟩
        · intro j hj
          rcases h2 j hj with e | ⟨e1, e2, e3⟩
          · rcases List.mem_append.1 e with e | e
            · exact Or.inl e
            · simp at e; subst e
              right
              rcases h1 j with e | ⟨e, _⟩
              · exact ⟨ha, by rw [e]; simp [Function.update], Nat.le_refl _⟩
              · simp [Function.update] at e
          · right
            by_cases ej : j = mpos
            · omega
            · simp [Function.update, ej] at e1; exact ⟨e1, e2, by omega⟩
        · intro j hj; exact h3 j (by simp [hj])
        · intro hp hlt
          apply h4
          · rw [List.pairwise_append]
            refine ⟨hp, by simp, ?_⟩
            intro a haa b hb; simp at hb; subst hb; exact hlt a haa
          · intro j hj
            rcases List.mem_append.1 hj with e | e
            · have := hlt j e; omega
            · simp at e; omega
      · simp only [ha, if_false]
        obtain ⟨h1, h2, h3, h4⟩ := ih mem (mpos + 1) cache
        refine ⟨?_, ?_, h3, ?_⟩
        · intro j
          rcases h1 j with e | ⟨e1, e2, e3, e4⟩
          · exact Or.inl e
          · exact Or.inr ⟨e1, e2, e3, by omega⟩
        · intro j hj
          rcases h2 j hj with e | ⟨e1, e2, e3⟩
          · exact Or.inl e
          · exact Or.inr ⟨e1, e2, by omega⟩
        · intro hp hlt; exact h4 hp (fun j hj => by have := hlt j hj; omega)
    · rw [if_neg hc]
      exact ⟨fun j => Or.inl rfl, fun j hj => Or.inl hj, fun j hj => hj, fun hp _ => hp⟩


/-! ### invariant for the EXCLUSIVE lock -/
def Crit : PC → Prop | locked | merged | backedUp | assignedSt | written => True | _ => False
def K8pc : PC → Prop | merged | backedUp | assignedSt => True | _ => False

theorem setP_self (s : S) (p : Nat) (x : Proc) : (setP s p x).proc p = x := by simp [setP, Function.update]
theorem setP_ne (s : S) (p q : Nat) (x : Proc) (h : q ≠ p) : (setP s p x).proc q = s.proc q := by
  simp [setP, Function.update, h]

structure Inv (s : S) : Prop where
  l1 : ∀ p q, p ∈ s.lock → q ∈ s.lock → p = q
  l1' : s.lock.Nodup
  l2 : ∀ p, Crit (s.proc p).pc ↔ p ∈ s.lock
  wfm : ∀ p j q, ((s.proc p).mem j).host = some q → ((s.proc p).mem j).status ≠ avail
  wfd : ∀ j q, (s.disk j).host = some q → (s.disk j).status ≠ avail
  k2 : ∀ p q j, ((s.proc p).mem j).host = some p → ((s.proc q).mem j).host = some q → p = q
  k3 : ∀ j q, (s.disk j).host = some q → ((s.proc q).mem j).host = some q
  k4 : ∀ p j q, ((s.proc p).mem j).host = some q → ((s.proc q).mem j).host = some q
  k5 : ∀ p j, ((s.proc p).mem j).host = some p → (s.disk j).host = some p ∨ (s.proc p).pc = assignedSt
  k8 : ∀ r, K8pc (s.proc r).pc → ∀ j p, p ≠ r → (s.disk j).host = some p → ((s.proc r).mem j).host = some p
  k9 : ∀ p j, j ∈ (s.proc p).cache → (s.proc p).mem j = ⟨assigned, some p⟩
  k9' : ∀ p, (s.proc p).cache.Nodup
  k10 : ∀ p j, (p, j) ∈ s.execLog → (s.proc p).mem j = ⟨complete, some p⟩
  k11 : ∀ p j, (s.proc p).pc = exec j → (s.proc p).mem j = ⟨assigned, some p⟩ ∧ j ∉ (s.proc p).cache
  nd : (jobsRun s).Nodup

theorem inv_init : Inv init := by
  refine ⟨?_, ?_, ?_, ?_, ?_, ?_, ?_, ?_, ?_, ?_, ?_, ?_, ?_, ?_, ?_⟩ <;>
    simp [init, initJob, Crit, K8pc, jobsRun]

/-- frame lemma: a step of process p that keeps every mem, cache, the disk and the log;
    the new lock facts are supplied by the caller -/
theorem inv_frame (s s' : S) (p : Nat) (h : Inv s)
    (hq : ∀ q, q ≠ p → s'.proc q = s.proc q)
    (em : (s'.proc p).mem = (s.proc p).mem) (ec : (s'.proc p).cache = (s.proc p).cache)
    (hd : s'.disk = s.disk) (hlg : s'.execLog = s.execLog)
    (L1 : ∀ a b, a ∈ s'.lock → b ∈ s'.lock → a = b) (L1' : s'.lock.Nodup)
    (L2 : ∀ q, Crit (s'.proc q).pc ↔ q ∈ s'.lock)
    (c2 : K8pc (s'.proc p).pc → K8pc (s.proc p).pc)
    (c3 : (s.proc p).pc = assignedSt → (s'.proc p).pc = assignedSt)
    (c4 : ∀ j, (s'.proc p).pc = exec j → (s.proc p).pc = exec j) : Inv s' := by
  have memEq : ∀ q, (s'.proc q).mem = (s.proc q).mem := by
    intro q; by_cases e : q = p
    · subst e; exact em
    · rw [hq q e]
  have cacheEq : ∀ q, (s'.proc q).cache = (s.proc q).cache := by
    intro q; by_cases e : q = p
    · subst e; exact ec
    · rw [hq q e]
  refine ⟨L1, L1', L2, ?_, ?_, ?_, ?_, ?_, ?_, ?_, ?_, ?_, ?_, ?_, ?_⟩
  · intro q j r; rw [memEq]; exact h.wfm q j r
  · rw [hd]; exact h.wfd
  · intro a b j; rw [memEq, memEq]; exact h.k2 a b j
  · intro j q; rw [memEq, hd]; exact h.k3 j q
  · intro a j q; rw [memEq, memEq]; exact h.k4 a j q
  · intro a j ha
    rw [memEq] at ha; rw [hd]
    rcases h.k5 a j ha with x | x
    · exact Or.inl x
    · right
      by_cases e : a = p
      · subst e; exact c3 x
      · rw [hq a e]; exact x
  · intro r hr j q hq' hdk
    rw [memEq]; rw [hd] at hdk
    apply h.k8 r _ j q hq' hdk
    by_cases e : r = p
    · subst e; exact c2 hr
    · rw [hq r e] at hr; exact hr
  · intro a j ha; rw [cacheEq] at ha; rw [memEq]; exact h.k9 a j ha
  · intro a; rw [cacheEq]; exact h.k9' a
  · intro a j ha; rw [hlg] at ha; rw [memEq]; exact h.k10 a j ha
  · intro a j ha
    rw [memEq, cacheEq]
    apply h.k11 a j
    by_cases e : a = p
    · subst e; exact c4 j ha
    · rw [hq a e] at ha; exact ha
  · show (s'.execLog.map Prod.snd).Nodup; rw [hlg]; exact h.nd

theorem crit_unique (s : S) (h : Inv s) (a b : Nat) (ha : Crit (s.proc a).pc) (hb : Crit (s.proc b).pc) : a = b :=
  h.l1 a b ((h.l2 a).1 ha) ((h.l2 b).1 hb)

/-- lock facts are unchanged when p's pc stays on the same side of the critical section -/
theorem lock_same (s s' : S) (p : Nat) (h : Inv s) (hq : ∀ q, q ≠ p → s'.proc q = s.proc q)
    (hl : s'.lock = s.lock) (c1 : Crit (s'.proc p).pc ↔ Crit (s.proc p).pc) :
    (∀ a b, a ∈ s'.lock → b ∈ s'.lock → a = b) ∧ s'.lock.Nodup ∧ (∀ q, Crit (s'.proc q).pc ↔ q ∈ s'.lock) := by
  refine ⟨by rw [hl]; exact h.l1, by rw [hl]; exact h.l1', ?_⟩
  intro q; rw [hl]
  by_cases e : q = p
  · subst e; rw [c1]; exact h.l2 q
  · rw [hq q e]; exact h.l2 q

/-- idle → exec j : pop the next cached job -/
theorem inv_pop (s s' : S) (p j : Nat) (rest : List Nat) (h : Inv s) (hpc : (s.proc p).pc = idle)
    (hc : (s.proc p).cache = j :: rest)
    (hq : ∀ q, q ≠ p → s'.proc q = s.proc q)
    (em : (s'.proc p).mem = (s.proc p).mem) (ec : (s'.proc p).cache = rest) (epc : (s'.proc p).pc = exec j)
    (hd : s'.disk = s.disk) (hlg : s'.execLog = s.execLog) (hl : s'.lock = s.lock) : Inv s' := by
  have memEq : ∀ q, (s'.proc q).mem = (s.proc q).mem := by
    intro q; by_cases e : q = p
    · subst e; exact em
    · rw [hq q e]
  have hnd := h.k9' p; rw [hc] at hnd
  obtain ⟨L1, L1', L2⟩ := lock_same s s' p h hq hl (by rw [epc, hpc]; simp [Crit])
  refine ⟨L1, L1', L2, ?_, ?_, ?_, ?_, ?_, ?_, ?_, ?_, ?_, ?_, ?_, ?_⟩
  · intro q j' r; rw [memEq]; exact h.wfm q j' r
  · rw [hd]; exact h.wfd
  · intro a b j'; rw [memEq, memEq]; exact h.k2 a b j'
  · intro j' q; rw [memEq, hd]; exact h.k3 j' q
  · intro a j' q; rw [memEq, memEq]; exact h.k4 a j' q
  · intro a j' ha
    rw [memEq] at ha; rw [hd]
    rcases h.k5 a j' ha with x | x
    · exact Or.inl x
    · by_cases e : a = p
      · subst e; rw [hpc] at x; cases x
      · right; rw [hq a e]; exact x
  · intro r hr j' q hq' hdk
    rw [memEq]; rw [hd] at hdk
    by_cases e : r = p
    · subst e; rw [epc] at hr; simp [K8pc] at hr
    · rw [hq r e] at hr; exact h.k8 r hr j' q hq' hdk
  · intro a j' ha
    rw [memEq]
    by_cases e : a = p
    · subst e; rw [ec] at ha; exact h.k9 a j' (by rw [hc]; simp [ha])
    · rw [hq a e] at ha; exact h.k9 a j' ha
  · intro a; by_cases e : a = p
    · subst e; rw [ec]; exact (List.nodup_cons.1 hnd).2
    · rw [hq a e]; exact h.k9' a
  · intro a j' ha; rw [hlg] at ha; rw [memEq]; exact h.k10 a j' ha
  · intro a j' ha
    rw [memEq]
    by_cases e : a = p
    · subst e; rw [epc] at ha; rw [ec]
      simp at ha; subst ha
      exact ⟨h.k9 a j (by rw [hc]; simp), (List.nodup_cons.1 hnd).1⟩
    · rw [hq a e] at ha ⊢; exact h.k11 a j' ha
  · show (s'.execLog.map Prod.snd).Nodup; rw [hlg]; exact h.nd


theorem merge_cases (p : Nat) (ext mem : Nat → Job) (j : Nat) :
    merge p ext mem j = mem j ∨ (∃ q, q ≠ p ∧ (ext j).host = some q ∧ merge p ext mem j = ext j) := by
  unfold merge
  cases hh : (ext j).host with
  | none => simp
  | some q =>
    by_cases e : q = p
    · simp [e]
    · right; exact ⟨q, e, rfl, by simp [e]⟩

theorem merge_other (p : Nat) (ext mem : Nat → Job) (j q : Nat) (hq : q ≠ p) (h : (ext j).host = some q) :
    merge p ext mem j = ext j := by
  unfold merge; rw [h]; simp [hq]

/-- locked → merged : UPDATE_JOBS -/
theorem inv_merge (s s' : S) (p : Nat) (h : Inv s) (hpc : (s.proc p).pc = locked)
    (hq : ∀ q, q ≠ p → s'.proc q = s.proc q)
    (em : (s'.proc p).mem = merge p s.disk (s.proc p).mem) (ec : (s'.proc p).cache = (s.proc p).cache)
    (epc : (s'.proc p).pc = merged)
    (hd : s'.disk = s.disk) (hlg : s'.execLog = s.execLog) (hl : s'.lock = s.lock) : Inv s' := by
  obtain ⟨L1, L1', L2⟩ := lock_same s s' p h hq hl (by rw [epc, hpc]; simp [Crit])
  -- own claims survive the merge
  have own : ∀ j, ((s.proc p).mem j).host = some p → merge p s.disk (s.proc p).mem j = (s.proc p).mem j := by
    intro j hj
    rcases merge_cases p s.disk (s.proc p).mem j with x | ⟨q, hqp, hdq, _⟩
    · exact x
    · exact absurd (h.k2 p q j hj (h.k3 j q hdq)).symm hqp
  have cacheEq : ∀ q, (s'.proc q).cache = (s.proc q).cache := by
    intro q; by_cases e : q = p
    · subst e; exact ec
    · rw [hq q e]
  -- host of p's new memory at j is either the old one or a foreign host from disk
  have newHost : ∀ j r, ((s'.proc p).mem j).host = some r →
      ((s.proc p).mem j).host = some r ∨ (r ≠ p ∧ (s.disk j).host = some r) := by
    intro j r hr
    rw [em] at hr
    rcases merge_cases p s.disk (s.proc p).mem j with x | ⟨q, hqp, hdq, x⟩
    · rw [x] at hr; exact Or.inl hr
    · rw [x, hdq] at hr; cases hr; exact Or.inr ⟨hqp, hdq⟩
  refine ⟨L1, L1', L2, ?_, ?_, ?_, ?_, ?_, ?_, ?_, ?_, ?_, ?_, ?_, ?_⟩
  · intro a j r hr
    by_cases e : a = p
    · subst e
      rw [em] at hr ⊢
      rcases merge_cases a s.disk (s.proc a).mem j with x | ⟨q, hqp, hdq, x⟩
      · rw [x] at hr ⊢; exact h.wfm a j r hr
      · rw [x] at hr ⊢; exact h.wfd j r hr
    · rw [hq a e] at hr ⊢; exact h.wfm a j r hr
  · rw [hd]; exact h.wfd
  · intro a b j ha hb
    have ha' : ((s.proc a).mem j).host = some a := by
      by_cases e : a = p
      · subst e
        rcases newHost j a ha with x | ⟨x, _⟩
        · exact x
        · exact absurd rfl x
      · rw [hq a e] at ha; exact ha
    have hb' : ((s.proc b).mem j).host = some b := by
      by_cases e : b = p
      · subst e
        rcases newHost j b hb with x | ⟨x, _⟩
        · exact x
        · exact absurd rfl x
      · rw [hq b e] at hb; exact hb
    exact h.k2 a b j ha' hb'
  · intro j q hdq
    rw [hd] at hdq
    by_cases e : q = p
    · subst e; rw [em, own j (h.k3 j q hdq)]; exact h.k3 j q hdq
    · rw [hq q e]; exact h.k3 j q hdq
  · intro a j q ha
    -- first: the claim recorded is a true claim in the OLD state
    have old : ((s.proc q).mem j).host = some q := by
      by_cases e : a = p
      · subst e
        rcases newHost j q ha with x | ⟨_, x⟩
        · exact h.k4 a j q x
        · exact h.k3 j q x
      · rw [hq a e] at ha; exact h.k4 a j q ha
    by_cases e : q = p
    · subst e; rw [em, own j old]; exact old
    · rw [hq q e]; exact old
  · intro a j ha
    rw [hd]
    by_cases e : a = p
    · subst e
      have ha' : ((s.proc a).mem j).host = some a := by
        rcases newHost j a ha with x | ⟨x, _⟩
        · exact x
        · exact absurd rfl x
      rcases h.k5 a j ha' with x | x
      · exact Or.inl x
      · rw [hpc] at x; cases x
    · rw [hq a e] at ha ⊢; exact h.k5 a j ha
  · intro r hr j q hqr hdq
    rw [hd] at hdq
    by_cases e : r = p
    · subst e; rw [em, merge_other r s.disk _ j q hqr hdq]; exact hdq
    · rw [hq r e] at hr ⊢; exact h.k8 r hr j q hqr hdq
  · intro a j ha
    rw [cacheEq] at ha
    by_cases e : a = p
    · subst e
      have := h.k9 a j ha
      rw [em, own j (by rw [this])]; exact this
    · rw [hq a e]; exact h.k9 a j ha
  · intro a; rw [cacheEq]; exact h.k9' a
  · intro a j ha
    rw [hlg] at ha
    by_cases e : a = p
    · subst e
      have := h.k10 a j ha
      rw [em, own j (by rw [this])]; exact this
    · rw [hq a e]; exact h.k10 a j ha
  · intro a j ha
    by_cases e : a = p
    · subst e; rw [epc] at ha; cases ha
    · rw [hq a e] at ha ⊢; exact h.k11 a j ha
  · show (s'.execLog.map Prod.snd).Nodup; rw [hlg]; exact h.nd

/-- backedUp → assignedSt : the assignment loop -/
theorem inv_assign (s s' : S) (p c J : Nat) (h : Inv s) (hpc : (s.proc p).pc = backedUp)
    (hq : ∀ q, q ≠ p → s'.proc q = s.proc q)
    (em : (s'.proc p).mem = (assign p c J J (s.proc p).mem (s.proc p).mpos []).1)
    (ec : (s'.proc p).cache = (assign p c J J (s.proc p).mem (s.proc p).mpos []).2.2)
    (epc : (s'.proc p).pc = assignedSt)
    (hd : s'.disk = s.disk) (hlg : s'.execLog = s.execLog) (hl : s'.lock = s.lock) : Inv s' := by
  obtain ⟨L1, L1', L2⟩ := lock_same s s' p h hq hl (by rw [epc, hpc]; simp [Crit])
  obtain ⟨A1, A2, _, A4⟩ := assign_spec p c J J (s.proc p).mem (s.proc p).mpos []
  have pcrit : Crit (s.proc p).pc := by rw [hpc]; simp [Crit]
  -- an entry that is not `avail` is untouched
  have keep : ∀ j, ((s.proc p).mem j).status ≠ avail → (s'.proc p).mem j = (s.proc p).mem j := by
    intro j hj; rw [em]
    rcases A1 j with x | ⟨x, _⟩
    · exact x
    · exact absurd x hj
  have keepHost : ∀ j r, ((s.proc p).mem j).host = some r → (s'.proc p).mem j = (s.proc p).mem j :=
    fun j r hr => keep j (h.wfm p j r hr)
  -- a changed entry is a fresh claim of p on a job nobody else claims
  have fresh : ∀ j, (s'.proc p).mem j ≠ (s.proc p).mem j →
      ((s.proc p).mem j).status = avail ∧ (s'.proc p).mem j = ⟨assigned, some p⟩ := by
    intro j hj; rw [em] at hj ⊢
    rcases A1 j with x | ⟨x1, x2, _⟩
    · exact absurd x hj
    · exact ⟨x1, x2⟩
  have noOther : ∀ j q, ((s.proc p).mem j).status = avail → q ≠ p → ((s.proc q).mem j).host ≠ some q := by
    intro j q hav hqp hcl
    rcases h.k5 q j hcl with x | x
    · have := h.k8 p (by rw [hpc]; simp [K8pc]) j q hqp x
      exact h.wfm p j q this hav
    · exact hqp (crit_unique s h q p (by rw [x]; simp [Crit]) pcrit)
  have hostNew : ∀ j r, ((s'.proc p).mem j).host = some r →
      ((s.proc p).mem j).host = some r ∨ (r = p ∧ ((s.proc p).mem j).status = avail) := by
    intro j r hr
    by_cases e : (s'.proc p).mem j = (s.proc p).mem j
    · rw [e] at hr; exact Or.inl hr
    · obtain ⟨x1, x2⟩ := fresh j e
      rw [x2] at hr; simp at hr; exact Or.inr ⟨hr.symm, x1⟩
  refine ⟨L1, L1', L2, ?_, ?_, ?_, ?_, ?_, ?_, ?_, ?_, ?_, ?_, ?_, ?_⟩
  · intro a j r hr
    by_cases e : a = p
    · subst e
      by_cases e2 : (s'.proc a).mem j = (s.proc a).mem j
      · rw [e2] at hr ⊢; exact h.wfm a j r hr
      · rw [(fresh j e2).2]; simp
    · rw [hq a e] at hr ⊢; exact h.wfm a j r hr
  · rw [hd]; exact h.wfd
  · intro a b j ha hb
    by_cases ea : a = p <;> by_cases eb : b = p
    · rw [ea, eb]
    · subst ea; rw [hq b eb] at hb
      rcases hostNew j a ha with x | ⟨_, x⟩
      · exact h.k2 a b j x hb
      · exact absurd hb (noOther j b x eb)
    · subst eb; rw [hq a ea] at ha
      rcases hostNew j b hb with x | ⟨_, x⟩
      · exact h.k2 a b j ha x
      · exact absurd ha (noOther j a x ea)
    · rw [hq a ea] at ha; rw [hq b eb] at hb; exact h.k2 a b j ha hb
  · intro j q hdq
    rw [hd] at hdq
    by_cases e : q = p
    · subst e; rw [keepHost j q (h.k3 j q hdq)]; exact h.k3 j q hdq
    · rw [hq q e]; exact h.k3 j q hdq
  · intro a j q ha
    have stable : ((s.proc q).mem j).host = some q → ((s'.proc q).mem j).host = some q := by
      intro x
      by_cases e : q = p
      · subst e; rw [keepHost j q x]; exact x
      · rw [hq q e]; exact x
    by_cases e : a = p
    · subst e
      rcases hostNew j q ha with x | ⟨x, _⟩
      · exact stable (h.k4 a j q x)
      · subst x; exact ha
    · rw [hq a e] at ha; exact stable (h.k4 a j q ha)
  · intro a j ha
    rw [hd]
    by_cases e : a = p
    · subst e; right; exact epc
    · rw [hq a e] at ha ⊢; exact h.k5 a j ha
  · intro r hr j q hqr hdq
    rw [hd] at hdq
    by_cases e : r = p
    · subst e
      have := h.k8 r (by rw [hpc]; simp [K8pc]) j q hqr hdq
      rw [keepHost j q this]; exact this
    · rw [hq r e] at hr ⊢; exact h.k8 r hr j q hqr hdq
  · intro a j ha
    by_cases e : a = p
    · subst e
      rw [ec] at ha
      rcases A2 j ha with x | ⟨_, x, _⟩
      · cases x
      · rw [em]; exact x
    · rw [hq a e] at ha ⊢; exact h.k9 a j ha
  · intro a
    by_cases e : a = p
    · subst e; rw [ec]
      have := A4 List.Pairwise.nil (by intro j hj; cases hj)
      exact this.imp (fun hab => Nat.ne_of_lt hab)
    · rw [hq a e]; exact h.k9' a
  · intro a j ha
    rw [hlg] at ha
    by_cases e : a = p
    · subst e
      have := h.k10 a j ha
      rw [keep j (by rw [this]; simp)]; exact this
    · rw [hq a e]; exact h.k10 a j ha
  · intro a j ha
    by_cases e : a = p
    · subst e; rw [epc] at ha; cases ha
    · rw [hq a e] at ha ⊢; exact h.k11 a j ha
  · show (s'.execLog.map Prod.snd).Nodup; rw [hlg]; exact h.nd


/-- assignedSt → written : the job file is rewritten from p's memory -/
theorem inv_write (s s' : S) (p : Nat) (h : Inv s) (hpc : (s.proc p).pc = assignedSt)
    (hq : ∀ q, q ≠ p → s'.proc q = s.proc q)
    (em : (s'.proc p).mem = (s.proc p).mem) (ec : (s'.proc p).cache = (s.proc p).cache)
    (epc : (s'.proc p).pc = written)
    (hd : s'.disk = (s.proc p).mem) (hlg : s'.execLog = s.execLog) (hl : s'.lock = s.lock) : Inv s' := by
  obtain ⟨L1, L1', L2⟩ := lock_same s s' p h hq hl (by rw [epc, hpc]; simp [Crit])
  have pcrit : Crit (s.proc p).pc := by rw [hpc]; simp [Crit]
  have memEq : ∀ q, (s'.proc q).mem = (s.proc q).mem := by
    intro q; by_cases e : q = p
    · subst e; exact em
    · rw [hq q e]
  have cacheEq : ∀ q, (s'.proc q).cache = (s.proc q).cache := by
    intro q; by_cases e : q = p
    · subst e; exact ec
    · rw [hq q e]
  refine ⟨L1, L1', L2, ?_, ?_, ?_, ?_, ?_, ?_, ?_, ?_, ?_, ?_, ?_, ?_⟩
  · intro q j r; rw [memEq]; exact h.wfm q j r
  · intro j q; rw [hd]; exact h.wfm p j q
  · intro a b j; rw [memEq, memEq]; exact h.k2 a b j
  · intro j q hdq; rw [hd] at hdq; rw [memEq]; exact h.k4 p j q hdq
  · intro a j q; rw [memEq, memEq]; exact h.k4 a j q
  · intro a j ha
    rw [memEq] at ha; rw [hd]
    left
    by_cases e : a = p
    · subst e; exact ha
    · rcases h.k5 a j ha with x | x
      · exact h.k8 p (by rw [hpc]; simp [K8pc]) j a e x
      · exact absurd (crit_unique s h a p (by rw [x]; simp [Crit]) pcrit) e
  · intro r hr j q hqr hdq
    exfalso
    by_cases e : r = p
    · subst e; rw [epc] at hr; simp [K8pc] at hr
    · rw [hq r e] at hr
      have : Crit (s.proc r).pc := by
        revert hr; cases (s.proc r).pc <;> simp [K8pc, Crit]
      exact e (crit_unique s h r p this pcrit)
  · intro a j ha; rw [cacheEq] at ha; rw [memEq]; exact h.k9 a j ha
  · intro a; rw [cacheEq]; exact h.k9' a
  · intro a j ha; rw [hlg] at ha; rw [memEq]; exact h.k10 a j ha
  · intro a j ha
    rw [memEq, cacheEq]
    by_cases e : a = p
    · subst e; rw [epc] at ha; cases ha
    · rw [hq a e] at ha; exact h.k11 a j ha
  · show (s'.execLog.map Prod.snd).Nodup; rw [hlg]; exact h.nd

/-- exec j → idle : the job is run and its result recorded in memory -/
theorem inv_exec (s s' : S) (p j : Nat) (h : Inv s) (hpc : (s.proc p).pc = exec j)
    (hq : ∀ q, q ≠ p → s'.proc q = s.proc q)
    (em : (s'.proc p).mem = Function.update (s.proc p).mem j ⟨complete, some p⟩)
    (ec : (s'.proc p).cache = (s.proc p).cache) (epc : (s'.proc p).pc = idle)
    (hd : s'.disk = s.disk) (hlg : s'.execLog = s.execLog ++ [(p, j)]) (hl : s'.lock = s.lock) : Inv s' := by
  obtain ⟨L1, L1', L2⟩ := lock_same s s' p h hq hl (by rw [epc, hpc]; simp [Crit])
  obtain ⟨hmine, hnotc⟩ := h.k11 p j hpc
  -- hosts are unchanged everywhere
  have hostEq : ∀ q j', ((s'.proc q).mem j').host = ((s.proc q).mem j').host := by
    intro q j'
    by_cases e : q = p
    · subst e; rw [em]
      by_cases ej : j' = j
      · subst ej; simp [Function.update, hmine]
      · simp [Function.update, ej]
    · rw [hq q e]
  have memNe : ∀ j', j' ≠ j → (s'.proc p).mem j' = (s.proc p).mem j' := by
    intro j' ej; rw [em]; simp [Function.update, ej]
  have cacheEq : ∀ q, (s'.proc q).cache = (s.proc q).cache := by
    intro q; by_cases e : q = p
    · subst e; exact ec
    · rw [hq q e]
  refine ⟨L1, L1', L2, ?_, ?_, ?_, ?_, ?_, ?_, ?_, ?_, ?_, ?_, ?_, ?_⟩
  · intro q j' r hr
    by_cases e : q = p
    · subst e
      by_cases ej : j' = j
      · subst ej; rw [em]; simp [Function.update]
      · rw [memNe j' ej] at hr ⊢; exact h.wfm q j' r hr
    · rw [hq q e] at hr ⊢; exact h.wfm q j' r hr
  · rw [hd]; exact h.wfd
  · intro a b j'; rw [hostEq, hostEq]; exact h.k2 a b j'
  · intro j' q; rw [hostEq, hd]; exact h.k3 j' q
  · intro a j' q; rw [hostEq, hostEq]; exact h.k4 a j' q
  · intro a j' ha
    rw [hostEq] at ha; rw [hd]
    rcases h.k5 a j' ha with x | x
    · exact Or.inl x
    · by_cases e : a = p
      · subst e; rw [hpc] at x; cases x
      · right; rw [hq a e]; exact x
  · intro r hr j' q hqr hdq
    rw [hostEq]; rw [hd] at hdq
    by_cases e : r = p
    · subst e; rw [epc] at hr; simp [K8pc] at hr
    · rw [hq r e] at hr; exact h.k8 r hr j' q hqr hdq
  · intro a j' ha
    rw [cacheEq] at ha
    by_cases e : a = p
    · subst e
      have : j' ≠ j := by intro ej; subst ej; exact hnotc ha
      rw [memNe j' this]; exact h.k9 a j' ha
    · rw [hq a e]; exact h.k9 a j' ha
  · intro a; rw [cacheEq]; exact h.k9' a
  · intro a j' ha
    rw [hlg] at ha
    rcases List.mem_append.1 ha with x | x
    · by_cases e : a = p
      · subst e
        by_cases ej : j' = j
        · subst ej; rw [em]; simp [Function.update]
        · rw [memNe j' ej]; exact h.k10 a j' x
      · rw [hq a e]; exact h.k10 a j' x
    · simp at x; obtain ⟨rfl, rfl⟩ := x
      rw [em]; simp [Function.update]
  · intro a j' ha
    by_cases e : a = p
    · subst e; rw [epc] at ha; cases ha
    · rw [hq a e] at ha ⊢; exact h.k11 a j' ha
  · show (s'.execLog.map Prod.snd).Nodup
    rw [hlg, List.map_append, List.nodup_append]
    refine ⟨h.nd, by simp, ?_⟩
    intro x hx y hy
    simp at hy; subst hy
    obtain ⟨⟨q, j'⟩, hmem, rfl⟩ := List.mem_map.1 hx
    intro heq
    simp at heq; subst heq
    have hc := h.k10 q j' hmem
    have := h.k2 q p j' (by rw [hc]) (by rw [hmine])
    subst this
    rw [hc] at hmine; cases hmine

theorem inv_pcFlags (s s' : S) (p : Nat) (h : Inv s)
    (hq : ∀ q, q ≠ p → s'.proc q = s.proc q)
    (em : (s'.proc p).mem = (s.proc p).mem) (ec : (s'.proc p).cache = (s.proc p).cache)
    (hd : s'.disk = s.disk) (hlg : s'.execLog = s.execLog) (hl : s'.lock = s.lock)
    (c1 : Crit (s'.proc p).pc ↔ Crit (s.proc p).pc)
    (c2 : K8pc (s'.proc p).pc → K8pc (s.proc p).pc)
    (c3 : (s.proc p).pc = assignedSt → (s'.proc p).pc = assignedSt)
    (c4 : ∀ j, (s'.proc p).pc = exec j → (s.proc p).pc = exec j) : Inv s' := by
  obtain ⟨L1, L1', L2⟩ := lock_same s s' p h hq hl c1
  exact inv_frame s s' p h hq em ec hd hlg L1 L1' L2 c2 c3 c4

/-- one step of any process preserves the invariant (exclusive lock) -/
theorem inv_step (c J : Nat) (s s' : S) (p : Nat) (h : Inv s)
    (hs : step Mode.exclusive c J s p = some s') : Inv s' := by
  unfold step at hs
  simp only at hs
  split at hs
  · -- idle
    rename_i hpc
    split at hs
    · rename_i j rest hc
      cases hs
      exact inv_pop s _ p j rest h hpc hc (fun q e => setP_ne _ _ _ _ e) (by rw [setP_self]) (by rw [setP_self])
        (by rw [setP_self]) rfl rfl rfl
    · rename_i hc
      split at hs
      · cases hs
        exact inv_pcFlags s _ p h (fun q e => setP_ne _ _ _ _ e) (by rw [setP_self]) (by rw [setP_self]) rfl rfl rfl
          (by rw [setP_self, hpc]; simp [Crit]) (by rw [setP_self]; simp [K8pc]) (by rw [hpc]; intro x; cases x)
          (by rw [setP_self]; intro j x; cases x)
      · cases hs
        exact inv_pcFlags s _ p h (fun q e => setP_ne _ _ _ _ e) (by rw [setP_self]) (by rw [setP_self]) rfl rfl rfl
          (by rw [setP_self, hpc]; simp [Crit]) (by rw [setP_self]; simp [K8pc]) (by rw [hpc]; intro x; cases x)
          (by rw [setP_self]; intro j x; cases x)
  · -- wantLock (exclusive)
    rename_i hpc
    split at hs
    · rename_i hl; cases hs
      refine inv_frame s _ p h (fun q e => setP_ne _ _ _ _ e) (by show ((setP s p _).proc p).mem = _; rw [setP_self])
        (by show ((setP s p _).proc p).cache = _; rw [setP_self]) rfl rfl ?_ ?_ ?_
        (by show K8pc ((setP s p _).proc p).pc → _; rw [setP_self]; simp [K8pc]) (by rw [hpc]; intro x; cases x)
        (by intro j; show ((setP s p _).proc p).pc = exec j → _; rw [setP_self]; intro x; cases x)
      · intro a b ha hb; simp at ha hb; rw [ha, hb]
      · simp
      · intro q
        show Crit ((setP s p _).proc q).pc ↔ q ∈ [p]
        by_cases e : q = p
        · subst e; rw [setP_self]; simp [Crit]
        · rw [setP_ne _ _ _ _ e]
          have := h.l2 q; rw [hl] at this
          simp [e]; simpa using this
    · cases hs
  · -- locked → merged
    rename_i hpc; cases hs
    exact inv_merge s _ p h hpc (fun q e => setP_ne _ _ _ _ e) (by rw [setP_self]) (by rw [setP_self])
      (by rw [setP_self]) rfl rfl rfl
  · -- merged → backedUp
    rename_i hpc; cases hs
    obtain ⟨L1, L1', L2⟩ := lock_same s (setP s p { s.proc p with pc := backedUp }) p h
      (fun q e => setP_ne s p q _ e) rfl (by rw [setP_self, hpc]; simp [Crit])
    exact inv_frame s _ p h (fun q e => setP_ne _ _ _ _ e) (by show ((setP s p _).proc p).mem = _; rw [setP_self])
      (by show ((setP s p _).proc p).cache = _; rw [setP_self]) rfl rfl L1 L1' L2
      (by show K8pc ((setP s p _).proc p).pc → _; rw [hpc]; simp [K8pc]) (by rw [hpc]; intro x; cases x)
      (by intro j; show ((setP s p _).proc p).pc = exec j → _; rw [setP_self]; intro x; cases x)
  · -- backedUp → assignedSt
    rename_i hpc; cases hs
    exact inv_assign s _ p c J h hpc (fun q e => setP_ne _ _ _ _ e) (by rw [setP_self]) (by rw [setP_self])
      (by rw [setP_self]) rfl rfl rfl
  · -- assignedSt → written
    rename_i hpc; cases hs
    exact inv_write s _ p h hpc (fun q e => setP_ne _ _ _ _ e) (by show ((setP s p _).proc p).mem = _; rw [setP_self])
      (by show ((setP s p _).proc p).cache = _; rw [setP_self]) (by show ((setP s p _).proc p).pc = _; rw [setP_self]) rfl rfl rfl
  · -- written → unlocked
    rename_i hpc; cases hs
    have pin : p ∈ s.lock := (h.l2 p).1 (by rw [hpc]; simp [Crit])
    refine inv_frame s _ p h (fun q e => setP_ne _ _ _ _ e) (by show ((setP s p _).proc p).mem = _; rw [setP_self])
      (by show ((setP s p _).proc p).cache = _; rw [setP_self]) rfl rfl ?_ ?_ ?_
      (by show K8pc ((setP s p _).proc p).pc → _; rw [setP_self]; simp [K8pc]) (by rw [hpc]; intro x; cases x)
      (by intro j; show ((setP s p _).proc p).pc = exec j → _; rw [setP_self]; intro x; cases x)
    · intro a b ha hb; exact h.l1 a b (List.mem_of_mem_erase ha) (List.mem_of_mem_erase hb)
    · exact h.l1'.erase p
    · intro q
      show Crit ((setP s p _).proc q).pc ↔ q ∈ s.lock.erase p
      by_cases e : q = p
      · subst e; rw [setP_self]
        simp only [Crit, false_iff]
        exact fun hm => (List.Nodup.mem_erase_iff h.l1').1 hm |>.1 rfl
      · rw [setP_ne _ _ _ _ e, List.mem_erase_of_ne e]; exact h.l2 q
  · -- unlocked
    rename_i hpc
    split at hs
    · cases hs
      exact inv_pcFlags s _ p h (fun q e => setP_ne _ _ _ _ e) (by rw [setP_self]) (by rw [setP_self]) rfl rfl rfl
        (by rw [setP_self, hpc]; simp [Crit]) (by rw [setP_self]; simp [K8pc]) (by rw [hpc]; intro x; cases x)
        (by rw [setP_self]; intro j x; cases x)
    · cases hs
      exact inv_pcFlags s _ p h (fun q e => setP_ne _ _ _ _ e) (by rw [setP_self]) (by rw [setP_self]) rfl rfl rfl
        (by rw [setP_self, hpc]; simp [Crit]) (by rw [setP_self]; simp [K8pc]) (by rw [hpc]; intro x; cases x)
        (by rw [setP_self]; intro j x; cases x)
  · -- exec j
    rename_i j hpc; cases hs
    exact inv_exec s _ p j h hpc (fun q e => setP_ne _ _ _ _ e) (by show ((setP s p _).proc p).mem = _; rw [setP_self])
      (by show ((setP s p _).proc p).cache = _; rw [setP_self]) (by show ((setP s p _).proc p).pc = _; rw [setP_self]) rfl rfl rfl
  · cases hs

theorem inv_run (P c J : Nat) (sched : List Nat) : ∀ s, Inv s → Inv (run Mode.exclusive P c J s sched) := by
  induction sched with
  | nil => intro s h; exact h
  | cons p rest ih =>
    intro s h
    unfold run
    by_cases hp : p < P
    · simp only [hp, if_true]
      cases hst : step Mode.exclusive c J s p with
      | none => exact ih s h
      | some s' => exact ih s' (inv_step c J s s' p h hst)
    · simp only [hp, if_false]; exact ih s h

/-- with an EXCLUSIVE lock no job is ever executed twice: any number of processes, jobs,
    any cache size, any interleaving of the lock / load-merge / backup / assign / write / unlock / exec steps -/
theorem exclusive_assigned_once (P c J : Nat) (sched : List Nat) :
    (jobsRun (run Mode.exclusive P c J init sched)).Nodup :=
  (inv_run P c J sched init inv_init).nd

/-- and a result recorded by the process that ran the job is what that process keeps -/
theorem exclusive_result_kept (P c J : Nat) (sched : List Nat) (p j : Nat)
    (h : (p, j) ∈ (run Mode.exclusive P c J init sched).execLog) :
    ((run Mode.exclusive P c J init sched).proc p).mem j = ⟨complete, some p⟩ :=
  (inv_run P c J sched init inv_init).k10 p j h


end Votca.C10.U
