import Votca.Model.C11
/-! # C11 — helper lemmas: short-circuiting folds, tree height, whole-tree predicates -/
namespace Votca.C11
open PTree

/-- the error-propagating fold used by the checks succeeds only if every element's check succeeds -/
theorem foldl_except_ok {α} (f : α → Except String Unit) : ∀ (l : List α) (init : Except String Unit),
    l.foldl (fun (acc : Except String Unit) c => match acc with | .error e => .error e | .ok () => f c) init = .ok () →
    init = .ok () ∧ ∀ c ∈ l, f c = .ok ()
  | [], init, h => ⟨h, fun _ hc => by cases hc⟩
  | x :: xs, init, h => by
    simp only [List.foldl_cons] at h
    cases init with
    | error e =>
      exfalso
      have : ∀ (l : List α) (e : String), l.foldl (fun (acc : Except String Unit) c => match acc with | .error e => .error e | .ok () => f c) (.error e) = .error e := by
        intro l; induction l with
        | nil => intro e; rfl
        | cons y ys ih => intro e; simp only [List.foldl_cons]; exact ih e
      rw [this xs e] at h; cases h
    | ok u =>
      cases u
      simp only [] at h
      obtain ⟨h1, h2⟩ := foldl_except_ok f xs (f x) h
      refine ⟨rfl, fun c hc => ?_⟩
      rcases List.mem_cons.1 hc with rfl | hc
      · exact h1
      · exact h2 c hc

theorem height_mem (c : PTree) : ∀ (cs : List PTree), c ∈ cs → heightP c ≤ heightL cs
  | [], h => by cases h
  | x :: xs, h => by
    rw [heightL]
    rcases List.mem_cons.1 h with rfl | h
    · exact Nat.le_max_left _ _
    · exact Nat.le_trans (height_mem c xs h) (Nat.le_max_right _ _)

theorem height_pos (t : PTree) : 0 < heightP t := by cases t; rw [heightP]; omega

theorem height_children (t : PTree) : heightP t = 1 + heightL t.children := by cases t; rw [heightP]; rfl

/-! every node of a tree / forest, at every depth -/
mutual
def allNodes (q : PTree → Bool) : PTree → Bool
  | node n v a cs => q (node n v a cs) && allList q cs
def allList (q : PTree → Bool) : List PTree → Bool
  | [] => true
  | c :: cs => allNodes q c && allList q cs
end

theorem allList_iff (q : PTree → Bool) : ∀ (cs : List PTree), allList q cs = true ↔ ∀ c ∈ cs, allNodes q c = true
  | [] => by simp [allList]
  | x :: xs => by simp [allList, allList_iff q xs]

theorem allNodes_iff (q : PTree → Bool) (t : PTree) : allNodes q t = true ↔ (q t = true ∧ allList q t.children = true) := by
  cases t; simp [allNodes, PTree.children]

end Votca.C11
