import Votca.Lemmas.C11
import Mathlib.Data.List.Forall2
/-! # C11 — helper lemmas for the merge pass (`OverwriteDefaultsWithUserInput`): accessors, attribute insertion, monadic maps and
short-circuiting folds -/
namespace Votca.C11
open PTree

theorem mapM_ok_forall2 {α β : Type} (f : α → Except String β) : ∀ (l : List α) (l' : List β), l.mapM f = .ok l' →
    List.Forall₂ (fun a b => f a = .ok b) l l'
  | [], l', h => by
    simp [pure, Except.pure] at h; subst h; exact .nil
  | a :: l, l', h => by
    rw [List.mapM_cons] at h
    cases hfa : f a with
    | error e => simp [hfa, bind, Except.bind] at h
    | ok b =>
      cases hl : l.mapM f with
      | error e => simp [hfa, hl, bind, Except.bind] at h
      | ok bs =>
        simp [hfa, hl, bind, Except.bind, pure, Except.pure] at h
        subst h
        exact .cons hfa (mapM_ok_forall2 f l bs hl)

theorem any_insertAttr_ne (k k2 v : String) (hk : k2 ≠ k) : ∀ l : List (String × String),
    (insertAttr k v l).any (·.1 == k2) = l.any (·.1 == k2)
  | [] => by simp [insertAttr]; exact fun h => hk h.symm
  | (k', v') :: rest => by
    unfold insertAttr
    split
    · simp; intro h; exact absurd h.symm hk
    · split
      · rename_i h2
        have : k = k' := by simpa using h2
        subst this
        simp [hk]
      · simp [any_insertAttr_ne k k2 v hk rest]

@[simp] theorem withValue_children (t : PTree) (v : String) : (t.withValue v).children = t.children := by cases t; rfl
@[simp] theorem withValue_name (t : PTree) (v : String) : (t.withValue v).name = t.name := by cases t; rfl
@[simp] theorem withValue_value (t : PTree) (v : String) : (t.withValue v).value = v := by cases t; rfl
@[simp] theorem withValue_attrs (t : PTree) (v : String) : (t.withValue v).attrs = t.attrs := by cases t; rfl
@[simp] theorem setAttr_children (t : PTree) (k v : String) : (t.setAttr k v).children = t.children := by cases t; rfl
@[simp] theorem setAttr_name (t : PTree) (k v : String) : (t.setAttr k v).name = t.name := by cases t; rfl
@[simp] theorem setAttr_value (t : PTree) (k v : String) : (t.setAttr k v).value = t.value := by cases t; rfl
@[simp] theorem setAttr_attrs (t : PTree) (k v : String) : (t.setAttr k v).attrs = insertAttr k v t.attrs := by cases t; rfl
@[simp] theorem withChildren_children (t : PTree) (c : List PTree) : (t.withChildren c).children = c := by cases t; rfl
@[simp] theorem withChildren_name (t : PTree) (c : List PTree) : (t.withChildren c).name = t.name := by cases t; rfl
@[simp] theorem withChildren_value (t : PTree) (c : List PTree) : (t.withChildren c).value = t.value := by cases t; rfl
@[simp] theorem withChildren_attrs (t : PTree) (c : List PTree) : (t.withChildren c).attrs = t.attrs := by cases t; rfl
theorem hasAttr_def (t : PTree) (k : String) : t.hasAttr k = t.attrs.any (·.1 == k) := rfl

theorem any_insertAttr_self (k v : String) : ∀ l : List (String × String), (insertAttr k v l).any (·.1 == k) = true
  | [] => by simp [insertAttr]
  | (k', v') :: rest => by
    unfold insertAttr
    split
    · simp
    · split
      · simp
      · simp [any_insertAttr_self k v rest]

theorem foldl_except_inv {α β : Type} (P : α → Prop) (g : Except String α → β → Except String α)
    (herr : ∀ e b, g (.error e) b = .error e) (hok : ∀ a b a', P a → g (.ok a) b = .ok a' → P a') :
    ∀ (l : List β) (acc : Except String α) (r : α), (∀ a, acc = .ok a → P a) → l.foldl g acc = .ok r → P r
  | [], acc, r, hacc, h => hacc r (by simpa using h)
  | b :: l, acc, r, hacc, h => by
    rw [List.foldl_cons] at h
    refine foldl_except_inv P g herr hok l (g acc b) r ?_ h
    intro a' ha'
    cases acc with
    | error e => rw [herr] at ha'; cases ha'
    | ok a => exact hok a b a' (hacc a rfl) ha'


end Votca.C11
