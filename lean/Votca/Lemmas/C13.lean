import Votca.Model.C13
import Mathlib.Tactic.Ring
import Mathlib.Tactic.Linarith
import Mathlib.Tactic.FieldSimp
import Mathlib.Algebra.Order.Field.Basic
import Mathlib.Data.Rat.Floor
import Mathlib.Algebra.BigOperators.Group.List.Basic
/-! # C13 — helper lemmas -/
namespace Votca.C13

theorem wrapCode_eq_emod (i n : Int) (hn : 0 < n) : wrapCode i n = i % n := by
  unfold wrapCode
  split
  · rename_i hi
    have h1 : Int.tmod (-i) n = (-i) % n := Int.tmod_eq_emod_of_nonneg (by omega)
    have h2 : (-i) % n < n := Int.emod_lt_of_pos _ hn
    have h3 : 0 ≤ (-i) % n := Int.emod_nonneg _ (by omega)
    rw [h1, Int.tmod_eq_emod_of_nonneg (by omega)]
    rw [Int.sub_emod, Int.emod_emod, ← Int.sub_emod]
    have : n - -i = i + n := by ring
    rw [this, Int.add_emod_right]
  · rename_i hi
    exact Int.tmod_eq_emod_of_nonneg (by omega)

theorem wrapCode_range (i n : Int) (hn : 0 < n) : 0 ≤ wrapCode i n ∧ wrapCode i n < n := by
  rw [wrapCode_eq_emod i n hn]
  exact ⟨Int.emod_nonneg _ (by omega), Int.emod_lt_of_pos _ hn⟩

theorem addAt_length (ys : List Rat) (i : Nat) (w : Rat) : (addAt ys i w).length = ys.length := by
  induction ys generalizing i with
  | nil => rfl
  | cons y ys ih => cases i <;> simp [addAt, ih]

theorem addAt_sum (ys : List Rat) (i : Nat) (w : Rat) (hi : i < ys.length) : (addAt ys i w).sum = ys.sum + w := by
  induction ys generalizing i with
  | nil => simp at hi
  | cons y ys ih =>
    cases i with
    | zero => simp [addAt]; ring
    | succ i => simp [addAt, ih i (by simpa using hi)]; ring

/-- floor facts in the form used below -/
theorem floor_bounds (x : Rat) : ((x.floor : Int) : Rat) ≤ x ∧ x < ((x.floor : Int) : Rat) + 1 := by
  refine ⟨Rat.floor_le x, ?_⟩
  have := Rat.lt_floor_add_one x
  push_cast at this
  exact this

end Votca.C13
