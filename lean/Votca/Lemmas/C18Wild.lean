import Votca.Model.C18
/-! # C18 — helper lemmas for `wildcmp = glob` (loop invariant, greedy lemma) -/
namespace Votca.C18

/-! ### spec lemmas -/

theorem glob_nil (s : List Char) : glob [] s = s.isEmpty := by simp [glob]

theorem glob_star_nil (p : List Char) : glob (star :: p) [] = glob p [] := by
  rw [glob]; simp

theorem glob_star_cons (p : List Char) (d : Char) (t : List Char) :
    glob (star :: p) (d :: t) = (glob p (d :: t) || glob (star :: p) t) := by
  rw [glob]; simp

theorem glob_lit_nil (c : Char) (p : List Char) (h : c ≠ star) : glob (c :: p) [] = false := by
  rw [glob]; simp [h]

theorem glob_lit_cons (c d : Char) (p t : List Char) (h : c ≠ star) :
    glob (c :: p) (d :: t) = ((c = qm || c = d) && glob p t) := by
  rw [glob]; simp [h]

/-- `*` absorbs any prefix -/
theorem glob_star_drop (p : List Char) : ∀ (s : List Char) (k : Nat),
    glob (star :: p) (s.drop k) = true → glob (star :: p) s = true
  | s, 0, h => by simpa using h
  | [], k+1, h => by simpa using h
  | d :: t, k+1, h => by
    rw [glob_star_cons]
    have := glob_star_drop p t k (by simpa using h)
    simp [this]

theorem glob_star_of (p s : List Char) (h : glob p s = true) : glob (star :: p) s = true := by
  cases s with
  | nil => rw [glob_star_nil]; exact h
  | cons d t => rw [glob_star_cons]; simp [h]

theorem glob_star_iff (p : List Char) : ∀ s : List Char,
    glob (star :: p) s = true ↔ ∃ k, k ≤ s.length ∧ glob p (s.drop k) = true
  | [] => by
    rw [glob_star_nil]; constructor
    · intro h; exact ⟨0, by simp, by simpa using h⟩
    · rintro ⟨k, _, h⟩; simpa using h
  | d :: t => by
    rw [glob_star_cons, Bool.or_eq_true, glob_star_iff p t]; constructor
    · rintro (h | ⟨k, hk, h⟩)
      · exact ⟨0, by simp, by simpa using h⟩
      · exact ⟨k+1, by simp; omega, by simpa using h⟩
    · rintro ⟨k, hk, h⟩
      cases k with
      | zero => left; simpa using h
      | succ k => right; exact ⟨k, by simp at hk; omega, by simpa using h⟩

theorem loop3_iff (w : List Char) : loop3 w = glob w [] := by
  induction w with
  | nil => simp [loop3, glob]
  | cons c w ih =>
    by_cases h : c = star
    · subst h; rw [glob_star_nil, ← ih]; simp [loop3, List.dropWhile]
    · rw [glob_lit_nil c w h]; simp [loop3, List.dropWhile, h]

/-- star-free literal segment matching a prefix, returning the rest -/
def litMatch : List Char → List Char → Option (List Char)
  | [], s => some s
  | _ :: _, [] => none
  | c :: l, d :: s => if c = qm || c = d then litMatch l s else none

def starFree (l : List Char) : Prop := ∀ c ∈ l, c ≠ star

theorem glob_lit_append (l : List Char) (hl : starFree l) (q : List Char) : ∀ s : List Char,
    glob (l ++ q) s = true ↔ ∃ r, litMatch l s = some r ∧ glob q r = true := by
  induction l with
  | nil => intro s; simp [litMatch]
  | cons c l ih =>
    intro s
    have hc : c ≠ star := hl c (by simp)
    have hl' : starFree l := fun x hx => hl x (by simp [hx])
    cases s with
    | nil => simp [litMatch, glob_lit_nil c (l ++ q) hc]
    | cons d t =>
      simp only [List.cons_append, glob_lit_cons c d (l ++ q) t hc, litMatch]
      by_cases hm : (c = qm || c = d) = true
      · simp only [hm, Bool.true_and, if_true]; exact ih hl' t
      · have hm' : (decide (c = qm) || decide (c = d)) = false := by simpa using hm
        simp [hm']

theorem litMatch_length : ∀ (l s r : List Char), litMatch l s = some r → s.length = l.length + r.length
  | [], s, r, h => by simp [litMatch] at h; subst h; simp
  | _ :: _, [], r, h => by simp [litMatch] at h
  | c :: l, d :: s, r, h => by
    simp only [litMatch] at h
    split at h
    · have := litMatch_length l s r h; simp; omega
    · cases h

theorem litMatch_drop : ∀ (l s r : List Char), litMatch l s = some r → r = s.drop l.length
  | [], s, r, h => by simp [litMatch] at h; subst h; simp
  | _ :: _, [], r, h => by simp [litMatch] at h
  | c :: l, d :: s, r, h => by
    simp only [litMatch] at h
    split at h
    · have := litMatch_drop l s r h; simpa using this
    · cases h

theorem glob_onlystar : ∀ s : List Char, glob [star] s = true
  | [] => by simp [glob]
  | d :: t => by rw [glob_star_cons, glob_onlystar t]; simp

/-- the greedy lemma: once a literal segment matched at the leftmost place after a star,
    later placements cannot do better -/
theorem greedy (l : List Char) (hl : starFree l) (r t rest : List Char)
    (hm : litMatch l t = some rest) :
    glob (star :: (l ++ star :: r)) t = true ↔ glob (star :: r) rest = true := by
  constructor
  · intro h
    obtain ⟨k, hk, hk2⟩ := (glob_star_iff _ t).1 h
    obtain ⟨r', hr', hg⟩ := (glob_lit_append l hl (star :: r) (t.drop k)).1 hk2
    have e1 := litMatch_drop l t rest hm
    have e2 := litMatch_drop l (t.drop k) r' hr'
    have : r' = rest.drop k := by
      rw [e1, e2, List.drop_drop, List.drop_drop, Nat.add_comm]
    rw [this] at hg
    exact glob_star_drop r rest k hg
  · intro h
    apply glob_star_of
    exact (glob_lit_append l hl (star :: r) t).2 ⟨rest, hm, h⟩

/-! ### loop invariant -/

theorem litMatch_snoc (l : List Char) (c d : Char) (a s' : List Char)
    (h : litMatch l a = some (d :: s')) (hc : (c = qm || c = d) = true) :
    litMatch (l ++ [c]) a = some s' := by
  induction l generalizing a with
  | nil =>
    simp [litMatch] at h; subst h
    simp only [List.nil_append, litMatch, hc, if_true]
  | cons x l ih =>
    cases a with
    | nil => simp [litMatch] at h
    | cons y a =>
      simp only [List.cons_append, litMatch] at h ⊢
      split at h
      · rename_i hx; simp only [hx, if_true]; exact ih a h
      · cases h

theorem mismatch_false (l : List Char) (hl : starFree l) (c d : Char) (w' s' a : List Char)
    (hc : c ≠ star) (hcd : ¬(decide (c = d) || decide (c = qm)) = true)
    (hm : litMatch l a = some (d :: s')) : glob (l ++ c :: w') a = false := by
  apply Bool.eq_false_iff.2; intro hg
  obtain ⟨r, hr, hgr⟩ := (glob_lit_append l hl _ _).1 hg
  rw [hm] at hr; cases hr
  rw [glob_lit_cons c d w' s' hc] at hgr
  simp at hcd hgr
  exact hcd.1 (hgr.1.resolve_left hcd.2)

theorem mismatch_nil_false (l : List Char) (hl : starFree l) (d : Char) (s' a : List Char)
    (hm : litMatch l a = some (d :: s')) : glob (l ++ []) a = false := by
  apply Bool.eq_false_iff.2; intro hg
  obtain ⟨r, hr, hgr⟩ := (glob_lit_append l hl _ _).1 hg
  rw [hm] at hr; cases hr
  simp [glob] at hgr

/-- Invariant of the second loop: `a = x :: cp` is the anchor string (where the last star
    started to absorb), `mp = l ++ w` with `l` star-free and already matched against `a`
    leaving `s`.  Then loop2 decides `glob (star :: mp) a`. -/
theorem loop2_correct : ∀ (w s mp cp : List Char) (h : s.length ≤ cp.length + 1)
    (x : Char) (l : List Char), starFree l → mp = l ++ w →
    litMatch l (x :: cp) = some s →
    loop2 w s mp cp h = glob (star :: mp) (x :: cp) := by
  intro w s mp cp h
  induction w, s, mp, cp, h using loop2.induct with
  | case1 w mp cp h _ =>
    intro x l hl hmp hm
    unfold loop2; rw [loop3_iff]
    have hlen := litMatch_length l (x :: cp) [] hm
    apply Bool.eq_iff_iff.2
    constructor
    · intro hw
      apply glob_star_of; rw [hmp]
      exact (glob_lit_append l hl w _).2 ⟨[], hm, hw⟩
    · intro hg
      obtain ⟨k, hk, hk2⟩ := (glob_star_iff _ _).1 hg
      rw [hmp] at hk2
      obtain ⟨r', hr', hg'⟩ := (glob_lit_append l hl w _).1 hk2
      have := litMatch_length l _ r' hr'
      simp at this hlen
      have hk0 : r' = [] := by
        apply List.eq_nil_of_length_eq_zero; omega
      rw [hk0] at hg'; exact hg'
  | case2 mp cp d s' h _ =>
    intro x l hl hmp hm
    unfold loop2; simp
    apply glob_star_of; rw [hmp]
    refine (glob_lit_append l hl _ _).2 ⟨d :: s', hm, ?_⟩
    exact glob_onlystar _
  | case3 mp cp d s' h w' hw _ ih =>
    intro x l hl hmp hm
    unfold loop2; simp [hw]
    rw [ih d [] (by intro c hc; cases hc) (by simp) (by simp [litMatch])]
    rw [hmp]
    exact (Bool.eq_iff_iff.2 (greedy l hl w' (x :: cp) (d :: s') hm)).symm
  | case4 mp cp d s' h c w' hc hcd _ ih =>
    intro x l hl hmp hm
    unfold loop2; simp only [hc, if_false, hcd, if_true]
    have hc' : c ≠ star := hc
    exact ih x (l ++ [c]) (by intro y hy; simp at hy; rcases hy with hy | hy; exact hl y hy; subst hy; exact hc')
      (by simp [hmp]) (litMatch_snoc l c d _ s' hm (by simpa [Bool.or_comm] using hcd))
  | case5 mp d s' c w' hc hcd h _ _ =>
    intro x l hl hmp hm
    unfold loop2; simp only [hc, if_false, hcd]
    rw [loop3_iff]
    have hfalse : glob mp [x] = false := by rw [hmp]; exact mismatch_false l hl c d w' s' _ hc hcd hm
    rw [glob_star_cons, hfalse, glob_star_nil]; simp
  | case6 mp d s' c w' hc hcd y cp' h _ _ ih =>
    intro x l hl hmp hm
    unfold loop2; simp only [hc, if_false, hcd]
    have hfalse : glob mp (x :: y :: cp') = false := by rw [hmp]; exact mismatch_false l hl c d w' s' _ hc hcd hm
    rw [glob_star_cons, hfalse, Bool.false_or]
    exact ih y [] (by intro c hc; cases hc) (by simp) (by simp [litMatch])
  | case7 mp d s' h _ _ =>
    intro x l hl hmp hm
    unfold loop2; rw [loop3_iff]
    have hfalse : glob mp [x] = false := by rw [hmp]; exact mismatch_nil_false l hl d s' _ hm
    rw [glob_star_cons, hfalse, glob_star_nil]; simp
  | case8 mp d s' y cp' h _ _ ih =>
    intro x l hl hmp hm
    unfold loop2
    have hfalse : glob mp (x :: y :: cp') = false := by rw [hmp]; exact mismatch_nil_false l hl d s' _ hm
    rw [glob_star_cons, hfalse, Bool.false_or]
    exact ih y [] (by intro c hc; cases hc) (by simp) (by simp [litMatch])

/-- main theorem: the matcher decides the glob relation, for all patterns and strings -/
theorem wildcmp_eq_glob : ∀ (w s : List Char), wildcmp w s = glob w s
  | w, [] => by unfold wildcmp; exact loop3_iff w
  | [], d :: s => by simp [wildcmp, glob]
  | c :: w, d :: s => by
    unfold wildcmp
    by_cases hc : c = star
    · subst hc; simp only [if_true]
      by_cases hw : w = []
      · subst hw; simp [glob_onlystar]
      · simp only [hw, if_false]
        rw [loop2_correct w (d :: s) w s (by simp) d [] (by intro c hc; cases hc) (by simp) (by simp [litMatch])]
    · simp only [hc, if_false]
      rw [glob_lit_cons c d w s hc]
      by_cases hm : c ≠ d ∧ c ≠ qm
      · simp [hm]
      · simp only [hm, if_false]; rw [wildcmp_eq_glob w s]
        have : (decide (c = qm) || decide (c = d)) = true := by
          by_cases h1 : c = d
          · simp [h1]
          · by_cases h2 : c = qm
            · simp [h2]
            · exact absurd ⟨h1, h2⟩ hm
        simp [this]


end Votca.C18
