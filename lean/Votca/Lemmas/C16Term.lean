import Votca.Lemmas.C16
/-! # C16 — termination of the breadth-first labelling on a finite vertex set: a potential (queue length plus the degrees of the
unexplored vertices) drops with every step -/
namespace Votca.C16

/-- sum of the degrees of the unexplored vertices -/
def unexpDeg (adj : Nat → List Nat) (dist : Nat → Option Nat) (verts : List Nat) : Nat :=
  ((verts.filter fun v => (dist v).isNone).map fun v => (adj v).length).sum

def pot (adj : Nat → List Nat) (verts : List Nat) (st : St) : Nat := st.queue.length + unexpDeg adj st.dist verts

theorem pushes_length_le (adj : Nat → List Nat) (dist : Nat → Option Nat) (w : Nat) :
    (pushes adj dist w).length ≤ (adj w).length := by
  unfold pushes
  rw [List.length_map]
  exact List.length_filter_le _ _

/-- exploring `w` removes exactly its degree from the unexplored sum -/
theorem unexpDeg_explore (adj : Nat → List Nat) (dist : Nat → Option Nat) (verts : List Nat) (w d : Nat)
    (hnd : verts.Nodup) (hw : w ∈ verts) (hun : dist w = none) :
    unexpDeg adj (fun v => if v = w then some d else dist v) verts + (adj w).length = unexpDeg adj dist verts := by
  unfold unexpDeg
  induction verts with
  | nil => cases hw
  | cons a rest ih =>
    have hnd' := List.nodup_cons.mp hnd
    by_cases ha : a = w
    · subst ha
      -- `a` itself: unexplored before, explored after; the rest does not contain it
      have hrest : ∀ v ∈ rest, (if v = a then some d else dist v) = dist v := by
        intro v hv
        have : v ≠ a := fun h => hnd'.1 (h ▸ hv)
        simp [this]
      have hfilt : (rest.filter fun v => (if v = a then some d else dist v).isNone) = rest.filter fun v => (dist v).isNone := by
        apply List.filter_congr
        intro v hv
        rw [hrest v hv]
      simp only [List.filter_cons, if_true, Option.isNone_some, Bool.false_eq_true, if_false, hun, Option.isNone_none, hfilt,
        List.map_cons, List.sum_cons]
      omega
    · have hw' : w ∈ rest := by
        rcases List.mem_cons.mp hw with h | h
        · exact absurd h.symm ha
        · exact h
      have := ih hnd'.2 hw'
      beta_reduce at this
      simp only [List.filter_cons, ha, if_false]
      by_cases hda : (dist a).isNone = true
      · simp only [hda, if_true, List.map_cons, List.sum_cons]
        omega
      · simp only [hda, Bool.false_eq_true, if_false]
        exact this

/-- every step lowers the potential and keeps the far ends of the queued edges inside the vertex set -/
theorem step_pot (adj : Nat → List Nat) (verts : List Nat) (st st' : St)
    (hnd : verts.Nodup) (hclosed : ∀ v ∈ verts, ∀ x ∈ adj v, x ∈ verts)
    (hq : ∀ e ∈ st.queue, e.2 ∈ verts) (hs : step adj st = some st') :
    pot adj verts st' < pot adj verts st ∧ ∀ e ∈ st'.queue, e.2 ∈ verts := by
  unfold step at hs
  cases hqueue : st.queue with
  | nil => simp [hqueue] at hs
  | cons e rest =>
    obtain ⟨u, w⟩ := e
    simp only [hqueue] at hs
    have hwv : w ∈ verts := hq (u, w) (by simp [hqueue])
    have hrestv : ∀ e ∈ rest, e.2 ∈ verts := fun e he => hq e (by simp [hqueue, he])
    cases hd : st.dist w with
    | some dw =>
      simp only [hd] at hs
      cases hs
      constructor
      · simp [pot, hqueue]
      · exact hrestv
    | none =>
      simp only [hd] at hs
      cases hs
      constructor
      · have h1 := unexpDeg_explore adj st.dist verts w ((st.dist u).getD 0 + 1) hnd hwv hd
        have h2 := pushes_length_le adj st.dist w
        simp only [pot, explore, hqueue, List.length_append, List.length_cons]
        omega
      · intro e he
        simp only [explore, List.mem_append] at he
        rcases he with he | he
        · exact hrestv e he
        · obtain ⟨hx1, hx2⟩ := mem_pushes.mp he
          have h3 : e.2 ∈ adj w := hx2.1
          exact hclosed w hwv e.2 h3

/-- fuel at least the potential empties the queue -/
theorem run_empties (adj : Nat → List Nat) (verts : List Nat) (hnd : verts.Nodup)
    (hclosed : ∀ v ∈ verts, ∀ x ∈ adj v, x ∈ verts) :
    ∀ (k : Nat) (st : St), pot adj verts st ≤ k → (∀ e ∈ st.queue, e.2 ∈ verts) → (run adj k st).queue = [] := by
  intro k
  induction k with
  | zero =>
    intro st hp _
    have : st.queue.length = 0 := by unfold pot at hp; omega
    simpa [run] using List.length_eq_zero_iff.mp this
  | succ k ih =>
    intro st hp hq
    simp only [run]
    cases hs : step adj st with
    | none =>
      unfold step at hs
      cases hqueue : st.queue with
      | nil => simp [hqueue]
      | cons e rest =>
        obtain ⟨u, w⟩ := e
        simp only [hqueue] at hs
        cases hd : st.dist w <;> simp [hd] at hs
    | some st' =>
      obtain ⟨hlt, hq'⟩ := step_pot adj verts st st' hnd hclosed hq hs
      exact ih st' (by omega) hq'

end Votca.C16
