import Votca.Model.C14
import Mathlib.Tactic.Ring
import Mathlib.Tactic.Linarith
import Mathlib.Algebra.Order.Field.Basic
import Mathlib.Data.Rat.Defs
/-! # C14 — helper lemmas: after both redistribution passes the descent is the cumulative selection (every tree shape) -/
namespace Votca.C14
open T

/-- state right after the merge phase: every node holds the mass of its subtree -/
def fresh : T → Prop
  | two _ _ _ vl vr p => p = vl + vr
  | one _ _ v p => p = v
  | T.inner _ l r p => fresh l ∧ fresh r ∧ p = prob l + prob r

theorem fresh_setFresh (t : T) : fresh (setFresh t) := by
  induction t with
  | two => simp [setFresh, fresh]
  | one => simp [setFresh, fresh]
  | inner i l r p ihl ihr => exact ⟨ihl, ihr, rfl⟩

theorem leavesRL_setFresh (t : T) : leavesRL (setFresh t) = leavesRL t := by
  induction t with
  | two => simp [setFresh, leavesRL]
  | one => simp [setFresh, leavesRL]
  | inner i l r p ihl ihr => simp [setFresh, leavesRL, ihl, ihr]

theorem fresh_prob (t : T) (h : fresh t) : prob t = mass t := by
  induction t with
  | two i l r vl vr p => simpa [fresh, prob, mass] using h
  | one i e v p => simpa [fresh, prob, mass] using h
  | inner i l r p ihl ihr =>
    obtain ⟨hl, hr, hp⟩ := h
    have e1 := ihl hl
    have e2 := ihr hr
    show p = mass l + mass r
    rw [hp, e1, e2]

theorem leaves_ne_nil (t : T) : leavesRL t ≠ [] := by
  induction t with
  | two => simp [leavesRL]
  | one => simp [leavesRL]
  | inner i l r p ihl ihr => simp [leavesRL, ihl, ihr]

theorem total_append (xs ys : List (Nat × Rat)) : total (xs ++ ys) = total xs + total ys := by
  induction xs with
  | nil => simp [total]
  | cons x xs ih => obtain ⟨e, v⟩ := x; simp [total, ih]; ring

theorem total_leaves (t : T) : total (leavesRL t) = mass t := by
  induction t with
  | two i l r vl vr p => simp [leavesRL, total, mass]; ring
  | one i e v p => simp [leavesRL, total, mass]
  | inner i l r p ihl ihr =>
    simp only [leavesRL, mass]
    rw [total_append, ihl, ihr]; ring

def nonneg (xs : List (Nat × Rat)) : Prop := ∀ q ∈ xs, (0 : Rat) ≤ q.2

theorem total_nonneg (xs : List (Nat × Rat)) (h : nonneg xs) : 0 ≤ total xs := by
  induction xs with
  | nil => simp [total]
  | cons x xs ih =>
    obtain ⟨e, v⟩ := x
    have hv : (0 : Rat) ≤ v := h (e, v) (by simp)
    have := ih (fun q hq => h q (by simp [hq]))
    simp only [total]; linarith

theorem select_append (xs ys : List (Nat × Rat)) (hx : xs ≠ []) (hy : ys ≠ []) (hn : nonneg xs) (a x : Rat) :
    select (xs ++ ys) a x = if x > a + total xs then select ys (a + total xs) x else select xs a x := by
  induction xs generalizing a with
  | nil => exact absurd rfl hx
  | cons p xs ih =>
    obtain ⟨e, v⟩ := p
    cases xs with
    | nil =>
      cases ys with
      | nil => exact absurd rfl hy
      | cons q ys => simp [select, total]
    | cons q xs =>
      have hn' : nonneg (q :: xs) := fun z hz => hn z (by simp [hz])
      have ih' := ih (by simp) hn' (a + v)
      have ht := total_nonneg (q :: xs) hn'
      simp only [List.cons_append] at ih' ⊢
      have e1 : a + v + total (q :: xs) = a + total ((e, v) :: q :: xs) := by simp only [total]; ring
      by_cases h1 : x > a + v
      · have : select ((e, v) :: q :: (xs ++ ys)) a x = select (q :: (xs ++ ys)) (a + v) x := by
          simp only [select, h1, if_true]
        rw [this, ih', e1]
        have : select ((e, v) :: q :: xs) a x = select (q :: xs) (a + v) x := by
          simp only [select, h1, if_true]
        rw [this]
      · have h2 : ¬ x > a + total ((e, v) :: q :: xs) := by
          rw [← e1]; intro hh; apply h1; linarith
        simp only [h2, if_false]
        simp only [select, h1, if_false]

def leafNonneg (t : T) : Prop := nonneg (leavesRL t)

/-- main lemma: after both passes with offset `a`, the descent is the cumulative selection over the leaves -/
theorem find_spec (t : T) (hf : fresh t) (hn : leafNonneg t) (a x : Rat) :
    find (pass2 (pass1 t a)) x = select (leavesRL t) a x := by
  induction t generalizing a with
  | two i l r vl vr p =>
    have hp : p = vl + vr := hf
    simp only [pass1, pass2, find, leavesRL, select]
    have : p + a - vl = a + vr := by rw [hp]; ring
    rw [this]
  | one i e v p => simp [pass1, pass2, find, leavesRL, select]
  | inner i l r p ihl ihr =>
    obtain ⟨hl, hr, hp⟩ := hf
    have hnr : nonneg (leavesRL r) := fun q hq => hn q (by simp [leavesRL, hq])
    have hnl : nonneg (leavesRL l) := fun q hq => hn q (by simp [leavesRL, hq])
    have key : prob (pass1 r a) = a + total (leavesRL r) := by
      rw [total_leaves, ← fresh_prob r hr]
      cases r <;> simp [pass1, prob] <;> ring
    simp only [pass1, pass2, find, leavesRL]
    rw [select_append _ _ (leaves_ne_nil r) (leaves_ne_nil l) hnr, key]
    by_cases h : x > a + total (leavesRL r)
    · simp only [h, if_true]
      rw [ihl hl hnl]
      congr 1
      rw [total_leaves, ← fresh_prob r hr]
    · simp only [h, if_false]
      exact ihr hr hnr a

/-- the cumulative selection picks the leaf whose half-open interval `(lo, lo+v]` contains `x` -/
theorem select_interval (pre : List (Nat × Rat)) (e : Nat) (v : Rat) (post : List (Nat × Rat))
    (hn : nonneg (pre ++ (e, v) :: post)) (a x : Rat)
    (hlo : a + total pre < x) (hhi : x ≤ a + total pre + v) :
    select (pre ++ (e, v) :: post) a x = e := by
  induction pre generalizing a with
  | nil =>
    simp only [total, add_zero, List.nil_append] at hlo hhi ⊢
    cases post with
    | nil => simp [select]
    | cons q post =>
      have : ¬ x > a + v := by linarith
      simp [select, this]
  | cons p pre ih =>
    obtain ⟨e', v'⟩ := p
    have hv' : (0 : Rat) ≤ v' := hn (e', v') (by simp)
    have hn' : nonneg (pre ++ (e, v) :: post) := fun z hz => hn z (by simp [hz])
    have htp := total_nonneg pre (fun z hz => hn z (by simp [hz]))
    simp only [total] at hlo hhi
    have hgt : x > a + v' := by linarith
    have step : select ((e', v') :: (pre ++ (e, v) :: post)) a x = select (pre ++ (e, v) :: post) (a + v') x := by
      cases hh : pre ++ (e, v) :: post with
      | nil => simp at hh
      | cons q rest => simp [select, hgt]
    rw [List.cons_append, step]
    exact ih hn' (a + v') (by linarith) (by linarith)

end Votca.C14
