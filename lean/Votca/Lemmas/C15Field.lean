import Votca.Model.C15
import Votca.Gen.EEK
import Mathlib.Data.Matrix.Mul
import Mathlib.LinearAlgebra.Matrix.Notation
import Mathlib.LinearAlgebra.Matrix.Trace
import Mathlib.Data.Rat.Defs
import Mathlib.Algebra.Order.Field.Rat
import Mathlib.Tactic.LinearCombination
import Mathlib.Tactic.FieldSimp
import Mathlib.Tactic.FinCases
import Mathlib.Tactic.NormNum
/-! # C15 — the pair energy over an arbitrary field, its Cartesian closed form and rotation invariance for all ranks

`s` stands for √3: no rational number has square 3, so statements that need `s * s = 3` are made over an arbitrary field `K`
(they apply to the reals with `s = √3`); the tensor entries over `K` are generated from the same source statements as the
rational ones (`Gen/EEK.lean`), and `energy_eq_energyK` shows that at `K = ℚ` the two models are the same function. -/
namespace Votca.C15
open Matrix

structure Q9K (K : Type) where
  (q dx dy dz q20 q21c q21s q22c q22s : K)

variable {K : Type} [Field K] [CharZero K]

/-- `vSite` over a field (same composition of the generated entries) -/
def vSiteK (x y z f s : K) (B : Q9K K) : Q9K K :=
  let f2 := f*f; let f3 := f*f*f; let f5 := f*f*f*f*f
  let adB := x*B.dx + y*B.dy + z*B.dz
  let g0 := Gen.EEK.g0 x y z f s; let g1 := Gen.EEK.g1 x y z f s; let g2 := Gen.EEK.g2 x y z f s; let g3 := Gen.EEK.g3 x y z f s; let g4 := Gen.EEK.g4 x y z f s
  let c0x := Gen.EEK.c0x x y z f s; let c0y := Gen.EEK.c0y x y z f s; let c0z := Gen.EEK.c0z x y z f s
  let c1x := Gen.EEK.c1x x y z f s; let c1y := Gen.EEK.c1y x y z f s; let c1z := Gen.EEK.c1z x y z f s
  let c2x := Gen.EEK.c2x x y z f s; let c2y := Gen.EEK.c2y x y z f s; let c2z := Gen.EEK.c2z x y z f s
  let c3x := Gen.EEK.c3x x y z f s; let c3y := Gen.EEK.c3y x y z f s; let c3z := Gen.EEK.c3z x y z f s
  let c4x := Gen.EEK.c4x x y z f s; let c4y := Gen.EEK.c4y x y z f s; let c4z := Gen.EEK.c4z x y z f s
  let m00 := Gen.EEK.m00 x y z f s; let m10 := Gen.EEK.m10 x y z f s; let m11 := Gen.EEK.m11 x y z f s; let m20 := Gen.EEK.m20 x y z f s; let m21 := Gen.EEK.m21 x y z f s; let m22 := Gen.EEK.m22 x y z f s; let m30 := Gen.EEK.m30 x y z f s; let m31 := Gen.EEK.m31 x y z f s
  let m32 := Gen.EEK.m32 x y z f s; let m33 := Gen.EEK.m33 x y z f s; let m40 := Gen.EEK.m40 x y z f s; let m41 := Gen.EEK.m41 x y z f s; let m42 := Gen.EEK.m42 x y z f s; let m43 := Gen.EEK.m43 x y z f s; let m44 := Gen.EEK.m44 x y z f s
  let QB0 := B.q20; let QB1 := B.q21c; let QB2 := B.q21s; let QB3 := B.q22c; let QB4 := B.q22s
  { q := f*B.q - f2*adB + f3*(g0*QB0 + g1*QB1 + g2*QB2 + g3*QB3 + g4*QB4),
    dx := f2*x*B.q + f3*(-3*x*adB + B.dx) - (c0x*QB0 + c1x*QB1 + c2x*QB2 + c3x*QB3 + c4x*QB4),
    dy := f2*y*B.q + f3*(-3*y*adB + B.dy) - (c0y*QB0 + c1y*QB1 + c2y*QB2 + c3y*QB3 + c4y*QB4),
    dz := f2*z*B.q + f3*(-3*z*adB + B.dz) - (c0z*QB0 + c1z*QB1 + c2z*QB2 + c3z*QB3 + c4z*QB4),
    q20  := f3*g0*B.q + (c0x*B.dx + c0y*B.dy + c0z*B.dz) + f5*(m00*QB0 + m10*QB1 + m20*QB2 + m30*QB3 + m40*QB4),
    q21c := f3*g1*B.q + (c1x*B.dx + c1y*B.dy + c1z*B.dz) + f5*(m10*QB0 + m11*QB1 + m21*QB2 + m31*QB3 + m41*QB4),
    q21s := f3*g2*B.q + (c2x*B.dx + c2y*B.dy + c2z*B.dz) + f5*(m20*QB0 + m21*QB1 + m22*QB2 + m32*QB3 + m42*QB4),
    q22c := f3*g3*B.q + (c3x*B.dx + c3y*B.dy + c3z*B.dz) + f5*(m30*QB0 + m31*QB1 + m32*QB2 + m33*QB3 + m43*QB4),
    q22s := f3*g4*B.q + (c4x*B.dx + c4y*B.dy + c4z*B.dz) + f5*(m40*QB0 + m41*QB1 + m42*QB2 + m43*QB3 + m44*QB4) }

def dotK (A B : Q9K K) : K :=
  A.q*B.q + A.dx*B.dx + A.dy*B.dy + A.dz*B.dz + A.q20*B.q20 + A.q21c*B.q21c + A.q21s*B.q21s + A.q22c*B.q22c + A.q22s*B.q22s

def energyK (x y z f s : K) (A B : Q9K K) : K := dotK A (vSiteK x y z f s B)

def toK (A : Q9) : Q9K ℚ := ⟨A.q, A.dx, A.dy, A.dz, A.q20, A.q21c, A.q21s, A.q22c, A.q22s⟩

set_option maxRecDepth 8000 in
/-- at `K = ℚ` the field model is the executable rational model -/
theorem energy_eq_energyK (x y z f s : ℚ) (A B : Q9) : energy x y z f s A B = energyK x y z f s (toK A) (toK B) := by
  simp only [energy, energyK, dot, dotK, vSite, vSiteK, toK, Gen.EE.g0, Gen.EE.g1, Gen.EE.g2, Gen.EE.g3, Gen.EE.g4, Gen.EE.c0x, Gen.EE.c0y, Gen.EE.c0z, Gen.EE.c1x, Gen.EE.c1y, Gen.EE.c1z, Gen.EE.c2x, Gen.EE.c2y, Gen.EE.c2z, Gen.EE.c3x, Gen.EE.c3y, Gen.EE.c3z, Gen.EE.c4x, Gen.EE.c4y, Gen.EE.c4z, Gen.EE.m00, Gen.EE.m10, Gen.EE.m11, Gen.EE.m20, Gen.EE.m21, Gen.EE.m22, Gen.EE.m30, Gen.EE.m31, Gen.EE.m32, Gen.EE.m33, Gen.EE.m40, Gen.EE.m41, Gen.EE.m42, Gen.EE.m43, Gen.EE.m44, Gen.EEK.g0, Gen.EEK.g1, Gen.EEK.g2, Gen.EEK.g3, Gen.EEK.g4, Gen.EEK.c0x, Gen.EEK.c0y, Gen.EEK.c0z, Gen.EEK.c1x, Gen.EEK.c1y, Gen.EEK.c1z, Gen.EEK.c2x, Gen.EEK.c2y, Gen.EEK.c2z, Gen.EEK.c3x, Gen.EEK.c3y, Gen.EEK.c3z, Gen.EEK.c4x, Gen.EEK.c4y, Gen.EEK.c4z, Gen.EEK.m00, Gen.EEK.m10, Gen.EEK.m11, Gen.EEK.m20, Gen.EEK.m21, Gen.EEK.m22, Gen.EEK.m30, Gen.EEK.m31, Gen.EEK.m32, Gen.EEK.m33, Gen.EEK.m40, Gen.EEK.m41, Gen.EEK.m42, Gen.EEK.m43, Gen.EEK.m44]

/-! ## Cartesian form -/

/-- `CalculateCartesianMultipole`: the traceless Cartesian quadrupole of the five spherical components -/
def thetaK (s : K) (A : Q9K K) : Matrix (Fin 3) (Fin 3) K :=
  !![(-A.q20 + s * A.q22c) / 2, s * A.q22s / 2, s * A.q21c / 2;
     s * A.q22s / 2, (-A.q20 - s * A.q22c) / 2, s * A.q21s / 2;
     s * A.q21c / 2, s * A.q21s / 2, A.q20]

def muK (A : Q9K K) : Fin 3 → K := ![A.dx, A.dy, A.dz]

/-- the textbook multipole expansion up to quadrupole–quadrupole, in invariants of the unit vector `a`, the dipoles and the
    Cartesian quadrupoles -/
def Ecl (a : Fin 3 → K) (f qa qb : K) (mA mB : Fin 3 → K) (TA TB : Matrix (Fin 3) (Fin 3) K) : K :=
  qa * qb * f - qa * (a ⬝ᵥ mB) * (f*f) + qb * (a ⬝ᵥ mA) * (f*f)
  + (mA ⬝ᵥ mB - 3 * (a ⬝ᵥ mA) * (a ⬝ᵥ mB)) * (f*f*f)
  + (qa * (a ⬝ᵥ TB *ᵥ a) + qb * (a ⬝ᵥ TA *ᵥ a)) * (f*f*f)
  + (-2 * (mA ⬝ᵥ TB *ᵥ a) + 5 * (a ⬝ᵥ mA) * (a ⬝ᵥ TB *ᵥ a) + 2 * (mB ⬝ᵥ TA *ᵥ a) - 5 * (a ⬝ᵥ mB) * (a ⬝ᵥ TA *ᵥ a)) * (f*f*f*f)
  + (2 / 3 * Matrix.trace (TA * TB) - 20 / 3 * ((TA *ᵥ a) ⬝ᵥ (TB *ᵥ a)) + 35 / 3 * (a ⬝ᵥ TA *ᵥ a) * (a ⬝ᵥ TB *ᵥ a)) * (f*f*f*f*f)

set_option maxRecDepth 8000 in
set_option maxHeartbeats 1000000 in
/-- **closed form for all ranks.**  With `s² = 3`, `|a| = 1` (in a field of characteristic zero) the spherical-tensor expression of
    the code is the Cartesian multipole expansion. -/
theorem energy_closed_form (x y z f s : K) (A B : Q9K K) (hs : s * s = 3) (hu : x * x + y * y + z * z = 1) :
    energyK x y z f s A B = Ecl ![x, y, z] f A.q B.q (muK A) (muK B) (thetaK s A) (thetaK s B) := by
  obtain ⟨qa, ax, ay, az, a0, a1, a2, a3, a4⟩ := A
  obtain ⟨qb, bx, byy, bz, b0, b1, b2, b3, b4⟩ := B
  simp only [energyK, dotK, vSiteK, Ecl, muK, thetaK, Gen.EEK.g0, Gen.EEK.g1, Gen.EEK.g2, Gen.EEK.g3, Gen.EEK.g4, Gen.EEK.c0x, Gen.EEK.c0y, Gen.EEK.c0z, Gen.EEK.c1x, Gen.EEK.c1y, Gen.EEK.c1z, Gen.EEK.c2x, Gen.EEK.c2y, Gen.EEK.c2z, Gen.EEK.c3x, Gen.EEK.c3y, Gen.EEK.c3z, Gen.EEK.c4x, Gen.EEK.c4y, Gen.EEK.c4z, Gen.EEK.m00, Gen.EEK.m10, Gen.EEK.m11, Gen.EEK.m20, Gen.EEK.m21, Gen.EEK.m22, Gen.EEK.m30, Gen.EEK.m31, Gen.EEK.m32, Gen.EEK.m33, Gen.EEK.m40, Gen.EEK.m41, Gen.EEK.m42, Gen.EEK.m43, Gen.EEK.m44, Matrix.mulVec, dotProduct, Fin.sum_univ_three, Matrix.trace, Matrix.diag,
    Matrix.mul_apply, Matrix.of_apply, Matrix.cons_val', Matrix.cons_val_zero, Matrix.cons_val_one, Matrix.cons_val_two, Matrix.empty_val',
    Matrix.cons_val_fin_one, Matrix.head_cons, Matrix.tail_cons, Fin.isValue, Matrix.vecHead, Matrix.vecTail, Function.comp_apply, Fin.succ_zero_eq_one, Fin.succ_one_eq_two]
  linear_combination (((-1 : K) / 3)*a1*b1*f*f*f*f*f + ((-1 : K) / 3)*a2*b2*f*f*f*f*f + ((-1 : K) / 3)*a3*b3*f*f*f*f*f + ((-1 : K) / 3)*a4*b4*f*f*f*f*f + ((-35 : K) / 12)*a3*b3*f*f*f*f*f*x*x*x*x + ((-35 : K) / 12)*a3*b3*f*f*f*f*f*y*y*y*y + ((5 : K) / 3)*a1*b1*f*f*f*f*f*x*x + ((5 : K) / 3)*a1*b1*f*f*f*f*f*z*z + ((5 : K) / 3)*a2*b2*f*f*f*f*f*y*y + ((5 : K) / 3)*a2*b2*f*f*f*f*f*z*z + ((5 : K) / 3)*a3*b3*f*f*f*f*f*x*x + ((5 : K) / 3)*a3*b3*f*f*f*f*f*y*y + ((5 : K) / 3)*a4*b4*f*f*f*f*f*x*x + ((5 : K) / 3)*a4*b4*f*f*f*f*f*y*y + ((-35 : K) / 3)*a1*b1*f*f*f*f*f*x*x*z*z + ((-35 : K) / 3)*a2*b2*f*f*f*f*f*y*y*z*z + ((-35 : K) / 3)*a4*b4*f*f*f*f*f*x*x*y*y + ((-35 : K) / 6)*a1*b3*z*f*f*f*f*f*x*x*x + ((-35 : K) / 6)*a3*b1*z*f*f*f*f*f*x*x*x + ((-35 : K) / 6)*a3*b4*y*f*f*f*f*f*x*x*x + ((-35 : K) / 6)*a4*b3*y*f*f*f*f*f*x*x*x + ((-5 : K) / 3)*a2*b3*y*z*f*f*f*f*f + ((-5 : K) / 3)*a3*b2*y*z*f*f*f*f*f + ((5 : K) / 3)*a1*b2*x*y*f*f*f*f*f + ((5 : K) / 3)*a1*b3*x*z*f*f*f*f*f + ((5 : K) / 3)*a1*b4*y*z*f*f*f*f*f + ((5 : K) / 3)*a2*b1*x*y*f*f*f*f*f + ((5 : K) / 3)*a2*b4*x*z*f*f*f*f*f + ((5 : K) / 3)*a3*b1*x*z*f*f*f*f*f + ((5 : K) / 3)*a4*b1*y*z*f*f*f*f*f + ((5 : K) / 3)*a4*b2*x*z*f*f*f*f*f + ((35 : K) / 6)*a2*b3*z*f*f*f*f*f*y*y*y + ((35 : K) / 6)*a3*b2*z*f*f*f*f*f*y*y*y + ((35 : K) / 6)*a3*b3*f*f*f*f*f*x*x*y*y + ((35 : K) / 6)*a3*b4*x*f*f*f*f*f*y*y*y + ((35 : K) / 6)*a4*b3*x*f*f*f*f*f*y*y*y + ((-35 : K) / 3)*a1*b2*x*y*f*f*f*f*f*z*z + ((-35 : K) / 3)*a1*b4*y*z*f*f*f*f*f*x*x + ((-35 : K) / 3)*a2*b1*x*y*f*f*f*f*f*z*z + ((-35 : K) / 3)*a2*b4*x*z*f*f*f*f*f*y*y + ((-35 : K) / 3)*a4*b1*y*z*f*f*f*f*f*x*x + ((-35 : K) / 3)*a4*b2*x*z*f*f*f*f*f*y*y + ((-35 : K) / 6)*a2*b3*y*z*f*f*f*f*f*x*x + ((-35 : K) / 6)*a3*b2*y*z*f*f*f*f*f*x*x + ((35 : K) / 6)*a1*b3*x*z*f*f*f*f*f*y*y + ((35 : K) / 6)*a3*b1*x*z*f*f*f*f*f*y*y) * hs + (((1 : K) / 2)*a0*qb*f*f*f + ((1 : K) / 2)*b0*qa*f*f*f + ((-5 : K) / 4)*a0*b0*f*f*f*f*f + ((-35 : K) / 12)*a0*b0*f*f*f*f*f*x*x + ((-35 : K) / 12)*a0*b0*f*f*f*f*f*y*y + ((-5 : K) / 2)*a0*bx*x*f*f*f*f + ((-5 : K) / 2)*a0*byy*y*f*f*f*f + ((-5 : K) / 2)*a0*bz*z*f*f*f*f + ((5 : K) / 2)*ax*b0*x*f*f*f*f + ((5 : K) / 2)*ay*b0*y*f*f*f*f + ((5 : K) / 2)*az*b0*z*f*f*f*f + ((175 : K) / 12)*a0*b0*f*f*f*f*f*z*z + ((-35 : K) / 12)*a0*b3*s*f*f*f*f*f*y*y + ((-35 : K) / 12)*a3*b0*s*f*f*f*f*f*y*y + ((35 : K) / 12)*a0*b3*s*f*f*f*f*f*x*x + ((35 : K) / 12)*a3*b0*s*f*f*f*f*f*x*x + ((35 : K) / 6)*a0*b1*s*x*z*f*f*f*f*f + ((35 : K) / 6)*a0*b2*s*y*z*f*f*f*f*f + ((35 : K) / 6)*a0*b4*s*x*y*f*f*f*f*f + ((35 : K) / 6)*a1*b0*s*x*z*f*f*f*f*f + ((35 : K) / 6)*a2*b0*s*y*z*f*f*f*f*f + ((35 : K) / 6)*a4*b0*s*x*y*f*f*f*f*f) * hu

/-! ## rotation -/

theorem dot_rot (R : Matrix (Fin 3) (Fin 3) K) (hR : Rᵀ * R = 1) (u v : Fin 3 → K) : (R *ᵥ u) ⬝ᵥ (R *ᵥ v) = u ⬝ᵥ v := by
  rw [← Matrix.vecMul_transpose R u, ← Matrix.dotProduct_mulVec, Matrix.mulVec_mulVec, hR, Matrix.one_mulVec]

theorem theta_rot (R : Matrix (Fin 3) (Fin 3) K) (hR : Rᵀ * R = 1) (T : Matrix (Fin 3) (Fin 3) K) (a : Fin 3 → K) :
    (R * T * Rᵀ) *ᵥ (R *ᵥ a) = R *ᵥ (T *ᵥ a) := by
  rw [Matrix.mulVec_mulVec, Matrix.mul_assoc (R * T), hR, Matrix.mul_one, ← Matrix.mulVec_mulVec]

theorem trace_conj (R : Matrix (Fin 3) (Fin 3) K) (hR : Rᵀ * R = 1) (M : Matrix (Fin 3) (Fin 3) K) :
    Matrix.trace (R * M * Rᵀ) = Matrix.trace M := by
  rw [Matrix.trace_mul_comm, ← Matrix.mul_assoc, hR, Matrix.one_mul]

theorem trace_rot (R : Matrix (Fin 3) (Fin 3) K) (hR : Rᵀ * R = 1) (TA TB : Matrix (Fin 3) (Fin 3) K) :
    Matrix.trace ((R * TA * Rᵀ) * (R * TB * Rᵀ)) = Matrix.trace (TA * TB) := by
  have e : (R * TA * Rᵀ) * (R * TB * Rᵀ) = R * (TA * TB) * Rᵀ := by
    calc (R * TA * Rᵀ) * (R * TB * Rᵀ) = R * TA * (Rᵀ * R) * TB * Rᵀ := by simp only [Matrix.mul_assoc]
      _ = R * (TA * TB) * Rᵀ := by rw [hR, Matrix.mul_one]; simp only [Matrix.mul_assoc]
  rw [e, trace_conj R hR]

/-- the Cartesian expansion is a function of rotation invariants -/
theorem Ecl_rot (R : Matrix (Fin 3) (Fin 3) K) (hR : Rᵀ * R = 1) (a : Fin 3 → K) (f qa qb : K) (mA mB : Fin 3 → K)
    (TA TB : Matrix (Fin 3) (Fin 3) K) :
    Ecl (R *ᵥ a) f qa qb (R *ᵥ mA) (R *ᵥ mB) (R * TA * Rᵀ) (R * TB * Rᵀ) = Ecl a f qa qb mA mB TA TB := by
  simp only [Ecl, theta_rot R hR, dot_rot R hR, trace_rot R hR]

/-- `StaticSite::Rotate` on the moments: the dipole is rotated, the quadrupole goes to Cartesian form, is conjugated with the rotation
    and comes back through `CalculateSphericalMultipole` -/
def rotQ (R : Matrix (Fin 3) (Fin 3) K) (s : K) (A : Q9K K) : Q9K K :=
  let m := R *ᵥ muK A
  let M := R * thetaK s A * Rᵀ
  ⟨A.q, m 0, m 1, m 2, M 2 2, 2 / s * M 0 2, 2 / s * M 1 2, 1 / s * (M 0 0 - M 1 1), 2 / s * M 0 1⟩

theorem thetaK_symm (s : K) (A : Q9K K) : (thetaK s A)ᵀ = thetaK s A := by
  ext i j; fin_cases i <;> fin_cases j <;> simp [thetaK, Matrix.transpose_apply]

theorem thetaK_trace (s : K) (A : Q9K K) : Matrix.trace (thetaK s A) = 0 := by
  simp [thetaK, Matrix.trace, Fin.sum_univ_three]; ring

/-- spherical components computed from a symmetric traceless matrix give that matrix back -/
theorem thetaK_of_sph (s : K) (hs : s * s = 3) (q dx dy dz : K) (M : Matrix (Fin 3) (Fin 3) K) (hsym : Mᵀ = M) (htr : Matrix.trace M = 0) :
    thetaK s ⟨q, dx, dy, dz, M 2 2, 2 / s * M 0 2, 2 / s * M 1 2, 1 / s * (M 0 0 - M 1 1), 2 / s * M 0 1⟩ = M := by
  have hs0 : s ≠ 0 := by rintro rfl; norm_num at hs
  have h10 : M 1 0 = M 0 1 := by have := congrFun (congrFun hsym 0) 1; simpa [Matrix.transpose_apply] using this
  have h20 : M 2 0 = M 0 2 := by have := congrFun (congrFun hsym 0) 2; simpa [Matrix.transpose_apply] using this
  have h21 : M 2 1 = M 1 2 := by have := congrFun (congrFun hsym 1) 2; simpa [Matrix.transpose_apply] using this
  have ht : M 0 0 + M 1 1 + M 2 2 = 0 := by simpa [Matrix.trace, Fin.sum_univ_three] using htr
  ext i j
  fin_cases i <;> fin_cases j <;> simp [thetaK] <;> field_simp <;> first | linear_combination ht | linear_combination (-1 : K) * ht | (rw [h10]) | (rw [h20]) | (rw [h21]) | ring

theorem thetaK_rotQ (R : Matrix (Fin 3) (Fin 3) K) (hR : Rᵀ * R = 1) (s : K) (hs : s * s = 3) (A : Q9K K) :
    thetaK s (rotQ R s A) = R * thetaK s A * Rᵀ := by
  unfold rotQ
  apply thetaK_of_sph s hs
  · rw [Matrix.transpose_mul, Matrix.transpose_mul, Matrix.transpose_transpose, thetaK_symm, Matrix.mul_assoc]
  · rw [trace_conj R hR, thetaK_trace]

theorem muK_rotQ (R : Matrix (Fin 3) (Fin 3) K) (s : K) (A : Q9K K) : muK (rotQ R s A) = R *ᵥ muK A := by
  ext i; fin_cases i <;> simp [muK, rotQ]

/-- **rotation invariance for all ranks**: rotating the connection direction and both sites' moments — dipoles as vectors, quadrupoles
    the way `StaticSite::Rotate` does it — by the same orthogonal matrix leaves the pair energy unchanged -/
theorem energyK_rotation_invariant (R : Matrix (Fin 3) (Fin 3) K) (hR : Rᵀ * R = 1) (x y z f s : K) (A B : Q9K K)
    (hs : s * s = 3) (hu : x * x + y * y + z * z = 1) :
    energyK ((R *ᵥ ![x, y, z]) 0) ((R *ᵥ ![x, y, z]) 1) ((R *ᵥ ![x, y, z]) 2) f s (rotQ R s A) (rotQ R s B) = energyK x y z f s A B := by
  have hvec : ![(R *ᵥ ![x, y, z]) 0, (R *ᵥ ![x, y, z]) 1, (R *ᵥ ![x, y, z]) 2] = R *ᵥ ![x, y, z] := by
    ext i; fin_cases i <;> rfl
  have hu' : (R *ᵥ ![x, y, z]) 0 * (R *ᵥ ![x, y, z]) 0 + (R *ᵥ ![x, y, z]) 1 * (R *ᵥ ![x, y, z]) 1 + (R *ᵥ ![x, y, z]) 2 * (R *ᵥ ![x, y, z]) 2 = 1 := by
    have := dot_rot R hR ![x, y, z] ![x, y, z]
    simp only [dotProduct, Fin.sum_univ_three] at this
    rw [this]; simpa using hu
  rw [energy_closed_form _ _ _ f s _ _ hs hu', energy_closed_form x y z f s A B hs hu, hvec, thetaK_rotQ R hR s hs, thetaK_rotQ R hR s hs,
    muK_rotQ, muK_rotQ]
  have hq : (rotQ R s A).q = A.q ∧ (rotQ R s B).q = B.q := ⟨rfl, rfl⟩
  rw [hq.1, hq.2]
  exact Ecl_rot R hR _ f _ _ _ _ _ _

end Votca.C15
