import Votca.Lemmas.C18Print
import Votca.Lemmas.C18Range
import Votca.Lemmas.C18Iter
import Votca.Lemmas.C18Index
/-! # C18 — the print / parse round trip of ranges and index lists AT STRING LEVEL

`printBlocks` writes the characters `operator<<(ostream&, RangeParser const&)` writes, `parse` consumes characters the way
`RangeParser::Parse` does (blank removal, the boost tokenizer at commas and colons, `std::stoi` on every field).  The lemmas here
show that the tokenizer cuts a printed range exactly where the printer put its separators, and that every printed field is scanned
back as the integer it was printed from.  Core Lean only. -/
namespace Votca.C18

/-! ## the splitter on texts without separators and on `a ++ sep :: b` -/

theorem splitAll_nosep (sep : Char → Bool) : ∀ (l : List Char), (∀ c ∈ l, sep c = false) → splitAll sep l = [l]
  | [], _ => rfl
  | c :: cs, h => by
    have hc : sep c = false := h c (by simp)
    have ih := splitAll_nosep sep cs (fun x hx => h x (by simp [hx]))
    simp [splitAll, hc, ih]

theorem splitAll_append_sep (sep : Char → Bool) (c : Char) (b : List Char) (hc : sep c = true) :
    ∀ (a : List Char), (∀ x ∈ a, sep x = false) → splitAll sep (a ++ c :: b) = a :: splitAll sep b
  | [], _ => by simp [splitAll, hc]
  | x :: a, h => by
    have hx : sep x = false := h x (by simp)
    have ih := splitAll_append_sep sep c b hc a (fun y hy => h y (by simp [hy]))
    simp [splitAll, hx, ih]

theorem tokenize_nosep (sep : Char → Bool) (l : List Char) (h : ∀ c ∈ l, sep c = false) (hne : l ≠ []) :
    tokenize sep l = [l] := by
  unfold tokenize
  rw [splitAll_nosep sep l h]
  cases l with
  | nil => exact absurd rfl hne
  | cons c cs => simp

theorem tokenize_append_sep (sep : Char → Bool) (c : Char) (a b : List Char) (hc : sep c = true)
    (ha : ∀ x ∈ a, sep x = false) (hne : a ≠ []) : tokenize sep (a ++ c :: b) = a :: tokenize sep b := by
  unfold tokenize
  rw [splitAll_append_sep sep c b hc a ha]
  cases a with
  | nil => exact absurd rfl hne
  | cons x xs => simp

/-! ## the characters of a printed integer -/

theorem showInt_chars (i : Int) : ∀ c ∈ showInt i, isDigit c = true ∨ c = '-' := by
  cases i with
  | ofNat n => rw [showInt_ofNat]; intro c hc; exact Or.inl (toDigits_all_digits n c hc)
  | negSucc n =>
    rw [showInt_negSucc]; intro c hc
    rcases List.mem_cons.mp hc with h | h
    · exact Or.inr h
    · exact Or.inl (toDigits_all_digits (n + 1) c h)

theorem showInt_ne_nil (i : Int) : showInt i ≠ [] := by
  cases i with
  | ofNat n => rw [showInt_ofNat]; exact Nat.toDigits_ne_nil
  | negSucc n => rw [showInt_negSucc]; simp

/-- a character of a printed integer is none of the separators the parsers cut at, and no white space -/
theorem showInt_char_plain (i : Int) (c : Char) (hc : c ∈ showInt i) :
    c ≠ ':' ∧ c ≠ ',' ∧ c ≠ ' ' ∧ c ≠ '\n' ∧ c ≠ '\t' ∧ isSpace c = false := by
  rcases showInt_chars i c hc with h | h
  · have h09 : '0' ≤ c ∧ c ≤ '9' := by
      unfold isDigit at h; simpa only [Bool.and_eq_true, decide_eq_true_eq] using h
    refine ⟨?_, ?_, ?_, ?_, ?_, (digit_facts c h).1⟩ <;> (intro e; subst e; revert h09; decide)
  · subst h; decide

theorem showInt_head_not_space (i : Int) : ∃ c cs, showInt i = c :: cs ∧ isSpace c = false := by
  cases h : showInt i with
  | nil => exact absurd h (showInt_ne_nil i)
  | cons c cs => exact ⟨c, cs, rfl, (showInt_char_plain i c (by rw [h]; simp)).2.2.2.2.2⟩

theorem scanInt_showInt_nil (i : Int) : scanInt (showInt i) = some (i, []) := by
  simpa using scanInt_showInt_lem i [] (by simp)

/-- `std::stoi` on the printed text of a 32-bit integer returns it -/
theorem toIntFull_showInt (i : Int) (h : inInt32 i = true) : toIntFull (showInt i) = some i := by
  unfold toIntFull; rw [scanInt_showInt_nil]; simp [h]

/-- `boost::lexical_cast<Index>` on the printed text of a 64-bit integer returns it -/
theorem lexCast_showInt (i : Int) (h : inInt64 i = true) : lexCast (showInt i) = some i := by
  obtain ⟨c, cs, hcs, hsp⟩ := showInt_head_not_space i
  unfold lexCast
  rw [hcs]; simp only [hsp, Bool.false_eq_true, if_false]
  rw [← hcs, scanInt_showInt_nil]; simp [h]

theorem countChar_append (c : Char) (a b : List Char) : countChar c (a ++ b) = countChar c a + countChar c b := by
  simp [countChar, List.filter_append]

theorem countChar_showInt (i : Int) : countChar ':' (showInt i) = 0 := by
  unfold countChar
  rw [List.length_eq_zero_iff, List.filter_eq_nil_iff]
  intro c hc; simpa using (showInt_char_plain i c hc).1

theorem countChar_cons_self (c : Char) (l : List Char) : countChar c (c :: l) = countChar c l + 1 := by
  simp [countChar]

/-! ## one block -/

/-- what can be printed and read back: 32-bit fields (what `std::stoi` delivers), non-zero stride, end on the side of the stride -/
structure Printable (k : Block) : Prop where
  hb : inInt32 k.b = true
  hs : inInt32 k.s = true
  he : inInt32 k.e = true
  ok : (0 < k.s ∧ k.b ≤ k.e) ∨ (k.s < 0 ∧ k.e ≤ k.b)

/-- the block a printed block is read back as: a single value loses its stride (`7:3:7` is printed as `7`) -/
def normBlock (k : Block) : Block := if k.b = k.e then ⟨k.b, 1, k.b⟩ else k

theorem closed_of_ok (k : Block) (h : (0 < k.s ∧ k.b ≤ k.e) ∨ (k.s < 0 ∧ k.e ≤ k.b)) : closed k = true := by
  unfold closed
  simp only [Bool.not_eq_true', decide_eq_false_iff_not, Int.not_lt, gt_iff_lt]
  rcases h with ⟨h1, h2⟩ | ⟨h1, h2⟩
  · exact Int.mul_le_mul_of_nonneg_right h2 (Int.le_of_lt h1)
  · exact Int.mul_le_mul_of_nonpos_right h2 (Int.le_of_lt h1)

theorem showInt_no (sep : Char) (hsep : sep = ':' ∨ sep = ',') (i : Int) : ∀ x ∈ showInt i, (decide (x = sep)) = false := by
  intro x hx
  have := showInt_char_plain i x hx
  rcases hsep with rfl | rfl <;> simp [this.1, this.2.1]

theorem parseBlock_printBlock (k : Block) (h : Printable k) : parseBlock (printBlock k) = some (normBlock k) := by
  have hcol : (fun c : Char => decide (c = ':')) ':' = true := by simp
  unfold printBlock normBlock
  by_cases h1 : k.b = k.e
  · simp only [h1, if_true]
    unfold parseBlock
    rw [tokenize_nosep _ (showInt k.e) (showInt_no ':' (Or.inl rfl) k.e) (showInt_ne_nil _)]
    simp [countChar_showInt, toIntFull_showInt k.e h.he]
  · simp only [h1, if_false]
    by_cases h2 : k.s = 1
    · simp only [h2, if_true]
      unfold parseBlock
      rw [tokenize_append_sep _ ':' _ _ hcol (showInt_no ':' (Or.inl rfl) k.b) (showInt_ne_nil _),
        tokenize_nosep _ (showInt k.e) (showInt_no ':' (Or.inl rfl) k.e) (showInt_ne_nil _)]
      have hcl : closed ⟨k.b, 1, k.e⟩ = true := by
        have := closed_of_ok k h.ok; rw [show k = ⟨k.b, k.s, k.e⟩ from rfl, h2] at this; exact this
      have hk : k = ⟨k.b, 1, k.e⟩ := by rw [← h2]
      simp [countChar_append, countChar_cons_self, countChar_showInt, toIntFull_showInt k.b h.hb,
        toIntFull_showInt k.e h.he, hcl]
      exact hk.symm
    · simp only [h2, if_false, List.append_assoc, List.cons_append]
      unfold parseBlock
      rw [tokenize_append_sep _ ':' _ _ hcol (showInt_no ':' (Or.inl rfl) k.b) (showInt_ne_nil _),
        tokenize_append_sep _ ':' _ _ hcol (showInt_no ':' (Or.inl rfl) k.s) (showInt_ne_nil _),
        tokenize_nosep _ (showInt k.e) (showInt_no ':' (Or.inl rfl) k.e) (showInt_ne_nil _)]
      have hs0 : k.s ≠ 0 := by rcases h.ok with ⟨a, _⟩ | ⟨a, _⟩ <;> omega
      have hcl : closed ⟨k.b, k.s, k.e⟩ = true := closed_of_ok k h.ok
      simp [countChar_append, countChar_cons_self, countChar_showInt, toIntFull_showInt k.b h.hb,
        toIntFull_showInt k.s h.hs, toIntFull_showInt k.e h.he, hs0, hcl]

/-! ## a list of blocks -/

theorem printBlock_chars (k : Block) : ∀ c ∈ printBlock k, c ≠ ',' ∧ c ≠ ' ' := by
  intro c hc
  have key : ∀ i, c ∈ showInt i → c ≠ ',' ∧ c ≠ ' ' := fun i hi =>
    ⟨(showInt_char_plain i c hi).2.1, (showInt_char_plain i c hi).2.2.1⟩
  unfold printBlock at hc
  split at hc
  · exact key _ hc
  · split at hc
    · simp only [List.mem_append, List.mem_cons] at hc
      rcases hc with hc | rfl | hc
      · exact key _ hc
      · decide
      · exact key _ hc
    · simp only [List.mem_append, List.mem_cons] at hc
      rcases hc with (hc | rfl | hc) | rfl | hc
      · exact key _ hc
      · decide
      · exact key _ hc
      · decide
      · exact key _ hc

theorem printBlock_ne_nil (k : Block) : printBlock k ≠ [] := by
  unfold printBlock
  split
  · exact showInt_ne_nil _
  · split <;> simp [showInt_ne_nil]

theorem printBlocks_no_space : ∀ (bs : List Block), ∀ c ∈ printBlocks bs, c ≠ ' '
  | [], c, hc => by simp [printBlocks] at hc
  | [k], c, hc => (printBlock_chars k c (by simpa [printBlocks] using hc)).2
  | k :: k' :: ks, c, hc => by
    simp only [printBlocks, List.mem_append, List.mem_cons] at hc
    rcases hc with hc | rfl | hc
    · exact (printBlock_chars k c hc).2
    · decide
    · exact printBlocks_no_space (k' :: ks) c hc

theorem tokenize_printBlocks : ∀ (bs : List Block), tokenize (· = ',') (printBlocks bs) = bs.map printBlock
  | [] => by simp [printBlocks, tokenize, splitAll]
  | [k] => by
    simp only [printBlocks, List.map]
    exact tokenize_nosep _ _ (fun c hc => by simpa using (printBlock_chars k c hc).1) (printBlock_ne_nil k)
  | k :: k' :: ks => by
    simp only [printBlocks, List.map]
    rw [tokenize_append_sep _ ',' _ _ (by simp) (fun c hc => by simpa using (printBlock_chars k c hc).1) (printBlock_ne_nil k)]
    have := tokenize_printBlocks (k' :: ks)
    simp only [List.map] at this
    rw [this]

theorem mapM_parse_print : ∀ (bs : List Block), (∀ k ∈ bs, Printable k) →
    (bs.map printBlock).mapM parseBlock = some (bs.map normBlock)
  | [], _ => rfl
  | k :: ks, h => by
    have ih := mapM_parse_print ks (fun k' hk' => h k' (by simp [hk']))
    simp only [List.map, List.mapM_cons, parseBlock_printBlock k (h k (by simp)), ih]
    rfl

theorem blankInNumber_noblank : ∀ (s : List Char) (d : Bool), (∀ c ∈ s, c ≠ ' ') → blankInNumber s d false = false
  | [], _, _ => rfl
  | c :: cs, d, h => by
    have hc : c ≠ ' ' := h c (by simp)
    simp only [blankInNumber, hc, if_false, Bool.and_false, Bool.false_eq_true]
    exact blankInNumber_noblank cs _ (fun x hx => h x (by simp [hx]))

theorem countComma_printBlock (k : Block) : countChar ',' (printBlock k) = 0 := by
  unfold countChar
  rw [List.length_eq_zero_iff, List.filter_eq_nil_iff]
  intro c hc; simpa using (printBlock_chars k c hc).1

theorem countComma_printBlocks : ∀ (bs : List Block), countChar ',' (printBlocks bs) + 1 = bs.length ∨ bs = []
  | [] => Or.inr rfl
  | [k] => by left; simp [printBlocks, countComma_printBlock]
  | k :: k' :: ks => by
    left
    rcases countComma_printBlocks (k' :: ks) with h | h
    · simp only [printBlocks, countChar_append, countChar_cons_self, countComma_printBlock, List.length_cons] at h ⊢
      omega
    · cases h

/-- **printed ranges are parsed back block by block** -/
theorem parse_printBlocks (bs : List Block) (h : ∀ k ∈ bs, Printable k) :
    parse (printBlocks bs) = some (bs.map normBlock) := by
  unfold parse
  have hf : (printBlocks bs).filter (· ≠ ' ') = printBlocks bs := by
    rw [List.filter_eq_self]; intro c hc; simpa using printBlocks_no_space bs c hc
  have ho : outerOK (printBlocks bs) = true := by
    unfold outerOK
    rw [blankInNumber_noblank _ _ (printBlocks_no_space bs)]
    simp only [hf, tokenize_printBlocks, List.length_map, Bool.not_false, Bool.true_and, Bool.or_eq_true, beq_iff_eq]
    rcases countComma_printBlocks bs with h1 | h1
    · exact Or.inr h1
    · left; subst h1; rfl
  rw [if_pos ho, hf, tokenize_printBlocks, mapM_parse_print bs h]

theorem denoteBlock_norm (k : Block) : denoteBlock (normBlock k) = denoteBlock k := by
  unfold normBlock
  split
  · rename_i h
    have hc : count k = 1 := by unfold count; rw [h]; simp
    have hc' : count ⟨k.b, 1, k.b⟩ = 1 := by unfold count; simp
    unfold denoteBlock; rw [hc, hc']; simp [List.range_succ]
  · rfl

theorem denote_norm (bs : List Block) : denote (bs.map normBlock) = denote bs := by
  unfold denote
  induction bs with
  | nil => rfl
  | cons k ks ih => simp only [List.map, List.flatMap_cons, denoteBlock_norm, ih]

/-! ## what `parse` accepts is printable -/

theorem toIntFull_int32 (s : List Char) (i : Int) (h : toIntFull s = some i) : inInt32 i = true := by
  unfold toIntFull at h
  split at h
  · split at h
    · rename_i hi; simp at h; subst h; exact hi
    · simp at h
  · simp at h

theorem mapM_all {α β} (f : α → Option β) (P : β → Prop) (hf : ∀ a b, f a = some b → P b) :
    ∀ (l : List α) (r : List β), l.mapM f = some r → ∀ b ∈ r, P b
  | [], r, h => by simp at h; subst h; simp
  | a :: l, r, h => by
    simp only [List.mapM_cons] at h
    cases hfa : f a with
    | none => simp [hfa] at h
    | some b0 =>
      cases hl : l.mapM f with
      | none => simp [hfa, hl] at h
      | some r0 =>
        simp [hfa, hl] at h
        subst h
        intro b hb
        rcases List.mem_cons.mp hb with rfl | hb
        · exact hf a _ hfa
        · exact mapM_all f P hf l r0 hl b hb

theorem specBlock_printable (str : List Char) (k : Block) (h : specBlock str = some k) : Printable k := by
  unfold specBlock at h
  cases hm : (splitAll (· = ':') str).mapM toIntFull with
  | none => simp [hm] at h
  | some l =>
    have hall := mapM_all toIntFull (fun i => inInt32 i = true) toIntFull_int32 _ l hm
    rw [hm] at h
    match l, h, hall with
    | [b], h, hall =>
      simp at h; subst h
      exact ⟨hall b (by simp), (by decide : inInt32 1 = true), hall b (by simp), Or.inl ⟨(by decide : (0:Int) < 1), Int.le_refl _⟩⟩
    | [b, e], h, hall =>
      simp at h
      obtain ⟨hle, rfl⟩ := h
      exact ⟨hall b (by simp), (by decide : inInt32 1 = true), hall e (by simp), Or.inl ⟨(by decide : (0:Int) < 1), hle⟩⟩
    | [b, s, e], h, hall =>
      simp at h
      obtain ⟨hok, rfl⟩ := h
      exact ⟨hall b (by simp), hall s (by simp), hall e (by simp), hok⟩
    | [], h, _ => simp at h
    | _ :: _ :: _ :: _ :: _, h, _ => simp at h

theorem parse_printable (str : List Char) (bs : List Block) (h : parse str = some bs) : ∀ k ∈ bs, Printable k := by
  rw [parse_eq_spec] at h
  exact mapM_all specBlock Printable specBlock_printable _ bs (specParse_some str bs h).2

/-! ## index strings -/

theorem printRun_chars (p : Int × Int) : ∀ c ∈ printRun p, isIndexSep c = false := by
  intro c hc
  have key : ∀ i, c ∈ showInt i → isIndexSep c = false := fun i hi => by
    have := showInt_char_plain i c hi
    simp [isIndexSep, this.2.1, this.2.2.1, this.2.2.2.1, this.2.2.2.2.1]
  unfold printRun at hc
  split at hc
  · exact key _ hc
  · simp only [List.mem_append, List.mem_cons] at hc
    rcases hc with hc | rfl | hc
    · exact key _ hc
    · decide
    · exact key _ hc

theorem printRun_ne_nil (p : Int × Int) : printRun p ≠ [] := by
  unfold printRun; split <;> simp [showInt_ne_nil]

theorem tokenize_joinSp : ∀ (l : List (List Char)), (∀ t ∈ l, (∀ c ∈ t, isIndexSep c = false) ∧ t ≠ []) →
    tokenize isIndexSep (joinSp l) = l
  | [], _ => by simp [joinSp, tokenize, splitAll]
  | [t], h => by
    simp only [joinSp]
    exact tokenize_nosep _ _ (h t (by simp)).1 (h t (by simp)).2
  | t :: t' :: ts, h => by
    simp only [joinSp]
    rw [tokenize_append_sep _ ' ' _ _ (by decide) (h t (by simp)).1 (h t (by simp)).2,
      tokenize_joinSp (t' :: ts) (fun u hu => h u (by simp [hu]))]

theorem takeWhile_append_stop (p : Char → Bool) (c : Char) (hc : p c = false) :
    ∀ (a b : List Char), (∀ x ∈ a, p x = true) → (a ++ c :: b).takeWhile p = a ∧ (a ++ c :: b).dropWhile p = c :: b
  | [], b, _ => by simp [hc]
  | x :: a, b, h => by
    have hx := h x (by simp)
    have ih := takeWhile_append_stop p c hc a b (fun y hy => h y (by simp [hy]))
    simp [hx, ih.1, ih.2]

theorem parseIndexToken_printRun (p : Int × Int) (h1 : inInt64 p.1 = true) (h2 : inInt64 p.2 = true) :
    parseIndexToken (printRun p) = some (if p.1 = p.2 then (p.1, p.1) else p) := by
  unfold printRun
  by_cases he : p.1 = p.2
  · simp only [he, if_true]
    unfold parseIndexToken
    have hnc : (showInt p.2).contains ':' = false := by
      rw [Bool.eq_false_iff]; intro hc
      rw [List.contains_iff_mem] at hc
      exact (showInt_char_plain p.2 ':' hc).1 rfl
    simp only [hnc, Bool.false_eq_true, if_false, lexCast_showInt p.2 h2]
  · simp only [he, if_false]
    unfold parseIndexToken
    have hc : (showInt p.1 ++ ':' :: showInt p.2).contains ':' = true := by
      rw [List.contains_iff_mem]; simp
    have hsplit := takeWhile_append_stop (· ≠ ':') ':' (by simp) (showInt p.1) (showInt p.2)
      (fun x hx => by simpa using (showInt_char_plain p.1 x hx).1)
    simp only [hc, if_true, hsplit.1, hsplit.2, List.drop_succ_cons, List.drop_zero,
      lexCast_showInt p.1 h1, lexCast_showInt p.2 h2]

theorem expandPair_diag (x y : Int) (h : x = y) : expandPair (x, x) = expandPair (x, y) := by subst h; rfl

theorem mapM_index_print : ∀ (rs : List (Int × Int)), (∀ p ∈ rs, inInt64 p.1 = true ∧ inInt64 p.2 = true) →
    ∃ ps, (rs.map printRun).mapM parseIndexToken = some ps ∧ expand ps = expand rs
  | [], _ => ⟨[], rfl, rfl⟩
  | p :: rs, h => by
    obtain ⟨ps, hps, hex⟩ := mapM_index_print rs (fun q hq => h q (by simp [hq]))
    refine ⟨(if p.1 = p.2 then (p.1, p.1) else p) :: ps, ?_, ?_⟩
    · simp only [List.map, List.mapM_cons, parseIndexToken_printRun p (h p (by simp)).1 (h p (by simp)).2, hps]
      rfl
    · unfold expand at hex ⊢
      simp only [List.flatMap_cons, hex]
      congr 1
      split
      · rename_i he; exact expandPair_diag p.1 p.2 he
      · rfl

theorem runs_endpoints_mem : ∀ (xs : List Int) (p : Int × Int), p ∈ runs xs → p.1 ∈ xs ∧ p.2 ∈ xs
  | [], p, h => by simp [runs] at h
  | x :: xs, p, h => by
    have ih := runs_endpoints_mem xs
    unfold runs at h
    split at h
    · rename_i a b rest heq
      split at h
      · rcases List.mem_cons.mp h with rfl | h
        · exact ⟨by simp, by simpa using Or.inr (ih (a, b) (by rw [heq]; simp)).2⟩
        · have := ih p (by rw [heq]; simp [h]); exact ⟨by simp [this.1], by simp [this.2]⟩
      · rcases List.mem_cons.mp h with rfl | h
        · simp
        · have := ih p (by rw [heq]; exact h); exact ⟨by simp [this.1], by simp [this.2]⟩
    · simp at h; subst h; simp

/-- **index string round trip at string level**: the text `CreateIndexString` writes for a list of 64-bit indices is read by
    `CreateIndexVector` as the sorted duplicate-free list -/
theorem createIndexVector_createIndexString (xs : List Int) (h : ∀ x ∈ xs, inInt64 x = true) :
    createIndexVector (createIndexString xs) = some (sortDedup xs) := by
  unfold createIndexVector createIndexString
  have hr : ∀ p ∈ runs (sortDedup xs), inInt64 p.1 = true ∧ inInt64 p.2 = true := fun p hp =>
    ⟨h _ ((mem_sortDedup _ _).mp (runs_endpoints_mem _ p hp).1), h _ ((mem_sortDedup _ _).mp (runs_endpoints_mem _ p hp).2)⟩
  rw [tokenize_joinSp _ (fun t ht => by
    obtain ⟨p, _, rfl⟩ := List.mem_map.mp ht
    exact ⟨printRun_chars p, printRun_ne_nil p⟩)]
  obtain ⟨ps, hps, hex⟩ := mapM_index_print (runs (sortDedup xs)) hr
  rw [hps]
  simp only [hex, expand_runs _ (sortDedup_sorted xs), sortDedup_of_sorted _ (sortDedup_sorted xs)]

end Votca.C18
