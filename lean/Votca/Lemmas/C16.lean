import Votca.Model.C16
import Mathlib.Tactic.Linarith
import Mathlib.Data.List.Sort
/-! # C16 — helper lemmas: the invariant of the breadth-first labelling (queue sources sorted by label, labels within +1,
every explored vertex's neighbour labelled or queued, every label witnessed by a walk) -/
namespace Votca.C16

inductive Walk (adj : Nat → List Nat) : Nat → Nat → Nat → Prop
  | nil (u : Nat) : Walk adj 0 u u
  | cons {k u w v : Nat} : w ∈ adj u → Walk adj k w v → Walk adj (k + 1) u v

theorem Walk.snoc {adj : Nat → List Nat} {k s u w : Nat} (h : Walk adj k s u) (hw : w ∈ adj u) :
    Walk adj (k + 1) s w := by
  induction h with
  | nil u => exact Walk.cons hw (Walk.nil w)
  | cons hx _ ih => exact Walk.cons hx (ih hw)

theorem Walk.last {adj : Nat → List Nat} : ∀ {j s u : Nat}, Walk adj (j + 1) s u →
    ∃ y, Walk adj j s y ∧ u ∈ adj y := by
  intro j
  induction j with
  | zero =>
    intro s u h
    cases h with
    | cons hab hbc => cases hbc; exact ⟨s, Walk.nil _, hab⟩
  | succ j ih =>
    intro s u h
    cases h with
    | cons hab hbc =>
      obtain ⟨y, hy1, hy2⟩ := ih hbc
      exact ⟨y, Walk.cons hab hy1, hy2⟩

def srcD (st : St) (e : Nat × Nat) : Nat := (st.dist e.1).getD 0

structure Inv (adj : Nat → List Nat) (s : Nat) (st : St) : Prop where
  src : st.dist s = some 0
  e1 : ∀ e ∈ st.queue, (st.dist e.1).isSome
  e1' : ∀ e ∈ st.queue, e.2 ∈ adj e.1
  e2 : (st.queue.map (srcD st)).Pairwise (· ≤ ·)
  e3 : ∀ v dv, st.dist v = some dv → ∀ e ∈ st.queue, dv ≤ srcD st e + 1
  f : ∀ y dy, st.dist y = some dy → ∀ x ∈ adj y,
        (∃ dx, st.dist x = some dx ∧ dx ≤ dy + 1) ∨ (y, x) ∈ st.queue
  a : ∀ v d, st.dist v = some d → Walk adj d s v

theorem mem_pushes {adj : Nat → List Nat} {dist : Nat → Option Nat} {w : Nat} {e : Nat × Nat} :
    e ∈ pushes adj dist w ↔ e.1 = w ∧ e.2 ∈ adj w ∧ dist e.2 = none := by
  unfold pushes
  simp only [List.mem_map, List.mem_filter]
  constructor
  · rintro ⟨x, ⟨hx, hd⟩, rfl⟩
    refine ⟨rfl, hx, ?_⟩
    simpa [Option.isNone_iff_eq_none] using hd
  · rintro ⟨h1, h2, h3⟩
    refine ⟨e.2, ⟨h2, by simp [h3]⟩, ?_⟩
    cases e; simp at h1; simp [h1]

theorem inv_init (adj : Nat → List Nat) (s : Nat) : Inv adj s (init adj s) := by
  unfold init
  refine ⟨by simp, ?_, ?_, ?_, ?_, ?_, ?_⟩
  · intro e he; rw [mem_pushes] at he; simp [he.1]
  · intro e he; rw [mem_pushes] at he; rw [he.1]; exact he.2.1
  · -- all sources are s with distance 0
    rw [List.pairwise_map]
    apply List.pairwise_of_forall_mem_list
    intro a ha b hb
    rw [mem_pushes] at ha hb
    simp [srcD, ha.1, hb.1]
  · intro v dv hv e he
    dsimp only at hv
    split at hv
    · cases hv; omega
    · cases hv
  · intro y dy hy x hx
    dsimp only at hy ⊢
    split at hy
    · rename_i hys; subst hys; cases hy
      by_cases hxs : x = y
      · left; exact ⟨0, by simp [hxs], by omega⟩
      · right; rw [mem_pushes]; exact ⟨rfl, hx, by simp [hxs]⟩
    · cases hy
  · intro v d hv
    dsimp only at hv
    split at hv
    · rename_i h; subst h; cases hv; exact Walk.nil _
    · cases hv


theorem inv_step (adj : Nat → List Nat) (s : Nat) (st st' : St) (h : Inv adj s st)
    (hs : step adj st = some st') : Inv adj s st' := by
  obtain ⟨src, e1, e1', e2, e3, f, a⟩ := h
  unfold step at hs
  split at hs
  · cases hs
  · rename_i u w rest hq
    have hmem : (u, w) ∈ st.queue := by rw [hq]; simp
    have hrest : ∀ e, e ∈ rest → e ∈ st.queue := by intro e he; rw [hq]; simp [he]
    rw [hq] at e2
    simp only [List.map_cons, List.pairwise_cons, List.mem_map, forall_exists_index, and_imp,
      forall_apply_eq_imp_iff₂] at e2
    obtain ⟨hhead, htail⟩ := e2
    split at hs
    · -- far end already explored: the edge is dropped
      rename_i dw hdw
      cases hs
      refine ⟨src, fun e he => e1 e (hrest e he), fun e he => e1' e (hrest e he), htail,
        fun v dv hv e he => e3 v dv hv e (hrest e he), ?_, a⟩
      intro y dy hy x hx
      rcases f y dy hy x hx with hl | hr
      · exact Or.inl hl
      · rw [hq] at hr
        rcases List.mem_cons.1 hr with heq | hin
        · left
          have hyu : y = u := congrArg Prod.fst heq
          have hxw : x = w := congrArg Prod.snd heq
          rw [hxw]
          refine ⟨dw, hdw, ?_⟩
          have h3 := e3 w dw hdw (u, w) hmem
          have hy' : st.dist u = some dy := hyu ▸ hy
          have : srcD st (u, w) = dy := by simp [srcD, hy']
          rw [this] at h3; exact h3
        · exact Or.inr hin
    · -- far end unexplored: label it and push its edges
      rename_i hdw
      cases hs
      obtain ⟨du, hdu⟩ := Option.isSome_iff_exists.1 (e1 (u, w) hmem)
      have hduD : (st.dist u).getD 0 = du := by simp [hdu]
      have hwadj : w ∈ adj u := e1' (u, w) hmem
      have hsw : s ≠ w := by intro e; rw [e, hdw] at src; cases src
      -- distances of explored vertices are unchanged
      have keep : ∀ v dv, st.dist v = some dv → (if v = w then some ((st.dist u).getD 0 + 1) else st.dist v) = some dv := by
        intro v dv hv
        have : v ≠ w := by intro e; rw [e, hdw] at hv; cases hv
        simp [this, hv]
      have srcKeep : ∀ e, e ∈ rest → srcD (explore adj st u w rest) e = srcD st e := by
        intro e he
        obtain ⟨de, hde⟩ := Option.isSome_iff_exists.1 (e1 e (hrest e he))
        simp only [srcD, explore]; rw [keep e.1 de hde, hde]
      have srcPush : ∀ e, e ∈ pushes adj st.dist w → srcD (explore adj st u w rest) e = du + 1 := by
        intro e he
        rw [mem_pushes] at he
        simp [srcD, explore, he.1, hduD]
      have headLe : ∀ e, e ∈ rest → du ≤ srcD st e := by
        intro e he
        have := hhead e he
        simpa [srcD, hdu] using this
      have allLe : ∀ v dv, st.dist v = some dv → dv ≤ du + 1 := by
        intro v dv hv
        have := e3 v dv hv (u, w) hmem
        simpa [srcD, hdu] using this
      refine ⟨?_, ?_, ?_, ?_, ?_, ?_, ?_⟩
      · simp [explore, hsw, src]
      · intro e he
        rcases List.mem_append.1 he with h1 | h1
        · obtain ⟨de, hde⟩ := Option.isSome_iff_exists.1 (e1 e (hrest e h1))
          show (if e.1 = w then _ else _ : Option Nat).isSome = true
          rw [keep e.1 de hde]; rfl
        · rw [mem_pushes] at h1
          show (if e.1 = w then _ else _ : Option Nat).isSome = true
          simp [h1.1]
      · intro e he
        rcases List.mem_append.1 he with h1 | h1
        · exact e1' e (hrest e h1)
        · rw [mem_pushes] at h1; rw [h1.1]; exact h1.2.1
      · show ((rest ++ pushes adj st.dist w).map (srcD (explore adj st u w rest))).Pairwise (· ≤ ·)
        rw [List.map_append, List.pairwise_append]
        refine ⟨?_, ?_, ?_⟩
        · rw [List.pairwise_map]
          have := List.pairwise_map.1 htail
          exact this.imp_of_mem (fun {a b} ha hb hab => by rw [srcKeep a ha, srcKeep b hb]; exact hab)
        · rw [List.pairwise_map]
          apply List.pairwise_of_forall_mem_list
          intro a ha b hb
          rw [srcPush a ha, srcPush b hb]
        · intro x hx y hy
          obtain ⟨ex, hex, rfl⟩ := List.mem_map.1 hx
          obtain ⟨ey, hey, rfl⟩ := List.mem_map.1 hy
          rw [srcKeep ex hex, srcPush ey hey]
          obtain ⟨de, hde⟩ := Option.isSome_iff_exists.1 (e1 ex (hrest ex hex))
          have := allLe ex.1 de hde
          simpa [srcD, hde] using this
      · intro v dv hv e he
        simp only [explore] at hv
        rcases List.mem_append.1 he with h1 | h1
        · rw [srcKeep e h1]
          split at hv
          · cases hv; rw [hduD]; have := headLe e h1; omega
          · exact e3 v dv hv e (hrest e h1)
        · rw [srcPush e h1]
          split at hv
          · cases hv; rw [hduD]; omega
          · have := allLe v dv hv; omega
      · intro y dy hy x hx
        simp only [explore] at hy ⊢
        split at hy
        · -- y = w
          rename_i hyw; subst hyw; cases hy
          rw [hduD]
          by_cases hxy : x = y
          · left; exact ⟨du + 1, by simp [hxy, hduD], by omega⟩
          · cases hdx : st.dist x with
            | some dx =>
              left; refine ⟨dx, by simp [hxy, hdx], ?_⟩
              have := allLe x dx hdx; omega
            | none =>
              right; apply List.mem_append_right; rw [mem_pushes]; exact ⟨rfl, hx, hdx⟩
        · rename_i hyw
          rcases f y dy hy x hx with ⟨dx, hdx, hle⟩ | hr
          · left; exact ⟨dx, keep x dx hdx, hle⟩
          · rw [hq] at hr
            rcases List.mem_cons.1 hr with heq | hin
            · have hyu : y = u := congrArg Prod.fst heq
              have hxw : x = w := congrArg Prod.snd heq
              left
              refine ⟨du + 1, by simp [hxw, hduD], ?_⟩
              rw [hyu, hdu] at hy; cases hy; omega
            · right; exact List.mem_append_left _ hin
      · intro v d hv
        simp only [explore] at hv
        split at hv
        · rename_i hvw; subst hvw; cases hv
          rw [hduD]
          exact (a u du hdu).snoc hwadj
        · exact a v d hv

theorem inv_run (adj : Nat → List Nat) (s : Nat) (k : Nat) : ∀ st, Inv adj s st → Inv adj s (run adj k st) := by
  induction k with
  | zero => intro st h; exact h
  | succ k ih =>
    intro st h
    unfold run
    cases hs : step adj st with
    | none => exact h
    | some st' => exact ih st' (inv_step adj s st st' h hs)


end Votca.C16
