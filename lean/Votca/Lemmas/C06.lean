import Votca.Model.C06
import Mathlib.Data.Matrix.Basic
import Mathlib.Data.Matrix.Mul
import Mathlib.Data.Matrix.Diagonal
import Mathlib.Data.Real.Basic
import Mathlib.Tactic.Ring
import Mathlib.Tactic.FieldSimp
import Mathlib.Tactic.Linarith
/-! # C06 — matrix lemmas (over ℝ) -/
namespace Votca.C06
open Matrix

variable {m n k : Type} [Fintype m] [Fintype n] [Fintype k]

/-- `u ⬝ (A v) = (Aᵀ u) ⬝ v` -/
theorem dot_mulVec_eq (A : Matrix m n ℝ) (u : m → ℝ) (v : n → ℝ) :
    u ⬝ᵥ (A *ᵥ v) = (Aᵀ *ᵥ u) ⬝ᵥ v := by
  rw [Matrix.dotProduct_mulVec, Matrix.mulVec_transpose]

theorem dot_self_nonneg (v : n → ℝ) : 0 ≤ v ⬝ᵥ v := by
  unfold dotProduct
  exact Finset.sum_nonneg fun i _ => mul_self_nonneg (v i)

theorem dot_self_eq_zero (v : n → ℝ) (h : v ⬝ᵥ v = 0) : v = 0 := by
  unfold dotProduct at h
  have := (Finset.sum_eq_zero_iff_of_nonneg (fun i _ => mul_self_nonneg (v i))).mp h
  funext i
  exact mul_self_eq_zero.mp (this i (Finset.mem_univ i))

end Votca.C06
