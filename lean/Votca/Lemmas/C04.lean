import Votca.Model.C04
import Mathlib.Tactic.Ring
import Mathlib.Tactic.Linarith
import Mathlib.Tactic.FieldSimp
import Mathlib.Algebra.Order.Field.Basic
import Mathlib.Algebra.BigOperators.Group.List.Basic
import Mathlib.Algebra.BigOperators.Ring.List
/-! # C04 — helper lemmas -/
namespace Votca.C04

/-- the `MergeWorker` recurrence started from `n` frames with average `a` -/
theorem foldl_mergeStep (l : List Rat) (n : Nat) (a : Rat) (h : 0 < n + l.length) :
    l.foldl mergeStep (n, a) = (n + l.length, ((n : Rat) * a + l.sum) / ((n + l.length : Nat) : Rat)) := by
  induction l generalizing n a with
  | nil =>
    have hn : (n : Rat) ≠ 0 := by
      have : 0 < n := by simpa using h
      exact_mod_cast this.ne'
    simp [hn]
  | cons x xs ih =>
    have hpos : 0 < (n + 1) + xs.length := by omega
    simp only [List.foldl_cons, mergeStep, Gen.Stat.mergeExpr]
    rw [ih (n + 1) _ hpos]
    have hn1 : ((n : Rat) + 1) ≠ 0 := by positivity
    have hlen : (n + 1 + xs.length : Nat) = n + (x :: xs).length := by simp; omega
    refine Prod.ext (by simp; omega) ?_
    simp only [hlen, List.sum_cons]
    congr 1
    push_cast
    field_simp
    ring

/-- the `Average::Process` recurrence started from `n` values with average `a` -/
theorem foldl_avgStep (l : List Rat) (n : Nat) (a : Rat) (h : 0 < n + l.length) :
    l.foldl avgStep (n, a) = (n + l.length, ((n : Rat) * a + l.sum) / ((n + l.length : Nat) : Rat)) := by
  induction l generalizing n a with
  | nil =>
    have hn : (n : Rat) ≠ 0 := by
      have : 0 < n := by simpa using h
      exact_mod_cast this.ne'
    simp [hn]
  | cons x xs ih =>
    have hpos : 0 < (n + 1) + xs.length := by omega
    simp only [List.foldl_cons, avgStep, Gen.Stat.avgExpr]
    rw [ih (n + 1) _ hpos]
    have hn1 : ((n : Rat) + 1) ≠ 0 := by positivity
    have hlen : (n + 1 + xs.length : Nat) = n + (x :: xs).length := by simp; omega
    refine Prod.ext (by simp; omega) ?_
    simp only [hlen, List.sum_cons]
    congr 1
    push_cast
    field_simp
    ring

/-- the `DoCorrelations` recurrence started from `n` frames with average `m` -/
theorem foldl_corrStep (l : List (Rat × Rat)) (n : Nat) (m : Rat) (h : 0 < n + l.length) :
    l.foldl corrStep (n, m) = (n + l.length, ((n : Rat) * m + (l.map fun ab => ab.1 * ab.2).sum) / ((n + l.length : Nat) : Rat)) := by
  induction l generalizing n m with
  | nil =>
    have hn : (n : Rat) ≠ 0 := by
      have : 0 < n := by simpa using h
      exact_mod_cast this.ne'
    simp [hn]
  | cons x xs ih =>
    have hpos : 0 < (n + 1) + xs.length := by omega
    simp only [List.foldl_cons, corrStep, Gen.Stat.corrExpr]
    rw [ih (n + 1) _ hpos]
    have hn1 : ((n : Rat) + 1) ≠ 0 := by positivity
    have hlen : (n + 1 + xs.length : Nat) = n + (x :: xs).length := by simp; omega
    refine Prod.ext (by simp; omega) ?_
    simp only [hlen, List.map_cons, List.sum_cons]
    congr 1
    push_cast
    field_simp
    ring

/-- merging with block length 0 only accumulates -/
theorem foldl_merge_noblock (defs : List IDef) (fs : List FrameData) (a : Acc) :
    fs.foldl (mergeFrame defs 0) a = { a with frames := a.frames ++ fs, vols := a.vols ++ fs.map (·.vol) } := by
  induction fs generalizing a with
  | nil => simp
  | cons f fs ih =>
    simp only [List.foldl_cons]
    have : mergeFrame defs 0 a f = { a with frames := a.frames ++ [f], vols := a.vols ++ [f.vol] } := by
      simp [mergeFrame]
    rw [this, ih]
    simp

/-- filling up a block: from `pre` frames already merged, the remaining `rest` frames complete the block -/
theorem foldl_merge_block (defs : List IDef) (L : Nat) (rest pre : List FrameData) (a : Acc)
    (hL : pre.length + rest.length = L) (hrest : rest ≠ [])
    (hf : a.frames = pre) (hv : a.vols = pre.map (·.vol)) :
    rest.foldl (mergeFrame defs L) a =
      { frames := [], vols := [], nblock := a.nblock + 1,
        outs := a.outs ++ [mkOut defs (a.nblock + 1) (pre ++ rest) ((pre ++ rest).map (·.vol))] } := by
  induction rest generalizing pre a with
  | nil => exact absurd rfl hrest
  | cons f rest ih =>
    simp only [List.foldl_cons]
    by_cases hr : rest = []
    · subst hr
      have hlen : (a.frames ++ [f]).length = L := by rw [hf]; simpa using hL
      have hLpos : L ≠ 0 := by
        intro h0; rw [h0] at hlen; simp at hlen
      have hmod : (a.frames ++ [f]).length % L = 0 := by rw [hlen]; exact Nat.mod_self L
      simp only [List.foldl_nil, mergeFrame]
      rw [if_pos ⟨hLpos, hmod⟩, hf, hv]
      simp
    · have hlt : (pre ++ [f]).length < L := by
        have : 0 < rest.length := List.length_pos_iff.mpr hr
        simp at hL ⊢; omega
      have hpos : 0 < (pre ++ [f]).length := by simp
      have hmod : ¬ (L ≠ 0 ∧ (a.frames ++ [f]).length % L = 0) := by
        rw [hf]
        intro ⟨_, h⟩
        rw [Nat.mod_eq_of_lt hlt] at h
        omega
      have hstep : mergeFrame defs L a f = { a with frames := a.frames ++ [f], vols := a.vols ++ [f.vol] } := by
        simp only [mergeFrame]
        rw [if_neg hmod]
      rw [hstep]
      have := ih (pre ++ [f]) { a with frames := a.frames ++ [f], vols := a.vols ++ [f.vol] }
        (by simp at hL ⊢; omega) hr (by simp [hf]) (by simp [hv])
      rw [this]
      simp

end Votca.C04

namespace Votca.C04

/-- fewer frames than a block: nothing is written -/
theorem foldl_merge_short (defs : List IDef) (L : Nat) (rest : List FrameData) (a : Acc)
    (hL : a.frames.length + rest.length < L) :
    rest.foldl (mergeFrame defs L) a = { a with frames := a.frames ++ rest, vols := a.vols ++ rest.map (·.vol) } := by
  induction rest generalizing a with
  | nil => simp
  | cons f rest ih =>
    simp only [List.foldl_cons]
    have hlt : (a.frames ++ [f]).length < L := by simp at hL ⊢; omega
    have hmod : ¬ (L ≠ 0 ∧ (a.frames ++ [f]).length % L = 0) := by
      intro ⟨_, h⟩
      rw [Nat.mod_eq_of_lt hlt] at h
      simp at h
    have hstep : mergeFrame defs L a f = { a with frames := a.frames ++ [f], vols := a.vols ++ [f.vol] } := by
      simp only [mergeFrame]
      rw [if_neg hmod]
    rw [hstep, ih]
    · simp
    · simp at hL ⊢; omega

/-- a whole number of blocks, from a clean accumulator -/
theorem foldl_merge_blocks (defs : List IDef) (L : Nat) (hL : 0 < L) (bs : List (List FrameData)) (a : Acc)
    (hb : ∀ b ∈ bs, b.length = L) (hf : a.frames = []) (hv : a.vols = []) :
    bs.flatten.foldl (mergeFrame defs L) a =
      { frames := [], vols := [], nblock := a.nblock + bs.length,
        outs := a.outs ++ (bs.zipIdx a.nblock).map fun (b, i) => mkOut defs (i + 1) b (b.map (·.vol)) } := by
  induction bs generalizing a with
  | nil => cases a; simp_all
  | cons b bs ih =>
    have hbl : b.length = L := hb b (by simp)
    have hbne : b ≠ [] := by intro h; rw [h] at hbl; simp at hbl; omega
    rw [List.flatten_cons, List.foldl_append,
      foldl_merge_block defs L b [] a (by simpa using hbl) hbne (by simpa using hf) (by simpa using hv)]
    rw [ih _ (fun b' hb' => hb b' (by simp [hb'])) rfl rfl]
    simp [List.zipIdx_cons, Nat.add_assoc, Nat.add_comm 1]

end Votca.C04

namespace Votca.C04

/-! ## counting a downward-closed predicate over `0..n-1` -/

theorem down_all (p : Nat → Bool) (hmono : ∀ k, p (k + 1) = true → p k = true) (n : Nat) (hn : p n = true) :
    ∀ k, k ≤ n → p k = true := by
  induction n with
  | zero => intro k hk; have : k = 0 := by omega
            subst this; exact hn
  | succ m ih =>
    intro k hk
    rcases Nat.lt_or_ge k (m + 1) with h | h
    · exact ih (hmono m hn) k (by omega)
    · have : k = m + 1 := by omega
      subst this; exact hn

theorem count_down (p : Nat → Bool) (hmono : ∀ k, p (k + 1) = true → p k = true) (n : Nat) :
    ∀ k, k < n → (p k = true ↔ k < ((List.range n).filter p).length) := by
  induction n with
  | zero => intro k hk; omega
  | succ m ih =>
    intro k hk
    rw [List.range_succ, List.filter_append]
    by_cases hm : p m = true
    · have hall := down_all p hmono m hm
      have hfull : (List.range m).filter p = List.range m := by
        apply List.filter_eq_self.mpr
        intro a ha
        exact hall a (by have := List.mem_range.mp ha; omega)
      simp only [hfull, List.filter_cons, hm, if_true, List.filter_nil, List.length_append, List.length_range,
        List.length_cons, List.length_nil]
      constructor
      · intro _; omega
      · intro _; exact hall k (by omega)
    · have hle : ((List.range m).filter p).length ≤ m := by
        have := List.length_filter_le p (List.range m)
        simpa using this
      have hm' : p m = false := by simpa using hm
      simp only [List.filter_cons, hm', List.filter_nil, List.length_append, List.length_nil, Nat.add_zero,
        Bool.false_eq_true, if_false]
      rcases Nat.lt_or_ge k m with h | h
      · simpa using ih k h
      · have : k = m := by omega
        subst this
        constructor
        · intro h'; exact absurd h' hm
        · intro h'; omega

end Votca.C04
