import Votca.Model.C05
import Mathlib.Logic.Function.Basic
import Mathlib.Tactic.Linarith
/-! # C05 — invariants of the ordered-mode protocol (three layers: rings + reader mutex + frame bookkeeping with linear ghost
counters; token availability + conservation of frames in flight; frame count vs budget).  Stated for the same transition
function written with `Function.update` (`U.step`); `Props/C05.lean` shows it is the model's `step`. -/
namespace Votca.C05.U
open Votca.C05 Votca.C05.PC

/-- one step of worker `i` (none = blocked or finished); `F` = number of frames in the file,
    frame 0 is the one main already read into worker 0 -/
def step (n F : Nat) (s : S) (i : Nat) : Option S :=
  match s.pc i with
  | wantIn => if s.inL i then none else
      some { s with inL := Function.update s.inL i true, pc := Function.update s.pc i wantReader }
  | wantReader => if s.rd then none else
      some { s with rd := true, pc := Function.update s.pc i inReader }
  | inReader =>
      if s.budget = some 0 then
        some { s with ended := true, inTok := advTok n s.inTok, inBase := advBase n s.inBase s.inTok,
                      pc := Function.update s.pc i endUnlock }
      else if s.isFirst = true ∧ i = 0 then
        some { s with budget := s.budget.map (· - 1), isFirst := false, readLog := s.readLog ++ [0],
                      inTok := advTok n s.inTok, inBase := advBase n s.inBase s.inTok,
                      pc := Function.update s.pc i (gotFrame 0) }
      else if s.pos < F then
        some { s with budget := s.budget.map (· - 1), isFirst := (if i = 0 then false else s.isFirst),
                      pos := s.pos + 1, readLog := s.readLog ++ [s.pos],
                      inTok := advTok n s.inTok, inBase := advBase n s.inBase s.inTok,
                      pc := Function.update s.pc i (gotFrame s.pos) }
      else
        some { s with budget := s.budget.map (· - 1), ended := true,
                      inTok := advTok n s.inTok, inBase := advBase n s.inBase s.inTok,
                      pc := Function.update s.pc i endUnlock }
  | gotFrame f => some { s with rd := false, pc := Function.update s.pc i (passIn f) }
  | passIn f => some { s with inL := Function.update s.inL ((i + 1) % n) false,
                              pc := Function.update s.pc i (eval f) }
  | eval f => some { s with pc := Function.update s.pc i (wantOut f) }
  | wantOut f => if s.outL i then none else
      some { s with outL := Function.update s.outL i true, pc := Function.update s.pc i (merging f) }
  | merging f => some { s with mergeLog := s.mergeLog ++ [f],
                               outTok := advTok n s.outTok, outBase := advBase n s.outBase s.outTok,
                               pc := Function.update s.pc i passOut }
  | passOut => some { s with outL := Function.update s.outL ((i + 1) % n) false,
                             pc := Function.update s.pc i wantIn }
  | endUnlock => some { s with rd := false, pc := Function.update s.pc i endPass }
  | endPass => some { s with inL := Function.update s.inL ((i + 1) % n) false,
                             pc := Function.update s.pc i done }
  | done => none

def run (n F : Nat) : S → List Nat → S
  | s, [] => s
  | s, i :: rest => match (if i < n then step n F s i else none) with
    | some s' => run n F s' rest
    | none => run n F s rest


/-! ### classification of program counters -/
def PreRead : PC → Prop | wantReader | inReader => True | _ => False
def PostRead : PC → Prop | gotFrame _ | passIn _ | endUnlock | endPass => True | _ => False
def InSec (p : PC) : Prop := PreRead p ∨ PostRead p
def HoldsRd : PC → Prop | inReader | gotFrame _ | endUnlock => True | _ => False
def IsMerging : PC → Prop | merging _ => True | _ => False
def IsPassOut : PC → Prop | passOut => True | _ => False
def OutSec (p : PC) : Prop := IsMerging p ∨ IsPassOut p
def Holds : PC → Nat → Prop
  | gotFrame g, f | passIn g, f | eval g, f | wantOut g, f | merging g, f => g = f
  | _, _ => False
def Idle : PC → Prop | wantIn | wantReader | inReader | passOut => True | _ => False

theorem holdsRd_inSec (p : PC) (h : HoldsRd p) : InSec p := by
  cases p <;> simp [HoldsRd, InSec, PreRead, PostRead] at *

theorem succ_mod {n i : Nat} (hi : i < n) : (i + 1) % n = advTok n i := by
  unfold advTok
  by_cases h : i + 1 = n
  · simp [h]
  · simp [h]; exact Nat.mod_eq_of_lt (by omega)

theorem advTok_lt {n i : Nat} (hi : i < n) : advTok n i < n := by
  unfold advTok; split <;> omega

def cnt (n base tok j : Nat) : Nat := base + if j < tok then n else 0

theorem cnt_adv_ne {n base tok j : Nat} (ht : tok < n) (hj : j < n) (hne : j ≠ tok) :
    cnt n (advBase n base tok) (advTok n tok) j = cnt n base tok j := by
  unfold cnt advBase advTok
  by_cases h : tok + 1 = n
  · simp only [h, if_true]
    have : j < tok := by omega
    simp [this]
  · simp only [h, if_false]
    by_cases h2 : j < tok
    · have : j < tok + 1 := by omega
      simp [h2, this]
    · have : ¬ j < tok + 1 := by omega
      simp [h2, this]

theorem cnt_adv_eq {n base tok : Nat} (ht : tok < n) :
    cnt n (advBase n base tok) (advTok n tok) tok = cnt n base tok tok + n := by
  unfold cnt advBase advTok
  by_cases h : tok + 1 = n
  · simp [h]
  · simp [h]

/-! ### the invariant, in four groups -/
structure InRing (n : Nat) (s : S) : Prop where
  tok : s.inTok < n
  excl : ∀ i j, i < n → j < n → InSec (s.pc i) → InSec (s.pc j) → i = j
  locked : ∀ i j, i < n → j < n → InSec (s.pc i) → s.inL j = true
  one : ∀ j j', j < n → j' < n → s.inL j = false → s.inL j' = false → j = j'
  free : ∀ j, j < n → s.inL j = false → j = s.inTok
  pre : ∀ i, i < n → PreRead (s.pc i) → i = s.inTok
  post : ∀ i, i < n → PostRead (s.pc i) → advTok n i = s.inTok

structure OutRing (n : Nat) (s : S) : Prop where
  tok : s.outTok < n
  excl : ∀ i j, i < n → j < n → OutSec (s.pc i) → OutSec (s.pc j) → i = j
  locked : ∀ i j, i < n → j < n → OutSec (s.pc i) → s.outL j = true
  one : ∀ j j', j < n → j' < n → s.outL j = false → s.outL j' = false → j = j'
  free : ∀ j, j < n → s.outL j = false → j = s.outTok
  pre : ∀ i, i < n → IsMerging (s.pc i) → i = s.outTok
  post : ∀ i, i < n → IsPassOut (s.pc i) → advTok n i = s.outTok

structure RdM (n : Nat) (s : S) : Prop where
  iff : s.rd = true ↔ ∃ i, i < n ∧ HoldsRd (s.pc i)

structure Data (n F : Nat) (s : S) : Prop where
  rdRange : s.readLog = List.range s.readLog.length
  rdCount : s.ended = false → s.readLog.length = s.inBase + s.inTok
  first1 : s.isFirst = true → s.readLog = [] ∧ s.pos = 1
  first2 : s.isFirst = false → s.pos = s.readLog.length ∧ 1 ≤ s.pos
  sticky : s.ended = true → s.budget = some 0 ∨ (s.isFirst = false ∧ F ≤ s.pos)
  hold : ∀ i f, i < n → Holds (s.pc i) f →
    f + n = cnt n s.inBase s.inTok i + i ∧ cnt n s.inBase s.inTok i = cnt n s.outBase s.outTok i + n
  idle : ∀ i, i < n → Idle (s.pc i) → cnt n s.inBase s.inTok i = cnt n s.outBase s.outTok i
  mrg : s.mergeLog = List.range (s.outBase + s.outTok)

structure Inv (n F : Nat) (s : S) : Prop where
  inR : InRing n s
  outR : OutRing n s
  rdM : RdM n s
  data : Data n F s

/-! ### frame lemmas: a step that does not touch a group's fields and keeps thread i's class -/
theorem InRing.frame {n : Nat} {s s' : S} (h : InRing n s) (i : Nat)
    (hpc : ∀ j, j ≠ i → s'.pc j = s.pc j)
    (c1 : PreRead (s'.pc i) ↔ PreRead (s.pc i)) (c2 : PostRead (s'.pc i) ↔ PostRead (s.pc i))
    (hL : s'.inL = s.inL) (hT : s'.inTok = s.inTok) : InRing n s' := by
  have pre' : ∀ j, PreRead (s'.pc j) ↔ PreRead (s.pc j) := by
    intro j; by_cases e : j = i
    · subst e; exact c1
    · rw [hpc j e]
  have post' : ∀ j, PostRead (s'.pc j) ↔ PostRead (s.pc j) := by
    intro j; by_cases e : j = i
    · subst e; exact c2
    · rw [hpc j e]
  have sec' : ∀ j, InSec (s'.pc j) ↔ InSec (s.pc j) := by
    intro j; unfold InSec; rw [pre' j, post' j]
  refine ⟨by rw [hT]; exact h.tok, ?_, ?_, ?_, ?_, ?_, ?_⟩
  · intro a b ha hb x y; exact h.excl a b ha hb ((sec' a).1 x) ((sec' b).1 y)
  · intro a j ha hj x; rw [hL]; exact h.locked a j ha hj ((sec' a).1 x)
  · intro j j' hj hj' x y; rw [hL] at x y; exact h.one j j' hj hj' x y
  · intro j hj x; rw [hL] at x; rw [hT]; exact h.free j hj x
  · intro a ha x; rw [hT]; exact h.pre a ha ((pre' a).1 x)
  · intro a ha x; rw [hT]; exact h.post a ha ((post' a).1 x)

theorem OutRing.frame {n : Nat} {s s' : S} (h : OutRing n s) (i : Nat)
    (hpc : ∀ j, j ≠ i → s'.pc j = s.pc j)
    (c1 : IsMerging (s'.pc i) ↔ IsMerging (s.pc i)) (c2 : IsPassOut (s'.pc i) ↔ IsPassOut (s.pc i))
    (hL : s'.outL = s.outL) (hT : s'.outTok = s.outTok) : OutRing n s' := by
  have pre' : ∀ j, IsMerging (s'.pc j) ↔ IsMerging (s.pc j) := by
    intro j; by_cases e : j = i
    · subst e; exact c1
    · rw [hpc j e]
  have post' : ∀ j, IsPassOut (s'.pc j) ↔ IsPassOut (s.pc j) := by
    intro j; by_cases e : j = i
    · subst e; exact c2
    · rw [hpc j e]
  have sec' : ∀ j, OutSec (s'.pc j) ↔ OutSec (s.pc j) := by
    intro j; unfold OutSec; rw [pre' j, post' j]
  refine ⟨by rw [hT]; exact h.tok, ?_, ?_, ?_, ?_, ?_, ?_⟩
  · intro a b ha hb x y; exact h.excl a b ha hb ((sec' a).1 x) ((sec' b).1 y)
  · intro a j ha hj x; rw [hL]; exact h.locked a j ha hj ((sec' a).1 x)
  · intro j j' hj hj' x y; rw [hL] at x y; exact h.one j j' hj hj' x y
  · intro j hj x; rw [hL] at x; rw [hT]; exact h.free j hj x
  · intro a ha x; rw [hT]; exact h.pre a ha ((pre' a).1 x)
  · intro a ha x; rw [hT]; exact h.post a ha ((post' a).1 x)

theorem RdM.frame {n : Nat} {s s' : S} (h : RdM n s) (i : Nat)
    (hpc : ∀ j, j ≠ i → s'.pc j = s.pc j)
    (c : HoldsRd (s'.pc i) ↔ HoldsRd (s.pc i)) (hr : s'.rd = s.rd) : RdM n s' := by
  have hol : ∀ j, HoldsRd (s'.pc j) ↔ HoldsRd (s.pc j) := by
    intro j; by_cases e : j = i
    · subst e; exact c
    · rw [hpc j e]
  constructor
  rw [hr, h.iff]; constructor
  · rintro ⟨k, hk, hh⟩; exact ⟨k, hk, (hol k).2 hh⟩
  · rintro ⟨k, hk, hh⟩; exact ⟨k, hk, (hol k).1 hh⟩

theorem Data.frame {n F : Nat} {s s' : S} (h : Data n F s) (i : Nat)
    (hpc : ∀ j, j ≠ i → s'.pc j = s.pc j)
    (c1 : ∀ f, Holds (s'.pc i) f ↔ Holds (s.pc i) f) (c2 : Idle (s'.pc i) ↔ Idle (s.pc i))
    (e1 : s'.readLog = s.readLog) (e2 : s'.mergeLog = s.mergeLog) (e3 : s'.ended = s.ended)
    (e4 : s'.isFirst = s.isFirst) (e5 : s'.pos = s.pos) (e6 : s'.budget = s.budget)
    (e7 : s'.inTok = s.inTok) (e8 : s'.inBase = s.inBase) (e9 : s'.outTok = s.outTok)
    (e10 : s'.outBase = s.outBase) : Data n F s' := by
  have hol : ∀ j f, Holds (s'.pc j) f ↔ Holds (s.pc j) f := by
    intro j f; by_cases e : j = i
    · subst e; exact c1 f
    · rw [hpc j e]
  have idl : ∀ j, Idle (s'.pc j) ↔ Idle (s.pc j) := by
    intro j; by_cases e : j = i
    · subst e; exact c2
    · rw [hpc j e]
  refine ⟨?_, ?_, ?_, ?_, ?_, ?_, ?_, ?_⟩
  · rw [e1]; exact h.rdRange
  · rw [e3, e1, e7, e8]; exact h.rdCount
  · rw [e4, e1, e5]; exact h.first1
  · rw [e4, e1, e5]; exact h.first2
  · rw [e3, e6, e4, e5]; exact h.sticky
  · intro a f ha x; rw [e7, e8, e9, e10]; exact h.hold a f ha ((hol a f).1 x)
  · intro a ha x; rw [e7, e8, e9, e10]; exact h.idle a ha ((idl a).1 x)
  · rw [e2, e9, e10]; exact h.mrg

theorem upd_ne {α : Type} (f : Nat → α) (i j : Nat) (v : α) (h : j ≠ i) : Function.update f i v j = f j := by
  simp [Function.update, h]
theorem upd_eq {α : Type} (f : Nat → α) (i : Nat) (v : α) : Function.update f i v i = v := by
  simp [Function.update]


theorem pre_not_post (p : PC) (h1 : PreRead p) (h2 : PostRead p) : False := by
  cases p <;> simp [PreRead, PostRead] at *

/-- taking the token: thread i (outside the section) locks its own free In mutex -/
theorem InRing.acquire {n : Nat} {s s' : S} (h : InRing n s) (i : Nat) (hi : i < n)
    (hold : ¬ InSec (s.pc i)) (hfree : s.inL i = false) (p' : PC) (hp1 : PreRead p') (hp2 : ¬ PostRead p')
    (hpc' : s'.pc = Function.update s.pc i p') (hL : s'.inL = Function.update s.inL i true)
    (hT : s'.inTok = s.inTok) : InRing n s' := by
  have nobody : ∀ k, k < n → ¬ InSec (s.pc k) := by
    intro k hk hin
    have := h.locked k i hk hi hin; simp [hfree] at this
  have itok : i = s.inTok := h.free i hi hfree
  have secOnly : ∀ a, a < n → InSec (s'.pc a) → a = i := by
    intro a ha x
    by_contra e
    rw [hpc', upd_ne _ _ _ _ e] at x; exact nobody a ha x
  refine ⟨by rw [hT]; exact h.tok, ?_, ?_, ?_, ?_, ?_, ?_⟩
  · intro a b ha hb x y; rw [secOnly a ha x, secOnly b hb y]
  · intro a j ha hj x
    rw [hL]
    by_cases ej : j = i
    · subst ej; exact upd_eq _ _ _
    · rw [upd_ne _ _ _ _ ej]
      by_contra hc; simp at hc
      exact ej (h.one j i hj hi hc hfree)
  · intro j j' hj hj' x y
    rw [hL] at x y
    by_cases ej : j = i
    · subst ej; rw [upd_eq] at x; cases x
    · by_cases ej' : j' = i
      · subst ej'; rw [upd_eq] at y; cases y
      · rw [upd_ne _ _ _ _ ej] at x; rw [upd_ne _ _ _ _ ej'] at y
        exact h.one j j' hj hj' x y
  · intro j hj x
    rw [hL] at x
    by_cases ej : j = i
    · subst ej; rw [upd_eq] at x; cases x
    · rw [upd_ne _ _ _ _ ej] at x; rw [hT]; exact h.free j hj x
  · intro a ha x
    have := secOnly a ha (Or.inl x); rw [this, hT]; exact itok
  · intro a ha x
    have e := secOnly a ha (Or.inr x); subst e
    rw [hpc', upd_eq] at x; exact absurd x hp2

/-- the occupant performs the guarded action and the ghost token advances -/
theorem InRing.advance {n : Nat} {s s' : S} (h : InRing n s) (i : Nat) (hi : i < n)
    (hold : PreRead (s.pc i)) (p' : PC) (hp1 : PostRead p') (hp2 : ¬ PreRead p')
    (hpc' : s'.pc = Function.update s.pc i p') (hL : s'.inL = s.inL)
    (hT : s'.inTok = advTok n s.inTok) : InRing n s' := by
  have itok : i = s.inTok := h.pre i hi hold
  have mine : InSec (s.pc i) := Or.inl hold
  have sec' : ∀ a, InSec (s'.pc a) → InSec (s.pc a) := by
    intro a x
    by_cases e : a = i
    · subst e; exact mine
    · rwa [hpc', upd_ne _ _ _ _ e] at x
  refine ⟨by rw [hT]; exact advTok_lt h.tok, ?_, ?_, ?_, ?_, ?_, ?_⟩
  · intro a b ha hb x y; exact h.excl a b ha hb (sec' a x) (sec' b y)
  · intro a j ha hj x; rw [hL]; exact h.locked a j ha hj (sec' a x)
  · intro j j' hj hj' x y; rw [hL] at x y; exact h.one j j' hj hj' x y
  · intro j hj x; rw [hL] at x
    have := h.locked i j hi hj mine; rw [x] at this; cases this
  · intro a ha x
    exfalso
    by_cases e : a = i
    · subst e; rw [hpc', upd_eq] at x; exact hp2 x
    · have x' := x; rw [hpc', upd_ne _ _ _ _ e] at x'
      exact e (h.excl a i ha hi (Or.inl x') mine)
  · intro a ha x
    by_cases e : a = i
    · subst e; rw [hT, ← itok]
    · exfalso
      have x' := x; rw [hpc', upd_ne _ _ _ _ e] at x'
      exact e (h.excl a i ha hi (Or.inr x') mine)

/-- the occupant leaves and unlocks the successor's mutex -/
theorem InRing.pass {n : Nat} {s s' : S} (h : InRing n s) (i : Nat) (hi : i < n)
    (hold : PostRead (s.pc i)) (p' : PC) (hp' : ¬ InSec p')
    (hpc' : s'.pc = Function.update s.pc i p') (hL : s'.inL = Function.update s.inL (advTok n i) false)
    (hT : s'.inTok = s.inTok) : InRing n s' := by
  have mine : InSec (s.pc i) := Or.inr hold
  have nobody : ∀ k, k < n → ¬ InSec (s'.pc k) := by
    intro k hk hin
    by_cases ek : k = i
    · subst ek; rw [hpc', upd_eq] at hin; exact hp' hin
    · rw [hpc', upd_ne _ _ _ _ ek] at hin
      exact ek (h.excl k i hk hi hin mine)
  have allLocked : ∀ j, j < n → s.inL j = true := fun j hj => h.locked i j hi hj mine
  have onlyFree : ∀ j, j < n → s'.inL j = false → j = advTok n i := by
    intro j hj x
    by_contra e
    rw [hL, upd_ne _ _ _ _ e, allLocked j hj] at x; cases x
  refine ⟨by rw [hT]; exact h.tok, ?_, ?_, ?_, ?_, ?_, ?_⟩
  · intro a b ha hb x _; exact absurd x (nobody a ha)
  · intro a j ha hj x; exact absurd x (nobody a ha)
  · intro j j' hj hj' x y; rw [onlyFree j hj x, onlyFree j' hj' y]
  · intro j hj x; rw [onlyFree j hj x, hT]; exact h.post i hi hold
  · intro a ha x; exact absurd (Or.inl x) (nobody a ha)
  · intro a ha x; exact absurd (Or.inr x) (nobody a ha)

theorem mrg_not_pass (p : PC) (h1 : IsMerging p) (h2 : IsPassOut p) : False := by
  cases p <;> simp [IsMerging, IsPassOut] at *

/-- taking the token: thread i (outside the section) locks its own free In mutex -/
theorem OutRing.acquire {n : Nat} {s s' : S} (h : OutRing n s) (i : Nat) (hi : i < n)
    (hold : ¬ OutSec (s.pc i)) (hfree : s.outL i = false) (p' : PC) (hp1 : IsMerging p') (hp2 : ¬ IsPassOut p')
    (hpc' : s'.pc = Function.update s.pc i p') (hL : s'.outL = Function.update s.outL i true)
    (hT : s'.outTok = s.outTok) : OutRing n s' := by
  have nobody : ∀ k, k < n → ¬ OutSec (s.pc k) := by
    intro k hk hin
    have := h.locked k i hk hi hin; simp [hfree] at this
  have itok : i = s.outTok := h.free i hi hfree
  have secOnly : ∀ a, a < n → OutSec (s'.pc a) → a = i := by
    intro a ha x
    by_contra e
    rw [hpc', upd_ne _ _ _ _ e] at x; exact nobody a ha x
  refine ⟨by rw [hT]; exact h.tok, ?_, ?_, ?_, ?_, ?_, ?_⟩
  · intro a b ha hb x y; rw [secOnly a ha x, secOnly b hb y]
  · intro a j ha hj x
    rw [hL]
    by_cases ej : j = i
    · subst ej; exact upd_eq _ _ _
    · rw [upd_ne _ _ _ _ ej]
      by_contra hc; simp at hc
      exact ej (h.one j i hj hi hc hfree)
  · intro j j' hj hj' x y
    rw [hL] at x y
    by_cases ej : j = i
    · subst ej; rw [upd_eq] at x; cases x
    · by_cases ej' : j' = i
      · subst ej'; rw [upd_eq] at y; cases y
      · rw [upd_ne _ _ _ _ ej] at x; rw [upd_ne _ _ _ _ ej'] at y
        exact h.one j j' hj hj' x y
  · intro j hj x
    rw [hL] at x
    by_cases ej : j = i
    · subst ej; rw [upd_eq] at x; cases x
    · rw [upd_ne _ _ _ _ ej] at x; rw [hT]; exact h.free j hj x
  · intro a ha x
    have := secOnly a ha (Or.inl x); rw [this, hT]; exact itok
  · intro a ha x
    have e := secOnly a ha (Or.inr x); subst e
    rw [hpc', upd_eq] at x; exact absurd x hp2

/-- the occupant performs the guarded action and the ghost token advances -/
theorem OutRing.advance {n : Nat} {s s' : S} (h : OutRing n s) (i : Nat) (hi : i < n)
    (hold : IsMerging (s.pc i)) (p' : PC) (hp1 : IsPassOut p') (hp2 : ¬ IsMerging p')
    (hpc' : s'.pc = Function.update s.pc i p') (hL : s'.outL = s.outL)
    (hT : s'.outTok = advTok n s.outTok) : OutRing n s' := by
  have itok : i = s.outTok := h.pre i hi hold
  have mine : OutSec (s.pc i) := Or.inl hold
  have sec' : ∀ a, OutSec (s'.pc a) → OutSec (s.pc a) := by
    intro a x
    by_cases e : a = i
    · subst e; exact mine
    · rwa [hpc', upd_ne _ _ _ _ e] at x
  refine ⟨by rw [hT]; exact advTok_lt h.tok, ?_, ?_, ?_, ?_, ?_, ?_⟩
  · intro a b ha hb x y; exact h.excl a b ha hb (sec' a x) (sec' b y)
  · intro a j ha hj x; rw [hL]; exact h.locked a j ha hj (sec' a x)
  · intro j j' hj hj' x y; rw [hL] at x y; exact h.one j j' hj hj' x y
  · intro j hj x; rw [hL] at x
    have := h.locked i j hi hj mine; rw [x] at this; cases this
  · intro a ha x
    exfalso
    by_cases e : a = i
    · subst e; rw [hpc', upd_eq] at x; exact hp2 x
    · have x' := x; rw [hpc', upd_ne _ _ _ _ e] at x'
      exact e (h.excl a i ha hi (Or.inl x') mine)
  · intro a ha x
    by_cases e : a = i
    · subst e; rw [hT, ← itok]
    · exfalso
      have x' := x; rw [hpc', upd_ne _ _ _ _ e] at x'
      exact e (h.excl a i ha hi (Or.inr x') mine)

/-- the occupant leaves and unlocks the successor's mutex -/
theorem OutRing.pass {n : Nat} {s s' : S} (h : OutRing n s) (i : Nat) (hi : i < n)
    (hold : IsPassOut (s.pc i)) (p' : PC) (hp' : ¬ OutSec p')
    (hpc' : s'.pc = Function.update s.pc i p') (hL : s'.outL = Function.update s.outL (advTok n i) false)
    (hT : s'.outTok = s.outTok) : OutRing n s' := by
  have mine : OutSec (s.pc i) := Or.inr hold
  have nobody : ∀ k, k < n → ¬ OutSec (s'.pc k) := by
    intro k hk hin
    by_cases ek : k = i
    · subst ek; rw [hpc', upd_eq] at hin; exact hp' hin
    · rw [hpc', upd_ne _ _ _ _ ek] at hin
      exact ek (h.excl k i hk hi hin mine)
  have allLocked : ∀ j, j < n → s.outL j = true := fun j hj => h.locked i j hi hj mine
  have onlyFree : ∀ j, j < n → s'.outL j = false → j = advTok n i := by
    intro j hj x
    by_contra e
    rw [hL, upd_ne _ _ _ _ e, allLocked j hj] at x; cases x
  refine ⟨by rw [hT]; exact h.tok, ?_, ?_, ?_, ?_, ?_, ?_⟩
  · intro a b ha hb x _; exact absurd x (nobody a ha)
  · intro a j ha hj x; exact absurd x (nobody a ha)
  · intro j j' hj hj' x y; rw [onlyFree j hj x, onlyFree j' hj' y]
  · intro j hj x; rw [onlyFree j hj x, hT]; exact h.post i hi hold
  · intro a ha x; exact absurd (Or.inl x) (nobody a ha)
  · intro a ha x; exact absurd (Or.inr x) (nobody a ha)

theorem RdM.acquire {n : Nat} {s s' : S} (i : Nat) (hi : i < n) (p' : PC) (hp : HoldsRd p')
    (hpc' : s'.pc = Function.update s.pc i p') (hr : s'.rd = true) : RdM n s' := by
  constructor; rw [hr]; constructor
  · intro _; exact ⟨i, hi, by rw [hpc', upd_eq]; exact hp⟩
  · intro _; rfl

theorem RdM.release {n : Nat} {s s' : S} (hin : InRing n s) (i : Nat) (hi : i < n)
    (hold : HoldsRd (s.pc i)) (p' : PC) (hp : ¬ HoldsRd p')
    (hpc' : s'.pc = Function.update s.pc i p') (hr : s'.rd = false) : RdM n s' := by
  constructor; rw [hr]; constructor
  · intro x; cases x
  · rintro ⟨k, hk, hh⟩
    exfalso
    by_cases ek : k = i
    · subst ek; rw [hpc', upd_eq] at hh; exact hp hh
    · rw [hpc', upd_ne _ _ _ _ ek] at hh
      exact ek (hin.excl k i hk hi (holdsRd_inSec _ hh) (holdsRd_inSec _ hold))

theorem adv_sum {n base tok : Nat} (ht : tok < n) : advBase n base tok + advTok n tok = base + tok + 1 := by
  unfold advBase advTok; split <;> omega

/-- data invariant across the reader step, end outcome -/
theorem Data.readEnd {n F : Nat} {s s' : S} (h : Data n F s) (hin : InRing n s) (i : Nat) (hi : i < n)
    (hpc : s.pc i = inReader) (hpc' : s'.pc = Function.update s.pc i endUnlock)
    (hst : s'.budget = some 0 ∨ (s'.isFirst = false ∧ F ≤ s'.pos))
    (e1 : s'.readLog = s.readLog) (e2 : s'.mergeLog = s.mergeLog)
    (e4 : s'.isFirst = s.isFirst) (e5 : s'.pos = s.pos)
    (e7 : s'.inTok = advTok n s.inTok) (e8 : s'.inBase = advBase n s.inBase s.inTok)
    (e9 : s'.outTok = s.outTok) (e10 : s'.outBase = s.outBase) (e3 : s'.ended = true) : Data n F s' := by
  have itok : i = s.inTok := hin.pre i hi (by rw [hpc]; simp [PreRead])
  refine ⟨?_, ?_, ?_, ?_, ?_, ?_, ?_, ?_⟩
  · rw [e1]; exact h.rdRange
  · intro x; rw [e3] at x; cases x
  · rw [e4, e1, e5]; exact h.first1
  · rw [e4, e1, e5]; exact h.first2
  · intro _; exact hst
  · intro a f ha x
    by_cases e : a = i
    · subst e; rw [hpc', upd_eq] at x; simp [Holds] at x
    · rw [hpc', upd_ne _ _ _ _ e] at x
      rw [e7, e8, e9, e10, cnt_adv_ne hin.tok ha (by rw [← itok]; exact e)]
      exact h.hold a f ha x
  · intro a ha x
    by_cases e : a = i
    · subst e; rw [hpc', upd_eq] at x; simp [Idle] at x
    · rw [hpc', upd_ne _ _ _ _ e] at x
      rw [e7, e8, e9, e10, cnt_adv_ne hin.tok ha (by rw [← itok]; exact e)]
      exact h.idle a ha x
  · rw [e2, e9, e10]; exact h.mrg

/-- data invariant across the reader step, a frame `f = readLog.length` is delivered -/
theorem Data.readOk {n F : Nat} {s s' : S} (h : Data n F s) (hin : InRing n s) (i : Nat) (hi : i < n)
    (hpc : s.pc i = inReader) (f : Nat) (hf : f = s.readLog.length) (hne : s.ended = false)
    (hpc' : s'.pc = Function.update s.pc i (gotFrame f))
    (e1 : s'.readLog = s.readLog ++ [f]) (e2 : s'.mergeLog = s.mergeLog) (e3 : s'.ended = false)
    (e4 : s'.isFirst = false) (e5 : s'.pos = s.readLog.length + 1)
    (e7 : s'.inTok = advTok n s.inTok) (e8 : s'.inBase = advBase n s.inBase s.inTok)
    (e9 : s'.outTok = s.outTok) (e10 : s'.outBase = s.outBase) : Data n F s' := by
  have itok : i = s.inTok := hin.pre i hi (by rw [hpc]; simp [PreRead])
  have hlen : s.readLog.length = s.inBase + s.inTok := h.rdCount hne
  refine ⟨?_, ?_, ?_, ?_, ?_, ?_, ?_, ?_⟩
  · rw [e1, List.length_append, List.length_singleton, List.range_succ, hf, ← h.rdRange]
  · intro _; rw [e1, e7, e8, adv_sum hin.tok]; simp; omega
  · intro x; rw [e4] at x; cases x
  · intro _; rw [e5, e1]; simp
  · intro x; rw [e3] at x; cases x
  · intro a g ha x
    by_cases e : a = i
    · subst e; rw [hpc', upd_eq] at x
      simp only [Holds] at x; subst x
      have hidle := h.idle a ha (by rw [hpc]; simp [Idle])
      rw [e7, e8, e9, e10]
      have this : cnt n (advBase n s.inBase s.inTok) (advTok n s.inTok) a = cnt n s.inBase s.inTok a + n := by
        rw [itok]; exact cnt_adv_eq hin.tok
      have c0 : cnt n s.inBase s.inTok a = s.inBase := by unfold cnt; rw [itok]; simp
      constructor
      · rw [this, c0]; omega
      · rw [this, hidle]
    · rw [hpc', upd_ne _ _ _ _ e] at x
      rw [e7, e8, e9, e10, cnt_adv_ne hin.tok ha (by rw [← itok]; exact e)]
      exact h.hold a g ha x
  · intro a ha x
    by_cases e : a = i
    · subst e; rw [hpc', upd_eq] at x; simp [Idle] at x
    · rw [hpc', upd_ne _ _ _ _ e] at x
      rw [e7, e8, e9, e10, cnt_adv_ne hin.tok ha (by rw [← itok]; exact e)]
      exact h.idle a ha x
  · rw [e2, e9, e10]; exact h.mrg

/-- data invariant across the merge step -/
theorem Data.merge {n F : Nat} {s s' : S} (h : Data n F s) (hout : OutRing n s) (i : Nat) (hi : i < n)
    (f : Nat) (hpc : s.pc i = merging f) (hpc' : s'.pc = Function.update s.pc i passOut)
    (e1 : s'.readLog = s.readLog) (e2 : s'.mergeLog = s.mergeLog ++ [f]) (e3 : s'.ended = s.ended)
    (e4 : s'.isFirst = s.isFirst) (e5 : s'.pos = s.pos) (e6 : s'.budget = s.budget)
    (e7 : s'.inTok = s.inTok) (e8 : s'.inBase = s.inBase)
    (e9 : s'.outTok = advTok n s.outTok) (e10 : s'.outBase = advBase n s.outBase s.outTok) : Data n F s' := by
  have itok : i = s.outTok := hout.pre i hi (by rw [hpc]; simp [IsMerging])
  have hh := h.hold i f hi (by rw [hpc]; simp [Holds])
  have hf : f = s.outBase + s.outTok := by
    have : cnt n s.outBase s.outTok i = s.outBase := by unfold cnt; rw [itok]; simp
    omega
  refine ⟨?_, ?_, ?_, ?_, ?_, ?_, ?_, ?_⟩
  · rw [e1]; exact h.rdRange
  · rw [e3, e1, e7, e8]; exact h.rdCount
  · rw [e4, e1, e5]; exact h.first1
  · rw [e4, e1, e5]; exact h.first2
  · rw [e3, e6, e4, e5]; exact h.sticky
  · intro a g ha x
    by_cases e : a = i
    · subst e; rw [hpc', upd_eq] at x; simp [Holds] at x
    · rw [hpc', upd_ne _ _ _ _ e] at x
      rw [e7, e8, e9, e10, cnt_adv_ne hout.tok ha (by rw [← itok]; exact e)]
      exact h.hold a g ha x
  · intro a ha x
    by_cases e : a = i
    · subst e
      rw [e7, e8, e9, e10]
      have this : cnt n (advBase n s.outBase s.outTok) (advTok n s.outTok) a = cnt n s.outBase s.outTok a + n := by
        rw [itok]; exact cnt_adv_eq hout.tok
      rw [this]; exact hh.2
    · rw [hpc', upd_ne _ _ _ _ e] at x
      rw [e7, e8, e9, e10, cnt_adv_ne hout.tok ha (by rw [← itok]; exact e)]
      exact h.idle a ha x
  · rw [e2, e9, e10, adv_sum hout.tok, List.range_succ, hf, ← h.mrg]

theorem inv_init (n F : Nat) (hn : 0 < n) (b : Option Nat) : Inv n F (init b) := by
  refine ⟨⟨hn, ?_, ?_, ?_, ?_, ?_, ?_⟩, ⟨hn, ?_, ?_, ?_, ?_, ?_, ?_⟩, ⟨?_⟩, ⟨?_, ?_, ?_, ?_, ?_, ?_, ?_, ?_⟩⟩
  · intro i j _ _ h; simp [init, InSec, PreRead, PostRead] at h
  · intro i j _ _ h; simp [init, InSec, PreRead, PostRead] at h
  · intro j j' _ _ h h'; simp [init] at h h'; omega
  · intro j _ h; simp [init] at h; simp [init]; exact h
  · intro i _ h; simp [init, PreRead] at h
  · intro i _ h; simp [init, PostRead] at h
  · intro i j _ _ h; simp [init, OutSec, IsMerging, IsPassOut] at h
  · intro i j _ _ h; simp [init, OutSec, IsMerging, IsPassOut] at h
  · intro j j' _ _ h h'; simp [init] at h h'; omega
  · intro j _ h; simp [init] at h; simp [init]; exact h
  · intro i _ h; simp [init, IsMerging] at h
  · intro i _ h; simp [init, IsPassOut] at h
  · simp [init, HoldsRd]
  · simp [init]
  · intro _; simp [init]
  · intro _; simp [init]
  · intro h; simp [init] at h
  · intro h; simp [init] at h
  · intro i f _ h; simp [init, Holds] at h
  · intro i _ _; simp [init, cnt]
  · simp [init]

theorem inv_step (n F : Nat) (s s' : S) (i : Nat) (hi : i < n)
    (h : Inv n F s) (hs : step n F s i = some s') : Inv n F s' := by
  obtain ⟨hin, hout, hrd, hdat⟩ := h
  unfold step at hs
  split at hs
  · -- wantIn
    rename_i hpc
    split at hs
    · cases hs
    · rename_i hfree; simp at hfree; cases hs
      refine ⟨hin.acquire i hi (by rw [hpc]; simp [InSec, PreRead, PostRead]) hfree wantReader
                (by simp [PreRead]) (by simp [PostRead]) rfl rfl rfl, ?_, ?_, ?_⟩
      · exact hout.frame i (fun j e => upd_ne _ _ _ _ e) (by simp [hpc, IsMerging])
          (by simp [hpc, IsPassOut]) rfl rfl
      · exact hrd.frame i (fun j e => upd_ne _ _ _ _ e) (by simp [hpc, HoldsRd]) rfl
      · exact hdat.frame i (fun j e => upd_ne _ _ _ _ e) (by intro f; simp [hpc, Holds])
          (by simp [hpc, Idle]) rfl rfl rfl rfl rfl rfl rfl rfl rfl rfl
  · -- wantReader
    rename_i hpc
    split at hs
    · cases hs
    · rename_i hfree; cases hs
      refine ⟨hin.frame i (fun j e => upd_ne _ _ _ _ e) (by simp [hpc, PreRead])
                (by simp [hpc, PostRead]) rfl rfl, ?_, ?_, ?_⟩
      · exact hout.frame i (fun j e => upd_ne _ _ _ _ e) (by simp [hpc, IsMerging])
          (by simp [hpc, IsPassOut]) rfl rfl
      · exact RdM.acquire i hi inReader (by simp [HoldsRd]) rfl rfl
      · exact hdat.frame i (fun j e => upd_ne _ _ _ _ e) (by intro f; simp [hpc, Holds])
          (by simp [hpc, Idle]) rfl rfl rfl rfl rfl rfl rfl rfl rfl rfl
  · -- inReader
    rename_i hpc
    have itok : i = s.inTok := hin.pre i hi (by rw [hpc]; simp [PreRead])
    have outF : ∀ p : PC, ¬ IsMerging p → ¬ IsPassOut p → ∀ s'' : S, s''.pc = Function.update s.pc i p →
        s''.outL = s.outL → s''.outTok = s.outTok → OutRing n s'' := by
      intro p h1 h2 s'' e1 e2 e3
      exact hout.frame i (fun j e => by rw [e1]; exact upd_ne _ _ _ _ e)
        (by rw [e1, upd_eq, hpc]; exact ⟨fun x => absurd x h1, fun x => by simp [IsMerging] at x⟩)
        (by rw [e1, upd_eq, hpc]; exact ⟨fun x => absurd x h2, fun x => by simp [IsPassOut] at x⟩) e2 e3
    split at hs
    · -- budget exhausted
      rename_i hb; cases hs
      refine ⟨hin.advance i hi (by rw [hpc]; simp [PreRead]) endUnlock (by simp [PostRead]) (by simp [PreRead]) rfl rfl rfl,
        outF endUnlock (by simp [IsMerging]) (by simp [IsPassOut]) _ rfl rfl rfl, ?_, ?_⟩
      · exact hrd.frame i (fun j e => upd_ne _ _ _ _ e) (by simp [hpc, HoldsRd]) rfl
      · exact hdat.readEnd hin i hi hpc rfl (Or.inl hb) rfl rfl rfl rfl rfl rfl rfl rfl rfl
    · rename_i hb
      split at hs
      · -- first frame, worker 0
        rename_i hf0; obtain ⟨hfirst, hi0⟩ := hf0; cases hs
        have hnotended : s.ended = false := by
          by_contra hc; simp at hc
          rcases hdat.sticky hc with h1 | h1
          · exact hb h1
          · rw [hfirst] at h1; cases h1.1
        have hlog := hdat.first1 hfirst
        refine ⟨hin.advance i hi (by rw [hpc]; simp [PreRead]) (gotFrame 0) (by simp [PostRead]) (by simp [PreRead]) rfl rfl rfl,
          outF (gotFrame 0) (by simp [IsMerging]) (by simp [IsPassOut]) _ rfl rfl rfl, ?_, ?_⟩
        · exact hrd.frame i (fun j e => upd_ne _ _ _ _ e) (by simp [hpc, HoldsRd]) rfl
        · exact hdat.readOk hin i hi hpc 0 (by rw [hlog.1]; rfl) hnotended rfl rfl rfl hnotended rfl
            (by show s.pos = s.readLog.length + 1; rw [hlog.1, hlog.2]; rfl) rfl rfl rfl rfl
      · rename_i hf0
        -- in ordered mode isFirst must already be false here
        have hnf : s.isFirst = false := by
          by_contra hc; simp at hc
          have hnotended : s.ended = false := by
            by_contra hc2; simp at hc2
            rcases hdat.sticky hc2 with h1 | h1
            · exact hb h1
            · rw [hc] at h1; cases h1.1
          have h0 := hdat.rdCount hnotended
          rw [(hdat.first1 hc).1] at h0; simp at h0
          exact hf0 ⟨hc, by omega⟩
        split at hs
        · -- NextFrame delivers frame pos
          rename_i hlt; cases hs
          have hnotended : s.ended = false := by
            by_contra hc2; simp at hc2
            rcases hdat.sticky hc2 with h1 | h1
            · exact hb h1
            · omega
          have hp := hdat.first2 hnf
          refine ⟨hin.advance i hi (by rw [hpc]; simp [PreRead]) (gotFrame s.pos) (by simp [PostRead]) (by simp [PreRead]) rfl rfl rfl,
            outF (gotFrame s.pos) (by simp [IsMerging]) (by simp [IsPassOut]) _ rfl rfl rfl, ?_, ?_⟩
          · exact hrd.frame i (fun j e => upd_ne _ _ _ _ e) (by simp [hpc, HoldsRd]) rfl
          · exact hdat.readOk hin i hi hpc s.pos hp.1 hnotended rfl rfl rfl hnotended
              (by show (if i = 0 then false else s.isFirst) = false; split <;> simp [hnf])
              (by show s.pos + 1 = s.readLog.length + 1; rw [hp.1]) rfl rfl rfl rfl
        · -- NextFrame fails
          rename_i hge; cases hs
          refine ⟨hin.advance i hi (by rw [hpc]; simp [PreRead]) endUnlock (by simp [PostRead]) (by simp [PreRead]) rfl rfl rfl,
            outF endUnlock (by simp [IsMerging]) (by simp [IsPassOut]) _ rfl rfl rfl, ?_, ?_⟩
          · exact hrd.frame i (fun j e => upd_ne _ _ _ _ e) (by simp [hpc, HoldsRd]) rfl
          · exact hdat.readEnd hin i hi hpc rfl (Or.inr ⟨hnf, by show F ≤ s.pos; omega⟩) rfl rfl rfl rfl rfl rfl rfl rfl rfl
  · -- gotFrame f
    rename_i f hpc; cases hs
    refine ⟨hin.frame i (fun j e => upd_ne _ _ _ _ e) (by simp [hpc, PreRead])
              (by simp [hpc, PostRead]) rfl rfl, ?_, ?_, ?_⟩
    · exact hout.frame i (fun j e => upd_ne _ _ _ _ e) (by simp [hpc, IsMerging])
        (by simp [hpc, IsPassOut]) rfl rfl
    · exact RdM.release hin i hi (by rw [hpc]; simp [HoldsRd]) (passIn f) (by simp [HoldsRd]) rfl rfl
    · exact hdat.frame i (fun j e => upd_ne _ _ _ _ e) (by intro g; simp [hpc, Holds])
        (by simp [hpc, Idle]) rfl rfl rfl rfl rfl rfl rfl rfl rfl rfl
  · -- passIn f
    rename_i f hpc; cases hs
    refine ⟨hin.pass i hi (by rw [hpc]; simp [PostRead]) (eval f) (by simp [InSec, PreRead, PostRead]) rfl
              (by show Function.update s.inL ((i + 1) % n) false = _; rw [succ_mod hi]) rfl, ?_, ?_, ?_⟩
    · exact hout.frame i (fun j e => upd_ne _ _ _ _ e) (by simp [hpc, IsMerging])
        (by simp [hpc, IsPassOut]) rfl rfl
    · exact hrd.frame i (fun j e => upd_ne _ _ _ _ e) (by simp [hpc, HoldsRd]) rfl
    · exact hdat.frame i (fun j e => upd_ne _ _ _ _ e) (by intro g; simp [hpc, Holds])
        (by simp [hpc, Idle]) rfl rfl rfl rfl rfl rfl rfl rfl rfl rfl
  · -- eval f
    rename_i f hpc; cases hs
    refine ⟨hin.frame i (fun j e => upd_ne _ _ _ _ e) (by simp [hpc, PreRead])
              (by simp [hpc, PostRead]) rfl rfl, ?_, ?_, ?_⟩
    · exact hout.frame i (fun j e => upd_ne _ _ _ _ e) (by simp [hpc, IsMerging])
        (by simp [hpc, IsPassOut]) rfl rfl
    · exact hrd.frame i (fun j e => upd_ne _ _ _ _ e) (by simp [hpc, HoldsRd]) rfl
    · exact hdat.frame i (fun j e => upd_ne _ _ _ _ e) (by intro g; simp [hpc, Holds])
        (by simp [hpc, Idle]) rfl rfl rfl rfl rfl rfl rfl rfl rfl rfl
  · -- wantOut f
    rename_i f hpc
    split at hs
    · cases hs
    · rename_i hfree; simp at hfree; cases hs
      refine ⟨hin.frame i (fun j e => upd_ne _ _ _ _ e) (by simp [hpc, PreRead])
                (by simp [hpc, PostRead]) rfl rfl, ?_, ?_, ?_⟩
      · exact hout.acquire i hi (by rw [hpc]; simp [OutSec, IsMerging, IsPassOut]) hfree (merging f)
          (by simp [IsMerging]) (by simp [IsPassOut]) rfl rfl rfl
      · exact hrd.frame i (fun j e => upd_ne _ _ _ _ e) (by simp [hpc, HoldsRd]) rfl
      · exact hdat.frame i (fun j e => upd_ne _ _ _ _ e) (by intro g; simp [hpc, Holds])
          (by simp [hpc, Idle]) rfl rfl rfl rfl rfl rfl rfl rfl rfl rfl
  · -- merging f
    rename_i f hpc; cases hs
    refine ⟨hin.frame i (fun j e => upd_ne _ _ _ _ e) (by simp [hpc, PreRead])
              (by simp [hpc, PostRead]) rfl rfl, ?_, ?_, ?_⟩
    · exact hout.advance i hi (by rw [hpc]; simp [IsMerging]) passOut (by simp [IsPassOut]) (by simp [IsMerging]) rfl rfl rfl
    · exact hrd.frame i (fun j e => upd_ne _ _ _ _ e) (by simp [hpc, HoldsRd]) rfl
    · exact hdat.merge hout i hi f hpc rfl rfl rfl rfl rfl rfl rfl rfl rfl rfl rfl
  · -- passOut
    rename_i hpc; cases hs
    refine ⟨hin.frame i (fun j e => upd_ne _ _ _ _ e) (by simp [hpc, PreRead])
              (by simp [hpc, PostRead]) rfl rfl, ?_, ?_, ?_⟩
    · exact hout.pass i hi (by rw [hpc]; simp [IsPassOut]) wantIn (by simp [OutSec, IsMerging, IsPassOut]) rfl
        (by show Function.update s.outL ((i + 1) % n) false = _; rw [succ_mod hi]) rfl
    · exact hrd.frame i (fun j e => upd_ne _ _ _ _ e) (by simp [hpc, HoldsRd]) rfl
    · exact hdat.frame i (fun j e => upd_ne _ _ _ _ e) (by intro g; simp [hpc, Holds])
        (by simp [hpc, Idle]) rfl rfl rfl rfl rfl rfl rfl rfl rfl rfl
  · -- endUnlock
    rename_i hpc; cases hs
    refine ⟨hin.frame i (fun j e => upd_ne _ _ _ _ e) (by simp [hpc, PreRead])
              (by simp [hpc, PostRead]) rfl rfl, ?_, ?_, ?_⟩
    · exact hout.frame i (fun j e => upd_ne _ _ _ _ e) (by simp [hpc, IsMerging])
        (by simp [hpc, IsPassOut]) rfl rfl
    · exact RdM.release hin i hi (by rw [hpc]; simp [HoldsRd]) endPass (by simp [HoldsRd]) rfl rfl
    · exact hdat.frame i (fun j e => upd_ne _ _ _ _ e) (by intro g; simp [hpc, Holds])
        (by simp [hpc, Idle]) rfl rfl rfl rfl rfl rfl rfl rfl rfl rfl
  · -- endPass
    rename_i hpc; cases hs
    refine ⟨hin.pass i hi (by rw [hpc]; simp [PostRead]) done (by simp [InSec, PreRead, PostRead]) rfl
              (by show Function.update s.inL ((i + 1) % n) false = _; rw [succ_mod hi]) rfl, ?_, ?_, ?_⟩
    · exact hout.frame i (fun j e => upd_ne _ _ _ _ e) (by simp [hpc, IsMerging])
        (by simp [hpc, IsPassOut]) rfl rfl
    · exact hrd.frame i (fun j e => upd_ne _ _ _ _ e) (by simp [hpc, HoldsRd]) rfl
    · exact hdat.frame i (fun j e => upd_ne _ _ _ _ e) (by intro g; simp [hpc, Holds])
        (by simp [hpc, Idle]) rfl rfl rfl rfl rfl rfl rfl rfl rfl rfl
  · cases hs


/-! ### second layer of invariants (progress): token availability, conservation of frames -/
def Fin : PC → Prop | endUnlock | endPass | done => True | _ => False

structure Avail (n : Nat) (s : S) : Prop where
  inA : (∀ k, k < n → ¬ InSec (s.pc k)) → s.inL s.inTok = false
  outA : (∀ k, k < n → ¬ OutSec (s.pc k)) → s.outL s.outTok = false

structure Data2 (n F : Nat) (s : S) : Prop where
  heldLt : ∀ i f, i < n → Holds (s.pc i) f → f < s.readLog.length
  conserve : ∀ f, s.outBase + s.outTok ≤ f → f < s.readLog.length → ∃ i, i < n ∧ Holds (s.pc i) f
  fin : ∀ i, i < n → Fin (s.pc i) → cnt n s.inBase s.inTok i = cnt n s.outBase s.outTok i + n
  lenF : s.readLog.length ≤ F

structure Inv2 (n F : Nat) (s : S) : Prop where
  av : Avail n s
  d2 : Data2 n F s

theorem Avail.inFrame {n : Nat} {s s' : S} (h : Avail n s) (i : Nat)
    (hpc : ∀ j, j ≠ i → s'.pc j = s.pc j) (c : InSec (s'.pc i) ↔ InSec (s.pc i))
    (hL : s'.inL = s.inL) (hT : s'.inTok = s.inTok) :
    (∀ k, k < n → ¬ InSec (s'.pc k)) → s'.inL s'.inTok = false := by
  intro hk
  rw [hL, hT]; apply h.inA
  intro k hkn x
  apply hk k hkn
  by_cases e : k = i
  · subst e; exact c.2 x
  · rw [hpc k e]; exact x

theorem Avail.outFrame {n : Nat} {s s' : S} (h : Avail n s) (i : Nat)
    (hpc : ∀ j, j ≠ i → s'.pc j = s.pc j) (c : OutSec (s'.pc i) ↔ OutSec (s.pc i))
    (hL : s'.outL = s.outL) (hT : s'.outTok = s.outTok) :
    (∀ k, k < n → ¬ OutSec (s'.pc k)) → s'.outL s'.outTok = false := by
  intro hk
  rw [hL, hT]; apply h.outA
  intro k hkn x
  apply hk k hkn
  by_cases e : k = i
  · subst e; exact c.2 x
  · rw [hpc k e]; exact x

theorem Data2.frame {n F : Nat} {s s' : S} (h : Data2 n F s) (i : Nat)
    (hpc : ∀ j, j ≠ i → s'.pc j = s.pc j)
    (c1 : ∀ f, Holds (s'.pc i) f ↔ Holds (s.pc i) f) (c3 : Fin (s'.pc i) ↔ Fin (s.pc i))
    (e1 : s'.readLog = s.readLog)
    (e7 : s'.inTok = s.inTok) (e8 : s'.inBase = s.inBase) (e9 : s'.outTok = s.outTok)
    (e10 : s'.outBase = s.outBase) : Data2 n F s' := by
  have hol : ∀ j f, Holds (s'.pc j) f ↔ Holds (s.pc j) f := by
    intro j f; by_cases e : j = i
    · subst e; exact c1 f
    · rw [hpc j e]
  have fi : ∀ j, Fin (s'.pc j) ↔ Fin (s.pc j) := by
    intro j; by_cases e : j = i
    · subst e; exact c3
    · rw [hpc j e]
  refine ⟨?_, ?_, ?_, ?_⟩
  · intro a f ha x; rw [e1]; exact h.heldLt a f ha ((hol a f).1 x)
  · intro f h1 h2; rw [e9, e10] at h1; rw [e1] at h2
    obtain ⟨a, ha, x⟩ := h.conserve f h1 h2
    exact ⟨a, ha, (hol a f).2 x⟩
  · intro a ha x; rw [e7, e8, e9, e10]; exact h.fin a ha ((fi a).1 x)
  · rw [e1]; exact h.lenF

theorem Data2.readEnd {n F : Nat} {s s' : S} (h : Data2 n F s) (hd : Data n F s) (hin : InRing n s)
    (i : Nat) (hi : i < n) (hpc : s.pc i = inReader) (hpc' : s'.pc = Function.update s.pc i endUnlock)
    (e1 : s'.readLog = s.readLog)
    (e7 : s'.inTok = advTok n s.inTok) (e8 : s'.inBase = advBase n s.inBase s.inTok)
    (e9 : s'.outTok = s.outTok) (e10 : s'.outBase = s.outBase) : Data2 n F s' := by
  have itok : i = s.inTok := hin.pre i hi (by rw [hpc]; simp [PreRead])
  refine ⟨?_, ?_, ?_, ?_⟩
  · intro a f ha x
    by_cases e : a = i
    · subst e; rw [hpc', upd_eq] at x; simp [Holds] at x
    · rw [hpc', upd_ne _ _ _ _ e] at x; rw [e1]; exact h.heldLt a f ha x
  · intro f h1 h2; rw [e9, e10] at h1; rw [e1] at h2
    obtain ⟨a, ha, x⟩ := h.conserve f h1 h2
    refine ⟨a, ha, ?_⟩
    by_cases e : a = i
    · subst e; rw [hpc] at x; simp [Holds] at x
    · rw [hpc', upd_ne _ _ _ _ e]; exact x
  · intro a ha x
    by_cases e : a = i
    · subst e
      have hidle := hd.idle a ha (by rw [hpc]; simp [Idle])
      have this : cnt n (advBase n s.inBase s.inTok) (advTok n s.inTok) a = cnt n s.inBase s.inTok a + n := by
        rw [itok]; exact cnt_adv_eq hin.tok
      rw [e7, e8, e9, e10, this, hidle]
    · rw [hpc', upd_ne _ _ _ _ e] at x
      rw [e7, e8, e9, e10, cnt_adv_ne hin.tok ha (by rw [← itok]; exact e)]
      exact h.fin a ha x
  · rw [e1]; exact h.lenF

theorem Data2.readOk {n F : Nat} {s s' : S} (h : Data2 n F s) (hin : InRing n s)
    (i : Nat) (hi : i < n) (hpc : s.pc i = inReader) (f : Nat) (hf : f = s.readLog.length) (hfF : f < F)
    (hpc' : s'.pc = Function.update s.pc i (gotFrame f)) (e1 : s'.readLog = s.readLog ++ [f])
    (e7 : s'.inTok = advTok n s.inTok) (e8 : s'.inBase = advBase n s.inBase s.inTok)
    (e9 : s'.outTok = s.outTok) (e10 : s'.outBase = s.outBase) : Data2 n F s' := by
  have itok : i = s.inTok := hin.pre i hi (by rw [hpc]; simp [PreRead])
  refine ⟨?_, ?_, ?_, ?_⟩
  · intro a g ha x
    rw [e1, List.length_append, List.length_singleton]
    by_cases e : a = i
    · subst e; rw [hpc', upd_eq] at x; simp only [Holds] at x; omega
    · rw [hpc', upd_ne _ _ _ _ e] at x; have := h.heldLt a g ha x; omega
  · intro g h1 h2
    rw [e9, e10] at h1; rw [e1, List.length_append, List.length_singleton] at h2
    by_cases eg : g = f
    · subst eg; exact ⟨i, hi, by rw [hpc', upd_eq]; simp [Holds]⟩
    · obtain ⟨a, ha, x⟩ := h.conserve g h1 (by omega)
      refine ⟨a, ha, ?_⟩
      by_cases e : a = i
      · subst e; rw [hpc] at x; simp [Holds] at x
      · rw [hpc', upd_ne _ _ _ _ e]; exact x
  · intro a ha x
    by_cases e : a = i
    · subst e; rw [hpc', upd_eq] at x; simp [Fin] at x
    · rw [hpc', upd_ne _ _ _ _ e] at x
      rw [e7, e8, e9, e10, cnt_adv_ne hin.tok ha (by rw [← itok]; exact e)]
      exact h.fin a ha x
  · rw [e1, List.length_append, List.length_singleton]; omega

theorem Data2.merge {n F : Nat} {s s' : S} (h : Data2 n F s) (hd : Data n F s) (hout : OutRing n s)
    (i : Nat) (hi : i < n) (f : Nat) (hpc : s.pc i = merging f)
    (hpc' : s'.pc = Function.update s.pc i passOut) (e1 : s'.readLog = s.readLog)
    (e7 : s'.inTok = s.inTok) (e8 : s'.inBase = s.inBase)
    (e9 : s'.outTok = advTok n s.outTok) (e10 : s'.outBase = advBase n s.outBase s.outTok) : Data2 n F s' := by
  have itok : i = s.outTok := hout.pre i hi (by rw [hpc]; simp [IsMerging])
  have hh := hd.hold i f hi (by rw [hpc]; simp [Holds])
  have hf : f = s.outBase + s.outTok := by
    have : cnt n s.outBase s.outTok i = s.outBase := by unfold cnt; rw [itok]; simp
    omega
  refine ⟨?_, ?_, ?_, ?_⟩
  · intro a g ha x
    by_cases e : a = i
    · subst e; rw [hpc', upd_eq] at x; simp [Holds] at x
    · rw [hpc', upd_ne _ _ _ _ e] at x; rw [e1]; exact h.heldLt a g ha x
  · intro g h1 h2
    rw [e9, e10, adv_sum hout.tok] at h1; rw [e1] at h2
    obtain ⟨a, ha, x⟩ := h.conserve g (by omega) h2
    refine ⟨a, ha, ?_⟩
    by_cases e : a = i
    · subst e; rw [hpc] at x; simp only [Holds] at x; omega
    · rw [hpc', upd_ne _ _ _ _ e]; exact x
  · intro a ha x
    by_cases e : a = i
    · subst e; rw [hpc', upd_eq] at x; simp [Fin] at x
    · rw [hpc', upd_ne _ _ _ _ e] at x
      rw [e7, e8, e9, e10, cnt_adv_ne hout.tok ha (by rw [← itok]; exact e)]
      exact h.fin a ha x
  · rw [e1]; exact h.lenF

theorem inv2_init (n F : Nat) (b : Option Nat) : Inv2 n F (init b) := by
  refine ⟨⟨?_, ?_⟩, ⟨?_, ?_, ?_, ?_⟩⟩
  · intro _; simp [init]
  · intro _; simp [init]
  · intro i f _ h; simp [init, Holds] at h
  · intro f _ h; simp [init] at h
  · intro i _ h; simp [init, Fin] at h
  · simp [init]

theorem inv2_step (n F : Nat) (hF : 1 ≤ F) (s s' : S) (i : Nat) (hi : i < n)
    (h : Inv n F s) (h2 : Inv2 n F s) (hs : step n F s i = some s') : Inv2 n F s' := by
  obtain ⟨hin, hout, hrd, hdat⟩ := h
  obtain ⟨hav, hd2⟩ := h2
  -- generic pieces
  have inSame : ∀ p : PC, (InSec p ↔ InSec (s.pc i)) → ∀ s'' : S, s''.pc = Function.update s.pc i p →
      s''.inL = s.inL → s''.inTok = s.inTok → (∀ k, k < n → ¬ InSec (s''.pc k)) → s''.inL s''.inTok = false := by
    intro p c s'' e1 e2 e3
    exact hav.inFrame i (fun j e => by rw [e1]; exact upd_ne _ _ _ _ e) (by rw [e1, upd_eq]; exact c) e2 e3
  have outSame : ∀ p : PC, (OutSec p ↔ OutSec (s.pc i)) → ∀ s'' : S, s''.pc = Function.update s.pc i p →
      s''.outL = s.outL → s''.outTok = s.outTok → (∀ k, k < n → ¬ OutSec (s''.pc k)) → s''.outL s''.outTok = false := by
    intro p c s'' e1 e2 e3
    exact hav.outFrame i (fun j e => by rw [e1]; exact upd_ne _ _ _ _ e) (by rw [e1, upd_eq]; exact c) e2 e3
  have inVac : ∀ p : PC, InSec p → ∀ s'' : S, s''.pc = Function.update s.pc i p →
      (∀ k, k < n → ¬ InSec (s''.pc k)) → s''.inL s''.inTok = false := by
    intro p hp s'' e1 hk; exact absurd (by rw [e1, upd_eq]; exact hp) (hk i hi)
  have outVac : ∀ p : PC, OutSec p → ∀ s'' : S, s''.pc = Function.update s.pc i p →
      (∀ k, k < n → ¬ OutSec (s''.pc k)) → s''.outL s''.outTok = false := by
    intro p hp s'' e1 hk; exact absurd (by rw [e1, upd_eq]; exact hp) (hk i hi)
  have d2Same : ∀ p : PC, (∀ f, Holds p f ↔ Holds (s.pc i) f) → (Fin p ↔ Fin (s.pc i)) → ∀ s'' : S,
      s''.pc = Function.update s.pc i p → s''.readLog = s.readLog → s''.inTok = s.inTok → s''.inBase = s.inBase →
      s''.outTok = s.outTok → s''.outBase = s.outBase → Data2 n F s'' := by
    intro p c1 c3 s'' e0 e1 e7 e8 e9 e10
    exact hd2.frame i (fun j e => by rw [e0]; exact upd_ne _ _ _ _ e) (by intro f; rw [e0, upd_eq]; exact c1 f)
      (by rw [e0, upd_eq]; exact c3) e1 e7 e8 e9 e10
  unfold step at hs
  split at hs
  · rename_i hpc
    split at hs
    · cases hs
    · cases hs
      exact ⟨⟨inVac wantReader (by simp [InSec, PreRead]) _ rfl,
              outSame wantReader (by rw [hpc]; simp [OutSec, IsMerging, IsPassOut]) _ rfl rfl rfl⟩,
             d2Same wantReader (by intro f; rw [hpc]; simp [Holds]) (by rw [hpc]; simp [Fin]) _ rfl rfl rfl rfl rfl rfl⟩
  · rename_i hpc
    split at hs
    · cases hs
    · cases hs
      exact ⟨⟨inVac inReader (by simp [InSec, PreRead]) _ rfl,
              outSame inReader (by rw [hpc]; simp [OutSec, IsMerging, IsPassOut]) _ rfl rfl rfl⟩,
             d2Same inReader (by intro f; rw [hpc]; simp [Holds]) (by rw [hpc]; simp [Fin]) _ rfl rfl rfl rfl rfl rfl⟩
  · rename_i hpc
    split at hs
    · cases hs
      exact ⟨⟨inVac endUnlock (by simp [InSec, PostRead]) _ rfl,
              outSame endUnlock (by rw [hpc]; simp [OutSec, IsMerging, IsPassOut]) _ rfl rfl rfl⟩,
             hd2.readEnd hdat hin i hi hpc rfl rfl rfl rfl rfl rfl⟩
    · rename_i hb
      split at hs
      · rename_i hf0; obtain ⟨hfirst, hi0⟩ := hf0; cases hs
        have hlog := hdat.first1 hfirst
        exact ⟨⟨inVac (gotFrame 0) (by simp [InSec, PostRead]) _ rfl,
                outSame (gotFrame 0) (by rw [hpc]; simp [OutSec, IsMerging, IsPassOut]) _ rfl rfl rfl⟩,
               hd2.readOk hin i hi hpc 0 (by rw [hlog.1]; rfl) (by omega) rfl rfl rfl rfl rfl rfl⟩
      · rename_i hf0
        have hnf : s.isFirst = false := by
          by_contra hc; simp at hc
          have hnotended : s.ended = false := by
            by_contra hc2; simp at hc2
            rcases hdat.sticky hc2 with h1 | h1
            · exact hb h1
            · rw [hc] at h1; cases h1.1
          have itok : i = s.inTok := hin.pre i hi (by rw [hpc]; simp [PreRead])
          have h0 := hdat.rdCount hnotended
          rw [(hdat.first1 hc).1] at h0; simp at h0
          exact hf0 ⟨hc, by omega⟩
        split at hs
        · rename_i hlt; cases hs
          have hp := hdat.first2 hnf
          exact ⟨⟨inVac (gotFrame s.pos) (by simp [InSec, PostRead]) _ rfl,
                  outSame (gotFrame s.pos) (by rw [hpc]; simp [OutSec, IsMerging, IsPassOut]) _ rfl rfl rfl⟩,
                 hd2.readOk hin i hi hpc s.pos hp.1 hlt rfl rfl rfl rfl rfl rfl⟩
        · cases hs
          exact ⟨⟨inVac endUnlock (by simp [InSec, PostRead]) _ rfl,
                  outSame endUnlock (by rw [hpc]; simp [OutSec, IsMerging, IsPassOut]) _ rfl rfl rfl⟩,
                 hd2.readEnd hdat hin i hi hpc rfl rfl rfl rfl rfl rfl⟩
  · rename_i f hpc; cases hs
    exact ⟨⟨inVac (passIn f) (by simp [InSec, PostRead]) _ rfl,
            outSame (passIn f) (by rw [hpc]; simp [OutSec, IsMerging, IsPassOut]) _ rfl rfl rfl⟩,
           d2Same (passIn f) (by intro g; rw [hpc]; simp [Holds]) (by rw [hpc]; simp [Fin]) _ rfl rfl rfl rfl rfl rfl⟩
  · rename_i f hpc; cases hs
    refine ⟨⟨?_, outSame (eval f) (by rw [hpc]; simp [OutSec, IsMerging, IsPassOut]) _ rfl rfl rfl⟩,
           d2Same (eval f) (by intro g; rw [hpc]; simp [Holds]) (by rw [hpc]; simp [Fin]) _ rfl rfl rfl rfl rfl rfl⟩
    intro _
    show Function.update s.inL ((i + 1) % n) false s.inTok = false
    rw [succ_mod hi, hin.post i hi (by rw [hpc]; simp [PostRead]), upd_eq]
  · rename_i f hpc; cases hs
    exact ⟨⟨inSame (wantOut f) (by rw [hpc]; simp [InSec, PreRead, PostRead]) _ rfl rfl rfl,
            outSame (wantOut f) (by rw [hpc]; simp [OutSec, IsMerging, IsPassOut]) _ rfl rfl rfl⟩,
           d2Same (wantOut f) (by intro g; rw [hpc]; simp [Holds]) (by rw [hpc]; simp [Fin]) _ rfl rfl rfl rfl rfl rfl⟩
  · rename_i f hpc
    split at hs
    · cases hs
    · cases hs
      exact ⟨⟨inSame (merging f) (by rw [hpc]; simp [InSec, PreRead, PostRead]) _ rfl rfl rfl,
              outVac (merging f) (by simp [OutSec, IsMerging]) _ rfl⟩,
             d2Same (merging f) (by intro g; rw [hpc]; simp [Holds]) (by rw [hpc]; simp [Fin]) _ rfl rfl rfl rfl rfl rfl⟩
  · rename_i f hpc; cases hs
    exact ⟨⟨inSame passOut (by rw [hpc]; simp [InSec, PreRead, PostRead]) _ rfl rfl rfl,
            outVac passOut (by simp [OutSec, IsPassOut]) _ rfl⟩,
           hd2.merge hdat hout i hi f hpc rfl rfl rfl rfl rfl rfl⟩
  · rename_i hpc; cases hs
    refine ⟨⟨inSame wantIn (by rw [hpc]; simp [InSec, PreRead, PostRead]) _ rfl rfl rfl, ?_⟩,
           d2Same wantIn (by intro g; rw [hpc]; simp [Holds]) (by rw [hpc]; simp [Fin]) _ rfl rfl rfl rfl rfl rfl⟩
    intro _
    show Function.update s.outL ((i + 1) % n) false s.outTok = false
    rw [succ_mod hi, hout.post i hi (by rw [hpc]; simp [IsPassOut]), upd_eq]
  · rename_i hpc; cases hs
    exact ⟨⟨inVac endPass (by simp [InSec, PostRead]) _ rfl,
            outSame endPass (by rw [hpc]; simp [OutSec, IsMerging, IsPassOut]) _ rfl rfl rfl⟩,
           d2Same endPass (by intro g; rw [hpc]; simp [Holds]) (by rw [hpc]; simp [Fin]) _ rfl rfl rfl rfl rfl rfl⟩
  · rename_i hpc; cases hs
    refine ⟨⟨?_, outSame done (by rw [hpc]; simp [OutSec, IsMerging, IsPassOut]) _ rfl rfl rfl⟩,
           d2Same done (by intro g; rw [hpc]; simp [Holds]) (by rw [hpc]; simp [Fin]) _ rfl rfl rfl rfl rfl rfl⟩
    intro _
    show Function.update s.inL ((i + 1) % n) false s.inTok = false
    rw [succ_mod hi, hin.post i hi (by rw [hpc]; simp [PostRead]), upd_eq]
  · cases hs

theorem inv_run (n F : Nat) (sched : List Nat) : ∀ s, Inv n F s → Inv n F (run n F s sched) := by
  induction sched with
  | nil => intro s h; exact h
  | cons i rest ih =>
    intro s h
    unfold run
    by_cases hi : i < n
    · simp only [hi, if_true]
      cases hst : step n F s i with
      | none => exact ih s h
      | some s' => exact ih s' (inv_step n F s s' i hi h hst)
    · simp only [hi, if_false]; exact ih s h

/-! ### the protocol theorems: every n ≥ 1, every file length, every budget, every schedule -/

/-- frames are read in file order, each exactly once -/
theorem read_in_order (n F : Nat) (hn : 0 < n) (b : Option Nat) (sched : List Nat) :
    let s := run n F (init b) sched
    s.readLog = List.range s.readLog.length :=
  (inv_run n F sched _ (inv_init n F hn b)).data.rdRange

/-- merges happen in frame order: the merge log is always 0,1,2,…  -/
theorem merge_in_order (n F : Nat) (hn : 0 < n) (b : Option Nat) (sched : List Nat) :
    let s := run n F (init b) sched
    s.mergeLog = List.range s.mergeLog.length := by
  intro s
  have h := (inv_run n F sched _ (inv_init n F hn b)).data.mrg
  have : s.mergeLog.length = s.outBase + s.outTok := by
    show (run n F (init b) sched).mergeLog.length = _
    rw [h]; simp; rfl
  rw [this]; exact h

/-- never two workers inside the trajectory reader -/
theorem reader_mutex (n F : Nat) (hn : 0 < n) (b : Option Nat) (sched : List Nat) (i j : Nat)
    (hi : i < n) (hj : j < n)
    (h1 : (run n F (init b) sched).pc i = inReader) (h2 : (run n F (init b) sched).pc j = inReader) :
    i = j :=
  (inv_run n F sched _ (inv_init n F hn b)).inR.excl i j hi hj
    (by rw [h1]; simp [InSec, PreRead]) (by rw [h2]; simp [InSec, PreRead])

/-- never two workers inside the merge step -/
theorem merge_mutex (n F : Nat) (hn : 0 < n) (b : Option Nat) (sched : List Nat) (i j f g : Nat)
    (hi : i < n) (hj : j < n)
    (h1 : (run n F (init b) sched).pc i = merging f) (h2 : (run n F (init b) sched).pc j = merging g) :
    i = j :=
  (inv_run n F sched _ (inv_init n F hn b)).outR.excl i j hi hj
    (by rw [h1]; simp [OutSec, IsMerging]) (by rw [h2]; simp [OutSec, IsMerging])



theorem cnt_low {n ob ot k f X : Nat} (hk : k < n) (hot : ot < n) (h1 : f + n = X + k)
    (h2 : X = cnt n ob ot k + n) : ob + ot ≤ f := by
  unfold cnt at h2; split at h2 <;> omega

theorem cnt_tok {n ob ot a X : Nat} (ha : a < n) (hot : ot < n) (h1 : ob + ot + n = X + a)
    (h2 : X = cnt n ob ot a + n) : a = ot := by
  unfold cnt at h2; split at h2 <;> omega

theorem cnt_contra {n ib it ob ot j : Nat} (hj : j < n) (hit : it < n) (hot : ot < n) (hne : j ≠ it)
    (hfin : cnt n ib it it = cnt n ob ot it + n) (hidle : cnt n ib it j = cnt n ob ot j) : False := by
  unfold cnt at hfin hidle
  simp only [Nat.lt_irrefl, if_false] at hfin
  split at hfin <;> split at hidle <;> split at hidle <;> omega

/-! ### deadlock freedom -/
theorem pc_cases (p : PC) : OutSec p ∨ InSec p ∨ (∃ f, p = eval f) ∨ p = wantIn ∨ (∃ f, p = wantOut f) ∨ p = done := by
  cases p <;> simp [OutSec, InSec, IsMerging, IsPassOut, PreRead, PostRead]

theorem deadlock_free (n F : Nat) (s : S) (h : Inv n F s) (h2 : Inv2 n F s)
    (hnot : ∃ i, i < n ∧ s.pc i ≠ done) : ∃ i, i < n ∧ (step n F s i).isSome = true := by
  obtain ⟨hin, hout, hrd, hdat⟩ := h
  obtain ⟨hav, hd2⟩ := h2
  by_cases hA : ∃ k, k < n ∧ OutSec (s.pc k)
  · obtain ⟨k, hk, x⟩ := hA
    refine ⟨k, hk, ?_⟩
    unfold step
    cases hp : s.pc k <;> rw [hp] at x <;> simp [OutSec, IsMerging, IsPassOut] at x <;> simp
  by_cases hB : ∃ k, k < n ∧ InSec (s.pc k)
  · obtain ⟨k, hk, x⟩ := hB
    refine ⟨k, hk, ?_⟩
    have hrdf : s.pc k = wantReader → s.rd = false := by
      intro hp
      by_contra hc; simp at hc
      obtain ⟨j, hj, hh⟩ := hrd.iff.1 hc
      have := hin.excl j k hj hk (holdsRd_inSec _ hh) x
      subst this; rw [hp] at hh; simp [HoldsRd] at hh
    unfold step
    cases hp : s.pc k <;> rw [hp] at x <;> simp [InSec, PreRead, PostRead] at x
    · simp [hrdf hp]
    · simp; split <;> (try split) <;> (try split) <;> simp
    all_goals simp
  have nOut : ∀ k, k < n → ¬ OutSec (s.pc k) := fun k hk x => hA ⟨k, hk, x⟩
  have nIn : ∀ k, k < n → ¬ InSec (s.pc k) := fun k hk x => hB ⟨k, hk, x⟩
  by_cases hC : ∃ k, k < n ∧ ∃ f, s.pc k = eval f
  · obtain ⟨k, hk, f, hp⟩ := hC
    exact ⟨k, hk, by unfold step; rw [hp]; simp⟩
  have rest : ∀ k, k < n → s.pc k = wantIn ∨ (∃ f, s.pc k = wantOut f) ∨ s.pc k = done := by
    intro k hk
    rcases pc_cases (s.pc k) with x | x | x | x
    · exact absurd x (nOut k hk)
    · exact absurd x (nIn k hk)
    · exact absurd ⟨k, hk, x⟩ hC
    · exact x
  by_cases hD : ∃ k, k < n ∧ ∃ f, s.pc k = wantOut f
  · -- the worker holding the lowest unmerged frame sits at the out token
    obtain ⟨k, hk, f, hp⟩ := hD
    have hkH : Holds (s.pc k) f := by rw [hp]; simp [Holds]
    have hlt := hd2.heldLt k f hk hkH
    have hkh := hdat.hold k f hk hkH
    have hoT := hout.tok
    have hq : s.outBase + s.outTok ≤ f := cnt_low hk hoT hkh.1 hkh.2
    obtain ⟨a, ha, hah⟩ := hd2.conserve (s.outBase + s.outTok) (Nat.le_refl _) (by omega)
    have hah2 := hdat.hold a _ ha hah
    have ha_tok : a = s.outTok := cnt_tok ha hoT hah2.1 hah2.2
    have hpa : s.pc a = wantOut (s.outBase + s.outTok) := by
      rcases rest a ha with x | ⟨g, x⟩ | x
      · rw [x] at hah; simp [Holds] at hah
      · rw [x] at hah; simp only [Holds] at hah; rw [x, hah]
      · rw [x] at hah; simp [Holds] at hah
    refine ⟨a, ha, ?_⟩
    have hfree := hav.outA nOut
    have hfa : s.outL a = false := by rw [ha_tok]; exact hfree
    unfold step; rw [hpa]; simp [hfa]
  · -- nobody holds a frame: someone waits for the in token, and it is free at that worker
    have rest2 : ∀ k, k < n → s.pc k = wantIn ∨ s.pc k = done := by
      intro k hk
      rcases rest k hk with x | ⟨g, x⟩ | x
      · exact Or.inl x
      · exact absurd ⟨k, hk, g, x⟩ hD
      · exact Or.inr x
    obtain ⟨j, hj, hjn⟩ := hnot
    have hjw : s.pc j = wantIn := (rest2 j hj).resolve_right hjn
    have hfree := hav.inA nIn
    have hiT := hin.tok
    have hoT := hout.tok
    rcases rest2 s.inTok hiT with x | x
    · exact ⟨s.inTok, hiT, by unfold step; rw [x]; simp [hfree]⟩
    · exfalso
      have hfin := hd2.fin s.inTok hiT (by rw [x]; simp [Fin])
      have hidle := hdat.idle j hj (by rw [hjw]; simp [Idle])
      have hne : j ≠ s.inTok := by intro e; rw [e, x] at hjw; cases hjw
      exact cnt_contra hj hiT hoT hne hfin hidle

/-! ### termination: a strictly decreasing measure -/
def weight : PC → Nat
  | gotFrame _ => 18 | passIn _ => 17 | eval _ => 16 | wantOut _ => 15 | merging _ => 14 | passOut => 13
  | wantIn => 12 | wantReader => 11 | inReader => 10 | endUnlock => 2 | endPass => 1 | done => 0

def sumR : Nat → (Nat → Nat) → Nat
  | 0, _ => 0
  | k + 1, g => sumR k g + g k

theorem sumR_congr (k : Nat) (g g' : Nat → Nat) (h : ∀ j, j < k → g j = g' j) : sumR k g = sumR k g' := by
  induction k with
  | zero => rfl
  | succ k ih => simp only [sumR]; rw [ih (fun j hj => h j (by omega)), h k (by omega)]

theorem sumR_update (k : Nat) (pc : Nat → PC) (i : Nat) (p' : PC) (hi : i < k) :
    sumR k (fun j => weight (Function.update pc i p' j)) + weight (pc i)
      = sumR k (fun j => weight (pc j)) + weight p' := by
  induction k with
  | zero => omega
  | succ k ih =>
    simp only [sumR]
    by_cases e : i = k
    · subst e
      rw [upd_eq]
      have := sumR_congr i (fun j => weight (Function.update pc i p' j)) (fun j => weight (pc j))
        (fun j hj => by show weight (Function.update pc i p' j) = _; rw [upd_ne _ _ _ _ (by omega)])
      rw [this]; omega
    · have := ih (by omega)
      rw [upd_ne _ _ _ _ (Ne.symm e)]; omega

def measure (n F : Nat) (s : S) : Nat := 10 * (F - s.readLog.length) + sumR n (fun j => weight (s.pc j))

theorem measure_step (n F : Nat) (s : S) (i : Nat) (hi : i < n) (p p' : PC) (hpc : s.pc i = p) (len' : Nat)
    (hw : 10 * (F - len') + weight p' < 10 * (F - s.readLog.length) + weight p) :
    10 * (F - len') + sumR n (fun j => weight (Function.update s.pc i p' j))
      < 10 * (F - s.readLog.length) + sumR n (fun j => weight (s.pc j)) := by
  have := sumR_update n s.pc i p' hi; rw [hpc] at this; omega

theorem measure_decreases (n F : Nat) (hF : 1 ≤ F) (s s' : S) (i : Nat) (hi : i < n)
    (h : Inv n F s) (h2 : Inv2 n F s) (hs : step n F s i = some s') :
    measure n F s' < measure n F s := by
  have h2' := inv2_step n F hF s s' i hi h h2 hs
  have hl' := h2'.d2.lenF
  unfold measure
  unfold step at hs
  split at hs
  · rename_i hpc; split at hs
    · cases hs
    · cases hs; exact measure_step n F s i hi _ _ hpc _ (by simp [weight])
  · rename_i hpc; split at hs
    · cases hs
    · cases hs; exact measure_step n F s i hi _ _ hpc _ (by simp [weight])
  · rename_i hpc
    split at hs
    · cases hs; exact measure_step n F s i hi _ _ hpc _ (by simp [weight])
    · split at hs
      · cases hs
        refine measure_step n F s i hi _ _ hpc _ ?_
        simp only [List.length_append, List.length_singleton, weight] at hl' ⊢; omega
      · split at hs
        · cases hs
          refine measure_step n F s i hi _ _ hpc _ ?_
          simp only [List.length_append, List.length_singleton, weight] at hl' ⊢; omega
        · cases hs; exact measure_step n F s i hi _ _ hpc _ (by simp [weight])
  · rename_i f hpc; cases hs; exact measure_step n F s i hi _ _ hpc _ (by simp [weight])
  · rename_i f hpc; cases hs; exact measure_step n F s i hi _ _ hpc _ (by simp [weight])
  · rename_i f hpc; cases hs; exact measure_step n F s i hi _ _ hpc _ (by simp [weight])
  · rename_i f hpc; split at hs
    · cases hs
    · cases hs; exact measure_step n F s i hi _ _ hpc _ (by simp [weight])
  · rename_i f hpc; cases hs; exact measure_step n F s i hi _ _ hpc _ (by simp [weight])
  · rename_i hpc; cases hs; exact measure_step n F s i hi _ _ hpc _ (by simp [weight])
  · rename_i hpc; cases hs; exact measure_step n F s i hi _ _ hpc _ (by simp [weight])
  · rename_i hpc; cases hs; exact measure_step n F s i hi _ _ hpc _ (by simp [weight])
  · cases hs


/-! ### third layer: how many frames get processed -/
def target (b0 : Option Nat) (F : Nat) : Nat := match b0 with | none => F | some r => min r F

structure Data3 (n F : Nat) (b0 : Option Nat) (s : S) : Prop where
  budOk : s.ended = false → s.budget = b0.map (· - s.readLog.length) ∧ s.readLog.length ≤ target b0 F
  endOk : s.ended = true → s.readLog.length = target b0 F
  finEnded : ∀ i, i < n → Fin (s.pc i) → s.ended = true
  qLe : s.outBase + s.outTok ≤ s.readLog.length

theorem Data3.frame {n F : Nat} {b0 : Option Nat} {s s' : S} (h : Data3 n F b0 s) (i : Nat)
    (hpc : ∀ j, j ≠ i → s'.pc j = s.pc j) (c3 : Fin (s'.pc i) ↔ Fin (s.pc i))
    (e1 : s'.readLog = s.readLog) (e3 : s'.ended = s.ended) (e6 : s'.budget = s.budget)
    (e9 : s'.outTok = s.outTok) (e10 : s'.outBase = s.outBase) : Data3 n F b0 s' := by
  refine ⟨?_, ?_, ?_, ?_⟩
  · rw [e3, e6, e1]; exact h.budOk
  · rw [e3, e1]; exact h.endOk
  · intro a ha x; rw [e3]; apply h.finEnded a ha
    by_cases e : a = i
    · subst e; exact c3.1 x
    · rw [hpc a e] at x; exact x
  · rw [e9, e10, e1]; exact h.qLe

theorem inv3_init (n F : Nat) (hF : 1 ≤ F) (b : Option Nat) : Data3 n F b (init b) := by
  refine ⟨?_, ?_, ?_, ?_⟩
  · intro _; refine ⟨?_, Nat.zero_le _⟩; cases b <;> simp [init]
  · intro h; simp [init] at h
  · intro i _ h; simp [init, Fin] at h
  · simp [init]

theorem inv3_step (n F : Nat) (hF : 1 ≤ F) (b0 : Option Nat) (s s' : S) (i : Nat) (hi : i < n)
    (h : Inv n F s) (h2 : Inv2 n F s) (h3 : Data3 n F b0 s) (hs : step n F s i = some s') :
    Data3 n F b0 s' := by
  have h2' := inv2_step n F hF s s' i hi h h2 hs
  obtain ⟨hin, hout, hrd, hdat⟩ := h
  have same : ∀ p : PC, (Fin p ↔ Fin (s.pc i)) → ∀ s'' : S, s''.pc = Function.update s.pc i p →
      s''.readLog = s.readLog → s''.ended = s.ended → s''.budget = s.budget →
      s''.outTok = s.outTok → s''.outBase = s.outBase → Data3 n F b0 s'' := by
    intro p c s'' e0 e1 e3 e6 e9 e10
    exact h3.frame i (fun j e => by rw [e0]; exact upd_ne _ _ _ _ e) (by rw [e0, upd_eq]; exact c) e1 e3 e6 e9 e10
  have hlenF := h2.d2.lenF
  unfold step at hs
  split at hs
  · rename_i hpc; split at hs
    · cases hs
    · cases hs; exact same wantReader (by rw [hpc]; simp [Fin]) _ rfl rfl rfl rfl rfl rfl
  · rename_i hpc; split at hs
    · cases hs
    · cases hs; exact same inReader (by rw [hpc]; simp [Fin]) _ rfl rfl rfl rfl rfl rfl
  · rename_i hpc
    split at hs
    · -- budget = some 0
      rename_i hb; cases hs
      refine ⟨(fun x => by cases x), ?_, (fun _ _ _ => rfl), h3.qLe⟩
      intro _
      show s.readLog.length = target b0 F
      by_cases he : s.ended = true
      · exact h3.endOk he
      · simp at he
        obtain ⟨hbud, hle⟩ := h3.budOk he
        rw [hb] at hbud
        cases b0 with
        | none => simp at hbud
        | some r =>
          simp at hbud; simp only [target] at hle ⊢
          omega
    · rename_i hb
      split at hs
      · -- frame 0
        rename_i hf0; obtain ⟨hfirst, hi0⟩ := hf0; cases hs
        have hnotended : s.ended = false := by
          by_contra hc; simp at hc
          rcases hdat.sticky hc with h1 | h1
          · exact hb h1
          · rw [hfirst] at h1; cases h1.1
        obtain ⟨hbud, hle⟩ := h3.budOk hnotended
        have hl' := h2'.d2.lenF
        refine ⟨?_, (fun x => by rw [hnotended] at x; cases x), ?_, ?_⟩
        · intro _
          simp only [List.length_append, List.length_singleton] at hl' ⊢
          constructor
          · rw [hbud]; cases b0 <;> simp [Nat.sub_sub]
          · cases b0 with
            | none => simp only [target]; exact hl'
            | some r =>
              simp only [target] at hle ⊢
              rw [hbud] at hb; simp at hb; omega
        · intro a ha x
          exfalso
          by_cases e : a = i
          · subst e; simp [upd_eq, Fin] at x
          · dsimp only at x; rw [upd_ne _ _ _ _ e] at x
            have := h3.finEnded a ha x; rw [hnotended] at this; cases this
        · have := h3.qLe
          simp only [List.length_append, List.length_singleton]; omega
      · rename_i hf0
        have hnf : s.isFirst = false := by
          by_contra hc; simp at hc
          have hnotended : s.ended = false := by
            by_contra hc2; simp at hc2
            rcases hdat.sticky hc2 with h1 | h1
            · exact hb h1
            · rw [hc] at h1; cases h1.1
          have itok : i = s.inTok := hin.pre i hi (by rw [hpc]; simp [PreRead])
          have h0 := hdat.rdCount hnotended
          rw [(hdat.first1 hc).1] at h0; simp at h0
          exact hf0 ⟨hc, by omega⟩
        have hp := hdat.first2 hnf
        split at hs
        · -- frame pos
          rename_i hlt; cases hs
          have hnotended : s.ended = false := by
            by_contra hc2; simp at hc2
            rcases hdat.sticky hc2 with h1 | h1
            · exact hb h1
            · omega
          obtain ⟨hbud, hle⟩ := h3.budOk hnotended
          have hl' := h2'.d2.lenF
          refine ⟨?_, (fun x => by rw [hnotended] at x; cases x), ?_, ?_⟩
          · intro _
            simp only [List.length_append, List.length_singleton] at hl' ⊢
            constructor
            · rw [hbud]; cases b0 <;> simp [Nat.sub_sub]
            · cases b0 with
              | none => simp only [target]; exact hl'
              | some r =>
                simp only [target] at hle ⊢
                rw [hbud] at hb; simp at hb; omega
          · intro a ha x
            exfalso
            by_cases e : a = i
            · subst e; simp [upd_eq, Fin] at x
            · dsimp only at x; rw [upd_ne _ _ _ _ e] at x
              have := h3.finEnded a ha x; rw [hnotended] at this; cases this
          · have := h3.qLe
            simp only [List.length_append, List.length_singleton]; omega
        · -- NextFrame fails
          rename_i hge; cases hs
          refine ⟨(fun x => by cases x), ?_, (fun _ _ _ => rfl), h3.qLe⟩
          intro _
          show s.readLog.length = target b0 F
          by_cases he : s.ended = true
          · exact h3.endOk he
          · simp at he
            obtain ⟨hbud, hle⟩ := h3.budOk he
            cases b0 with
            | none => simp only [target]; omega
            | some r =>
              simp only [target] at hle ⊢
              rw [hbud] at hb; simp at hb; omega
  · rename_i f hpc; cases hs; exact same (passIn f) (by rw [hpc]; simp [Fin]) _ rfl rfl rfl rfl rfl rfl
  · rename_i f hpc; cases hs; exact same (eval f) (by rw [hpc]; simp [Fin]) _ rfl rfl rfl rfl rfl rfl
  · rename_i f hpc; cases hs; exact same (wantOut f) (by rw [hpc]; simp [Fin]) _ rfl rfl rfl rfl rfl rfl
  · rename_i f hpc; split at hs
    · cases hs
    · cases hs; exact same (merging f) (by rw [hpc]; simp [Fin]) _ rfl rfl rfl rfl rfl rfl
  · -- merging
    rename_i f hpc; cases hs
    have itok : i = s.outTok := hout.pre i hi (by rw [hpc]; simp [IsMerging])
    have hh := hdat.hold i f hi (by rw [hpc]; simp [Holds])
    have hlt := h2.d2.heldLt i f hi (by rw [hpc]; simp [Holds])
    have hf : f = s.outBase + s.outTok := by
      have : cnt n s.outBase s.outTok i = s.outBase := by unfold cnt; rw [itok]; simp
      omega
    refine ⟨h3.budOk, h3.endOk, ?_, ?_⟩
    · intro a ha x
      apply h3.finEnded a ha
      by_cases e : a = i
      · subst e; simp [upd_eq, Fin] at x
      · dsimp only at x; rw [upd_ne _ _ _ _ e] at x
        exact x
    · show advBase n s.outBase s.outTok + advTok n s.outTok ≤ s.readLog.length
      rw [adv_sum hout.tok]; omega
  · rename_i hpc; cases hs; exact same wantIn (by rw [hpc]; simp [Fin]) _ rfl rfl rfl rfl rfl rfl
  · rename_i hpc; cases hs; exact same endPass (by rw [hpc]; simp [Fin]) _ rfl rfl rfl rfl rfl rfl
  · rename_i hpc; cases hs; exact same done (by rw [hpc]; simp [Fin]) _ rfl rfl rfl rfl rfl rfl
  · cases hs

/-! ### everything together, for every n ≥ 1, F ≥ 1, budget and schedule -/
structure All (n F : Nat) (b0 : Option Nat) (s : S) : Prop where
  i1 : Inv n F s
  i2 : Inv2 n F s
  i3 : Data3 n F b0 s

theorem all_init (n F : Nat) (hn : 0 < n) (hF : 1 ≤ F) (b : Option Nat) : All n F b (init b) :=
  ⟨inv_init n F hn b, inv2_init n F b, inv3_init n F hF b⟩

theorem all_step (n F : Nat) (hF : 1 ≤ F) (b0 : Option Nat) (s s' : S) (i : Nat) (hi : i < n)
    (h : All n F b0 s) (hs : step n F s i = some s') : All n F b0 s' :=
  ⟨inv_step n F s s' i hi h.i1 hs, inv2_step n F hF s s' i hi h.i1 h.i2 hs,
   inv3_step n F hF b0 s s' i hi h.i1 h.i2 h.i3 hs⟩

theorem all_run (n F : Nat) (hF : 1 ≤ F) (b0 : Option Nat) (sched : List Nat) :
    ∀ s, All n F b0 s → All n F b0 (run n F s sched) := by
  induction sched with
  | nil => intro s h; exact h
  | cons i rest ih =>
    intro s h
    unfold run
    by_cases hi : i < n
    · simp only [hi, if_true]
      cases hst : step n F s i with
      | none => exact ih s h
      | some s' => exact ih s' (all_step n F hF b0 s s' i hi h hst)
    · simp only [hi, if_false]; exact ih s h

/-- no reachable state is stuck unless every worker has finished -/
theorem no_deadlock (n F : Nat) (hn : 0 < n) (hF : 1 ≤ F) (b : Option Nat) (sched : List Nat)
    (hnot : ∃ i, i < n ∧ (run n F (init b) sched).pc i ≠ done) :
    ∃ i, i < n ∧ (step n F (run n F (init b) sched) i).isSome = true := by
  have h := all_run n F hF b sched _ (all_init n F hn hF b)
  exact deadlock_free n F _ h.i1 h.i2 hnot

/-- number of steps that actually fire along a schedule -/
def fired (n F : Nat) : S → List Nat → Nat
  | _, [] => 0
  | s, i :: rest => match (if i < n then step n F s i else none) with
    | some s' => fired n F s' rest + 1
    | none => fired n F s rest

/-- every schedule fires at most `measure init = 10 F + 12 n` steps: no livelock, no infinite run -/
theorem bounded_steps (n F : Nat) (hF : 1 ≤ F) (b0 : Option Nat) (sched : List Nat) :
    ∀ s, All n F b0 s → fired n F s sched + measure n F (run n F s sched) ≤ measure n F s := by
  induction sched with
  | nil => intro s _; simp [fired, run]
  | cons i rest ih =>
    intro s h
    unfold fired run
    by_cases hi : i < n
    · simp only [hi, if_true]
      cases hst : step n F s i with
      | none => exact ih s h
      | some s' =>
        have := ih s' (all_step n F hF b0 s s' i hi h hst)
        have := measure_decreases n F hF s s' i hi h.i1 h.i2 hst
        simp only; omega
    · simp only [hi, if_false]; exact ih s h

/-- when all workers have finished, exactly the selected frames were merged, in file order -/
theorem final_ordered (n F : Nat) (hn : 0 < n) (hF : 1 ≤ F) (b : Option Nat) (sched : List Nat)
    (hdone : ∀ i, i < n → (run n F (init b) sched).pc i = done) :
    (run n F (init b) sched).mergeLog = List.range (target b F) ∧
    (run n F (init b) sched).readLog = List.range (target b F) := by
  have h := all_run n F hF b sched _ (all_init n F hn hF b)
  generalize run n F (init b) sched = s at *
  have hended : s.ended = true := h.i3.finEnded 0 hn (by rw [hdone 0 hn]; simp [Fin])
  have hm := h.i3.endOk hended
  have hq : s.outBase + s.outTok = s.readLog.length := by
    have h1 := h.i3.qLe
    by_contra hne
    have hlt : s.outBase + s.outTok < s.readLog.length := by omega
    obtain ⟨a, ha, x⟩ := h.i2.d2.conserve _ (Nat.le_refl _) hlt
    rw [hdone a ha] at x; simp [Holds] at x
  constructor
  · rw [h.i1.data.mrg, hq, hm]
  · rw [h.i1.data.rdRange, hm]


end Votca.C05.U
