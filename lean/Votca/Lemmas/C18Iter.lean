import Votca.Lemmas.C18Range
import Mathlib.Tactic.Ring
import Mathlib.Tactic.Linarith
/-! # C18 — iteration over a block is the arithmetic progression it denotes (both stride signs) -/
namespace Votca.C18

/-- the declarative validity of a block -/
def SpecOK (k : Block) : Prop := (0 < k.s ∧ k.b ≤ k.e) ∨ (k.s < 0 ∧ k.e ≤ k.b)

theorem range_succ_map (n : Nat) (f : Nat → Int) :
    (List.range (n + 1)).map f = f 0 :: (List.range n).map (fun i => f (i + 1)) := by
  rw [List.range_succ_eq_map]; simp [List.map_map, Function.comp_def]

theorem runBlock_pos (k : Block) (hs : 0 < k.s) :
    ∀ (m : Nat) (cur : Int), cur ≤ k.e → (k.e - cur).toNat / k.s.toNat = m →
      runBlock k (m + 1) cur = ((List.range (m + 1)).map (fun (i : Nat) => cur + (i : Int) * k.s), true) := by
  intro m
  induction m with
  | zero =>
    intro cur hle hdiv
    have hs' : 0 < k.s.toNat := by omega
    rcases Nat.div_eq_zero_iff.1 hdiv with h0 | hlt
    · omega
    · have : cur + k.s > k.e := by omega
      simp [runBlock, next, hs, this]
  | succ m ih =>
    intro cur hle hdiv
    have hs' : 0 < k.s.toNat := by omega
    have hge : k.s.toNat ≤ (k.e - cur).toNat := by
      by_contra hlt
      have : (k.e - cur).toNat / k.s.toNat = 0 := Nat.div_eq_of_lt (by omega)
      omega
    have hnext : ¬ (cur + k.s > k.e) := by omega
    have hd : (k.e - (cur + k.s)).toNat / k.s.toNat = m := by
      have h1 := Nat.div_eq_sub_div hs' hge
      have h2 : (k.e - (cur + k.s)).toNat = (k.e - cur).toNat - k.s.toNat := by omega
      rw [h2]; omega
    have := ih (cur + k.s) (by omega) hd
    rw [runBlock]
    simp only [next, hs, if_true, hnext, if_false, this]
    rw [range_succ_map (m + 1)]
    simp only [Nat.cast_zero, Int.zero_mul, Int.add_zero, Prod.mk.injEq, and_true, List.cons.injEq, true_and]
    apply List.map_congr_left
    intro i _
    push_cast; ring

theorem runBlock_neg (k : Block) (hs : k.s < 0) :
    ∀ (m : Nat) (cur : Int), k.e ≤ cur → (cur - k.e).toNat / (-k.s).toNat = m →
      runBlock k (m + 1) cur = ((List.range (m + 1)).map (fun (i : Nat) => cur + (i : Int) * k.s), true) := by
  intro m
  have hns : ¬ (k.s > 0) := by omega
  induction m with
  | zero =>
    intro cur hle hdiv
    have hs' : 0 < (-k.s).toNat := by omega
    rcases Nat.div_eq_zero_iff.1 hdiv with h0 | hlt
    · omega
    · have : cur + k.s < k.e := by omega
      simp [runBlock, next, hns, this]
  | succ m ih =>
    intro cur hle hdiv
    have hs' : 0 < (-k.s).toNat := by omega
    have hge : (-k.s).toNat ≤ (cur - k.e).toNat := by
      by_contra hlt
      have : (cur - k.e).toNat / (-k.s).toNat = 0 := Nat.div_eq_of_lt (by omega)
      omega
    have hnext : ¬ (cur + k.s < k.e) := by omega
    have hd : ((cur + k.s) - k.e).toNat / (-k.s).toNat = m := by
      have h1 := Nat.div_eq_sub_div hs' hge
      have h2 : ((cur + k.s) - k.e).toNat = (cur - k.e).toNat - (-k.s).toNat := by omega
      rw [h2]; omega
    have := ih (cur + k.s) (by omega) hd
    rw [runBlock]
    simp only [next, hns, if_false, hnext, this]
    rw [range_succ_map (m + 1)]
    simp only [Nat.cast_zero, Int.zero_mul, Int.add_zero, Prod.mk.injEq, and_true, List.cons.injEq, true_and]
    apply List.map_congr_left
    intro i _
    push_cast; ring

/-- iterating a valid block with exactly `count k` steps of budget leaves the block and yields its denotation -/
theorem runBlock_spec (k : Block) (h : SpecOK k) : runBlock k (count k) k.b = (denoteBlock k, true) := by
  unfold count denoteBlock count
  rcases h with ⟨hs, hbe⟩ | ⟨hs, hbe⟩
  · have h1 : (k.e - k.b).natAbs = (k.e - k.b).toNat := by omega
    have h2 : k.s.natAbs = k.s.toNat := by omega
    rw [h1, h2]
    exact runBlock_pos k hs _ k.b hbe rfl
  · have h1 : (k.e - k.b).natAbs = (k.b - k.e).toNat := by omega
    have h2 : k.s.natAbs = (-k.s).toNat := by omega
    rw [h1, h2]
    exact runBlock_neg k hs _ k.b hbe rfl

/-- more budget does not change the outcome of a block that was left -/
theorem runBlock_mono (k : Block) : ∀ (fuel : Nat) (cur : Int) (l : List Int),
    runBlock k fuel cur = (l, true) → ∀ extra, runBlock k (fuel + extra) cur = (l, true) := by
  intro fuel
  induction fuel with
  | zero => intro cur l h; simp [runBlock] at h
  | succ n ih =>
    intro cur l h extra
    rw [Nat.add_right_comm]
    rw [runBlock] at h ⊢
    cases hn : next k cur with
    | none => simpa [hn] using h
    | some c =>
      simp only [hn] at h ⊢
      cases hr : runBlock k n c with
      | mk l' f =>
        simp only [hr, Prod.mk.injEq] at h
        obtain ⟨rfl, rfl⟩ := h
        simp [ih c l' hr extra]

theorem runBlock_length_le (k : Block) : ∀ (fuel : Nat) (cur : Int), (runBlock k fuel cur).1.length ≤ fuel := by
  intro fuel
  induction fuel with
  | zero => intro cur; simp [runBlock]
  | succ n ih =>
    intro cur
    rw [runBlock]
    cases hn : next k cur with
    | none => simp
    | some c =>
      have := ih c
      cases hr : runBlock k n c with
      | mk l' f => simp [hr] at this ⊢; omega

theorem denoteBlock_length (k : Block) : (denoteBlock k).length = count k := by simp [denoteBlock]

/-- the whole `for (Index i : rp)` loop: with a budget of at least the number of denoted values it
    terminates and yields exactly the denoted sequence -/
theorem enumerate_spec : ∀ (bs : List Block), (∀ k ∈ bs, SpecOK k) →
    ∀ fuel, (denote bs).length ≤ fuel → enumerate bs fuel = (denote bs, true)
  | [], _, fuel, _ => by simp [enumerate, denote]
  | k :: ks, h, fuel, hf => by
    have hk := h k (by simp)
    have hks : ∀ k' ∈ ks, SpecOK k' := fun k' hk' => h k' (by simp [hk'])
    have hlen : (denote (k :: ks)).length = count k + (denote ks).length := by
      simp [denote, denoteBlock_length]
    have hrun : runBlock k fuel k.b = (denoteBlock k, true) := by
      have := runBlock_mono k (count k) k.b _ (runBlock_spec k hk) (fuel - count k)
      rwa [Nat.add_sub_cancel' (by omega)] at this
    rw [enumerate]
    simp only [hrun, if_true]
    have ih := enumerate_spec ks hks (fuel - (denoteBlock k).length) (by rw [denoteBlock_length]; omega)
    rw [ih]
    simp [denote]

end Votca.C18
