import Votca.Gen.XmlEscape
/-! # C11 — lemmas for the XML text layer: what `XmlEscape` writes is read back by an XML parser as the original text,
for every replacement table that passes the decidable test `tableOK` (text) / `attrOK` (attribute values) -/
namespace Votca.C11X

/-- one table entry is sound: the character itself (allowed for everything but `&` and `<`), or `&name;` with `name` the
    predefined entity of that character -/
def entryOK (c : Char) (e : List Char) : Bool :=
  (e == [c] && c != '&' && c != '<') ||
  (e.head? == some '&' && e.tail.getLast? == some ';' && entityOf e.tail.dropLast == some c && !(e.tail.dropLast.contains ';'))

def tableOK (tab : List (Char × List Char)) : Bool :=
  tab.all (fun p => entryOK p.1 p.2) && (tab.lookup '&').isSome && (tab.lookup '<').isSome

def attrOK (tab : List (Char × List Char)) : Bool :=
  tableOK tab && (tab.lookup '"').isSome && tab.all (fun p => !(p.2.contains '"'))

theorem lookup_mem {α β} [BEq α] [LawfulBEq α] (l : List (α × β)) (a : α) (b : β) (h : l.lookup a = some b) : (a, b) ∈ l := by
  induction l with
  | nil => simp at h
  | cons p l ih =>
    obtain ⟨x, y⟩ := p
    by_cases hx : a == x
    · simp [List.lookup, hx] at h
      have : a = x := by simpa using hx
      subst this; subst h; simp
    · simp [List.lookup, hx] at h
      exact List.mem_cons_of_mem _ (ih h)

theorem takeDrop_stop (p : Char → Bool) (c : Char) (hc : p c = false) :
    ∀ (a b : List Char), (∀ x ∈ a, p x = true) → (a ++ c :: b).takeWhile p = a ∧ (a ++ c :: b).dropWhile p = c :: b
  | [], b, _ => by simp [hc]
  | x :: a, b, h => by
    have hx := h x (by simp)
    have ih := takeDrop_stop p c hc a b (fun y hy => h y (by simp [hy]))
    simp [hx, ih.1, ih.2]

theorem escapeWith_cons (tab : List (Char × List Char)) (c : Char) (s : List Char) :
    escapeWith tab (c :: s) = rep tab c ++ escapeWith tab s := by
  simp [escapeWith]

/-- the two shapes a sound replacement can have -/
theorem rep_shape (tab : List (Char × List Char)) (h : tableOK tab = true) (c : Char) :
    (rep tab c = [c] ∧ c ≠ '&' ∧ c ≠ '<') ∨
    (∃ name, rep tab c = '&' :: (name ++ [';']) ∧ entityOf name = some c ∧ ∀ x ∈ name, x ≠ ';') := by
  unfold tableOK at h
  simp only [Bool.and_eq_true, List.all_eq_true] at h
  obtain ⟨⟨hall, hamp⟩, hlt⟩ := h
  unfold rep
  cases hl : tab.lookup c with
  | none =>
    left
    refine ⟨rfl, ?_, ?_⟩
    · intro hc; subst hc; simp [hl] at hamp
    · intro hc; subst hc; simp [hl] at hlt
  | some e =>
    have he := hall (c, e) (lookup_mem tab c e hl)
    unfold entryOK at he
    simp only [Bool.or_eq_true, Bool.and_eq_true, beq_iff_eq, bne_iff_ne, ne_eq] at he
    rcases he with ⟨⟨h1, h2⟩, h3⟩ | he
    · left; exact ⟨h1, h2, h3⟩
    · right
      simp only [Bool.and_eq_true, beq_iff_eq, Bool.not_eq_true'] at he
      obtain ⟨⟨⟨hhead, hlast⟩, hent⟩, hnc⟩ := he
      have he' : e = '&' :: e.tail := by
        cases e with
        | nil => simp at hhead
        | cons a r => simp at hhead; subst hhead; rfl
      refine ⟨e.tail.dropLast, ?_, hent, ?_⟩
      · have hne : e.tail ≠ [] := by intro h0; rw [h0] at hlast; simp at hlast
        have hg : e.tail.getLast hne = ';' := by
          have := List.getLast?_eq_some_getLast hne; rw [hlast] at this; exact (Option.some.inj this).symm
        have : e.tail.dropLast ++ [';'] = e.tail := by rw [← hg]; exact List.dropLast_concat_getLast hne
        rw [this]; exact he'
      · intro x hx hxe; subst hxe
        have : e.tail.dropLast.contains ';' = true := by rw [List.contains_iff_mem]; exact hx
        rw [this] at hnc; exact absurd hnc (by simp)

theorem unescapeF_escape (tab : List (Char × List Char)) (h : tableOK tab = true) :
    ∀ (s : List Char) (fuel : Nat), (escapeWith tab s).length ≤ fuel → unescapeF fuel (escapeWith tab s) = some s
  | [], fuel, _ => by cases fuel <;> simp [escapeWith, unescapeF]
  | c :: s, fuel, hf => by
    rw [escapeWith_cons] at hf ⊢
    rcases rep_shape tab h c with ⟨hr, h1, h2⟩ | ⟨name, hr, hent, hname⟩
    · rw [hr] at hf ⊢
      simp only [List.cons_append, List.nil_append, List.length_cons] at hf ⊢
      obtain ⟨fuel', rfl⟩ : ∃ f, fuel = f + 1 := ⟨fuel - 1, by omega⟩
      simp only [unescapeF, h1, h2, if_false]
      rw [unescapeF_escape tab h s fuel' (by omega)]; rfl
    · rw [hr] at hf ⊢
      simp only [List.cons_append, List.append_assoc, List.nil_append, List.length_cons, List.length_append] at hf ⊢
      obtain ⟨fuel', rfl⟩ : ∃ f, fuel = f + 1 := ⟨fuel - 1, by omega⟩
      have hsplit := takeDrop_stop (· ≠ ';') ';' (by simp) name (escapeWith tab s) (fun x hx => by simpa using hname x hx)
      simp only [unescapeF, if_true, hsplit.1, hsplit.2, hent]
      rw [unescapeF_escape tab h s fuel' (by omega)]; rfl

theorem unescape_escape_lem (tab : List (Char × List Char)) (h : tableOK tab = true) (s : List Char) :
    unescape (escapeWith tab s) = some s := unescapeF_escape tab h s _ (Nat.le_refl _)

theorem escape_no_quote (tab : List (Char × List Char)) (h : attrOK tab = true) :
    ∀ (s : List Char), ∀ x ∈ escapeWith tab s, x ≠ '"'
  | [], x, hx => by simp [escapeWith] at hx
  | c :: s, x, hx => by
    rw [escapeWith_cons] at hx
    rcases List.mem_append.mp hx with hx | hx
    · unfold attrOK at h
      simp only [Bool.and_eq_true, List.all_eq_true, Bool.not_eq_true'] at h
      obtain ⟨⟨_, hq⟩, hall⟩ := h
      unfold rep at hx
      cases hl : tab.lookup c with
      | none =>
        rw [hl] at hx; simp at hx; subst hx
        intro hc; subst hc; simp [hl] at hq
      | some e =>
        rw [hl] at hx
        have := hall (c, e) (lookup_mem tab c e hl)
        intro hc; subst hc
        have hcon : e.contains '"' = true := by rw [List.contains_iff_mem]; exact hx
        simp at this hcon
        exact this hcon
    · exact escape_no_quote tab h s x hx

theorem attrValue_escape_lem (tab : List (Char × List Char)) (h : attrOK tab = true) (v rest : List Char) :
    attrValue (escapeWith tab v ++ '"' :: rest) = some (v, rest) := by
  have ht : tableOK tab = true := by unfold attrOK at h; simp only [Bool.and_eq_true] at h; exact h.1.1
  have hsplit := takeDrop_stop (· ≠ '"') '"' (by simp) (escapeWith tab v) rest
    (fun x hx => by simpa using escape_no_quote tab h v x hx)
  unfold attrValue
  rw [hsplit.2]; simp only [hsplit.1, unescape_escape_lem tab ht v]; rfl

end Votca.C11X
