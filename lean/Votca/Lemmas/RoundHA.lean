import Votca.Base.Vec3
import Mathlib.Tactic.Ring
import Mathlib.Tactic.Linarith
import Mathlib.Tactic.FieldSimp
import Mathlib.Tactic.NormNum
import Mathlib.Algebra.Order.Field.Basic
import Mathlib.Data.Rat.Floor
/-! lemmas about `roundHA` (= `std::round`, halves away from zero) over ℚ -/
namespace Votca

theorem floorQ_bounds (x : Rat) : ((x.floor : Int) : Rat) ≤ x ∧ x < ((x.floor : Int) : Rat) + 1 := by
  refine ⟨Rat.floor_le x, ?_⟩
  have := Rat.lt_floor_add_one x
  push_cast at this
  exact this

theorem floorQ_eq_iff (x : Rat) (n : Int) : x.floor = n ↔ (n : Rat) ≤ x ∧ x < (n : Rat) + 1 := by
  constructor
  · rintro rfl; exact floorQ_bounds x
  · rintro ⟨h1, h2⟩
    obtain ⟨a, b⟩ := floorQ_bounds x
    have h3 : ((x.floor : Int) : Rat) < (n : Rat) + 1 := by linarith
    have h4 : (n : Rat) < ((x.floor : Int) : Rat) + 1 := by linarith
    have h3' : x.floor < n + 1 := by exact_mod_cast h3
    have h4' : n < x.floor + 1 := by exact_mod_cast h4
    omega

/-- `std::round` is odd -/
theorem roundHA_neg (x : Rat) : roundHA (-x) = - roundHA x := by
  unfold roundHA
  rcases lt_trichotomy x 0 with h | h | h
  · have h1 : (0 : Rat) ≤ -x := by linarith
    have h2 : ¬ (0 : Rat) ≤ x := by linarith
    simp [h1, h2]
  · subst h
    have : ((2 : Rat)⁻¹).floor = 0 := by
      rw [floorQ_eq_iff]; constructor <;> norm_num
    simp [this]
  · have h1 : ¬ (0 : Rat) ≤ -x := by linarith
    have h2 : (0 : Rat) ≤ x := by linarith
    simp [h1, h2]

/-- the rounded value is within one half -/
theorem roundHA_close (x : Rat) : |x - (roundHA x : Rat)| ≤ 1 / 2 := by
  unfold roundHA
  split
  · obtain ⟨h1, h2⟩ := floorQ_bounds (x + 1 / 2)
    rw [abs_le]; constructor <;> linarith
  · obtain ⟨h1, h2⟩ := floorQ_bounds (-x + 1 / 2)
    push_cast
    rw [abs_le]; constructor <;> linarith

/-- `std::round` recovers an integer from a perturbation smaller than one half -/
theorem roundHA_int_add (t : Rat) (n : Int) (ht : |t| < 1 / 2) : roundHA (t + n) = n := by
  rw [abs_lt] at ht
  unfold roundHA
  split
  · rw [floorQ_eq_iff]; constructor <;> linarith
  · rw [neg_eq_iff_eq_neg, floorQ_eq_iff]; push_cast; constructor <;> linarith

/-- away from ties (`x` exactly half way between two integers) rounding commutes with integer shifts -/
theorem roundHA_add_int (x : Rat) (n : Int) (hnt : |x - (roundHA x : Rat)| ≠ 1 / 2) :
    roundHA (x + n) = roundHA x + n := by
  have hc := roundHA_close x
  have hlt : |x - (roundHA x : Rat)| < 1 / 2 := lt_of_le_of_ne hc hnt
  have : x + (n : Rat) = (x - (roundHA x : Rat)) + ((roundHA x + n : Int) : Rat) := by push_cast; ring
  rw [this]
  exact roundHA_int_add _ _ hlt

/-! ### one periodic direction -/

/-- one component of `OrthorhombicBox::BCShortestConnection` -/
def mic1 (L r : Rat) : Rat := r - L * (roundHA (r / L) : Rat)

theorem mic1_antisymm (L r : Rat) : mic1 L (-r) = - mic1 L r := by
  unfold mic1; rw [neg_div, roundHA_neg]; push_cast; ring

theorem mic1_bound (L r : Rat) (hL : 0 < L) : |mic1 L r| ≤ L / 2 := by
  unfold mic1
  have h := roundHA_close (r / L)
  have : r - L * (roundHA (r / L) : Rat) = L * (r / L - (roundHA (r / L) : Rat)) := by field_simp
  rw [this, abs_mul, abs_of_pos hL]
  calc L * |r / L - ↑(roundHA (r / L))| ≤ L * (1 / 2) := by
        apply mul_le_mul_of_nonneg_left h hL.le
    _ = L / 2 := by ring

theorem mic1_lattice (L r : Rat) : ∃ k : Int, mic1 L r = r - k * L := ⟨roundHA (r / L), by unfold mic1; ring⟩

/-- shortest among all images, always -/
theorem mic1_shortest (L r : Rat) (hL : 0 < L) (k : Int) : |mic1 L r| ≤ |r - k * L| := by
  obtain ⟨m, hm⟩ := mic1_lattice L r
  have hb := mic1_bound L r hL
  by_cases hk : k = m
  · subst hk; rw [hm]
  · have hd : (1 : Rat) ≤ |((m - k : Int) : Rat)| := by
      have : (m - k : Int) ≠ 0 := by omega
      have := Int.one_le_abs this
      exact_mod_cast this
    have e : r - k * L = mic1 L r + ((m - k : Int) : Rat) * L := by rw [hm]; push_cast; ring
    rw [e]
    have h3 : L ≤ |((m - k : Int) : Rat) * L| := by
      rw [abs_mul, abs_of_pos hL]; nlinarith
    have tri : |((m - k : Int) : Rat) * L| ≤ |mic1 L r + ((m - k : Int) : Rat) * L| + |mic1 L r| := by
      have := abs_add_le (mic1 L r + ((m - k : Int) : Rat) * L) (-(mic1 L r))
      simp only [abs_neg] at this
      have e3 : mic1 L r + ((m - k : Int) : Rat) * L + -(mic1 L r) = ((m - k : Int) : Rat) * L := by ring
      rw [e3] at this; exact this
    linarith

theorem mic1_sq_shortest (L r : Rat) (hL : 0 < L) (k : Int) : (mic1 L r) ^ 2 ≤ (r - k * L) ^ 2 := by
  have h := mic1_shortest L r hL k
  have h1 : |mic1 L r| ^ 2 ≤ |r - k * L| ^ 2 := pow_le_pow_left₀ (abs_nonneg _) h 2
  rwa [sq_abs, sq_abs] at h1

/-- away from a tie the 1-D image does not depend on which periodic copy of `r` is given -/
theorem mic1_shift (L r : Rat) (hL : L ≠ 0) (n : Int) (hnt : |r / L - (roundHA (r / L) : Rat)| ≠ 1 / 2) :
    mic1 L (r + n * L) = mic1 L r := by
  unfold mic1
  have : (r + n * L) / L = r / L + n := by field_simp
  rw [this, roundHA_add_int _ _ hnt]; push_cast; ring

end Votca
