import Votca.Model.C03
import Votca.Lemmas.RoundHA
import Mathlib.Data.List.Perm.Basic
import Mathlib.Data.List.Basic
/-! # C03 — helper lemmas: list-level exactness of the cell scan -/
namespace Votca.C03

theorem scan_perm (cell : Nat → Cell) (seen : List Nat) : ∀ (cs : List Cell), cs.Nodup →
    (scan cell seen cs).Perm (seen.filter (fun e => decide (cell e ∈ cs))) := by
  intro cs
  induction cs with
  | nil => intro _; simp [scan]
  | cons c cs ih =>
    intro hnd
    obtain ⟨hc, hnd'⟩ := List.nodup_cons.1 hnd
    have ih' := ih hnd'
    unfold scan at ih' ⊢
    rw [List.flatMap_cons]
    have split := List.filter_append_perm (fun e => decide (cell e = c))
      (seen.filter (fun e => decide (cell e ∈ c :: cs)))
    refine List.Perm.trans ?_ split
    apply List.Perm.append
    · rw [List.filter_filter]
      apply List.Perm.of_eq
      apply List.filter_congr
      intro e _
      by_cases h : cell e = c <;> simp [h]
    · rw [List.filter_filter]
      refine ih'.trans (List.Perm.of_eq ?_)
      apply List.filter_congr
      intro e _
      by_cases h : cell e = c
      · subst h; simp [hc]
      · simp [h]

end Votca.C03
