import Votca.Lemmas.C16Term
/-! # C16 — reachability as an equivalence on undirected graphs, and the invariant of the component sweep -/
namespace Votca.C16

def Reach (adj : Nat → List Nat) (a b : Nat) : Prop := ∃ j, Walk adj j a b

theorem Reach.refl (adj : Nat → List Nat) (a : Nat) : Reach adj a a := ⟨0, Walk.nil a⟩

theorem Walk.reach_trans {adj : Nat → List Nat} {j a b c : Nat} (h : Walk adj j a b) (h2 : Reach adj b c) : Reach adj a c := by
  induction h with
  | nil u => exact h2
  | cons hx _ ih =>
    obtain ⟨m, hm⟩ := ih h2
    exact ⟨m + 1, Walk.cons hx hm⟩

theorem Reach.trans {adj : Nat → List Nat} {a b c : Nat} (h1 : Reach adj a b) (h2 : Reach adj b c) : Reach adj a c := by
  obtain ⟨j, hj⟩ := h1
  exact hj.reach_trans h2

theorem Walk.reverse {adj : Nat → List Nat} (hsym : ∀ u v, v ∈ adj u → u ∈ adj v) {j a b : Nat} (h : Walk adj j a b) :
    Walk adj j b a := by
  induction h with
  | nil u => exact Walk.nil u
  | cons hx _ ih => exact Walk.snoc ih (hsym _ _ hx)

theorem Reach.symm {adj : Nat → List Nat} (hsym : ∀ u v, v ∈ adj u → u ∈ adj v) {a b : Nat} (h : Reach adj a b) : Reach adj b a := by
  obtain ⟨j, hj⟩ := h
  exact ⟨j, hj.reverse hsym⟩

/-- the explored set of one labelling, restricted to the vertices `0..n-1` -/
def compOf (adj : Nat → List Nat) (n fuel s : Nat) : List Nat :=
  (List.range n).filter (fun v => ((run adj fuel (init adj s)).dist v).isSome)

def sweepStep (adj : Nat → List Nat) (n fuel : Nat) (acc : List (List Nat)) (s : Nat) : List (List Nat) :=
  if acc.any (fun c => c.contains s) then acc else acc ++ [compOf adj n fuel s]

theorem components_eq (adj : Nat → List Nat) (n fuel : Nat) :
    components adj n fuel = (List.range n).foldl (sweepStep adj n fuel) [] := rfl

def Disjoint2 (c1 c2 : List Nat) : Prop := ∀ v, v ∈ c1 → v ∉ c2

structure CompInv (adj : Nat → List Nat) (n fuel m : Nat) (acc : List (List Nat)) : Prop where
  src : ∀ c ∈ acc, ∃ s, s < m ∧ c = compOf adj n fuel s
  cover : ∀ s, s < m → ∃ c ∈ acc, s ∈ c
  disj : acc.Pairwise Disjoint2

theorem any_contains_iff (acc : List (List Nat)) (s : Nat) :
    acc.any (fun c => c.contains s) = true ↔ ∃ c ∈ acc, s ∈ c := by
  simp [List.any_eq_true]

/-- one step of the sweep keeps the invariant, given the membership characterisation of a single labelling -/
theorem compInv_step (adj : Nat → List Nat) (n fuel m : Nat) (acc : List (List Nat))
    (hsym : ∀ u v, v ∈ adj u → u ∈ adj v)
    (hmem : ∀ s, s < n → ∀ v, v ∈ compOf adj n fuel s ↔ v < n ∧ Reach adj s v)
    (hm : m < n) (h : CompInv adj n fuel m acc) : CompInv adj n fuel (m + 1) (sweepStep adj n fuel acc m) := by
  unfold sweepStep
  by_cases hany : acc.any (fun c => c.contains m) = true
  · rw [if_pos hany]
    obtain ⟨c, hc, hmc⟩ := (any_contains_iff acc m).mp hany
    refine ⟨?_, ?_, h.disj⟩
    · intro c hc
      obtain ⟨s, hs, he⟩ := h.src c hc
      exact ⟨s, by omega, he⟩
    · intro s hs
      by_cases hsm : s = m
      · subst hsm; exact ⟨c, hc, hmc⟩
      · exact h.cover s (by omega)
  · rw [if_neg hany]
    have hnone : ∀ c ∈ acc, m ∉ c := by
      intro c hc hmc
      exact hany ((any_contains_iff acc m).mpr ⟨c, hc, hmc⟩)
    refine ⟨?_, ?_, ?_⟩
    · intro c hc
      rcases List.mem_append.mp hc with hc | hc
      · obtain ⟨s, hs, he⟩ := h.src c hc
        exact ⟨s, by omega, he⟩
      · exact ⟨m, by omega, by simpa using hc⟩
    · intro s hs
      by_cases hsm : s = m
      · subst hsm
        exact ⟨compOf adj n fuel s, by simp, (hmem s hm s).mpr ⟨hm, Reach.refl adj s⟩⟩
      · obtain ⟨c, hc, hsc⟩ := h.cover s (by omega)
        exact ⟨c, List.mem_append.mpr (Or.inl hc), hsc⟩
    · rw [List.pairwise_append]
      refine ⟨h.disj, List.pairwise_singleton _ _, ?_⟩
      intro a ha b hb v hva hvb
      have hb' : b = compOf adj n fuel m := by simpa using hb
      subst hb'
      obtain ⟨s, hs, he⟩ := h.src a ha
      subst he
      have hsn : s < n := by omega
      obtain ⟨hvn, hrsv⟩ := (hmem s hsn v).mp hva
      obtain ⟨_, hrmv⟩ := (hmem m hm v).mp hvb
      have : m ∈ compOf adj n fuel s := (hmem s hsn m).mpr ⟨hm, hrsv.trans (hrmv.symm hsym)⟩
      exact hnone _ ha this

theorem compInv_sweep (adj : Nat → List Nat) (n fuel : Nat)
    (hsym : ∀ u v, v ∈ adj u → u ∈ adj v)
    (hmem : ∀ s, s < n → ∀ v, v ∈ compOf adj n fuel s ↔ v < n ∧ Reach adj s v) :
    ∀ m, m ≤ n → CompInv adj n fuel m ((List.range m).foldl (sweepStep adj n fuel) []) := by
  intro m
  induction m with
  | zero =>
    intro _
    exact ⟨by simp, by intro s hs; omega, by simp⟩
  | succ m ih =>
    intro hm
    rw [List.range_succ, List.foldl_append]
    simp only [List.foldl_cons, List.foldl_nil]
    exact compInv_step adj n fuel m _ hsym hmem (by omega) (ih (by omega))

end Votca.C16
