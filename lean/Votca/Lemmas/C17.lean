import Votca.Model.C17
/-! # C17 — helper lemmas: the concrete store (association list with replace) refines a plain map, for whole histories -/
namespace Votca.C17

/-- the abstract checkpoint: a plain partial map from (group path, name) to the value last written -/
abbrev Spec := Key → Option Obj

/-- what the store holds under a key -/
def absS (s : Store) : Spec := fun k => (s.find? (fun e => e.1 == k)).map (·.2)

def Spec.step (m : Spec) : Op → Spec × Out
  | .write level k o => if level = 0 then (m, .err) else (fun k' => if k' = k then some o else m k', .ok)
  | .read k kind => match m k with
    | some o => if o.kind == kind then (m, .val o) else (m, .err)
    | none => (m, .err)

def Spec.run (m : Spec) : List Op → List Out
  | [] => []
  | op :: rest => let r := Spec.step m op; r.2 :: Spec.run r.1 rest

/-- the store after a history -/
def final (s : Store) : List Op → Store
  | [] => s
  | op :: rest => final (step s op).1 rest

/-- the last value a history successfully wrote under `k` (writes through a read-only handle do not count) -/
def lastWrite (k : Key) : List Op → Option Obj
  | [] => none
  | .write level k' o :: rest =>
    match lastWrite k rest with
    | some o' => some o'
    | none => if level ≠ 0 ∧ k' = k then some o else none
  | .read _ _ :: rest => lastWrite k rest

/-- a typed read of what a name holds -/
def ofKind (kind : String) : Option Obj → Option Obj
  | some o => if o.kind == kind then some o else none
  | none => none

/-- what a name holds after a history that started from store `s` -/
def visible (s : Store) (ops : List Op) (k : Key) : Option Obj :=
  match lastWrite k ops with | some o => some o | none => absS s k

theorem find_filter_ne (s : Store) (k k' : Key) (h : k' ≠ k) :
    (s.filter (fun e => e.1 != k)).find? (fun e => e.1 == k') = s.find? (fun e => e.1 == k') := by
  rw [List.find?_filter]
  congr 1
  funext e
  by_cases hk' : e.1 = k'
  · have : ¬ e.1 = k := fun h' => h (hk'.symm.trans h')
    simp [hk', this, h]
  · simp [hk']

theorem absS_write (s : Store) (k : Key) (o : Obj) : absS (s.write k o) = fun k' => if k' = k then some o else absS s k' := by
  funext k'
  by_cases h : k' = k
  · subst h; simp [absS, Store.write, List.find?]
  · have hne : ¬ k = k' := fun h' => h h'.symm
    simp only [absS, Store.write, List.find?, h, if_false]
    simp only [show ((k == k') = false) from by simpa using hne]
    rw [find_filter_ne s k k' h]

theorem read_eq_abs (s : Store) (k : Key) (kind : String) :
    s.read k kind = ofKind kind (absS s k) := by
  unfold Store.read absS ofKind
  cases s.find? (fun e => e.1 == k) <;> simp

theorem step_refines (s : Store) (op : Op) :
    absS (step s op).1 = (Spec.step (absS s) op).1 ∧ (step s op).2 = (Spec.step (absS s) op).2 := by
  cases op with
  | write level k o =>
    simp only [step, Spec.step]
    by_cases hl : level = 0
    · simp [hl]
    · simp [hl, absS_write]
  | read k kind =>
    simp only [step, Spec.step]
    rw [read_eq_abs]
    cases h : absS s k with
    | none => simp [ofKind]
    | some o => by_cases hk : o.kind == kind <;> simp [hk, ofKind]

theorem run_refines_lem : ∀ (ops : List Op) (s : Store), run s ops = Spec.run (absS s) ops
  | [], _ => rfl
  | op :: rest, s => by
    have h := step_refines s op
    simp only [run, Spec.run]
    rw [h.2, run_refines_lem rest (step s op).1, h.1]

theorem final_abs : ∀ (ops : List Op) (s : Store) (k : Key),
    absS (final s ops) k = visible s ops k
  | [], s, k => by simp [final, lastWrite, visible]
  | .read k' kind :: rest, s, k => by
    have : (step s (.read k' kind)).1 = s := by simp only [step]; split <;> rfl
    simp only [final, lastWrite, this, visible]; exact final_abs rest s k
  | .write level k' o :: rest, s, k => by
    simp only [final, lastWrite, visible]
    rw [final_abs rest _ k, visible]
    cases lastWrite k rest with
    | some o' => rfl
    | none =>
      by_cases hl : level = 0
      · simp [step, hl]
      · by_cases hk : k' = k
        · subst hk; simp [step, hl, absS_write]
        · have hk2 : ¬ k = k' := fun h => hk h.symm
          simp [step, hl, absS_write, hk, hk2]

/-- the store never holds two entries under one key -/
def KeysNodup (s : Store) : Prop := (s.map (·.1)).Nodup

theorem write_keysNodup (s : Store) (k : Key) (o : Obj) (h : KeysNodup s) : KeysNodup (s.write k o) := by
  unfold KeysNodup Store.write at *
  simp only [List.map_cons, List.nodup_cons]
  refine ⟨?_, ?_⟩
  · intro hm
    obtain ⟨e, he, hek⟩ := List.mem_map.mp hm
    have := (List.mem_filter.mp he).2
    simp [hek] at this
  · exact (List.filter_sublist.map _).nodup h

theorem final_keysNodup : ∀ (ops : List Op) (s : Store), KeysNodup s → KeysNodup (final s ops)
  | [], _, h => h
  | .read k kind :: rest, s, h => by
    have : (step s (.read k kind)).1 = s := by simp only [step]; split <;> rfl
    simp only [final, this]; exact final_keysNodup rest s h
  | .write level k o :: rest, s, h => by
    simp only [final]
    apply final_keysNodup rest
    simp only [step]; split
    · exact h
    · exact write_keysNodup s k o h

end Votca.C17
