import Votca.Model.C18
/-! # C18 — helper lemmas for the range parser -/
namespace Votca.C18

theorem splitAll_ne_nil (sep : Char → Bool) (s : List Char) : splitAll sep s ≠ [] := by
  induction s with
  | nil => simp [splitAll]
  | cons c cs ih =>
    simp only [splitAll]
    split
    · simp
    · split <;> simp

theorem splitAll_length (sep : Char → Bool) (s : List Char) :
    (splitAll sep s).length = (s.filter sep).length + 1 := by
  induction s with
  | nil => simp [splitAll]
  | cons c cs ih =>
    simp only [splitAll]
    by_cases h : sep c = true
    · simp [h, ih]
    · have h' : sep c = false := by simpa using h
      simp only [h', Bool.false_eq_true, if_false]
      cases hs : splitAll sep cs with
      | nil => exact absurd hs (splitAll_ne_nil sep cs)
      | cons f fs =>
        rw [hs] at ih
        simp [List.filter, h', ← ih]

theorem filter_length_lt_of_mem {α} (p : α → Bool) (l : List α) (x : α) (hx : x ∈ l) (hp : p x = false) :
    (l.filter p).length < l.length := by
  induction l with
  | nil => cases hx
  | cons y ys ih =>
    have hle := List.length_filter_le p ys
    rcases List.mem_cons.1 hx with rfl | h
    · rw [List.filter_cons_of_neg (by simp [hp])]
      simp only [List.length_cons]; omega
    · have := ih h
      by_cases hy : p y = true
      · rw [List.filter_cons_of_pos hy]; simp only [List.length_cons]; omega
      · rw [List.filter_cons_of_neg hy]; simp only [List.length_cons]; omega

theorem filter_eq_self_of_all {α} (p : α → Bool) (l : List α) (h : ∀ x ∈ l, p x = true) : l.filter p = l :=
  List.filter_eq_self.2 h

theorem toIntFull_nil : toIntFull [] = none := by
  simp [toIntFull, scanInt]

theorem mapM_none_of_mem {α β} (f : α → Option β) (l : List α) (x : α) (hx : x ∈ l) (hf : f x = none) :
    l.mapM f = none := by
  induction l with
  | nil => cases hx
  | cons y ys ih =>
    rw [List.mapM_cons]
    rcases List.mem_cons.1 hx with rfl | h
    · simp [hf]
    · cases hy : f y with
      | none => simp
      | some v => simp [ih h]

theorem mapM_length {α β} (f : α → Option β) : ∀ (l : List α) (r : List β), l.mapM f = some r → r.length = l.length
  | [], r, h => by simp at h; subst h; rfl
  | y :: ys, r, h => by
    rw [List.mapM_cons] at h
    cases hy : f y with
    | none => simp [hy] at h
    | some v =>
      cases hys : ys.mapM f with
      | none => simp [hy, hys] at h
      | some vs =>
        simp [hy, hys] at h; subst h
        simp [mapM_length f ys vs hys]

theorem closed_one (b e : Int) : closed ⟨b, 1, e⟩ = decide (b ≤ e) := by
  simp only [closed, Int.mul_one]
  by_cases h : b ≤ e
  · simp [h]
  · simp [h]; omega

theorem closed_stride (b s e : Int) (hs : s ≠ 0) :
    closed ⟨b, s, e⟩ = decide ((0 < s ∧ b ≤ e) ∨ (s < 0 ∧ e ≤ b)) := by
  simp only [closed]
  rcases Int.lt_or_gt_of_ne hs with hneg | hpos
  · -- s < 0
    have key : b * s > e * s ↔ b < e := by
      constructor
      · intro h
        by_cases hbe : b < e
        · exact hbe
        · exfalso
          have : e ≤ b := by omega
          have := Int.mul_le_mul_of_nonpos_right this (Int.le_of_lt hneg)
          omega
      · intro h; exact Int.mul_lt_mul_of_neg_right h hneg
    by_cases h : b < e
    · have h1 : b * s > e * s := key.2 h
      simp [h1]; omega
    · have h1 : ¬ b * s > e * s := fun hh => h (key.1 hh)
      simp [h1]; omega
  · have key : b * s > e * s ↔ e < b := by
      constructor
      · intro h
        by_cases hbe : e < b
        · exact hbe
        · exfalso
          have : b ≤ e := by omega
          have := Int.mul_le_mul_of_nonneg_right this (Int.le_of_lt hpos)
          omega
      · intro h; exact Int.mul_lt_mul_of_pos_right h hpos
    by_cases h : e < b
    · have h1 : b * s > e * s := key.2 h
      simp [h1]; omega
    · have h1 : ¬ b * s > e * s := fun hh => h (key.1 hh)
      simp [h1]; omega

theorem specParse_some (str : List Char) (bs : List Block) (h : specParse str = some bs) :
    outerOK str = true ∧ (tokenize (· = ',') (str.filter (· ≠ ' '))).mapM specBlock = some bs := by
  unfold specParse at h
  split at h
  · rename_i ho; exact ⟨ho, h⟩
  · cases h

end Votca.C18

namespace Votca.C18

theorem countChar_eq (str : List Char) :
    (splitAll (fun c => decide (c = ':')) str).length = countChar ':' str + 1 := by
  rw [splitAll_length]; rfl

/-- the implementation's block acceptance (tokenizer that drops empty fields + colon count + closed-interval
    test by multiplication) coincides with the declarative one -/
theorem parseBlock_eq_spec (str : List Char) : parseBlock str = specBlock str := by
  unfold parseBlock specBlock tokenize
  have hlen := countChar_eq str
  generalize hfs : splitAll (fun c => decide (c = ':')) str = fs at hlen
  by_cases hall : ∀ x ∈ fs, (!x.isEmpty) = true
  · -- no empty field: the tokenizer returns all fields
    rw [filter_eq_self_of_all _ _ hall]
    cases hm : fs.mapM toIntFull with
    | none =>
      simp only [hm]
      split
      · rfl
      · split <;> rfl
    | some r =>
      simp only [hm]
      have hr := mapM_length toIntFull fs r hm
      have hc : countChar ':' str = fs.length - 1 := by omega
      match r, hr with
      | [], hr => simp at hr; simp [← hr]
      | [b], hr =>
        simp at hr; simp [← hr, hc]
      | [b, e], hr =>
        simp at hr
        simp [← hr, hc, closed_one]
      | [b, s, e], hr =>
        simp at hr
        simp only [← hr, hc]
        by_cases hs : s = 0
        · subst hs; simp
        · simp [hs, closed_stride b s e hs]
      | _ :: _ :: _ :: _ :: _, hr =>
        simp at hr
        have : fs.length > 3 := by omega
        simp [this]
  · -- some field is empty: the tokenizer drops it, the colon count gives it away
    have hex : ∃ x ∈ fs, (!x.isEmpty) = false := by
      apply Classical.byContradiction
      intro hne
      apply hall
      intro x hx
      cases hb : (!x.isEmpty) with
      | true => rfl
      | false => exact absurd ⟨x, hx, hb⟩ hne
    obtain ⟨x, hx, hxe⟩ := hex
    have hlt := filter_length_lt_of_mem (fun t => !t.isEmpty) fs x hx hxe
    have hxnil : x = [] := by
      cases x with
      | nil => rfl
      | cons _ _ => simp at hxe
    have hspec : fs.mapM toIntFull = none := mapM_none_of_mem toIntFull fs x hx (by rw [hxnil]; exact toIntFull_nil)
    rw [hspec]
    simp only []
    split
    · rfl
    · rename_i hcond
      have : countChar ':' str ≠ (fs.filter (fun t => !t.isEmpty)).length - 1 := by
        have h1 : ¬ (fs.filter (fun t => !t.isEmpty)).length < 1 := by
          intro h1; apply hcond; simp [h1]
        omega
      simp [this]

theorem parse_eq_spec (str : List Char) : parse str = specParse str := by
  unfold parse specParse
  split
  · congr 1
    funext s
    exact parseBlock_eq_spec s
  · rfl

end Votca.C18
