import Votca.Lemmas.C16Comp
import Mathlib.Data.List.Nodup
/-! # C16 — helper lemmas for the structure id: walks are carried along a renumbering `π` of the vertices and back, degrees and
start vertices are preserved, sorting forgets the order of the vertex list. -/
namespace Votca.C16

/-- a walk of the original graph is a walk between the renumbered vertices -/
theorem Walk.map_iso {adj adj' : Nat → List Nat} {π : Nat → Nat} {verts : List Nat}
    (hclosed : ∀ v ∈ verts, ∀ x ∈ adj v, x ∈ verts)
    (hadj : ∀ v ∈ verts, (adj' (π v)).Perm ((adj v).map π)) :
    ∀ {j a b : Nat}, a ∈ verts → Walk adj j a b → Walk adj' j (π a) (π b) := by
  intro j a b ha h
  induction h with
  | nil u => exact Walk.nil _
  | @cons k u w v hx _ ih =>
    have hw : w ∈ verts := hclosed u ha w hx
    have : π w ∈ adj' (π u) := (hadj u ha).mem_iff.mpr (List.mem_map.mpr ⟨w, hx, rfl⟩)
    exact Walk.cons this (ih hw)

/-- a walk of the renumbered graph that starts at a renumbered vertex stays among the renumbered vertices and comes from a walk of
the original graph -/
theorem Walk.unmap_iso {adj adj' : Nat → List Nat} {π : Nat → Nat} {verts : List Nat}
    (hclosed : ∀ v ∈ verts, ∀ x ∈ adj v, x ∈ verts)
    (hadj : ∀ v ∈ verts, (adj' (π v)).Perm ((adj v).map π)) :
    ∀ {j x b' : Nat}, Walk adj' j x b' → ∀ a, a ∈ verts → x = π a → ∃ b ∈ verts, b' = π b ∧ Walk adj j a b := by
  intro j x b' h
  induction h with
  | nil u => intro a ha hx; exact ⟨a, ha, hx, Walk.nil a⟩
  | @cons k u w v hw _ ih =>
    intro a ha hx
    subst hx
    have : w ∈ (adj a).map π := (hadj a ha).mem_iff.mp hw
    obtain ⟨y, hy, rfl⟩ := List.mem_map.mp this
    obtain ⟨b, hb, hbe, hwalk⟩ := ih y (hclosed a ha y hy) rfl
    exact ⟨b, hb, hbe, Walk.cons hy hwalk⟩

theorem foldl_max_perm {l₁ l₂ : List Nat} (p : l₁.Perm l₂) (i : Nat) : l₁.foldl max i = l₂.foldl max i := by
  apply List.Perm.foldl_eq' p
  intro x _ y _ z
  omega

theorem maxDeg_iso {adj adj' : Nat → List Nat} {π : Nat → Nat} {verts verts' : List Nat}
    (hverts : verts'.Perm (verts.map π))
    (hadj : ∀ v ∈ verts, (adj' (π v)).Perm ((adj v).map π)) :
    maxDeg adj' verts' = maxDeg adj verts := by
  unfold maxDeg
  rw [foldl_max_perm (hverts.map _), List.map_map]
  congr 1
  apply List.map_congr_left
  intro v hv
  simp [(hadj v hv).length_eq]

theorem starts_iso {adj adj' : Nat → List Nat} {π : Nat → Nat} {verts verts' : List Nat}
    (hverts : verts'.Perm (verts.map π))
    (hadj : ∀ v ∈ verts, (adj' (π v)).Perm ((adj v).map π)) :
    (starts adj' verts').Perm ((starts adj verts).map π) := by
  unfold starts
  rw [maxDeg_iso hverts hadj]
  refine (hverts.filter _).trans ?_
  rw [List.filter_map]
  apply List.Perm.of_eq
  congr 1
  apply List.filter_congr
  intro v hv
  simp [(hadj v hv).length_eq]

theorem mem_starts {adj : Nat → List Nat} {verts : List Nat} {s : Nat} (h : s ∈ starts adj verts) : s ∈ verts :=
  (List.mem_filter.mp h).1

/-- sorting two permutations of one list with a total, transitive, antisymmetric comparison gives one result -/
theorem mergeSort_eq_of_perm {β : Type} (le : β → β → Bool)
    (trans : ∀ a b c : β, le a b → le b c → le a c) (total : ∀ a b : β, le a b || le b a)
    (antisymm : ∀ a b : β, le a b → le b a → a = b) {l₁ l₂ : List β} (p : l₁.Perm l₂) :
    l₁.mergeSort le = l₂.mergeSort le := by
  apply List.Perm.eq_of_pairwise (le := fun a b => le a b = true)
  · intro a b _ _ h1 h2; exact antisymm a b h1 h2
  · exact List.pairwise_mergeSort trans total l₁
  · exact List.pairwise_mergeSort trans total l₂
  · exact (List.mergeSort_perm l₁ le).trans (p.trans (List.mergeSort_perm l₂ le).symm)

/-- a fold with a choice function that always returns one of its arguments yields the initial value or an element -/
theorem foldl_pick_mem {γ : Type} (pick : γ → γ → γ) (hpick : ∀ a b, pick a b = a ∨ pick a b = b) :
    ∀ (l : List γ) (e : γ), l.foldl pick e = e ∨ l.foldl pick e ∈ l := by
  intro l
  induction l with
  | nil => intro e; exact Or.inl rfl
  | cons x xs ih =>
    intro e
    simp only [List.foldl_cons, List.mem_cons]
    rcases ih (pick e x) with h | h
    · rcases hpick e x with h2 | h2
      · left; rw [h, h2]
      · right; left; rw [h, h2]
    · right; right; exact h

theorem le_foldl_max (l : List Nat) : ∀ (i : Nat), i ≤ l.foldl max i ∧ ∀ x ∈ l, x ≤ l.foldl max i := by
  induction l with
  | nil => intro i; exact ⟨Nat.le_refl _, fun x hx => by cases hx⟩
  | cons y ys ih =>
    intro i
    simp only [List.foldl_cons]
    obtain ⟨h1, h2⟩ := ih (max i y)
    refine ⟨Nat.le_trans (Nat.le_max_left i y) h1, ?_⟩
    intro x hx
    rcases List.mem_cons.mp hx with rfl | hx
    · exact Nat.le_trans (Nat.le_max_right i x) h1
    · exact h2 x hx

/-- a non-empty vertex list has a vertex of maximal degree -/
theorem starts_ne_nil (adj : Nat → List Nat) (verts : List Nat) (hne : verts ≠ []) : starts adj verts ≠ [] := by
  unfold starts maxDeg
  have hpk : ∀ a b : Nat, max a b = a ∨ max a b = b := by intro a b; omega
  intro hnil
  have hnone : ∀ v ∈ verts, (adj v).length ≠ (verts.map fun v => (adj v).length).foldl max 0 := by
    intro v hv he
    have : v ∈ verts.filter fun v => (adj v).length == (verts.map fun v => (adj v).length).foldl max 0 :=
      List.mem_filter.mpr ⟨hv, by simp only [beq_iff_eq]; exact he⟩
    rw [hnil] at this; cases this
  rcases foldl_pick_mem max hpk (verts.map fun v => (adj v).length) 0 with h0 | hm
  · obtain ⟨v, hv⟩ := List.exists_mem_of_ne_nil verts hne
    have := (le_foldl_max (verts.map fun v => (adj v).length) 0).2 _ (List.mem_map.mpr ⟨v, hv, rfl⟩)
    exact hnone v hv (by omega)
  · obtain ⟨v, hv, hve⟩ := List.mem_map.mp hm
    exact hnone v hv hve

theorem foldl_pick_ne {γ : Type} (pick : γ → γ → γ) (e : γ) (hpick : ∀ a b, pick a b = a ∨ pick a b = b) :
    ∀ (l : List γ) (a : γ), a ≠ e → (∀ x ∈ l, x ≠ e) → l.foldl pick a ≠ e := by
  intro l
  induction l with
  | nil => intro a ha _; exact ha
  | cons x xs ih =>
    intro a ha hx
    simp only [List.foldl_cons]
    apply ih
    · rcases hpick a x with h | h <;> rw [h]
      · exact ha
      · exact hx x (by simp)
    · intro y hy; exact hx y (by simp [hy])

/-- a fold over a non-empty list of values different from the initial one returns one of them, when the choice prefers any of them
to the initial value -/
theorem foldl_pick_mem_of_ne {γ : Type} (pick : γ → γ → γ) (e : γ) (hpick : ∀ a b, pick a b = a ∨ pick a b = b)
    (hpe : ∀ x, x ≠ e → pick e x ≠ e) (l : List γ) (hl : l ≠ []) (hall : ∀ x ∈ l, x ≠ e) :
    l.foldl pick e ∈ l ∧ l.foldl pick e ≠ e := by
  have hne : l.foldl pick e ≠ e := by
    cases l with
    | nil => exact absurd rfl hl
    | cons x xs =>
      simp only [List.foldl_cons]
      exact foldl_pick_ne pick e hpick xs _ (hpe x (hall x (by simp))) (fun y hy => hall y (by simp [hy]))
  rcases foldl_pick_mem pick hpick l e with h | h
  · exact absurd h hne
  · exact ⟨h, hne⟩

end Votca.C16
