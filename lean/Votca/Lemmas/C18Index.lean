import Votca.Model.C18
/-! # C18 — helper lemmas for the xtp index parser (runs / expansion / sorted-unique) -/
namespace Votca.C18

def StrictSorted : List Int → Prop
  | [] => True
  | [_] => True
  | x :: y :: rest => x < y ∧ StrictSorted (y :: rest)

theorem StrictSorted.tail {x : Int} {l : List Int} (h : StrictSorted (x :: l)) : StrictSorted l := by
  cases l with
  | nil => trivial
  | cons y ys => exact h.2

/-- lower bound on all elements -/
def AllGt (a : Int) (l : List Int) : Prop := ∀ y ∈ l, a < y

theorem strictSorted_cons_iff (x : Int) (l : List Int) :
    StrictSorted (x :: l) ↔ (StrictSorted l ∧ (∀ y, l.head? = some y → x < y)) := by
  cases l with
  | nil => simp [StrictSorted]
  | cons y ys => simp [StrictSorted, and_comm]

theorem insertSorted_head (x : Int) (l : List Int) (a : Int) (hx : a < x) (hl : ∀ y, l.head? = some y → a < y) :
    ∀ y, (insertSorted x l).head? = some y → a < y := by
  cases l with
  | nil => intro y hy; simp [insertSorted] at hy; omega
  | cons z zs =>
    intro y hy
    have hz := hl z (by simp)
    simp only [insertSorted] at hy
    split at hy
    · simp at hy; omega
    · split at hy <;> (simp at hy; omega)

theorem insertSorted_sorted (x : Int) : ∀ (l : List Int), StrictSorted l → StrictSorted (insertSorted x l)
  | [], _ => by simp [insertSorted, StrictSorted]
  | y :: ys, h => by
    simp only [insertSorted]
    split
    · exact ⟨by assumption, h⟩
    · split
      · exact h
      · rename_i h1 h2
        rw [strictSorted_cons_iff] at h ⊢
        refine ⟨insertSorted_sorted x ys h.1, ?_⟩
        exact insertSorted_head x ys y (by omega) h.2

theorem sortDedup_sorted (l : List Int) : StrictSorted (sortDedup l) := by
  induction l with
  | nil => simp [sortDedup, StrictSorted]
  | cons x xs ih => exact insertSorted_sorted x _ ih

theorem mem_insertSorted (x v : Int) : ∀ l : List Int, v ∈ insertSorted x l ↔ v = x ∨ v ∈ l
  | [] => by simp [insertSorted]
  | y :: ys => by
    simp only [insertSorted]
    split
    · simp
    · split
      · rename_i h; subst h; simp
      · simp [mem_insertSorted x v ys]; constructor
        · rintro (h | h | h) <;> simp [h]
        · rintro (h | h | h) <;> simp [h]

/-- `std::set` semantics: same members -/
theorem mem_sortDedup (v : Int) (l : List Int) : v ∈ sortDedup l ↔ v ∈ l := by
  induction l with
  | nil => simp [sortDedup]
  | cons x xs ih =>
    show v ∈ insertSorted x (sortDedup xs) ↔ _
    rw [mem_insertSorted, ih]; simp

theorem insertSorted_of_lt_head (x : Int) (l : List Int) (h : StrictSorted (x :: l)) : insertSorted x l = x :: l := by
  cases l with
  | nil => rfl
  | cons y ys => simp [insertSorted, h.1]

/-- a sorted duplicate-free list is a fixed point -/
theorem sortDedup_of_sorted : ∀ (l : List Int), StrictSorted l → sortDedup l = l
  | [], _ => rfl
  | x :: xs, h => by
    show insertSorted x (sortDedup xs) = _
    rw [sortDedup_of_sorted xs h.tail]
    exact insertSorted_of_lt_head x xs h

theorem runs_head (xs : List Int) (x : Int) :
    ∃ b rest, runs (x :: xs) = (x, b) :: rest ∧ x ≤ b := by
  simp only [runs]
  cases h : runs xs with
  | nil => exact ⟨x, [], rfl, Int.le_refl _⟩
  | cons p rest =>
    obtain ⟨a, b⟩ := p
    by_cases e : a = x + 1
    · simp only [e, if_true]
      exact ⟨b, rest, rfl, by
        cases xs with
        | nil => simp [runs] at h
        | cons y ys =>
          obtain ⟨b', rest', h', hle⟩ := runs_head ys y
          rw [h'] at h; cases h
          omega⟩
    · simp only [e, if_false]; exact ⟨x, (a, b) :: rest, rfl, Int.le_refl _⟩

theorem expandRun_cons (a : Int) (n : Nat) : expandRun a (n + 1) = a :: expandRun (a + 1) n := rfl

theorem expand_cons (p : Int × Int) (l : List (Int × Int)) : expand (p :: l) = expandPair p ++ expand l := by
  simp [expand]

/-- printing as runs and expanding back is the identity on sorted duplicate-free lists -/
theorem expand_runs : ∀ (xs : List Int), StrictSorted xs → expand (runs xs) = xs
  | [], _ => rfl
  | [x], _ => by simp [runs, expand, expandPair, expandRun]
  | x :: y :: rest, h => by
    obtain ⟨hxy, hs⟩ := h
    have ih := expand_runs (y :: rest) hs
    obtain ⟨b, tl, hr, hle⟩ := runs_head rest y
    have hrx : runs (x :: y :: rest) = if y = x + 1 then (x, b) :: tl else (x, x) :: (y, b) :: tl := by
      show (match runs (y :: rest) with
            | (a, b) :: rest => if a = x + 1 then (x, b) :: rest else (x, x) :: (a, b) :: rest
            | [] => [(x, x)]) = _
      rw [hr]
    rw [hrx]; rw [hr] at ih
    by_cases e : y = x + 1
    · simp only [e, if_true]
      rw [expand_cons] at ih ⊢
      have hxb : x ≤ b := by omega
      have hyb : y ≤ b := hle
      simp only [expandPair, hxb, hyb, if_true] at ih ⊢
      have : (b - x).toNat = (b - (x + 1)).toNat + 1 := by omega
      rw [this, expandRun_cons, List.cons_append]
      rw [e] at ih; rw [ih]
    · simp only [e, if_false]
      rw [expand_cons]
      rw [ih]; simp [expandPair, expandRun]

end Votca.C18
