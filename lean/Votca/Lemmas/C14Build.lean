import Mathlib.Data.List.Perm.Basic
import Mathlib.Tactic.Linarith
/-! # C14 — `huffmanTree::makeTree`: whatever two elements the priority queues hand out (any tie order),
    the finished tree's leaves are exactly the events, each once. -/
namespace Votca.C14.Build

inductive T where
  | two (l r : Nat × Nat)          -- (event id, value numerator); probabilities are irrelevant here
  | one (e : Nat × Nat)
  | inner (l r : T)

def leaves : T → List (Nat × Nat)
  | .two l r => [r, l]
  | .one e => [e]
  | .inner l r => leaves r ++ leaves l

/-- an arbitrary "take one element out" function, as a priority queue with unspecified tie order -/
structure Pop (X : Type) where
  pop : List X → Option (X × List X)
  nil : pop [] = none
  spec : ∀ l x r, pop l = some (x, r) → (x :: r).Perm l
  some_of_ne : ∀ l, l ≠ [] → ∃ x r, pop l = some (x, r)

/-- first phase: pair up events into last-level nodes -/
def phase1 (P : Pop (Nat × Nat)) : Nat → List (Nat × Nat) → List T → List T
  | 0, _, acc => acc
  | fuel + 1, evs, acc =>
    match P.pop evs with
    | none => acc
    | some (e1, r1) =>
      match P.pop r1 with
      | none => acc ++ [T.one e1]
      | some (e2, r2) => phase1 P fuel r2 (acc ++ [T.two e1 e2])

/-- second phase: merge two nodes at a time until one root is left -/
def phase2 (P : Pop T) : Nat → List T → Option T
  | 0, _ => none
  | fuel + 1, ns =>
    match P.pop ns with
    | none => none
    | some (n1, r1) =>
      match P.pop r1 with
      | none => some n1
      | some (n2, r2) => phase2 P fuel (T.inner n1 n2 :: r2)

def allLeaves (ns : List T) : List (Nat × Nat) := ns.flatMap leaves

theorem phase1_leaves (P : Pop (Nat × Nat)) : ∀ (fuel : Nat) (evs : List (Nat × Nat)) (acc : List T),
    evs.length ≤ fuel → (allLeaves (phase1 P fuel evs acc)).Perm (allLeaves acc ++ evs) := by
  intro fuel
  induction fuel with
  | zero =>
    intro evs acc h
    have : evs = [] := List.eq_nil_of_length_eq_zero (by omega)
    subst this; simp [phase1]
  | succ fuel ih =>
    intro evs acc h
    simp only [phase1]
    cases h1 : P.pop evs with
    | none =>
      have : evs = [] := by
        by_contra hne
        obtain ⟨x, r, hx⟩ := P.some_of_ne evs hne
        rw [hx] at h1; cases h1
      subst this; simp
    | some p1 =>
      obtain ⟨e1, r1⟩ := p1
      have hp1 := P.spec evs e1 r1 h1
      simp only
      cases h2 : P.pop r1 with
      | none =>
        have : r1 = [] := by
          by_contra hne
          obtain ⟨x, r, hx⟩ := P.some_of_ne r1 hne
          rw [hx] at h2; cases h2
        subst this
        simp only [allLeaves, List.flatMap_append, List.flatMap_cons, List.flatMap_nil, leaves, List.append_nil]
        exact List.Perm.append_left _ hp1
      | some p2 =>
        obtain ⟨e2, r2⟩ := p2
        have hp2 := P.spec r1 e2 r2 h2
        simp only
        have hlen : r2.length ≤ fuel := by
          have := hp1.length_eq; have := hp2.length_eq; simp at *; omega
        refine (ih r2 (acc ++ [T.two e1 e2]) hlen).trans ?_
        simp only [allLeaves, List.flatMap_append, List.flatMap_cons, List.flatMap_nil, leaves, List.append_nil,
          List.append_assoc]
        apply List.Perm.append_left
        -- [e2, e1] ++ r2 ~ evs
        have : (e1 :: e2 :: r2).Perm evs := (List.Perm.cons e1 hp2).trans hp1
        exact (List.Perm.swap e1 e2 r2).trans this

theorem phase2_leaves (P : Pop T) : ∀ (fuel : Nat) (ns : List T) (root : T),
    ns.length ≤ fuel → phase2 P fuel ns = some root → (leaves root).Perm (allLeaves ns) := by
  intro fuel
  induction fuel with
  | zero => intro ns root _ h; simp [phase2] at h
  | succ fuel ih =>
    intro ns root hlen h
    simp only [phase2] at h
    cases h1 : P.pop ns with
    | none => rw [h1] at h; cases h
    | some p1 =>
      obtain ⟨n1, r1⟩ := p1
      have hp1 := P.spec ns n1 r1 h1
      rw [h1] at h; simp only at h
      cases h2 : P.pop r1 with
      | none =>
        rw [h2] at h; simp only at h; cases h
        have : r1 = [] := by
          by_contra hne
          obtain ⟨x, r, hx⟩ := P.some_of_ne r1 hne
          rw [hx] at h2; cases h2
        subst this
        have := hp1.flatMap_right leaves
        simpa [allLeaves] using this
      | some p2 =>
        obtain ⟨n2, r2⟩ := p2
        have hp2 := P.spec r1 n2 r2 h2
        rw [h2] at h; simp only at h
        have hl : (T.inner n1 n2 :: r2).length ≤ fuel := by
          have := hp1.length_eq; have := hp2.length_eq; simp at *; omega
        refine (ih _ root hl h).trans ?_
        have e1 : (n1 :: n2 :: r2).Perm ns := (List.Perm.cons n1 hp2).trans hp1
        have := e1.flatMap_right leaves
        refine List.Perm.trans ?_ this
        simp only [allLeaves, List.flatMap_cons, leaves, List.append_assoc]
        rw [← List.append_assoc, ← List.append_assoc]
        exact List.Perm.append_right _ List.perm_append_comm

/-- the leaves of the finished tree are a permutation of the event list -/
theorem build_leaves (P1 : Pop (Nat × Nat)) (P2 : Pop T) (evs : List (Nat × Nat)) (root : T)
    (h : phase2 P2 (phase1 P1 evs.length evs []).length (phase1 P1 evs.length evs []) = some root) :
    (leaves root).Perm evs := by
  have a := phase2_leaves P2 _ _ root (Nat.le_refl _) h
  have b := phase1_leaves P1 evs.length evs [] (Nat.le_refl _)
  simpa [allLeaves] using a.trans b

end Votca.C14.Build
