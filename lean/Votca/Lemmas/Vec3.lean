import Votca.Base.Vec3
/-! component lemmas for the exact-rational 3-vectors -/
namespace Votca.C02
open Votca

theorem V3.ext3 {a b : V3} (hx : a.x = b.x) (hy : a.y = b.y) (hz : a.z = b.z) : a = b := by
  cases a; cases b; simp_all

@[simp] theorem sub_x (a b : V3) : (a - b).x = a.x - b.x := rfl
@[simp] theorem sub_y (a b : V3) : (a - b).y = a.y - b.y := rfl
@[simp] theorem sub_z (a b : V3) : (a - b).z = a.z - b.z := rfl
@[simp] theorem add_x (a b : V3) : (a + b).x = a.x + b.x := rfl
@[simp] theorem add_y (a b : V3) : (a + b).y = a.y + b.y := rfl
@[simp] theorem add_z (a b : V3) : (a + b).z = a.z + b.z := rfl
@[simp] theorem neg_x (a : V3) : (-a).x = -a.x := rfl
@[simp] theorem neg_y (a : V3) : (-a).y = -a.y := rfl
@[simp] theorem neg_z (a : V3) : (-a).z = -a.z := rfl
@[simp] theorem smul_x (k : Rat) (a : V3) : (k * a).x = k * a.x := rfl
@[simp] theorem smul_y (k : Rat) (a : V3) : (k * a).y = k * a.y := rfl
@[simp] theorem smul_z (k : Rat) (a : V3) : (k * a).z = k * a.z := rfl


end Votca.C02
