import Votca.Model.C18
/-! # C18 — helper lemmas for the print / scan round trip of integers: `Nat.toDigits 10` is a run of digits whose value is the number -/
namespace Votca.C18

theorem digit_facts (c : Char) (hc : isDigit c = true) : isSpace c = false ∧ c ≠ '-' ∧ c ≠ '+' := by
  unfold isDigit at hc
  simp only [Bool.and_eq_true, decide_eq_true_eq] at hc
  have h0 : '0' ≤ c := hc.1
  refine ⟨?_, ?_, ?_⟩
  · unfold isSpace
    simp only [Bool.or_eq_false_iff, decide_eq_false_iff_not]
    refine ⟨⟨⟨⟨⟨?_, ?_⟩, ?_⟩, ?_⟩, ?_⟩, ?_⟩ <;> (intro h; subst h; revert h0; decide)
  · intro h; subst h; revert h0; decide
  · intro h; subst h; revert h0; decide

theorem scanInt_digit (c : Char) (cs : List Char) (hc : isDigit c = true) :
    scanInt (c :: cs) = some (((digitsVal (c :: cs) 0).1 : Int), (digitsVal (c :: cs) 0).2) := by
  obtain ⟨hsp, h1, h2⟩ := digit_facts c hc
  unfold scanInt
  simp only [List.dropWhile_cons, hsp, Bool.false_eq_true, if_false]
  split
  · rename_i heq
    split at heq
    · rename_i h; simp at h; exact absurd h.1 h1
    · rename_i h; simp at h; exact absurd h.1 h2
    · simp at heq
      obtain ⟨rfl, rfl⟩ := heq
      simp [hc]
  · rename_i heq
    split at heq <;> simp_all

theorem scanInt_minus (c : Char) (cs : List Char) (hc : isDigit c = true) :
    scanInt ('-' :: c :: cs) = some (-((digitsVal (c :: cs) 0).1 : Int), (digitsVal (c :: cs) 0).2) := by
  have hsp : isSpace '-' = false := by decide
  unfold scanInt
  simp only [List.dropWhile_cons, hsp, Bool.false_eq_true, if_false]
  simp [hc]

theorem digitChar_isDigit (d : Nat) (h : d < 10) : isDigit d.digitChar = true ∧ d.digitChar.toNat - 48 = d := by
  have : d = 0 ∨ d = 1 ∨ d = 2 ∨ d = 3 ∨ d = 4 ∨ d = 5 ∨ d = 6 ∨ d = 7 ∨ d = 8 ∨ d = 9 := by omega
  rcases this with rfl | rfl | rfl | rfl | rfl | rfl | rfl | rfl | rfl | rfl <;> decide

def foldDigits (l : List Char) (acc : Nat) : Nat := l.foldl (fun a c => 10 * a + (c.toNat - 48)) acc

/-- a run of digits followed by something that is not a digit is consumed entirely -/
theorem digitsVal_run : ∀ (ds rest : List Char) (acc : Nat), (∀ c ∈ ds, isDigit c = true) →
    (∀ c, rest.head? = some c → isDigit c = false) → digitsVal (ds ++ rest) acc = (foldDigits ds acc, rest)
  | [], rest, acc, _, hr => by
    cases rest with
    | nil => simp [digitsVal, foldDigits]
    | cons c cs => simp [digitsVal, foldDigits, hr c rfl]
  | d :: ds, rest, acc, hd, hr => by
    simp only [List.cons_append, digitsVal, hd d (by simp), if_true]
    rw [digitsVal_run ds rest _ (fun c hc => hd c (by simp [hc])) hr]
    simp [foldDigits]

theorem foldDigits_toDigits : ∀ n : Nat, foldDigits (Nat.toDigits 10 n) 0 = n := by
  intro n
  induction n using Nat.strongRecOn with
  | _ n ih =>
    rw [Nat.toDigits_eq_if (by omega)]
    split
    · rename_i h
      simpa [foldDigits] using (digitChar_isDigit n h).2
    · rename_i h
      have hlt : n / 10 < n := Nat.div_lt_self (by omega) (by omega)
      simp only [foldDigits, List.foldl_append, List.foldl_cons, List.foldl_nil]
      have := ih (n / 10) hlt
      simp only [foldDigits] at this
      rw [this, (digitChar_isDigit (n % 10) (Nat.mod_lt _ (by omega))).2]
      omega

theorem toDigits_all_digits (n : Nat) : ∀ c ∈ Nat.toDigits 10 n, isDigit c = true := by
  induction n using Nat.strongRecOn with
  | _ n ih =>
    rw [Nat.toDigits_eq_if (by omega)]
    split
    · rename_i h
      intro c hc
      simp at hc; subst hc
      exact (digitChar_isDigit n h).1
    · rename_i h
      intro c hc
      rcases List.mem_append.mp hc with hc | hc
      · exact ih (n / 10) (Nat.div_lt_self (by omega) (by omega)) c hc
      · simp at hc; subst hc
        exact (digitChar_isDigit (n % 10) (Nat.mod_lt _ (by omega))).1

theorem toDigits_head_digit (n : Nat) : ∃ c cs, Nat.toDigits 10 n = c :: cs ∧ isDigit c = true := by
  cases h : Nat.toDigits 10 n with
  | nil => exact absurd h Nat.toDigits_ne_nil
  | cons c cs => exact ⟨c, cs, rfl, toDigits_all_digits n c (by rw [h]; simp)⟩

theorem showInt_ofNat (n : Nat) : showInt (Int.ofNat n) = Nat.toDigits 10 n := by
  show (toString (Int.ofNat n)).toList = _
  simp [toString, Int.repr, Nat.toList_repr]

theorem showInt_negSucc (n : Nat) : showInt (Int.negSucc n) = '-' :: Nat.toDigits 10 (n + 1) := by
  show (toString (Int.negSucc n)).toList = _
  simp [toString, Int.repr, Nat.toList_repr]

theorem scanInt_showInt_lem (i : Int) (rest : List Char) (hr : ∀ c, rest.head? = some c → isDigit c = false) :
    scanInt (showInt i ++ rest) = some (i, rest) := by
  cases i with
  | ofNat n =>
    rw [showInt_ofNat]
    obtain ⟨c, cs, hcs, hc⟩ := toDigits_head_digit n
    have hrun := digitsVal_run (Nat.toDigits 10 n) rest 0 (toDigits_all_digits n) hr
    rw [hcs] at hrun ⊢
    rw [List.cons_append, scanInt_digit c (cs ++ rest) hc, ← List.cons_append, hrun, ← hcs, foldDigits_toDigits]
    rfl
  | negSucc n =>
    rw [showInt_negSucc]
    obtain ⟨c, cs, hcs, hc⟩ := toDigits_head_digit (n + 1)
    have hrun := digitsVal_run (Nat.toDigits 10 (n + 1)) rest 0 (toDigits_all_digits (n + 1)) hr
    rw [hcs] at hrun ⊢
    rw [List.cons_append, List.cons_append, scanInt_minus c (cs ++ rest) hc, ← List.cons_append, hrun, ← hcs, foldDigits_toDigits]
    simp [Int.negSucc_eq]

end Votca.C18
