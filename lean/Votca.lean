import Votca.Base.Util
import Votca.Model.C18
import Votca.Lemmas.C18Wild
