import Votca.Base.Util
import Votca.Props.C18
import Votca.Props.C13
import Votca.Props.C20
import Votca.Props.C20Findings
import Votca.Props.C14
import Votca.Props.C02
import Votca.Props.C01
