import Votca.Model.C18
/-! line-protocol handlers for C18 (core only) -/
namespace Driver.C18
open Votca Votca.C18

def b2s (b : Bool) : String := if b then "1" else "0"

/-- parse `n v1 … vn` from the front of a token list -/
def takeInts (l : List String) : Option (List Int × List String) :=
  match l with
  | [] => none
  | n :: rest =>
    match n.toNat? with
    | none => none
    | some k =>
      if rest.length < k then none else
      match (rest.take k).mapM (·.toInt?) with
      | some vs => some (vs, rest.drop k)
      | none => none

def bad (m : String) : Verdict := { agree := false, propOk := true, msg := "bad-line " ++ m, tag := "bad" }

def wildTag (p : List Char) : String :=
  let stars := (p.filter (· = '*')).length
  if stars = 0 then "wild:nostar" else if stars = 1 then "wild:1star" else "wild:multistar"

def handleWild (args : List String) : Verdict :=
  match args with
  | [hp, hs, r] =>
    match unhex hp, unhex hs with
    | some p, some s =>
      let impl := r == "1"
      let m := wildcmp p s
      let sp := glob p s
      { agree := m == impl, propOk := sp == impl,
        msg := s!"model={b2s m} glob={b2s sp}", tag := wildTag p ++ (if impl then ":match" else ":nomatch") }
    | _, _ => bad "wild hex"
  | _ => bad "wild arity"

/-- model side of a range line: accepted?, finished?, values, printed form -/
def rangeModel (e : List Char) (budget : Nat) : Option (Bool × List Int × List Char) :=
  match parse e with
  | none => none
  | some bs => let (l, f) := enumerate bs budget; some (f, l, printBlocks bs)

def handleRange (args : List String) : Verdict :=
  match args with
  | he :: bud :: rest =>
    match unhex he, bud.toNat? with
    | some e, some budget =>
      let spec := specParse e
      match rest with
      | ["ERR"] =>
        let m := rangeModel e budget
        { agree := m.isNone, propOk := spec.isNone,
          msg := (if spec.isSome then "spec accepts this expression, implementation rejects it" else "") ,
          tag := "range:rejected" }
      | "OK" :: fin :: hp :: more =>
        match unhex hp, takeInts more with
        | some pr, some (vs, []) =>
          let implFin := fin == "1"
          let m := rangeModel e budget
          let agree := m == some (implFin, vs, pr)
          match spec with
          | none => { agree := agree, propOk := false, msg := "malformed/empty-step/zero-stride expression accepted", tag := "range:accepted-bad" }
          | some bs =>
            let d := denote bs
            if d.length > budget then { agree := agree, propOk := true, tag := "range:over-budget" }
            else
              let ok := implFin && vs == d
              { agree := agree, propOk := ok,
                msg := if ok then "" else s!"denotes {d} but iteration gave fin={b2s implFin} {vs}",
                tag := if bs.any (fun k => k.s < 0) then "range:neg-stride" else if bs.length > 1 then "range:multi" else "range:single" }
        | _, _ => bad "range OK payload"
      | _ => bad "range payload"
    | _, _ => bad "range hex"
  | _ => bad "range arity"

/-- `reprint <expr> <printed> <budget> ERR | OK fin n v…` : the printed form, parsed again by the implementation -/
def handleReprint (args : List String) : Verdict :=
  match args with
  | he :: hp :: bud :: rest =>
    match unhex he, unhex hp, bud.toNat? with
    | some e, some p, some budget =>
      match specParse e with
      | none => { tag := "reprint:orig-bad" }     -- judged on the `range` line
      | some bs =>
        let d := denote bs
        if d.length > budget then { tag := "reprint:over-budget" } else
        match rest with
        | ["ERR"] => { agree := (rangeModel p budget).isNone, propOk := false, msg := "printed form is rejected on re-parse", tag := "reprint:err" }
        | "OK" :: fin :: more =>
          match takeInts more with
          | some (vs, []) =>
            let m := rangeModel p budget
            let agree := match m with | some (f, l, _) => f == (fin == "1") && l == vs | none => false
            let ok := fin == "1" && vs == d
            { agree := agree, propOk := ok, msg := if ok then "" else s!"print/parse changed the sequence: {d} became {vs}", tag := "reprint:ok" }
          | _ => bad "reprint payload"
        | _ => bad "reprint payload"
    | _, _, _ => bad "reprint hex"
  | _ => bad "reprint arity"

def handleIvec (args : List String) : Verdict :=
  match args with
  | hs :: rest =>
    match unhex hs with
    | some s =>
      let m := createIndexVector s
      match rest with
      | ["ERR"] => { agree := m.isNone, tag := "ivec:err" }
      | "OK" :: more =>
        match takeInts more with
        | some (vs, []) =>
          -- property: result sorted, duplicate free
          let sorted := vs == sortDedup vs
          { agree := m == some vs, propOk := sorted, msg := if sorted then "" else "not sorted/duplicate-free",
            tag := if s.contains ':' then "ivec:ranges" else "ivec:plain" }
        | _ => bad "ivec payload"
      | _ => bad "ivec payload"
    | none => bad "ivec hex"
  | _ => bad "ivec arity"

/-- `istr n v… <hexstring> <ERR | OK m w…>`: CreateIndexString(v) and CreateIndexVector of that string -/
def handleIstr (args : List String) : Verdict :=
  match takeInts args with
  | some (vs, hs :: rest) =>
    match unhex hs with
    | some s =>
      let m := createIndexString vs
      let want := sortDedup vs
      match rest with
      | ["ERR"] => { agree := m == s && (createIndexVector s).isNone, propOk := false, msg := "own index string rejected", tag := "istr:err" }
      | "OK" :: more =>
        match takeInts more with
        | some (ws, []) =>
          { agree := m == s && createIndexVector s == some ws, propOk := ws == want,
            msg := if ws == want then "" else s!"round trip lost information: {want} became {ws}",
            tag := if (runs want).any (fun p => p.1 ≠ p.2) then "istr:runs" else "istr:singles" }
        | _ => bad "istr payload"
      | _ => bad "istr payload"
    | none => bad "istr hex"
  | _ => bad "istr arity"

/-- `select <hexsel> <nbeads> (name type)* <k> idx…` -/
def handleSelect (args : List String) : Verdict :=
  match args with
  | hsel :: n :: rest =>
    match unhex hsel, n.toNat? with
    | some sel, some nb =>
      if rest.length < 2 * nb then bad "select beads" else
      let rec beadsOf : Nat → List String → Option (List BeadRec)
        | 0, _ => some []
        | k + 1, a :: b :: r => do
          let x ← unhex a
          let y ← unhex b
          let t ← beadsOf k r
          pure (⟨x, y⟩ :: t)
        | _, _ => none
      match beadsOf nb rest, takeInts (rest.drop (2 * nb)) with
      | some beads, some (idx, []) =>
        let m := (select sel beads).map (fun (i : Nat) => (i : Int))
        let sp := (selectSpec sel beads).map (fun (i : Nat) => (i : Int))
        { agree := m == idx, propOk := sp == idx, msg := s!"model={m} spec={sp}",
          tag := if sel.take 5 == namePrefix then "select:name" else "select:type" }
      | _, _ => bad "select payload"
    | _, _ => bad "select hex"
  | _ => bad "select arity"

def handle (args : List String) : Verdict :=
  match args with
  | "wild" :: r => handleWild r
  | "range" :: r => handleRange r
  | "reprint" :: r => handleReprint r
  | "ivec" :: r => handleIvec r
  | "istr" :: r => handleIstr r
  | "select" :: r => handleSelect r
  | _ => bad "unknown op"

end Driver.C18
