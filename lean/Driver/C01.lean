import Votca.Model.C01
import Driver.C02
/-! line-protocol handlers for C01 (core only) -/
namespace Driver.C01
open Votca Votca.C02 Votca.C01 Driver.C02

def bad (m : String) : Verdict := { agree := false, propOk := true, msg := "bad-line " ++ m, tag := "bad" }

structure Res where
  err : Option String
  bead : CGBead

def takeRes (l : List String) : Option (Res × List String) :=
  match l with
  | "ERR" :: k :: rest => some (⟨some k, ⟨0, none, none, none⟩⟩, rest)
  | "OK" :: rest => do
    let (m, r1) ← takeRats 1 rest
    match r1 with
    | hp :: r2 =>
      let (p, r3) ← takeV3 r2
      match r3 with
      | hv :: r4 =>
        let (v, r5) ← takeV3 r4
        match r5 with
        | hf :: r6 =>
          let (f, r7) ← takeV3 r6
          pure (⟨none, ⟨m.getD 0 0, if hp == "1" then some p else none, if hv == "1" then some v else none, if hf == "1" then some f else none⟩⟩, r7)
        | _ => none
      | _ => none
    | _ => none
  | _ => none

def takeParents : Nat → List String → Option (List Parent × List String)
  | 0, l => some ([], l)
  | k + 1, fl :: rest => do
    let (m, r1) ← takeRats 1 rest
    let (p, r2) ← takeV3 r1
    let (v, r3) ← takeV3 r2
    let (f, r4) ← takeV3 r3
    let c := fl.toList
    let par : Parent := { pos := if c.getD 0 '0' == '1' then some p else none, vel := if c.getD 1 '0' == '1' then some v else none,
                          frc := if c.getD 2 '0' == '1' then some f else none, mass := m.getD 0 0 }
    let (ps, r) ← takeParents k r4
    pure (par :: ps, r)
  | _, _ => none

def optClose (a b : Option V3) (tol : Rat) : Bool :=
  match a, b with
  | none, none => true
  | some x, some y => vclose x y tol
  | _, _ => false

def errName : Err → String
  | .halfBox => "halfbox"
  | .countMismatch => "count"
  | .dWithoutWeight => "dweight"

def sameRes (m : Except Err CGBead) (r : Res) (tol : Rat) : Bool :=
  match m, r.err with
  | .error e, some k => errName e == k
  | .ok b, none => absRat (b.mass - r.bead.mass) ≤ tol * (1 + absRat b.mass) && optClose b.pos r.bead.pos tol && optClose b.vel r.bead.vel tol && optClose b.frc r.bead.frc (tol * 100)
  | _, _ => false

def setPos (ps : List Parent) (i : Nat) (p : V3) : List Parent :=
  ps.zipIdx.map fun (q, j) => if j == i then { q with pos := q.pos.map fun _ => p } else q

def connOf (bt : BoxType) (B : Box) (pp : List Parent) (o : V3) : List V3 :=
  pp.filterMap fun (p : Parent) => p.pos.map fun (r : V3) => mic bt B o r

def maxSqOf (bt : BoxType) (B : Box) (pp : List Parent) (o : V3) : Rat :=
  (connOf bt B pp o).foldl (fun (mm : Rat) (r : V3) => if mm < r.normSq then r.normSq else mm) 0

def tieIn (bt : BoxType) (B : Box) (r0 : V3) (pp : List Parent) (eps : Rat) : Bool :=
  pp.any fun (p : Parent) => match p.pos with
    | some r => (roundArgs bt B r0 r).any (fun q => halfDist q ≤ eps)
    | none => false

def loOf (f : V3 → Rat) (us : List V3) : Rat := us.foldl (fun mm u => if f u < mm then f u else mm) (f (us.headD V3.zero))
def hiOf (f : V3 → Rat) (us : List V3) : Rat := us.foldl (fun mm u => if mm < f u then f u else mm) (f (us.headD V3.zero))

def judge (exact : Bool) (sym ty : String) (B : Box) (k : Nat) (parents : List Parent) (ws : List Rat) (nd : Int) (ds : List Rat)
    (si : Nat) (ps t : V3) (res resS resT : Res) : Verdict :=
  let bt : BoxType := if ty == "A" then autoDetect B else (typeOfChar ty).getD BoxType.open_
  let tol : Rat := if exact then 0 else 1 / 100000000
  let wf := initWeights k ws (if nd < 0 then none else some ds)
  let parentsS : List Parent := if si > 0 then setPos parents si ps else parents
  let parentsT : List Parent := parents.map fun (p : Parent) => { p with pos := p.pos.map (· + t) }
  let run (pp : List Parent) : Except Err CGBead := match wf with | .error e => .error e | .ok w => apply bt B pp w
  let m := run parents
  let mS := run parentsS
  let mT := run parentsT
  -- the half-box decision is a comparison of rounded square roots: not judged within 1e-9 of the limit
  let firstPos : Option V3 := parents.head?.bind (·.pos)
  let r0 : V3 := firstPos.getD V3.zero
  let lim := minHeightSq B / 4
  let r0T : V3 := r0 + (if firstPos.isSome then t else V3.zero)
  let nearLimit : Bool := bt != BoxType.open_ &&
    ([maxSqOf bt B parents r0, maxSqOf bt B parentsS r0, maxSqOf bt B parentsT r0T].any fun q => absRat (q - lim) ≤ (1 / 1000000000) * (1 + lim))
  let ties : Bool := !exact && tieIn bt B r0 (parents ++ parentsS) (1 / 10000000)
  let agree : Bool := nearLimit || ties || (sameRes m res tol && sameRes mS resS tol && sameRes mT resT tol)
  -- property predicates on the implementation's bead
  let wOk : Bool := match wf with | .ok _ => true | .error _ => false
  let tooFar : Bool := bt != BoxType.open_ && maxSqOf bt B parents r0 > lim
  let rejectOk : Bool := nearLimit || (if !wOk then res.err.isSome else if tooFar then res.err == some "halfbox" else res.err.isNone)
  let masses : Rat := (parents.map (·.mass)).sum
  let massOk : Bool := res.err.isSome || absRat (res.bead.mass - masses) ≤ (1 / 1000000000000) * (1 + masses)
  let exactTie : Bool := tieIn bt B r0 (parents ++ parentsS) 0
  let shiftOk : Bool := nearLimit || ties || exactTie || res.err.isSome || resS.err.isSome || optClose res.bead.pos resS.bead.pos (tol * 10)
  let transOk : Bool := nearLimit || ties || exactTie || res.err.isSome || resT.err.isSome ||
    (match res.bead.pos, resT.bead.pos with
     | some p, some q => !(parents.all (·.pos.isSome)) || vclose (p + t) q (tol * 10)
     | none, none => true
     | _, _ => false)
  -- convex hull: non-negative weights keep every coordinate between the extreme unwrapped parents
  let us : List V3 := (parents.zip ws).filterMap fun ((q : Parent), (w : Rat)) => if w > 0 then q.pos.map (fun r => mic bt B r0 r + r0) else none
  let hullOk : Bool := res.err.isSome || !(ws.all (· ≥ 0)) || !(parents.all (·.pos.isSome)) || us.isEmpty ||
    (match res.bead.pos with
     | some p => loOf (·.x) us - tol ≤ p.x && p.x ≤ hiOf (·.x) us + tol && loOf (·.y) us - tol ≤ p.y && p.y ≤ hiOf (·.y) us + tol &&
                 loOf (·.z) us - tol ≤ p.z && p.z ≤ hiOf (·.z) us + tol
     | none => true)
  -- position / velocity / force formulas on the implementation's numbers (the model is the formula)
  let formulaOk : Bool := nearLimit || ties || sameRes m res tol
  let ok : Bool := rejectOk && massOk && shiftOk && transOk && hullOk && formulaOk
  let outcome : String := match res.err with | some e => e | none => "ok"
  let tname : String := match bt with | .open_ => "open" | .ortho => "ortho" | .tri => "tri"
  { agree := agree, propOk := ok,
    msg := if ok then "" else s!"reject={rejectOk} mass={massOk} imageShift={shiftOk} translation={transOk} hull={hullOk} formula={formulaOk}",
    tag := s!"{if exact then "map" else "gmap"}:{tname}:sym{sym}:{outcome}{if nd ≥ 0 then ":d" else ""}{if ws.any (· == 0) then ":zero-weight" else ""}{if parents.any (·.pos.isNone) then ":missing-pos" else ""}{if nearLimit then ":near-limit" else ""}" }

def parseMap (exact : Bool) (sym ty : String) (rest : List String) : Option Verdict := do
  let (a, r1) ← takeV3 rest
  let (b, r2) ← takeV3 r1
  let (c, r3) ← takeV3 r2
  let (ks, r4) ← r3.head?.map (fun h => (h, r3.tail))
  let k ← ks.toNat?
  let (parents, r5) ← takeParents k r4
  let (nws, r6) ← r5.head?.map (fun h => (h, r5.tail))
  let nw ← nws.toNat?
  let (ws, r7) ← takeRats nw r6
  let (nds, r8) ← r7.head?.map (fun h => (h, r7.tail))
  let nd ← nds.toInt?
  let (ds, r9) ← takeRats nd.toNat r8
  let (sis, r10) ← r9.head?.map (fun h => (h, r9.tail))
  let si ← sis.toNat?
  let (ps, r11) ← takeV3 r10
  let (t, r12) ← takeV3 r11
  let (res, r13) ← takeRes r12
  if r13.head? != some "|" then none else
  let (resS, r15) ← takeRes r13.tail
  if r15.head? != some "|" then none else
  let (resT, r17) ← takeRes r15.tail
  if !r17.isEmpty then none else
  pure (judge exact sym ty ⟨a, b, c⟩ k parents ws nd ds si ps t res resS resT)

def handleMap (exact : Bool) (args : List String) : Verdict :=
  match args with
  | sym :: ty :: rest => (parseMap exact sym ty rest).getD (bad "map fields")
  | _ => bad "map arity"

/-! ## executable leg: a complete csg_map run (every frame, every coarse-grained bead) -/

structure BeadDef where
  idx : List Nat
  ws : List Rat
  ds : Option (List Rat)

def takeNats : Nat → List String → Option (List Nat × List String)
  | 0, l => some ([], l)
  | k + 1, a :: rest => do
    let n ← a.toNat?
    let (ns, r) ← takeNats k rest
    pure (n :: ns, r)
  | _, _ => none

def takeBeadDefs : Nat → List String → Option (List BeadDef × List String)
  | 0, l => some ([], l)
  | k + 1, ns :: rest => do
    let n ← ns.toNat?
    let (idx, r1) ← takeNats n rest
    let (ws, r2) ← takeRats n r1
    let nd ← r2.head? >>= String.toInt?
    let (ds, r3) ← takeRats nd.toNat r2.tail
    let (more, r) ← takeBeadDefs k r3
    pure ({ idx := idx, ws := ws, ds := if nd < 0 then none else some ds } :: more, r)
  | _, _ => none

def takeFramesIn : Nat → List String → Option (List (Box × List Parent) × List String)
  | 0, l => some ([], l)
  | k + 1, l => do
    let (a, r1) ← takeV3 l
    let (b, r2) ← takeV3 r1
    let (c, r3) ← takeV3 r2
    let n ← r3.head? >>= String.toNat?
    let (atoms, r4) ← takeParents n r3.tail
    let (more, r) ← takeFramesIn k r4
    pure ((⟨a, b, c⟩, atoms) :: more, r)

def takeFramesOut : Nat → List String → Option (List (List Parent) × List String)
  | 0, l => some ([], l)
  | k + 1, l => do
    let n ← l.head? >>= String.toNat?
    let (beads, r1) ← takeParents n l.tail
    let (more, r) ← takeFramesOut k r1
    pure (beads :: more, r)

def mapFrame (defs : List BeadDef) (fr : Box × List Parent) : List (Except Err CGBead × Bool) :=
  let bt := autoDetect fr.1
  defs.map fun d =>
    let parents := d.idx.filterMap fun i => fr.2[i]?
    let r := match initWeights d.idx.length d.ws d.ds with
      | .error e => .error e
      | .ok w => apply bt fr.1 parents w
    let r0 : V3 := (parents.head?.bind (·.pos)).getD V3.zero
    let lim := minHeightSq fr.1 / 4
    let near := bt != BoxType.open_ && absRat (maxSqOf bt fr.1 parents r0 - lim) ≤ (1 / 1000000000) * (1 + lim)
    (r, near)

def handleRun (args : List String) : Verdict :=
  (do
    match args with
    | _sid :: fin :: fout :: vel :: frc :: rest =>
      let (tols, r1) ← takeRats 3 rest
      let nb ← r1.head? >>= String.toNat?
      let (defs, r2) ← takeBeadDefs nb r1.tail
      let nf ← r2.head? >>= String.toNat?
      let (frames, r3) ← takeFramesIn nf r2.tail
      if r3.head? != some "|" then none else
      let tolP := tols.getD 0 0; let tolV := tols.getD 1 0; let tolF := tols.getD 2 0
      let model := frames.map (mapFrame defs)
      let near := model.any fun fr => fr.any (·.2)
      let modelErr := model.any fun fr => fr.any fun (r, _) => match r with | .error _ => true | .ok _ => false
      let modelHalf := model.any fun fr => fr.any fun (r, _) => match r with | .error Err.halfBox => true | _ => false
      let tag := s!"erun:{fin}->{fout}:vel{vel}:force{frc}:{if modelErr then "rejected" else "mapped"}{if defs.any (·.ds.isSome) then ":d" else ""}{if defs.any (fun d => d.ws.any (· == 0)) then ":zero-weight" else ""}"
      if near then some ({ agree := true, propOk := true, msg := "", tag := "erun:near-limit" } : Verdict) else
      match r3.tail with
      | "ERR" :: kind :: _ =>
        -- a mapping definition the loader refuses (d coefficient on a zero weight, count mismatch) fails before any frame is read
        let defErr := defs.any fun d => match initWeights d.idx.length d.ws d.ds with | .error _ => true | .ok _ => false
        let ok := if defErr then kind != "halfbox" else (modelErr && (kind == "halfbox") == modelHalf)
        some ({ agree := ok, propOk := ok, msg := s!"csg_map failed ({kind}) but the model {if modelErr then "fails differently" else "maps every bead: nothing lies beyond half the shortest box height"}", tag := tag } : Verdict)
      | "OK" :: nfo :: r4 =>
        let nfOut ← nfo.toNat?
        let (outs, _) ← takeFramesOut nfOut r4
        if modelErr then some ({ agree := false, propOk := false, msg := "csg_map mapped a frame in which a parent lies beyond half the shortest box height from the first parent (EMAP-NOT-REJECTED)", tag := tag } : Verdict) else
        if nfOut != nf then some ({ agree := false, propOk := false, msg := s!"csg_map wrote {nfOut} frames for {nf} input frames (EMAP-FRAMES)", tag := tag } : Verdict) else
        let bad : List String := (model.zip outs).zipIdx.filterMap fun (((mf : List (Except Err CGBead × Bool)), (of : List Parent)), (fi : Nat)) =>
          if mf.length != of.length then some s!"frame {fi}: {of.length} beads written, {mf.length} defined" else
          ((mf.zip of).zipIdx.filterMap fun ((((m : Except Err CGBead), (_ : Bool)), (o : Parent)), (bi : Nat)) =>
            match m with
            | .error _ => none
            | .ok b =>
              let posOk := optClose b.pos o.pos tolP
              let velOk := if vel == "1" then optClose b.vel o.vel tolV else o.vel.isNone
              let frcOk := if frc == "1" && fout == "dump" then optClose b.frc o.frc (tolF * (1 + (match b.frc with | some f => absRat f.x + absRat f.y + absRat f.z | none => 0) / 1000)) else true
              if posOk && velOk && frcOk then none else some s!"frame {fi} bead {bi}: position={posOk} velocity={velOk} force={frcOk}").head?
        match bad.head? with
        | some m => some ({ agree := false, propOk := false, msg := "EMAP-VALUE " ++ m, tag := tag } : Verdict)
        | none => some ({ agree := true, propOk := true, msg := "", tag := tag } : Verdict)
      | _ => none
    | _ => none).getD (bad "erun fields")

def handle (args : List String) : Verdict :=
  match args with
  | "map" :: r => handleMap true r
  | "gmap" :: r => handleMap false r
  | "erun" :: r => handleRun r
  | _ => bad "unknown op"

end Driver.C01
