import Votca.Model.C06
/-! line-protocol handlers for C06 (core only) -/
namespace Driver.C06
open Votca Votca.C06

abbrev P := StateT (List String) Option
def tok : P String := fun l => match l with | [] => none | a :: r => some (a, r)
def nat : P Nat := do let t ← tok; (t.toNat? : Option Nat)
def rat : P Rat := do let m ← tok; let e ← tok; (parseRat2 m e : Option Rat)
def many {α} (p : P α) : Nat → P (List α)
  | 0 => pure []
  | k + 1 => do let a ← p; let r ← many p k; pure (a :: r)
def mat : P Mat := do let r ← nat; let c ← nat; let rows ← many (many rat c) r; pure rows
def vec : P C06.Vec := do let n ← nat; many rat n

def showR (r : Rat) : String := toString (Float.ofInt r.num / Float.ofNat r.den)

def chunk (n : Nat) (l : List Rat) : List (List Rat) := (List.range n).map fun i => (l.drop (i * n)).take n

def handleImc (args : List String) : Verdict :=
  let p : P Verdict := do
    let _sid ← tok
    let n ← nat
    let r ← rat
    let flat ← many rat (n * n)
    let b ← many rat n
    let xs ← many rat n
    let nr ← nat
    let ranges ← many (do let a ← nat; let c ← nat; pure (a, c)) nr
    let status ← tok
    let nt ← nat
    let tabs ← many (do let k ← nat; let rows ← nat; let vals ← many rat (2 * rows); pure (k, vals)) nt
    let extra ← nat
    let A : Mat := chunk n flat
    let sym := A == transpose A
    let tag := s!"imc-{if sym then "sym" else "nonsym"}-n{if n ≤ 2 then "small" else "big"}-{nr}tables"
    if status != "ok" then pure { agree := false, msg := "csg_imc_solve failed: " ++ status, tag := "imc-error" } else
    -- the written tables, in index order
    let xsOut := tabs.flatMap fun (_, vals) => (List.range (vals.length / 2)).map fun i => vals.getD (2 * i) 0
    let ysOut := tabs.flatMap fun (_, vals) => (List.range (vals.length / 2)).map fun i => vals.getD (2 * i + 1) 0
    let splitOk := consecutive 1 ranges && tabs.length == nr && extra == 0 &&
      (tabs.map fun (_, vals) => vals.length / 2) == (splitByIndex ranges xs).map List.length &&
      (xsOut.zip xs).all fun (a, c) => absRat (a - c) ≤ absRat c / 10 ^ 8
    if !splitOk || ysOut.length != n then
      pure { agree := false, propOk := false, msg := s!"IMC-SPLIT tables do not partition x by the index ranges (tables {tabs.length} of {nr}, extra {extra})", tag := tag } else
    -- property: the written x solves the regularised normal equations of the FILE's matrix
    let res := normalResidual A b r ysOut
    let At := transpose A
    let scale := maxAbs (mulVec At b) + (regularised A r).foldl (fun m row => m + maxAbs row) 0 * maxAbs ysOut
    let propOk : Bool := decide (maxAbs res ≤ scale / 10 ^ 7)
    -- correspondence: the exact solution (when the system is not too ill-conditioned for the 10 printed digits)
    let agree := match imcSolve A b r with
      | some x => propOk && ((x.zip ysOut).all fun (a, c) => absRat (a - c) ≤ (maxAbs x + 1) / 10 ^ 4) || !propOk && false
      | none => false
    pure { agree := agree, propOk := propOk, tag := tag,
           msg := if !propOk then s!"IMC-NORMAL-EQUATIONS residual {showR (maxAbs res)} (scale {showR scale}) for the matrix as written in the file; x = {ysOut.map showR}"
                  else "written x differs from the exact solution of (AᵀA + r)x = -Aᵀb" }
  match p.run args with
  | some (v, []) => v
  | _ => { agree := false, msg := "bad-line", tag := "bad" }

def handleKkt (args : List String) : Verdict :=
  let p : P Verdict := do
    let A ← mat
    let b ← vec
    let B ← mat
    let x ← vec
    let lam ← vec
    let feas := maxAbs (kktFeasibility B x)
    let stat := maxAbs (kktStationarity A b B x lam)
    let scale := 1 + maxAbs x * (A.foldl (fun m row => m + maxAbs row) 0) * (A.foldl (fun m row => m + maxAbs row) 0) + maxAbs b * (A.foldl (fun m row => m + maxAbs row) 0)
    let feasOk : Bool := decide (feas ≤ (1 + maxAbs x) / 10 ^ 9)
    let statOk : Bool := decide (stat ≤ scale / 10 ^ 8)
    pure { agree := true, propOk := feasOk && statOk, tag := s!"kkt-{if B.isEmpty then "free" else "constrained"}",
           msg := s!"KKT feasible={feasOk} ({showR feas}) stationary={statOk} ({showR stat})" }
  match p.run args with
  | some (v, []) => v
  | _ => { agree := false, msg := "bad-line", tag := "bad" }

def handle (args : List String) : Verdict :=
  match args with
  | "imc" :: rest => handleImc rest
  | "kkt" :: rest => handleKkt rest
  | "kkt-error" :: _ => { agree := false, propOk := false, msg := "KKT linalg_constrained_qrsolve threw on a well-posed problem", tag := "kkt-error" }
  | _ => { agree := false, msg := "bad-line", tag := "bad" }

end Driver.C06
