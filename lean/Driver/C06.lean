import Votca.Model.C06
import Votca.Model.C18
import Votca.Model.C06F
/-! line-protocol handlers for C06 (core only) -/
namespace Driver.C06
open Votca Votca.C06

abbrev P := StateT (List String) Option
def tok : P String := fun l => match l with | [] => none | a :: r => some (a, r)
def nat : P Nat := do let t ← tok; (t.toNat? : Option Nat)
def rat : P Rat := do let m ← tok; let e ← tok; (parseRat2 m e : Option Rat)
def many {α} (p : P α) : Nat → P (List α)
  | 0 => pure []
  | k + 1 => do let a ← p; let r ← many p k; pure (a :: r)
def mat : P Mat := do let r ← nat; let c ← nat; let rows ← many (many rat c) r; pure rows
def vec : P C06.Vec := do let n ← nat; many rat n

def showR (r : Rat) : String := toString (Float.ofInt r.num / Float.ofNat r.den)

def chunk (n : Nat) (l : List Rat) : List (List Rat) := (List.range n).map fun i => (l.drop (i * n)).take n

def handleImc (args : List String) : Verdict :=
  let p : P Verdict := do
    let _sid ← tok
    let n ← nat
    let r ← rat
    let flat ← many rat (n * n)
    let b ← many rat n
    let xs ← many rat n
    let nr ← nat
    let exprs ← many tok nr
    let status ← tok
    let nt ← nat
    let tabs ← many (do let k ← nat; let rows ← nat; let vals ← many rat (2 * rows); pure (k, vals)) nt
    let extra ← nat
    let A : Mat := chunk n flat
    let sym := A == transpose A
    let tag := s!"imc-{if sym then "sym" else "nonsym"}-n{if n ≤ 2 then "small" else "big"}-{nr}tables"
    if status != "ok" then pure { agree := false, msg := "csg_imc_solve failed: " ++ status, tag := "imc-error" } else
    -- the index file: every expression parsed and enumerated by the RangeParser model (C18), the rows it denotes in its order
    let idxs? := exprs.map fun h => ((Votca.unhex h).bind Votca.C18.parse).map fun bs => (Votca.C18.denote bs).map Int.toNat
    if idxs?.any Option.isNone then pure { agree := false, msg := "bad-line index expression", tag := "bad" } else
    let idxs : List (List Nat) := idxs?.map fun o => o.getD []
    if !isPartition n idxs then pure { agree := false, msg := "bad-line index expressions do not partition the rows", tag := "bad" } else
    let contiguous := idxs.all fun l => (l.zip (l.drop 1)).all fun (a, c) => c == a + 1
    let tag := tag ++ (if contiguous then "" else "-noncontiguous")
    -- table k must hold exactly the rows its expression denotes: the grid column says which rows were written
    let tabX := tabs.map fun (_, vals) => (List.range (vals.length / 2)).map fun i => vals.getD (2 * i) 0
    let tabY := tabs.map fun (_, vals) => (List.range (vals.length / 2)).map fun i => vals.getD (2 * i + 1) 0
    let splitOk := tabs.length == nr && extra == 0 &&
      (tabX.zip idxs).all fun (tx, idx) =>
        tx.length == idx.length && ((tx.zip (selectRows idx xs)).all fun (a, c) => absRat (a - c) ≤ absRat c / 10 ^ 8)
    if !splitOk then
      pure { agree := false, propOk := false, msg := s!"IMC-SPLIT table rows are not the rows the index expressions denote (tables {tabs.length} of {nr}, extra {extra}, expected rows {idxs})", tag := tag } else
    -- the solution vector in row order, gathered from the tables through the index lists
    let pairs := (idxs.zip tabY).flatMap fun (idx, ys) => idx.zip ys
    let ysOut : List Rat := (List.range n).map fun i => ((pairs.find? fun (j, _) => j == i + 1).map (·.2)).getD 0
    -- property: the written x solves the regularised normal equations of the FILE's matrix
    let res := normalResidual A b r ysOut
    let At := transpose A
    let scale := maxAbs (mulVec At b) + (regularised A r).foldl (fun m row => m + maxAbs row) 0 * maxAbs ysOut
    let propOk : Bool := decide (maxAbs res ≤ scale / 10 ^ 7)
    -- correspondence: the exact solution (when the system is not too ill-conditioned for the 10 printed digits)
    let agree := match imcSolve A b r with
      | some x => propOk && ((x.zip ysOut).all fun (a, c) => absRat (a - c) ≤ (maxAbs x + 1) / 10 ^ 4) || !propOk && false
      | none => false
    pure { agree := agree, propOk := propOk, tag := tag,
           msg := if !propOk then s!"IMC-NORMAL-EQUATIONS residual {showR (maxAbs res)} (scale {showR scale}) for the matrix as written in the file; x = {ysOut.map showR}"
                  else "written x differs from the exact solution of (AᵀA + r)x = -Aᵀb" }
  match p.run args with
  | some (v, []) => v
  | _ => { agree := false, msg := "bad-line", tag := "bad" }

def handleKkt (args : List String) : Verdict :=
  let p : P Verdict := do
    let A ← mat
    let b ← vec
    let B ← mat
    let x ← vec
    let lam ← vec
    let feas := maxAbs (kktFeasibility B x)
    let stat := maxAbs (kktStationarity A b B x lam)
    let scale := 1 + maxAbs x * (A.foldl (fun m row => m + maxAbs row) 0) * (A.foldl (fun m row => m + maxAbs row) 0) + maxAbs b * (A.foldl (fun m row => m + maxAbs row) 0)
    let feasOk : Bool := decide (feas ≤ (1 + maxAbs x) / 10 ^ 9)
    let statOk : Bool := decide (stat ≤ scale / 10 ^ 8)
    pure { agree := true, propOk := feasOk && statOk, tag := s!"kkt-{if B.isEmpty then "free" else "constrained"}",
           msg := s!"KKT feasible={feasOk} ({showR feas}) stationary={statOk} ({showR stat})" }
  match p.run args with
  | some (v, []) => v
  | _ => { agree := false, msg := "bad-line", tag := "bad" }

def handleFmatch (args : List String) : Verdict :=
  let p : P Verdict := do
    let _sid ← tok
    let n ← nat; let frames ← nat; let fpb ← nat; let cls ← nat
    let L ← rat
    let tm ← many (do let t ← nat; let m ← nat; pure (t, m)) n
    let nb ← nat
    let bonds ← many (do let a ← nat; let b ← nat; pure (a, b)) nb
    let na ← nat
    let angles ← many (do let a ← nat; let b ← nat; let c ← nat; pure (a, b, c)) na
    let nd ← nat
    let dihs ← many (do let a ← nat; let b ← nat; let c ← nat; let d ← nat; pure (a, b, c, d)) nd
    let ni ← nat
    let inters ← many (do
      let bd ← nat; let t1 ← nat; let t2 ← nat
      let mn ← rat; let mx ← rat; let st ← rat
      let k ← nat
      let star ← many rat k
      pure ({ bonded := bd ≥ 1, t1 := t1, t2 := t2, mn := mn, mx := mx, step := st, star := star, angle := bd == 2, dihedral := bd == 3 } : C06F.Inter)) ni
    let frT ← many (do
      let beads ← many (do
        let x ← rat; let y ← rat; let z ← rat; let fx ← rat; let fy ← rat; let fz ← rat
        pure ((⟨x, y, z⟩ : V3), (⟨fx, fy, fz⟩ : V3))) n
      let th ← many rat na
      let ph ← many rat nd
      pure (beads, th, ph)) frames
    let fr := frT.map (·.1)
    let thetasOf : Nat → List Rat := fun fi => (frT[fi]?.map (·.2.1)).getD []
    let phisOf : Nat → List Rat := fun fi => (frT[fi]?.map (·.2.2)).getD []
    let outTok ← tok
    if outTok != "OUT" then failure else
    let status ← tok
    let nt ← nat
    let tabs ← many (do let k ← nat; let rows ← nat; let vals ← many rat (2 * rows); pure (k, vals)) nt
    let sys : C06F.Sys := { L := L, types := tm.map (·.1), mols := tm.map (·.2), bonds := bonds, inters := inters, angles := angles, dihedrals := dihs }
    let tag := s!"fmatch-{if cls == 1 then "constrained" else "plain"}-{if frames / fpb > 1 then "blocks" else "oneblock"}{if nb > 0 then "-bonded" else ""}{if na > 0 then "-angles" else ""}{if nd > 0 then "-dihedrals" else ""}"
    -- only whole blocks are processed
    let nblocks := frames / fpb
    let used := fr.take (nblocks * fpb)
    -- every interval of every grid must be sampled in every block, otherwise the least-squares problem is not well posed
    let blocks := (List.range nblocks).map fun b => ((used.zipIdx.drop (b * fpb)).take fpb)
    let wellSampled := blocks.all fun blk => inters.all fun it =>
      let xs := C06F.gridOf it
      let rs := blk.flatMap fun (f, fi) => if it.dihedral then phisOf fi else if it.angle then thetasOf fi else (C06F.samples sys it (f.map (·.1))).map fun q => q.2.2.2
      (C06F.coverage xs rs).all fun c => c ≥ 3
    -- the angle witnesses must be the angles of the geometry: cos θ (30-term Taylor polynomial) against u·w/(|u||w|), and inside the grid
    let cosT (t : Rat) : Rat := ((List.range 30).foldl (fun (acc : Rat × Rat) (k : Nat) => (acc.1 + acc.2, -(acc.2 * t * t / (((2 * k + 1) * (2 * k + 2) : Nat) : Rat)))) (0, 1)).1
    let witnessOk := used.zipIdx.all fun (f, fi) =>
      let gs := C06F.angleGeoms sys (f.map (·.1))
      let th := thetasOf fi
      gs.length == th.length && (gs.zip th).all fun (g, t) => absRat (cosT t - g.c) ≤ 1 / 10 ^ 10 && 0 < t && t < 4
    -- dihedral witnesses: cosine against n1·n2/(|n1||n2|), sign against v1·(v2×v3)
    let dihOk := used.zipIdx.all fun (f, fi) =>
      let gs := C06F.dihGeoms sys (f.map (·.1))
      let ph := phisOf fi
      gs.length == ph.length && (gs.zip ph).all fun (g, t) => absRat (cosT t - g.c) ≤ 1 / 10 ^ 10 && absRat t < 4 && (t == 0 || (t < 0) == (g.sign < 0))
    let witnessOk := witnessOk && dihOk
    if !witnessOk then pure { agree := false, msg := "angle witnesses of the harness do not match the geometry", tag := "fmatch-bad-witness" } else
    -- sin θ close to zero: the gradient of the angle is singular (stretched or folded triples are not judged)
    let singular := used.any fun f => ((C06F.angleGeoms sys (f.map (·.1))).any fun g => g.sn < 1 / 20) ||
      ((C06F.dihGeoms sys (f.map (·.1))).any fun g => g.sn < 1 / 20 || g.m1 < 1 / 1000 || g.m2 < 1 / 1000 || absRat g.triple < 1 / 10 ^ 6)
    if singular then pure { tag := "fmatch-skip-singular-angle" } else
    if !wellSampled then pure { tag := "fmatch-skip-under-sampled" } else
    if status != "ok" then pure { agree := false, msg := "csg_fmatch failed: " ++ status, tag := "fmatch-error" } else
    if tabs.length != ni then pure { agree := false, propOk := false, msg := s!"FMATCH-TABLES {tabs.length} force tables written for {ni} interactions", tag := tag } else
    let splines := (inters.zip tabs).map fun (it, (_, vals)) =>
      let rows := vals.length / 2
      let xs := (List.range rows).map fun i => vals.getD (2 * i) 0
      let fs := (List.range rows).map fun i => -(vals.getD (2 * i + 1) 0)
      (C06F.gridOf it, xs, fs)
    let gridOk := splines.all fun (g, xs, _) => g.length == xs.length && (g.zip xs).all fun (a, b) => absRat (a - b) ≤ 1 / 10 ^ 9
    if !gridOk then pure { agree := false, propOk := false, msg := "FMATCH-GRID the x column of a force table is not the spline grid", tag := tag } else
    match splines.mapM (fun (g, _, fs) => (C06F.naturalF2 g fs).map fun f2 => (g, fs, f2)) with
    | none => pure { agree := false, msg := "natural spline system singular", tag := tag }
    | some tabsM =>
      let fmax := used.foldl (fun m f => f.foldl (fun m2 q => let a := absRat q.2.x + absRat q.2.y + absRat q.2.z; if m2 < a then a else m2) m) 1
      let bad := used.zipIdx.findSome? fun (f, fi) =>
        let pred := C06F.predict sys tabsM (f.map (·.1)) (thetasOf fi) (phisOf fi)
        ((pred.zip (f.map (·.2))).zipIdx.find? fun ((a, b), _) =>
          !(absRat (a.x - b.x) + absRat (a.y - b.y) + absRat (a.z - b.z) ≤ fmax / 10 ^ 5)).map fun ((a, b), bi) =>
            s!"frame {fi} bead {bi}: force from the written tables ({showR a.x},{showR a.y},{showR a.z}) reference ({showR b.x},{showR b.y},{showR b.z})"
      let starOk := (inters.zip tabsM).all fun (it, (_, fs, _)) =>
        let sc := it.star.foldl (fun m x => if m < absRat x then absRat x else m) 1
        (it.star.zip fs).all fun (a, b) => absRat (a - b) ≤ sc / 10 ^ 4
      pure { agree := bad.isNone && starOk, propOk := bad.isNone, tag := tag,
             msg := match bad with
               | some m => "FMATCH-FORCES " ++ m
               | none => "written tables differ from the generating functions although they reproduce the forces" }
  match p.run args with
  | some (v, []) => v
  | _ => { agree := false, msg := "bad-line", tag := "bad" }

def handle (args : List String) : Verdict :=
  match args with
  | "imc" :: rest => handleImc rest
  | "kkt" :: rest => handleKkt rest
  | "fmatch" :: rest => handleFmatch rest
  | "kkt-error" :: _ => { agree := false, propOk := false, msg := "KKT linalg_constrained_qrsolve threw on a well-posed problem", tag := "kkt-error" }
  | _ => { agree := false, msg := "bad-line", tag := "bad" }

end Driver.C06
