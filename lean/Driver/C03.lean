import Votca.Model.C03
import Driver.C02
/-! line-protocol handlers for C03 (core only) -/
namespace Driver.C03
open Votca Votca.C02 Votca.C03 Driver.C02

def bad (m : String) : Verdict := { agree := false, propOk := true, msg := "bad-line " ++ m, tag := "bad" }

structure BeadIn where
  type : Nat
  mol : Nat
  pos : V3

def takeBeads : Nat → List String → Option (List BeadIn × List String)
  | 0, l => some ([], l)
  | k + 1, ty :: mo :: rest => do
    let t ← ty.toNat?
    let m ← mo.toNat?
    let (p, r) ← takeV3 rest
    let (bs, r') ← takeBeads k r
    pure (⟨t, m, p⟩ :: bs, r')
  | _, _ => none

def takeNatPairs : Nat → List String → Option (List (Nat × Nat) × List String)
  | 0, l => some ([], l)
  | k + 1, a :: b :: rest => do
    let x ← a.toNat?
    let y ← b.toNat?
    let (ps, r) ← takeNatPairs k rest
    pure ((x, y) :: ps, r)
  | _, _ => none

structure PairOut where
  i : Nat
  j : Nat
  r : V3
  d : Rat

def takePairsOut : Nat → List String → Option (List PairOut × List String)
  | 0, l => some ([], l)
  | k + 1, a :: b :: rest => do
    let x ← a.toNat?
    let y ← b.toNat?
    let (r, r1) ← takeV3 rest
    let (d, r2) ← takeRats 1 r1
    let (ps, r3) ← takePairsOut k r2
    pure (⟨x, y, r, d.getD 0 0⟩ :: ps, r3)
  | _, _ => none

def takeCalls : Nat → List String → Option (List (Nat × Nat × Nat) × List String)
  | 0, l => some ([], l)
  | k + 1, a :: b :: c :: rest => do
    let x ← a.toNat?
    let y ← b.toNat?
    let z ← c.toNat?
    let (ps, r) ← takeCalls k rest
    pure ((x, y, z) :: ps, r)
  | _, _ => none

def norm2 (p : Nat × Nat) : Nat × Nat := if p.1 ≤ p.2 then p else (p.2, p.1)

def insertP (x : Nat × Nat) : List (Nat × Nat) → List (Nat × Nat)
  | [] => [x]
  | y :: ys => if x.1 < y.1 || (x.1 == y.1 && x.2 ≤ y.2) then x :: y :: ys else y :: insertP x ys
def sortP (l : List (Nat × Nat)) : List (Nat × Nat) := l.foldr insertP []

def lt3 (x y : Nat × Nat × Nat) : Bool := x.1 < y.1 || (x.1 == y.1 && (x.2.1 < y.2.1 || (x.2.1 == y.2.1 && x.2.2 ≤ y.2.2)))
def insertT (x : Nat × Nat × Nat) : List (Nat × Nat × Nat) → List (Nat × Nat × Nat)
  | [] => [x]
  | y :: ys => if lt3 x y then x :: y :: ys else y :: insertT x ys
def sortT (l : List (Nat × Nat × Nat)) : List (Nat × Nat × Nat) := l.foldr insertT []
def norm3 (t : Nat × Nat × Nat) : Nat × Nat × Nat := if t.2.1 ≤ t.2.2 then t else (t.1, t.2.2, t.2.1)

def images27 : List (Int × Int × Int) :=
  [-1, 0, 1].flatMap fun a => [-1, 0, 1].flatMap fun b => [-1, 0, 1].map fun c => (a, b, c)

/-- independent minimum-image distance: smallest of the 27 neighbouring images (valid below half the shortest height) -/
def dmin2 (B : Box) (u v : V3) : Rat :=
  let d := v - u
  -- bring the difference near the origin first (any lattice translate), then take the 27-neighbourhood minimum
  let d0 := micTri B V3.zero d
  images27.foldl (fun m (i, j, k) => let q := (d0 + B.lattice i j k).normSq; if q < m then q else m) d0.normSq

structure Ctx where
  B : Box
  rc : Rat
  beads : List BeadIn
  bonds : List (Nat × Nat)
  excl : Bool

def Ctx.pos (c : Ctx) (i : Nat) : V3 := (c.beads[i]?.map (·.pos)).getD V3.zero
def Ctx.mol (c : Ctx) (i : Nat) : Nat := (c.beads[i]?.map (·.mol)).getD 0
def Ctx.excluded (c : Ctx) (i j : Nat) : Bool := c.excl && excludedBy (c.bonds.map fun (a, b) => [a, b]) c.mol i j
def Ctx.ofType (c : Ctx) (t : Nat) : List Nat := (c.beads.zipIdx.filter (fun (b, _) => b.type == t)).map (·.2)
def Ctx.all (c : Ctx) : List Nat := List.range c.beads.length
def Ctx.closeSpec (c : Ctx) (i j : Nat) : Bool := dmin2 c.B (c.pos i) (c.pos j) < c.rc * c.rc
def Ctx.nearCut (c : Ctx) : Bool :=
  c.all.any fun i => c.all.any fun j => i < j && absRat (dmin2 c.B (c.pos i) (c.pos j) - c.rc * c.rc) ≤ (1 / 1000000000) * c.rc * c.rc

def parseCtx (args : List String) : Option (String × Nat × Ctx × List String) :=
  match args with
  | algo :: lists :: ex :: rest => do
    let nl ← lists.toNat?
    let (a, r1) ← takeV3 rest
    let (b, r2) ← takeV3 r1
    let (c, r3) ← takeV3 r2
    let (rc, r4) ← takeRats 1 r3
    let n ← r4.head? >>= String.toNat?
    let (beads, r5) ← takeBeads n r4.tail
    let nb ← r5.head? >>= String.toNat?
    let (bonds, r6) ← takeNatPairs nb r5.tail
    if r6.head? != some "|" then none else
    pure (algo, nl, ⟨⟨a, b, c⟩, rc.getD 0 0, beads, bonds, ex == "1"⟩, r6.tail)
  | _ => none

def handlePairs (exact : Bool) (args : List String) : Verdict :=
  match parseCtx args with
  | none => bad "pairs header"
  | some (algo, nl, c, rest) =>
    (do
      let np ← rest.head? >>= String.toNat?
      let (pairs, r1) ← takePairsOut np rest.tail
      let nc ← r1.head? >>= String.toNat?
      let (callsL, r2) ← takeCalls nc r1.tail
      if !r2.isEmpty then none else
      if !exact && c.nearCut then pure ({ tag := "pairs:skipped-near-cutoff" } : Verdict) else
      let bt := autoDetect c.B
      let l1 := if nl == 1 then c.all else c.ofType 0
      let l2 := if nl == 1 then c.all else c.ofType 1
      -- spec: unordered pairs within the cutoff (independent 27-image minimum), not excluded
      let spec : List (Nat × Nat) :=
        if nl == 1 then sortP ((c.all.flatMap fun i => (c.all.filter fun j => i < j && c.closeSpec i j && !c.excluded i j).map fun j => (i, j)))
        else sortP ((l1.flatMap fun i => (l2.filter fun j => c.closeSpec i j && !c.excluded i j).map fun j => norm2 (i, j)))
      -- model: the scan the code performs
      let closeM := fun i j => closeB bt c.B c.rc c.pos i j && !c.excluded i j
      let Ns := cellCounts c.B c.rc
      let cellM := fun i => cellOf c.B Ns (c.pos i)
      let cellsM := fun i => cellsFor Ns (cellM i)
      let modelRaw : List (Nat × Nat) :=
        if algo == "grid" then (if nl == 1 then gridPairs cellM cellsM closeM l1 else gridPairs2 cellM cellsM closeM l1 l2)
        else (if nl == 1 then brutePairs closeM l1 else (l1.flatMap fun i => (l2.filter fun j => closeM i j).map fun j => (i, j)))
      let model := sortP (modelRaw.map norm2)
      let impl := sortP (pairs.map fun (p : PairOut) => norm2 (p.i, p.j))
      -- hypotheses of `grid_exact`, validated on this concrete configuration
      let hyp := algo != "grid" || (c.all.all fun i => ((cellsM i).eraseDups.length == (cellsM i).length) &&
                   (c.all.all fun j => !(closeB bt c.B c.rc c.pos j i) || (cellsM i).contains (cellM j)))
      let agree := model == impl && hyp
      -- property predicates on the implementation's list and callback log
      let setOk := impl == spec
      let dupOk := impl.eraseDups.length == impl.length
      let callsU := sortP (callsL.map fun (q : Nat × Nat × Nat) => norm2 (q.1, q.2.1))
      let callOk := callsU == spec && callsL.all (fun (q : Nat × Nat × Nat) => q.2.2 == 1)
      let tol : Rat := if exact then 0 else 1 / 1000000000
      let vecOk := pairs.all fun (p : PairOut) =>
        let w := (c.pos p.j - c.pos p.i) - p.r
        let det := c.B.det
        let n1 := V3.dot w (V3.cross c.B.b c.B.c) / det
        let n2 := V3.dot w (V3.cross c.B.c c.B.a) / det
        let n3 := V3.dot w (V3.cross c.B.a c.B.b) / det
        (if exact then isIntR n1 && isIntR n2 && isIntR n3 else nearInt n1 (1 / 1000000) && nearInt n2 (1 / 1000000) && nearInt n3 (1 / 1000000)) &&
        absRat (p.r.normSq - dmin2 c.B (c.pos p.i) (c.pos p.j)) ≤ tol * (1 + p.r.normSq) &&
        absRat (p.d * p.d - p.r.normSq) ≤ (1 / 1000000000000) * (1 + p.r.normSq)
      let ok := setOk && dupOk && callOk && vecOk
      let nmax := max Ns.1 (max Ns.2.1 Ns.2.2)
      let nmin := min Ns.1 (min Ns.2.1 Ns.2.2)
      pure ({ agree := agree, propOk := ok,
              msg := if ok then (if hyp then s!"model {model.length} pairs" else "model cell lists violate the hypotheses of grid_exact")
                     else s!"set={setOk} nodup={dupOk} callbackOnce={callOk} vectors={vecOk} want={spec.take 12} got={impl.take 12}",
              tag := s!"pairs:{algo}:{nl}list{if c.excl then ":excl" else ""}:{match bt with | .tri => "tri" | .ortho => "ortho" | .open_ => "open"}:cells{min nmin 4}-{min nmax 4}:{if spec.isEmpty then "empty" else "pairs"}" } : Verdict)).getD (bad "pairs payload")

def takeTriples : Nat → List String → Option (List (Nat × Nat × Nat) × List String) := takeCalls

def handleTriples (exact : Bool) (args : List String) : Verdict :=
  match parseCtx args with
  | none => bad "triples header"
  | some (algo, nt, c, rest) =>
    (do
      let np ← rest.head? >>= String.toNat?
      let (tr, r1) ← takeTriples np rest.tail
      -- counting match function: number of invocations and number of distinct triples (centre, {j, k}) it was invoked for
      let cnt : Option (Nat × Nat) := match r1 with
        | ["|", a, b] => (do let x ← a.toNat?; let y ← b.toNat?; pure (x, y))
        | _ => none
      if !r1.isEmpty && cnt.isNone then none else
      if !exact && c.nearCut then pure ({ tag := "triples:skipped-near-cutoff" } : Verdict) else
      let bt := autoDetect c.B
      let l1 := if nt == 1 then c.all else c.ofType 0
      let l2 := if nt == 1 then c.all else c.ofType 1
      let l3 := if nt == 1 then c.all else if nt == 2 then c.ofType 1 else c.ofType 2
      let same := nt ≤ 2
      let spec := sortT ((bruteTriples c.closeSpec c.excluded l1 l2 l3 same).map norm3)
      let model := sortT ((bruteTriples (closeB bt c.B c.rc c.pos) c.excluded l1 l2 l3 same).map norm3)
      let impl := sortT (tr.map norm3)
      let setOk := impl == spec
      let dupOk := impl.eraseDups.length == impl.length
      -- "once each": the match function is invoked once per reported triple (and for nothing else)
      let callOk := match cnt with | some (ninv, ndist) => ninv == ndist && ndist == impl.length | none => true
      pure ({ agree := model == impl, propOk := setOk && dupOk && callOk,
              msg := if setOk && dupOk && callOk then "" else if setOk && dupOk then s!"TRIPLE-CALLBACK the match function was invoked {(cnt.getD (0, 0)).1} times for {(cnt.getD (0, 0)).2} distinct triples ({impl.length} stored): not once each"
                     else s!"set={setOk} storedOnce={dupOk} want={spec.take 8} got={impl.take 8}",
              tag := s!"triples:{algo}:{nt}type{if c.excl then ":excl" else ""}:{if spec.isEmpty then "empty" else "triples"}" } : Verdict)).getD (bad "triples payload")

def handle (args : List String) : Verdict :=
  -- exact iff the cutoff is a multiple of 1/32 with a small numerator (the exact stream); generic cases are judged with tolerances
  match args with
  | "pairs" :: r => handlePairs true r
  | "gpairs" :: r => handlePairs false r
  | "triples" :: r => handleTriples true r
  | "gtriples" :: r => handleTriples false r
  | _ => bad "unknown op"

end Driver.C03
