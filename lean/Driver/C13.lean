import Votca.Model.C13
/-! line-protocol handlers for C13 (core only) -/
namespace Driver.C13
open Votca Votca.C13

def bad (m : String) : Verdict := { agree := false, propOk := true, msg := "bad-line " ++ m, tag := "bad" }

/-- read `k` exact doubles (two tokens each) -/
def takeRats : Nat → List String → Option (List Rat × List String)
  | 0, l => some ([], l)
  | k + 1, m :: e :: rest => do
    let x ← parseRat2 m e
    let (xs, r) ← takeRats k rest
    pure (x :: xs, r)
  | _, _ => none

def pairs : List Rat → List (Rat × Rat)
  | v :: w :: rest => (v, w) :: pairs rest
  | _ => []

def close (a b tol : Rat) : Bool := absRat (a - b) ≤ tol * (1 + absRat a + absRat b)

def allClose (a b : List Rat) (tol : Rat) : Bool :=
  a.length == b.length && (a.zip b).all (fun (x, y) => close x y tol)

/-- spec-side histogram: add every value to the bin the property names -/
def specData (h : Hist) (s : List (Rat × Rat)) : List Rat :=
  s.foldl (fun acc vw => match specIndex h vw.1 with | some i => addAt acc i vw.2 | none => acc) (List.replicate h.n 0)

def specAccepted (h : Hist) (s : List (Rat × Rat)) : Rat :=
  (s.map (fun vw => match specIndex h vw.1 with | some _ => vw.2 | none => 0)).sum

def streamTag (h : Hist) (s : List (Rat × Rat)) : String :=
  let raws := s.map (fun vw => rawIndex h.min h.step vw.1)
  let per := if h.periodic then "periodic" else "plain"
  let far := raws.any (fun i => i < -(3 * (h.n : Int)) || i > 3 * (h.n : Int))
  let negmult := raws.any (fun i => i < 0 && i % (h.n : Int) == 0)
  let tie := s.any (fun vw => let x := (vw.1 - h.min) / h.step + 1 / 2; (x.floor : Rat) == x)
  s!"{per}{if negmult then ":neg-multiple-of-n" else ""}{if tie then ":tie" else ""}{if far then ":far" else ""}{if h.n = 1 then ":n1" else ""}"

def header (args : List String) : Option (Bool × Rat × Rat × Nat × Nat × List String) :=
  match args with
  | per :: m1 :: e1 :: m2 :: e2 :: n :: k :: rest => do
    let mn ← parseRat2 m1 e1
    let mx ← parseRat2 m2 e2
    let n' ← n.toNat?
    let k' ← k.toNat?
    pure (per == "1", mn, mx, n', k', rest)
  | _ => none

def handleStream (norm : Bool) (args : List String) : Verdict :=
  match header args with
  | some (per, mn, mx, n, k, rest) =>
    match takeRats (2 * k) rest with
    | some (vws, rest2) =>
      match takeRats n rest2 with
      | some (ys, []) =>
        let s := pairs vws
        let h0 := init mn mx n per
        let hm := s.foldl process h0
        let sd := specData h0 s
        -- periodic mode, value more than 2^44 bins away: `v - min` is no longer exact in double, the bin it lands in
        -- is a rounding artefact; only memory safety (the harness runs under ASan) and weight conservation are judged
        let farPeriodic := per && s.any (fun vw => let i := rawIndex mn h0.step vw.1; i < -17592186044416 || i > 17592186044416)
        if farPeriodic then
          if norm then { tag := "norm:periodic:far-inexact-safety-only" } else
          let ok := ys.sum == specAccepted h0 s
          { agree := ys.sum == hm.data.sum, propOk := ok, msg := if ok then "" else "weight not conserved",
            tag := "stream:periodic:far-inexact-sum-only" }
        else
        if norm then
          let m := (normalize hm).data
          let area := sumAbs sd * h0.step
          let want := sd.map (· / area)
          let integ := sumAbs ys * h0.step
          let ok := allClose want ys (1 / 1000000000) && close integ 1 (1 / 1000000000)
          { agree := allClose m ys (1 / 1000000000), propOk := ok,
            msg := if ok then "" else s!"normalised integral {integ} (want 1) or ratios changed",
            tag := "norm:" ++ streamTag h0 s }
        else
          let total := ys.sum
          let ok := sd == ys && total == specAccepted h0 s
          { agree := hm.data == ys, propOk := ok,
            msg := if ok then "" else s!"bins differ from nearest-centre/wrap spec: want {sd} got {ys}",
            tag := "stream:" ++ streamTag h0 s }
      | _ => bad "stream outputs (incomplete line = harness aborted inside the call)"
    | none => bad "stream values"
  | none => bad "stream header"

/-- generic doubles: one value, the implementation's own `step_` printed; cases within 1e-6 of a bin edge are skipped -/
def handleGstream (args : List String) : Verdict :=
  match header args with
  | some (per, mn, mx, n, _, rest) =>
    match takeRats 3 rest with
    | some ([stp, v, w], rest2) =>
      match takeRats n rest2 with
      | some (ys, []) =>
        let want := stepOf mn mx n per
        if !close stp want (1 / 1000000000000) then
          { agree := false, propOk := false, msg := s!"bin width {stp} but (max-min)/(n or n-1) = {want}", tag := "gstream:step" }
        else
          let h0 : Hist := init mn mx n per
          let x := (v - mn) / stp + 1 / 2
          let fr := x - (x.floor : Rat)
          let eps : Rat := (1 + absRat x) / 1000000
          if fr < eps || 1 - fr < eps then { tag := "gstream:skipped-near-edge" } else
          let i := rawIndex mn stp v
          let hh : Hist := { h0 with data := h0.data }
          -- same decisions as the model/spec but with the implementation's rounded step
          let mi : Option Nat :=
            if ¬ (-castLimit < i ∧ i < castLimit) then none
            else if i < 0 ∨ i ≥ (n : Int) then (if per then some (wrapCode i n).toNat else none) else some i.toNat
          let si : Option Nat :=
            if ¬ (-castLimit < i ∧ i < castLimit) then none
            else if per then some (i % (n : Int)).toNat else if 0 ≤ i ∧ i < (n : Int) then some i.toNat else none
          let md := match mi with | some j => addAt hh.data j w | none => hh.data
          let sd := match si with | some j => addAt hh.data j w | none => hh.data
          { agree := md == ys, propOk := sd == ys, msg := if sd == ys then "" else s!"want {sd} got {ys}",
            tag := if per then "gstream:periodic" else "gstream:plain" }
      | _ => bad "gstream outputs (incomplete line = harness aborted inside the call)"
    | _ => bad "gstream values"
  | none => bad "gstream header"

def dblMax : Rat := dyadic 9007199254740991 971
def listMin (l : List Rat) : Rat := l.foldl (fun m v => if v < m then v else m) (l.headD 0)
def listMax (l : List Rat) : Rat := l.foldl (fun m v => if m < v then v else m) (l.headD 0)

def handleLegacy (auto : Bool) (args : List String) : Verdict :=
  match header args with
  | some (per, mn, mx, n, k, rest) =>
    match takeRats k rest with
    | some (vs, rest2) =>
      match takeRats (n + 2) rest2 with
      | some (lo :: hi :: pdf, []) =>
        let (mlo, mhi) := if auto then autoRange vs dblMax (-dblMax) else (mn, mx)
        let mpdf := legacyPdf mlo mhi n per vs
        let rangeOk := if auto then lo == listMin vs && hi == listMax vs else lo == mn && hi == mx
        -- periodic mode, stated without the code's index arithmetic: the first and the last bin are the same point, so the range repeats with
        -- its length `max - min`; a value is moved by whole lengths into `[min - step/2, max - step/2)` and counted at the nearest centre
        let specPdf : List Rat :=
          let len := mhi - mlo
          let iv := len / ((n : Rat) - 1)
          let raw := vs.foldl (fun acc v =>
            let k := ((v - (mlo - iv / 2)) / len).floor
            let i := rawIndex mlo iv (v - (k : Rat) * len)
            if 0 ≤ i && i < (n : Int) then addAt acc i.toNat 1 else acc) (List.replicate n 0)
          let s := raw.headD 0 + raw.getLastD 0
          (raw.set 0 s).set (n - 1) s
        let wrapOk := !per || n < 2 || mhi ≤ mlo || pdf == specPdf
        { agree := mlo == lo && mhi == hi && mpdf == pdf, propOk := rangeOk && wrapOk,
          msg := if !rangeOk then s!"automatic range [{lo},{hi}] does not cover exactly the data [{listMin vs},{listMax vs}]"
                 else if !wrapOk && mpdf == pdf then s!"LEGACY-PERIODIC-WRAP-MOD-N-BINS the bin number of a value outside [{mlo},{mhi}] is reduced modulo n = {n} bins although first and last bin are the same point (period n - 1): bins {pdf}, expected {specPdf}"
                 else if !wrapOk then s!"LEGACY-PERIODIC-WRAP values outside [{mlo},{mhi}] are not wrapped modulo the length of the range: bins {pdf}, expected {specPdf}"
                 else s!"model range {mlo} {mhi} pdf {mpdf}",
          tag := (if auto then "legacy:auto" else "legacy:fixed") ++ (if vs.all (· < 0) then ":all-negative" else if vs.all (· > 0) then ":all-positive" else ":mixed") ++ (if per then ":periodic" else "") }
      | _ => bad "legacy outputs"
    | none => bad "legacy values"
  | none => bad "legacy header"

def handle (args : List String) : Verdict :=
  match args with
  | "stream" :: r => handleStream false r
  | "norm" :: r => handleStream true r
  | "gstream" :: r => handleGstream r
  | "legacy" :: r => handleLegacy true r
  | "legacyfix" :: r => handleLegacy false r
  | "legacynorm" :: scale :: mnm :: mne :: mxm :: mxe :: ns :: cs :: rest =>
    -- normalisation of the legacy class with the bond / angle scalings: sum times interval is one
    match parseRat2 mnm mne, parseRat2 mxm mxe, ns.toNat?, takeRats (ns.toNat?.getD 0) rest with
    | some mn, some mx, some n, some (pdf, []) =>
      let interval := (mx - mn) / ((n : Rat) - 1)
      let integral := pdf.sum * interval
      let allZero := pdf.all (· == 0)
      let ok := allZero || absRat (integral - 1) ≤ 1 / 10 ^ 9
      { agree := ok, propOk := ok, tag := s!"legacy-normalise-{scale}-{if cs.toNat?.getD 0 ≥ 2000 then "many" else "few"}",
        msg := s!"LEGACY-NORMALISE scale {scale}: the integral of the normalised histogram is {Float.ofInt integral.num / Float.ofNat integral.den}" }
    | _, _, _, _ => bad "legacynorm fields"
  | _ => bad "unknown op"

end Driver.C13
