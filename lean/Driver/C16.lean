import Votca.Model.C16
/-! line-protocol handlers for C16 (core only) -/
namespace Driver.C16
open Votca Votca.C16

def bad (m : String) : Verdict := { agree := false, propOk := true, msg := "bad-line " ++ m, tag := "bad" }

def takeIntsN : Nat → List String → Option (List Int × List String)
  | 0, l => some ([], l)
  | k + 1, a :: rest => do
    let x ← a.toInt?
    let (xs, r) ← takeIntsN k rest
    pure (x :: xs, r)
  | _, _ => none

def idxOf (ids : List Int) (v : Int) : Nat := (ids.findIdx? (· == v)).getD ids.length

def insertN (x : Nat) : List Nat → List Nat
  | [] => [x]
  | y :: ys => if x ≤ y then x :: y :: ys else y :: insertN x ys
def sortN (l : List Nat) : List Nat := l.foldr insertN []

def insertL (x : List Nat) : List (List Nat) → List (List Nat)
  | [] => [x]
  | y :: ys => if x.headD 0 ≤ y.headD 0 then x :: y :: ys else y :: insertL x ys
def sortL (l : List (List Nat)) : List (List Nat) := l.foldr insertL []

/-- independent layered shortest-path distances (spec): relax `n` times -/
def specDist (nbrs : Nat → List Nat) (n s : Nat) : List (Option Nat) :=
  let init : List (Option Nat) := (List.range n).map fun v => if v == s then some 0 else none
  (List.range n).foldl (fun d _ =>
    (List.range n).map fun v =>
      let cands := (nbrs v).filterMap fun u => (d.getD u none).map (· + 1)
      let best := cands.foldl (fun m c => match m with | none => some c | some x => some (min x c)) (d.getD v none)
      best) init

def takePartsN : Nat → List String → Option (List (List Int × Nat) × List String)
  | 0, l => some ([], l)
  | k + 1, sz :: rest => do
    let n ← sz.toNat?
    let (vs, r1) ← takeIntsN n rest
    match r1 with
    | ne :: r2 =>
      let m ← ne.toNat?
      let (ps, r3) ← takePartsN k r2
      pure ((vs, m) :: ps, r3)
    | _ => none
  | _, _ => none

def handleGraph (args : List String) : Verdict :=
  (do
    let n ← args.head? >>= String.toNat?
    let (ids, r1) ← takeIntsN n args.tail
    let m ← r1.head? >>= String.toNat?
    let (ev, r2) ← takeIntsN (2 * m) r1.tail
    let rec mkEdges : List Int → List (Nat × Nat)
      | a :: b :: rest => (idxOf ids a, idxOf ids b) :: mkEdges rest
      | _ => []
    let edges := mkEdges ev
    if r2.head? != some "|" then none else
    -- observed adjacency order
    let rec takeAdj : Nat → List String → Option (List (List Nat) × List String)
      | 0, l => some ([], l)
      | k + 1, dg :: rest => do
        let d ← dg.toNat?
        let (vs, r) ← takeIntsN d rest
        let (as', r') ← takeAdj k r
        pure (vs.map (idxOf ids) :: as', r')
      | _, _ => none
    let (adjL, r3) ← takeAdj n r2.tail
    if r3.head? != some "|" then none else
    let adj : Nat → List Nat := fun v => adjL.getD v []
    let nbrs : Nat → List Nat := fun v => (edges.filterMap fun (a, b) => if a == v then some b else if b == v then some a else none)
    let fuel := 2 * m + n + 2
    -- components
    let r4 := r3.tail
    let kparts ← r4.head?
    let (partsOk, r5) ← (if kparts == "X" then some (false, r4.tail) else do
        let k ← kparts.toNat?
        let (parts, r) ← takePartsN k r4.tail
        let implParts := sortL (parts.map fun (q : List Int × Nat) => sortN (q.1.map (idxOf ids)))
        let modelParts := sortL ((components adj n fuel).map sortN)
        let specParts := sortL ((components nbrs n (fuel + n)).map sortN)
        let edgeCountOk := parts.all fun (q : List Int × Nat) =>
          let idx := q.1.map (idxOf ids)
          q.2 == (edges.filter fun (a, b) => idx.contains a && idx.contains b).length
        pure (implParts == modelParts && implParts == specParts && edgeCountOk, r))
    if r5.head? != some "|" then none else
    let sn ← r5.tail.head? >>= String.toInt?
    let connected := (components nbrs n (fuel + n)).length == 1
    let isolated := (List.range n).any fun v => (nbrs v).isEmpty
    let snOk := sn == (if connected && !isolated then 1 else 0)
    let r6 := r5.tail.tail
    if r6.head? != some "|" then none else
    let ns ← r6.tail.head? >>= String.toNat?
    let rec takeD : Nat → List String → Option (List (Nat × List Int) × List String)
      | 0, l => some ([], l)
      | k + 1, s :: rest => do
        let sv ← s.toInt?
        let (ds, r) ← takeIntsN n rest
        let (more, r') ← takeD k r
        pure ((idxOf ids sv, ds) :: more, r')
      | _, _ => none
    let (dl, r7) ← takeD ns r6.tail.tail
    let distModelOk := dl.all fun (s, ds) =>
      let st := run adj fuel (init adj s)
      st.queue.isEmpty && ((List.range n).map fun v => match st.dist v with | some d => (d : Int) | none => (-1 : Int)) == ds
    let distSpecOk := dl.all fun (s, ds) =>
      ((specDist nbrs n s).map fun (o : Option Nat) => match o with | some d => (d : Int) | none => (-1 : Int)) == ds
    if r7.head? != some "|" then none else
    let redexp ← r7.tail.head?
    let r8a := r7.tail.tail
    if r8a.head? != some "|" || r8a.tail.head? != some "S" then none else
    -- structure id: labels as the real GraphNode prints them, the id of the graph and of its renumbered copy
    let hl : List (Option String) := (r8a.tail.tail.take n).map fun h => (unhex h).map String.ofList
    if hl.any Option.isNone || hl.length != n then none else
    let labs : List String := hl.map fun (o : Option String) => o.getD ""
    let r8b := r8a.tail.tail.drop n
    let idA ← (r8b.head? >>= unhex).map String.ofList
    let idB ← (r8b.tail.head? >>= unhex).map String.ofList
    let idModel := structIdStr adj (List.range n) (fun v => labs.getD v "") fuel
    -- independent statement of the same id: layered distances of the spec, insertion sort, maximum
    let idSpec := ((List.range n).filter fun s => (nbrs s).length == ((List.range n).map fun v => (nbrs v).length).foldl max 0).foldl
      (fun best s =>
        let ds := specDist nbrs n s
        let keys := (List.range n).map fun v => nodeKey (labs.getD v "") (ds.getD v none)
        let srt := keys.foldr (fun x acc => let rec ins : List String → List String
                                              | [] => [x]
                                              | y :: ys => if x ≤ y then x :: y :: ys else y :: ins ys
                                            ins acc) []
        let id := String.join srt
        if best < id then id else best) ""
    let sidModelOk := idA == idModel
    let sidOk := idA == idSpec && idB == idA
    let r8 := r8b.tail.tail
    if r8.head? != some "|" then none else
    let ideq ← r8.tail.head?
    let ok := partsOk && snOk && distSpecOk && redexp == "11" && (ideq == "10" || ideq == "-") && sidOk
    let cyc := m + (components nbrs n (fuel + n)).length - n
    -- the hypotheses of components_partition / bfs_terminates, decided on the observed adjacency lists
    let hypOk := ((List.range n).all fun v => (adj v).all fun x => decide (x < n) && (adj x).contains v) &&
      decide (((List.range n).map fun v => (adj v).length).sum ≤ fuel)
    if !hypOk then some ({ agree := false, propOk := true, msg := "observed adjacency lists are not closed/symmetric or exceed the fuel bound: the theorems' hypotheses are not met", tag := "graph:hyp-fail" } : Verdict) else
    pure ({ agree := distModelOk && partsOk && sidModelOk, propOk := ok,
            msg := if ok then "model labelling differs" else s!"components={partsOk} singleNetwork={snOk} distances={distSpecOk} reduceExpand={redexp} structureEquivalence={ideq} (want 10) structureId={sidOk} (the id is the largest sorted concatenation over the max-degree starts, and the renumbered copy has the same id)",
            tag := s!"graph:n{min n 13}:{if connected then "connected" else "disconnected"}:{if cyc == 0 then "forest" else if cyc == 1 then "one-ring" else "fused-rings"}" } : Verdict)).getD (bad "graph fields")

/-- one bead list of the `sep` op: `n (hexname mant exp)*` -/
def takeBeads : Nat → List String → Option (List (String × Rat) × List String)
  | 0, r => some ([], r)
  | k + 1, hn :: m :: e :: r => do
    let nm ← (unhex hn).map String.ofList
    let mi ← m.toInt?
    let ei ← e.toInt?
    let (more, r') ← takeBeads k r
    pure ((nm, dyadic mi ei) :: more, r')
  | _, _ => none

/-- is `a` a permutation of `b` (multisets of (name, mass) pairs, masses as exact rationals) -/
def sameMultiset (a b : List (String × Rat)) : Bool :=
  a.length == b.length && a.all (fun x => a.count x == b.count x)

/-- separation clause: "structures whose multisets of bead names and masses differ are reported as different" (and identical copies as equivalent) -/
def handleSep (args : List String) : Verdict :=
  match args with
  | kind :: na :: rest =>
    (do
      let n ← na.toNat?
      let (a, r1) ← takeBeads n rest
      let ma ← r1.head? >>= String.toNat?
      let r1' := r1.tail.drop (2 * ma)
      let nb ← r1'.head? >>= String.toNat?
      let (b, r2) ← takeBeads nb r1'.tail
      let mb ← r2.head? >>= String.toNat?
      let r2 := r2.tail.drop (2 * mb)
      match r2 with
      | ["=>", flag] =>
        let same := sameMultiset a b
        let want := if same then "1" else "0"
        let ok := flag == want
        pure ({ propOk := ok,
                msg := if ok then "" else if same then s!"C16-EQUIVALENCE kind={kind} identical structures (renumbered, reversed insertion) reported {flag}"
                       else s!"C16-SEPARATION kind={kind} the multisets of (name, mass) differ but the structures are reported equivalent ({flag})",
                tag := s!"sep:{(kind.splitOn ":").headD kind}:{if same then "same" else "differ"}" } : Verdict)
      | _ => none).getD (bad "sep payload")
  | _ => bad "sep arity"

def handle (args : List String) : Verdict :=
  match args with
  | "graph" :: r => handleGraph r
  | "sep" :: r => handleSep r
  | _ => bad "unknown op"

end Driver.C16
