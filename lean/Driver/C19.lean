import Votca.Model.C19
/-! line-protocol handlers for C19 (core only) -/
namespace Driver.C19
open Votca Votca.C19

abbrev P := StateT (List String) Option
def tok : P String := fun l => match l with | [] => none | a :: r => some (a, r)
def nat : P Nat := do let t ← tok; (t.toNat? : Option Nat)
def rat : P Rat := do let m ← tok; let e ← tok; (parseRat2 m e : Option Rat)
def chr : P Char := do let t ← tok; (t.toList.head? : Option Char)
def expect (s : String) : P Unit := do let t ← tok; if t == s then pure () else failure
def many {α} (p : P α) : Nat → P (List α)
  | 0 => pure []
  | k + 1 => do let a ← p; let r ← many p k; pure (a :: r)
def row : P Row := do let x ← rat; let y ← rat; let f ← chr; pure ⟨x, y, f⟩

/-- output rows: x, y (or the marker nanv), flag -/
def orow : P (Rat × Option Rat × Char) := do
  let x ← rat
  let t ← tok
  let e ← tok
  let f ← chr
  if t == "nanv" then pure (x, none, f) else
    match parseRat2 t e with
    | some y => pure (x, some y, f)
    | none => failure

def pOut : P (String × List (Rat × Option Rat × Char)) := do
  expect "|"
  let st ← tok
  let n ← nat
  let rows ← many orow n
  pure (st, rows)

def close (a b : Rat) : Bool := absRat (a - b) ≤ (absRat a + absRat b) / 10 ^ 11 + 1 / 10 ^ 13
def showR (r : Rat) : String := toString (Float.ofInt r.num / Float.ofNat r.den)

/-- compare an output table with expected (x, y, flag) rows -/
def cmp (what : String) (exp : List (Rat × Rat × Char)) (out : List (Rat × Option Rat × Char)) : Option String :=
  if exp.length != out.length then some s!"{what}: {out.length} rows written, {exp.length} expected" else
  ((exp.zip out).zipIdx.find? fun (((x, y, f), (x', y', f')), _) => !(close x x' && f == f' && (match y' with | some v => close y v | none => false))).map
    fun (((_, y, f), (_, y', f')), i) => s!"{what} row {i}: expected {showR y} {f}, written {(y'.map showR).getD "nan"} {f'}"

/-- `exp` to far below the comparison tolerance: argument halved until below 1/2, 30 Taylor terms, squared back -/
def expApprox (t : Rat) : Rat :=
  let s := (List.range 64).find? (fun k => absRat t / (2 ^ k : Nat) ≤ 1 / 2) |>.getD 64
  let u := t / (2 ^ s : Nat)
  let taylor := ((List.range 30).foldl (fun (acc : Rat × Rat) (k : Nat) => (acc.1 + acc.2, acc.2 * u / ((k : Rat) + 1))) (0, 1)).1
  -- keep the numbers small between the squarings: round to 40 significant binary digits beyond the magnitude
  let trim (q : Rat) : Rat := let sc : Rat := (2 : Rat) ^ (120 : Nat); ((q * sc).floor : Rat) / sc
  (List.range s).foldl (fun acc _ => trim (acc * acc)) (trim taylor)

/-- as `cmp`, with the tolerance of values that went through `exp` and products of large numbers (1e-9 relative) -/
def cmpTol (what : String) (exp : List (Rat × Rat × Char)) (out : List (Rat × Option Rat × Char)) : Option String :=
  let close9 (a b : Rat) : Bool := absRat (a - b) ≤ (absRat a + absRat b) / 10 ^ 9 + 1 / 10 ^ 12
  if exp.length != out.length then some s!"{what}: {out.length} rows written, {exp.length} expected" else
  ((exp.zip out).zipIdx.find? fun (((x, y, f), (x', y', f')), _) => !(close x x' && f == f' && (match y' with | some v => close9 y v | none => false))).map
    fun (((_, y, f), (_, y', f')), i) => s!"{what} row {i}: expected {showR y} {f}, written {(y'.map showR).getD "nan"} {f'}"

def verdict (tag : String) (st : String) (expOk : Bool) (e : Option String) : Verdict :=
  if st != "ok" then { agree := !expOk, propOk := !expOk, tag := tag ++ "-died", msg := s!"{tag}: the script died on an input the model accepts" }
  else if !expOk then { agree := false, propOk := false, tag := tag, msg := s!"{tag}: the script wrote a table where the model says it dies" }
  else match e with
    | none => { tag := tag }
    | some m => { agree := false, propOk := false, tag := tag, msg := m }

def handle (args : List String) : Verdict :=
  match args with
  | "ibi" :: _sid :: rest =>
    let p : P Verdict := do
      let kT ← rat; let n ← nat
      let pts ← many (do let x ← rat; let a ← rat; let c ← rat; let f ← chr; let lw ← rat; pure (x, ({ aim := a, cur := c, potFlag := f, lw := lw } : IbiIn))) n
      let (st, out) ← pOut
      let model := ibi kT (pts.map (·.2))
      let exp := (pts.zip model).map fun ((x, _), (d, f)) => (x, d, f)
      pure (verdict s!"IBI" st true (cmp "IBI" exp out))
    match p.run rest with | some (v, []) => v | _ => { agree := false, msg := "bad-line", tag := "bad" }
  | "binv" :: _sid :: typ :: rest =>
    let p : P Verdict := do
      let kT ← rat; let mn ← rat; let n ← nat
      let pts ← many (do let x ← rat; let d ← rat; let lw ← rat; pure (x, d, lw)) n
      let (st, out) ← pOut
      match binv kT mn (pts.map fun (_, d, lw) => (d, lw)) with
      | none => pure (verdict s!"BINV-{typ}" st false none)
      | some m =>
        let exp := (pts.zip m).map fun ((x, _, _), (y, f)) => (x, y, f)
        pure (verdict s!"BINV-{typ}" st true (cmp "BINV" exp out))
    match p.run rest with | some (v, []) => v | _ => { agree := false, msg := "bad-line", tag := "bad" }
  | "linop" :: _sid :: wf :: rest =>
    let p : P Verdict := do
      let a ← rat; let b ← rat; let n ← nat
      let rows ← many row n
      let (st, out) ← pOut
      let m := linop (if wf == "-" then none else wf.toList.head?) a b rows
      pure (verdict "LINOP" st true (cmp "LINOP" (m.map fun r => (r.x, r.y, r.flag)) out))
    match p.run rest with | some (v, []) => v | _ => { agree := false, msg := "bad-line", tag := "bad" }
  | "scale" :: _sid :: rest =>
    let p : P Verdict := do
      let p1 ← rat; let p2 ← rat; let n ← nat
      let rows ← many row n
      let (st, out) ← pOut
      pure (verdict "SCALE" st true (cmp "SCALE" ((scale p1 p2 rows).map fun r => (r.x, r.y, r.flag)) out))
    match p.run rest with | some (v, []) => v | _ => { agree := false, msg := "bad-line", tag := "bad" }
  | "shift" :: _sid :: typ :: rest =>
    let p : P Verdict := do
      let n ← nat
      let rows ← many row n
      let (st, out) ← pOut
      match shift (typ != "non-bonded") rows with
      | none => pure (verdict s!"SHIFT-{typ}" st false none)
      | some m => pure (verdict s!"SHIFT-{typ}" st true (cmp "SHIFT" (m.map fun r => (r.x, r.y, r.flag)) out))
    match p.run rest with | some (v, []) => v | _ => { agree := false, msg := "bad-line", tag := "bad" }
  | "smooth" :: _sid :: rest =>
    let p : P Verdict := do
      let n ← nat
      let rows ← many row n
      let (st, out) ← pOut
      pure (verdict "SMOOTH" st true (cmp "SMOOTH" ((smooth rows).map fun r => (r.x, r.y, r.flag)) out))
    match p.run rest with | some (v, []) => v | _ => { agree := false, msg := "bad-line", tag := "bad" }
  | "integrate" :: _sid :: frm :: rest =>
    let p : P Verdict := do
      let n ← nat
      let rows ← many row n
      let (st, out) ← pOut
      let m := if frm == "left" then integrateLeft 0 none rows else integrateRight rows
      pure (verdict s!"INTEGRATE-{frm}" st true (cmp "INTEGRATE" (m.map fun r => (r.x, r.y, r.flag)) out))
    match p.run rest with | some (v, []) => v | _ => { agree := false, msg := "bad-line", tag := "bad" }
  | "combine" :: _sid :: op :: rest =>
    let p : P Verdict := do
      let sc ← rat; let n ← nat
      let rows ← many (do let x ← rat; let y ← rat; let z ← rat; let f ← chr; pure ((⟨x, y, f⟩ : Row), (⟨x, z, f⟩ : Row))) n
      let (st, out) ← pOut
      let o := if op == "add" then CombOp.add else if op == "sub" then CombOp.sub else if op == "mul" then CombOp.mul else CombOp.dist
      pure (verdict s!"COMBINE-{op}" st true (cmp "COMBINE" ((combine o sc (rows.map (·.1)) (rows.map (·.2))).map fun r => (r.x, r.y, r.flag)) out))
    match p.run rest with | some (v, []) => v | _ => { agree := false, msg := "bad-line", tag := "bad" }
  | "extrap" :: _sid :: fn :: region :: fu :: rest =>
    let p : P Verdict := do
      let avg ← nat; let curv ← rat; let n ← nat
      let rows ← many row n
      let (st, out) ← pOut
      let f : ExFun := if fn == "constant" then .constant else if fn == "linear" then .linear else if fn == "quadratic" then .quadratic
                       else if fn == "sasha" then .sasha else if fn == "periodic" then .periodic else .exponential
      let o : ExOpts := { fn := f, avg := avg, curv := curv, left := region != "right", right := region != "left", flagUpdate := fu == "1" }
      match extrapolate o expApprox rows with
      | none => pure (verdict s!"EXTRAPOLATE-{fn}" st false none)
      | some m => pure (verdict s!"EXTRAPOLATE-{fn}-{region}" st true (cmpTol "EXTRAPOLATE" (m.map fun r => (r.x, r.y, r.flag)) out))
    match p.run rest with | some (v, []) => v | _ => { agree := false, msg := "bad-line", tag := "bad" }
  | _ => { agree := false, msg := "bad-line", tag := "bad" }

end Driver.C19
