import Votca.Model.C15
/-! line-protocol handlers for C15 (core only) -/
namespace Driver.C15
open Votca Votca.C15

abbrev P := StateT (List String) Option
def tok : P String := fun l => match l with | [] => none | a :: r => some (a, r)
def nat : P Nat := do let t ← tok; (t.toNat? : Option Nat)
def rat : P Rat := do let m ← tok; let e ← tok; (parseRat2 m e : Option Rat)
def many {α} (p : P α) : Nat → P (List α)
  | 0 => pure []
  | k + 1 => do let a ← p; let r ← many p k; pure (a :: r)
def q9 : P Q9 := do
  let l ← many rat 9
  pure ⟨l.getD 0 0, l.getD 1 0, l.getD 2 0, l.getD 3 0, l.getD 4 0, l.getD 5 0, l.getD 6 0, l.getD 7 0, l.getD 8 0⟩

def ratSqrt (q : Rat) : Rat :=
  if q ≤ 0 then 0 else ((Nat.sqrt (q.num.toNat * 10 ^ 40 / q.den) : Nat) : Rat) / (10 ^ 20 : Nat)
def s3 : Rat := ratSqrt 3
def showR (r : Rat) : String := toString (Float.ofInt r.num / Float.ofNat r.den)
def close (a b scale tol : Rat) : Bool := absRat (a - b) ≤ tol * scale

/-- unit vector from `p` to `q` and `1/R` -/
def geom (p q : List Rat) : Rat × Rat × Rat × Rat × Rat :=
  let d := (q.zip p).map fun (a, b) => a - b
  let R := ratSqrt ((d.map fun c => c * c).foldl (· + ·) 0)
  (d.getD 0 0 / R, d.getD 1 0 / R, d.getD 2 0 / R, 1 / R, R)

def absSum (A : Q9) : Rat := absRat A.q + absRat A.dx + absRat A.dy + absRat A.dz + absRat A.q20 + absRat A.q21c + absRat A.q21s + absRat A.q22c + absRat A.q22s

def handlePair (args : List String) : Verdict :=
  let p : P Verdict := do
    let ra ← nat; let rb ← nat
    let pa ← many rat 3; let pb ← many rat 3
    let QA ← q9; let QB ← q9
    let e12 ← rat; let e21 ← rat; let et ← rat; let er ← rat; let c1 ← rat; let c2 ← rat
    -- CalcStaticEnergy_site(A, B): a points from B (site2) to A (site1)
    let (x, y, z, f, R) := geom pb pa
    let model := energySite x y z f s3 ra rb QA QB
    -- scale: the largest multipole term of the pair
    let fm := if f < 1 then 1 else f
    let scale := (absSum (gate ra QA)) * (absSum (gate rb QB)) * f * fm * fm * fm * fm * 40 + 1 / 10 ^ 30
    let agree := close e12 model scale (1 / 10 ^ 10)
    let exch := close e12 e21 scale (1 / 10 ^ 10)
    let trans := close e12 et scale (1 / 10 ^ 8)
    let rot := close e12 er scale (1 / 10 ^ 9)
    -- Richardson extrapolation of the two cluster energies (error of a cluster ~ h²)
    let extrap := (4 * c2 - c1) / 3
    let clusterOk := close e12 extrap scale (1 / 10 ^ 4)
    let ok := exch && trans && rot && clusterOk
    pure { agree := agree, propOk := ok, tag := s!"pair-{ra}{rb}-{if R < 2 then "near" else if R < 20 then "mid" else "far"}",
           msg := if !ok then s!"EE-PAIR ranks {ra},{rb} R={showR R}: exchange={exch} ({showR e12} vs {showR e21}) translation={trans} rotation={rot} ({showR er}) pointCharges={clusterOk} ({showR extrap})"
                  else s!"energy differs from the model: impl {showR e12} model {showR model}" }
  match p.run args with
  | some (v, []) => v
  | _ => { agree := false, msg := "bad-line", tag := "bad" }

def handleField (args : List String) : Verdict :=
  let p : P Verdict := do
    let ra ← nat; let rb ← nat
    let pa ← many rat 3; let pb ← many rat 3
    let QA ← q9; let _QB ← q9
    let fld ← many rat 3
    let num ← many rat 3
    -- ApplyStaticField_site(site1 = A, site2 = P at pb): VSiteA(site2, site1), a from pb to pa
    let (x, y, z, f, _) := geom pb pa
    let (mx, my, mz) := fieldSite x y z f s3 ra QA
    let fm := if f < 1 then 1 else f
    let scale := absSum (gate ra QA) * f * f * fm * fm * 40 + 1 / 10 ^ 30
    let agree := close (fld.getD 0 0) mx scale (1 / 10 ^ 10) && close (fld.getD 1 0) my scale (1 / 10 ^ 10) && close (fld.getD 2 0) mz scale (1 / 10 ^ 10)
    let ok := (fld.zip num).all fun (a, b) => close a b scale (1 / 10 ^ 8)
    pure { agree := agree, propOk := ok, tag := s!"field-{ra}{rb}",
           msg := if !ok then s!"EE-FIELD ranks {ra},{rb}: accumulated field {fld.map showR} is not dE/d(dipole) {num.map showR}" else "field differs from the model" }
  match p.run args with
  | some (v, []) => v
  | _ => { agree := false, msg := "bad-line", tag := "bad" }

def handleThole (args : List String) : Verdict :=
  let p : P Verdict := do
    let pa ← many rat 3; let pb ← many rat 3
    let damp ← rat; let d1 ← rat; let d2 ← rat; let e ← rat
    let T ← many rat 9
    let T2 ← many rat 9
    let (x, y, z, f, R) := geom pa pb
    let au3 := damp * R * R * R * d1 * d2
    let model := (thole x y z f au3 e).flatten
    let scale := f * f * f
    let agree := (T.zip model).all fun (a, b) => close a b scale (1 / 10 ^ 9)
    let sym := (List.range 3).all fun i => (List.range 3).all fun j => close (T.getD (3 * i + j) 0) (T.getD (3 * j + i) 0) scale (1 / 10 ^ 12)
    let exch := (T.zip T2).all fun (a, b) => close a b scale (1 / 10 ^ 12)
    let trace := T.getD 0 0 + T.getD 4 0 + T.getD 8 0
    -- undamped (au3 ≥ 40): traceless and equal to (1 - 3 a aᵀ)/R³
    let undampedOk := au3 < 40 || (close trace 0 scale (1 / 10 ^ 10) && (T.zip ((thole x y z f 50 0).flatten)).all fun (a, b) => close a b scale (1 / 10 ^ 9))
    let ok := sym && exch && undampedOk
    pure { agree := agree, propOk := ok, tag := s!"thole-{if au3 < 40 then "damped" else "undamped"}",
           msg := if !ok then s!"EE-THOLE symmetric={sym} exchange={exch} undampedLimit={undampedOk} trace={showR trace}" else "Thole tensor differs from the model" }
  match p.run args with
  | some (v, []) => v
  | _ => { agree := false, msg := "bad-line", tag := "bad" }

/-- segments with sites of different ranks: the segment energy is the sum of the site-pair energies, whichever segment is passed first -/
def handleSeg (args : List String) : Verdict :=
  match args with
  | na :: nb :: rest =>
    match na.toNat?, nb.toNat? with
    | some nA, some nB =>
      let ranks := rest.take (nA + nB)
      match (rest.drop (nA + nB)) with
      | [m1, e1, m2, e2, m3, e3, m4, e4] =>
        match parseRat2 m1 e1, parseRat2 m2 e2, parseRat2 m3 e3, parseRat2 m4 e4 with
        | some eAB, some eBA, some esum, some sc =>
          let tol : Rat := 1 / 1000000000
          let ok := close eAB esum (sc + 1 / 1000000) tol && close eBA esum (sc + 1 / 1000000) tol
          let mixed := ranks.eraseDups.length > 1
          let msg := s!"SEGMENT-ENERGY ranks {ranks}: E(A,B) = {eAB}, E(B,A) = {eBA}, sum of the site-pair energies = {esum}"
          ({ agree := ok, propOk := ok, msg := msg, tag := s!"seg:{if mixed then "mixed-ranks" else "uniform-rank"}:{nA}x{nB}" } : Verdict)
        | _, _, _, _ => { agree := false, msg := "bad-line seg values", tag := "bad" }
      | _ => { agree := false, msg := "bad-line seg arity", tag := "bad" }
    | _, _ => { agree := false, msg := "bad-line seg header", tag := "bad" }
  | _ => { agree := false, msg := "bad-line seg", tag := "bad" }

def handle (args : List String) : Verdict :=
  match args with
  | "seg" :: rest => handleSeg rest
  | "pair" :: rest => handlePair rest
  | "field" :: rest => handleField rest
  | "thole" :: rest => handleThole rest
  | _ => { agree := false, msg := "bad-line", tag := "bad" }

end Driver.C15
