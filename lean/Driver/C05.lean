import Votca.Model.C05
import Votca.Model.C05Unord
/-! line-protocol handler for C05: replays the event trace of the real CsgApplication (under the controlled scheduler) on the
model's transition function and judges the property clauses on the trace itself. -/
namespace Driver.C05
open Votca

def bad (m : String) : Verdict := { agree := false, propOk := true, msg := "bad-line " ++ m, tag := "bad" }

structure Ev where
  tid : Nat
  kind : String
  arg : String
  deriving Repr

def parseEv (t : String) : Option Ev :=
  match t.splitOn ":" with
  | [a, k, r] => a.toNat?.map fun n => ⟨n, k, r⟩
  | _ => none

def roleIdx (pre r : String) : Option Nat := if r.startsWith pre then (r.drop pre.length).toString.toNat? else none

def framesOf (arg : String) : List Nat := ((arg.splitOn ",").drop 1).filterMap String.toNat?

/-! ## ordered mode -/
open Votca.C05 in
structure RS where
  s : S
  sawRead : Nat → Option (Option Nat)   -- per worker, in the current reader section: none = no read, some none = eof, some (some f)
  err : Option String

open Votca.C05 Votca.C05.PC in
def stepW (n F : Nat) (r : RS) (w : Nat) (what : String) : RS :=
  match r.err with
  | some _ => r
  | none => match step n F r.s w with
    | some s' => { r with s := s' }
    | none => { r with err := some s!"model: worker {w} cannot take the step for '{what}' (blocked or finished)" }

open Votca.C05 Votca.C05.PC in
def expectPc (r : RS) (w : Nat) (ok : PC → Bool) (what : String) : RS :=
  match r.err with
  | some _ => r
  | none => if ok (r.s.pc w) then r else { r with err := some s!"model: worker {w} is at {repr (r.s.pc w)} when the trace shows '{what}'" }

open Votca.C05 Votca.C05.PC in
def replayOrdered (n F off : Nat) (b : Option Nat) (evs : List Ev) : RS :=
  evs.foldl (fun r ev =>
    if ev.tid == 0 then r else
    let w := ev.tid - 1
    let what := s!"{ev.tid}:{ev.kind}:{ev.arg}"
    match ev.kind with
    | "B" => r
    | "E" => expectPc r w (· == done) what
    | "L" =>
      if ev.arg == "rd" then stepW n F (expectPc r w (· == wantReader) what) w what |> fun r' => { r' with sawRead := upd r'.sawRead w none }
      else match roleIdx "in" ev.arg, roleIdx "out" ev.arg with
        | some i, _ => if i == w then stepW n F (expectPc r w (· == wantIn) what) w what else { r with err := r.err <|> some s!"worker {w} locks In[{i}]" }
        | _, some i => if i == w then stepW n F (expectPc r w (fun p => match p with | wantOut _ => true | _ => false) what) w what else { r with err := r.err <|> some s!"worker {w} locks Out[{i}]" }
        | _, _ => { r with err := r.err <|> some ("unknown mutex " ++ ev.arg) }
    | "R" =>
      let r1 := expectPc r w (· == inReader) what
      { r1 with sawRead := upd r1.sawRead w (some (ev.arg.toNat?)) }
    | "U" =>
      if ev.arg == "rd" then
        -- body of the reader section, then the unlock
        let r1 := stepW n F (expectPc r w (· == inReader) what) w what
        let r2 := match r1.err with
          | some _ => r1
          | none =>
            match r1.s.pc w, r1.sawRead w with
            | gotFrame g, some (some f) => if f == g + off then r1 else { r1 with err := some s!"worker {w} read file frame {f}, the model expects {g + off}" }
            | gotFrame g, none => if g == 0 then r1 else { r1 with err := some s!"model expects a read of frame {g + off}, the trace shows none" }
            | gotFrame g, some none => { r1 with err := some s!"model expects frame {g + off}, the reader reported end of file" }
            | endUnlock, some (some f) => { r1 with err := some s!"worker {w} read frame {f} but the model ends here" }
            | _, _ => r1
        stepW n F r2 w what
      else match roleIdx "in" ev.arg, roleIdx "out" ev.arg with
        | some i, _ => if i == (w + 1) % n then stepW n F (expectPc r w (fun p => match p with | passIn _ => true | endPass => true | _ => false) what) w what else { r with err := r.err <|> some s!"worker {w} unlocks In[{i}]" }
        | _, some i => if i == (w + 1) % n then stepW n F (expectPc r w (· == passOut) what) w what else { r with err := r.err <|> some s!"worker {w} unlocks Out[{i}]" }
        | _, _ => { r with err := r.err <|> some ("unknown mutex " ++ ev.arg) }
    | "V" =>
      let f := ev.arg.toNat?.getD 0
      stepW n F (expectPc r w (fun p => match p with | eval g => g + off == f | _ => false) what) w what
    | "M" =>
      let fs := framesOf ev.arg
      stepW n F (expectPc r w (fun p => match p with | merging g => fs == [g + off] | _ => false) what) w what
    | _ => r) { s := init b, sawRead := fun _ => none, err := none }

/-! ## clauses judged on the trace itself -/

structure Obs where
  evals : List Nat := []
  merges : List Nat := []
  reads : List Nat := []
  rdHolder : Option Nat := none
  outHolder : List (Nat × Nat) := []   -- (mutex index, holder)
  violation : Option String := none

def observe (sync : Bool) (evs : List Ev) : Obs :=
  evs.foldl (fun (o : Obs) ev =>
    match ev.kind with
    | "L" =>
      if ev.arg == "rd" then (if o.rdHolder.isSome then { o with violation := o.violation <|> some "two threads inside the trajectory reader" } else { o with rdHolder := some ev.tid })
      else match roleIdx "out" ev.arg with
        | some i => { o with outHolder := (i, ev.tid) :: o.outHolder.filter (·.1 != i) }
        | none =>
          if ev.arg == "mg" then
            -- any mutex that is not the reader mutex or a ring token guards a merge: a second thread entering while one is inside is
            -- two threads in MergeWorker at once (also when each of them locked a mutex of its own)
            let o1 := if o.outHolder.any (fun (q : Nat × Nat) => q.1 == 1000 && q.2 != ev.tid) then { o with violation := o.violation <|> some "two threads inside the unordered merge section" } else o
            { o1 with outHolder := (1000, ev.tid) :: o1.outHolder.filter (·.1 != 1000) }
          else o
    | "U" =>
      if ev.arg == "rd" then { o with rdHolder := none }
      else match roleIdx "out" ev.arg with
        | some i => { o with outHolder := o.outHolder.filter (·.1 != i) }
        | none => if ev.arg == "mg" then { o with outHolder := o.outHolder.filter (·.1 != 1000) } else o
    | "R" =>
      if ev.tid == 0 then o else
      let o1 := if o.rdHolder == some ev.tid then o else { o with violation := o.violation <|> some s!"thread {ev.tid} reads a frame without holding the reader mutex" }
      match ev.arg.toNat? with
      | some f => { o1 with reads := o1.reads ++ [f] }
      | none => o1
    | "V" => { o with evals := o.evals ++ [ev.arg.toNat?.getD 0] }
    | "M" =>
      let holds := if sync then o.outHolder.any (fun (i, t) => t == ev.tid && i + 1 == ev.tid) else o.outHolder.any (fun (i, t) => i == 1000 && t == ev.tid)
      let o1 := if holds then o else { o with violation := o.violation <|> some s!"thread {ev.tid} merges without holding its merge mutex" }
      { o1 with merges := o1.merges ++ framesOf ev.arg }
    | _ => o) {}

def insertN (x : Nat) : List Nat → List Nat
  | [] => [x]
  | y :: ys => if x ≤ y then x :: y :: ys else y :: insertN x ys
def sortN (l : List Nat) : List Nat := l.foldr insertN []

open Votca.C05 in
def handleRun (args : List String) : Verdict :=
  match args with
  | sy :: nt :: fl :: bu :: fi :: "|" :: rest =>
    match nt.toNat?, fl.toNat?, bu.toInt?, fi.toNat? with
    | some n, some file, some bud, some first =>
      let evToks := rest.takeWhile (· != "|")
      let tail := (rest.dropWhile (· != "|")).drop 1
      let evs := evToks.filterMap parseEv
      let sync := sy == "1"
      let off := if first == 0 then 0 else first - 1
      let status := tail.headD "?"
      if file ≤ off then
        -- the first selected frame does not exist: the application must refuse to run
        { agree := status == "exc", propOk := status == "exc", msg := "trajectory shorter than --first-frame must be refused", tag := "run:too-short" }
      else
      let F := file - off
      let b : Option Nat := if bud < 0 then none else some bud.toNat
      let target := match b with | none => F | some r => min r F
      let sel := (List.range target).map (· + off)
      let o := observe sync evs
      let dead := status == "DEADLOCK"
      let mainReads := (evs.filter fun e => e.tid == 0 && e.kind == "R").length
      let tagBase := s!"run:{if sync then "ordered" else "unordered"}:nt{min n 8}:{if bud < 0 then "all" else if bud.toNat < F then "budget" else "budget-ge-F"}{if first > 1 then ":first" else ""}{if F < n then ":fewer-frames-than-threads" else ""}"
      if sync then
        let r := replayOrdered n F off b evs
        let finished := (List.range n).all fun i => r.s.pc i == PC.done
        let agree := r.err.isNone && !dead && status == "ok" && finished && r.s.mergeLog.map (· + off) == o.merges
        let evalOk := sortN o.evals == sel
        let mergeOk := o.merges == sel
        let readOk := o.reads == (sel.drop 1) ++ (if o.reads.length > (sel.drop 1).length then o.reads.drop (sel.drop 1).length else []) && o.reads.length ≤ sel.length
        let ok := !dead && status == "ok" && o.violation.isNone && evalOk && mergeOk && mainReads == off + 1
        { agree := agree, propOk := ok,
          msg := if ok then (r.err.getD "model and trace end in different states")
                 else s!"deadlock={dead} status={status} exclusion={o.violation.getD "ok"} eachFrameOnce={evalOk} mergedInOrder={mergeOk} (selected {sel}, evaluated {o.evals}, merged {o.merges}) readsInOrder={readOk}",
          tag := tagBase }
      else
        -- unordered mode: every selected frame evaluated exactly once and merged exactly once; no deadlock; reader exclusive
        let evalOk := sortN o.evals == sel
        let mergeOk := sortN o.merges == sortN o.evals
        let base := !dead && status == "ok" && o.violation.isNone && mergeOk
        -- recorded finding: with a budget the pre-read first frame can be skipped when another worker reads first
        let knownShape := bud ≥ 0 && !evalOk && !(o.evals.contains off) && o.evals.length == sel.length - 1 + (if o.evals.length == sel.length then 1 else 0)
        { agree := true, propOk := base && evalOk,
          msg := if base && evalOk then "" else if base && bud ≥ 0 && !(o.evals.contains off) then s!"UNORDERED-BUDGET-FIRST-FRAME-SKIPPED selected {sel} evaluated {sortN o.evals}"
                 else s!"deadlock={dead} status={status} exclusion={o.violation.getD "ok"} framesProcessed={evalOk} merged={mergeOk} (selected {sel}, evaluated {o.evals}, merged {o.merges}) {knownShape}",
          tag := tagBase }
    | _, _, _, _ => bad "run header"
  | _ => bad "run arity"

/-- executable leg: csg_stat --nt 1 against --nt k, every written file byte for byte (the harness compares; the verdict is the clause
    "output files are byte-identical to the single-thread run") -/
def handleEnrun (args : List String) : Verdict :=
  match args with
  | [sid, k, nf, block, rc1, rck, nfiles, ndiff, first] =>
    let fam := if sid.endsWith ":n" then "direct" else if sid.endsWith ":nd" then "direct-constant-box-dump" else if sid.endsWith ":md" then "mapped-constant-box-dump" else "mapped"
    let same := ndiff == "0" && rc1 == rck
    let name := match Votca.unhex first with | some cs => String.ofList cs | none => first
    { agree := same, propOk := same,
      msg := if same then "" else s!"CSGSTAT-NT csg_stat --nt {k} differs from --nt 1: exit codes {rc1}/{rck}, {ndiff} of {nfiles} files differ, first: {name}",
      tag := s!"enrun:{fam}:nt{k}:frames{nf}:{if block == "0" then "noblock" else "block"}:{if rc1 == "0" then "ok" else "error-exit"}" }
  | _ => bad "enrun arity"

def handle (args : List String) : Verdict :=
  match args with
  | "run" :: r => handleRun r
  | "enrun" :: r => handleEnrun r
  | _ => bad "unknown op"

end Driver.C05
