import Votca.Model.C20
/-! line-protocol handlers for C20 (core only): the generated tables against what the real code returns -/
namespace Driver.C20
open Votca Votca.C20 Votca.Gen.Units

def bad (m : String) : Verdict := { agree := false, propOk := true, msg := "bad-line " ++ m, tag := "bad" }

def tight (a b : Rat) : Bool := relClose a b (1 / 10000000000000)

def str (l : Option (List Char)) : String := String.ofList (l.getD [])

def handle (args : List String) : Verdict :=
  match args with
  | ["conv", dim, a, b, m, e] =>
    match parseRat2 m e with
    | none => bad "conv value"
    | some v =>
      let t := tableOf dim
      let g := conv t a b
      -- property on the implementation's value: base dimensions against SI/CODATA, derived ones against the quotient
      let ok :=
        match refBase.lookup dim with
        | some r => relClose v (conv r a b) tol4
        | none =>
          match derivedParts.find? (·.1 == dim) with
          | some d =>
            match d.2.2.2.lookup a, d.2.2.2.lookup b with
            | some (na, da), some (nb, db) => tight v (conv (tableOf d.2.1) na nb / conv (tableOf d.2.2.1) da db)
            | _, _ => false
          | none => false
      let back := tight (v * conv t b a) 1
      { agree := tight g v, propOk := ok && back,
        msg := if ok && back then s!"generated {g}" else s!"convert({dim}: {a} -> {b}) = {v} disagrees with the reference / the quotient of base conversions",
        tag := "conv:" ++ dim }
  | ["const", name, m, e] =>
    match parseRat2 m e with
    | none => bad "const value"
    | some v =>
      let ok1 := constOK name v
      let ok2 := crossOK1 name v
      { agree := tight (lookup constants name) v, propOk := ok1 && ok2,
        msg := if !ok1 then s!"conv::{name} = {v} is not the CODATA/SI value {(constRef.lookup name).getD 0} to four digits"
               else if !ok2 then s!"conv::{name} = {v} disagrees with unitconverter.h for the same quantity" else "",
        tag := "const" }
  | ["elem", hs, num, crg, m, e, hn, hf, hsh] =>
    match unhex hs, num.toNat?, crg.toInt?, parseRat2 m e with
    | some s, some n, some c, some mass =>
      let sym := String.ofList s
      let ok := elementOK sym n (c : Rat) mass (str (unhex hn)) (str (unhex hf)) (str (unhex hsh))
      let g := (elementNumber.lookup sym == some n) && tight ((elementMass.lookup sym).getD 0) mass &&
               ((nuclearCharge.lookup sym).getD 0 == (c : Rat)) && ((elementName.lookup n).getD "" == str (unhex hn)) &&
               ((elementFull.lookup sym).getD "?" == str (unhex hf))
      { agree := g, propOk := ok, msg := if ok then "" else s!"element {sym}: number {n}, charge {c}, mass {mass} inconsistent with the reference table",
        tag := "element" }
    | _, _, _, _ => bad "elem fields"
  | ["massback", hs, hb, assoc] =>
    let sym := str (unhex hs)
    let back := str (unhex hb)
    let ok := sym == back && assoc == "1"
    { agree := ok, propOk := ok, tag := "mass-lookup",
      msg := s!"ELEMENT-MASS-LOOKUP the element closest in mass to the mass of {sym} is reported as '{back}' (associated={assoc})" }
  | ["covrad", hs, am, ae, nmm, nme, bm, be] =>
    match unhex hs, parseRat2 am ae, parseRat2 nmm nme, parseRat2 bm be with
    | some s, some a, some n, some b =>
      -- the same radius in nm and bohr: the getter's factors against the reference values, to four significant digits
      let okNm := relClose n (a / 10) (1 / 10000)
      let okBohr := relClose b (a / bohrInAngstrom) (1 / 10000)
      let ok := 0 < a && okNm && okBohr
      { agree := ok, propOk := ok, tag := "covrad",
        msg := s!"COVRAD {String.ofList s}: {a} ang -> nm ok={okNm} bohr ok={okBohr}" }
    | _, _, _, _ => bad "covrad fields"
  | ["massprobe", mm, me, tm, te, hb, assoc] =>
    match parseRat2 mm me, parseRat2 tm te with
    | some m, some tol =>
      -- nearest tabulated mass (the generated table); refused exactly when it is farther than the tolerance
      let d := fun (x : Rat) => absRat (x - m)
      let best := elementMass.foldl (fun (acc : Option (String × Rat)) (kv : String × Rat) => match acc with
        | none => some kv
        | some b => if d kv.2 < d b.2 then some kv else some b) none
      let back := str (unhex hb)
      match best with
      | some (sym, bm) =>
        let far := d bm > tol
        let tie := (elementMass.filter fun kv => d kv.2 == d bm).length > 1
        -- the code compares doubles: a distance within 1e-9 of the tolerance is decided by rounding and not judged
        let edge := absRat (d bm - tol) ≤ 1 / 1000000000
        let ok := edge || (if far then back == "!" && assoc == "0" else (tie || back == sym) && back != "!" && assoc == "1")
        let msg := s!"ELEMENT-MASS-PROBE mass {m} (tolerance {tol}): nearest tabulated mass is {sym} at distance {d bm}; reported '{back}', associated={assoc}"
        ({ agree := ok, propOk := ok, msg := msg, tag := if far then "mass-probe:refuse" else "mass-probe:accept" } : Verdict)
      | none => bad "empty mass table"
    | _, _ => bad "massprobe fields"
  | ["place", hl, kind, m, e] =>
    match parseRat2 m e with
    | none => bad "place value"
    | some v =>
      let ok := placeOK kind v
      let label := str (unhex hl)
      let msg := s!"UNIT-PLACE {label}: effective factor {v} is not the {kind} conversion {(placeRef kind).getD 0} to four digits"
      ({ agree := ok, propOk := ok, msg := msg, tag := "place:" ++ kind } : Verdict)
  | ["placeerr", hl, hw] =>
    let msg := s!"the probe file for {str (unhex hl)} was refused: {str (unhex hw)}"
    ({ agree := false, propOk := true, msg := msg, tag := "place:refused" } : Verdict)
  | _ => bad "unknown op"

end Driver.C20
