import Votca.Model.C07
import Votca.Model.C02
/-! line-protocol handlers for C07 (core only) -/
namespace Driver.C07
open Votca Votca.C07

abbrev P := StateT (List String) Option
def tok : P String := fun l => match l with | [] => none | a :: r => some (a, r)
def nat : P Nat := do let t ← tok; (t.toNat? : Option Nat)
def rat : P Rat := do let m ← tok; let e ← tok; (parseRat2 m e : Option Rat)
def many {α} (p : P α) : Nat → P (List α)
  | 0 => pure []
  | k + 1 => do let a ← p; let r ← many p k; pure (a :: r)
def vec : P (Vec Rat) := do let x ← rat; let y ← rat; let z ← rat; pure ⟨x, y, z⟩

/-- rational square root to about 20 digits -/
def ratSqrt (q : Rat) : Rat :=
  if q ≤ 0 then 0 else ((Nat.sqrt (q.num.toNat * 10 ^ 40 / q.den) : Nat) : Rat) / (10 ^ 20 : Nat)

/-- Taylor polynomial of the cosine (30 terms; |x| ≤ 4) -/
def cosRat (x : Rat) : Rat :=
  let x2 := x * x
  ((List.range 30).foldl (fun (acc : Rat × Rat) k =>
      let term := acc.2
      (acc.1 + term, -term * x2 / (((2 * k + 1) * (2 * k + 2) : Nat) : Rat))) (0, 1)).1

def vabs (v : Vec Rat) : Rat := absRat v.x + absRat v.y + absRat v.z
def vclose (a b : Vec Rat) (tol : Rat) : Bool := vabs (a.sub b) ≤ tol * (1 + vabs a + vabs b)
def close (a b tol : Rat) : Bool := absRat (a - b) ≤ tol * (1 + absRat a + absRat b)
def toV3 (v : Vec Rat) : V3 := ⟨v.x, v.y, v.z⟩
def ofV3 (v : V3) : Vec Rat := ⟨v.x, v.y, v.z⟩
def vsum (l : List (Vec Rat)) : Vec Rat := l.foldl Vec.add ⟨0, 0, 0⟩
def showR (r : Rat) : String := toString (Float.ofInt r.num / Float.ofNat r.den)
def showV (v : Vec Rat) : String := s!"({showR v.x},{showR v.y},{showR v.z})"

def handleIa (args : List String) : Verdict :=
  let p : P Verdict := do
    let kind ← nat
    let nb := kind + 2
    let a ← vec; let b ← vec; let c ← vec
    let pos ← many vec nb
    let val ← rat
    let g ← many vec nb
    let gn ← many vec nb
    let val2 ← rat
    let g2 ← many vec nb
    let rot ← nat
    let val3 ← rat
    let g3 ← many vec nb
    let box : Box := ⟨toV3 a, toV3 b, toV3 c⟩
    let bt := C02.autoDetect box
    let dist := fun (i j : Nat) => ofV3 (C02.mic bt box (toV3 (pos.getD i ⟨0, 0, 0⟩)) (toV3 (pos.getD j ⟨0, 0, 0⟩)))
    let btTag := if box.isZero then "open" else if box.isDiagonal then "ortho" else "tric"
    let kindTag := if kind = 0 then "bond" else if kind = 1 then "angle" else "dihedral"
    let tag := s!"ia-{kindTag}-{btTag}"
    -- the model: value (as a relation) and gradients
    let (valOk, model, singular) : Bool × List (Vec Rat) × Bool :=
      if kind = 0 then
        let r := dist 0 1
        let n := ratSqrt (r.dot r)
        (close (val * val) (r.dot r) (1 / 10 ^ 9), [bondGrad 0 r n, bondGrad 1 r n], n < 1 / 100)
      else if kind = 1 then
        let v1 := dist 1 0
        let v2 := dist 1 2
        let n1 := ratSqrt (v1.dot v1)
        let n2 := ratSqrt (v2.dot v2)
        let cc := v1.dot v2 / (n1 * n2)
        let s := ratSqrt (1 - cc * cc)
        (close (cosRat val) cc (1 / 10 ^ 9) && 0 ≤ val && val ≤ 4,
         [angleGrad 0 v1 v2 n1 n2 s, angleGrad 1 v1 v2 n1 n2 s, angleGrad 2 v1 v2 n1 n2 s], s < 1 / 20 || n1 < 1 / 100 || n2 < 1 / 100)
      else
        let v1 := dist 0 1
        let v2 := dist 1 2
        let v3 := dist 2 3
        let n1 := v1.cross v2
        let n2 := v2.cross v3
        let m1 := ratSqrt (n1.dot n1)
        let m2 := ratSqrt (n2.dot n2)
        let cc := n1.dot n2 / (m1 * m2)
        let s := ratSqrt (1 - cc * cc)
        let sign : Rat := if v1.dot n2 < 0 then -1 else 1
        (close (cosRat val) cc (1 / 10 ^ 9) && (val == 0 || (val < 0) == (sign < 0)),
         (List.range 4).map (fun bead => dihedralGrad (0 : Rat) 1 bead v1 v2 v3 m1 m2 s sign),
         s < 1 / 20 || m1 < 1 / 1000 || m2 < 1 / 1000 || absRat (v1.dot n2) < 1 / 10 ^ 6)
    if singular then pure { tag := "ia-near-singular" } else
    let tolM : Rat := 1 / 10 ^ 8
    let agree := valOk && (g.zip model).all fun (x, y) => vclose x y tolM
    -- property predicates on the implementation's output
    let scale := (g.map vabs).foldl (· + ·) 1
    let numOk := (g.zip gn).all fun (x, y) => vabs (x.sub y) ≤ scale / 10 ^ 5
    let sumOk : Bool := decide (vabs (vsum g) ≤ scale / 10 ^ 9)
    let imgOk := close val val2 (1 / 10 ^ 9) && (g.zip g2).all fun (x, y) => vabs (x.sub y) ≤ scale / 10 ^ 8
    let rigidOk := close val val3 (1 / 10 ^ 9) && (g.zip g3).all fun (x, y) => vabs (x.sub y) ≤ scale / 10 ^ 8
    let ok := numOk && sumOk && imgOk && rigidOk
    let firstBad := ((g.zip gn).zipIdx.find? fun ((x, y), _) => !(vabs (x.sub y) ≤ scale / 10 ^ 5)).map fun ((x, y), i) => s!"bead {i}: Grad {showV x} numerical {showV y}"
    pure { agree := agree, propOk := ok, tag := tag ++ (if rot = 1 then "-rot" else ""),
           msg := if !ok then s!"GRAD-{kindTag.toUpper} numeric={numOk} sumZero={sumOk} imageInvariant={imgOk} rigidInvariant={rigidOk} {firstBad.getD ""}"
                  else s!"value or Grad differs from the model: valueOk={valOk} model bead0 {showV (model.getD 0 ⟨0,0,0⟩)} impl {showV (g.getD 0 ⟨0,0,0⟩)}" }
  match p.run args with
  | some (v, []) => v
  | _ => { agree := false, msg := "bad-line", tag := "bad" }

def lclose (a b : List Rat) (tol : Rat) : Bool := a.length == b.length && (a.zip b).all fun (x, y) => close x y tol
def symmetric (n : Nat) (m : List Rat) : Bool :=
  (List.range n).all fun i => (List.range n).all fun j => m.getD (i * n + j) 0 == m.getD (j * n + i) 0

def pairs : List Rat → List (Rat × Rat)
  | a :: b :: r => (a, b) :: pairs r
  | _ => []

def handlePot (form : String) (args : List String) : Verdict :=
  let n := if form == "lj126" then 2 else 5
  let p : P Verdict := do
    let lam ← many rat n
    let mn ← rat; let cut ← rat; let r ← rat
    let E ← (if form == "ljg" then rat else pure 0)
    let F ← rat
    let DF ← many rat n
    let D2 ← many rat (n * n)
    let nDF ← many rat n
    let nD2 ← many rat (n * n)
    let (mF, mDF, mD2) := if form == "lj126" then lj126 lam mn cut r else ljg lam mn cut r E
    let tol : Rat := 1 / 10 ^ 9
    let agree := close F mF tol && lclose DF mDF tol && lclose D2 mD2 tol
    let sc := 1 + (DF.map absRat).foldl (· + ·) 0 + (D2.map absRat).foldl (· + ·) 0
    -- at the two ends of the range the one-sided numerical derivative is not the derivative: judged inside only
    let inside := mn < r && r < cut || r < mn || cut < r
    let numOk := !inside || ((DF.zip nDF).all (fun (x, y) => absRat (x - y) ≤ sc / 10 ^ 5) && (D2.zip nD2).all (fun (x, y) => absRat (x - y) ≤ sc / 10 ^ 4))
    let symOk := symmetric n D2
    -- SavePotTab (lj126 lines only)
    let (tabOk, tabMsg) : Bool × String ← (if form == "lj126" then do
        let step ← rat; let rmin ← rat; let rcut ← rat; let k ← nat
        let rows ← many rat (2 * k)
        let pts := pairs rows
        let wantN := ((rcut - rmin) / step + 100000001 / 100000000).floor.toNat
        let xsOk := (pts.zipIdx.all fun ((x, _), i) => if i + 1 == pts.length then close x rcut (1 / 10 ^ 8) else close x (rmin + (i : Rat) * step) (1 / 10 ^ 8))
        -- "the tabulated potential equals the function on the requested grid": row i carries the value at the REQUESTED point (rmin + i step,
        -- the last row at rcut) — not at the re-read abscissa, which the 6-digit table format may move across the cutoff, where the function
        -- drops to zero.  An interior requested point within 1e-9 of the cutoff is not judged (the accumulated abscissa of the code decides).
        let ysOk := pts.zipIdx.all fun ((_, y), i) =>
          let want := if i + 1 == pts.length then rcut else rmin + (i : Rat) * step
          (i + 1 != pts.length && absRat (want - cut) ≤ 1 / 10 ^ 9) || close y (lj126 lam mn cut want).1 (1 / 10 ^ 6)
        pure (k == wantN && xsOk && ysOk, s!"rows={k}/{wantN} grid={xsOk} values={ysOk}")
      else pure (true, ""))
    let ok := numOk && symOk && tabOk
    pure { agree := agree, propOk := ok, tag := "pot-" ++ form ++ (if inRange mn cut r then "" else "-outside"),
           msg := if !ok then s!"POT-{form.toUpper} numericDerivatives={numOk} D2Fsymmetric={symOk} table={tabOk} {tabMsg}" else "CalculateF/DF/D2F differ from the translated formulas" }
  match p.run args with
  | some (v, []) => v
  | _ => { agree := false, msg := "bad-line", tag := "bad" }

def handleCbspl (args : List String) : Verdict :=
  let p : P Verdict := do
    let nlam ← nat
    let mn ← rat; let cut ← rat
    let lam ← many rat nlam
    let r ← rat
    let nopt ← nat
    let F ← rat
    let DF ← many rat nopt
    let nDF ← many rat nopt
    let d2 ← rat
    let nexcl := nlam - 4 - nopt
    let c : Cbspl := { nlam := nlam, mn := mn, cut := cut, nexcl := nexcl }
    let exclOk := nexcl == c.nexclBase || nexcl == c.nexclBase + 1
    let tol : Rat := 1 / 10 ^ 9
    let mDF := (List.range nopt).map fun i => c.DF i r
    let agree := exclOk && close F (c.F lam r) tol && lclose DF mDF tol
    let numOk := (DF.zip nDF).all fun (x, y) => absRat (x - y) ≤ 1 / 10 ^ 6
    let ok := numOk && d2 == 0
    pure { agree := agree, propOk := ok, tag := if r ≤ cut then "pot-cbspl" else "pot-cbspl-outside",
           msg := if !ok then s!"POT-CBSPL numericDerivatives={numOk} D2Fzero={decide (d2 = 0)}" else s!"cubic B-spline value or derivative differs from the model (nexcl {nexcl}, base {c.nexclBase})" }
  match p.run args with
  | some (v, []) => v
  | _ => { agree := false, msg := "bad-line", tag := "bad" }

def handle (args : List String) : Verdict :=
  match args with
  | "ia" :: rest => handleIa rest
  | "ia-singular" :: _ => { tag := "ia-singular-skipped" }
  | "lj126" :: rest => handlePot "lj126" rest
  | "ljg" :: rest => handlePot "ljg" rest
  | "cbspl" :: rest => handleCbspl rest
  | "cbspl-rejected" :: _ => { tag := "pot-cbspl-rejected" }
  | "splder-rejected" :: _ => { tag := "spline-rejected" }
  | "splder" :: ty :: per :: lastI :: rest =>
    -- the reported derivative against the five-point derivative of the reported values (the pieces are cubics at most: exact up to rounding)
    match (many rat 8).run rest with
    | some ([_r, h, sc, der, vm2, vm1, vp1, vp2], []) =>
      let num := (vm2 - 8 * vm1 + 8 * vp1 - vp2) / (12 * h)
      let ok := absRat (der - num) ≤ sc / 10 ^ 6
      let nm := if ty == "0" then "linear" else if ty == "1" then "cubic" else "akima"
      { agree := ok, propOk := ok, tag := s!"spline-derivative-{nm}{if per == "1" then "-periodic" else ""}{if lastI == "1" then "-last-interval" else ""}",
        msg := s!"SPLINE-DERIVATIVE {nm}: CalculateDerivative reports {showR der}, the values around the point have derivative {showR num}" }
    | _ => { agree := false, msg := "bad-line", tag := "bad" }
  | _ => { agree := false, msg := "bad-line", tag := "bad" }

end Driver.C07
