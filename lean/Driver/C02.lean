import Votca.Model.C02
/-! line-protocol handlers for C02 (core only) -/
namespace Driver.C02
open Votca Votca.C02

def bad (m : String) : Verdict := { agree := false, propOk := true, msg := "bad-line " ++ m, tag := "bad" }

def takeRats : Nat → List String → Option (List Rat × List String)
  | 0, l => some ([], l)
  | k + 1, m :: e :: rest => do
    let x ← parseRat2 m e
    let (xs, r) ← takeRats k rest
    pure (x :: xs, r)
  | _, _ => none

def takeV3 (l : List String) : Option (V3 × List String) := do
  let (xs, r) ← takeRats 3 l
  match xs with
  | [a, b, c] => pure (⟨a, b, c⟩, r)
  | _ => none

def typeOfChar (c : String) : Option BoxType :=
  if c == "P" then some .open_ else if c == "O" then some .ortho else if c == "T" then some .tri else none

def vclose (a b : V3) (tol : Rat) : Bool := absRat (a.x - b.x) ≤ tol && absRat (a.y - b.y) ≤ tol && absRat (a.z - b.z) ≤ tol

def isIntR (q : Rat) : Bool := q.den == 1
def nearInt (q tol : Rat) : Bool := absRat (q - ((q + 1 / 2).floor : Rat)) ≤ tol

/-- distance of `q` to the nearest half-integer `k + 1/2` -/
def halfDist (q : Rat) : Rat := absRat (q - 1 / 2 - ((q).floor : Rat)) 

/-- the three rounding arguments of the model computation (to detect ties) -/
def roundArgs (t : BoxType) (B : Box) (ri rj : V3) : List Rat :=
  let r := rj - ri
  match t with
  | .open_ => []
  | .ortho => [r.x / B.a.x, r.y / B.b.y, r.z / B.c.z]
  | .tri =>
    let k3 := r.z / B.c.z
    let rdp := r - ((roundHA k3 : Rat) * B.c)
    let k2 := rdp.y / B.b.y
    let rsp := rdp - ((roundHA k2 : Rat) * B.b)
    [k3, k2, rsp.x / B.a.x]

def images : List (Int × Int × Int) :=
  [-2, -1, 0, 1, 2].flatMap fun a => [-2, -1, 0, 1, 2].flatMap fun b => [-2, -1, 0, 1, 2].map fun c => (a, b, c)

def handleMic (exact : Bool) (args : List String) : Verdict :=
  match args with
  | ty :: rest =>
    (do
      let (a, r1) ← takeV3 rest
      let (b, r2) ← takeV3 r1
      let (c, r3) ← takeV3 r2
      let (ri, r4) ← takeV3 r3
      let (rj, r5) ← takeV3 r4
      let (rjs, r6) ← takeV3 r5
      match r6 with
      | na :: nb :: nc :: it :: r7 =>
        let _ := (na, nb, nc)
        let (d, r8) ← takeV3 r7
        let (dsw, r9) ← takeV3 r8
        let (dsh, r10) ← takeV3 r9
        let (vh, r11) ← takeRats 2 r10
        if !r11.isEmpty then none else
        let implT ← typeOfChar it
        let B : Box := ⟨a, b, c⟩
        let wantT : BoxType := if ty == "A" then autoDetect B else (typeOfChar ty).getD BoxType.open_
        let vol := vh.getD 0 0
        let h := vh.getD 1 0
        let tol : Rat := if exact then 0 else 1 / 1000000000
        let args1 := roundArgs wantT B ri rj
        let args2 := roundArgs wantT B ri rjs
        let argsSw := roundArgs wantT B rj ri
        let tieTol : Rat := if exact then 0 else 1 / 10000000
        let tie := (args1 ++ args2 ++ argsSw).any (fun q => halfDist q ≤ tieTol)
        let m := mic wantT B ri rj
        let msw := mic wantT B rj ri
        let msh := mic wantT B ri rjs
        let typeOk := implT == wantT
        let agree := typeOk && (if !exact && tie then true else vclose m d tol && vclose msw dsw tol && vclose msh dsh tol)
        -- property predicates on the implementation's vectors
        let r := rj - ri
        let w := r - d
        let det := B.det
        let latticeOk :=
          if wantT == BoxType.open_ then vclose d r tol
          else if det == 0 then true
          else
            let n1 := V3.dot w (V3.cross B.b B.c) / det
            let n2 := V3.dot w (V3.cross B.c B.a) / det
            let n3 := V3.dot w (V3.cross B.a B.b) / det
            if exact then isIntR n1 && isIntR n2 && isIntR n3 else nearInt n1 (1 / 1000000) && nearInt n2 (1 / 1000000) && nearInt n3 (1 / 1000000)
        let antiOk : Bool := vclose dsw (-d) tol || (!exact && tie)
        let shiftOk : Bool := if wantT == BoxType.tri && !B.isUpperTriangular then true else if tie then (wantT != BoxType.ortho || absRat (dsh.normSq - d.normSq) ≤ tol * 100) else vclose dsh d (tol * 10)
        let dn := d.normSq
        let shortest : Bool := images.all fun (i, j, k) => dn ≤ (d + B.lattice i j k).normSq + tol * 100
        let minImg := images.foldl (fun mn (i, j, k) => let q := (d + B.lattice i j k).normSq; if q < mn then q else mn) dn
        let shortOk :=
          match wantT with
          | .open_ => true
          | .ortho => if 0 < B.a.x && 0 < B.b.y && 0 < B.c.z then shortest else true
          | .tri => if reduced B && minImg < minHeightSq B / 4 - tol * 100 then shortest else true
        let volOk : Bool := absRat (vol - volume B) ≤ (1 / 1000000000000) * (1 + volume B)
        let hOk : Bool := wantT == BoxType.open_ || det ≤ 0 || absRat (h * h - minHeightSq B) ≤ (1 / 100000000000) * (1 + minHeightSq B)
        let ok := typeOk && latticeOk && antiOk && shiftOk && shortOk && volOk && hOk
        let tname := match wantT with | .open_ => "open" | .ortho => "ortho" | .tri => if reduced B then "tri-reduced" else if B.isUpperTriangular then "tri-other" else "general-cell"
        let far := (args1).any (fun q => absRat q > 100)
        pure ({ agree := agree, propOk := ok,
                msg := if ok then s!"model {m.x} {m.y} {m.z}" else s!"type={typeOk} lattice={latticeOk} antisym={antiOk} shift={shiftOk} shortest={shortOk} volume={volOk} height={hOk}",
                tag := s!"{if exact then "mic" else "gmic"}:{tname}{if ty == "A" then "" else ":explicit"}{if tie then ":tie" else ""}{if far then ":far" else ""}" } : Verdict)
      | _ => none).getD (bad "mic fields")
  | _ => bad "mic arity"

def handle (args : List String) : Verdict :=
  match args with
  | "mic" :: r => handleMic true r
  | "gmic" :: r => handleMic false r
  -- the same quantities through the bead-index route `Topology::getDist(i, j)` (what IBond / IAngle / IDihedral call)
  | "micb" :: r => let v := handleMic true r; { v with tag := v.tag ++ ":by-bead-index" }
  | "gmicb" :: r => let v := handleMic false r; { v with tag := v.tag ++ ":by-bead-index" }
  | _ => bad "unknown op"

end Driver.C02
