import Votca.Model.C12R
import Votca.Model.C06F
/-! line-protocol handler for the csg_resample runs of C12 (core only) -/
namespace Driver.C12R
open Votca Votca.C12 Votca.C12R

abbrev P := StateT (List String) Option
def tok : P String := fun l => match l with | [] => none | a :: r => some (a, r)
def nat : P Nat := do let t ← tok; (t.toNat? : Option Nat)
def rat : P Rat := do let m ← tok; let e ← tok; (parseRat2 m e : Option Rat)
def chr : P Char := do let t ← tok; (t.toList.head? : Option Char)
def many {α} (p : P α) : Nat → P (List α)
  | 0 => pure []
  | k + 1 => do let a ← p; let r ← many p k; pure (a :: r)
def row : P (Rat × Rat × Char) := do let x ← rat; let y ← rat; let f ← chr; pure (x, y, f)

def showR (r : Rat) : String := toString (Float.ofInt r.num / Float.ofNat r.den)
def close (a b scale : Rat) : Bool := absRat (a - b) ≤ (scale + absRat a + absRat b) / 10 ^ 8

def handle (args : List String) : Verdict :=
  let p : P Verdict := do
    let _sid ← tok
    let kindS ← tok; let per ← nat; let n ← nat
    let rows ← many row n
    let mn ← rat; let mx ← rat; let st ← rat
    let bar ← tok
    if bar != "|" then failure else
    let status ← tok
    let no ← nat
    let out ← many row no
    let nd ← nat
    let der ← many row nd
    let xs := rows.map (·.1); let ys := rows.map (·.2.1); let fl := rows.map (·.2.2)
    let kind := if kindS == "linear" then Kind.linear else if kindS == "cubic" then Kind.cubic else Kind.akima
    let grid := outGrid mn mx st
    let mode := if grid.length == n && (grid.zip xs).all (fun (a, b) => absRat (a - b) ≤ 1 / 10 ^ 9) then "same" else if st < (nth xs 1 - nth xs 0) then "finer" else "other"
    let tag := s!"resample-{kindS}{if per == 1 then "-periodic" else ""}-{mode}"
    -- Akima's degenerate-slope test is a floating-point threshold: straight stretches are not compared
    let slopes := (List.range (n - 1)).map fun i => (nth ys (i + 1) - nth ys i) / (nth xs (i + 1) - nth xs i)
    let degenerate := kind == Kind.akima && (slopes.zip slopes.tail).any fun (a, b) => a == b
    if degenerate then pure { tag := "resample-akima-degenerate-skipped" } else
    if status != "ok" then pure { agree := false, msg := "csg_resample failed on an input the model accepts", tag := "resample-error" } else
    match eval kind (per == 1) xs ys with
    | none => pure { agree := false, msg := "natural cubic system singular", tag := tag }
    | some f =>
      let scale := 1 + (ys.foldl (fun m y => if m < absRat y then absRat y else m) 0)
      let dscale := scale / (List.foldl (fun m (i : Nat) => let h := nth xs (i + 1) - nth xs i; if h < m then h else m) 1 (List.range (n - 1)))
      let flags := outFlags xs fl grid
      let gridOk := no == grid.length && nd == grid.length && (grid.zip out).all (fun (g, (x, _, _)) => absRat (g - x) ≤ 1 / 10 ^ 9)
      if !gridOk then pure { agree := false, propOk := false, msg := s!"RESAMPLE-GRID {no} rows written, {grid.length} expected", tag := tag } else
      let valBad := (grid.zip out).zipIdx.find? fun ((g, (_, y, _)), _) => !close y (f g).1 scale
      -- the derivative of a linear spline jumps at the knots: one-sided there, not compared
      let atKnot := fun (g : Rat) => kind == Kind.linear && xs.any fun x => absRat (x - g) ≤ 1 / 10 ^ 8
      let derBad := (grid.zip der).zipIdx.find? fun ((g, (_, d, _)), _) => !atKnot g && !close d (f g).2 (dscale * 10)
      -- an output point that meets the first input abscissa only up to rounding (grids reaching further left) is decided by
      -- a comparison of doubles without tolerance in the code: not judged
      let edge := fun (xo : Rat) => mode != "same" && absRat (xo - nth xs 0) ≤ 1 / 10 ^ 9
      let flagBad := (flags.zip (out.zip der)).zipIdx.find? fun ((e, ((xo, _, a), (_, _, b))), _) => !edge xo && !(e == a && e == b)
      -- the property clauses directly: on the input grid an interpolating spline returns the input values and flags
      let knotBad := (xs.zip (ys.zip fl)).find? fun (x, y, f0) => out.any fun (xo, yo, fo) => absRat (xo - x) ≤ 1 / 10 ^ 10 && !edge xo && !(close yo y scale && fo == f0)
      let ok := valBad.isNone && derBad.isNone && flagBad.isNone && knotBad.isNone
      pure { agree := ok, propOk := ok, tag := tag,
             msg := if knotBad.isSome then s!"RESAMPLE-KNOT the output at an input abscissa is not the input value / flag"
                    else match valBad, derBad, flagBad with
                      | some ((g, (_, y, _)), i), _, _ => s!"RESAMPLE-VALUE row {i} x={showR g}: written {showR y}, spline {showR (f g).1}"
                      | _, some ((g, (_, d, _)), i), _ => s!"RESAMPLE-DERIVATIVE row {i} x={showR g}: written {showR d}, derivative of the spline {showR (f g).2}"
                      | _, _, some ((e, ((_, _, a), _)), i) => s!"RESAMPLE-FLAG row {i}: written {a}, expected {e}"
                      | _, _, _ => "" }
  match p.run args with
  | some (v, []) => v
  | _ => { agree := false, msg := "bad-line", tag := "bad" }

/-- fit mode: data sampled from a natural cubic spline on the fit grid; `csg_resample --fitgrid` has to return that spline on the output grid
    ("a spline fit reproduces any function that already lies in the spline space") -/
def handleFit (args : List String) : Verdict :=
  let p : P Verdict := do
    let _sid ← tok
    let nk ← nat
    let knots ← many (do let x ← rat; let y ← rat; pure (x, y)) nk
    let fmn ← rat; let fmx ← rat; let fst ← rat
    let omn ← rat; let omx ← rat; let ost ← rat
    let bar0 ← tok
    -- optional boundary token (`nat` / `dz`) before the bar
    let bc := if bar0 == "|" then "nat" else bar0
    let bar ← (if bar0 == "|" then pure "|" else tok)
    if bar != "|" then failure else
    let status ← tok
    let no ← nat
    let out ← many row no
    let it : C06F.Inter := { bonded := false, t1 := 0, t2 := 0, mn := fmn, mx := fmx, step := fst, star := [] }
    let g := C06F.gridOf it
    if g.length != nk || !((g.zip (knots.map (·.1))).all fun (a, b) => absRat (a - b) ≤ 1 / 10 ^ 9) then
      pure { agree := false, msg := "fit grid of the harness is not Spline::GenerateGrid", tag := "resfit-bad-grid" } else
    if status != "ok" then pure { agree := false, propOk := false, msg := "RESAMPLE-FIT csg_resample --fitgrid failed on data from the spline space", tag := "resfit" } else
    match (if bc == "dz" then C06F.clampedF2 g (knots.map (·.2)) else C06F.naturalF2 g (knots.map (·.2))) with
    | none => pure { agree := false, msg := "spline system singular", tag := "resfit" }
    | some f2 =>
      let grid := outGrid omn omx ost
      let sc := (knots.map (·.2)).foldl (fun m y => if m < absRat y then absRat y else m) 1
      let bad := if grid.length != no then some s!"{no} rows written, {grid.length} expected" else
        ((grid.zip out).zipIdx.find? fun ((x, (x', y', _)), _) =>
          !(absRat (x - x') ≤ 1 / 10 ^ 9 && absRat (C12.cubicCalc g (knots.map (·.2)) f2 x - y') ≤ sc / 10 ^ 6)).map fun ((x, (_, y', _)), i) =>
            s!"row {i} (x = {showR x}): fitted value {showR y'}, the generating spline has {showR (C12.cubicCalc g (knots.map (·.2)) f2 x)}"
      pure { agree := bad.isNone, propOk := bad.isNone, tag := s!"resfit-{bc}-{nk}knots-{if ost < fst then "finer" else "same"}",
             msg := "RESAMPLE-FIT the fit does not reproduce a function of the spline space: " ++ bad.getD "" }
  match p.run args with
  | some (v, []) => v
  | _ => { agree := false, msg := "bad-line", tag := "bad" }

end Driver.C12R
