import Votca.Model.C12
import Driver.C12R
/-! line-protocol handlers for C12 (core only) -/
namespace Driver.C12
open Votca Votca.C12

def bad (m : String) : Verdict := { agree := false, propOk := true, msg := "bad-line " ++ m, tag := "bad" }

def takeRats : Nat → List String → Option (List Rat × List String)
  | 0, l => some ([], l)
  | k + 1, m :: e :: rest => do
    let x ← parseRat2 m e
    let (xs, r) ← takeRats k rest
    pure (x :: xs, r)
  | _, _ => none

def close (a b tol : Rat) : Bool := absRat (a - b) ≤ tol * (1 + absRat a + absRat b)
def tol : Rat := 1 / 100000000

def triples : List Rat → List (Rat × Rat × Rat)
  | a :: b :: c :: rest => (a, b, c) :: triples rest
  | _ => []

def maxAbs (l : List Rat) : Rat := l.foldl (fun m x => if m < absRat x then absRat x else m) 0

def handleCubic (args : List String) : Verdict :=
  match args with
  | per :: ns :: rest =>
    (do
      let n ← ns.toNat?
      let (xs, r1) ← takeRats n rest
      let (ys, r2) ← takeRats n r1
      let (f2, r3) ← takeRats n r2
      let k ← r3.head? >>= String.toNat?
      let (ev, r4) ← takeRats (3 * k) r3.tail
      if !r4.isEmpty then none else
      let periodic := per == "1"
      let pts := triples ev
      let scale := 1 + maxAbs ys + maxAbs f2
      -- correspondence: Calculate / CalculateDerivative are the generated basis functions applied to the implementation's f2
      let agree := pts.all fun (r, v, d) => close (cubicCalc xs ys f2 r) v tol && close (cubicDeriv xs ys f2 r) d tol
      -- property clauses, evaluated exactly on the implementation's coefficients
      let interior := (List.range (n - 2)).all fun i => absRat (rowResidual xs ys f2 i) ≤ tol * scale   -- = first-derivative jump at knot i+1
      let (b0, b1) := boundaryResiduals periodic xs ys f2
      let natural := absRat b0 ≤ tol * scale && absRat b1 ≤ tol * scale
      let knots := (List.range n).all fun i => (pts.all fun (r, v, _) => r != nth xs i || close v (nth ys i) tol)
      let contin := (List.range (n - 2)).all fun i => close (cubicCalcAt xs ys f2 i (nth xs (i + 1))) (cubicCalcAt xs ys f2 (i + 1) (nth xs (i + 1))) tol
      let affine := (List.range (n - 2)).all fun i => (nth ys (i + 1) - nth ys i) * (nth xs (i + 2) - nth xs (i + 1)) == (nth ys (i + 2) - nth ys (i + 1)) * (nth xs (i + 1) - nth xs i)
      let slope := (nth ys 1 - nth ys 0) / (nth xs 1 - nth xs 0)
      let lineOk := !affine || periodic || (pts.all fun (r, v, d) => close v (nth ys 0 + slope * (r - nth xs 0)) tol && close d slope tol)
      -- periodic: value, slope and curvature equal at both ends
      let last := n - 2
      let endsVal := close (nth ys 0) (nth ys (n - 1)) tol
      let endsSlope := close (cubicDerivAt xs ys f2 0 (nth xs 0)) (cubicDerivAt xs ys f2 last (nth xs (n - 1))) (tol * 100)
      let endsCurv := close (nth f2 0) (nth f2 (n - 1)) (tol * 100)
      let perOk := !periodic || (endsVal && endsSlope && endsCurv)
      let base := interior && natural && knots && contin && lineOk
      pure ({ agree := agree, propOk := base && perOk,
              msg := if base && perOk then "Calculate differs from the generated basis functions"
              else if base then s!"PERIODIC-CUBIC-ENDS value={endsVal} slope={endsSlope} curvature={endsCurv}: slopes {cubicDerivAt xs ys f2 0 (nth xs 0)} vs {cubicDerivAt xs ys f2 last (nth xs (n - 1))}"
              else s!"C1(residual)={interior} endCurvatureZero={natural} interpolates={knots} continuous={contin} lineExact={lineOk}",
              tag := s!"cubic:{if periodic then "periodic" else "natural"}:{if affine then "line" else "data"}:n{if n ≤ 12 then "small" else "large"}" } : Verdict)).getD (bad "cubic fields")
  | _ => bad "cubic arity"

def handleCubicSum (args : List String) : Verdict :=
  match args with
  | _per :: ks :: rest =>
    (do
      let k ← ks.toNat?
      let (ev, r) ← takeRats (3 * k) rest
      if !r.isEmpty then none else
      let ok := (triples ev).all fun (a, b, c) => close (a + b) c (tol * 10)
      pure ({ propOk := ok, msg := "spline of a sum differs from the sum of the splines", tag := "cubic:superposition" } : Verdict)).getD (bad "cubicsum fields")
  | _ => bad "cubicsum arity"

def handleLin (args : List String) : Verdict :=
  match args with
  | ns :: rest =>
    (do
      let n ← ns.toNat?
      let (xs, r1) ← takeRats n rest
      let (ys, r2) ← takeRats n r1
      let k ← r2.head? >>= String.toNat?
      let (ev, r3) ← takeRats (3 * k) r2.tail
      if !r3.isEmpty then none else
      let pts := triples ev
      let agree := pts.all fun (r, v, d) => close (linCalc xs ys r) v tol && close (linDeriv xs ys r) d tol
      let knots := (List.range n).all fun i => (pts.all fun (r, v, _) => r != nth xs i || close v (nth ys i) tol)
      -- between two knots the value is the chord
      let chord := pts.all fun (r, v, _) =>
        let i := getInterval xs r
        close v (nth ys i + (nth ys (i + 1) - nth ys i) * (r - nth xs i) / (nth xs (i + 1) - nth xs i)) tol
      pure ({ agree := agree, propOk := knots && chord, msg := s!"interpolates={knots} chord={chord}", tag := "lin" } : Verdict)).getD (bad "lin fields")
  | _ => bad "lin arity"

def handleAkima (args : List String) : Verdict :=
  match args with
  | per :: ns :: rest =>
    (do
      let n ← ns.toNat?
      let (xs, r1) ← takeRats n rest
      let (ys, r2) ← takeRats n r1
      let (ts, r3) ← takeRats n r2
      let k ← r3.head? >>= String.toNat?
      let (ev, r4) ← takeRats (3 * k) r3.tail
      if !r4.isEmpty then none else
      let pts := triples ev
      let agreeEval := pts.all fun (r, v, d) => close (akimaCalc xs ys ts r) v tol && close (akimaDeriv xs ys ts r) d tol
      -- interior slopes follow the Akima rule (cases where the degenerate test is decided by 1e-15 are not compared)
      let agreeSlopes := (List.range n).all fun i => i < 2 || i + 2 ≥ n || close (akimaInteriorSlope xs ys i) (nth ts i) (tol * 100) ||
        (let m (q : Nat) := (nth ys (q + 1) - nth ys q) / (nth xs (q + 1) - nth xs q); absRat (m (i - 2) - m (i - 1)) ≤ tol || absRat (m i - m (i + 1)) ≤ tol)
      let knots := (List.range n).all fun i => (pts.all fun (r, v, _) => r != nth xs i || close v (nth ys i) tol)
      -- C1: left piece at its right end has the value and slope of the knot
      let c1 := (List.range (n - 1)).all fun i =>
        let h := nth xs (i + 1) - nth xs i
        close (akimaPiece h (nth ys i) (nth ys (i + 1)) (nth ts i) (nth ts (i + 1)) h) (nth ys (i + 1)) tol &&
        close (akimaPieceDeriv h (nth ys i) (nth ys (i + 1)) (nth ts i) (nth ts (i + 1)) h) (nth ts (i + 1)) (tol * 100)
      let affine := (List.range (n - 2)).all fun i => (nth ys (i + 1) - nth ys i) * (nth xs (i + 2) - nth xs (i + 1)) == (nth ys (i + 2) - nth ys (i + 1)) * (nth xs (i + 1) - nth xs i)
      let slope := (nth ys 1 - nth ys 0) / (nth xs 1 - nth xs 0)
      let lineOk := !affine || per == "1" || (pts.all fun (r, v, _) => close v (nth ys 0 + slope * (r - nth xs 0)) tol)
      -- periodic: the two ends are one point of the periodic function — equal slope there (the value is equal by the input's y(N-1) = y(0))
      let perOk := per != "1" || close (nth ts 0) (nth ts (n - 1)) (tol * 100)
      pure ({ agree := agreeEval && agreeSlopes, propOk := knots && c1 && lineOk && perOk,
              msg := s!"interpolates={knots} C1={c1} lineExact={lineOk} periodicEndSlopesEqual={perOk}", tag := s!"akima:{if per == "1" then "periodic" else "natural"}:{if affine then "line" else "data"}" } : Verdict)).getD (bad "akima fields")
  | _ => bad "akima arity"

def handleSmooth (args : List String) : Verdict :=
  match args with
  | ns :: ks :: rest =>
    (do
      let n ← ns.toNat?
      let k ← ks.toNat?
      let (ys, r1) ← takeRats n rest
      let (out, r2) ← takeRats n r1
      if !r2.isEmpty then none else
      let m := smooth k ys
      let agree := (m.zip out).all fun (a, b) => close a b tol
      let ends := close (nth out 0) (nth ys 0) 0 && close (nth out (n - 1)) (nth ys (n - 1)) 0
      let affine := (List.range (n - 2)).all fun i => nth ys (i + 1) - nth ys i == nth ys (i + 2) - nth ys (i + 1)
      let lineOk := !affine || ((ys.zip out).all fun (a, b) => close a b tol)
      pure ({ agree := agree, propOk := ends && lineOk, msg := s!"endPointsKept={ends} lineUnchanged={lineOk}", tag := s!"smooth:{k}" } : Verdict)).getD (bad "smooth fields")
  | _ => bad "smooth arity"

def handleFit (args : List String) : Verdict :=
  match args with
  | [_g, _m, res, em, ee, sm, se] =>
    match parseRat2 em ee, parseRat2 sm se with
    | some err, some scale =>
      let ok := res == "ok" && err ≤ scale / 1000000
      { propOk := ok, msg := s!"fit of data sampled from a spline-space function: status {res}, max error {err}", tag := "fit:reproduces-spline-space" }
    | _, _ => bad "fit values"
  | _ => bad "fit arity"

def handle (args : List String) : Verdict :=
  match args with
  | "cubic" :: r => handleCubic r
  | "cubicsum" :: r => handleCubicSum r
  | "lin" :: r => handleLin r
  | "akima" :: r => handleAkima r
  | "smooth" :: r => handleSmooth r
  | "fitrepro" :: r => handleFit r
  | "resample" :: r => Driver.C12R.handle r
  | "resfit" :: r => Driver.C12R.handleFit r
  | _ => bad "unknown op"

end Driver.C12
