import Std.Data.HashMap
import Votca.Base.Util
import Driver.C18
import Driver.C13
import Driver.C20
import Driver.C14
import Driver.C02
import Driver.C01
import Driver.C03
import Driver.C11
import Driver.C16
import Driver.C05
import Driver.C10
import Driver.C12
import Driver.C04
import Driver.C07
import Driver.C06
import Driver.C08
import Driver.C15
import Driver.C17
import Driver.C19
import Driver.C09
/-! `votca_driver`: reads protocol lines `Cxx <op> <args…>` (implementation outputs included) on stdin,
runs the executable model definitions (the ones the theorems are about) on the same inputs, prints
`DISAGREE` / `PROPFAIL` lines for the cases that do not check and a `SUMMARY` at the end. -/
open Votca

structure DAcc where
  total : Nat := 0
  agree : Nat := 0
  disagree : Nat := 0
  propfail : Nat := 0
  printed : Nat := 0
  tags : Std.HashMap String Nat := {}

/-- long lines are cut when echoed, except whole-run records (C04), which are needed intact for the replay -/
def clip (s : String) : String := if s.length > 6000 && !((s.splitOn " :: C04 ").length > 1) && !((s.splitOn " :: C01 erun ").length > 1) then (s.take 6000).toString ++ " …" else s
def clipMsg (s : String) : String := if s.length > 400 then (s.take 400).toString ++ " …" else s

def dispatch (toks : List String) : Verdict :=
  match toks with
  | "C18" :: r => Driver.C18.handle r
  | "C13" :: r => Driver.C13.handle r
  | "C20" :: r => Driver.C20.handle r
  | "C14" :: r => Driver.C14.handle r
  | "C02" :: r => Driver.C02.handle r
  | "C01" :: r => Driver.C01.handle r
  | "C03" :: r => Driver.C03.handle r
  | "C11" :: r => Driver.C11.handle r
  | "C16" :: r => Driver.C16.handle r
  | "C05" :: r => Driver.C05.handle r
  | "C10" :: r => Driver.C10.handle r
  | "C12" :: r => Driver.C12.handle r
  | "C04" :: r => Driver.C04.handle r
  | "C07" :: r => Driver.C07.handle r
  | "C06" :: r => Driver.C06.handle r
  | "C08" :: r => Driver.C08.handle r
  | "C15" :: r => Driver.C15.handle r
  | "C17" :: r => Driver.C17.handle r
  | "C19" :: r => Driver.C19.handle r
  | "C09" :: r => Driver.C09.handle r
  | _ => { agree := false, msg := "bad-line unknown property", tag := "bad" }

partial def loop (h : IO.FS.Stream) (maxPrint : Nat) (acc : DAcc) : IO DAcc := do
  let line ← h.getLine
  if line.isEmpty then return acc
  let l := line.trimAscii.toString
  if l.isEmpty || l.startsWith "#" then loop h maxPrint acc else
  let toks := l.splitOn " " |>.filter (· ≠ "")
  -- a NaN or infinity among the implementation's outputs is a failure of any numeric property (inputs never contain one)
  let v := if toks.any (fun t => t == "nan" || t == "inf" || t == "-inf")
           then { agree := false, propOk := false, msg := "non-finite value in the implementation output", tag := "non-finite" }
           else dispatch toks
  let mut a := { acc with total := acc.total + 1, tags := acc.tags.insert v.tag (acc.tags.getD v.tag 0 + 1) }
  if v.agree then a := { a with agree := a.agree + 1 } else
    a := { a with disagree := a.disagree + 1 }
    if a.printed < maxPrint then
      IO.println (clip s!"DISAGREE n={a.total} {clipMsg v.msg} :: {l}")
      a := { a with printed := a.printed + 1 }
  if !v.propOk then
    a := { a with propfail := a.propfail + 1 }
    if a.printed < maxPrint then
      IO.println (clip s!"PROPFAIL n={a.total} {clipMsg v.msg} :: {l}")
      a := { a with printed := a.printed + 1 }
  loop h maxPrint a

def main (args : List String) : IO UInt32 := do
  let maxPrint := (args.head? >>= String.toNat?).getD 200
  let acc ← loop (← IO.getStdin) maxPrint {}
  let tags := acc.tags.toList.toArray.qsort (fun a b => a.1 < b.1) |>.toList
  let ts := ",".intercalate (tags.map (fun (k, v) => s!"{k}={v}"))
  IO.println s!"SUMMARY total={acc.total} agree={acc.agree} disagree={acc.disagree} propfail={acc.propfail} tags={ts}"
  return 0
